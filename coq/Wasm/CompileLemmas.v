(** Lemmas about [Wasm/Compile.v] for straight-line code: well-formedness of the
    register-allocation state ([cwf]: dynamic locations on the stack are outside the
    reusable pool, the pool is sorted and within range, constants are numbered by position),
    and the effect of [handle_opcode] on basic instructions without control flow ([score]). *)
From Coq Require Import ZArith NArith List Lia Bool.
From CB Require Import Wasm.Syntax Wasm.Compile.
Import ListNotations.
Local Open Scope Z_scope.
Local Arguments i32_bytes : simpl never.
Local Arguments u32_bytes : simpl never.
Local Arguments u16_bytes : simpl never.

Ltac splits := repeat match goal with |- _ /\ _ => split end.

Lemma provider_eqb_eq a b : provider_eqb a b = true <-> a = b.
Proof.
  destruct a, b; cbn; split; intros H; try discriminate; try (apply Z.eqb_eq in H; subst; reflexivity);
    try (inversion H; apply Z.eqb_refl).
Qed.
Lemma existsb_provider p st : existsb (provider_eqb p) st = true <-> In p st.
Proof.
  rewrite existsb_exists. split.
  - intros (x & Hx & E). apply provider_eqb_eq in E. subst. exact Hx.
  - intros H. exists p. split; auto. apply provider_eqb_eq. reflexivity.
Qed.

Fixpoint sorted_lt (l : list Z) : Prop :=
  match l with [] => True | x :: r => Forall (Z.lt x) r /\ sorted_lt r end.

Lemma insert_sorted_in x l y : In y (insert_sorted x l) <-> y = x \/ In y l.
Proof.
  induction l as [|a r IH]; cbn [insert_sorted].
  - cbn. intuition.
  - destruct (Z.ltb_spec x a); [cbn; intuition|]. destruct (Z.eqb_spec x a).
    + subst. cbn. intuition.
    + cbn [In]. rewrite IH. intuition.
Qed.
Lemma insert_sorted_sorted x l : sorted_lt l -> sorted_lt (insert_sorted x l).
Proof.
  induction l as [|a r IH]; cbn [insert_sorted sorted_lt]; intros H.
  - split; [constructor|exact I].
  - destruct H as [Ha Hr]. destruct (Z.ltb_spec x a).
    + cbn [sorted_lt]. split; [|split; auto]. constructor; auto.
      eapply Forall_impl; [|exact Ha]. cbn. intros; lia.
    + destruct (Z.eqb_spec x a); [cbn [sorted_lt]; auto|]. cbn [sorted_lt]. split; [|apply IH; auto].
      apply Forall_forall. intros y Hy. apply insert_sorted_in in Hy. destruct Hy as [->|Hy]; [lia|].
      rewrite Forall_forall in Ha. apply Ha. exact Hy.
Qed.
Lemma sorted_head_notin x r : sorted_lt (x :: r) -> ~ In x r.
Proof. intros [H _] Hin. rewrite Forall_forall in H. specialize (H x Hin). lia. Qed.

(** ** well-formed allocation state; [nl] = number of locals (registers [0, nl)) *)
Definition pwf (nl : Z) (s : cstate) (p : provider) : Prop :=
  match p with
  | PDyn r => nl <= r < c_next s /\ ~ In r (c_reuse s)
  | PLocal i => 0 <= i < nl
  | PConst c => c < 0 /\ exists v, nth_error (c_consts s) (Z.to_nat (- (c + 1))) = Some (v, c)
  end.
Record cwf (nl : Z) (s : cstate) : Prop := {
  w_next : 0 <= nl <= c_next s;
  w_stack : Forall (pwf nl s) (c_stack s);
  w_reuse : Forall (fun r => nl <= r < c_next s) (c_reuse s);
  w_sorted : sorted_lt (c_reuse s);
  w_consts : forall k v idx, nth_error (c_consts s) k = Some (v, idx) -> idx = - Z.of_nat k - 1
}.

(** [same_alloc s s']: same stack / dynamic locations / constants (only output, back-patch
    stack or last_provide_loc differ) *)
Definition same_alloc (s s' : cstate) : Prop :=
  c_stack s' = c_stack s /\ c_next s' = c_next s /\ c_reuse s' = c_reuse s /\ c_consts s' = c_consts s.
Lemma cwf_same nl s s' : same_alloc s s' -> cwf nl s -> cwf nl s'.
Proof.
  intros (E1 & E2 & E3 & E4) [H1 H2 H3 H4 H5]. constructor; rewrite ?E1, ?E2, ?E3, ?E4; auto.
  eapply Forall_impl; [|exact H2]. intros p Hp. destruct p; cbn in *; rewrite ?E2, ?E3, ?E4; auto.
Qed.
Lemma same_alloc_refl s : same_alloc s s. Proof. repeat split. Qed.
Lemma same_alloc_emit s bs : same_alloc s (emit s bs). Proof. repeat split. Qed.
Lemma same_alloc_set_last s l : same_alloc s (set_last s l). Proof. repeat split. Qed.
Lemma same_alloc_set_out s o : same_alloc s (set_out s o). Proof. repeat split. Qed.
Lemma same_alloc_trans a b c : same_alloc a b -> same_alloc b c -> same_alloc a c.
Proof. intros (A1 & A2 & A3 & A4) (B1 & B2 & B3 & B4). repeat split; congruence. Qed.

Lemma pwf_ext nl s s' p :
  c_next s' = c_next s -> c_reuse s' = c_reuse s -> c_consts s' = c_consts s -> pwf nl s p -> pwf nl s' p.
Proof. intros E1 E2 E3. destruct p; cbn; rewrite ?E1, ?E2, ?E3; auto. Qed.
Lemma cwf_set_stack nl s st : cwf nl s -> Forall (pwf nl s) st -> cwf nl (set_stack s st).
Proof.
  intros [W1 W2 W3 W4 W5] H. constructor; cbn; auto.
Qed.

(** unchanged apart from the allocation part: output, back-patch stack *)
Definition same_out (s s' : cstate) : Prop := c_out s' = c_out s /\ c_bp s' = c_bp s /\ c_last s' = c_last s.

(** ** consume *)
Lemma consume_spec nl s p s' :
  consume s = Some (p, s') -> cwf nl s ->
  c_stack s = p :: c_stack s' /\ same_out s s' /\ c_next s' = c_next s /\ c_consts s' = c_consts s
  /\ cwf nl s' /\ pwf nl s p.
Proof.
  unfold consume. destruct (c_stack s) as [|q st] eqn:Es; [discriminate|].
  intros H W. pose proof W as W0. destruct W as [W1 W2 W3 W4 W5]. rewrite Es in W2. inversion W2 as [|? ? Wq Wst]; subst.
  destruct (existsb (provider_eqb q) st) eqn:Ex; cbn [negb] in H; inversion H; subst; clear H.
  - cbn. splits; auto; try (unfold same_out; cbn; tauto). apply cwf_set_stack; auto.
  - assert (Hn : ~ In p st) by (intro Hin; apply existsb_provider in Hin; congruence).
    destruct p as [r|i|c]; cbn [dyn_reuse set_dyn set_stack c_stack c_out c_bp c_last c_next c_consts c_reuse].
    + cbn in Wq. splits; auto; try (unfold same_out; cbn; tauto). constructor; cbn; auto.
      * apply Forall_forall. intros q Hq. rewrite Forall_forall in Wst. specialize (Wst q Hq).
        destruct q as [r'|i'|c']; cbn in *; auto. destruct Wst as [B N]. split; auto.
        intro Hin. apply insert_sorted_in in Hin. destruct Hin as [->|]; [apply Hn; exact Hq|contradiction].
      * apply Forall_forall. intros y Hy. apply insert_sorted_in in Hy. destruct Hy as [->|Hy]; [tauto|].
        rewrite Forall_forall in W3. apply W3. exact Hy.
      * apply insert_sorted_sorted. auto.
    + splits; auto; try (unfold same_out; cbn; tauto). apply cwf_set_stack; auto.
    + splits; auto; try (unfold same_out; cbn; tauto). apply cwf_set_stack; auto.
Qed.

(** ** dyn_get / provide *)
Lemma dyn_get_spec nl s r s' :
  dyn_get s = (r, s') -> cwf nl s ->
  nl <= r < c_next s' /\ ~ In r (c_reuse s') /\ ~ In (PDyn r) (c_stack s)
  /\ c_stack s' = c_stack s /\ same_out s s' /\ c_consts s' = c_consts s
  /\ c_next s <= c_next s' <= c_next s + 1
  /\ (forall y, In y (c_reuse s') -> In y (c_reuse s))
  /\ cwf nl s'.
Proof.
  unfold dyn_get. intros H [W1 W2 W3 W4 W5]. destruct (c_reuse s) as [|x rs] eqn:Er; inversion H; subst; clear H;
    cbn [set_dyn c_stack c_out c_bp c_last c_next c_consts c_reuse].
  - splits; auto; try lia; try (unfold same_out; cbn; tauto).
    + intro Hin. rewrite Forall_forall in W2. specialize (W2 _ Hin). cbn in W2. lia.
    + constructor; cbn; auto; try lia. eapply Forall_impl; [|exact W2]. intros p Hp.
      destruct p; cbn in *; rewrite ?Er in *; auto. destruct Hp. split; [lia|auto].
  - inversion W3 as [|? ? Wx Wrs]; subst. pose proof (sorted_head_notin _ _ W4) as Hnot. destruct W4 as [_ W4'].
    splits; auto; try lia; try (unfold same_out; cbn; tauto).
    all: try (intro Hin; rewrite Forall_forall in W2; specialize (W2 _ Hin); cbn in W2; rewrite Er in W2; apply (proj2 W2); left; reflexivity).
    all: try (intros y Hy; right; exact Hy).
    constructor; cbn; auto. eapply Forall_impl; [|exact W2]. intros p Hp.
    destruct p; cbn in *; rewrite ?Er in *; auto. destruct Hp as [B N]. split; auto. intro; apply N; right; auto.
Qed.

Lemma cwf_push_dyn nl s r :
  cwf nl s -> nl <= r < c_next s -> ~ In r (c_reuse s) -> cwf nl (set_stack s (PDyn r :: c_stack s)).
Proof.
  intros [W1 W2 W3 W4 W5] B N. constructor; cbn; auto;
    try (constructor; [cbn; auto|]; eapply Forall_impl; [|exact W2]; intros p Hp; destruct p; cbn in *; auto).
Qed.
Lemma cwf_push_local nl s i :
  cwf nl s -> 0 <= i < nl -> cwf nl (provide_existing s (PLocal i)).
Proof.
  intros [W1 W2 W3 W4 W5] B. constructor; cbn; auto;
    try (constructor; [cbn; auto|]; eapply Forall_impl; [|exact W2]; intros p Hp; destruct p; cbn in *; auto).
Qed.

(** ** push_constant *)
Lemma push_constant_spec nl s c :
  cwf nl s ->
  exists idx, c_stack (push_constant s c) = PConst idx :: c_stack s
  /\ same_out s (push_constant s c) /\ c_next (push_constant s c) = c_next s
  /\ c_reuse (push_constant s c) = c_reuse s
  /\ (exists ext, c_consts (push_constant s c) = c_consts s ++ ext)
  /\ idx < 0 /\ nth_error (c_consts (push_constant s c)) (Z.to_nat (- (idx + 1))) = Some (c, idx)
  /\ cwf nl (push_constant s c).
Proof.
  intros [W1 W2 W3 W4 W5]. unfold push_constant.
  destruct (find (fun e => fst e =? c) (c_consts s)) as [[v idx]|] eqn:F.
  - apply find_some in F. destruct F as [Hin Hc]. cbn in Hc. apply Z.eqb_eq in Hc. subst v.
    apply In_nth_error in Hin. destruct Hin as [k Hk]. pose proof (W5 _ _ _ Hk) as Ei.
    exists idx. cbn. splits; auto; try lia; try (unfold same_out; cbn; tauto).
    + exists []. rewrite app_nil_r. reflexivity.
    + subst idx. replace (Z.to_nat (- (- Z.of_nat k - 1 + 1))) with k by lia. exact Hk.
    + constructor; cbn; auto. constructor; auto. cbn. split; [lia|]. exists c.
      subst idx. replace (Z.to_nat (- (- Z.of_nat k - 1 + 1))) with k by lia. exact Hk.
  - set (idx := - Z.of_nat (length (c_consts s)) - 1).
    assert (Hn : nth_error (c_consts s ++ [(c, idx)]) (Z.to_nat (- (idx + 1))) = Some (c, idx)).
    { unfold idx. replace (Z.to_nat (- (- Z.of_nat (length (c_consts s)) - 1 + 1))) with (length (c_consts s)) by lia.
      rewrite nth_error_app2 by lia. rewrite Nat.sub_diag. reflexivity. }
    assert (F1 : Forall (pwf nl (set_stack (set_consts s (c_consts s ++ [(c, idx)])) (PConst idx :: c_stack s)))
                        (PConst idx :: c_stack s)).
    { constructor; [cbn; split; [unfold idx; lia|exists c; exact Hn]|].
      eapply Forall_impl; [|exact W2]. intros p Hp. destruct p; cbn in *; auto.
      destruct Hp as [Hneg (v & Hv)]. split; auto. exists v. rewrite nth_error_app1; auto.
      apply nth_error_Some. congruence. }
    assert (F2 : forall k v i, nth_error (c_consts s ++ [(c, idx)]) k = Some (v, i) -> i = - Z.of_nat k - 1).
    { intros k v i Hk. destruct (Nat.lt_ge_cases k (length (c_consts s))).
      - rewrite nth_error_app1 in Hk by lia. eapply W5; eauto.
      - rewrite nth_error_app2 in Hk by lia. destruct (k - length (c_consts s))%nat eqn:E.
        + cbn in Hk. inversion Hk. unfold idx. lia.
        + cbn in Hk. destruct n; discriminate. }
    exists idx. cbn. splits; auto; try (unfold idx; lia); try (unfold same_out; cbn; tauto).
    + exists [(c, idx)]. reflexivity.
    + constructor; cbn; auto.
Qed.

(** ** the straight-line part of [handle_opcode] *)
Definition set_tee (lp : option Z) (s : cstate) (i : nat) (is_set : bool) : option cstate :=
  let idx := Z.of_nat i in
  let '(st', s1, reserve) := preserve_local idx (c_stack s) s None in
  let s2 := set_stack s1 st' in
  let s3 := match reserve with
            | Some rp => push_loc (emit (push_op s2 ICopy) (i32_bytes idx)) rp
            | None => s2
            end in
  let short := match lp, reserve with Some bl, None => Some bl | _, _ => None end in
  match short with
  | Some back_loc =>
      match consume (back_patch s3 back_loc idx) with
      | Some (_, s4) => Some (if is_set then s4 else provide_existing s4 (PLocal idx))
      | None => None
      end
  | None =>
      match push_consume (push_op s3 ICopy) with
      | Some (_, s4) =>
          let s5 := emit s4 (i32_bytes idx) in
          Some (if is_set then s5 else provide_existing s5 (PLocal idx))
      | None => None
      end
  end.

Definition const_i64 (t : valtype) (z : Z) : Z :=
  match t with
  | T_i32 => if z <? 2147483648 then z else z - 4294967296
  | T_i64 => if z <? 9223372036854775808 then z else z - 18446744073709551616
  end.

(** instructions of the shape  opcode, immediate bytes, k consumed operands, [provided result] *)
Definition emit_imm (s : cstate) (imm : list N) : cstate := match imm with [] => s | _ => emit s imm end.
Definition gi (s : cstate) (opc : N) (imm : list N) (k : nat) (prov : bool) : option cstate :=
  match push_consume_n k (emit_imm (push_op s opc) imm) with
  | Some s1 => Some (if prov then push_provide s1 else s1)
  | None => None
  end.
Definition gi_shape (b : binstr) : option (N * list N * nat * bool) :=
  match b with
  | BSelect => Some (ISelect, [], 3%nat, true)
  | BGlobalGet i => Some (IGlobalGet, u16_bytes (Z.of_nat i), 0%nat, true)
  | BGlobalSet i => Some (IGlobalSet, u16_bytes (Z.of_nat i), 1%nat, false)
  | BLoad t pk off => Some (load_opcode t pk, u32_bytes (Z.of_N off), 1%nat, true)
  | BStore t pk off => Some (store_opcode t pk, u32_bytes (Z.of_N off), 2%nat, false)
  | BMemorySize => Some (IMemorySize, [], 0%nat, true)
  | BMemoryGrow => Some (IMemoryGrow, [], 1%nat, true)
  | BUnop t o => Some (unop_opcode t o, [], 1%nat, true)
  | BBinop t o => Some (binop_opcode t o, [], 2%nat, true)
  | BEqz t => Some (eqz_opcode t, [], 1%nat, true)
  | BRelop t o => Some (relop_opcode t o, [], 2%nat, true)
  | BCvt o => Some (cvt_opcode o, [], 1%nat, true)
  | _ => None
  end.

(** [score lp s b]: what [handle_opcode] does for the basic instruction [b] in reachable code,
    [s] being the state with [last_provide_loc] already taken ([lp]) *)
Definition score (lp : option Z) (s : cstate) (b : binstr) : option cstate :=
  match b with
  | BNop => Some s
  | BDrop => match consume s with Some (_, s1) => Some s1 | None => None end
  | BLocalGet i => Some (provide_existing s (PLocal (Z.of_nat i)))
  | BLocalSet i => set_tee lp s i true
  | BLocalTee i => set_tee lp s i false
  | BConst t z => Some (push_constant s (const_i64 t z))
  | _ => match gi_shape b with
         | Some (opc, imm, k, prov) => gi s opc imm k prov
         | None => None
         end
  end.

Definition straight (b : binstr) : bool :=
  match b with
  | BNop | BDrop | BLocalGet _ | BLocalSet _ | BLocalTee _ | BConst _ _ => true
  | _ => match gi_shape b with Some _ => true | None => false end
  end.

Lemma handle_eq cx s v b :
  straight b = true ->
  handle_opcode cx s v Reachable (OBasic b) =
  match score (c_last s) (set_last s None) b with
  | Some x => if (length (c_stack x) =? v_opds v)%nat then Some x else None
  | None => None
  end.
Proof.
  intros Hs. destruct b; try discriminate Hs; try reflexivity.
  all: repeat match goal with
              | x : option _ |- _ => destruct x
              | x : (_ * _)%type |- _ => destruct x
              | x : packsize |- _ => destruct x
              | x : sx |- _ => destruct x
              | x : valtype |- _ => destruct x
              end; try reflexivity.
  all: unfold handle_opcode; cbv beta iota zeta; unfold score, gi, gi_shape, emit_imm, push_nary;
       unfold u16_bytes, u32_bytes; cbn [push_consume_n le_bytes];
       repeat match goal with
              | |- context [match push_consume ?X with _ => _ end] => destruct (push_consume X) as [[? ?]|]
              | |- context [match push_consume_n ?k ?X with _ => _ end] => destruct (push_consume_n k X)
              end; try reflexivity.
Qed.

Lemma handle_score cx s v b s' :
  straight b = true -> handle_opcode cx s v Reachable (OBasic b) = Some s' ->
  score (c_last s) (set_last s None) b = Some s' /\ length (c_stack s') = v_opds v.
Proof.
  intros Hs H. rewrite (handle_eq cx s v b Hs) in H.
  destruct (score (c_last s) (set_last s None) b) as [x|]; [|discriminate].
  destruct (Nat.eqb_spec (length (c_stack x)) (v_opds v)); [|discriminate].
  inversion H; subst. auto.
Qed.

Lemma straight_vstep cx v b v' :
  straight b = true -> v_unreach v = None -> vstep cx v (OBasic b) = Some v' -> v_unreach v' = None.
Proof.
  intros Hs Hu H.
  assert (P : forall n w, v_unreach (v_pushn n w) = v_unreach w).
  { induction n; intros; cbn; auto. rewrite IHn. reflexivity. }
  assert (Q1 : forall w w', v_pop w = Some w' -> v_unreach w' = v_unreach w).
  { intros w w'. unfold v_pop. destruct (v_ctrls w); [discriminate|].
    destruct (v_opds w =? vf_height v0)%nat; [destruct (vf_unreachable v0)|]; intros E; inversion E; reflexivity. }
  assert (Q : forall n w w', v_popn n w = Some w' -> v_unreach w' = v_unreach w).
  { induction n; intros w w' E; cbn in E; [inversion E; reflexivity|].
    destruct (v_pop w) eqn:E1; [|discriminate]. rewrite (IHn _ _ E). eapply Q1; eauto. }
  destruct b; try discriminate Hs; cbn [vstep] in H;
    try (destruct (pops_pushes _) as [po pu] eqn:Epp; destruct (v_popn po v) eqn:E; [|discriminate];
         inversion H; rewrite P; rewrite (Q _ _ _ E); exact Hu).
Qed.

(** ** push_consume_n *)
Definition loc_bytes (ps : list provider) : list N := flat_map (fun p => i32_bytes (provider_idx p)) ps.

Lemma push_consume_n_spec nl k : forall s s',
  push_consume_n k s = Some s' -> cwf nl s ->
  exists ps, c_stack s = ps ++ c_stack s' /\ length ps = k
  /\ c_out s' = c_out s ++ loc_bytes ps /\ c_bp s' = c_bp s /\ c_last s' = c_last s
  /\ c_next s' = c_next s /\ c_consts s' = c_consts s /\ cwf nl s' /\ Forall (pwf nl s) ps.
Proof.
  induction k as [|k IH]; intros s s' H W; cbn [push_consume_n] in H.
  - inversion H; subst. exists []. cbn. rewrite app_nil_r. splits; auto.
  - unfold push_consume in H. destruct (consume s) as [[p s1]|] eqn:E; [|discriminate].
    destruct (consume_spec nl s p s1 E W) as (Es & (O1 & O2 & O3) & En & Ec & W1 & Wp).
    assert (W1' : cwf nl (push_loc s1 p)) by (eapply cwf_same; [|exact W1]; unfold push_loc; apply same_alloc_emit).
    destruct (IH _ _ H W1') as (ps & Es' & Lps & Eo & Eb & El & En' & Ec' & W' & Fp).
    unfold push_loc, emit in Eo, Eb, El, En', Ec', Es'. cbn [c_bp c_last c_next c_consts c_out c_stack set_out] in Eo, Eb, El, En', Ec', Es'.
    exists (p :: ps). splits; auto; try congruence.
    + rewrite Es, Es'. reflexivity.
    + cbn [length]. lia.
    + rewrite Eo, O1. unfold loc_bytes. cbn [flat_map]. rewrite app_assoc. reflexivity.
    + constructor; auto. eapply Forall_impl; [|exact Fp]. intros q Hq.
      destruct q as [r|l|c]; cbn [pwf] in *; auto.
      * unfold push_loc, emit in Hq. cbn [c_next c_reuse set_out] in Hq.
        destruct Hq as [B N]. rewrite En in B. split; auto. intro Hin. apply N.
        unfold consume in E. destruct (c_stack s) as [|q0 st0]; [discriminate|].
        destruct (negb (existsb (provider_eqb q0) st0)); inversion E; subst; cbn; auto.
        destruct p; cbn; auto. apply insert_sorted_in. right; exact Hin.
      * unfold push_loc, emit in Hq. cbn [c_consts set_out] in Hq. rewrite Ec in Hq. exact Hq.
Qed.

(** ** provide *)
Lemma push_provide_spec nl s :
  cwf nl s ->
  exists r, c_stack (push_provide s) = PDyn r :: c_stack s
  /\ c_out (push_provide s) = c_out s ++ i32_bytes r
  /\ c_last (push_provide s) = Some (cur_off s) /\ c_bp (push_provide s) = c_bp s
  /\ c_consts (push_provide s) = c_consts s
  /\ c_next s <= c_next (push_provide s) <= c_next s + 1
  /\ nl <= r < c_next (push_provide s) /\ ~ In (PDyn r) (c_stack s)
  /\ cwf nl (push_provide s).
Proof.
  intros W. unfold push_provide, provide. destruct (dyn_get s) as [r s1] eqn:E.
  destruct (dyn_get_spec nl s r s1 E W) as (B & N & Nst & Es & (O1 & O2 & O3) & Ec & Bn & Sub & W1).
  assert (C : cwf nl (set_last (emit (set_stack s1 (PDyn r :: c_stack s1)) (i32_bytes r))
                               (Some (cur_off (set_stack s1 (PDyn r :: c_stack s1)))))).
  { eapply cwf_same; [|apply (cwf_push_dyn nl s1 r W1 B N)]. repeat split. }
  exists r. cbn [c_stack c_out c_last c_bp c_consts c_next set_last emit set_out set_stack].
  unfold cur_off in *. cbn [c_out set_stack] in *. rewrite Es, O1 in *. splits; auto; try lia.
Qed.

(** ** preserve_local *)
Definition is_local (idx : Z) (p : provider) : bool := match p with PLocal l => l =? idx | _ => false end.
Definition has_local (idx : Z) (st : list provider) : bool := existsb (is_local idx) st.
Definition subst_local (idx : Z) (rp : provider) (p : provider) : provider := if is_local idx p then rp else p.

Lemma map_subst_nolocal idx rp r : has_local idx r = false -> map (subst_local idx rp) r = r.
Proof.
  induction r as [|q r IH]; cbn [has_local existsb map]; intros H; [reflexivity|].
  apply orb_false_iff in H. destruct H as [H1 H2]. unfold subst_local at 1. rewrite H1. f_equal. apply IH. exact H2.
Qed.

Lemma preserve_local_spec idx st : forall s res,
  preserve_local idx st s res =
  if has_local idx st then
    match res with
    | Some rp => (map (subst_local idx rp) st, s, Some rp)
    | None => let '(d, s2) := dyn_get s in (map (subst_local idx (PDyn d)) st, s2, Some (PDyn d))
    end
  else (st, s, res).
Proof.
  induction st as [|p r IH]; intros s res; cbn [preserve_local has_local existsb map].
  - reflexivity.
  - rewrite IH. fold (has_local idx r).
    destruct (is_local idx p) eqn:Ep; cbn [orb].
    + destruct p as [d|l|c]; cbn [is_local] in Ep; try discriminate. rewrite Ep.
      assert (Sp : forall rp, subst_local idx rp (PLocal l) = rp) by (intros; unfold subst_local; cbn [is_local]; rewrite Ep; reflexivity).
      destruct (has_local idx r) eqn:Hr.
      * destruct res as [rp|].
        -- rewrite Sp. reflexivity.
        -- destruct (dyn_get s) as [d s2]. rewrite Sp. reflexivity.
      * destruct res as [rp|].
        -- rewrite Sp, map_subst_nolocal by exact Hr. reflexivity.
        -- destruct (dyn_get s) as [d s2]. rewrite Sp, map_subst_nolocal by exact Hr. reflexivity.
    + assert (Sp : forall rp, subst_local idx rp p = p) by (intros; unfold subst_local; rewrite Ep; reflexivity).
      destruct (has_local idx r) eqn:Hr.
      * destruct res as [rp|].
        -- rewrite Sp. destruct p as [d|l|c]; cbn [is_local] in Ep; try rewrite Ep; reflexivity.
        -- destruct (dyn_get s) as [d s2]. rewrite Sp. destruct p as [d'|l|c]; cbn [is_local] in Ep; try rewrite Ep; reflexivity.
      * destruct p as [d|l|c]; cbn [is_local] in Ep; try rewrite Ep; reflexivity.
Qed.
