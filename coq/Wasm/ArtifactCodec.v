(** * Wasm/ArtifactCodec — the binary serialisation format of the Wasm [Artifact].

    Models [Output for Artifact] (artifact_output.rs, output.rs) as [output_artifact] and
    [Parseable for Artifact<I, CompiledFunctionBytes>] (artifact_input.rs, parse.rs) as
    [parse_artifact].  Bytes are [N] below 256; unsigned integers are [N], signed ones [Z].

    Wire format (version 1):
      byte 255;
      imports  : u16 count (LEB128), then per import Name, Name, FunctionType;
      types    : Vec<FunctionType>            (u32 count, elements);
      table    : Vec<Option<u32>>             (Option = byte 0 | byte 1 then the value);
      memory   : Option<ArtifactMemory>       (u32 init_size, u32 max_size, Vec<ArtifactData>;
                                               ArtifactData = i32 offset (signed LEB128), Vec<u8>);
      globals  : u32 count, then per global byte 0 + i32 | byte 1 + i64 (signed LEB128);
      exports  : u32 count, then per export Name, u32 function index (a BTreeMap in Rust);
      code     : Vec<function>, function = u32 type index, block-type byte, parameter types
                 (u32 length + one byte each), u32 num_locals, Vec<ArtifactLocal> (u16 multiplicity,
                 type byte), u32 num_registers, Vec<i64> constants, code bytes (u32 length + bytes).

    Integers are written with [leb128::write::unsigned / signed] (= [uenc] / [senc] of
    [Wasm/Leb128.v]: shortest form) and read with the bounded readers of parse.rs
    ([take(3)] + [u16::try_from], [take(5)] + [u32::try_from] / [i32::try_from], [take(10)]).

    Modelling decisions:
    - A Rust parser returning [Err] is [None]; which error is not modelled.
    - [Vec<u8>] is parsed by the generic [Vec<A>] instance (one byte at a time) and [&[u8]] by
      slicing; both succeed exactly when [len] more bytes are available and yield those bytes, so
      both are [p_bytes].  The zero-copy aspect (slices are offsets into the input) is the
      [b_...] part at the end of this file.
    - The element loops [for _ in 0..len] are [p_many]: it iterates on the binary representation
      of the decoded count with early exit ([iter_pos]), so a huge count on a short input costs
      nothing; [Wasm/ArtifactCodecProofs.v] ([p_many_eq_nat]) shows it equal to the plain
      structural loop [p_many_nat] on [N.to_nat count].  The count is never used to allocate.
    - Exports: Rust inserts the parsed pairs one by one into a [BTreeMap<Name, FuncIndex>] and
      fails on a duplicate name; [Output] walks the map in key order (byte-lexicographic on the
      name).  Model: association list sorted by [lex_lt], [normalise] = repeated [ins].  (Rust fails
      at the first duplicate, before parsing the rest; the model after parsing all exports - the
      outcome, failure, is the same.)
    - [Name]: at most [MAX_NAME_SIZE] = 512 bytes, valid UTF-8 and ASCII, i.e. every byte < 128.
    - [FunctionType]: [Output] writes the result as an [Option] (0 | 1 t), [Parseable] reads a
      [Vec<ValueType>] of length <= 1 (u32 count 0 | 1, then the type) - these coincide bytewise
      on serialised artifacts.

    Definitions only (proofs: [Wasm/ArtifactCodecProofs.v]). *)
From Coq Require Import ZArith NArith List Bool.
From CB Require Import Wasm.Syntax Wasm.Leb128.
Import ListNotations.
Local Open Scope N_scope.

(** ** The artifact, as far as serialisation is concerned *)
Record s_import := { si_mod : list N; si_item : list N; si_ty : functype }.
Record s_local := { sl_mult : N; sl_ty : valtype }.
Record s_func := {
  sf_type_idx : N; sf_return : blocktype; sf_params : list valtype; sf_num_locals : N;
  sf_locals : list s_local; sf_num_registers : N; sf_constants : list Z; sf_code : list N }.
Inductive s_ginit := GI32 (z : Z) | GI64 (z : Z).
Record s_data := { sd_offset : Z; sd_init : list N }.
Record s_memory := { sm_init : N; sm_max : N; sm_data : list s_data }.
Record s_artifact := {
  sa_imports : list s_import; sa_types : list functype; sa_table : list (option N);
  sa_memory : option s_memory; sa_globals : list s_ginit;
  sa_exports : list (list N * N);
  sa_code : list s_func }.

(** ** Parser combinators *)
Definition dec (A : Type) : Type := list N -> option (A * list N).
Definition ret {A} (a : A) : dec A := fun bs => Some (a, bs).
Definition fail {A} : dec A := fun _ => None.
Definition bind {A B} (d : dec A) (f : A -> dec B) : dec B :=
  fun bs => match d bs with Some (a, r) => f a r | None => None end.
Notation "'do' x <- d ; e" := (bind d (fun x => e)) (at level 200, x name, d at level 100, e at level 200).

(** [n] iterations of [step], stopping at the first failure; structural on the binary count *)
Fixpoint iter_pos {S : Type} (p : positive) (step : S -> option S) (s : S) : option S :=
  match p with
  | xH => step s
  | xO q => match iter_pos q step s with Some s1 => iter_pos q step s1 | None => None end
  | xI q => match step s with
            | Some s0 => match iter_pos q step s0 with Some s1 => iter_pos q step s1 | None => None end
            | None => None
            end
  end.
Definition many_step {A} (d : dec A) (s : list A * list N) : option (list A * list N) :=
  match d (snd s) with Some (x, r) => Some (x :: fst s, r) | None => None end.
(** parse [n] elements *)
Definition p_many {A} (d : dec A) (n : N) : dec (list A) := fun bs =>
  match n with
  | N0 => Some ([], bs)
  | Npos p => match iter_pos p (many_step d) ([], bs) with
              | Some (acc, r) => Some (rev_append acc [], r)
              | None => None
              end
  end.
(** the same loop, structural on the count as a [nat] (reference; see [p_many_eq_nat]) *)
Fixpoint p_many_nat {A} (d : dec A) (n : nat) : dec (list A) := fun bs =>
  match n with
  | O => Some ([], bs)
  | S k => match d bs with
           | Some (x, r) => match p_many_nat d k r with Some (l, r') => Some (x :: l, r') | None => None end
           | None => None
           end
  end.

(** ** Primitives *)
Definition decode_u16 (bs : list N) : option (N * list N) :=
  match uread 3 bs 0 0 with
  | Some (v, r) => if v <? 2 ^ 16 then Some (v, r) else None
  | None => None
  end.
Definition out_u16 (n : N) : list N := uenc 3 n.
Definition out_u32 (n : N) : list N := uenc 5 n.
Definition out_i32 (z : Z) : list N := senc 5 z.
Definition out_i64 (z : Z) : list N := senc 10 z.

Definition p_byte : dec N := fun bs => match bs with b :: r => Some (b, r) | [] => None end.

Definition out_list {A} (o : A -> list N) (l : list A) : list N := flat_map o l.
(** [Vec<A>] / [&[A]]: u32 length, then the elements *)
Definition out_vec {A} (o : A -> list N) (l : list A) : list N :=
  out_u32 (N.of_nat (length l)) ++ out_list o l.
Definition p_vec {A} (d : dec A) : dec (list A) := do n <- decode_u32; p_many d n.

(** byte strings: u32 length, then that many bytes ([ensure!(end <= len)]) *)
Definition out_bytes (l : list N) : list N := out_u32 (N.of_nat (length l)) ++ l.
Definition p_take (n : N) : dec (list N) := fun bs =>
  if n <=? N.of_nat (length bs) then Some (firstn (N.to_nat n) bs, skipn (N.to_nat n) bs) else None.
Definition p_bytes : dec (list N) := do n <- decode_u32; p_take n.

Definition out_option {A} (o : A -> list N) (x : option A) : list N :=
  match x with None => [0] | Some v => 1 :: o v end.
Definition p_option {A} (d : dec A) : dec (option A) :=
  do t <- p_byte;
  if t =? 0 then ret None else if t =? 1 then (do v <- d; ret (Some v)) else fail.

(** ** Types *)
Definition valtype_byte (t : valtype) : N := match t with T_i32 => 0x7F | T_i64 => 0x7E end.
Definition valtype_of_byte (b : N) : option valtype :=
  if b =? 0x7F then Some T_i32 else if b =? 0x7E then Some T_i64 else None.
Definition out_valtype (t : valtype) : list N := [valtype_byte t].
Definition p_valtype : dec valtype :=
  do b <- p_byte; match valtype_of_byte b with Some t => ret t | None => fail end.

Definition out_blocktype (t : blocktype) : list N :=
  match t with None => [0x40] | Some v => [valtype_byte v] end.
Definition p_blocktype : dec blocktype :=
  do b <- p_byte;
  if b =? 0x40 then ret None
  else if b =? 0x7F then ret (Some T_i32)
  else if b =? 0x7E then ret (Some T_i64) else fail.

(** [&[ValueType]]: a byte slice all of whose bytes are value types *)
Fixpoint valtypes_of_bytes (l : list N) : option (list valtype) :=
  match l with
  | [] => Some []
  | b :: r => match valtype_of_byte b with
              | Some t => match valtypes_of_bytes r with Some ts => Some (t :: ts) | None => None end
              | None => None
              end
  end.
Definition out_valtypes (ts : list valtype) : list N := out_bytes (map valtype_byte ts).
Definition p_valtypes : dec (list valtype) :=
  do bs <- p_bytes; match valtypes_of_bytes bs with Some ts => ret ts | None => fail end.

Definition out_functype (t : functype) : list N :=
  0x60 :: out_vec out_valtype (ft_params t) ++ out_option out_valtype (ft_result t).
Definition p_functype : dec functype :=
  do b <- p_byte;
  if b =? 0x60 then
    do ps <- p_vec p_valtype;
    do rs <- p_vec p_valtype;
    match rs with
    | [] => ret {| ft_params := ps; ft_result := None |}
    | [t] => ret {| ft_params := ps; ft_result := Some t |}
    | _ => fail
    end
  else fail.

(** [Name] *)
Definition name_ok (l : list N) : bool := Nat.leb (length l) 512 && forallb (fun b => b <? 128) l.
Definition out_name (l : list N) : list N := out_bytes l.
Definition p_name : dec (list N) := do l <- p_bytes; if name_ok l then ret l else fail.

(** ** Structures *)
Definition out_import (i : s_import) : list N :=
  out_name (si_mod i) ++ out_name (si_item i) ++ out_functype (si_ty i).
Definition p_import : dec s_import :=
  do m <- p_name; do i <- p_name; do t <- p_functype;
  ret {| si_mod := m; si_item := i; si_ty := t |}.

Definition out_local (l : s_local) : list N := out_u16 (sl_mult l) ++ [valtype_byte (sl_ty l)].
Definition p_local : dec s_local :=
  do m <- decode_u16; do t <- p_valtype; ret {| sl_mult := m; sl_ty := t |}.

Definition out_data (d : s_data) : list N := out_i32 (sd_offset d) ++ out_bytes (sd_init d).
Definition p_data : dec s_data :=
  do o <- decode_s32; do i <- p_bytes; ret {| sd_offset := o; sd_init := i |}.

Definition out_memory (m : s_memory) : list N :=
  out_u32 (sm_init m) ++ out_u32 (sm_max m) ++ out_vec out_data (sm_data m).
Definition p_memory : dec s_memory :=
  do i <- decode_u32; do m <- decode_u32; do d <- p_vec p_data;
  ret {| sm_init := i; sm_max := m; sm_data := d |}.

Definition out_ginit (g : s_ginit) : list N :=
  match g with GI32 z => 0 :: out_i32 z | GI64 z => 1 :: out_i64 z end.
Definition p_ginit : dec s_ginit :=
  do t <- p_byte;
  if t =? 0 then (do z <- decode_s32; ret (GI32 z))
  else if t =? 1 then (do z <- decode_s64; ret (GI64 z)) else fail.

Definition out_export (e : list N * N) : list N := out_name (fst e) ++ out_u32 (snd e).
Definition p_export : dec (list N * N) := do n <- p_name; do i <- decode_u32; ret (n, i).

Definition out_func (f : s_func) : list N :=
  out_u32 (sf_type_idx f) ++ out_blocktype (sf_return f) ++ out_valtypes (sf_params f)
  ++ out_u32 (sf_num_locals f) ++ out_vec out_local (sf_locals f)
  ++ out_u32 (sf_num_registers f) ++ out_vec out_i64 (sf_constants f) ++ out_bytes (sf_code f).
Definition p_func : dec s_func :=
  do ti <- decode_u32; do rt <- p_blocktype; do ps <- p_valtypes;
  do nl <- decode_u32; do ls <- p_vec p_local;
  do nr <- decode_u32; do cs <- p_vec decode_s64; do code <- p_bytes;
  ret {| sf_type_idx := ti; sf_return := rt; sf_params := ps; sf_num_locals := nl;
         sf_locals := ls; sf_num_registers := nr; sf_constants := cs; sf_code := code |}.

(** ** The export map *)
(** strict lexicographic order on byte strings ([Ord for String]) *)
Fixpoint lex_lt (a b : list N) : bool :=
  match a, b with
  | [], [] => false
  | [], _ :: _ => true
  | _ :: _, [] => false
  | x :: a', y :: b' => if x <? y then true else if y <? x then false else lex_lt a' b'
  end.
(** [BTreeMap::insert] that fails on an existing key *)
Fixpoint ins (x : list N * N) (l : list (list N * N)) : option (list (list N * N)) :=
  match l with
  | [] => Some [x]
  | y :: t =>
      if lex_lt (fst y) (fst x) then
        match ins x t with Some t' => Some (y :: t') | None => None end
      else if lex_lt (fst x) (fst y) then Some (x :: l)
      else None
  end.
Definition normalise (l : list (list N * N)) : option (list (list N * N)) :=
  fold_left (fun acc x => match acc with Some m => ins x m | None => None end) l (Some []).

(** ** The artifact *)
Definition output_artifact (a : s_artifact) : list N :=
  255 :: out_u16 (N.of_nat (length (sa_imports a))) ++ out_list out_import (sa_imports a)
  ++ out_vec out_functype (sa_types a)
  ++ out_vec (out_option out_u32) (sa_table a)
  ++ out_option out_memory (sa_memory a)
  ++ out_vec out_ginit (sa_globals a)
  ++ out_vec out_export (sa_exports a)
  ++ out_vec out_func (sa_code a).

Definition parse_artifact : list N -> option (s_artifact * list N) :=
  do v <- p_byte;
  if v =? 255 then
    do ni <- decode_u16;
    do imports <- p_many p_import ni;
    do types <- p_vec p_functype;
    do table <- p_vec (p_option decode_u32);
    do memory <- p_option p_memory;
    do globals <- p_vec p_ginit;
    do raw <- p_vec p_export;
    match normalise raw with
    | Some exports =>
        do code <- p_vec p_func;
        ret {| sa_imports := imports; sa_types := types; sa_table := table; sa_memory := memory;
               sa_globals := globals; sa_exports := exports; sa_code := code |}
    | None => fail
    end
  else fail.

(** ** Well-formed artifacts: what the Rust types guarantee
    ([u16] / [u32] / [i32] / [i64] ranges, [u8] bytes, lengths that [u32::try_from] /
    [u16::try_from] accept in [Output], [Name] invariants, the [BTreeMap] order). *)
Definition wf_u16 (n : N) : Prop := n < 2 ^ 16.
Definition wf_u32 (n : N) : Prop := n < 2 ^ 32.
Definition wf_i32 (z : Z) : Prop := (- 2 ^ 31 <= z < 2 ^ 31)%Z.
Definition wf_i64 (z : Z) : Prop := (- 2 ^ 63 <= z < 2 ^ 63)%Z.
Definition wf_len {A} (l : list A) : Prop := N.of_nat (length l) < 2 ^ 32.
Definition wf_bytes (l : list N) : Prop := wf_len l /\ Forall (fun b => b < 256) l.
Definition wf_name (l : list N) : Prop := (length l <= 512)%nat /\ Forall (fun b => b < 128) l.
Definition wf_functype (t : functype) : Prop := wf_len (ft_params t).
Definition wf_import (i : s_import) : Prop :=
  wf_name (si_mod i) /\ wf_name (si_item i) /\ wf_functype (si_ty i).
Definition wf_local (l : s_local) : Prop := wf_u16 (sl_mult l).
Definition wf_func (f : s_func) : Prop :=
  wf_u32 (sf_type_idx f) /\ wf_len (sf_params f) /\ wf_u32 (sf_num_locals f)
  /\ (wf_len (sf_locals f) /\ Forall wf_local (sf_locals f))
  /\ wf_u32 (sf_num_registers f)
  /\ (wf_len (sf_constants f) /\ Forall wf_i64 (sf_constants f))
  /\ wf_bytes (sf_code f).
Definition wf_ginit (g : s_ginit) : Prop := match g with GI32 z => wf_i32 z | GI64 z => wf_i64 z end.
Definition wf_data (d : s_data) : Prop := wf_i32 (sd_offset d) /\ wf_bytes (sd_init d).
Definition wf_memory (m : s_memory) : Prop :=
  wf_u32 (sm_init m) /\ wf_u32 (sm_max m) /\ wf_len (sm_data m) /\ Forall wf_data (sm_data m).
Definition wf_opt {A} (P : A -> Prop) (o : option A) : Prop :=
  match o with Some x => P x | None => True end.
Definition wf_export (e : list N * N) : Prop := wf_name (fst e) /\ wf_u32 (snd e).
(** strictly increasing names: every earlier name is [lex_lt] every later one
    (= [ForallOrdPairs (fun x y => lex_lt (fst x) (fst y) = true)], see [sorted_names_FOP]) *)
Fixpoint sorted_names (l : list (list N * N)) : Prop :=
  match l with
  | [] => True
  | x :: t => Forall (fun y => lex_lt (fst x) (fst y) = true) t /\ sorted_names t
  end.
Definition wf_artifact (a : s_artifact) : Prop :=
  (wf_u16 (N.of_nat (length (sa_imports a))) /\ Forall wf_import (sa_imports a))
  /\ (wf_len (sa_types a) /\ Forall wf_functype (sa_types a))
  /\ (wf_len (sa_table a) /\ Forall (wf_opt wf_u32) (sa_table a))
  /\ wf_opt wf_memory (sa_memory a)
  /\ (wf_len (sa_globals a) /\ Forall wf_ginit (sa_globals a))
  /\ (wf_len (sa_exports a) /\ Forall wf_export (sa_exports a) /\ sorted_names (sa_exports a))
  /\ (wf_len (sa_code a) /\ Forall wf_func (sa_code a)).

(** the same as a boolean check ([wf_artifactb_iff]) *)
Definition u16b (n : N) : bool := n <? 2 ^ 16.
Definition u32b (n : N) : bool := n <? 2 ^ 32.
Definition i32b (z : Z) : bool := ((- 2 ^ 31 <=? z) && (z <? 2 ^ 31))%Z.
Definition i64b (z : Z) : bool := ((- 2 ^ 63 <=? z) && (z <? 2 ^ 63))%Z.
Definition lenb {A} (l : list A) : bool := N.of_nat (length l) <? 2 ^ 32.
Definition bytesb (l : list N) : bool := lenb l && forallb (fun b => b <? 256) l.
Definition functypeb (t : functype) : bool := lenb (ft_params t).
Definition importb (i : s_import) : bool :=
  name_ok (si_mod i) && (name_ok (si_item i) && functypeb (si_ty i)).
Definition localb (l : s_local) : bool := u16b (sl_mult l).
Definition funcb (f : s_func) : bool :=
  u32b (sf_type_idx f) && (lenb (sf_params f) && (u32b (sf_num_locals f)
  && ((lenb (sf_locals f) && forallb localb (sf_locals f))
  && (u32b (sf_num_registers f)
  && ((lenb (sf_constants f) && forallb i64b (sf_constants f))
  && bytesb (sf_code f)))))).
Definition ginitb (g : s_ginit) : bool := match g with GI32 z => i32b z | GI64 z => i64b z end.
Definition datab (d : s_data) : bool := i32b (sd_offset d) && bytesb (sd_init d).
Definition memoryb (m : s_memory) : bool :=
  u32b (sm_init m) && (u32b (sm_max m) && (lenb (sm_data m) && forallb datab (sm_data m))).
Definition optb {A} (p : A -> bool) (o : option A) : bool := match o with Some x => p x | None => true end.
Definition exportb (e : list N * N) : bool := name_ok (fst e) && u32b (snd e).
Fixpoint sorted_namesb (l : list (list N * N)) : bool :=
  match l with
  | [] => true
  | x :: t => forallb (fun y => lex_lt (fst x) (fst y)) t && sorted_namesb t
  end.
Definition wf_artifactb (a : s_artifact) : bool :=
  (u16b (N.of_nat (length (sa_imports a))) && forallb importb (sa_imports a))
  && ((lenb (sa_types a) && forallb functypeb (sa_types a))
  && ((lenb (sa_table a) && forallb (optb u32b) (sa_table a))
  && (optb memoryb (sa_memory a)
  && ((lenb (sa_globals a) && forallb ginitb (sa_globals a))
  && ((lenb (sa_exports a) && (forallb exportb (sa_exports a) && sorted_namesb (sa_exports a)))
  && (lenb (sa_code a) && forallb funcb (sa_code a))))))).

(** ** The zero-copy view ([CompiledFunctionBytes<'a>])
    [params : &'a [ValueType]] and [code : &'a [u8]] borrow from the input: the parser records
    [cursor.position()] and the length and the value is [&input[pos .. pos + len]].  Here a slice is
    the pair (offset, length); the offset is [total - remaining], [total] being the length of the
    whole input.  [resolve] reads the slices back from the input ([b_func] -> [s_func], as
    [From<CompiledFunctionBytes> for CompiledFunction] does with [to_vec]); the parameter bytes are
    checked to be value types when parsing, as in Rust, and reinterpreted when resolving. *)
Record b_func := {
  bf_type_idx : N; bf_return : blocktype; bf_params : N * N; bf_num_locals : N;
  bf_locals : list s_local; bf_num_registers : N; bf_constants : list Z; bf_code : N * N }.
Record b_artifact := {
  ba_imports : list s_import; ba_types : list functype; ba_table : list (option N);
  ba_memory : option s_memory; ba_globals : list s_ginit;
  ba_exports : list (list N * N);
  ba_code : list b_func }.

Definition p_slice_raw (total n : N) : dec (N * N) := fun bs =>
  if n <=? N.of_nat (length bs)
  then Some ((total - N.of_nat (length bs), n), skipn (N.to_nat n) bs) else None.
Definition p_slice (total : N) : dec (N * N) := do n <- decode_u32; p_slice_raw total n.
Definition p_valtype_slice_raw (total n : N) : dec (N * N) := fun bs =>
  if n <=? N.of_nat (length bs) then
    match valtypes_of_bytes (firstn (N.to_nat n) bs) with
    | Some _ => Some ((total - N.of_nat (length bs), n), skipn (N.to_nat n) bs)
    | None => None
    end
  else None.
Definition p_valtype_slice (total : N) : dec (N * N) := do n <- decode_u32; p_valtype_slice_raw total n.

Definition p_func_b (total : N) : dec b_func :=
  do ti <- decode_u32; do rt <- p_blocktype; do ps <- p_valtype_slice total;
  do nl <- decode_u32; do ls <- p_vec p_local;
  do nr <- decode_u32; do cs <- p_vec decode_s64; do code <- p_slice total;
  ret {| bf_type_idx := ti; bf_return := rt; bf_params := ps; bf_num_locals := nl;
         bf_locals := ls; bf_num_registers := nr; bf_constants := cs; bf_code := code |}.

Definition parse_artifact_b (total : N) : dec b_artifact :=
  do v <- p_byte;
  if v =? 255 then
    do ni <- decode_u16;
    do imports <- p_many p_import ni;
    do types <- p_vec p_functype;
    do table <- p_vec (p_option decode_u32);
    do memory <- p_option p_memory;
    do globals <- p_vec p_ginit;
    do raw <- p_vec p_export;
    match normalise raw with
    | Some exports =>
        do code <- p_vec (p_func_b total);
        ret {| ba_imports := imports; ba_types := types; ba_table := table; ba_memory := memory;
               ba_globals := globals; ba_exports := exports; ba_code := code |}
    | None => fail
    end
  else fail.
Definition parse_artifact_borrowed (bs : list N) : option (b_artifact * list N) :=
  parse_artifact_b (N.of_nat (length bs)) bs.

Definition slice (input : list N) (s : N * N) : list N :=
  firstn (N.to_nat (snd s)) (skipn (N.to_nat (fst s)) input).
Definition slice_valtypes (input : list N) (s : N * N) : list valtype :=
  match valtypes_of_bytes (slice input s) with Some ts => ts | None => [] end.
Definition resolve_func (input : list N) (f : b_func) : s_func :=
  {| sf_type_idx := bf_type_idx f; sf_return := bf_return f;
     sf_params := slice_valtypes input (bf_params f); sf_num_locals := bf_num_locals f;
     sf_locals := bf_locals f; sf_num_registers := bf_num_registers f;
     sf_constants := bf_constants f; sf_code := slice input (bf_code f) |}.
Definition resolve (input : list N) (a : b_artifact) : s_artifact :=
  {| sa_imports := ba_imports a; sa_types := ba_types a; sa_table := ba_table a;
     sa_memory := ba_memory a; sa_globals := ba_globals a; sa_exports := ba_exports a;
     sa_code := map (resolve_func input) (ba_code a) |}.
