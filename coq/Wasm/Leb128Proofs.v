(** * Wasm/Leb128Proofs — properties of the LEB128 readers of [Wasm/Leb128.v]. *)
From Coq Require Import ZArith NArith List Bool Lia.
From CB Require Import Wasm.Leb128.
Import ListNotations.
Local Open Scope N_scope.

(** the readers consume a non-empty prefix of at most [maxb] bytes *)
Lemma uread_bounded : forall maxb bs shift acc v r,
  uread maxb bs shift acc = Some (v, r) ->
  exists pre, bs = pre ++ r /\ (1 <= length pre <= maxb)%nat.
Proof.
  induction maxb as [|k IH]; intros bs shift acc v r; cbn [uread]; [discriminate|].
  destruct bs as [|b t]; [discriminate|].
  destruct ((shift =? 63) && negb (b =? 0) && negb (b =? 1)); [discriminate|].
  destruct (b <? 128).
  - intros E; inversion E; subst. exists [b]. cbn. split; auto. lia.
  - intros E. destruct (IH _ _ _ _ _ E) as (pre & -> & L). exists (b :: pre). cbn. split; auto. lia.
Qed.
Lemma sread_bounded : forall maxb bs shift acc v r,
  sread maxb bs shift acc = Some (v, r) ->
  exists pre, bs = pre ++ r /\ (1 <= length pre <= maxb)%nat.
Proof.
  induction maxb as [|k IH]; intros bs shift acc v r; cbn [sread]; [discriminate|].
  destruct bs as [|b t]; [discriminate|].
  destruct ((shift =? 63) && negb (b =? 0) && negb (b =? 127)); [discriminate|].
  destruct (b <? 128).
  - destruct ((shift + 7 <? 64) && (64 <=? b mod 128)); intros E; inversion E; subst; exists [b]; cbn; split; auto; lia.
  - intros E. destruct (IH _ _ _ _ _ E) as (pre & -> & L). exists (b :: pre). cbn. split; auto. lia.
Qed.

Theorem decode_u32_bounded bs v r : decode_u32 bs = Some (v, r) ->
  v < 2 ^ 32 /\ exists pre, bs = pre ++ r /\ (1 <= length pre <= 5)%nat.
Proof.
  unfold decode_u32. destruct (uread 5 bs 0 0) as [[v' r']|] eqn:E; [|discriminate].
  destruct (N.ltb_spec v' (2 ^ 32)); [|discriminate]. intros H'; inversion H'; subst.
  split; auto. eapply uread_bounded; eauto.
Qed.
Theorem decode_u64_bounded bs v r : decode_u64 bs = Some (v, r) ->
  exists pre, bs = pre ++ r /\ (1 <= length pre <= 10)%nat.
Proof. apply uread_bounded. Qed.
Theorem decode_s32_bounded bs v r : decode_s32 bs = Some (v, r) ->
  (- 2 ^ 31 <= v < 2 ^ 31)%Z /\ exists pre, bs = pre ++ r /\ (1 <= length pre <= 5)%nat.
Proof.
  unfold decode_s32. destruct (sread 5 bs 0 0) as [[v' r']|] eqn:E; [|discriminate].
  destruct ((- 2 ^ 31 <=? v')%Z && (v' <? 2 ^ 31)%Z) eqn:B; [|discriminate]. intros H'; inversion H'; subst.
  apply andb_true_iff in B. destruct B as [B1 B2]. apply Z.leb_le in B1. apply Z.ltb_lt in B2.
  split; [split; assumption|]. eapply sread_bounded; eauto.
Qed.
Theorem decode_s64_bounded bs v r : decode_s64 bs = Some (v, r) ->
  exists pre, bs = pre ++ r /\ (1 <= length pre <= 10)%nat.
Proof. apply sread_bounded. Qed.

(** round trip of the canonical unsigned encoding *)
Lemma uenc_S f n : uenc (S f) n = if n <? 128 then [n] else (n mod 128 + 128) :: uenc f (n / 128).
Proof. reflexivity. Qed.
Lemma uread_S k b r shift acc : uread (S k) (b :: r) shift acc =
  if (shift =? 63) && negb (b =? 0) && negb (b =? 1) then None
  else if b <? 128 then Some (acc + (b mod 128) * 2 ^ shift, r)
       else uread k r (shift + 7) (acc + (b mod 128) * 2 ^ shift).
Proof. reflexivity. Qed.

Lemma uread_uenc : forall k n rest shift acc,
  n < 2 ^ (7 * N.of_nat (S k)) -> n * 2 ^ shift < 2 ^ 64 -> shift <= 63 ->
  uread (S k) (uenc (S k) n ++ rest) shift acc = Some (acc + n * 2 ^ shift, rest).
Proof.
  induction k as [|k IH]; intros n rest shift acc Hn Hs Hsh;
  rewrite uenc_S; destruct (N.ltb_spec n 128) as [Hlt|Hge].
  1, 3: cbn [app]; rewrite uread_S; rewrite (proj2 (N.ltb_lt n 128) Hlt);
    assert (G : (shift =? 63) && negb (n =? 0) && negb (n =? 1) = false)
      by (destruct (N.eqb_spec shift 63) as [->|]; [|reflexivity]; cbn [andb];
          assert (n < 2) by (change (2 ^ 64) with (2 * 2 ^ 63) in Hs; nia);
          destruct (N.eqb_spec n 0); [reflexivity|]; destruct (N.eqb_spec n 1); [reflexivity|]; lia);
    rewrite G; rewrite (N.mod_small n 128) by lia; reflexivity.
  - exfalso. change (2 ^ (7 * N.of_nat 1)) with 128 in Hn. lia.
  - rewrite <- app_comm_cons, uread_S. set (b := n mod 128 + 128).
    assert (Hb : b <? 128 = false) by (apply N.ltb_ge; unfold b; apply N.le_add_l).
    assert (Hm : b mod 128 = n mod 128).
    { unfold b. replace (n mod 128 + 128) with (n mod 128 + 1 * 128) by lia. rewrite N.mod_add by lia. apply N.mod_mod. lia. }
    assert (G : (shift =? 63) && negb (b =? 0) && negb (b =? 1) = false).
    { destruct (N.eqb_spec shift 63) as [->|]; [|reflexivity]. exfalso.
      change (2 ^ 64) with (2 * 2 ^ 63) in Hs. nia. }
    rewrite G, Hb, Hm.
    assert (Hp : 2 ^ (shift + 7) = 2 ^ shift * 128) by (rewrite N.pow_add_r; reflexivity).
    pose proof (N.div_mod n 128 ltac:(lia)) as DM.
    pose proof (N.mod_lt n 128 ltac:(lia)) as ML.
    assert (Hsh' : shift + 7 <= 63).
    { destruct (N.le_gt_cases (shift + 7) 63); auto. exfalso.
      assert (2 ^ 57 <= 2 ^ shift) by (apply N.pow_le_mono_r; lia).
      assert (2 ^ 64 <= n * 2 ^ shift). { change (2 ^ 64) with (128 * 2 ^ 57). nia. } lia. }
    rewrite IH.
    + f_equal. f_equal. rewrite Hp. nia.
    + replace (7 * N.of_nat (S (S k))) with (7 * N.of_nat (S k) + 7) in Hn by lia.
      rewrite N.pow_add_r in Hn. change (2 ^ 7) with 128 in Hn.
      apply N.div_lt_upper_bound; lia.
    + rewrite Hp. apply N.le_lt_trans with (n * 2 ^ shift); [|exact Hs].
      replace (n / 128 * (2 ^ shift * 128)) with ((n / 128 * 128) * 2 ^ shift) by ring.
      apply N.mul_le_mono_r. rewrite N.mul_comm. apply N.mul_div_le. discriminate.
    + exact Hsh'.
Qed.

Theorem leb_u32_roundtrip_thm n rest : n < 2 ^ 32 -> decode_u32 (uenc 5 n ++ rest) = Some (n, rest).
Proof.
  intros H. unfold decode_u32. change 5%nat with (S 4). rewrite uread_uenc.
  - cbn [N.add]. rewrite N.pow_0_r, N.mul_1_r. rewrite (proj2 (N.ltb_lt n (2 ^ 32)) H). reflexivity.
  - change (7 * N.of_nat 5) with 35. assert (2 ^ 32 < 2 ^ 35) by (apply N.pow_lt_mono_r; lia). lia.
  - rewrite N.pow_0_r, N.mul_1_r. assert (2 ^ 32 < 2 ^ 64) by (apply N.pow_lt_mono_r; lia). lia.
  - lia.
Qed.
Theorem leb_u64_roundtrip_thm n rest : n < 2 ^ 64 -> decode_u64 (uenc 10 n ++ rest) = Some (n, rest).
Proof.
  intros H. unfold decode_u64. change 10%nat with (S 9). rewrite uread_uenc.
  - cbn [N.add]. rewrite N.pow_0_r, N.mul_1_r. reflexivity.
  - change (7 * N.of_nat 10) with 70. assert (2 ^ 64 < 2 ^ 70) by (apply N.pow_lt_mono_r; lia). lia.
  - rewrite N.pow_0_r, N.mul_1_r. exact H.
  - lia.
Qed.

(** non-minimal encodings within the length bound are accepted (the specification allows them);
    a sixth byte, or a set unused bit in the fifth byte, is rejected *)
Example leb_overlong_accepted : decode_u32 [0x80; 0x80; 0x00; 0x07] = Some (0, [0x07]).
Proof. reflexivity. Qed.
Theorem leb_u32_too_long_thm b1 b2 b3 b4 b5 r :
  128 <= b1 -> 128 <= b2 -> 128 <= b3 -> 128 <= b4 -> 128 <= b5 ->
  decode_u32 (b1 :: b2 :: b3 :: b4 :: b5 :: r) = None.
Proof.
  intros H1 H2 H3 H4 H5. unfold decode_u32. cbn [uread].
  repeat match goal with |- context [?b <? 128] => rewrite (proj2 (N.ltb_ge b 128)) by assumption end.
  cbn [N.eqb N.add andb]. reflexivity.
Qed.
(** the unused bits of the fifth byte: value bits 32..34 must be zero (unsigned) / equal to the sign (signed) *)
Example leb_u32_unused_bits :
  decode_u32 [0x80; 0x80; 0x80; 0x80; 0x10] = None /\
  decode_u32 [0x80; 0x80; 0x80; 0x80; 0x0f] = Some (4026531840, []) /\
  decode_s32 [0x80; 0x80; 0x80; 0x80; 0x08] = None /\
  decode_s32 [0x80; 0x80; 0x80; 0x80; 0x78] = Some ((-2147483648)%Z, []) /\
  decode_s32 [0x80; 0x80; 0x80; 0x80; 0x38] = None /\
  decode_s64 [0x80; 0x80; 0x80; 0x80; 0x80; 0x80; 0x80; 0x80; 0x80; 0x7f] = Some ((-9223372036854775808)%Z, []) /\
  decode_s64 [0x80; 0x80; 0x80; 0x80; 0x80; 0x80; 0x80; 0x80; 0x80; 0x7e] = None /\
  decode_u64 [0xff; 0xff; 0xff; 0xff; 0xff; 0xff; 0xff; 0xff; 0xff; 0x01] = Some (18446744073709551615, []) /\
  decode_u64 [0xff; 0xff; 0xff; 0xff; 0xff; 0xff; 0xff; 0xff; 0xff; 0x02] = None.
Proof. vm_compute. repeat split; reflexivity. Qed.
