(** * [blocks_ok_dead] / [blocks_ok_r_dead] WIDEN [blocks_ok] / [blocks_ok_r]: a body of the old fragment
    has no dead code ([strip] is the identity on it), so the dead-code theorems subsume the old ones. *)
From Coq Require Import ZArith NArith List Lia Bool FMapPositive.
From CB Require Import Common.IntN Common.IntNProofs Wasm.Syntax Wasm.Opcodes Wasm.Sem Wasm.Compile Wasm.Machine
     Wasm.MachineLemmas Wasm.CompileLemmas Wasm.NumOpsProofs Wasm.SemProofs Wasm.SyntaxProofs Wasm.StraightProofs
     Wasm.BlockProofs Wasm.BlockInv Wasm.BlockSim Wasm.BlockSim2 Wasm.BlockTheorem Wasm.BlockDead Wasm.BlockDeadTheorem.
Import ListNotations.
Local Open Scope Z_scope.

Lemma lvl_split nl cx : forall a b v, lvl nl cx (a ++ b) v = true -> vinv v ->
  exists v1, lvl nl cx a v = true /\ lvl nl cx b v1 = true /\ vinv v1.
Proof.
  induction a as [|op a IH]; intros b v H Hi; cbn [app lvl] in *.
  - exists v. auto.
  - apply andb_true_iff in H. destruct H as [Hk H]. destruct (vstep cx v op) as [v1|] eqn:Ev; [|discriminate].
    destruct (vinv_step nl cx v op v1 Hk Ev Hi) as [Hi1 _].
    destruct (IH b v1 H Hi1) as (v2 & A & B & C0). exists v2. rewrite Hk, A. auto.
Qed.

Lemma term_unreach nl cx v b v1 : term_b b = true -> ctl_ok nl cx v (OBasic b) = true -> v_unreach v = None ->
  vstep cx v (OBasic b) = Some v1 -> v_unreach v1 <> None.
Proof.
  intros Ht Hk Hu H.
  assert (K : forall w, v_mark_unreachable w = Some v1 -> v_unreach v1 <> None).
  { intros w Hm. unfold v_mark_unreachable in Hm. destruct (v_ctrls w); [discriminate|]. inversion Hm; subst. cbn.
    destruct (v_unreach w); discriminate. }
  destruct b; try discriminate Ht; cbn [vstep] in H.
  - eapply K; eauto.
  - dstep. eapply K; eauto.
  - unfold ctl_ok in Hk. rewrite Hu in Hk. discriminate Hk.
  - unfold ctl_ok in Hk. rewrite Hu in Hk.
    destruct (last (map (fun f => Some (vf_label f)) (v_ctrls v)) None) as [lt|].
    + dstep. eapply K; eauto.
    + destruct (cx_return cx); discriminate Hk.
Qed.

Lemma after_delim cx v d w : (d = OEnd \/ d = OElse) -> vinv v -> vstep cx v d = Some w -> v_unreach w = None.
Proof.
  intros [-> | ->] Hi H; cbn [vstep] in H.
  - destruct (v_pop_ctrl v) as [[[res isif] v2]|] eqn:Ep; [|discriminate]. inversion H; subst.
    rewrite pushn_unreach. apply (pop_ctrl_un v _ Hi Ep).
  - destruct (v_pop_ctrl v) as [[[res [|]] v2]|] eqn:Ep; try discriminate. inversion H; subst. cbn.
    apply (pop_ctrl_un v _ Hi Ep).
Qed.

Lemma strip_id nl cx : forall n is, (lsize is <= n)%nat -> forall v, v_unreach v = None ->
  lvl nl cx (flatten is) v = true -> strip is = is.
Proof.
  induction n as [|n IH]; intros is Hn v Hu Hl.
  { destruct is as [|i rr]; [reflexivity|cbn [lsize] in Hn; pose proof (isize_pos i); lia]. }
  destruct is as [|i rest]; [reflexivity|]. cbn [lsize] in Hn.
  assert (Hbody : forall body X va, (lsize body <= n)%nat -> v_unreach va = None -> lvl nl cx (flatten body ++ X) va = true ->
            strip body = body /\ exists vb, lvl nl cx X vb = true /\ vinv vb).
  { intros body X va Hb Hua Hx. destruct (lvl_split nl cx _ _ _ Hx (or_introl Hua)) as (vb & A & B & C0).
    split; [apply (IH body Hb va Hua A)|]. exists vb. auto. }
  assert (Hclose : forall d X vb, (d = OEnd \/ d = OElse) -> vinv vb -> lvl nl cx (d :: X) vb = true ->
            exists w, v_unreach w = None /\ lvl nl cx X w = true).
  { intros d X vb Hd Hi Hx. cbn [lvl] in Hx. apply andb_true_iff in Hx. destruct Hx as [_ Hx].
    destruct (vstep cx vb d) as [w|] eqn:Ev; [|discriminate]. exists w. split; [apply (after_delim cx vb d w Hd Hi Ev)|exact Hx]. }
  destruct i as [b|bt body|bt body|bt thn els].
  - change (flatten (Basic b :: rest)) with (OBasic b :: flatten rest) in Hl. cbn [lvl] in Hl.
    apply andb_true_iff in Hl. destruct Hl as [Hk Hl]. destruct (vstep cx v (OBasic b)) as [v1|] eqn:Ev; [|discriminate].
    destruct (term_b b) eqn:Et.
    + rewrite (strip_cons_term b rest Et).
      rewrite (lvl_unreach_nil nl cx rest v1 (term_unreach nl cx v b v1 Et Hk Hu Ev) Hl). reflexivity.
    + assert (Eti : term_i (Basic b) = false) by exact Et. rewrite (strip_cons_live _ rest Eti).
      destruct (live_basic cx v b v1 Et Hu Ev) as [Hu1 _].
      rewrite (IH rest ltac:(cbn [isize] in Hn; lia) v1 Hu1 Hl). reflexivity.
  - rewrite (strip_cons_live (Block bt body) rest eq_refl), strip_block. rewrite flatten_block in Hl. rewrite isize_block in Hn.
    cbn [lvl vstep] in Hl. apply andb_true_iff in Hl. destruct Hl as [_ Hl].
    destruct (Hbody body _ _ ltac:(lia) (Hu : v_unreach (v_push_ctrl false bt bt v) = None) Hl) as (Eb & vb & Hl2 & Hib).
    destruct (Hclose OEnd _ vb (or_introl eq_refl) Hib Hl2) as (w & Huw & Hl3).
    rewrite Eb, (IH rest ltac:(lia) w Huw Hl3). reflexivity.
  - rewrite (strip_cons_live (Loop bt body) rest eq_refl), strip_loop. rewrite flatten_loop in Hl. rewrite isize_loop in Hn.
    cbn [lvl vstep] in Hl. apply andb_true_iff in Hl. destruct Hl as [_ Hl].
    destruct (Hbody body _ _ ltac:(lia) (Hu : v_unreach (v_push_ctrl false None bt v) = None) Hl) as (Eb & vb & Hl2 & Hib).
    destruct (Hclose OEnd _ vb (or_introl eq_refl) Hib Hl2) as (w & Huw & Hl3).
    rewrite Eb, (IH rest ltac:(lia) w Huw Hl3). reflexivity.
  - rewrite (strip_cons_live (If bt thn els) rest eq_refl), strip_if. rewrite isize_if in Hn.
    assert (Hopen : forall X, lvl nl cx (OIf bt :: X) v = true -> exists va, v_unreach va = None /\ lvl nl cx X va = true).
    { intros X Hx. cbn [lvl vstep] in Hx. apply andb_true_iff in Hx. destruct Hx as [_ Hx].
      destruct (v_pop v) as [w|] eqn:Ep; [|discriminate]. eexists. split; [|exact Hx]. cbn.
      destruct (pop_unreach _ _ Ep) as [E1 _]. congruence. }
    destruct els as [|e els].
    + rewrite flatten_if1 in Hl. destruct (Hopen _ Hl) as (va & Hua & Hl1).
      destruct (Hbody thn _ _ ltac:(lia) Hua Hl1) as (Eb & vb & Hl2 & Hib).
      destruct (Hclose OEnd _ vb (or_introl eq_refl) Hib Hl2) as (w & Huw & Hl3).
      rewrite Eb, (IH rest ltac:(lia) w Huw Hl3). reflexivity.
    + rewrite flatten_if2 in Hl. destruct (Hopen _ Hl) as (va & Hua & Hl1).
      destruct (Hbody thn _ _ ltac:(lia) Hua Hl1) as (Eb & vb & Hl2 & Hib).
      destruct (Hclose OElse _ vb (or_intror eq_refl) Hib Hl2) as (w & Huw & Hl3).
      destruct (Hbody (e :: els) _ _ ltac:(lia) Huw Hl3) as (Ee & vd & Hl4 & Hid).
      destruct (Hclose OEnd _ vd (or_introl eq_refl) Hid Hl4) as (w2 & Huw2 & Hl5).
      rewrite Eb, Ee, (IH rest ltac:(lia) w2 Huw2 Hl5). reflexivity.
Qed.

Theorem blocks_ok_widen nl cx is : blocks_ok nl cx is = true -> blocks_ok_dead nl cx is = true.
Proof.
  intros H. unfold blocks_ok_dead. unfold blocks_ok in H. pose proof H as H0. apply andb_true_iff in H0. destruct H0 as [_ Hl].
  rewrite (strip_id nl cx (lsize is) is (le_n _) (init_vstate None) eq_refl Hl). exact H.
Qed.
Theorem blocks_ok_r_widen nl cx t is : blocks_ok_r nl cx t is = true -> blocks_ok_r_dead nl cx t is = true.
Proof.
  intros H. unfold blocks_ok_r_dead. unfold blocks_ok_r in H. pose proof H as H0. apply andb_true_iff in H0. destruct H0 as [_ Hl].
  unfold flatten_body in Hl. destruct (lvl_split nl cx _ _ _ Hl (or_introl eq_refl)) as (v1 & A & _).
  rewrite (strip_id nl cx (lsize is) is (le_n _) (init_vstate (Some t)) eq_refl A). exact H.
Qed.
