(** * Stage B: structured control without loops and calls (block / if / else / end, br, br_if)
    on top of the straight-line simulation.  See [compile_block_correct] at the end for the
    exact statement and [blocks_ok] for the accepted constructs. *)
From Coq Require Import ZArith NArith List Lia Bool FMapPositive.
From CB Require Import Common.IntN Common.IntNProofs Wasm.Syntax Wasm.Opcodes Wasm.Sem Wasm.Compile Wasm.Machine
     Wasm.MachineLemmas Wasm.CompileLemmas Wasm.NumOpsProofs Wasm.SemProofs Wasm.StraightProofs Wasm.BlockProofs.
Import ListNotations.
Local Open Scope Z_scope.
Local Arguments i32_bytes : simpl never.
Local Arguments u32_bytes : simpl never.
Local Arguments u16_bytes : simpl never.

(** ** the fragment: result-less blocks entered at an empty operand stack *)
Definition jt_ok (f : vframe) (j : jump_target) : Prop :=
  (exists locs, j = JUnknown locs None /\ (vf_is_if f = true -> locs <> []))
  \/ (exists pos, j = JKnown pos /\ vf_is_if f = false).      (* a loop: the target is its start *)
Definition frame_ok (f : vframe) (j : jump_target) : Prop :=
  vf_height f = 0%nat /\ vf_label f = None /\ vf_end f = None /\ jt_ok f j.

Definition vmode (v : vstate) : Prop :=
  v_unreach v = None \/
  (v_unreach v = Some (length (v_ctrls v) - 1)%nat /\ v_ctrls v <> [] /\ v_opds v = 0%nat).

Record inv (nl : Z) (s : cstate) (v : vstate) : Prop := {
  i_cwf : cwf nl s;
  i_bp : bpwf s;
  i_len : length (c_stack s) = v_opds v;
  i_frames : Forall2 frame_ok (v_ctrls v) (c_bp s);
  i_mode : vmode v
}.

Definition jt_sub (j j' : jump_target) : Prop :=
  (exists locs add, j = JUnknown locs None /\ j' = JUnknown (locs ++ add) None) \/ (exists pos, j = JKnown pos /\ j' = JKnown pos).
Definition bp_sub (b b' : list jump_target) : Prop := Forall2 jt_sub b b'.
Lemma jt_sub_refl f j : frame_ok f j -> jt_sub j j.
Proof.
  intros (_ & _ & _ & [(locs & -> & _)|(pos & -> & _)]); [left; exists locs, []; rewrite app_nil_r; auto|right; exists pos; auto].
Qed.

Lemma bp_sub_refl ctrls bp : Forall2 frame_ok ctrls bp -> bp_sub bp bp.
Proof.
  induction 1 as [|f j ? ? Hf]; constructor; auto. eapply jt_sub_refl; eauto.
Qed.
Lemma bp_sub_trans a b d : bp_sub a b -> bp_sub b d -> bp_sub a d.
Proof.
  intros H. revert d. induction H as [|j j' ? ? Hj]; intros d H2; inversion H2 as [|? j'' ? ? Hj2]; subst.
  - constructor.
  - constructor; [|apply IHForall2; assumption].
    destruct Hj as [(locs & add & -> & ->)|(pos & -> & ->)], Hj2 as [(l2 & a2 & E & ->)|(pos2 & E & ->)]; try discriminate E.
    + inversion E; subst. left. exists locs, (add ++ a2). rewrite app_assoc. auto.
    + right. exists pos. auto.
Qed.
Lemma bp_sub_update ctrls : forall bp k locs x,
  Forall2 frame_ok ctrls bp -> nth_error bp k = Some (JUnknown locs None) ->
  bp_sub bp (update_nth bp k (JUnknown (locs ++ [x]) None)).
Proof.
  intros bp k locs x H. revert k. induction H as [|f j ? ? Hf]; intros [|k] E; cbn in E; try discriminate.
  - inversion E; subst. cbn. constructor; [left; exists locs, [x]; auto|eapply bp_sub_refl; eauto].
  - cbn. constructor; [|apply IHForall2; exact E]. eapply jt_sub_refl; eauto.
Qed.
Lemma frames_update ctrls : forall bp k locs x,
  Forall2 frame_ok ctrls bp -> Forall2 frame_ok ctrls (update_nth bp k (JUnknown (locs ++ [x]) None)).
Proof.
  intros bp k locs x H. revert k. induction H as [|f j ? ? Hf]; intros [|k]; cbn; constructor; auto.
  destruct Hf as (A & B & C & _). repeat split; auto. left. eexists; split; [reflexivity|]. intros _. destruct locs; discriminate.
Qed.

Lemma truncate_n_spec nl : forall k s s', truncate_n k s = Some s' -> cwf nl s ->
  same_out s s' /\ c_next s' = c_next s /\ c_consts s' = c_consts s /\ cwf nl s'
  /\ length (c_stack s') = (length (c_stack s) - k)%nat.
Proof.
  induction k as [|k IH]; intros s s' H W; cbn in H.
  - inversion H; subst. unfold same_out. splits; auto. lia.
  - destruct (consume s) as [[p s1]|] eqn:E; [|discriminate].
    destruct (consume_spec nl s p s1 E W) as (Es & (O1 & O2 & O3) & En & Ec & W1 & _).
    destruct (IH s1 s' H W1) as ((P1 & P2 & P3) & Pn & Pc & W2 & Pl).
    unfold same_out. splits; try congruence. rewrite Pl, Es. cbn. lia.
Qed.

Lemma pres_pending_new s s1 x p :
  bpwf s -> (forall y, In y (all_locs (c_bp s1)) -> y = x \/ In y (all_locs (c_bp s))) ->
  (length (c_out s) <= p)%nat -> ~ in_win x p -> ~ pending s1 p.
Proof.
  intros W H Hp Hx (y & Hy & Hw). destruct (H y Hy) as [->|Hy']; [contradiction|].
  destruct (bw_range _ W y Hy'). unfold in_win, cur_off in *. lia.
Qed.

Lemma frames_nth ctrls bp k f : Forall2 frame_ok ctrls bp -> nth_error ctrls k = Some f ->
  vf_label f = None /\ ((exists locs, nth_error bp k = Some (JUnknown locs None)) \/ (exists pos, nth_error bp k = Some (JKnown pos))).
Proof.
  intros H. revert k. induction H as [|g j ? ? Hf]; intros [|k] E; cbn in E; try discriminate.
  - inversion E; subst. destruct Hf as (_ & B & _ & [(locs & -> & _)|(pos & -> & _)]); split; auto; [left; exists locs|right; exists pos]; reflexivity.
  - cbn. eauto.
Qed.

Lemma reach_of_none v : v_unreach v = None -> v_reachability v = Reachable.
Proof. intros H. unfold v_reachability. rewrite H. reflexivity. Qed.
Lemma reach_of_mode v : vmode v -> v_reachability v <> UnreachableFrame.
Proof.
  intros [H|(H & Hn & _)]; unfold v_reachability; rewrite H; [discriminate|].
  destruct (v_ctrls v) as [|f r]; [contradiction|]. cbn [length].
  destruct (Nat.ltb_spec (S (length r) - 1 + 1) (S (length r))); [lia|discriminate].
Qed.

Lemma checked2 v x s' :
  (if (length (c_stack x) =? v_opds v)%nat then Some x else None) = Some s' -> x = s' /\ length (c_stack s') = v_opds v.
Proof. destruct (Nat.eqb_spec (length (c_stack x)) (v_opds v)); [|discriminate]. intros H; inversion H; subst; auto. Qed.

(** *** block *)
Lemma op_block nl cx s v v1 s1 :
  inv nl s v -> v_unreach v = None -> v_opds v = 0%nat ->
  vstep cx v (OBlock None) = Some v1 -> handle_opcode cx s v1 Reachable (OBlock None) = Some s1 ->
  c_out s1 = c_out s /\ c_bp s1 = JUnknown [] None :: c_bp s /\ same_alloc s s1 /\ c_last s1 = None
  /\ inv nl s1 v1 /\ v_unreach v1 = None.
Proof.
  intros I Hu H0 Hv Hh. cbn [vstep] in Hv. inversion Hv; subst v1; clear Hv.
  unfold handle_opcode in Hh. cbv beta iota zeta in Hh. apply checked2 in Hh. destruct Hh as [Hh Hl].
  subst s1. cbn [set_bp set_last c_out c_bp c_stack c_next c_reuse c_consts c_last v_push_ctrl v_unreach v_opds v_ctrls] in *.
  splits; auto; try (unfold same_alloc; cbn; tauto).
  destruct I as [W B L Fr Md]. constructor; cbn; auto.
  - eapply cwf_same; [|exact W]. unfold same_alloc; cbn; tauto.
  - destruct B as [B1 B2 B3]. constructor; cbn; auto.
  - constructor; auto. repeat split; cbn; auto. left. eexists; split; [reflexivity|discriminate].
  - left. exact Hu.
Qed.

Lemma frames_cons f r bp : Forall2 frame_ok (f :: r) bp ->
  vf_height f = 0%nat /\ vf_label f = None /\ vf_end f = None /\
  exists j bp', bp = j :: bp' /\ Forall2 frame_ok r bp' /\ jt_ok f j.
Proof. intros H. inversion H as [|? j ? bp' (A & B & C & D) Fr']; subst. splits; auto. exists j, bp'. auto. Qed.

(** *** if *)
Lemma op_if nl cx s v v1 s1 :
  inv nl s v -> v_unreach v = None -> v_opds v = 1%nat ->
  vstep cx v (OIf None) = Some v1 -> handle_opcode cx s v1 Reachable (OIf None) = Some s1 ->
  exists p, c_stack s = [p] /\ pwf nl s p
  /\ c_out s1 = c_out s ++ IIf :: i32_bytes (provider_idx p) ++ u32_bytes 0
  /\ c_bp s1 = JUnknown [cur_off s + 5] None :: c_bp s /\ c_stack s1 = [] /\ c_next s1 = c_next s
  /\ c_consts s1 = c_consts s /\ c_last s1 = None /\ inv nl s1 v1 /\ v_unreach v1 = None /\ ext s s1.
Proof.
  intros I Hu H1 Hv Hh. destruct I as [W B L Fr Md].
  cbn [vstep] in Hv. unfold v_pop in Hv. destruct (v_ctrls v) as [|f r] eqn:Ec; [discriminate|].
  destruct (frames_cons _ _ _ Fr) as (Fh & _).
  rewrite H1, Fh in Hv. cbn in Hv. inversion Hv; subst v1; clear Hv.
  unfold handle_opcode in Hh. cbv beta iota zeta in Hh. apply checked in Hh. destruct Hh as [Hh Hl].
  unfold push_consume in Hh.
  assert (W0 : cwf nl (push_op (set_last s None) IIf)) by (eapply cwf_same; [|exact W]; unfold same_alloc; cbn; tauto).
  destruct (consume (push_op (set_last s None) IIf)) as [[p s2]|] eqn:Econs; [|discriminate].
  destruct (consume_spec nl _ p s2 Econs W0) as (Es & (O1 & O2 & O3) & En & Ecs & W2 & Pp).
  cbn [push_op emit set_out set_last c_out c_bp c_stack c_next c_reuse c_consts c_last] in Es, O1, O2, O3, En, Ecs.
  assert (Est : c_stack s2 = []).
  { rewrite Es in L. rewrite H1 in L. cbn in L. destruct (c_stack s2); [reflexivity|cbn in L; lia]. }
  assert (Eoff : cur_off (push_loc s2 p) = cur_off s + 5).
  { unfold cur_off, push_loc, emit. cbn [set_out c_out]. rewrite O1, !app_length, i32_bytes_length. cbn [length]. lia. }
  rewrite Eoff in Hh.
  assert (F1 : c_out s1 = c_out s ++ IIf :: i32_bytes (provider_idx p) ++ u32_bytes 0).
  { inversion Hh; subst s1. cbn. rewrite O1, <- !app_assoc. reflexivity. }
  assert (F2 : c_bp s1 = JUnknown [cur_off s + 5] None :: c_bp s) by (inversion Hh; subst s1; cbn; rewrite O2; reflexivity).
  assert (F3 : c_stack s1 = []) by (inversion Hh; subst s1; cbn; exact Est).
  assert (F4 : c_next s1 = c_next s) by (inversion Hh; subst s1; cbn; exact En).
  assert (F5 : c_consts s1 = c_consts s) by (inversion Hh; subst s1; cbn; exact Ecs).
  assert (F6 : c_last s1 = None) by (inversion Hh; subst s1; cbn; exact O3).
  assert (F7 : c_reuse s1 = c_reuse s2) by (inversion Hh; subst s1; cbn; reflexivity).
  clear Hh. exists p. rewrite Est in Es.
  assert (Eco : cur_off s1 = cur_off s + 9).
  { unfold cur_off. rewrite F1, !app_length. cbn [length]. rewrite app_length, i32_bytes_length, u32_bytes_length. lia. }
  assert (Eal : all_locs (c_bp s1) = [] ++ (cur_off s + 5) :: all_locs (c_bp s)) by (rewrite F2; reflexivity).
  splits; auto.
  - constructor.
    + destruct W2 as [A1 A2 A3 A4 A5]. constructor; try rewrite F3; try rewrite F4; try rewrite F5; try rewrite F7; try rewrite <- En; try rewrite <- Ecs; auto.
    + eapply (bpwf_add s s1 (cur_off s + 5) [] (all_locs (c_bp s))); auto; try lia.
    + rewrite F3. reflexivity.
    + rewrite F2. constructor; [repeat split; cbn; auto; left; eexists; split; [reflexivity|discriminate]|exact Fr].
    + left. exact Hu.
  - eapply (ext_add s s1 _ (cur_off s + 5) [] (all_locs (c_bp s))); eauto; try lia.
Qed.

(** *** end *)
Lemma reach_term v : v_unreach v = Some (length (v_ctrls v) - 1)%nat -> v_ctrls v <> [] ->
  v_reachability v = UnreachableInstruction.
Proof.
  intros H Hn. unfold v_reachability. rewrite H. destruct (v_ctrls v) as [|f r]; [contradiction|]. cbn [length].
  destruct (Nat.ltb_spec (S (length r) - 1 + 1) (S (length r))); [lia|reflexivity].
Qed.

Lemma handle_end cx s v reach locs bp' :
  reach = Reachable \/ reach = UnreachableInstruction -> c_bp s = JUnknown locs None :: bp' ->
  handle_opcode cx s v reach OEnd =
  let s1 := fold_left (fun acc l => back_patch acc l (cur_off s)) locs (set_bp (set_last s None) bp') in
  if (length (c_stack s1) =? v_opds v)%nat then Some s1 else None.
Proof.
  intros [->| ->] E; unfold handle_opcode; cbv beta iota zeta; cbn [set_last c_bp]; rewrite E; reflexivity.
Qed.

Lemma mode_reach v : vmode v -> v_reachability v = Reachable \/ v_reachability v = UnreachableInstruction.
Proof. intros [H|(H & Hn & _)]; [left; apply reach_of_none; auto|right; apply reach_term; auto]. Qed.

Lemma pop_ctrl_inv v f r bp :
  vmode v -> v_ctrls v = f :: r -> Forall2 frame_ok (f :: r) bp ->
  forall x, v_pop_ctrl v = Some x ->
  v_opds v = 0%nat /\ x = (None, vf_is_if f, {| v_opds := 0; v_ctrls := r; v_unreach := None |}).
Proof.
  intros Md Ec Fr x H. destruct (frames_cons _ _ _ Fr) as (Fh & Fl & Fe & _).
  unfold v_pop_ctrl in H. rewrite Ec, Fe in H. cbn [bt_arity v_popn] in H. rewrite Fh in H.
  destruct (Nat.eqb_spec (v_opds v) 0) as [E0|]; [|discriminate]. split; [exact E0|].
  inversion H; subst x; clear H. rewrite E0. do 3 f_equal.
  destruct Md as [->|(Hu & _ & _)]; [reflexivity|]. rewrite Hu, Ec. cbn [length].
  replace (S (length r) - 1)%nat with (length r) by lia. rewrite Nat.eqb_refl. reflexivity.
Qed.

Lemma handle_end_known cx s v reach pos bp' :
  reach = Reachable \/ reach = UnreachableInstruction -> c_bp s = JKnown pos :: bp' -> v_opds v = 0%nat ->
  handle_opcode cx s v reach OEnd =
  if (length (c_stack s) =? 0)%nat then Some (set_bp (set_last s None) bp') else None.
Proof.
  intros [->| ->] E H0; unfold handle_opcode; cbv beta iota zeta; cbn [set_last c_bp]; rewrite E;
    cbn [set_bp c_stack negb andb]; rewrite H0;
    replace (length (c_stack s) <? 0)%nat with false by (symmetry; apply Nat.ltb_ge; lia); reflexivity.
Qed.

Lemma op_end nl cx s v v1 s1 :
  inv nl s v -> vstep cx v OEnd = Some v1 -> handle_opcode cx s v1 (v_reachability v) OEnd = Some s1 ->
  exists j bp', c_bp s = j :: bp' /\ c_bp s1 = bp' /\ c_stack s = [] /\ c_stack s1 = []
  /\ c_next s1 = c_next s /\ c_consts s1 = c_consts s /\ c_last s1 = None /\ cur_off s1 = cur_off s /\ ext s s1
  /\ (forall loc, In loc (locs_of j) -> resolved s1 loc (cur_off s)) /\ inv nl s1 v1 /\ v_unreach v1 = None.
Proof.
  intros I Hv Hh. destruct I as [W B L Fr Md].
  cbn [vstep] in Hv. destruct (v_pop_ctrl v) as [[[res isif] v2]|] eqn:Ep; [|discriminate].
  destruct (v_ctrls v) as [|f r] eqn:Ec; [unfold v_pop_ctrl in Ep; rewrite Ec in Ep; discriminate|].
  destruct (pop_ctrl_inv v f r (c_bp s) Md Ec Fr _ Ep) as [E0 Ex]. inversion Ex; subst res isif v2; clear Ex.
  cbn [bt_arity v_pushn] in Hv. inversion Hv; subst v1; clear Hv.
  assert (Est : c_stack s = []) by (destruct (c_stack s); [reflexivity|cbn in L; lia]).
  destruct (frames_cons _ _ _ Fr) as (_ & _ & _ & j & bp' & Ebp & Fr' & [(locs & -> & _)|(pos & -> & _)]).
  - rewrite (handle_end cx s _ _ locs bp' (mode_reach v Md) Ebp) in Hh. cbv zeta in Hh. apply checked2 in Hh.
    destruct Hh as [Hs1 _]. symmetry in Hs1.
    destruct (end_patch s locs bp' s1 B Ebp Hs1) as (A1 & A2 & A3 & A4 & A5 & A6 & A7 & A8 & A9 & A10).
    exists (JUnknown locs None), bp'. splits; auto; try congruence.
    constructor; cbn [v_opds v_ctrls v_unreach]; auto.
    + eapply cwf_same; [|exact W]. unfold same_alloc. auto.
    + rewrite A2, Est. reflexivity.
    + rewrite A1. exact Fr'.
    + left. reflexivity.
  - rewrite (handle_end_known cx s {| v_opds := 0; v_ctrls := r; v_unreach := None |} _ pos bp' (mode_reach v Md) Ebp eq_refl) in Hh. rewrite Est in Hh. cbn in Hh.
    inversion Hh; subst s1; clear Hh. cbn [set_bp set_last c_out c_bp c_stack c_next c_reuse c_consts c_last].
    exists (JKnown pos), bp'. splits; auto.
    + apply (ext_same_locs s _ []); cbn; [rewrite app_nil_r; reflexivity|rewrite Ebp; reflexivity].
    + intros loc [].
    + constructor; cbn [v_opds v_ctrls v_unreach set_bp set_last c_out c_bp c_stack c_next c_reuse c_consts c_last]; auto.
      * eapply cwf_same; [|exact W]. unfold same_alloc. cbn. auto.
      * eapply (bpwf_same_locs s); [exact B|cbn; rewrite Ebp; reflexivity|unfold cur_off; cbn; lia].
      * rewrite Est. reflexivity.
      * left. reflexivity.
Qed.

(** *** loop *)
Lemma op_loop nl cx s v v1 s1 :
  inv nl s v -> v_unreach v = None -> v_opds v = 0%nat ->
  vstep cx v (OLoop None) = Some v1 -> handle_opcode cx s v1 Reachable (OLoop None) = Some s1 ->
  c_out s1 = c_out s /\ c_bp s1 = JKnown (cur_off s) :: c_bp s /\ same_alloc s s1 /\ c_last s1 = None
  /\ inv nl s1 v1 /\ v_unreach v1 = None.
Proof.
  intros I Hu H0 Hv Hh. cbn [vstep] in Hv. inversion Hv; subst v1; clear Hv.
  unfold handle_opcode in Hh. cbv beta iota zeta in Hh. apply checked2 in Hh. destruct Hh as [Hh Hl].
  subst s1. cbn [set_bp set_last c_out c_bp c_stack c_next c_reuse c_consts c_last v_push_ctrl v_unreach v_opds v_ctrls] in *.
  change (cur_off (set_last s None)) with (cur_off s).
  splits; auto; try (unfold same_alloc; cbn; tauto).
  destruct I as [W B L Fr Md]. constructor; cbn; auto.
  - eapply cwf_same; [|exact W]. unfold same_alloc; cbn; tauto.
  - destruct B as [B1 B2 B3]. constructor; cbn; auto.
  - constructor; auto. repeat split; cbn; auto. right. eexists; split; reflexivity.
  - left. exact Hu.
Qed.

(** *** br / br_if to a result-less label *)
Lemma frames_mark f r bp : Forall2 frame_ok (f :: r) bp ->
  Forall2 frame_ok ({| vf_is_if := vf_is_if f; vf_label := vf_label f; vf_end := vf_end f; vf_height := vf_height f;
                       vf_unreachable := true |} :: r) bp.
Proof. intros H. inversion H as [|? j ? bp' (A & B & C & D) Fr']; subst. constructor; auto. repeat split; auto. Qed.

Lemma op_br nl cx s v v1 s1 k locs :
  inv nl s v -> v_unreach v = None -> nth_error (c_bp s) k = Some (JUnknown locs None) ->
  vstep cx v (OBasic (BBr k)) = Some v1 -> handle_opcode cx s v1 Reachable (OBasic (BBr k)) = Some s1 ->
  c_out s1 = c_out s ++ IBr :: u32_bytes 0
  /\ c_bp s1 = update_nth (c_bp s) k (JUnknown (locs ++ [cur_off s + 1]) None)
  /\ c_stack s1 = [] /\ c_next s1 = c_next s /\ c_consts s1 = c_consts s /\ c_last s1 = None
  /\ inv nl s1 v1 /\ v_unreach v1 <> None /\ ext s s1.
Proof.
  intros I Hu Enth Hv Hh. destruct I as [W B L Fr Md].
  cbn [vstep] in Hv. unfold label_type in Hv. destruct (nth_error (v_ctrls v) k) as [fk|] eqn:Ek; [|discriminate].
  destruct (frames_nth _ _ k fk Fr Ek) as (Fl & _). rewrite Fl in Hv. cbn [bt_arity v_popn] in Hv.
  unfold v_mark_unreachable in Hv. destruct (v_ctrls v) as [|f r] eqn:Ec; [discriminate|]. rewrite Hu in Hv.
  inversion Hv; subst v1; clear Hv. destruct (frames_cons _ _ _ Fr) as (Fh & _).
  unfold handle_opcode in Hh. cbv beta iota zeta in Hh. apply checked in Hh. destruct Hh as [Hh Hl].
  cbn [v_opds] in Hh, Hl.
  unfold push_br_jump in Hh. cbn [set_last c_bp] in Hh. rewrite Enth in Hh.
  unfold insert_jump_location in Hh. cbn [push_op emit set_out c_bp set_last] in Hh. rewrite Enth in Hh.
  set (s2 := emit _ (u32_bytes 0)) in Hh.
  assert (W2 : cwf nl s2) by (eapply cwf_same; [|exact W]; unfold same_alloc; cbn; tauto).
  unfold truncate in Hh.
  destruct (truncate_n_spec nl _ s2 s1 Hh W2) as ((O1 & O2 & O3) & En & Ecs & W1 & Ln).
  assert (S1 : c_out s2 = c_out s ++ IBr :: u32_bytes 0) by (subst s2; cbn; rewrite <- app_assoc; reflexivity).
  assert (S2 : c_bp s2 = update_nth (c_bp s) k (JUnknown (locs ++ [cur_off s + 1]) None)).
  { subst s2. cbn [emit set_out set_bp c_bp push_op set_last]. do 4 f_equal. unfold cur_off. cbn [c_out emit set_out push_op set_last]. rewrite app_length. cbn [length]. lia. }
  assert (S3 : c_last s2 = None) by reflexivity.
  assert (S4 : c_next s2 = c_next s) by reflexivity.
  assert (S5 : c_consts s2 = c_consts s) by reflexivity.
  rewrite S1 in O1. rewrite S2 in O2. rewrite S3 in O3. rewrite S4 in En. rewrite S5 in Ecs. clearbody s2.
  assert (Est : c_stack s1 = []) by (destruct (c_stack s1); [reflexivity|cbn in Hl; rewrite Fh in Hl; discriminate]).
  destruct (all_locs_update (c_bp s) k locs None (cur_off s + 1) Enth) as (A & Bl & EA & EB). rewrite <- O2 in EB.
  assert (Ecur : cur_off s1 = cur_off s + 5).
  { unfold cur_off. rewrite O1, app_length. cbn [length]. rewrite u32_bytes_length. lia. }
  splits; auto.
  - constructor; cbn [v_opds v_ctrls v_unreach]; auto.
    + eapply (bpwf_add s s1 (cur_off s + 1) A Bl); auto; lia.
    + rewrite O2. apply frames_mark. apply frames_update. exact Fr.
    + right. cbn [v_unreach v_ctrls v_opds length]. splits; auto; try discriminate. f_equal. lia.
  - cbn. discriminate.
  - eapply (ext_add s s1 _ (cur_off s + 1) A Bl); eauto. lia.
Qed.

Lemma op_br_if nl cx s v v1 s1 k locs :
  inv nl s v -> v_unreach v = None -> nth_error (c_bp s) k = Some (JUnknown locs None) ->
  vstep cx v (OBasic (BBrIf k)) = Some v1 -> handle_opcode cx s v1 Reachable (OBasic (BBrIf k)) = Some s1 ->
  exists p rest, c_stack s = p :: rest /\ pwf nl s p
  /\ c_out s1 = c_out s ++ IBrIf :: u32_bytes 0 ++ i32_bytes (provider_idx p)
  /\ c_bp s1 = update_nth (c_bp s) k (JUnknown (locs ++ [cur_off s + 1]) None)
  /\ c_stack s1 = rest /\ c_next s1 = c_next s /\ c_consts s1 = c_consts s /\ c_last s1 = None
  /\ inv nl s1 v1 /\ v_unreach v1 = None /\ ext s s1.
Proof.
  intros I Hu Enth Hv Hh. destruct I as [W B L Fr Md].
  cbn [vstep] in Hv. unfold label_type in Hv. destruct (nth_error (v_ctrls v) k) as [fk|] eqn:Ek; [|discriminate].
  destruct (frames_nth _ _ k fk Fr Ek) as (Fl & _). rewrite Fl in Hv.
  destruct (v_pop v) as [v2|] eqn:Epop; [|discriminate]. cbn [bt_arity v_popn v_pushn] in Hv. inversion Hv; subst v2; clear Hv.
  unfold handle_opcode in Hh. cbv beta iota zeta in Hh. apply checked in Hh. destruct Hh as [Hh Hl].
  assert (W0 : cwf nl (set_last s None)) by (eapply cwf_same; [|exact W]; unfold same_alloc; cbn; tauto).
  destruct (consume (set_last s None)) as [[p s2]|] eqn:Econs; [|discriminate].
  destruct (consume_spec nl _ p s2 Econs W0) as (Es & (O1 & O2 & O3) & En & Ecs & W2 & Pp).
  cbn [set_last c_out c_bp c_stack c_next c_reuse c_consts c_last] in Es, O1, O2, O3, En, Ecs.
  unfold push_br_if_jump in Hh. rewrite O2, Enth in Hh.
  unfold insert_jump_location in Hh. change (c_bp (push_op s2 IBrIf)) with (c_bp s2) in Hh. rewrite O2, Enth in Hh.
  assert (Eco : cur_off (push_op s2 IBrIf) = cur_off s + 1).
  { unfold cur_off, push_op, emit. cbn [set_out c_out]. rewrite O1, app_length. cbn [length]. lia. }
  rewrite Eco in Hh. injection Hh as Hs1.
  assert (F1 : c_out s1 = c_out s ++ IBrIf :: u32_bytes 0 ++ i32_bytes (provider_idx p)).
  { subst s1. cbn [push_loc emit set_out set_bp c_out push_op]. rewrite O1, <- !app_assoc. reflexivity. }
  assert (F2 : c_bp s1 = update_nth (c_bp s) k (JUnknown (locs ++ [cur_off s + 1]) None)) by (subst s1; reflexivity).
  assert (F3 : c_stack s1 = c_stack s2) by (subst s1; reflexivity).
  assert (F4 : c_next s1 = c_next s2) by (subst s1; reflexivity).
  assert (F5 : c_consts s1 = c_consts s2) by (subst s1; reflexivity).
  assert (F6 : c_last s1 = c_last s2) by (subst s1; reflexivity).
  assert (F7 : c_reuse s1 = c_reuse s2) by (subst s1; reflexivity).
  clear Hs1.
  destruct (all_locs_update (c_bp s) k locs None (cur_off s + 1) Enth) as (A & Bl & EA & EB). rewrite <- F2 in EB.
  assert (Ecur : cur_off s1 = cur_off s + 9).
  { unfold cur_off. rewrite F1, app_length. cbn [length]. rewrite app_length, u32_bytes_length, i32_bytes_length. lia. }
  (* the validation state *)
  assert (Ev : v_unreach v1 = None /\ v_ctrls v1 = v_ctrls v /\ vmode v1).
  { unfold v_pop in Epop. destruct (v_ctrls v) as [|f r] eqn:Ec; [discriminate|].
    destruct (v_opds v =? vf_height f)%nat; [destruct (vf_unreachable f); [|discriminate]|];
      inversion Epop; subst v1; cbn; rewrite ?Ec; splits; auto; left; auto. }
  destruct Ev as (Ev1 & Ev2 & Ev3).
  exists p, (c_stack s2). splits; auto; try congruence.
  - constructor; auto.
    + eapply cwf_same; [|exact W2]. unfold same_alloc; auto.
    + eapply (bpwf_add s s1 (cur_off s + 1) A Bl); auto; lia.
    + rewrite Ev2, F2. apply frames_update. exact Fr.
  - eapply (ext_add s s1 _ (cur_off s + 1) A Bl); eauto. lia.
Qed.

(** *** else *)
Lemma overwrite_app : forall (a b : list N) pos bs, (pos + length bs <= length a)%nat ->
  overwrite (a ++ b) pos bs = overwrite a pos bs ++ b.
Proof.
  induction a as [|x a IH]; intros b pos bs H.
  - cbn in H. assert (pos = O) by lia. assert (length bs = O) by lia. destruct bs; [|discriminate]. subst. cbn.
    destruct b; reflexivity.
  - destruct pos as [|pos]; cbn [overwrite app].
    + rewrite <- app_assoc. f_equal. change (x :: a ++ b) with ((x :: a) ++ b). rewrite skipn_app.
      replace (length bs - length (x :: a))%nat with O by lia. cbn [skipn]. reflexivity.
    + f_equal. apply IH. cbn in H. lia.
Qed.

Lemma handle_else cx s v reach locs bp' :
  reach = Reachable \/ reach = UnreachableInstruction -> c_bp s = JUnknown locs None :: bp' ->
  handle_opcode cx s v reach OElse =
  let s1 := emit (set_bp (push_op (set_last s None) IBr) (JUnknown (locs ++ [cur_off s + 1]) None :: bp')) (u32_bytes 0) in
  let r := match locs ++ [cur_off s + 1] with
           | first :: rest => Some (back_patch (set_bp s1 (JUnknown rest None :: bp')) first (cur_off s + 5))
           | [] => None
           end in
  match r with Some s' => if (length (c_stack s') =? v_opds v)%nat then Some s' else None | None => None end.
Proof.
  assert (E1 : cur_off (push_op (set_last s None) IBr) = cur_off s + 1).
  { unfold cur_off. cbn. rewrite app_length. cbn. lia. }
  assert (E2 : forall A, cur_off (emit (set_bp (push_op (set_last s None) IBr) A) (u32_bytes 0)) = cur_off s + 5).
  { intros A. unfold cur_off. cbn [emit set_out set_bp push_op set_last c_out]. rewrite !app_length, u32_bytes_length. cbn [length]. lia. }
  intros [->| ->] E; unfold handle_opcode; cbv beta iota zeta; unfold push_br_jump; cbn [set_last c_bp nth_error]; rewrite E;
    unfold insert_jump_location; cbn [push_op emit set_out c_bp set_last nth_error]; rewrite E;
    fold (push_op (set_last s None) IBr); rewrite E1;
    cbn [emit set_out set_bp c_bp update_nth];
    destruct (locs ++ [cur_off s + 1]) as [|first rest] eqn:El; try reflexivity; rewrite E2; reflexivity.
Qed.

Lemma bpwf_remove s s' first R :
  bpwf s -> all_locs (c_bp s) = first :: R -> all_locs (c_bp s') = R -> cur_off s <= cur_off s' -> bpwf s'.
Proof.
  intros [W1 W2 W3] E E' Hle. rewrite E in *. constructor; rewrite E'.
  - intros loc Hl. destruct (W1 loc (or_intror Hl)). lia.
  - intros a b Ha Hb. apply W2; right; auto.
  - inversion W3; auto.
Qed.

Lemma op_else nl cx s v v1 s1 :
  inv nl s v -> vstep cx v OElse = Some v1 -> handle_opcode cx s v1 (v_reachability v) OElse = Some s1 ->
  exists first more bp' pre,
    c_bp s = JUnknown (first :: more) None :: bp' /\ c_bp s1 = JUnknown (more ++ [cur_off s + 1]) None :: bp'
    /\ length pre = length (c_out s) /\ c_out s1 = pre ++ IBr :: u32_bytes 0
    /\ c_stack s = [] /\ c_stack s1 = [] /\ c_next s1 = c_next s /\ c_consts s1 = c_consts s /\ c_last s1 = None
    /\ ext s s1 /\ resolved s1 first (cur_off s + 5) /\ inv nl s1 v1 /\ v_unreach v1 = None.
Proof.
  intros I Hv Hh. destruct I as [W B L Fr Md].
  cbn [vstep] in Hv. destruct (v_pop_ctrl v) as [[[res isif] v2]|] eqn:Ep; [|discriminate].
  destruct (v_ctrls v) as [|f r] eqn:Ec; [unfold v_pop_ctrl in Ep; rewrite Ec in Ep; discriminate|].
  destruct (pop_ctrl_inv v f r (c_bp s) Md Ec Fr _ Ep) as [E0 Ex]. inversion Ex; subst res isif v2; clear Ex.
  destruct (vf_is_if f) eqn:Eif; [|discriminate]. inversion Hv; subst v1; clear Hv.
  destruct (frames_cons _ _ _ Fr) as (_ & _ & _ & j0 & bp' & Ebp & Fr' & [(locs & -> & Hne)|(pos & -> & Hk)]); [|congruence].
  destruct locs as [|first more]; [exfalso; apply (Hne Eif); reflexivity|].
  rewrite (handle_else cx s _ _ (first :: more) bp' (mode_reach v Md) Ebp) in Hh. cbv zeta in Hh.
  cbn [app] in Hh. apply checked2 in Hh. destruct Hh as [Hs1 _].
  assert (Est : c_stack s = []) by (destruct (c_stack s); [reflexivity|cbn in L; lia]).
  assert (Hall : all_locs (c_bp s) = first :: more ++ all_locs bp') by (rewrite Ebp; reflexivity).
  destruct (bw_range _ B first) as [Hf0 Hf1]; [rewrite Hall; left; reflexivity|].
  assert (Hfl : (Z.to_nat first + 4 <= length (c_out s))%nat) by (unfold cur_off in Hf1; lia).
  set (pre := overwrite (c_out s) (Z.to_nat first) (u32_bytes (cur_off s + 5))).
  assert (Lpre : length pre = length (c_out s)) by (apply overwrite_length; rewrite u32_bytes_length; exact Hfl).
  assert (F1 : c_out s1 = pre ++ IBr :: u32_bytes 0).
  { subst s1. cbn [back_patch set_out set_bp emit push_op set_last c_out]. rewrite <- app_assoc. cbn [app].
    apply overwrite_app. rewrite u32_bytes_length. exact Hfl. }
  assert (F2 : c_bp s1 = JUnknown (more ++ [cur_off s + 1]) None :: bp') by (subst s1; reflexivity).
  assert (F3 : c_stack s1 = c_stack s) by (subst s1; reflexivity).
  assert (F4 : c_next s1 = c_next s) by (subst s1; reflexivity).
  assert (F5 : c_consts s1 = c_consts s) by (subst s1; reflexivity).
  assert (F6 : c_last s1 = None) by (subst s1; reflexivity).
  assert (F7 : c_reuse s1 = c_reuse s) by (subst s1; reflexivity).
  clear Hs1.
  assert (Ecur : cur_off s1 = cur_off s + 5).
  { unfold cur_off. rewrite F1, app_length, Lpre. cbn [length]. rewrite u32_bytes_length. lia. }
  (* intermediate state without [first] *)
  set (sm := set_bp s (JUnknown more None :: bp')).
  assert (Bm : bpwf sm).
  { eapply (bpwf_remove s sm first _ B Hall); [reflexivity|unfold sm, cur_off; cbn; lia]. }
  assert (Hall1 : all_locs (c_bp s1) = more ++ (cur_off s + 1) :: all_locs bp').
  { rewrite F2. cbn [all_locs flat_map locs_of]. rewrite <- app_assoc. reflexivity. }
  assert (B1 : bpwf s1).
  { eapply (bpwf_add sm s1 (cur_off s + 1) more (all_locs bp')); auto; try reflexivity.
    - change (cur_off sm) with (cur_off s). lia.
    - lia.
    - change (cur_off sm) with (cur_off s). lia. }
  assert (Hin1 : forall y, In y (all_locs (c_bp s1)) -> y = cur_off s + 1 \/ (In y (all_locs (c_bp s)) /\ y <> first)).
  { intros y Hy. rewrite Hall1 in Hy. apply in_app_iff in Hy. cbn in Hy.
    pose proof (bw_nodup _ B) as Hnd. rewrite Hall in Hnd. inversion Hnd as [|? ? Hnf _]; subst.
    assert (In y (more ++ all_locs bp') -> In y (all_locs (c_bp s)) /\ y <> first).
    { intros Hy'. split; [rewrite Hall; right; exact Hy'|intros ->; contradiction]. }
    destruct Hy as [Hy|[Hy|Hy]]; auto; right; apply H; apply in_or_app; auto. }
  exists first, more, bp', pre. splits; auto; try congruence.
  - (* ext *)
    split; [rewrite F1, app_length, Lpre; lia|]. intros p Hp Hn. split.
    + rewrite F1, app_nth1 by lia. apply nth_overwrite_other. rewrite u32_bytes_length.
      destruct (Nat.lt_ge_cases p (Z.to_nat first)) as [|Hge]; [left; exact H|right].
      destruct (Nat.le_gt_cases (Z.to_nat first + 4) p) as [|Hlt]; [exact H|exfalso].
      apply Hn. exists first. split; [rewrite Hall; left; reflexivity|unfold in_win; lia].
    + intros (y & Hy & Hw). destruct (Hin1 y Hy) as [->|[Hy' _]].
      * unfold in_win, cur_off in Hw. lia.
      * apply Hn. exists y. auto.
  - (* resolved *)
    split; [exact Hf0|]. split; [rewrite F1, app_length; lia|]. intros j Hj. split.
    + rewrite F1, app_nth1 by lia. unfold pre. rewrite nth_overwrite_in; rewrite ?u32_bytes_length; try lia. f_equal. lia.
    + intros (y & Hy & Hw). destruct (Hin1 y Hy) as [->|[Hy' Hne']].
      * unfold in_win, cur_off in *. lia.
      * assert (Hfi : In first (all_locs (c_bp s))) by (rewrite Hall; left; reflexivity).
        destruct (bw_sep _ B first y Hfi Hy') as [E|Hs]; [congruence|]. unfold in_win in Hw. lia.
  - constructor; cbn [v_push_ctrl v_opds v_ctrls v_unreach]; auto.
    + eapply cwf_same; [|exact W]. unfold same_alloc. auto.
    + rewrite F3, Est. reflexivity.
    + rewrite F2. constructor; [|exact Fr']. repeat split; cbn; auto. left. eexists; split; [reflexivity|discriminate].
    + left. reflexivity.
Qed.

(** *** br / br_if to a loop label (known target), unreachable *)
Lemma bp_target nl s v k f : inv nl s v -> nth_error (v_ctrls v) k = Some f ->
  (exists locs, nth_error (c_bp s) k = Some (JUnknown locs None)) \/ (exists pos, nth_error (c_bp s) k = Some (JKnown pos)).
Proof. intros I E. apply (frames_nth _ _ k f (i_frames _ _ _ I) E). Qed.

Lemma br_target cx v k v1 : vstep cx v (OBasic (BBr k)) = Some v1 -> exists f, nth_error (v_ctrls v) k = Some f.
Proof. cbn [vstep]. unfold label_type. destruct (nth_error (v_ctrls v) k); [eauto|discriminate]. Qed.
Lemma br_if_target cx v k v1 : vstep cx v (OBasic (BBrIf k)) = Some v1 -> exists f, nth_error (v_ctrls v) k = Some f.
Proof. cbn [vstep]. unfold label_type. destruct (nth_error (v_ctrls v) k); [eauto|discriminate]. Qed.

Lemma terminated_state nl s v f r s2 s1 (t : list N) :
  cwf nl s -> bpwf s -> Forall2 frame_ok (f :: r) (c_bp s) -> v_ctrls v = f :: r ->
  c_out s2 = c_out s ++ t -> c_bp s2 = c_bp s -> c_last s2 = None -> c_next s2 = c_next s -> c_consts s2 = c_consts s ->
  cwf nl s2 -> truncate_n (length (c_stack s2) - vf_height f) s2 = Some s1 ->
  length (c_stack s1) = vf_height f ->
  c_out s1 = c_out s ++ t /\ c_bp s1 = c_bp s /\ c_stack s1 = [] /\ c_next s1 = c_next s /\ c_consts s1 = c_consts s
  /\ c_last s1 = None
  /\ inv nl s1 {| v_opds := vf_height f;
                  v_ctrls := {| vf_is_if := vf_is_if f; vf_label := vf_label f; vf_end := vf_end f;
                                vf_height := vf_height f; vf_unreachable := true |} :: r;
                  v_unreach := Some (length r) |}
  /\ ext s s1.
Proof.
  intros W B Fr Ec S1 S2 S3 S4 S5 W2 Hh Hl.
  destruct (truncate_n_spec nl _ s2 s1 Hh W2) as ((O1 & O2 & O3) & En & Ecs & W1 & Ln).
  destruct (frames_cons _ _ _ Fr) as (Fh & _).
  assert (Est : c_stack s1 = []) by (destruct (c_stack s1); [reflexivity|cbn in Hl; rewrite Fh in Hl; discriminate]).
  assert (X : ext s s1) by (eapply ext_append; [rewrite O1; exact S1|congruence]).
  splits; auto; try congruence.
  constructor; cbn [v_opds v_ctrls v_unreach]; auto.
  - eapply bpwf_same_locs; [exact B|rewrite O2, S2; reflexivity|destruct X as [Hle _]; unfold cur_off; lia].
  - rewrite O2, S2. apply frames_mark. exact Fr.
  - right. cbn [v_unreach v_ctrls v_opds length]. splits; auto; try discriminate. f_equal. lia.
Qed.

Lemma op_br_known nl cx s v v1 s1 k pos :
  inv nl s v -> v_unreach v = None -> nth_error (c_bp s) k = Some (JKnown pos) ->
  vstep cx v (OBasic (BBr k)) = Some v1 -> handle_opcode cx s v1 Reachable (OBasic (BBr k)) = Some s1 ->
  c_out s1 = c_out s ++ IBr :: u32_bytes pos /\ c_bp s1 = c_bp s
  /\ c_stack s1 = [] /\ c_next s1 = c_next s /\ c_consts s1 = c_consts s /\ c_last s1 = None
  /\ inv nl s1 v1 /\ v_unreach v1 <> None /\ ext s s1.
Proof.
  intros I Hu Enth Hv Hh. destruct I as [W B L Fr Md].
  cbn [vstep] in Hv. unfold label_type in Hv. destruct (nth_error (v_ctrls v) k) as [fk|] eqn:Ek; [|discriminate].
  destruct (frames_nth _ _ k fk Fr Ek) as (Fl & _). rewrite Fl in Hv. cbn [bt_arity v_popn] in Hv.
  unfold v_mark_unreachable in Hv. destruct (v_ctrls v) as [|f r] eqn:Ec; [discriminate|]. rewrite Hu in Hv.
  inversion Hv; subst v1; clear Hv.
  unfold handle_opcode in Hh. cbv beta iota zeta in Hh. apply checked in Hh. destruct Hh as [Hh Hl].
  cbn [v_opds] in Hh, Hl.
  unfold push_br_jump in Hh. cbn [set_last c_bp] in Hh. rewrite Enth in Hh.
  unfold insert_jump_location in Hh. cbn [push_op emit set_out c_bp set_last] in Hh. rewrite Enth in Hh.
  set (s2 := emit _ (u32_bytes pos)) in Hh. unfold truncate in Hh.
  assert (W2 : cwf nl s2) by (eapply cwf_same; [|exact W]; unfold same_alloc; cbn; tauto).
  assert (S1 : c_out s2 = c_out s ++ IBr :: u32_bytes pos) by (subst s2; cbn; rewrite <- app_assoc; reflexivity).
  destruct (terminated_state nl s v f r s2 s1 _ W B Fr Ec S1 eq_refl eq_refl eq_refl eq_refl W2 Hh Hl)
    as (A1 & A2 & A3 & A4 & A5 & A6 & A7 & A8).
  splits; auto. cbn. discriminate.
Qed.

Lemma op_unreachable nl cx s v v1 s1 :
  inv nl s v -> v_unreach v = None ->
  vstep cx v (OBasic BUnreachable) = Some v1 -> handle_opcode cx s v1 Reachable (OBasic BUnreachable) = Some s1 ->
  c_out s1 = c_out s ++ [IUnreachable] /\ c_bp s1 = c_bp s
  /\ c_stack s1 = [] /\ c_next s1 = c_next s /\ c_consts s1 = c_consts s /\ c_last s1 = None
  /\ inv nl s1 v1 /\ v_unreach v1 <> None /\ ext s s1.
Proof.
  intros I Hu Hv Hh. destruct I as [W B L Fr Md].
  cbn [vstep] in Hv. unfold v_mark_unreachable in Hv. destruct (v_ctrls v) as [|f r] eqn:Ec; [discriminate|]. rewrite Hu in Hv.
  inversion Hv; subst v1; clear Hv.
  unfold handle_opcode in Hh. cbv beta iota zeta in Hh. apply checked in Hh. destruct Hh as [Hh Hl].
  cbn [v_opds] in Hh, Hl. unfold truncate in Hh.
  set (s2 := push_op (set_last s None) IUnreachable) in *.
  assert (W2 : cwf nl s2) by (eapply cwf_same; [|exact W]; unfold same_alloc; cbn; tauto).
  destruct (terminated_state nl s v f r s2 s1 [IUnreachable] W B Fr Ec eq_refl eq_refl eq_refl eq_refl eq_refl W2 Hh Hl)
    as (A1 & A2 & A3 & A4 & A5 & A6 & A7 & A8).
  splits; auto. cbn. discriminate.
Qed.

Lemma op_br_if_known nl cx s v v1 s1 k pos :
  inv nl s v -> v_unreach v = None -> nth_error (c_bp s) k = Some (JKnown pos) ->
  vstep cx v (OBasic (BBrIf k)) = Some v1 -> handle_opcode cx s v1 Reachable (OBasic (BBrIf k)) = Some s1 ->
  exists p rest, c_stack s = p :: rest /\ pwf nl s p
  /\ c_out s1 = c_out s ++ IBrIf :: u32_bytes pos ++ i32_bytes (provider_idx p)
  /\ c_bp s1 = c_bp s
  /\ c_stack s1 = rest /\ c_next s1 = c_next s /\ c_consts s1 = c_consts s /\ c_last s1 = None
  /\ inv nl s1 v1 /\ v_unreach v1 = None /\ ext s s1.
Proof.
  intros I Hu Enth Hv Hh. destruct I as [W B L Fr Md].
  cbn [vstep] in Hv. unfold label_type in Hv. destruct (nth_error (v_ctrls v) k) as [fk|] eqn:Ek; [|discriminate].
  destruct (frames_nth _ _ k fk Fr Ek) as (Fl & _). rewrite Fl in Hv.
  destruct (v_pop v) as [v2|] eqn:Epop; [|discriminate]. cbn [bt_arity v_popn v_pushn] in Hv. inversion Hv; subst v2; clear Hv.
  unfold handle_opcode in Hh. cbv beta iota zeta in Hh. apply checked in Hh. destruct Hh as [Hh Hl].
  assert (W0 : cwf nl (set_last s None)) by (eapply cwf_same; [|exact W]; unfold same_alloc; cbn; tauto).
  destruct (consume (set_last s None)) as [[p s2]|] eqn:Econs; [|discriminate].
  destruct (consume_spec nl _ p s2 Econs W0) as (Es & (O1 & O2 & O3) & En & Ecs & W2 & Pp).
  cbn [set_last c_out c_bp c_stack c_next c_reuse c_consts c_last] in Es, O1, O2, O3, En, Ecs.
  unfold push_br_if_jump in Hh. rewrite O2, Enth in Hh.
  unfold insert_jump_location in Hh. change (c_bp (push_op s2 IBrIf)) with (c_bp s2) in Hh. rewrite O2, Enth in Hh.
  injection Hh as Hs1.
  assert (F1 : c_out s1 = c_out s ++ IBrIf :: u32_bytes pos ++ i32_bytes (provider_idx p)).
  { subst s1. cbn [push_loc emit set_out set_bp c_out push_op]. rewrite O1, <- !app_assoc. reflexivity. }
  assert (F2 : c_bp s1 = c_bp s) by (subst s1; cbn; exact O2).
  assert (F3 : c_stack s1 = c_stack s2) by (subst s1; reflexivity).
  assert (F4 : c_next s1 = c_next s2) by (subst s1; reflexivity).
  assert (F5 : c_consts s1 = c_consts s2) by (subst s1; reflexivity).
  assert (F6 : c_last s1 = c_last s2) by (subst s1; reflexivity).
  assert (F7 : c_reuse s1 = c_reuse s2) by (subst s1; reflexivity).
  clear Hs1.
  assert (Ev : v_unreach v1 = None /\ v_ctrls v1 = v_ctrls v /\ vmode v1).
  { unfold v_pop in Epop. destruct (v_ctrls v) as [|f r] eqn:Ec; [discriminate|].
    destruct (v_opds v =? vf_height f)%nat; [destruct (vf_unreachable f); [|discriminate]|];
      inversion Epop; subst v1; cbn; rewrite ?Ec; splits; auto; left; auto. }
  destruct Ev as (Ev1 & Ev2 & Ev3).
  assert (X : ext s s1) by (eapply ext_append; eauto).
  exists p, (c_stack s2). splits; auto; try congruence.
  constructor; auto.
  - eapply cwf_same; [|exact W2]. unfold same_alloc; auto.
  - eapply bpwf_same_locs; [exact B|rewrite F2; reflexivity|destruct X as [Hle _]; unfold cur_off; lia].
  - rewrite Ev2, F2. exact Fr.
Qed.

(** *** return in a function without result *)
Lemma last_label ctrls bp : Forall2 frame_ok ctrls bp -> ctrls <> [] ->
  last (map (fun f => Some (vf_label f)) ctrls) None = Some None.
Proof.
  induction 1 as [|f j r b Hf Hr IH]; intros Hne; [contradiction|].
  destruct r as [|g r']; cbn [map last].
  - destruct Hf as (_ & -> & _). reflexivity.
  - apply IH. discriminate.
Qed.

Lemma op_return nl cx s v v1 s1 :
  inv nl s v -> v_unreach v = None -> cx_return cx = None -> v_ctrls v <> [] ->
  vstep cx v (OBasic BReturn) = Some v1 -> handle_opcode cx s v1 Reachable (OBasic BReturn) = Some s1 ->
  c_out s1 = c_out s ++ [IReturn] /\ c_bp s1 = c_bp s
  /\ c_stack s1 = [] /\ c_next s1 = c_next s /\ c_consts s1 = c_consts s /\ c_last s1 = None
  /\ inv nl s1 v1 /\ v_unreach v1 <> None /\ ext s s1.
Proof.
  intros I Hu Hret Hne Hv Hh. destruct I as [W B L Fr Md].
  cbn [vstep] in Hv. rewrite (last_label _ _ Fr Hne) in Hv. cbn [bt_arity v_popn] in Hv.
  unfold v_mark_unreachable in Hv. destruct (v_ctrls v) as [|f r] eqn:Ec; [discriminate|]. rewrite Hu in Hv.
  inversion Hv; subst v1; clear Hv.
  unfold handle_opcode in Hh. cbv beta iota zeta in Hh. apply checked in Hh. destruct Hh as [Hh Hl].
  rewrite Hret in Hh. cbn [v_opds] in Hh, Hl. unfold truncate in Hh.
  set (s2 := push_op (set_last s None) IReturn) in *.
  assert (W2 : cwf nl s2) by (eapply cwf_same; [|exact W]; unfold same_alloc; cbn; tauto).
  destruct (terminated_state nl s v f r s2 s1 [IReturn] W B Fr Ec eq_refl eq_refl eq_refl eq_refl eq_refl W2 Hh Hl)
    as (A1 & A2 & A3 & A4 & A5 & A6 & A7 & A8).
  splits; auto. cbn. discriminate.
Qed.
