(** * Stage B: structured control without loops and calls (block / if / else / end, br, br_if)
    on top of the straight-line simulation.  See [compile_block_correct] at the end for the
    exact statement and [blocks_ok] for the accepted constructs. *)
From Coq Require Import ZArith NArith List Lia Bool FMapPositive.
From CB Require Import Common.IntN Common.IntNProofs Wasm.Syntax Wasm.Opcodes Wasm.Sem Wasm.Compile Wasm.Machine
     Wasm.MachineLemmas Wasm.CompileLemmas Wasm.NumOpsProofs Wasm.SemProofs Wasm.StraightProofs Wasm.BlockProofs.
Import ListNotations.
Local Open Scope Z_scope.
Local Arguments i32_bytes : simpl never.
Local Arguments u32_bytes : simpl never.
Local Arguments u16_bytes : simpl never.

(** ** the fragment: result-less blocks entered at an empty operand stack *)
(** the reserved result register of a value-typed frame is a dynamic location below the bound [B] *)
Definition resv (nl B : Z) (lbl : blocktype) (res : option provider) : Prop :=
  match lbl, res with
  | None, None => True
  | Some _, Some (PDyn d) => nl <= d < B
  | Some _, Some (PLocal i) => i = 0 /\ 0 < B     (* the function's own label: RETURN_VALUE_LOCATION *)
  | _, _ => False
  end.
Definition jt_ok (nl B : Z) (f : vframe) (j : jump_target) : Prop :=
  (exists locs res, j = JUnknown locs res /\ (vf_is_if f = true -> locs <> []) /\ resv nl B (vf_label f) res)
  \/ (exists pos, j = JKnown pos /\ vf_is_if f = false /\ vf_label f = None).   (* a loop: the target is its start *)
Definition frame_ok (nl B : Z) (f : vframe) (j : jump_target) : Prop :=
  vf_height f = 0%nat /\ vf_end f = vf_label f /\ jt_ok nl B f j.
Definition no_res (j : jump_target) : Prop := match j with JUnknown _ (Some _) => False | _ => True end.

Definition vmode (v : vstate) : Prop :=
  v_unreach v = None \/
  (v_unreach v = Some (length (v_ctrls v) - 1)%nat /\ v_ctrls v <> [] /\ v_opds v = 0%nat).

Record inv (nl : Z) (s : cstate) (v : vstate) : Prop := {
  i_cwf : cwf nl s;
  i_bp : bpwf s;
  i_len : length (c_stack s) = v_opds v;
  i_frames : Forall2 (frame_ok nl (c_next s)) (v_ctrls v) (c_bp s);
  i_mode : vmode v
}.

Definition jt_sub (j j' : jump_target) : Prop :=
  (exists locs add res, j = JUnknown locs res /\ j' = JUnknown (locs ++ add) res) \/ (exists pos, j = JKnown pos /\ j' = JKnown pos).
Definition bp_sub (b b' : list jump_target) : Prop := Forall2 jt_sub b b'.
Lemma jt_sub_refl nl B f j : frame_ok nl B f j -> jt_sub j j.
Proof.
  intros (_ & _ & [(locs & res & -> & _)|(pos & -> & _)]); [left; exists locs, [], res; rewrite app_nil_r; auto|right; exists pos; auto].
Qed.
Lemma resv_mono nl B B' lbl res : B <= B' -> resv nl B lbl res -> resv nl B' lbl res.
Proof. intros H. unfold resv. destruct lbl, res as [[d|i|]|]; auto; lia. Qed.
Lemma frames_mono nl B B' ctrls bp : B <= B' -> Forall2 (frame_ok nl B) ctrls bp -> Forall2 (frame_ok nl B') ctrls bp.
Proof.
  intros H F. induction F as [|f j ? ? Hf]; constructor; auto.
  destruct Hf as (A & E & [(locs & res & -> & X & R)|(pos & -> & X)]); repeat split; auto.
  - left. exists locs, res. repeat split; auto. eapply resv_mono; eauto.
  - right. exists pos. auto.
Qed.

Lemma bp_sub_refl nl B ctrls bp : Forall2 (frame_ok nl B) ctrls bp -> bp_sub bp bp.
Proof.
  induction 1 as [|f j ? ? Hf]; constructor; auto. eapply jt_sub_refl; eauto.
Qed.
Lemma bp_sub_trans a b d : bp_sub a b -> bp_sub b d -> bp_sub a d.
Proof.
  intros H. revert d. induction H as [|j j' ? ? Hj]; intros d H2; inversion H2 as [|? j'' ? ? Hj2]; subst.
  - constructor.
  - constructor; [|apply IHForall2; assumption].
    destruct Hj as [(locs & add & res & -> & ->)|(pos & -> & ->)], Hj2 as [(l2 & a2 & res2 & E & ->)|(pos2 & E & ->)]; try discriminate E.
    + inversion E; subst. left. exists locs, (add ++ a2), res2. rewrite app_assoc. auto.
    + right. exists pos. auto.
Qed.
Lemma bp_sub_update nl B ctrls : forall bp k locs res x,
  Forall2 (frame_ok nl B) ctrls bp -> nth_error bp k = Some (JUnknown locs res) ->
  bp_sub bp (update_nth bp k (JUnknown (locs ++ [x]) res)).
Proof.
  intros bp k locs res x H. revert k. induction H as [|f j ? ? Hf]; intros [|k] E; cbn in E; try discriminate.
  - inversion E; subst. cbn. constructor; [left; exists locs, [x], res; auto|eapply bp_sub_refl; eauto].
  - cbn. constructor; [|apply IHForall2; exact E]. eapply jt_sub_refl; eauto.
Qed.
Lemma frames_update nl B ctrls : forall bp k locs res x,
  Forall2 (frame_ok nl B) ctrls bp -> nth_error bp k = Some (JUnknown locs res) ->
  Forall2 (frame_ok nl B) ctrls (update_nth bp k (JUnknown (locs ++ [x]) res)).
Proof.
  intros bp k locs res x H. revert k. induction H as [|f j ? ? Hf]; intros [|k] E; cbn in E |- *; try discriminate; constructor; auto.
  inversion E; subst. destruct Hf as (A & C & [(l0 & r0 & E0 & _ & R)|(pos & E0 & _)]); [|discriminate E0]. inversion E0; subst.
  repeat split; auto. left. exists (l0 ++ [x]), r0. repeat split; auto. intros _. destruct l0; discriminate.
Qed.

Lemma truncate_n_spec nl : forall k s s', truncate_n k s = Some s' -> cwf nl s ->
  same_out s s' /\ c_next s' = c_next s /\ c_consts s' = c_consts s /\ cwf nl s'
  /\ length (c_stack s') = (length (c_stack s) - k)%nat.
Proof.
  induction k as [|k IH]; intros s s' H W; cbn in H.
  - inversion H; subst. unfold same_out. splits; auto. lia.
  - destruct (consume s) as [[p s1]|] eqn:E; [|discriminate].
    destruct (consume_spec nl s p s1 E W) as (Es & (O1 & O2 & O3) & En & Ec & W1 & _).
    destruct (IH s1 s' H W1) as ((P1 & P2 & P3) & Pn & Pc & W2 & Pl).
    unfold same_out. splits; try congruence. rewrite Pl, Es. cbn. lia.
Qed.

Lemma pres_pending_new s s1 x p :
  bpwf s -> (forall y, In y (all_locs (c_bp s1)) -> y = x \/ In y (all_locs (c_bp s))) ->
  (length (c_out s) <= p)%nat -> ~ in_win x p -> ~ pending s1 p.
Proof.
  intros W H Hp Hx (y & Hy & Hw). destruct (H y Hy) as [->|Hy']; [contradiction|].
  destruct (bw_range _ W y Hy'). unfold in_win, cur_off in *. lia.
Qed.

Lemma frames_nth nl B ctrls bp k f : Forall2 (frame_ok nl B) ctrls bp -> nth_error ctrls k = Some f ->
  (exists locs res, nth_error bp k = Some (JUnknown locs res) /\ resv nl B (vf_label f) res)
  \/ (exists pos, nth_error bp k = Some (JKnown pos) /\ vf_label f = None).
Proof.
  intros H. revert k. induction H as [|g j ? ? Hf]; intros [|k] E; cbn in E; try discriminate.
  - inversion E; subst. destruct Hf as (_ & _ & [(locs & res & -> & _ & R)|(pos & -> & _ & L)]); [left; exists locs, res|right; exists pos]; auto.
  - cbn. eauto.
Qed.
Lemma target_label_none nl B ctrls bp k f j : Forall2 (frame_ok nl B) ctrls bp -> nth_error ctrls k = Some f ->
  nth_error bp k = Some j -> no_res j -> vf_label f = None.
Proof.
  intros H E Ej Hn. destruct (frames_nth nl B ctrls bp k f H E) as [(locs & res & E1 & R)|(pos & E1 & L)]; auto.
  rewrite E1 in Ej. inversion Ej; subst j. destruct res; [contradiction|]. unfold resv in R. destruct (vf_label f); [contradiction|reflexivity].
Qed.
Lemma target_label_any nl B ctrls bp k f locs r : Forall2 (frame_ok nl B) ctrls bp -> nth_error ctrls k = Some f ->
  nth_error bp k = Some (JUnknown locs (Some r)) ->
  exists t, vf_label f = Some t /\ ((r = PLocal 0 /\ 0 < B) \/ exists d, r = PDyn d /\ nl <= d < B).
Proof.
  intros H E Ej. destruct (frames_nth nl B ctrls bp k f H E) as [(l0 & res & E1 & R)|(pos & E1 & L)]; [|congruence].
  rewrite E1 in Ej. inversion Ej; subst. unfold resv in R. destruct (vf_label f) as [t|]; [|contradiction].
  exists t. split; [reflexivity|]. destruct r as [d|i|]; try contradiction.
  - right. exists d. auto.
  - left. destruct R as [-> R]. auto.
Qed.
Lemma target_label_some nl B ctrls bp k f locs r : Forall2 (frame_ok nl B) ctrls bp -> nth_error ctrls k = Some f ->
  nth_error bp k = Some (JUnknown locs (Some r)) -> r <> PLocal 0 -> exists t d, vf_label f = Some t /\ r = PDyn d /\ nl <= d < B.
Proof.
  intros H E Ej Hn. destruct (target_label_any nl B ctrls bp k f locs r H E Ej) as (t & Fl & [[-> _]|(d & -> & Hd)]); [contradiction|].
  exists t, d. auto.
Qed.

Lemma reach_of_none v : v_unreach v = None -> v_reachability v = Reachable.
Proof. intros H. unfold v_reachability. rewrite H. reflexivity. Qed.
Lemma reach_of_mode v : vmode v -> v_reachability v <> UnreachableFrame.
Proof.
  intros [H|(H & Hn & _)]; unfold v_reachability; rewrite H; [discriminate|].
  destruct (v_ctrls v) as [|f r]; [contradiction|]. cbn [length].
  destruct (Nat.ltb_spec (S (length r) - 1 + 1) (S (length r))); [lia|discriminate].
Qed.

Lemma checked2 v x s' :
  (if (length (c_stack x) =? v_opds v)%nat then Some x else None) = Some s' -> x = s' /\ length (c_stack s') = v_opds v.
Proof. destruct (Nat.eqb_spec (length (c_stack x)) (v_opds v)); [|discriminate]. intros H; inversion H; subst; auto. Qed.

(** *** block *)
Lemma op_block nl cx s v v1 s1 :
  inv nl s v -> v_unreach v = None -> v_opds v = 0%nat ->
  vstep cx v (OBlock None) = Some v1 -> handle_opcode cx s v1 Reachable (OBlock None) = Some s1 ->
  c_out s1 = c_out s /\ c_bp s1 = JUnknown [] None :: c_bp s /\ same_alloc s s1 /\ c_last s1 = None
  /\ inv nl s1 v1 /\ v_unreach v1 = None.
Proof.
  intros I Hu H0 Hv Hh. cbn [vstep] in Hv. inversion Hv; subst v1; clear Hv.
  unfold handle_opcode in Hh. cbv beta iota zeta in Hh. apply checked2 in Hh. destruct Hh as [Hh Hl].
  subst s1. cbn [set_bp set_last c_out c_bp c_stack c_next c_reuse c_consts c_last v_push_ctrl v_unreach v_opds v_ctrls] in *.
  splits; auto; try (unfold same_alloc; cbn; tauto).
  destruct I as [W B L Fr Md]. constructor; cbn; auto.
  - eapply cwf_same; [|exact W]. unfold same_alloc; cbn; tauto.
  - destruct B as [B1 B2 B3]. constructor; cbn; auto.
  - constructor; auto. repeat split; cbn; auto. left. exists [], None. repeat split; try discriminate; try exact Logic.I.
  - left. exact Hu.
Qed.

Lemma frames_cons nl B f r bp : Forall2 (frame_ok nl B) (f :: r) bp ->
  vf_height f = 0%nat /\ vf_end f = vf_label f /\
  exists j bp', bp = j :: bp' /\ Forall2 (frame_ok nl B) r bp' /\ jt_ok nl B f j.
Proof. intros H. inversion H as [|? j ? bp' (A & C & D) Fr']; subst. splits; auto. exists j, bp'. auto. Qed.
Lemma top_label_none nl B f r bp : Forall2 (frame_ok nl B) (f :: r) bp -> match bp with j :: _ => no_res j | [] => True end ->
  vf_label f = None.
Proof.
  intros H Hn. destruct (frames_cons _ _ _ _ _ H) as (_ & _ & j & bp' & -> & _ & _).
  eapply (target_label_none nl B (f :: r) (j :: bp') O f j); eauto.
Qed.

(** *** if *)
Lemma op_if nl cx s v v1 s1 :
  inv nl s v -> v_unreach v = None -> v_opds v = 1%nat ->
  vstep cx v (OIf None) = Some v1 -> handle_opcode cx s v1 Reachable (OIf None) = Some s1 ->
  exists p, c_stack s = [p] /\ pwf nl s p
  /\ c_out s1 = c_out s ++ IIf :: i32_bytes (provider_idx p) ++ u32_bytes 0
  /\ c_bp s1 = JUnknown [cur_off s + 5] None :: c_bp s /\ c_stack s1 = [] /\ c_next s1 = c_next s
  /\ c_consts s1 = c_consts s /\ c_last s1 = None /\ inv nl s1 v1 /\ v_unreach v1 = None /\ ext s s1.
Proof.
  intros I Hu H1 Hv Hh. destruct I as [W B L Fr Md].
  cbn [vstep] in Hv. unfold v_pop in Hv. destruct (v_ctrls v) as [|f r] eqn:Ec; [discriminate|].
  destruct (frames_cons _ _ _ _ _ Fr) as (Fh & _).
  rewrite H1, Fh in Hv. cbn in Hv. inversion Hv; subst v1; clear Hv.
  unfold handle_opcode in Hh. cbv beta iota zeta in Hh. apply checked in Hh. destruct Hh as [Hh Hl].
  unfold push_consume in Hh.
  assert (W0 : cwf nl (push_op (set_last s None) IIf)) by (eapply cwf_same; [|exact W]; unfold same_alloc; cbn; tauto).
  destruct (consume (push_op (set_last s None) IIf)) as [[p s2]|] eqn:Econs; [|discriminate].
  destruct (consume_spec nl _ p s2 Econs W0) as (Es & (O1 & O2 & O3) & En & Ecs & W2 & Pp).
  cbn [push_op emit set_out set_last c_out c_bp c_stack c_next c_reuse c_consts c_last] in Es, O1, O2, O3, En, Ecs.
  assert (Est : c_stack s2 = []).
  { rewrite Es in L. rewrite H1 in L. cbn in L. destruct (c_stack s2); [reflexivity|cbn in L; lia]. }
  assert (Eoff : cur_off (push_loc s2 p) = cur_off s + 5).
  { unfold cur_off, push_loc, emit. cbn [set_out c_out]. rewrite O1, !app_length, i32_bytes_length. cbn [length]. lia. }
  rewrite Eoff in Hh.
  assert (F1 : c_out s1 = c_out s ++ IIf :: i32_bytes (provider_idx p) ++ u32_bytes 0).
  { inversion Hh; subst s1. cbn. rewrite O1, <- !app_assoc. reflexivity. }
  assert (F2 : c_bp s1 = JUnknown [cur_off s + 5] None :: c_bp s) by (inversion Hh; subst s1; cbn; rewrite O2; reflexivity).
  assert (F3 : c_stack s1 = []) by (inversion Hh; subst s1; cbn; exact Est).
  assert (F4 : c_next s1 = c_next s) by (inversion Hh; subst s1; cbn; exact En).
  assert (F5 : c_consts s1 = c_consts s) by (inversion Hh; subst s1; cbn; exact Ecs).
  assert (F6 : c_last s1 = None) by (inversion Hh; subst s1; cbn; exact O3).
  assert (F7 : c_reuse s1 = c_reuse s2) by (inversion Hh; subst s1; cbn; reflexivity).
  clear Hh. exists p. rewrite Est in Es.
  assert (Eco : cur_off s1 = cur_off s + 9).
  { unfold cur_off. rewrite F1, !app_length. cbn [length]. rewrite app_length, i32_bytes_length, u32_bytes_length. lia. }
  assert (Eal : all_locs (c_bp s1) = [] ++ (cur_off s + 5) :: all_locs (c_bp s)) by (rewrite F2; reflexivity).
  splits; auto.
  - constructor.
    + destruct W2 as [A1 A2 A3 A4 A5]. constructor; try rewrite F3; try rewrite F4; try rewrite F5; try rewrite F7; try rewrite <- En; try rewrite <- Ecs; auto.
    + eapply (bpwf_add s s1 (cur_off s + 5) [] (all_locs (c_bp s))); auto; try lia.
    + rewrite F3. reflexivity.
    + rewrite F2, F4. constructor; [repeat split; cbn; auto; left; exists [cur_off s + 5], None; repeat split; try discriminate; exact Logic.I|exact Fr].
    + left. exact Hu.
  - eapply (ext_add s s1 _ (cur_off s + 5) [] (all_locs (c_bp s))); eauto; try lia.
Qed.

(** *** end *)
Lemma reach_term v : v_unreach v = Some (length (v_ctrls v) - 1)%nat -> v_ctrls v <> [] ->
  v_reachability v = UnreachableInstruction.
Proof.
  intros H Hn. unfold v_reachability. rewrite H. destruct (v_ctrls v) as [|f r]; [contradiction|]. cbn [length].
  destruct (Nat.ltb_spec (S (length r) - 1 + 1) (S (length r))); [lia|reflexivity].
Qed.

Lemma handle_end cx s v reach locs bp' :
  reach = Reachable \/ reach = UnreachableInstruction -> c_bp s = JUnknown locs None :: bp' ->
  handle_opcode cx s v reach OEnd =
  let s1 := fold_left (fun acc l => back_patch acc l (cur_off s)) locs (set_bp (set_last s None) bp') in
  if (length (c_stack s1) =? v_opds v)%nat then Some s1 else None.
Proof.
  intros [->| ->] E; unfold handle_opcode; cbv beta iota zeta; cbn [set_last c_bp]; rewrite E; reflexivity.
Qed.

Lemma mode_reach v : vmode v -> v_reachability v = Reachable \/ v_reachability v = UnreachableInstruction.
Proof. intros [H|(H & Hn & _)]; [left; apply reach_of_none; auto|right; apply reach_term; auto]. Qed.

Lemma pop_ctrl_inv nl B v f r bp :
  vmode v -> v_ctrls v = f :: r -> Forall2 (frame_ok nl B) (f :: r) bp -> vf_label f = None ->
  forall x, v_pop_ctrl v = Some x ->
  v_opds v = 0%nat /\ x = (None, vf_is_if f, {| v_opds := 0; v_ctrls := r; v_unreach := None |}).
Proof.
  intros Md Ec Fr Fl x H. destruct (frames_cons _ _ _ _ _ Fr) as (Fh & Fe & _). rewrite Fl in Fe.
  unfold v_pop_ctrl in H. rewrite Ec, Fe in H. cbn [bt_arity v_popn] in H. rewrite Fh in H.
  destruct (Nat.eqb_spec (v_opds v) 0) as [E0|]; [|discriminate]. split; [exact E0|].
  inversion H; subst x; clear H. rewrite E0. do 3 f_equal.
  destruct Md as [->|(Hu & _ & _)]; [reflexivity|]. rewrite Hu, Ec. cbn [length].
  replace (S (length r) - 1)%nat with (length r) by lia. rewrite Nat.eqb_refl. reflexivity.
Qed.

Lemma handle_end_known cx s v reach pos bp' :
  reach = Reachable \/ reach = UnreachableInstruction -> c_bp s = JKnown pos :: bp' -> v_opds v = 0%nat ->
  handle_opcode cx s v reach OEnd =
  if (length (c_stack s) =? 0)%nat then Some (set_bp (set_last s None) bp') else None.
Proof.
  intros [->| ->] E H0; unfold handle_opcode; cbv beta iota zeta; cbn [set_last c_bp]; rewrite E;
    cbn [set_bp c_stack negb andb]; rewrite H0;
    replace (length (c_stack s) <? 0)%nat with false by (symmetry; apply Nat.ltb_ge; lia); reflexivity.
Qed.

Lemma op_end nl cx s v v1 s1 :
  inv nl s v -> match c_bp s with j :: _ => no_res j | [] => True end ->
  vstep cx v OEnd = Some v1 -> handle_opcode cx s v1 (v_reachability v) OEnd = Some s1 ->
  exists j bp', c_bp s = j :: bp' /\ c_bp s1 = bp' /\ c_stack s = [] /\ c_stack s1 = []
  /\ c_next s1 = c_next s /\ c_consts s1 = c_consts s /\ c_last s1 = None /\ cur_off s1 = cur_off s /\ ext s s1
  /\ (forall loc, In loc (locs_of j) -> resolved s1 loc (cur_off s)) /\ inv nl s1 v1 /\ v_unreach v1 = None.
Proof.
  intros I Hnr Hv Hh. destruct I as [W B L Fr Md].
  cbn [vstep] in Hv. destruct (v_pop_ctrl v) as [[[res isif] v2]|] eqn:Ep; [|discriminate].
  destruct (v_ctrls v) as [|f r] eqn:Ec; [unfold v_pop_ctrl in Ep; rewrite Ec in Ep; discriminate|].
  pose proof (top_label_none _ _ _ _ _ Fr Hnr) as Fl.
  destruct (pop_ctrl_inv nl _ v f r (c_bp s) Md Ec Fr Fl _ Ep) as [E0 Ex]. inversion Ex; subst res isif v2; clear Ex.
  cbn [bt_arity v_pushn] in Hv. inversion Hv; subst v1; clear Hv.
  assert (Est : c_stack s = []) by (destruct (c_stack s); [reflexivity|cbn in L; lia]).
  destruct (frames_cons _ _ _ _ _ Fr) as (_ & _ & j & bp' & Ebp & Fr' & [(locs & res & -> & _ & _)|(pos & -> & _)]).
  1: { rewrite Ebp in Hnr. destruct res; [contradiction|]. revert Hh Ebp. intros Hh Ebp.
    rewrite (handle_end cx s _ _ locs bp' (mode_reach v Md) Ebp) in Hh. cbv zeta in Hh. apply checked2 in Hh.
    destruct Hh as [Hs1 _]. symmetry in Hs1.
    destruct (end_patch s locs None bp' s1 B Ebp Hs1) as (A1 & A2 & A3 & A4 & A5 & A6 & A7 & A8 & A9 & A10).
    exists (JUnknown locs None), bp'. splits; auto; try congruence.
    constructor; cbn [v_opds v_ctrls v_unreach]; auto.
    + eapply cwf_same; [|exact W]. unfold same_alloc. auto.
    + rewrite A2, Est. reflexivity.
    + rewrite A1, A3. exact Fr'.
    + left. reflexivity. }
  - rewrite (handle_end_known cx s {| v_opds := 0; v_ctrls := r; v_unreach := None |} _ pos bp' (mode_reach v Md) Ebp eq_refl) in Hh. rewrite Est in Hh. cbn in Hh.
    inversion Hh; subst s1; clear Hh. cbn [set_bp set_last c_out c_bp c_stack c_next c_reuse c_consts c_last].
    exists (JKnown pos), bp'. splits; auto.
    + apply (ext_same_locs s _ []); cbn; [rewrite app_nil_r; reflexivity|rewrite Ebp; reflexivity].
    + intros loc [].
    + constructor; cbn [v_opds v_ctrls v_unreach set_bp set_last c_out c_bp c_stack c_next c_reuse c_consts c_last]; auto.
      * eapply cwf_same; [|exact W]. unfold same_alloc. cbn. auto.
      * eapply (bpwf_same_locs s); [exact B|cbn; rewrite Ebp; reflexivity|unfold cur_off; cbn; lia].
      * rewrite Est. reflexivity.
      * left. reflexivity.
Qed.

(** *** loop *)
Lemma op_loop nl cx s v v1 s1 :
  inv nl s v -> v_unreach v = None -> v_opds v = 0%nat ->
  vstep cx v (OLoop None) = Some v1 -> handle_opcode cx s v1 Reachable (OLoop None) = Some s1 ->
  c_out s1 = c_out s /\ c_bp s1 = JKnown (cur_off s) :: c_bp s /\ same_alloc s s1 /\ c_last s1 = None
  /\ inv nl s1 v1 /\ v_unreach v1 = None.
Proof.
  intros I Hu H0 Hv Hh. cbn [vstep] in Hv. inversion Hv; subst v1; clear Hv.
  unfold handle_opcode in Hh. cbv beta iota zeta in Hh. apply checked2 in Hh. destruct Hh as [Hh Hl].
  subst s1. cbn [set_bp set_last c_out c_bp c_stack c_next c_reuse c_consts c_last v_push_ctrl v_unreach v_opds v_ctrls] in *.
  change (cur_off (set_last s None)) with (cur_off s).
  splits; auto; try (unfold same_alloc; cbn; tauto).
  destruct I as [W B L Fr Md]. constructor; cbn; auto.
  - eapply cwf_same; [|exact W]. unfold same_alloc; cbn; tauto.
  - destruct B as [B1 B2 B3]. constructor; cbn; auto.
  - constructor; auto. repeat split; cbn; auto. right. eexists; repeat split; reflexivity.
  - left. exact Hu.
Qed.

(** *** br / br_if to a result-less label *)
Lemma frames_mark nl B f r bp : Forall2 (frame_ok nl B) (f :: r) bp ->
  Forall2 (frame_ok nl B) ({| vf_is_if := vf_is_if f; vf_label := vf_label f; vf_end := vf_end f; vf_height := vf_height f;
                       vf_unreachable := true |} :: r) bp.
Proof. intros H. inversion H as [|? j ? bp' (A & C & D) Fr']; subst. constructor; auto. repeat split; auto. Qed.

Lemma op_br nl cx s v v1 s1 k locs :
  inv nl s v -> v_unreach v = None -> nth_error (c_bp s) k = Some (JUnknown locs None) ->
  vstep cx v (OBasic (BBr k)) = Some v1 -> handle_opcode cx s v1 Reachable (OBasic (BBr k)) = Some s1 ->
  c_out s1 = c_out s ++ IBr :: u32_bytes 0
  /\ c_bp s1 = update_nth (c_bp s) k (JUnknown (locs ++ [cur_off s + 1]) None)
  /\ c_stack s1 = [] /\ c_next s1 = c_next s /\ c_consts s1 = c_consts s /\ c_last s1 = None
  /\ inv nl s1 v1 /\ v_unreach v1 <> None /\ ext s s1.
Proof.
  intros I Hu Enth Hv Hh. destruct I as [W B L Fr Md].
  cbn [vstep] in Hv. unfold label_type in Hv. destruct (nth_error (v_ctrls v) k) as [fk|] eqn:Ek; [|discriminate].
  pose proof (target_label_none _ _ _ _ k fk _ Fr Ek Enth Logic.I) as Fl. rewrite Fl in Hv. cbn [bt_arity v_popn] in Hv.
  unfold v_mark_unreachable in Hv. destruct (v_ctrls v) as [|f r] eqn:Ec; [discriminate|]. rewrite Hu in Hv.
  inversion Hv; subst v1; clear Hv. destruct (frames_cons _ _ _ _ _ Fr) as (Fh & _).
  unfold handle_opcode in Hh. cbv beta iota zeta in Hh. apply checked in Hh. destruct Hh as [Hh Hl].
  cbn [v_opds] in Hh, Hl.
  unfold push_br_jump in Hh. cbn [set_last c_bp] in Hh. rewrite Enth in Hh.
  unfold insert_jump_location in Hh. cbn [push_op emit set_out c_bp set_last] in Hh. rewrite Enth in Hh.
  set (s2 := emit _ (u32_bytes 0)) in Hh.
  assert (W2 : cwf nl s2) by (eapply cwf_same; [|exact W]; unfold same_alloc; cbn; tauto).
  unfold truncate in Hh.
  destruct (truncate_n_spec nl _ s2 s1 Hh W2) as ((O1 & O2 & O3) & En & Ecs & W1 & Ln).
  assert (S1 : c_out s2 = c_out s ++ IBr :: u32_bytes 0) by (subst s2; cbn; rewrite <- app_assoc; reflexivity).
  assert (S2 : c_bp s2 = update_nth (c_bp s) k (JUnknown (locs ++ [cur_off s + 1]) None)).
  { subst s2. cbn [emit set_out set_bp c_bp push_op set_last]. do 4 f_equal. unfold cur_off. cbn [c_out emit set_out push_op set_last]. rewrite app_length. cbn [length]. lia. }
  assert (S3 : c_last s2 = None) by reflexivity.
  assert (S4 : c_next s2 = c_next s) by reflexivity.
  assert (S5 : c_consts s2 = c_consts s) by reflexivity.
  rewrite S1 in O1. rewrite S2 in O2. rewrite S3 in O3. rewrite S4 in En. rewrite S5 in Ecs. clearbody s2.
  assert (Est : c_stack s1 = []) by (destruct (c_stack s1); [reflexivity|cbn in Hl; rewrite Fh in Hl; discriminate]).
  destruct (all_locs_update (c_bp s) k locs None (cur_off s + 1) Enth) as (A & Bl & EA & EB). rewrite <- O2 in EB.
  assert (Ecur : cur_off s1 = cur_off s + 5).
  { unfold cur_off. rewrite O1, app_length. cbn [length]. rewrite u32_bytes_length. lia. }
  splits; auto.
  - constructor; cbn [v_opds v_ctrls v_unreach]; auto.
    + eapply (bpwf_add s s1 (cur_off s + 1) A Bl); auto; lia.
    + rewrite O2, En. apply frames_mark. eapply frames_update; eauto.
    + right. cbn [v_unreach v_ctrls v_opds length]. splits; auto; try discriminate. f_equal. lia.
  - cbn. discriminate.
  - eapply (ext_add s s1 _ (cur_off s + 1) A Bl); eauto. lia.
Qed.

Lemma op_br_if nl cx s v v1 s1 k locs :
  inv nl s v -> v_unreach v = None -> nth_error (c_bp s) k = Some (JUnknown locs None) ->
  vstep cx v (OBasic (BBrIf k)) = Some v1 -> handle_opcode cx s v1 Reachable (OBasic (BBrIf k)) = Some s1 ->
  exists p rest, c_stack s = p :: rest /\ pwf nl s p
  /\ c_out s1 = c_out s ++ IBrIf :: u32_bytes 0 ++ i32_bytes (provider_idx p)
  /\ c_bp s1 = update_nth (c_bp s) k (JUnknown (locs ++ [cur_off s + 1]) None)
  /\ c_stack s1 = rest /\ c_next s1 = c_next s /\ c_consts s1 = c_consts s /\ c_last s1 = None
  /\ inv nl s1 v1 /\ v_unreach v1 = None /\ ext s s1.
Proof.
  intros I Hu Enth Hv Hh. destruct I as [W B L Fr Md].
  cbn [vstep] in Hv. unfold label_type in Hv. destruct (nth_error (v_ctrls v) k) as [fk|] eqn:Ek; [|discriminate].
  pose proof (target_label_none _ _ _ _ k fk _ Fr Ek Enth Logic.I) as Fl. rewrite Fl in Hv.
  destruct (v_pop v) as [v2|] eqn:Epop; [|discriminate]. cbn [bt_arity v_popn v_pushn] in Hv. inversion Hv; subst v2; clear Hv.
  unfold handle_opcode in Hh. cbv beta iota zeta in Hh. apply checked in Hh. destruct Hh as [Hh Hl].
  assert (W0 : cwf nl (set_last s None)) by (eapply cwf_same; [|exact W]; unfold same_alloc; cbn; tauto).
  destruct (consume (set_last s None)) as [[p s2]|] eqn:Econs; [|discriminate].
  destruct (consume_spec nl _ p s2 Econs W0) as (Es & (O1 & O2 & O3) & En & Ecs & W2 & Pp).
  cbn [set_last c_out c_bp c_stack c_next c_reuse c_consts c_last] in Es, O1, O2, O3, En, Ecs.
  unfold push_br_if_jump in Hh. rewrite O2, Enth in Hh.
  unfold insert_jump_location in Hh. change (c_bp (push_op s2 IBrIf)) with (c_bp s2) in Hh. rewrite O2, Enth in Hh.
  assert (Eco : cur_off (push_op s2 IBrIf) = cur_off s + 1).
  { unfold cur_off, push_op, emit. cbn [set_out c_out]. rewrite O1, app_length. cbn [length]. lia. }
  rewrite Eco in Hh. injection Hh as Hs1.
  assert (F1 : c_out s1 = c_out s ++ IBrIf :: u32_bytes 0 ++ i32_bytes (provider_idx p)).
  { subst s1. cbn [push_loc emit set_out set_bp c_out push_op]. rewrite O1, <- !app_assoc. reflexivity. }
  assert (F2 : c_bp s1 = update_nth (c_bp s) k (JUnknown (locs ++ [cur_off s + 1]) None)) by (subst s1; reflexivity).
  assert (F3 : c_stack s1 = c_stack s2) by (subst s1; reflexivity).
  assert (F4 : c_next s1 = c_next s2) by (subst s1; reflexivity).
  assert (F5 : c_consts s1 = c_consts s2) by (subst s1; reflexivity).
  assert (F6 : c_last s1 = c_last s2) by (subst s1; reflexivity).
  assert (F7 : c_reuse s1 = c_reuse s2) by (subst s1; reflexivity).
  clear Hs1.
  destruct (all_locs_update (c_bp s) k locs None (cur_off s + 1) Enth) as (A & Bl & EA & EB). rewrite <- F2 in EB.
  assert (Ecur : cur_off s1 = cur_off s + 9).
  { unfold cur_off. rewrite F1, app_length. cbn [length]. rewrite app_length, u32_bytes_length, i32_bytes_length. lia. }
  (* the validation state *)
  assert (Ev : v_unreach v1 = None /\ v_ctrls v1 = v_ctrls v /\ vmode v1).
  { unfold v_pop in Epop. destruct (v_ctrls v) as [|f r] eqn:Ec; [discriminate|].
    destruct (v_opds v =? vf_height f)%nat; [destruct (vf_unreachable f); [|discriminate]|];
      inversion Epop; subst v1; cbn; rewrite ?Ec; splits; auto; left; auto. }
  destruct Ev as (Ev1 & Ev2 & Ev3).
  exists p, (c_stack s2). splits; auto; try congruence.
  - constructor; auto.
    + eapply cwf_same; [|exact W2]. unfold same_alloc; auto.
    + eapply (bpwf_add s s1 (cur_off s + 1) A Bl); auto; lia.
    + rewrite Ev2, F2, F4, En. eapply frames_update; eauto.
  - eapply (ext_add s s1 _ (cur_off s + 1) A Bl); eauto. lia.
Qed.

(** *** else *)
Lemma overwrite_app : forall (a b : list N) pos bs, (pos + length bs <= length a)%nat ->
  overwrite (a ++ b) pos bs = overwrite a pos bs ++ b.
Proof.
  induction a as [|x a IH]; intros b pos bs H.
  - cbn in H. assert (pos = O) by lia. assert (length bs = O) by lia. destruct bs; [|discriminate]. subst. cbn.
    destruct b; reflexivity.
  - destruct pos as [|pos]; cbn [overwrite app].
    + rewrite <- app_assoc. f_equal. change (x :: a ++ b) with ((x :: a) ++ b). rewrite skipn_app.
      replace (length bs - length (x :: a))%nat with O by lia. cbn [skipn]. reflexivity.
    + f_equal. apply IH. cbn in H. lia.
Qed.

Lemma handle_else cx s v reach locs bp' :
  reach = Reachable \/ reach = UnreachableInstruction -> c_bp s = JUnknown locs None :: bp' ->
  handle_opcode cx s v reach OElse =
  let s1 := emit (set_bp (push_op (set_last s None) IBr) (JUnknown (locs ++ [cur_off s + 1]) None :: bp')) (u32_bytes 0) in
  let r := match locs ++ [cur_off s + 1] with
           | first :: rest => Some (back_patch (set_bp s1 (JUnknown rest None :: bp')) first (cur_off s + 5))
           | [] => None
           end in
  match r with Some s' => if (length (c_stack s') =? v_opds v)%nat then Some s' else None | None => None end.
Proof.
  assert (E1 : cur_off (push_op (set_last s None) IBr) = cur_off s + 1).
  { unfold cur_off. cbn. rewrite app_length. cbn. lia. }
  assert (E2 : forall A, cur_off (emit (set_bp (push_op (set_last s None) IBr) A) (u32_bytes 0)) = cur_off s + 5).
  { intros A. unfold cur_off. cbn [emit set_out set_bp push_op set_last c_out]. rewrite !app_length, u32_bytes_length. cbn [length]. lia. }
  intros [->| ->] E; unfold handle_opcode; cbv beta iota zeta; unfold push_br_jump; cbn [set_last c_bp nth_error]; rewrite E;
    unfold insert_jump_location; cbn [push_op emit set_out c_bp set_last nth_error]; rewrite E;
    fold (push_op (set_last s None) IBr); rewrite E1;
    cbn [emit set_out set_bp c_bp update_nth];
    destruct (locs ++ [cur_off s + 1]) as [|first rest] eqn:El; try reflexivity; rewrite E2; reflexivity.
Qed.

Lemma bpwf_remove s s' first R :
  bpwf s -> all_locs (c_bp s) = first :: R -> all_locs (c_bp s') = R -> cur_off s <= cur_off s' -> bpwf s'.
Proof.
  intros [W1 W2 W3] E E' Hle. rewrite E in *. constructor; rewrite E'.
  - intros loc Hl. destruct (W1 loc (or_intror Hl)). lia.
  - intros a b Ha Hb. apply W2; right; auto.
  - inversion W3; auto.
Qed.

Lemma op_else nl cx s v v1 s1 :
  inv nl s v -> match c_bp s with j :: _ => no_res j | [] => True end -> vstep cx v OElse = Some v1 -> handle_opcode cx s v1 (v_reachability v) OElse = Some s1 ->
  exists first more bp' pre,
    c_bp s = JUnknown (first :: more) None :: bp' /\ c_bp s1 = JUnknown (more ++ [cur_off s + 1]) None :: bp'
    /\ length pre = length (c_out s) /\ c_out s1 = pre ++ IBr :: u32_bytes 0
    /\ c_stack s = [] /\ c_stack s1 = [] /\ c_next s1 = c_next s /\ c_consts s1 = c_consts s /\ c_last s1 = None
    /\ ext s s1 /\ resolved s1 first (cur_off s + 5) /\ inv nl s1 v1 /\ v_unreach v1 = None.
Proof.
  intros I Hnr Hv Hh. destruct I as [W B L Fr Md].
  cbn [vstep] in Hv. destruct (v_pop_ctrl v) as [[[res isif] v2]|] eqn:Ep; [|discriminate].
  destruct (v_ctrls v) as [|f r] eqn:Ec; [unfold v_pop_ctrl in Ep; rewrite Ec in Ep; discriminate|].
  pose proof (top_label_none _ _ _ _ _ Fr Hnr) as Fl.
  destruct (pop_ctrl_inv nl _ v f r (c_bp s) Md Ec Fr Fl _ Ep) as [E0 Ex]. inversion Ex; subst res isif v2; clear Ex.
  destruct (vf_is_if f) eqn:Eif; [|discriminate]. inversion Hv; subst v1; clear Hv.
  destruct (frames_cons _ _ _ _ _ Fr) as (_ & _ & j0 & bp' & Ebp & Fr' & [(locs & res0 & -> & Hne & _)|(pos & -> & Hk & _)]); [|congruence].
  rewrite Ebp in Hnr. destruct res0; [contradiction|].
  destruct locs as [|first more]; [exfalso; apply (Hne Eif); reflexivity|].
  rewrite (handle_else cx s _ _ (first :: more) bp' (mode_reach v Md) Ebp) in Hh. cbv zeta in Hh.
  cbn [app] in Hh. apply checked2 in Hh. destruct Hh as [Hs1 _].
  assert (Est : c_stack s = []) by (destruct (c_stack s); [reflexivity|cbn in L; lia]).
  assert (Hall : all_locs (c_bp s) = first :: more ++ all_locs bp') by (rewrite Ebp; reflexivity).
  destruct (bw_range _ B first) as [Hf0 Hf1]; [rewrite Hall; left; reflexivity|].
  assert (Hfl : (Z.to_nat first + 4 <= length (c_out s))%nat) by (unfold cur_off in Hf1; lia).
  set (pre := overwrite (c_out s) (Z.to_nat first) (u32_bytes (cur_off s + 5))).
  assert (Lpre : length pre = length (c_out s)) by (apply overwrite_length; rewrite u32_bytes_length; exact Hfl).
  assert (F1 : c_out s1 = pre ++ IBr :: u32_bytes 0).
  { subst s1. cbn [back_patch set_out set_bp emit push_op set_last c_out]. rewrite <- app_assoc. cbn [app].
    apply overwrite_app. rewrite u32_bytes_length. exact Hfl. }
  assert (F2 : c_bp s1 = JUnknown (more ++ [cur_off s + 1]) None :: bp') by (subst s1; reflexivity).
  assert (F3 : c_stack s1 = c_stack s) by (subst s1; reflexivity).
  assert (F4 : c_next s1 = c_next s) by (subst s1; reflexivity).
  assert (F5 : c_consts s1 = c_consts s) by (subst s1; reflexivity).
  assert (F6 : c_last s1 = None) by (subst s1; reflexivity).
  assert (F7 : c_reuse s1 = c_reuse s) by (subst s1; reflexivity).
  clear Hs1.
  assert (Ecur : cur_off s1 = cur_off s + 5).
  { unfold cur_off. rewrite F1, app_length, Lpre. cbn [length]. rewrite u32_bytes_length. lia. }
  (* intermediate state without [first] *)
  set (sm := set_bp s (JUnknown more None :: bp')).
  assert (Bm : bpwf sm).
  { eapply (bpwf_remove s sm first _ B Hall); [reflexivity|unfold sm, cur_off; cbn; lia]. }
  assert (Hall1 : all_locs (c_bp s1) = more ++ (cur_off s + 1) :: all_locs bp').
  { rewrite F2. cbn [all_locs flat_map locs_of]. rewrite <- app_assoc. reflexivity. }
  assert (B1 : bpwf s1).
  { eapply (bpwf_add sm s1 (cur_off s + 1) more (all_locs bp')); auto; try reflexivity.
    - change (cur_off sm) with (cur_off s). lia.
    - lia.
    - change (cur_off sm) with (cur_off s). lia. }
  assert (Hin1 : forall y, In y (all_locs (c_bp s1)) -> y = cur_off s + 1 \/ (In y (all_locs (c_bp s)) /\ y <> first)).
  { intros y Hy. rewrite Hall1 in Hy. apply in_app_iff in Hy. cbn in Hy.
    pose proof (bw_nodup _ B) as Hnd. rewrite Hall in Hnd. inversion Hnd as [|? ? Hnf _]; subst.
    assert (In y (more ++ all_locs bp') -> In y (all_locs (c_bp s)) /\ y <> first).
    { intros Hy'. split; [rewrite Hall; right; exact Hy'|intros ->; contradiction]. }
    destruct Hy as [Hy|[Hy|Hy]]; auto; right; apply H; apply in_or_app; auto. }
  exists first, more, bp', pre. splits; auto; try congruence.
  - (* ext *)
    split; [rewrite F1, app_length, Lpre; lia|]. intros p Hp Hn. split.
    + rewrite F1, app_nth1 by lia. apply nth_overwrite_other. rewrite u32_bytes_length.
      destruct (Nat.lt_ge_cases p (Z.to_nat first)) as [|Hge]; [left; exact H|right].
      destruct (Nat.le_gt_cases (Z.to_nat first + 4) p) as [|Hlt]; [exact H|exfalso].
      apply Hn. exists first. split; [rewrite Hall; left; reflexivity|unfold in_win; lia].
    + intros (y & Hy & Hw). destruct (Hin1 y Hy) as [->|[Hy' _]].
      * unfold in_win, cur_off in Hw. lia.
      * apply Hn. exists y. auto.
  - (* resolved *)
    split; [exact Hf0|]. split; [rewrite F1, app_length; lia|]. intros j Hj. split.
    + rewrite F1, app_nth1 by lia. unfold pre. rewrite nth_overwrite_in; rewrite ?u32_bytes_length; try lia. f_equal. lia.
    + intros (y & Hy & Hw). destruct (Hin1 y Hy) as [->|[Hy' Hne']].
      * unfold in_win, cur_off in *. lia.
      * assert (Hfi : In first (all_locs (c_bp s))) by (rewrite Hall; left; reflexivity).
        destruct (bw_sep _ B first y Hfi Hy') as [E|Hs]; [congruence|]. unfold in_win in Hw. lia.
  - constructor; cbn [v_push_ctrl v_opds v_ctrls v_unreach]; auto.
    + eapply cwf_same; [|exact W]. unfold same_alloc. auto.
    + rewrite F3, Est. reflexivity.
    + rewrite F2, F4. constructor; [|exact Fr']. repeat split; cbn; auto. left. exists (more ++ [cur_off s + 1]), None. repeat split; try discriminate; exact Logic.I.
    + left. reflexivity.
Qed.

(** *** br / br_if to a loop label (known target), unreachable *)
Lemma bp_target nl s v k f : inv nl s v -> nth_error (v_ctrls v) k = Some f ->
  (exists locs res, nth_error (c_bp s) k = Some (JUnknown locs res)) \/ (exists pos, nth_error (c_bp s) k = Some (JKnown pos)).
Proof.
  intros I E. destruct (frames_nth _ _ _ _ k f (i_frames _ _ _ I) E) as [(locs & res & H & _)|(pos & H & _)]; [left; eauto|right; eauto].
Qed.

Lemma br_target cx v k v1 : vstep cx v (OBasic (BBr k)) = Some v1 -> exists f, nth_error (v_ctrls v) k = Some f.
Proof. cbn [vstep]. unfold label_type. destruct (nth_error (v_ctrls v) k); [eauto|discriminate]. Qed.
Lemma br_if_target cx v k v1 : vstep cx v (OBasic (BBrIf k)) = Some v1 -> exists f, nth_error (v_ctrls v) k = Some f.
Proof. cbn [vstep]. unfold label_type. destruct (nth_error (v_ctrls v) k); [eauto|discriminate]. Qed.

Lemma terminated_state nl s v f r s2 s1 (t : list N) :
  cwf nl s -> bpwf s -> Forall2 (frame_ok nl (c_next s)) (f :: r) (c_bp s) -> v_ctrls v = f :: r ->
  c_out s2 = c_out s ++ t -> c_bp s2 = c_bp s -> c_last s2 = None -> c_next s2 = c_next s -> c_consts s2 = c_consts s ->
  cwf nl s2 -> truncate_n (length (c_stack s2) - vf_height f) s2 = Some s1 ->
  length (c_stack s1) = vf_height f ->
  c_out s1 = c_out s ++ t /\ c_bp s1 = c_bp s /\ c_stack s1 = [] /\ c_next s1 = c_next s /\ c_consts s1 = c_consts s
  /\ c_last s1 = None
  /\ inv nl s1 {| v_opds := vf_height f;
                  v_ctrls := {| vf_is_if := vf_is_if f; vf_label := vf_label f; vf_end := vf_end f;
                                vf_height := vf_height f; vf_unreachable := true |} :: r;
                  v_unreach := Some (length r) |}
  /\ ext s s1.
Proof.
  intros W B Fr Ec S1 S2 S3 S4 S5 W2 Hh Hl.
  destruct (truncate_n_spec nl _ s2 s1 Hh W2) as ((O1 & O2 & O3) & En & Ecs & W1 & Ln).
  destruct (frames_cons _ _ _ _ _ Fr) as (Fh & _).
  assert (Est : c_stack s1 = []) by (destruct (c_stack s1); [reflexivity|cbn in Hl; rewrite Fh in Hl; discriminate]).
  assert (X : ext s s1) by (eapply ext_append; [rewrite O1; exact S1|congruence]).
  splits; auto; try congruence.
  constructor; cbn [v_opds v_ctrls v_unreach]; auto.
  - eapply bpwf_same_locs; [exact B|rewrite O2, S2; reflexivity|destruct X as [Hle _]; unfold cur_off; lia].
  - rewrite O2, S2, En, S4. apply frames_mark. exact Fr.
  - right. cbn [v_unreach v_ctrls v_opds length]. splits; auto; try discriminate. f_equal. lia.
Qed.

Lemma op_br_known nl cx s v v1 s1 k pos :
  inv nl s v -> v_unreach v = None -> nth_error (c_bp s) k = Some (JKnown pos) ->
  vstep cx v (OBasic (BBr k)) = Some v1 -> handle_opcode cx s v1 Reachable (OBasic (BBr k)) = Some s1 ->
  c_out s1 = c_out s ++ IBr :: u32_bytes pos /\ c_bp s1 = c_bp s
  /\ c_stack s1 = [] /\ c_next s1 = c_next s /\ c_consts s1 = c_consts s /\ c_last s1 = None
  /\ inv nl s1 v1 /\ v_unreach v1 <> None /\ ext s s1.
Proof.
  intros I Hu Enth Hv Hh. destruct I as [W B L Fr Md].
  cbn [vstep] in Hv. unfold label_type in Hv. destruct (nth_error (v_ctrls v) k) as [fk|] eqn:Ek; [|discriminate].
  pose proof (target_label_none _ _ _ _ k fk _ Fr Ek Enth Logic.I) as Fl. rewrite Fl in Hv. cbn [bt_arity v_popn] in Hv.
  unfold v_mark_unreachable in Hv. destruct (v_ctrls v) as [|f r] eqn:Ec; [discriminate|]. rewrite Hu in Hv.
  inversion Hv; subst v1; clear Hv.
  unfold handle_opcode in Hh. cbv beta iota zeta in Hh. apply checked in Hh. destruct Hh as [Hh Hl].
  cbn [v_opds] in Hh, Hl.
  unfold push_br_jump in Hh. cbn [set_last c_bp] in Hh. rewrite Enth in Hh.
  unfold insert_jump_location in Hh. cbn [push_op emit set_out c_bp set_last] in Hh. rewrite Enth in Hh.
  set (s2 := emit _ (u32_bytes pos)) in Hh. unfold truncate in Hh.
  assert (W2 : cwf nl s2) by (eapply cwf_same; [|exact W]; unfold same_alloc; cbn; tauto).
  assert (S1 : c_out s2 = c_out s ++ IBr :: u32_bytes pos) by (subst s2; cbn; rewrite <- app_assoc; reflexivity).
  destruct (terminated_state nl s v f r s2 s1 _ W B Fr Ec S1 eq_refl eq_refl eq_refl eq_refl W2 Hh Hl)
    as (A1 & A2 & A3 & A4 & A5 & A6 & A7 & A8).
  splits; auto. cbn. discriminate.
Qed.

Lemma op_unreachable nl cx s v v1 s1 :
  inv nl s v -> v_unreach v = None ->
  vstep cx v (OBasic BUnreachable) = Some v1 -> handle_opcode cx s v1 Reachable (OBasic BUnreachable) = Some s1 ->
  c_out s1 = c_out s ++ [IUnreachable] /\ c_bp s1 = c_bp s
  /\ c_stack s1 = [] /\ c_next s1 = c_next s /\ c_consts s1 = c_consts s /\ c_last s1 = None
  /\ inv nl s1 v1 /\ v_unreach v1 <> None /\ ext s s1.
Proof.
  intros I Hu Hv Hh. destruct I as [W B L Fr Md].
  cbn [vstep] in Hv. unfold v_mark_unreachable in Hv. destruct (v_ctrls v) as [|f r] eqn:Ec; [discriminate|]. rewrite Hu in Hv.
  inversion Hv; subst v1; clear Hv.
  unfold handle_opcode in Hh. cbv beta iota zeta in Hh. apply checked in Hh. destruct Hh as [Hh Hl].
  cbn [v_opds] in Hh, Hl. unfold truncate in Hh.
  set (s2 := push_op (set_last s None) IUnreachable) in *.
  assert (W2 : cwf nl s2) by (eapply cwf_same; [|exact W]; unfold same_alloc; cbn; tauto).
  destruct (terminated_state nl s v f r s2 s1 [IUnreachable] W B Fr Ec eq_refl eq_refl eq_refl eq_refl eq_refl W2 Hh Hl)
    as (A1 & A2 & A3 & A4 & A5 & A6 & A7 & A8).
  splits; auto. cbn. discriminate.
Qed.

Lemma op_br_if_known nl cx s v v1 s1 k pos :
  inv nl s v -> v_unreach v = None -> nth_error (c_bp s) k = Some (JKnown pos) ->
  vstep cx v (OBasic (BBrIf k)) = Some v1 -> handle_opcode cx s v1 Reachable (OBasic (BBrIf k)) = Some s1 ->
  exists p rest, c_stack s = p :: rest /\ pwf nl s p
  /\ c_out s1 = c_out s ++ IBrIf :: u32_bytes pos ++ i32_bytes (provider_idx p)
  /\ c_bp s1 = c_bp s
  /\ c_stack s1 = rest /\ c_next s1 = c_next s /\ c_consts s1 = c_consts s /\ c_last s1 = None
  /\ inv nl s1 v1 /\ v_unreach v1 = None /\ ext s s1.
Proof.
  intros I Hu Enth Hv Hh. destruct I as [W B L Fr Md].
  cbn [vstep] in Hv. unfold label_type in Hv. destruct (nth_error (v_ctrls v) k) as [fk|] eqn:Ek; [|discriminate].
  pose proof (target_label_none _ _ _ _ k fk _ Fr Ek Enth Logic.I) as Fl. rewrite Fl in Hv.
  destruct (v_pop v) as [v2|] eqn:Epop; [|discriminate]. cbn [bt_arity v_popn v_pushn] in Hv. inversion Hv; subst v2; clear Hv.
  unfold handle_opcode in Hh. cbv beta iota zeta in Hh. apply checked in Hh. destruct Hh as [Hh Hl].
  assert (W0 : cwf nl (set_last s None)) by (eapply cwf_same; [|exact W]; unfold same_alloc; cbn; tauto).
  destruct (consume (set_last s None)) as [[p s2]|] eqn:Econs; [|discriminate].
  destruct (consume_spec nl _ p s2 Econs W0) as (Es & (O1 & O2 & O3) & En & Ecs & W2 & Pp).
  cbn [set_last c_out c_bp c_stack c_next c_reuse c_consts c_last] in Es, O1, O2, O3, En, Ecs.
  unfold push_br_if_jump in Hh. rewrite O2, Enth in Hh.
  unfold insert_jump_location in Hh. change (c_bp (push_op s2 IBrIf)) with (c_bp s2) in Hh. rewrite O2, Enth in Hh.
  injection Hh as Hs1.
  assert (F1 : c_out s1 = c_out s ++ IBrIf :: u32_bytes pos ++ i32_bytes (provider_idx p)).
  { subst s1. cbn [push_loc emit set_out set_bp c_out push_op]. rewrite O1, <- !app_assoc. reflexivity. }
  assert (F2 : c_bp s1 = c_bp s) by (subst s1; cbn; exact O2).
  assert (F3 : c_stack s1 = c_stack s2) by (subst s1; reflexivity).
  assert (F4 : c_next s1 = c_next s2) by (subst s1; reflexivity).
  assert (F5 : c_consts s1 = c_consts s2) by (subst s1; reflexivity).
  assert (F6 : c_last s1 = c_last s2) by (subst s1; reflexivity).
  assert (F7 : c_reuse s1 = c_reuse s2) by (subst s1; reflexivity).
  clear Hs1.
  assert (Ev : v_unreach v1 = None /\ v_ctrls v1 = v_ctrls v /\ vmode v1).
  { unfold v_pop in Epop. destruct (v_ctrls v) as [|f r] eqn:Ec; [discriminate|].
    destruct (v_opds v =? vf_height f)%nat; [destruct (vf_unreachable f); [|discriminate]|];
      inversion Epop; subst v1; cbn; rewrite ?Ec; splits; auto; left; auto. }
  destruct Ev as (Ev1 & Ev2 & Ev3).
  assert (X : ext s s1) by (eapply ext_append; eauto).
  exists p, (c_stack s2). splits; auto; try congruence.
  constructor; auto.
  - eapply cwf_same; [|exact W2]. unfold same_alloc; auto.
  - eapply bpwf_same_locs; [exact B|rewrite F2; reflexivity|destruct X as [Hle _]; unfold cur_off; lia].
  - rewrite Ev2, F2, F4, En. exact Fr.
Qed.

(** *** return in a function without result *)
Lemma op_return nl cx s v v1 s1 :
  inv nl s v -> v_unreach v = None -> cx_return cx = None ->
  last (map (fun f => Some (vf_label f)) (v_ctrls v)) None = Some None ->
  vstep cx v (OBasic BReturn) = Some v1 -> handle_opcode cx s v1 Reachable (OBasic BReturn) = Some s1 ->
  c_out s1 = c_out s ++ [IReturn] /\ c_bp s1 = c_bp s
  /\ c_stack s1 = [] /\ c_next s1 = c_next s /\ c_consts s1 = c_consts s /\ c_last s1 = None
  /\ inv nl s1 v1 /\ v_unreach v1 <> None /\ ext s s1.
Proof.
  intros I Hu Hret Hne Hv Hh. destruct I as [W B L Fr Md].
  cbn [vstep] in Hv. rewrite Hne in Hv. cbn [bt_arity v_popn] in Hv.
  unfold v_mark_unreachable in Hv. destruct (v_ctrls v) as [|f r] eqn:Ec; [discriminate|]. rewrite Hu in Hv.
  inversion Hv; subst v1; clear Hv.
  unfold handle_opcode in Hh. cbv beta iota zeta in Hh. apply checked in Hh. destruct Hh as [Hh Hl].
  rewrite Hret in Hh. cbn [v_opds] in Hh, Hl. unfold truncate in Hh.
  set (s2 := push_op (set_last s None) IReturn) in *.
  assert (W2 : cwf nl s2) by (eapply cwf_same; [|exact W]; unfold same_alloc; cbn; tauto).
  destruct (terminated_state nl s v f r s2 s1 [IReturn] W B Fr Ec eq_refl eq_refl eq_refl eq_refl eq_refl W2 Hh Hl)
    as (A1 & A2 & A3 & A4 & A5 & A6 & A7 & A8).
  splits; auto. cbn. discriminate.
Qed.

(** ** value-typed blocks: the reserved result register *)
Lemma remove_z_sub x : forall l y, In y (remove_z x l) -> In y l.
Proof. induction l as [|a r IH]; cbn; intros y H; auto. destruct (x =? a); [right; exact H|]. destruct H; [left; auto|right; auto]. Qed.
Lemma remove_z_sorted x : forall l, sorted_lt l -> sorted_lt (remove_z x l).
Proof.
  induction l as [|a r IH]; cbn [remove_z sorted_lt]; intros H; auto. destruct H as [H1 H2].
  destruct (x =? a); [exact H2|]. cbn [sorted_lt]. split; [|auto].
  apply Forall_forall. intros y Hy. rewrite Forall_forall in H1. apply H1. eapply remove_z_sub; eauto.
Qed.
Lemma remove_z_notin x : forall l, sorted_lt l -> ~ In x (remove_z x l).
Proof.
  induction l as [|a r IH]; cbn [remove_z sorted_lt]; intros H; [intros []|]. destruct H as [H1 H2].
  destruct (Z.eqb_spec x a) as [->|Hne].
  - intros Hin. rewrite Forall_forall in H1. specialize (H1 a Hin). lia.
  - intros [E|Hin]; [congruence|]. exact (IH H2 Hin).
Qed.

Lemma cwf_provide_dyn nl s d : cwf nl s -> nl <= d < c_next s -> cwf nl (provide_existing s (PDyn d)).
Proof.
  intros [W1 W2 W3 W4 W5] Hd. unfold provide_existing.
  constructor; cbn [set_dyn set_stack c_stack c_next c_reuse c_consts]; auto.
  - constructor.
    + cbn. split; [exact Hd|]. apply remove_z_notin. exact W4.
    + eapply Forall_impl; [|exact W2]. intros p Hp. destruct p as [r| |]; cbn in *; auto.
      destruct Hp as [Hr Hn]. split; [exact Hr|]. intros Hin. apply Hn. eapply remove_z_sub; eauto.
  - apply Forall_forall. intros y Hy. rewrite Forall_forall in W3. apply W3. eapply remove_z_sub; eauto.
  - apply remove_z_sorted. exact W4.
Qed.

Definition copy_bytes (p : provider) (d : Z) : list N :=
  if provider_eqb p (PDyn d) then [] else ICopy :: i32_bytes (provider_idx p) ++ i32_bytes d.
Lemma copy_if_needed_out s p d : c_out (copy_if_needed s p (PDyn d)) = c_out s ++ copy_bytes p d
  /\ c_bp (copy_if_needed s p (PDyn d)) = c_bp s /\ same_alloc s (copy_if_needed s p (PDyn d))
  /\ c_last (copy_if_needed s p (PDyn d)) = c_last s.
Proof.
  unfold copy_if_needed, copy_bytes. destruct (provider_eqb p (PDyn d)).
  - rewrite app_nil_r. unfold same_alloc. repeat split; auto.
  - cbn [push_loc push_op emit set_out c_out c_bp c_last provider_idx]. rewrite <- !app_assoc. unfold same_alloc. cbn. repeat split; auto.
Qed.

Lemma op_block_val nl cx s v v1 s1 t :
  inv nl s v -> v_unreach v = None -> v_opds v = 0%nat ->
  vstep cx v (OBlock (Some t)) = Some v1 -> handle_opcode cx s v1 Reachable (OBlock (Some t)) = Some s1 ->
  exists d, nl <= d < c_next s1 /\ c_out s1 = c_out s /\ c_bp s1 = JUnknown [] (Some (PDyn d)) :: c_bp s
  /\ c_stack s1 = c_stack s /\ mono s s1 /\ c_last s1 = None /\ inv nl s1 v1 /\ v_unreach v1 = None.
Proof.
  intros I Hu H0 Hv Hh. cbn [vstep] in Hv. inversion Hv; subst v1; clear Hv.
  destruct I as [W B L Fr Md].
  unfold handle_opcode in Hh. cbv beta iota zeta in Hh.
  assert (W0 : cwf nl (set_last s None)) by (eapply cwf_same; [|exact W]; unfold same_alloc; cbn; tauto).
  destruct (dyn_get (set_last s None)) as [d s2] eqn:Ed.
  destruct (dyn_get_spec nl _ d s2 Ed W0) as (Hd & Hnr & _ & Es & (O1 & O2 & O3) & Ec & Hn & _ & W2).
  cbn [set_last c_out c_bp c_stack c_next c_consts c_last] in Es, O1, O2, O3, Ec, Hn.
  apply checked2 in Hh. destruct Hh as [Hh Hl]. subst s1.
  cbn [set_bp c_out c_bp c_stack c_next c_reuse c_consts c_last v_push_ctrl v_unreach v_opds v_ctrls] in *.
  exists d. splits; auto; try lia.
  - rewrite O2. reflexivity.
  - split; [cbn; lia|exists []; rewrite app_nil_r; exact Ec].
  - constructor; cbn [set_bp c_out c_bp c_stack c_next c_reuse c_consts c_last v_push_ctrl v_unreach v_opds v_ctrls]; auto.
    + eapply cwf_same; [|exact W2]. unfold same_alloc; cbn; tauto.
    + eapply (bpwf_same_locs s); [exact B|cbn; rewrite O2; reflexivity|unfold cur_off; cbn; rewrite O1; lia].
    + constructor.
      * repeat split; cbn; auto. left. exists [], (Some (PDyn d)). repeat split; try discriminate; cbn; lia.
      * rewrite O2. eapply frames_mono; [|exact Fr]. lia.
    + left. exact Hu.
Qed.

(** closing a value-typed frame: [sm] is the state after the result has been moved into the reserved
    register; the pending jumps of the frame are then patched to the offset after that move *)
Lemma end_val_tail s sm s1 locs res bp' t :
  bpwf s -> c_bp s = JUnknown locs res :: bp' -> c_bp sm = bp' -> c_last sm = None -> c_out sm = c_out s ++ t ->
  s1 = fold_left (fun acc l => back_patch acc l (cur_off sm)) locs sm ->
  c_bp s1 = bp' /\ c_stack s1 = c_stack sm /\ c_next s1 = c_next sm /\ c_reuse s1 = c_reuse sm /\ c_consts s1 = c_consts sm
  /\ c_last s1 = None /\ cur_off s1 = cur_off s + Z.of_nat (length t) /\ bpwf s1 /\ ext s s1
  /\ (forall loc, In loc locs -> resolved s1 loc (cur_off s1))
  /\ (forall j, (j < length t)%nat -> nth (length (c_out s) + j) (c_out s1) 0%N = nth j t 0%N
                                     /\ ~ pending s1 (length (c_out s) + j)).
Proof.
  intros B Ebp Em El Eo Hs1.
  set (sx := set_bp sm (JUnknown locs res :: bp')).
  assert (Esm : sm = set_bp (set_last sx None) bp').
  { unfold sx. destruct sm. cbn in *. subst. reflexivity. }
  assert (Ecx : cur_off sx = cur_off s + Z.of_nat (length t)).
  { unfold cur_off, sx. cbn [set_bp c_out]. rewrite Eo, app_length. lia. }
  assert (Bx : bpwf sx).
  { eapply (bpwf_same_locs s); [exact B|unfold sx; cbn [set_bp c_bp]; rewrite Ebp; reflexivity|lia]. }
  assert (Xx : ext s sx) by (eapply (ext_append s sx t); [exact Eo|unfold sx; cbn [set_bp c_bp]; rewrite Ebp; reflexivity]).
  rewrite Esm in Hs1. change (cur_off (set_bp (set_last sx None) bp')) with (cur_off sx) in Hs1.
  destruct (end_patch sx locs res bp' s1 Bx eq_refl Hs1) as (A1 & A2 & A3 & A4 & A5 & A6 & A7 & A8 & A9 & A10).
  splits; auto; try lia.
  - eapply ext_trans; eauto.
  - intros loc Hl. rewrite A7. apply A10. exact Hl.
  - intros j Hj. destruct A9 as [_ A9].
    assert (Hq : (length (c_out s) + j < length (c_out sx))%nat) by (unfold sx; cbn [set_bp c_out]; rewrite Eo, app_length; lia).
    assert (Hnp : ~ pending sx (length (c_out s) + j)).
    { intros (loc & Hl & Hw). unfold sx in Hl. cbn [set_bp c_bp] in Hl. rewrite <- Ebp in Hl.
      destruct (bw_range _ B loc Hl). unfold in_win, cur_off in *. lia. }
    destruct (A9 _ Hq Hnp) as [E1 N1]. split; [|exact N1].
    rewrite E1. unfold sx. cbn [set_bp c_out]. rewrite Eo, app_nth2 by lia. f_equal. lia.
Qed.

Lemma handle_end_val_r cx s v locs res bp' :
  c_bp s = JUnknown locs (Some res) :: bp' ->
  handle_opcode cx s v Reachable OEnd =
  match consume (set_bp (set_last s None) bp') with
  | Some (p, s2) =>
      let s3 := provide_existing (copy_if_needed s2 p res) res in
      let s4 := fold_left (fun acc l => back_patch acc l (cur_off s3)) locs s3 in
      if (length (c_stack s4) =? v_opds v)%nat then Some s4 else None
  | None => None
  end.
Proof.
  intros E. unfold handle_opcode. cbv beta iota zeta. cbn [set_last c_bp]. rewrite E.
  destruct (consume (set_bp (set_last s None) bp')) as [[p s2]|]; reflexivity.
Qed.
Lemma handle_end_val_u cx s v locs res bp' :
  c_bp s = JUnknown locs (Some res) :: bp' -> length (c_stack s) <> v_opds v ->
  handle_opcode cx s v UnreachableInstruction OEnd =
  let s3 := provide_existing (set_bp (set_last s None) bp') res in
  let s4 := fold_left (fun acc l => back_patch acc l (cur_off s3)) locs s3 in
  if (length (c_stack s4) =? v_opds v)%nat then Some s4 else None.
Proof.
  intros E Hn. unfold handle_opcode. cbv beta iota zeta. cbn [set_last c_bp]. rewrite E.
  change (c_stack (set_bp (set_last s None) bp')) with (c_stack s). apply Nat.eqb_neq in Hn. rewrite Hn. reflexivity.
Qed.

Lemma op_end_val nl cx s v v1 s1 locs d bp' :
  inv nl s v -> c_bp s = JUnknown locs (Some (PDyn d)) :: bp' ->
  vstep cx v OEnd = Some v1 -> handle_opcode cx s v1 (v_reachability v) OEnd = Some s1 ->
  exists t, c_bp s1 = bp' /\ c_stack s1 = [PDyn d]
  /\ c_next s1 = c_next s /\ c_consts s1 = c_consts s /\ c_last s1 = None /\ ext s s1
  /\ cur_off s1 = cur_off s + Z.of_nat (length t)
  /\ (forall loc, In loc locs -> resolved s1 loc (cur_off s1))
  /\ (forall j, (j < length t)%nat -> nth (length (c_out s) + j) (c_out s1) 0%N = nth j t 0%N
                                     /\ ~ pending s1 (length (c_out s) + j))
  /\ inv nl s1 v1 /\ v_unreach v1 = None /\ nl <= d < c_next s
  /\ ((v_unreach v = None /\ exists p, c_stack s = [p] /\ pwf nl s p /\ t = copy_bytes p d)
      \/ (v_unreach v <> None /\ c_stack s = [] /\ t = [])).
Proof.
  intros I Ebp Hv Hh. destruct I as [W B L Fr Md].
  destruct (v_ctrls v) as [|f r] eqn:Ec; [cbn [vstep] in Hv; unfold v_pop_ctrl in Hv; rewrite Ec in Hv; discriminate|].
  destruct (target_label_some nl _ (f :: r) (c_bp s) O f locs (PDyn d) Fr eq_refl ltac:(rewrite Ebp; reflexivity) ltac:(discriminate))
    as (t0 & d0 & Fl & Ed & Hd). inversion Ed; subst d0; clear Ed.
  destruct (frames_cons _ _ _ _ _ Fr) as (Fh & Fe & j0 & bp0 & Ebp0 & Fr' & _). rewrite Fl in Fe.
  rewrite Ebp in Ebp0. inversion Ebp0; subst j0 bp0; clear Ebp0.
  (* the validation step *)
  assert (Hv1 : v1 = {| v_opds := 1; v_ctrls := r; v_unreach := None |} /\
                ((v_unreach v = None /\ v_opds v = 1%nat) \/ (v_unreach v <> None /\ v_opds v = 0%nat))).
  { cbn [vstep] in Hv. unfold v_pop_ctrl in Hv. rewrite Ec, Fe in Hv. cbn [bt_arity v_popn] in Hv.
    unfold v_pop in Hv. rewrite Ec, Fh in Hv.
    destruct Md as [Hu|(Hu & _ & H0)].
    - destruct (Nat.eqb_spec (v_opds v) 0) as [E0|Hne].
      + (* nothing to consume: the compiler fails *)
        exfalso. rewrite (reach_of_none v Hu) in Hh. rewrite (handle_end_val_r cx s v1 locs (PDyn d) bp' Ebp) in Hh.
        unfold consume in Hh. cbn [set_bp set_last c_stack] in Hh.
        destruct (c_stack s); [discriminate|]. cbn in L. lia.
      + cbn [v_opds v_ctrls v_unreach] in Hv.
        destruct (Nat.eqb_spec (pred (v_opds v)) 0); [|discriminate]. rewrite Hu in Hv.
        cbn [bt_arity v_pushn v_push v_opds v_ctrls v_unreach] in Hv. rewrite e in Hv. inversion Hv. split; [reflexivity|]. left. split; [exact Hu|lia].
    - rewrite H0 in Hv. cbn [Nat.eqb] in Hv. destruct (vf_unreachable f); [|discriminate]. rewrite H0 in Hv. cbn [Nat.eqb] in Hv.
      rewrite Hu, Ec in Hv. cbn [length] in Hv. replace (S (length r) - 1)%nat with (length r) in Hv by lia.
      rewrite Nat.eqb_refl in Hv. cbn [bt_arity v_pushn v_push v_opds v_ctrls v_unreach] in Hv. inversion Hv.
      split; [reflexivity|]. right. split; [rewrite Hu; discriminate|exact H0]. }
  destruct Hv1 as [-> Hcase]. clear Hv.
  assert (W0 : cwf nl (set_bp (set_last s None) bp')) by (eapply cwf_same; [|exact W]; unfold same_alloc; cbn; tauto).
  (* common tail *)
  assert (Tail : forall sm t, c_bp sm = bp' -> c_last sm = None -> c_out sm = c_out s ++ t -> c_stack sm = [PDyn d] ->
            c_next sm = c_next s -> c_consts sm = c_consts s -> cwf nl sm ->
            s1 = fold_left (fun acc l => back_patch acc l (cur_off sm)) locs sm ->
            c_bp s1 = bp' /\ c_stack s1 = [PDyn d] /\ c_next s1 = c_next s /\ c_consts s1 = c_consts s /\ c_last s1 = None /\ ext s s1
            /\ cur_off s1 = cur_off s + Z.of_nat (length t)
            /\ (forall loc, In loc locs -> resolved s1 loc (cur_off s1))
            /\ (forall j, (j < length t)%nat -> nth (length (c_out s) + j) (c_out s1) 0%N = nth j t 0%N /\ ~ pending s1 (length (c_out s) + j))
            /\ inv nl s1 {| v_opds := 1; v_ctrls := r; v_unreach := None |}).
  { intros sm t Em El Eo Es En Ecs Wm Hs1.
    destruct (end_val_tail s sm s1 locs (Some (PDyn d)) bp' t B Ebp Em El Eo Hs1) as (A1 & A2 & A3 & A4 & A5 & A6 & A7 & A8 & A9 & A10 & A11).
    splits; auto; try congruence.
    constructor; cbn [v_opds v_ctrls v_unreach]; auto.
    - eapply cwf_same; [|exact Wm]. unfold same_alloc. auto.
    - rewrite A2, Es. reflexivity.
    - rewrite A1, A3, En. exact Fr'.
    - left. reflexivity. }
  destruct Hcase as [[Hu H1]|[Hu H0]].
  - rewrite (reach_of_none v Hu) in Hh. rewrite (handle_end_val_r cx s _ locs (PDyn d) bp' Ebp) in Hh.
    destruct (consume (set_bp (set_last s None) bp')) as [[p s2]|] eqn:Econs; [|discriminate].
    destruct (consume_spec nl _ p s2 Econs W0) as (Es & (O1 & O2 & O3) & En & Ecs & W2 & Pp).
    cbn [set_bp set_last c_out c_bp c_stack c_next c_reuse c_consts c_last] in Es, O1, O2, O3, En, Ecs.
    cbv zeta in Hh. apply checked2 in Hh. destruct Hh as [Hs1 _]. symmetry in Hs1.
    assert (Est : c_stack s2 = []).
    { rewrite Es in L. rewrite H1 in L. cbn in L. destruct (c_stack s2); [reflexivity|cbn in L; lia]. }
    destruct (copy_if_needed_out s2 p d) as (C1 & C2 & (C3 & C4 & C5 & C6) & C7).
    set (sc := copy_if_needed s2 p (PDyn d)) in *.
    assert (Wc : cwf nl sc) by (eapply cwf_same; [|exact W2]; unfold same_alloc; auto).
    assert (Wm : cwf nl (provide_existing sc (PDyn d))) by (apply cwf_provide_dyn; [exact Wc|rewrite C4, En; exact Hd]).
    assert (T1 : c_bp (provide_existing sc (PDyn d)) = bp') by (cbn; rewrite C2; exact O2).
    assert (T2 : c_last (provide_existing sc (PDyn d)) = None) by (cbn; rewrite C7; exact O3).
    assert (T3 : c_out (provide_existing sc (PDyn d)) = c_out s ++ copy_bytes p d) by (cbn; rewrite C1, O1; reflexivity).
    assert (T4 : c_stack (provide_existing sc (PDyn d)) = [PDyn d]) by (cbn; rewrite C3, Est; reflexivity).
    assert (T5 : c_next (provide_existing sc (PDyn d)) = c_next s) by (cbn; rewrite C4; exact En).
    assert (T6 : c_consts (provide_existing sc (PDyn d)) = c_consts s) by (cbn; rewrite C6; exact Ecs).
    destruct (Tail _ _ T1 T2 T3 T4 T5 T6 Wm Hs1) as (A1 & A2 & A3 & A4 & A5 & A6 & A7 & A8 & A9 & A10).
    exists (copy_bytes p d). split; [exact A1|]. split; [exact A2|]. split; [exact A3|]. split; [exact A4|]. split; [exact A5|]. split; [exact A6|]. split; [exact A7|]. split; [exact A8|]. split; [exact A9|]. split; [exact A10|]. split; [reflexivity|]. split; [exact Hd|].
    left. split; [exact Hu|]. exists p. rewrite Est in Es. split; [exact Es|]. split; [|reflexivity].
    destruct p; cbn in Pp |- *; auto.
  - assert (Hreach : v_reachability v = UnreachableInstruction).
    { destruct Md as [Hm|(Hm & Hn & _)]; [contradiction|]. apply reach_term; auto. }
    rewrite Hreach in Hh.
    assert (Est : c_stack s = []) by (destruct (c_stack s); [reflexivity|cbn in L; lia]).
    rewrite (handle_end_val_u cx s _ locs (PDyn d) bp' Ebp) in Hh by (rewrite Est; cbn; discriminate).
    cbv zeta in Hh. apply checked2 in Hh. destruct Hh as [Hs1 _]. symmetry in Hs1.
    assert (Wm : cwf nl (provide_existing (set_bp (set_last s None) bp') (PDyn d))) by (apply cwf_provide_dyn; [exact W0|exact Hd]).
    assert (T3 : c_out (provide_existing (set_bp (set_last s None) bp') (PDyn d)) = c_out s ++ []) by (cbn; rewrite app_nil_r; reflexivity).
    assert (T4 : c_stack (provide_existing (set_bp (set_last s None) bp') (PDyn d)) = [PDyn d]) by (cbn; rewrite Est; reflexivity).
    destruct (Tail (provide_existing (set_bp (set_last s None) bp') (PDyn d)) [] eq_refl eq_refl T3 T4 eq_refl eq_refl Wm Hs1) as (A1 & A2 & A3 & A4 & A5 & A6 & A7 & A8 & A9 & A10).
    exists []. split; [exact A1|]. split; [exact A2|]. split; [exact A3|]. split; [exact A4|]. split; [exact A5|]. split; [exact A6|]. split; [exact A7|]. split; [exact A8|]. split; [exact A9|]. split; [exact A10|]. split; [reflexivity|]. split; [exact Hd|].
    right. auto.
Qed.

Lemma copy_bytes_length p d : length (copy_bytes p d) = if provider_eqb p (PDyn d) then 0%nat else 9%nat.
Proof. unfold copy_bytes. destruct (provider_eqb p (PDyn d)); [reflexivity|]. cbn [length]. rewrite app_length, !i32_bytes_length. reflexivity. Qed.

Lemma op_br_val nl cx s v v1 s1 k locs d :
  inv nl s v -> v_unreach v = None -> nth_error (c_bp s) k = Some (JUnknown locs (Some (PDyn d))) ->
  vstep cx v (OBasic (BBr k)) = Some v1 -> handle_opcode cx s v1 Reachable (OBasic (BBr k)) = Some s1 ->
  exists p rest, c_stack s = p :: rest /\ pwf nl s p /\ nl <= d < c_next s
  /\ c_out s1 = c_out s ++ copy_bytes p d ++ IBr :: u32_bytes 0
  /\ c_bp s1 = update_nth (c_bp s) k (JUnknown (locs ++ [cur_off s + Z.of_nat (length (copy_bytes p d)) + 1]) (Some (PDyn d)))
  /\ c_stack s1 = [] /\ c_next s1 = c_next s /\ c_consts s1 = c_consts s /\ c_last s1 = None
  /\ inv nl s1 v1 /\ v_unreach v1 <> None /\ ext s s1.
Proof.
  intros I Hu Enth Hv Hh. destruct I as [W B L Fr Md].
  cbn [vstep] in Hv. unfold label_type in Hv. destruct (nth_error (v_ctrls v) k) as [fk|] eqn:Ek; [|discriminate].
  destruct (target_label_some _ _ _ _ k fk locs (PDyn d) Fr Ek Enth ltac:(discriminate)) as (t0 & d0 & Fl & Ed & Hd). inversion Ed; subst d0; clear Ed.
  rewrite Fl in Hv. cbn [bt_arity v_popn] in Hv.
  destruct (v_ctrls v) as [|f r] eqn:Ec; [unfold v_pop in Hv; rewrite Ec in Hv; discriminate|].
  assert (Hv1 : v1 = {| v_opds := vf_height f;
                        v_ctrls := {| vf_is_if := vf_is_if f; vf_label := vf_label f; vf_end := vf_end f;
                                      vf_height := vf_height f; vf_unreachable := true |} :: r;
                        v_unreach := Some (length r) |}).
  { unfold v_pop in Hv. rewrite Ec in Hv.
    destruct (v_opds v =? vf_height f)%nat; [destruct (vf_unreachable f); [|discriminate]|];
      unfold v_mark_unreachable in Hv; cbn [v_ctrls v_unreach] in Hv; rewrite ?Ec, Hu in Hv; inversion Hv; reflexivity. }
  subst v1. clear Hv. destruct (frames_cons _ _ _ _ _ Fr) as (Fh & _).
  unfold handle_opcode in Hh. cbv beta iota zeta in Hh. apply checked in Hh. destruct Hh as [Hh Hl].
  cbn [v_opds] in Hh, Hl.
  unfold push_br_jump in Hh. cbn [set_last c_bp] in Hh. rewrite Enth in Hh.
  assert (W0 : cwf nl (set_last s None)) by (eapply cwf_same; [|exact W]; unfold same_alloc; cbn; tauto).
  destruct (consume (set_last s None)) as [[p s2]|] eqn:Econs; [|discriminate].
  destruct (consume_spec nl _ p s2 Econs W0) as (Es & (O1 & O2 & O3) & En & Ecs & W2 & Pp).
  cbn [set_last c_out c_bp c_stack c_next c_reuse c_consts c_last] in Es, O1, O2, O3, En, Ecs.
  destruct (copy_if_needed_out s2 p d) as (C1 & C2 & (C3 & C4 & C5 & C6) & C7).
  set (sc := copy_if_needed s2 p (PDyn d)) in *.
  unfold insert_jump_location in Hh. change (c_bp (push_op sc IBr)) with (c_bp sc) in Hh. rewrite C2, O2, Enth in Hh.
  set (s3 := emit _ (u32_bytes 0)) in Hh.
  assert (Wc : cwf nl sc) by (eapply cwf_same; [|exact W2]; unfold same_alloc; auto).
  assert (W3 : cwf nl s3) by (eapply cwf_same; [|exact Wc]; unfold same_alloc; cbn; tauto).
  unfold truncate in Hh.
  destruct (truncate_n_spec nl _ s3 s1 Hh W3) as ((T1 & T2 & T3) & Tn & Tc & W1 & Ln).
  set (x := cur_off s + Z.of_nat (length (copy_bytes p d)) + 1).
  assert (S1 : c_out s3 = c_out s ++ copy_bytes p d ++ IBr :: u32_bytes 0).
  { subst s3. cbn [emit set_out set_bp push_op c_out]. rewrite C1, O1, <- !app_assoc. reflexivity. }
  assert (S2 : c_bp s3 = update_nth (c_bp s) k (JUnknown (locs ++ [x]) (Some (PDyn d)))).
  { subst s3. cbn [emit set_out set_bp c_bp push_op]. do 4 f_equal. unfold x, cur_off. cbn [c_out emit set_out push_op].
    rewrite C1, O1, !app_length. cbn [length]. lia. }
  assert (S3 : c_last s3 = None) by (subst s3; cbn; rewrite C7; exact O3).
  assert (S4 : c_next s3 = c_next s) by (subst s3; cbn; rewrite C4; exact En).
  assert (S5 : c_consts s3 = c_consts s) by (subst s3; cbn; rewrite C6; exact Ecs).
  rewrite S1 in T1. rewrite S2 in T2. rewrite S3 in T3. rewrite S4 in Tn. rewrite S5 in Tc. clearbody s3.
  assert (Est : c_stack s1 = []) by (destruct (c_stack s1); [reflexivity|cbn in Hl; rewrite Fh in Hl; discriminate]).
  destruct (all_locs_update (c_bp s) k locs (Some (PDyn d)) x Enth) as (A & Bl & EA & EB). rewrite <- T2 in EB.
  assert (Ecur : cur_off s1 = x + 4).
  { unfold cur_off, x. rewrite T1, !app_length. cbn [length]. rewrite u32_bytes_length. unfold cur_off. lia. }
  assert (Hx : cur_off s <= x) by (unfold x; lia).
  exists p, (c_stack s2). splits; auto; try lia; try (destruct p; cbn in Pp |- *; auto; fail).
  - constructor; cbn [v_opds v_ctrls v_unreach]; auto.
    + eapply (bpwf_add s s1 x A Bl); auto; lia.
    + rewrite T2, Tn. apply frames_mark. eapply frames_update; eauto.
    + right. cbn [v_unreach v_ctrls v_opds length]. splits; auto; try discriminate. f_equal. lia.
  - cbn. discriminate.
  - eapply (ext_add s s1 _ x A Bl); eauto.
Qed.

(** *** if with a result *)
Lemma op_if_val nl cx s v v1 s1 t :
  inv nl s v -> v_unreach v = None -> v_opds v = 1%nat ->
  vstep cx v (OIf (Some t)) = Some v1 -> handle_opcode cx s v1 Reachable (OIf (Some t)) = Some s1 ->
  exists p d, c_stack s = [p] /\ pwf nl s p /\ nl <= d < c_next s1
  /\ c_out s1 = c_out s ++ IIf :: i32_bytes (provider_idx p) ++ u32_bytes 0
  /\ c_bp s1 = JUnknown [cur_off s + 5] (Some (PDyn d)) :: c_bp s /\ c_stack s1 = [] /\ mono s s1
  /\ c_last s1 = None /\ inv nl s1 v1 /\ v_unreach v1 = None /\ ext s s1.
Proof.
  intros I Hu H1 Hv Hh. destruct I as [W B L Fr Md].
  cbn [vstep] in Hv. unfold v_pop in Hv. destruct (v_ctrls v) as [|f r] eqn:Ec; [discriminate|].
  destruct (frames_cons _ _ _ _ _ Fr) as (Fh & _).
  rewrite H1, Fh in Hv. cbn in Hv. inversion Hv; subst v1; clear Hv.
  unfold handle_opcode in Hh. cbv beta iota zeta in Hh. apply checked in Hh. destruct Hh as [Hh Hl].
  unfold push_consume in Hh.
  assert (W0 : cwf nl (push_op (set_last s None) IIf)) by (eapply cwf_same; [|exact W]; unfold same_alloc; cbn; tauto).
  destruct (consume (push_op (set_last s None) IIf)) as [[p s2]|] eqn:Econs; [|discriminate].
  destruct (consume_spec nl _ p s2 Econs W0) as (Es & (O1 & O2 & O3) & En & Ecs & W2 & Pp).
  cbn [push_op emit set_out set_last c_out c_bp c_stack c_next c_reuse c_consts c_last] in Es, O1, O2, O3, En, Ecs.
  assert (Est : c_stack s2 = []).
  { rewrite Es in L. rewrite H1 in L. cbn in L. destruct (c_stack s2); [reflexivity|cbn in L; lia]. }
  assert (W3 : cwf nl (push_loc s2 p)) by (eapply cwf_same; [|exact W2]; unfold same_alloc; cbn; tauto).
  destruct (dyn_get (push_loc s2 p)) as [d s3] eqn:Ed.
  destruct (dyn_get_spec nl _ d s3 Ed W3) as (Hd & _ & _ & Es3 & (P1 & P2 & P3) & Pc & Pn & _ & W4).
  cbn [push_loc emit set_out c_out c_bp c_stack c_next c_consts c_last] in Es3, P1, P2, P3, Pc, Pn.
  assert (Eoff : cur_off s3 = cur_off s + 5).
  { unfold cur_off. rewrite P1, O1, !app_length, i32_bytes_length. cbn [length]. lia. }
  rewrite Eoff in Hh. injection Hh as Hs1.
  assert (F1 : c_out s1 = c_out s ++ IIf :: i32_bytes (provider_idx p) ++ u32_bytes 0).
  { subst s1. cbn. rewrite P1, O1, <- !app_assoc. reflexivity. }
  assert (F2 : c_bp s1 = JUnknown [cur_off s + 5] (Some (PDyn d)) :: c_bp s) by (subst s1; cbn; rewrite P2, O2; reflexivity).
  assert (F3 : c_stack s1 = []) by (subst s1; cbn; rewrite Es3; exact Est).
  assert (F4 : c_next s1 = c_next s3) by (subst s1; reflexivity).
  assert (F5 : c_consts s1 = c_consts s) by (subst s1; cbn; rewrite Pc; exact Ecs).
  assert (F6 : c_last s1 = None) by (subst s1; cbn; rewrite P3; exact O3).
  assert (F7 : c_reuse s1 = c_reuse s3) by (subst s1; reflexivity).
  clear Hs1. exists p, d. rewrite Est in Es.
  assert (Eco : cur_off s1 = cur_off s + 9).
  { unfold cur_off. rewrite F1, !app_length. cbn [length]. rewrite app_length, i32_bytes_length, u32_bytes_length. lia. }
  assert (Eal : all_locs (c_bp s1) = [] ++ (cur_off s + 5) :: all_locs (c_bp s)) by (rewrite F2; reflexivity).
  assert (Hnx : c_next s <= c_next s1) by (rewrite F4; lia).
  splits; auto; try (destruct p; cbn in Pp |- *; auto; fail); try lia.
  - split; [exact Hnx|exists []; rewrite app_nil_r; exact F5].
  - constructor.
    + eapply cwf_same; [|exact W4]. unfold same_alloc. repeat split; congruence.
    + eapply (bpwf_add s s1 (cur_off s + 5) [] (all_locs (c_bp s))); auto; try lia.
    + rewrite F3. reflexivity.
    + rewrite F2. constructor.
      * repeat split; cbn; auto. left. exists [cur_off s + 5], (Some (PDyn d)). repeat split; try discriminate; cbn; lia.
      * eapply frames_mono; [exact Hnx|exact Fr].
    + left. exact Hu.
  - eapply (ext_add s s1 _ (cur_off s + 5) [] (all_locs (c_bp s))); eauto; try lia.
Qed.

(** *** else of a value-typed if: the jump over the else branch is emitted after the result was moved *)
Lemma else_tail sc first more res bp' s1 :
  bpwf sc -> c_bp sc = JUnknown (first :: more) res :: bp' ->
  s1 = back_patch (set_bp (emit (set_bp (push_op sc IBr) (JUnknown ((first :: more) ++ [cur_off sc + 1]) res :: bp')) (u32_bytes 0))
                          (JUnknown (more ++ [cur_off sc + 1]) res :: bp')) first (cur_off sc + 5) ->
  exists pre, length pre = length (c_out sc) /\ c_out s1 = pre ++ IBr :: u32_bytes 0
    /\ c_bp s1 = JUnknown (more ++ [cur_off sc + 1]) res :: bp' /\ same_alloc sc s1 /\ c_last s1 = c_last sc
    /\ cur_off s1 = cur_off sc + 5 /\ bpwf s1 /\ ext sc s1 /\ resolved s1 first (cur_off sc + 5).
Proof.
  intros B Ebp Hs1.
  assert (Hall : all_locs (c_bp sc) = first :: more ++ all_locs bp') by (rewrite Ebp; reflexivity).
  destruct (bw_range _ B first) as [Hf0 Hf1]; [rewrite Hall; left; reflexivity|].
  assert (Hfl : (Z.to_nat first + 4 <= length (c_out sc))%nat) by (unfold cur_off in Hf1; lia).
  set (pre := overwrite (c_out sc) (Z.to_nat first) (u32_bytes (cur_off sc + 5))).
  assert (Lpre : length pre = length (c_out sc)) by (apply overwrite_length; rewrite u32_bytes_length; exact Hfl).
  assert (F1 : c_out s1 = pre ++ IBr :: u32_bytes 0).
  { subst s1. cbn [back_patch set_out set_bp emit push_op c_out]. rewrite <- app_assoc. cbn [app].
    apply overwrite_app. rewrite u32_bytes_length. exact Hfl. }
  assert (F2 : c_bp s1 = JUnknown (more ++ [cur_off sc + 1]) res :: bp') by (subst s1; reflexivity).
  assert (F3 : same_alloc sc s1) by (subst s1; unfold same_alloc; cbn; auto).
  assert (F6 : c_last s1 = c_last sc) by (subst s1; reflexivity).
  clear Hs1.
  assert (Ecur : cur_off s1 = cur_off sc + 5).
  { unfold cur_off. rewrite F1, app_length, Lpre. cbn [length]. rewrite u32_bytes_length. lia. }
  set (sm := set_bp sc (JUnknown more res :: bp')).
  assert (Bm : bpwf sm).
  { eapply (bpwf_remove sc sm first _ B Hall); [reflexivity|unfold sm, cur_off; cbn; lia]. }
  assert (Hall1 : all_locs (c_bp s1) = more ++ (cur_off sc + 1) :: all_locs bp').
  { rewrite F2. cbn [all_locs flat_map locs_of]. rewrite <- app_assoc. reflexivity. }
  assert (B1 : bpwf s1).
  { eapply (bpwf_add sm s1 (cur_off sc + 1) more (all_locs bp')); auto; try reflexivity.
    - change (cur_off sm) with (cur_off sc). lia.
    - lia.
    - change (cur_off sm) with (cur_off sc). lia. }
  assert (Hin1 : forall y, In y (all_locs (c_bp s1)) -> y = cur_off sc + 1 \/ (In y (all_locs (c_bp sc)) /\ y <> first)).
  { intros y Hy. rewrite Hall1 in Hy. apply in_app_iff in Hy. cbn in Hy.
    pose proof (bw_nodup _ B) as Hnd. rewrite Hall in Hnd. inversion Hnd as [|? ? Hnf _]; subst.
    assert (In y (more ++ all_locs bp') -> In y (all_locs (c_bp sc)) /\ y <> first).
    { intros Hy'. split; [rewrite Hall; right; exact Hy'|intros ->; contradiction]. }
    destruct Hy as [Hy|[Hy|Hy]]; auto; right; apply H; apply in_or_app; auto. }
  exists pre. splits; auto.
  - split; [rewrite F1, app_length, Lpre; lia|]. intros p Hp Hn. split.
    + rewrite F1, app_nth1 by lia. apply nth_overwrite_other. rewrite u32_bytes_length.
      destruct (Nat.lt_ge_cases p (Z.to_nat first)) as [|Hge]; [left; exact H|right].
      destruct (Nat.le_gt_cases (Z.to_nat first + 4) p) as [|Hlt]; [exact H|exfalso].
      apply Hn. exists first. split; [rewrite Hall; left; reflexivity|unfold in_win; lia].
    + intros (y & Hy & Hw). destruct (Hin1 y Hy) as [->|[Hy' _]].
      * unfold in_win, cur_off in Hw. lia.
      * apply Hn. exists y. auto.
  - split; [exact Hf0|]. split; [rewrite F1, app_length; lia|]. intros j Hj. split.
    + rewrite F1, app_nth1 by lia. unfold pre. rewrite nth_overwrite_in; rewrite ?u32_bytes_length; try lia. f_equal. lia.
    + intros (y & Hy & Hw). destruct (Hin1 y Hy) as [->|[Hy' Hne']].
      * unfold in_win, cur_off in *. lia.
      * assert (Hfi : In first (all_locs (c_bp sc))) by (rewrite Hall; left; reflexivity).
        destruct (bw_sep _ B first y Hfi Hy') as [E|Hs]; [congruence|]. unfold in_win in Hw. lia.
Qed.

Lemma op_else_val nl cx s v v1 s1 locs d bp' :
  inv nl s v -> v_unreach v = None -> c_bp s = JUnknown locs (Some (PDyn d)) :: bp' ->
  vstep cx v OElse = Some v1 -> handle_opcode cx s v1 Reachable OElse = Some s1 ->
  exists first more p,
    locs = first :: more /\ c_stack s = [p] /\ pwf nl s p /\ nl <= d < c_next s
    /\ c_bp s1 = JUnknown (more ++ [cur_off s + Z.of_nat (length (copy_bytes p d)) + 1]) (Some (PDyn d)) :: bp'
    /\ (forall j, (j < length (copy_bytes p d ++ [IBr]))%nat ->
          nth (length (c_out s) + j) (c_out s1) 0%N = nth j (copy_bytes p d ++ [IBr]) 0%N /\ ~ pending s1 (length (c_out s) + j))
    /\ c_stack s1 = [] /\ c_next s1 = c_next s /\ c_consts s1 = c_consts s /\ c_last s1 = None
    /\ cur_off s1 = cur_off s + Z.of_nat (length (copy_bytes p d)) + 5
    /\ ext s s1 /\ resolved s1 first (cur_off s1) /\ inv nl s1 v1 /\ v_unreach v1 = None.
Proof.
  intros I Hu Ebp Hv Hh. destruct I as [W B L Fr Md].
  destruct (v_ctrls v) as [|f r] eqn:Ec; [cbn [vstep] in Hv; unfold v_pop_ctrl in Hv; rewrite Ec in Hv; discriminate|].
  destruct (target_label_some nl _ (f :: r) (c_bp s) O f locs (PDyn d) Fr eq_refl ltac:(rewrite Ebp; reflexivity) ltac:(discriminate))
    as (t0 & d0 & Fl & Ed & Hd). inversion Ed; subst d0; clear Ed.
  destruct (frames_cons _ _ _ _ _ Fr) as (Fh & Fe & j0 & bp0 & Ebp0 & Fr' & Hjt). rewrite Fl in Fe.
  rewrite Ebp in Ebp0. inversion Ebp0; subst j0 bp0; clear Ebp0.
  unfold handle_opcode in Hh. cbv beta iota zeta in Hh. apply checked in Hh. destruct Hh as [Hh Hl].
  unfold push_br_jump in Hh. cbn [set_last c_bp nth_error] in Hh. rewrite Ebp in Hh.
  assert (W0 : cwf nl (set_last s None)) by (eapply cwf_same; [|exact W]; unfold same_alloc; cbn; tauto).
  destruct (consume (set_last s None)) as [[p s2]|] eqn:Econs; [|discriminate].
  destruct (consume_spec nl _ p s2 Econs W0) as (Es & (O1 & O2 & O3) & En & Ecs & W2 & Pp).
  cbn [set_last c_out c_bp c_stack c_next c_reuse c_consts c_last] in Es, O1, O2, O3, En, Ecs.
  assert (Hv1 : v1 = v_push_ctrl false (Some t0) (Some t0) {| v_opds := 0; v_ctrls := r; v_unreach := None |}
                /\ v_opds v = 1%nat /\ vf_is_if f = true).
  { cbn [vstep] in Hv. unfold v_pop_ctrl in Hv. rewrite Ec, Fe in Hv. cbn [bt_arity v_popn] in Hv.
    unfold v_pop in Hv. rewrite Ec, Fh in Hv.
    destruct (Nat.eqb_spec (v_opds v) 0) as [E0|Hne]; [exfalso; rewrite Es in L; cbn in L; lia|].
    cbn [v_opds v_ctrls v_unreach] in Hv. destruct (Nat.eqb_spec (pred (v_opds v)) 0); [|discriminate]. rewrite Hu in Hv.
    destruct (vf_is_if f); [|discriminate]. inversion Hv. rewrite e. repeat split; auto. lia. }
  destruct Hv1 as (-> & H1 & Eif). clear Hv.
  assert (Est : c_stack s2 = []).
  { rewrite Es in L. rewrite H1 in L. cbn in L. destruct (c_stack s2); [reflexivity|cbn in L; lia]. }
  assert (Hlocs : exists first more, locs = first :: more).
  { destruct Hjt as [(l0 & r0 & E0 & Hne & _)|(pos & E0 & _)]; [|discriminate E0]. inversion E0; subst.
    destruct l0 as [|a b]; [exfalso; apply (Hne Eif); reflexivity|eauto]. }
  destruct Hlocs as (first & more & ->).
  destruct (copy_if_needed_out s2 p d) as (C1 & C2 & (C3 & C4 & C5 & C6) & C7).
  set (sc := copy_if_needed s2 p (PDyn d)) in *.
  unfold insert_jump_location in Hh. change (c_bp (push_op sc IBr)) with (c_bp sc) in Hh. rewrite C2, O2, Ebp in Hh.
  cbn [nth_error update_nth] in Hh.
  assert (E1 : cur_off (push_op sc IBr) = cur_off sc + 1).
  { unfold cur_off. cbn [push_op emit set_out c_out]. rewrite app_length. cbn [length]. lia. }
  assert (E2 : forall A, cur_off (emit (set_bp (push_op sc IBr) A) (u32_bytes 0)) = cur_off sc + 5).
  { intros A. unfold cur_off. cbn [emit set_out set_bp push_op c_out]. rewrite !app_length, u32_bytes_length. cbn [length]. lia. }
  rewrite E1 in Hh. cbn [emit set_out set_bp c_bp app] in Hh.
  assert (Hs1 : s1 = back_patch (set_bp (emit (set_bp (push_op sc IBr) (JUnknown ((first :: more) ++ [cur_off sc + 1]) (Some (PDyn d)) :: bp')) (u32_bytes 0))
                          (JUnknown (more ++ [cur_off sc + 1]) (Some (PDyn d)) :: bp')) first (cur_off sc + 5)).
  { rewrite <- (E2 (JUnknown ((first :: more) ++ [cur_off sc + 1]) (Some (PDyn d)) :: bp')). inversion Hh. reflexivity. }
  clear Hh.
  assert (Ebsc : c_bp sc = JUnknown (first :: more) (Some (PDyn d)) :: bp') by (rewrite C2, O2; exact Ebp).
  assert (Eosc : c_out sc = c_out s ++ copy_bytes p d) by (rewrite C1, O1; reflexivity).
  assert (Ecsc : cur_off sc = cur_off s + Z.of_nat (length (copy_bytes p d))).
  { unfold cur_off. rewrite Eosc, app_length. lia. }
  assert (Bsc : bpwf sc) by (eapply (bpwf_same_locs s); [exact B|rewrite Ebsc, Ebp; reflexivity|lia]).
  assert (Xsc : ext s sc) by (eapply (ext_append s sc _ Eosc); rewrite Ebsc, Ebp; reflexivity).
  destruct (else_tail sc first more (Some (PDyn d)) bp' s1 Bsc Ebsc Hs1) as (pre & Lp & F1 & F2 & (F3 & F4 & F5 & F6) & F7 & Ecur & B1 & X1 & Rs).
  exists first, more, p. rewrite Est in Es.
  split; [reflexivity|]. split; [exact Es|]. split; [destruct p; cbn in Pp |- *; auto|]. split; [exact Hd|].
  split; [rewrite F2, Ecsc; reflexivity|]. split.
  { intros j Hj. rewrite app_length in Hj. cbn [length] in Hj.
    assert (Hpend1 : forall q, (length (c_out s) <= q)%nat -> ~ in_win (cur_off sc + 1) q -> ~ pending s1 q).
    { intros q Hq Hw (y & Hy & Hwy). rewrite F2 in Hy. cbn [all_locs flat_map locs_of] in Hy. rewrite <- app_assoc in Hy.
      apply in_app_iff in Hy. cbn in Hy.
      assert (Hold : In y (all_locs (c_bp s)) -> False).
      { intros Hin. destruct (bw_range _ B y Hin). unfold in_win, cur_off in *. lia. }
      destruct Hy as [Hy|[<-|Hy]]; [apply Hold; rewrite Ebp; cbn; right; apply in_or_app; auto|contradiction|
        apply Hold; rewrite Ebp; cbn; right; apply in_or_app; auto]. }
    split; [|apply Hpend1; [lia|unfold in_win, cur_off in *; rewrite Eosc, app_length; lia]].
    destruct (Nat.lt_ge_cases j (length (copy_bytes p d))) as [Hlt|Hge].
    - destruct X1 as [_ X1].
      assert (Hq : (length (c_out s) + j < length (c_out sc))%nat) by (rewrite Eosc, app_length; lia).
      assert (Hnp : ~ pending sc (length (c_out s) + j)).
      { intros (y & Hy & Hwy). rewrite Ebsc, <- Ebp in Hy. destruct (bw_range _ B y Hy). unfold in_win, cur_off in *. lia. }
      destruct (X1 _ Hq Hnp) as [E _]. rewrite E, Eosc, app_nth2 by lia. rewrite app_nth1 by lia. f_equal. lia.
    - assert (j = length (copy_bytes p d)) by lia. subst j. rewrite F1.
      replace (length (c_out s) + length (copy_bytes p d))%nat with (length pre) by (rewrite Lp, Eosc, app_length; reflexivity).
      rewrite app_nth2 by lia. rewrite Nat.sub_diag. rewrite app_nth2 by lia. rewrite Nat.sub_diag. reflexivity. }
  split; [rewrite F3, C3; exact Est|]. split; [rewrite F4, C4; exact En|]. split; [rewrite F6, C6; exact Ecs|].
  split; [rewrite F7, C7; exact O3|]. split; [rewrite Ecur, Ecsc; lia|].
  split; [eapply ext_trans; eauto|]. split; [rewrite Ecur; exact Rs|]. split; [|reflexivity].
  constructor; cbn [v_push_ctrl v_opds v_ctrls v_unreach]; auto.
  - eapply cwf_same; [|exact W2]. unfold same_alloc. repeat split; congruence.
  - rewrite F2, F4, C4, En. constructor; [|exact Fr']. repeat split; cbn; auto. left.
    exists (more ++ [cur_off sc + 1]), (Some (PDyn d)). repeat split; try discriminate; cbn; lia.
  - left. reflexivity.
Qed.

Definition copy_ret (p : provider) : list N :=
  if provider_eqb p (PLocal 0) then [] else ICopy :: i32_bytes (provider_idx p) ++ i32_bytes 0.
Lemma copy_if_needed_out_ret s p : c_out (copy_if_needed s p (PLocal 0)) = c_out s ++ copy_ret p
  /\ c_bp (copy_if_needed s p (PLocal 0)) = c_bp s /\ same_alloc s (copy_if_needed s p (PLocal 0))
  /\ c_last (copy_if_needed s p (PLocal 0)) = c_last s.
Proof.
  unfold copy_if_needed, copy_ret. destruct (provider_eqb p (PLocal 0)).
  - rewrite app_nil_r. unfold same_alloc. repeat split; auto.
  - cbn [push_loc push_op emit set_out c_out c_bp c_last provider_idx]. rewrite <- !app_assoc. unfold same_alloc. cbn. repeat split; auto.
Qed.
Lemma copy_ret_length p : length (copy_ret p) = if provider_eqb p (PLocal 0) then 0%nat else 9%nat.
Proof. unfold copy_ret. destruct (provider_eqb p (PLocal 0)); [reflexivity|]. cbn [length]. rewrite app_length, !i32_bytes_length. reflexivity. Qed.

(** br to the function's own label in a function with a result *)
Lemma op_br_ret nl cx s v v1 s1 k locs :
  inv nl s v -> v_unreach v = None -> nth_error (c_bp s) k = Some (JUnknown locs (Some (PLocal 0))) ->
  vstep cx v (OBasic (BBr k)) = Some v1 -> handle_opcode cx s v1 Reachable (OBasic (BBr k)) = Some s1 ->
  exists p rest, c_stack s = p :: rest /\ pwf nl s p
  /\ c_out s1 = c_out s ++ copy_ret p ++ IBr :: u32_bytes 0
  /\ c_bp s1 = update_nth (c_bp s) k (JUnknown (locs ++ [cur_off s + Z.of_nat (length (copy_ret p)) + 1]) (Some (PLocal 0)))
  /\ c_stack s1 = [] /\ c_next s1 = c_next s /\ c_consts s1 = c_consts s /\ c_last s1 = None
  /\ inv nl s1 v1 /\ v_unreach v1 <> None /\ ext s s1.
Proof.
  intros I Hu Enth Hv Hh. destruct I as [W B L Fr Md].
  cbn [vstep] in Hv. unfold label_type in Hv. destruct (nth_error (v_ctrls v) k) as [fk|] eqn:Ek; [|discriminate].
  destruct (target_label_any _ _ _ _ k fk locs (PLocal 0) Fr Ek Enth) as (t0 & Fl & _).
  rewrite Fl in Hv. cbn [bt_arity v_popn] in Hv.
  destruct (v_ctrls v) as [|f r] eqn:Ec; [unfold v_pop in Hv; rewrite Ec in Hv; discriminate|].
  assert (Hv1 : v1 = {| v_opds := vf_height f;
                        v_ctrls := {| vf_is_if := vf_is_if f; vf_label := vf_label f; vf_end := vf_end f;
                                      vf_height := vf_height f; vf_unreachable := true |} :: r;
                        v_unreach := Some (length r) |}).
  { unfold v_pop in Hv. rewrite Ec in Hv.
    destruct (v_opds v =? vf_height f)%nat; [destruct (vf_unreachable f); [|discriminate]|];
      unfold v_mark_unreachable in Hv; cbn [v_ctrls v_unreach] in Hv; rewrite ?Ec, Hu in Hv; inversion Hv; reflexivity. }
  subst v1. clear Hv. destruct (frames_cons _ _ _ _ _ Fr) as (Fh & _).
  unfold handle_opcode in Hh. cbv beta iota zeta in Hh. apply checked in Hh. destruct Hh as [Hh Hl].
  cbn [v_opds] in Hh, Hl.
  unfold push_br_jump in Hh. cbn [set_last c_bp] in Hh. rewrite Enth in Hh.
  assert (W0 : cwf nl (set_last s None)) by (eapply cwf_same; [|exact W]; unfold same_alloc; cbn; tauto).
  destruct (consume (set_last s None)) as [[p s2]|] eqn:Econs; [|discriminate].
  destruct (consume_spec nl _ p s2 Econs W0) as (Es & (O1 & O2 & O3) & En & Ecs & W2 & Pp).
  cbn [set_last c_out c_bp c_stack c_next c_reuse c_consts c_last] in Es, O1, O2, O3, En, Ecs.
  destruct (copy_if_needed_out_ret s2 p) as (C1 & C2 & (C3 & C4 & C5 & C6) & C7).
  set (sc := copy_if_needed s2 p (PLocal 0)) in *.
  unfold insert_jump_location in Hh. change (c_bp (push_op sc IBr)) with (c_bp sc) in Hh. rewrite C2, O2, Enth in Hh.
  set (s3 := emit _ (u32_bytes 0)) in Hh.
  assert (Wc : cwf nl sc) by (eapply cwf_same; [|exact W2]; unfold same_alloc; auto).
  assert (W3 : cwf nl s3) by (eapply cwf_same; [|exact Wc]; unfold same_alloc; cbn; tauto).
  unfold truncate in Hh.
  destruct (truncate_n_spec nl _ s3 s1 Hh W3) as ((T1 & T2 & T3) & Tn & Tc & W1 & Ln).
  set (x := cur_off s + Z.of_nat (length (copy_ret p)) + 1).
  assert (S1 : c_out s3 = c_out s ++ copy_ret p ++ IBr :: u32_bytes 0).
  { subst s3. cbn [emit set_out set_bp push_op c_out]. rewrite C1, O1, <- !app_assoc. reflexivity. }
  assert (S2 : c_bp s3 = update_nth (c_bp s) k (JUnknown (locs ++ [x]) (Some (PLocal 0)))).
  { subst s3. cbn [emit set_out set_bp c_bp push_op]. do 4 f_equal. unfold x, cur_off. cbn [c_out emit set_out push_op].
    rewrite C1, O1, !app_length. cbn [length]. lia. }
  assert (S3 : c_last s3 = None) by (subst s3; cbn; rewrite C7; exact O3).
  assert (S4 : c_next s3 = c_next s) by (subst s3; cbn; rewrite C4; exact En).
  assert (S5 : c_consts s3 = c_consts s) by (subst s3; cbn; rewrite C6; exact Ecs).
  rewrite S1 in T1. rewrite S2 in T2. rewrite S3 in T3. rewrite S4 in Tn. rewrite S5 in Tc. clearbody s3.
  assert (Est : c_stack s1 = []) by (destruct (c_stack s1); [reflexivity|cbn in Hl; rewrite Fh in Hl; discriminate]).
  destruct (all_locs_update (c_bp s) k locs (Some (PLocal 0)) x Enth) as (A & Bl & EA & EB). rewrite <- T2 in EB.
  assert (Ecur : cur_off s1 = x + 4).
  { unfold cur_off, x. rewrite T1, !app_length. cbn [length]. rewrite u32_bytes_length. unfold cur_off. lia. }
  assert (Hx : cur_off s <= x) by (unfold x; lia).
  exists p, (c_stack s2). splits; auto; try lia; try (destruct p; cbn in Pp |- *; auto; fail).
  - constructor; cbn [v_opds v_ctrls v_unreach]; auto.
    + eapply (bpwf_add s s1 x A Bl); auto; lia.
    + rewrite T2, Tn. apply frames_mark. eapply frames_update; eauto.
    + right. cbn [v_unreach v_ctrls v_opds length]. splits; auto; try discriminate. f_equal. lia.
  - cbn. discriminate.
  - eapply (ext_add s s1 _ x A Bl); eauto.
Qed.

(** the final [end] of a function with a result, reached by fall-through: the result is moved to register 0 *)
Lemma op_end_ret nl cx s v v1 s1 locs bp' :
  inv nl s v -> v_unreach v = None -> c_bp s = JUnknown locs (Some (PLocal 0)) :: bp' ->
  vstep cx v OEnd = Some v1 -> handle_opcode cx s v1 Reachable OEnd = Some s1 ->
  exists p, c_stack s = [p] /\ pwf nl s p /\ c_bp s1 = bp' /\ c_next s1 = c_next s /\ c_consts s1 = c_consts s /\ ext s s1
  /\ cur_off s1 = cur_off s + Z.of_nat (length (copy_ret p))
  /\ (forall loc, In loc locs -> resolved s1 loc (cur_off s1))
  /\ (forall j, (j < length (copy_ret p))%nat -> nth (length (c_out s) + j) (c_out s1) 0%N = nth j (copy_ret p) 0%N
                                               /\ ~ pending s1 (length (c_out s) + j)).
Proof.
  intros I Hu Ebp Hv Hh. destruct I as [W B L Fr Md].
  destruct (v_ctrls v) as [|f r] eqn:Ec; [cbn [vstep] in Hv; unfold v_pop_ctrl in Hv; rewrite Ec in Hv; discriminate|].
  destruct (target_label_any nl _ (f :: r) (c_bp s) O f locs (PLocal 0) Fr eq_refl ltac:(rewrite Ebp; reflexivity)) as (t0 & Fl & _).
  destruct (frames_cons _ _ _ _ _ Fr) as (Fh & Fe & _). rewrite Fl in Fe.
  rewrite (handle_end_val_r cx s v1 locs (PLocal 0) bp' Ebp) in Hh.
  assert (W0 : cwf nl (set_bp (set_last s None) bp')) by (eapply cwf_same; [|exact W]; unfold same_alloc; cbn; tauto).
  destruct (consume (set_bp (set_last s None) bp')) as [[p s2]|] eqn:Econs; [|discriminate].
  destruct (consume_spec nl _ p s2 Econs W0) as (Es & (O1 & O2 & O3) & En & Ecs & W2 & Pp).
  cbn [set_bp set_last c_out c_bp c_stack c_next c_reuse c_consts c_last] in Es, O1, O2, O3, En, Ecs.
  assert (H1 : v_opds v = 1%nat).
  { cbn [vstep] in Hv. unfold v_pop_ctrl in Hv. rewrite Ec, Fe in Hv. cbn [bt_arity v_popn] in Hv.
    unfold v_pop in Hv. rewrite Ec, Fh in Hv.
    destruct (Nat.eqb_spec (v_opds v) 0) as [E0|Hne]; [exfalso; rewrite Es in L; cbn in L; lia|].
    cbn [v_opds v_ctrls v_unreach] in Hv. destruct (Nat.eqb_spec (pred (v_opds v)) 0); [lia|discriminate]. }
  assert (Est : c_stack s2 = []).
  { rewrite Es in L. rewrite H1 in L. cbn in L. destruct (c_stack s2); [reflexivity|cbn in L; lia]. }
  cbv zeta in Hh. apply checked2 in Hh. destruct Hh as [Hs1 _]. symmetry in Hs1.
  destruct (copy_if_needed_out_ret s2 p) as (C1 & C2 & (C3 & C4 & C5 & C6) & C7).
  set (sc := copy_if_needed s2 p (PLocal 0)) in *.
  assert (T1 : c_bp (provide_existing sc (PLocal 0)) = bp') by (cbn; rewrite C2; exact O2).
  assert (T2 : c_last (provide_existing sc (PLocal 0)) = None) by (cbn; rewrite C7; exact O3).
  assert (T3 : c_out (provide_existing sc (PLocal 0)) = c_out s ++ copy_ret p) by (cbn; rewrite C1, O1; reflexivity).
  destruct (end_val_tail s _ s1 locs (Some (PLocal 0)) bp' (copy_ret p) B Ebp T1 T2 T3 Hs1) as (A1 & A2 & A3 & A4 & A5 & A6 & A7 & A8 & A9 & A10 & A11).
  exists p. rewrite Est in Es. splits; auto; try (destruct p; cbn in Pp |- *; auto; fail).
  - rewrite A3. cbn. rewrite C4. exact En.
  - rewrite A5. cbn. rewrite C6. exact Ecs.
Qed.

(** *** return with a value (function with a result) *)
Lemma last_label_pos nl B ctrls bp t : Forall2 (frame_ok nl B) ctrls bp -> 0 <= nl ->
  last (map (fun f => Some (vf_label f)) ctrls) None = Some (Some t) -> 0 < B.
Proof.
  induction 1 as [|f j r b Hf Hr IH]; intros Hnl Hl; [discriminate|].
  destruct r as [|g r']; cbn [map last] in Hl.
  - inversion Hl as [Fl]. destruct Hf as (_ & _ & [(locs & res & -> & _ & R)|(pos & _ & _ & L)]); [|congruence].
    unfold resv in R. rewrite Fl in R. destruct res as [[d|i|]|]; try contradiction; lia.
  - apply IH; auto.
Qed.

Lemma op_return_val nl cx s v v1 s1 t t' :
  inv nl s v -> v_unreach v = None -> cx_return cx = Some t' ->
  last (map (fun f => Some (vf_label f)) (v_ctrls v)) None = Some (Some t) ->
  vstep cx v (OBasic BReturn) = Some v1 -> handle_opcode cx s v1 Reachable (OBasic BReturn) = Some s1 ->
  exists p rest, c_stack s = p :: rest /\ pwf nl s p /\ 0 < c_next s
  /\ c_out s1 = c_out s ++ copy_ret p ++ [IReturn] /\ c_bp s1 = c_bp s
  /\ c_stack s1 = [] /\ c_next s1 = c_next s /\ c_consts s1 = c_consts s /\ c_last s1 = None
  /\ inv nl s1 v1 /\ v_unreach v1 <> None /\ ext s s1.
Proof.
  intros I Hu Hret Hne Hv Hh. destruct I as [W B L Fr Md].
  pose proof (last_label_pos _ _ _ _ _ Fr (proj1 (w_next _ _ W)) Hne) as Hpos.
  cbn [vstep] in Hv. rewrite Hne in Hv. cbn [bt_arity v_popn] in Hv.
  destruct (v_ctrls v) as [|f r] eqn:Ec; [unfold v_pop in Hv; rewrite Ec in Hv; discriminate|].
  assert (Hv1 : v1 = {| v_opds := vf_height f;
                        v_ctrls := {| vf_is_if := vf_is_if f; vf_label := vf_label f; vf_end := vf_end f;
                                      vf_height := vf_height f; vf_unreachable := true |} :: r;
                        v_unreach := Some (length r) |}).
  { unfold v_pop in Hv. rewrite Ec in Hv.
    destruct (v_opds v =? vf_height f)%nat; [destruct (vf_unreachable f); [|discriminate]|];
      unfold v_mark_unreachable in Hv; cbn [v_ctrls v_unreach] in Hv; rewrite ?Ec, Hu in Hv; inversion Hv; reflexivity. }
  subst v1. clear Hv.
  unfold handle_opcode in Hh. cbv beta iota zeta in Hh. apply checked in Hh. destruct Hh as [Hh Hl].
  rewrite Hret in Hh. cbn [v_opds] in Hh, Hl.
  assert (W0 : cwf nl (set_last s None)) by (eapply cwf_same; [|exact W]; unfold same_alloc; cbn; tauto).
  destruct (consume (set_last s None)) as [[p s2]|] eqn:Econs; [|discriminate].
  destruct (consume_spec nl _ p s2 Econs W0) as (Es & (O1 & O2 & O3) & En & Ecs & W2 & Pp).
  cbn [set_last c_out c_bp c_stack c_next c_reuse c_consts c_last] in Es, O1, O2, O3, En, Ecs.
  unfold RETURN_VALUE_LOCATION in Hh.
  destruct (copy_if_needed_out_ret s2 p) as (C1 & C2 & (C3 & C4 & C5 & C6) & C7).
  set (sc := copy_if_needed s2 p (PLocal 0)) in *. unfold truncate in Hh.
  set (s3 := push_op sc IReturn) in *.
  assert (W3 : cwf nl s3) by (eapply cwf_same; [|exact W2]; unfold same_alloc; cbn; auto).
  assert (S1 : c_out s3 = c_out s ++ copy_ret p ++ [IReturn]) by (subst s3; cbn; rewrite C1, O1, <- app_assoc; reflexivity).
  assert (S2 : c_bp s3 = c_bp s) by (subst s3; cbn; rewrite C2; exact O2).
  assert (S3 : c_last s3 = None) by (subst s3; cbn; rewrite C7; exact O3).
  assert (S4 : c_next s3 = c_next s) by (subst s3; cbn; rewrite C4; exact En).
  assert (S5 : c_consts s3 = c_consts s) by (subst s3; cbn; rewrite C6; exact Ecs).
  destruct (terminated_state nl s v f r s3 s1 _ W B Fr Ec S1 S2 S3 S4 S5 W3 Hh Hl) as (A1 & A2 & A3 & A4 & A5 & A6 & A7 & A8).
  exists p, (c_stack s2). splits; auto; try (destruct p; cbn in Pp |- *; auto; fail).
  cbn. discriminate.
Qed.

(** the final [end] of a function with a result when the body ends with a jump: nothing is moved *)
Lemma op_end_ret_term nl cx s v v1 s1 locs bp' :
  inv nl s v -> v_unreach v <> None -> c_bp s = JUnknown locs (Some (PLocal 0)) :: bp' ->
  vstep cx v OEnd = Some v1 -> handle_opcode cx s v1 (v_reachability v) OEnd = Some s1 ->
  c_bp s1 = bp' /\ c_next s1 = c_next s /\ c_consts s1 = c_consts s /\ ext s s1
  /\ cur_off s1 = cur_off s
  /\ (forall loc, In loc locs -> resolved s1 loc (cur_off s1)).
Proof.
  intros I Hu Ebp Hv Hh. destruct I as [W B L Fr Md].
  destruct Md as [Hm|(Hm & Hn & H0)]; [contradiction|].
  destruct (v_ctrls v) as [|f r] eqn:Ec; [contradiction|].
  destruct (target_label_any nl _ (f :: r) (c_bp s) O f locs (PLocal 0) Fr eq_refl ltac:(rewrite Ebp; reflexivity)) as (t0 & Fl & _).
  destruct (frames_cons _ _ _ _ _ Fr) as (Fh & Fe & _). rewrite Fl in Fe.
  assert (Hreach : v_reachability v = UnreachableInstruction) by (apply reach_term; [rewrite Ec; exact Hm|rewrite Ec; discriminate]).
  rewrite Hreach in Hh.
  assert (Hv1 : v_opds v1 = 1%nat).
  { cbn [vstep] in Hv. unfold v_pop_ctrl in Hv. rewrite Ec, Fe in Hv. cbn [bt_arity v_popn] in Hv.
    unfold v_pop in Hv. rewrite Ec, Fh in Hv. rewrite H0 in Hv. cbn [Nat.eqb] in Hv.
    destruct (vf_unreachable f); [|discriminate]. rewrite H0 in Hv. cbn [Nat.eqb] in Hv.
    cbn [bt_arity v_pushn v_push v_opds v_ctrls v_unreach] in Hv. inversion Hv. reflexivity. }
  assert (Est : c_stack s = []) by (destruct (c_stack s); [reflexivity|cbn in L; lia]).
  rewrite (handle_end_val_u cx s v1 locs (PLocal 0) bp' Ebp) in Hh by (rewrite Est, Hv1; cbn; discriminate).
  cbv zeta in Hh. apply checked2 in Hh. destruct Hh as [Hs1 _]. symmetry in Hs1.
  assert (T3 : c_out (provide_existing (set_bp (set_last s None) bp') (PLocal 0)) = c_out s ++ []) by (cbn; rewrite app_nil_r; reflexivity).
  destruct (end_val_tail s (provide_existing (set_bp (set_last s None) bp') (PLocal 0)) s1 locs (Some (PLocal 0)) bp' [] B Ebp eq_refl eq_refl T3 Hs1) as (A1 & A2 & A3 & A4 & A5 & A6 & A7 & A8 & A9 & A10 & A11).
  cbn [length] in A7. splits; auto. lia.
Qed.
