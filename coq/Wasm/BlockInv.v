(** * Stage B: structured control without loops and calls (block / if / else / end, br, br_if)
    on top of the straight-line simulation.  See [compile_block_correct] at the end for the
    exact statement and [blocks_ok] for the admitted constructs. *)
From Coq Require Import ZArith NArith List Lia Bool FMapPositive.
From CB Require Import Common.IntN Common.IntNProofs Wasm.Syntax Wasm.Opcodes Wasm.Sem Wasm.Compile Wasm.Machine
     Wasm.MachineLemmas Wasm.CompileLemmas Wasm.NumOpsProofs Wasm.SemProofs Wasm.StraightProofs Wasm.BlockProofs.
Import ListNotations.
Local Open Scope Z_scope.
Local Arguments i32_bytes : simpl never.
Local Arguments u32_bytes : simpl never.
Local Arguments u16_bytes : simpl never.

(** ** the fragment: result-less blocks entered at an empty operand stack *)
Definition frame_ok (f : vframe) (j : jump_target) : Prop :=
  vf_height f = 0%nat /\ vf_label f = None /\ vf_end f = None /\ exists locs, j = JUnknown locs None.

Definition vmode (v : vstate) : Prop :=
  v_unreach v = None \/
  (v_unreach v = Some (length (v_ctrls v) - 1)%nat /\ v_ctrls v <> [] /\ v_opds v = 0%nat).

Record inv (nl : Z) (s : cstate) (v : vstate) : Prop := {
  i_cwf : cwf nl s;
  i_bp : bpwf s;
  i_len : length (c_stack s) = v_opds v;
  i_frames : Forall2 frame_ok (v_ctrls v) (c_bp s);
  i_mode : vmode v
}.

Definition bp_sub (b b' : list jump_target) : Prop :=
  Forall2 (fun j j' => exists locs add, j = JUnknown locs None /\ j' = JUnknown (locs ++ add) None) b b'.

Lemma bp_sub_refl ctrls bp : Forall2 frame_ok ctrls bp -> bp_sub bp bp.
Proof.
  induction 1 as [|f j ? ? (_ & _ & _ & locs & ->)]; constructor; auto. exists locs, []. rewrite app_nil_r. auto.
Qed.
Lemma bp_sub_trans a b d : bp_sub a b -> bp_sub b d -> bp_sub a d.
Proof.
  intros H. revert d. induction H as [|j j' ? ? (locs & add & -> & ->)]; intros d H2; inversion H2 as [|? j'' ? ? (l2 & a2 & E & ->)]; subst.
  - constructor.
  - constructor; [|apply IHForall2; assumption].
    inversion E; subst. exists locs, (add ++ a2). rewrite app_assoc. auto.
Qed.
Lemma bp_sub_update ctrls : forall bp k locs x,
  Forall2 frame_ok ctrls bp -> nth_error bp k = Some (JUnknown locs None) ->
  bp_sub bp (update_nth bp k (JUnknown (locs ++ [x]) None)).
Proof.
  intros bp k locs x H. revert k. induction H as [|f j ? ? Hf]; intros [|k] E; cbn in E; try discriminate.
  - inversion E; subst. cbn. constructor; [exists locs, [x]; auto|eapply bp_sub_refl; eauto].
  - cbn. constructor; [|apply IHForall2; exact E]. destruct Hf as (_ & _ & _ & l0 & ->). exists l0, []. rewrite app_nil_r. auto.
Qed.
Lemma frames_update ctrls : forall bp k locs,
  Forall2 frame_ok ctrls bp -> Forall2 frame_ok ctrls (update_nth bp k (JUnknown locs None)).
Proof.
  intros bp k locs H. revert k. induction H as [|f j ? ? Hf]; intros [|k]; cbn; constructor; auto.
  destruct Hf as (A & B & C & _). repeat split; auto. eexists; eauto.
Qed.

Lemma truncate_n_spec nl : forall k s s', truncate_n k s = Some s' -> cwf nl s ->
  same_out s s' /\ c_next s' = c_next s /\ c_consts s' = c_consts s /\ cwf nl s'
  /\ length (c_stack s') = (length (c_stack s) - k)%nat.
Proof.
  induction k as [|k IH]; intros s s' H W; cbn in H.
  - inversion H; subst. unfold same_out. splits; auto. lia.
  - destruct (consume s) as [[p s1]|] eqn:E; [|discriminate].
    destruct (consume_spec nl s p s1 E W) as (Es & (O1 & O2 & O3) & En & Ec & W1 & _).
    destruct (IH s1 s' H W1) as ((P1 & P2 & P3) & Pn & Pc & W2 & Pl).
    unfold same_out. splits; try congruence. rewrite Pl, Es. cbn. lia.
Qed.

Lemma pres_pending_new s s1 x p :
  bpwf s -> (forall y, In y (all_locs (c_bp s1)) -> y = x \/ In y (all_locs (c_bp s))) ->
  (length (c_out s) <= p)%nat -> ~ in_win x p -> ~ pending s1 p.
Proof.
  intros W H Hp Hx (y & Hy & Hw). destruct (H y Hy) as [->|Hy']; [contradiction|].
  destruct (bw_range _ W y Hy'). unfold in_win, cur_off in *. lia.
Qed.

Lemma frames_nth ctrls bp k f : Forall2 frame_ok ctrls bp -> nth_error ctrls k = Some f ->
  vf_label f = None /\ exists locs, nth_error bp k = Some (JUnknown locs None).
Proof.
  intros H. revert k. induction H as [|g j ? ? Hf]; intros [|k] E; cbn in E; try discriminate.
  - inversion E; subst. destruct Hf as (_ & B & _ & locs & ->). split; auto. exists locs. reflexivity.
  - cbn. eauto.
Qed.

Lemma reach_of_none v : v_unreach v = None -> v_reachability v = Reachable.
Proof. intros H. unfold v_reachability. rewrite H. reflexivity. Qed.
Lemma reach_of_mode v : vmode v -> v_reachability v <> UnreachableFrame.
Proof.
  intros [H|(H & Hn & _)]; unfold v_reachability; rewrite H; [discriminate|].
  destruct (v_ctrls v) as [|f r]; [contradiction|]. cbn [length].
  destruct (Nat.ltb_spec (S (length r) - 1 + 1) (S (length r))); [lia|discriminate].
Qed.

Lemma checked2 v x s' :
  (if (length (c_stack x) =? v_opds v)%nat then Some x else None) = Some s' -> x = s' /\ length (c_stack s') = v_opds v.
Proof. destruct (Nat.eqb_spec (length (c_stack x)) (v_opds v)); [|discriminate]. intros H; inversion H; subst; auto. Qed.

(** *** block *)
Lemma op_block nl cx s v v1 s1 :
  inv nl s v -> v_unreach v = None -> v_opds v = 0%nat ->
  vstep cx v (OBlock None) = Some v1 -> handle_opcode cx s v1 Reachable (OBlock None) = Some s1 ->
  c_out s1 = c_out s /\ c_bp s1 = JUnknown [] None :: c_bp s /\ same_alloc s s1 /\ c_last s1 = None
  /\ inv nl s1 v1 /\ v_unreach v1 = None.
Proof.
  intros I Hu H0 Hv Hh. cbn [vstep] in Hv. inversion Hv; subst v1; clear Hv.
  unfold handle_opcode in Hh. cbv beta iota zeta in Hh. apply checked2 in Hh. destruct Hh as [Hh Hl].
  subst s1. cbn [set_bp set_last c_out c_bp c_stack c_next c_reuse c_consts c_last v_push_ctrl v_unreach v_opds v_ctrls] in *.
  splits; auto; try (unfold same_alloc; cbn; tauto).
  destruct I as [W B L Fr Md]. constructor; cbn; auto.
  - eapply cwf_same; [|exact W]. unfold same_alloc; cbn; tauto.
  - destruct B as [B1 B2 B3]. constructor; cbn; auto.
  - constructor; auto. repeat split; cbn; auto. eexists; eauto.
  - left. exact Hu.
Qed.

Lemma frames_cons f r bp : Forall2 frame_ok (f :: r) bp ->
  vf_height f = 0%nat /\ vf_label f = None /\ vf_end f = None /\
  exists locs bp', bp = JUnknown locs None :: bp' /\ Forall2 frame_ok r bp'.
Proof. intros H. inversion H as [|? j ? bp' (A & B & C & locs & ->) Fr']; subst. splits; auto. exists locs, bp'. auto. Qed.

(** *** if *)
Lemma op_if nl cx s v v1 s1 :
  inv nl s v -> v_unreach v = None -> v_opds v = 1%nat ->
  vstep cx v (OIf None) = Some v1 -> handle_opcode cx s v1 Reachable (OIf None) = Some s1 ->
  exists p, c_stack s = [p] /\ pwf nl s p
  /\ c_out s1 = c_out s ++ IIf :: i32_bytes (provider_idx p) ++ u32_bytes 0
  /\ c_bp s1 = JUnknown [cur_off s + 5] None :: c_bp s /\ c_stack s1 = [] /\ c_next s1 = c_next s
  /\ c_consts s1 = c_consts s /\ c_last s1 = None /\ inv nl s1 v1 /\ v_unreach v1 = None /\ ext s s1.
Proof.
  intros I Hu H1 Hv Hh. destruct I as [W B L Fr Md].
  cbn [vstep] in Hv. unfold v_pop in Hv. destruct (v_ctrls v) as [|f r] eqn:Ec; [discriminate|].
  destruct (frames_cons _ _ _ Fr) as (Fh & _).
  rewrite H1, Fh in Hv. cbn in Hv. inversion Hv; subst v1; clear Hv.
  unfold handle_opcode in Hh. cbv beta iota zeta in Hh. apply checked in Hh. destruct Hh as [Hh Hl].
  unfold push_consume in Hh.
  assert (W0 : cwf nl (push_op (set_last s None) IIf)) by (eapply cwf_same; [|exact W]; unfold same_alloc; cbn; tauto).
  destruct (consume (push_op (set_last s None) IIf)) as [[p s2]|] eqn:Econs; [|discriminate].
  destruct (consume_spec nl _ p s2 Econs W0) as (Es & (O1 & O2 & O3) & En & Ecs & W2 & Pp).
  cbn [push_op emit set_out set_last c_out c_bp c_stack c_next c_reuse c_consts c_last] in Es, O1, O2, O3, En, Ecs.
  assert (Est : c_stack s2 = []).
  { rewrite Es in L. rewrite H1 in L. cbn in L. destruct (c_stack s2); [reflexivity|cbn in L; lia]. }
  assert (Eoff : cur_off (push_loc s2 p) = cur_off s + 5).
  { unfold cur_off, push_loc, emit. cbn [set_out c_out]. rewrite O1, !app_length, i32_bytes_length. cbn [length]. lia. }
  rewrite Eoff in Hh.
  assert (F1 : c_out s1 = c_out s ++ IIf :: i32_bytes (provider_idx p) ++ u32_bytes 0).
  { inversion Hh; subst s1. cbn. rewrite O1, <- !app_assoc. reflexivity. }
  assert (F2 : c_bp s1 = JUnknown [cur_off s + 5] None :: c_bp s) by (inversion Hh; subst s1; cbn; rewrite O2; reflexivity).
  assert (F3 : c_stack s1 = []) by (inversion Hh; subst s1; cbn; exact Est).
  assert (F4 : c_next s1 = c_next s) by (inversion Hh; subst s1; cbn; exact En).
  assert (F5 : c_consts s1 = c_consts s) by (inversion Hh; subst s1; cbn; exact Ecs).
  assert (F6 : c_last s1 = None) by (inversion Hh; subst s1; cbn; exact O3).
  assert (F7 : c_reuse s1 = c_reuse s2) by (inversion Hh; subst s1; cbn; reflexivity).
  clear Hh. exists p. rewrite Est in Es.
  assert (Eco : cur_off s1 = cur_off s + 9).
  { unfold cur_off. rewrite F1, !app_length. cbn [length]. rewrite app_length, i32_bytes_length, u32_bytes_length. lia. }
  assert (Eal : all_locs (c_bp s1) = [] ++ (cur_off s + 5) :: all_locs (c_bp s)) by (rewrite F2; reflexivity).
  splits; auto.
  - constructor.
    + destruct W2 as [A1 A2 A3 A4 A5]. constructor; try rewrite F3; try rewrite F4; try rewrite F5; try rewrite F7; try rewrite <- En; try rewrite <- Ecs; auto.
    + eapply (bpwf_add s s1 (cur_off s + 5) [] (all_locs (c_bp s))); auto; try lia. reflexivity.
    + rewrite F3. reflexivity.
    + rewrite F2. constructor; [repeat split; cbn; auto; eexists; eauto|exact Fr].
    + left. exact Hu.
  - eapply (ext_add s s1 _ (cur_off s + 5) [] (all_locs (c_bp s))); eauto; try lia. reflexivity.
Qed.
