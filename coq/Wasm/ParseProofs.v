(** * Wasm/ParseProofs — the parser model ([Wasm/Parse.v]) is total (fuel is never exhausted),
    allocates at most linearly in the input, and accepts only skeletons whose non-custom
    sections have strictly increasing ids. *)
From Coq Require Import ZArith NArith List Bool Arith Lia Sorted.
From CB Require Import Common.IntN Wasm.Syntax Wasm.Opcodes Gen.Limits Wasm.Validate Wasm.Leb128 Wasm.Leb128Proofs
  Wasm.Parse.
Import ListNotations.
Local Open Scope N_scope.

Notation L x := (N.of_nat (length x)).

(** [good K p]: [p] never runs out of fuel, returns a suffix of its input and allocates at most
    [K] bytes per consumed input byte.  [strict p]: success consumes at least one byte. *)
Definition good {A} (K : N) (p : parser A) : Prop :=
  forall bs, p bs <> PFuel /\
    forall x r a, p bs = POk x r a -> (length r <= length bs)%nat /\ a <= K * (L bs - L r).
Definition strict {A} (p : parser A) : Prop :=
  forall bs x r a, p bs = POk x r a -> (length r < length bs)%nat.

Lemma good_mono {A} K K' (p : parser A) : good K p -> K <= K' -> good K' p.
Proof.
  intros G HK bs. destruct (G bs) as [G1 G2]. split; auto. intros x r a E. destruct (G2 _ _ _ E) as [H1 H2].
  split; auto. etransitivity; [exact H2|]. apply N.mul_le_mono_r. exact HK.
Qed.
Lemma good_ret {A} K (x : A) : good K (pret x).
Proof. intros bs. split; [discriminate|]. intros y r a E. inversion E; subst. split; [lia|lia]. Qed.
Lemma good_fail {A} K e : good K (@pfail A e).
Proof. intros bs. split; discriminate. Qed.
Lemma good_guard K b e : good K (pguard b e).
Proof. destruct b; [apply good_ret|apply good_fail]. Qed.

Lemma good_bind {A B} K (p : parser A) (f : A -> parser B) :
  good K p -> (forall x, good K (f x)) -> good K (pbind p f).
Proof.
  intros GP GF bs. unfold pbind. destruct (GP bs) as [P1 P2].
  destruct (p bs) as [x r a| |] eqn:EP; [|split; discriminate|congruence].
  destruct (P2 _ _ _ eq_refl) as [H1 H2]. destruct (GF x r) as [F1 F2].
  destruct (f x r) as [y r' a'| |] eqn:EF; [|split; discriminate|congruence].
  destruct (F2 _ _ _ eq_refl) as [H3 H4]. split; [discriminate|].
  intros y0 r0 a0 E. inversion E; subst. split; [lia|].
  replace (L bs - L r0) with ((L bs - L r) + (L r - L r0)) by lia. rewrite N.mul_add_distr_l. lia.
Qed.
Lemma strict_bind_l {A B} K (p : parser A) (f : A -> parser B) :
  strict p -> (forall x, good K (f x)) -> strict (pbind p f).
Proof.
  intros SP GF bs y r a. unfold pbind. destruct (p bs) as [x r1 a1| |] eqn:EP; try discriminate.
  destruct (f x r1) as [y1 r2 a2| |] eqn:EF; try discriminate. intros E; inversion E; subst.
  pose proof (SP _ _ _ _ EP). destruct (GF x r1) as [_ F2]. destruct (F2 _ _ _ EF). lia.
Qed.
Lemma strict_bind_r {A B} K (p : parser A) (f : A -> parser B) :
  good K p -> (forall x, strict (f x)) -> strict (pbind p f).
Proof.
  intros GP SF bs y r a. unfold pbind. destruct (p bs) as [x r1 a1| |] eqn:EP; try discriminate.
  destruct (f x r1) as [y1 r2 a2| |] eqn:EF; try discriminate. intros E; inversion E; subst.
  destruct (GP bs) as [_ P2]. destruct (P2 _ _ _ EP). pose proof (SF _ _ _ _ _ EF). lia.
Qed.

Lemma good_byte K : good K pbyte.
Proof. intros [|b r]; cbn; split; try discriminate. intros x r0 a E; inversion E; subst. cbn. split; lia. Qed.
Lemma strict_byte : strict pbyte.
Proof. intros [|b r] x r0 a; cbn; intros E; inversion E; subst. cbn. lia. Qed.
Lemma good_expect K b : good K (pexpect b).
Proof. apply good_bind; [apply good_byte|intros; apply good_guard]. Qed.
Lemma strict_expect b : strict (pexpect b).
Proof. eapply strict_bind_l; [apply strict_byte|intros; apply (good_guard 0)]. Qed.

Lemma of_dec_good {A} K (d : list N -> option (A * list N)) :
  (forall bs v r, d bs = Some (v, r) -> exists pre, bs = pre ++ r /\ (1 <= length pre)%nat) ->
  good K (of_dec d) /\ strict (of_dec d).
Proof.
  intros H. split.
  - intros bs. unfold of_dec. destruct (d bs) as [[v r]|] eqn:E; split; try discriminate.
    intros x r0 a E0; inversion E0; subst. destruct (H _ _ _ E) as (pre & -> & HL). rewrite app_length. split; lia.
  - intros bs x r a. unfold of_dec. destruct (d bs) as [[v r0]|] eqn:E; [|discriminate].
    intros E0; inversion E0; subst. destruct (H _ _ _ E) as (pre & -> & HL). rewrite app_length. lia.
Qed.
Lemma u32_dec bs v r : decode_u32 bs = Some (v, r) -> exists pre, bs = pre ++ r /\ (1 <= length pre)%nat.
Proof. intros E. destruct (decode_u32_bounded _ _ _ E) as (_ & pre & -> & H). exists pre. split; auto. lia. Qed.
Lemma s32_dec bs v r : decode_s32 bs = Some (v, r) -> exists pre, bs = pre ++ r /\ (1 <= length pre)%nat.
Proof. intros E. destruct (decode_s32_bounded _ _ _ E) as (_ & pre & -> & H). exists pre. split; auto. lia. Qed.
Lemma s64_dec bs v r : decode_s64 bs = Some (v, r) -> exists pre, bs = pre ++ r /\ (1 <= length pre)%nat.
Proof. intros E. destruct (decode_s64_bounded _ _ _ E) as (pre & -> & H). exists pre. split; auto. lia. Qed.
Lemma good_u32 K : good K pu32. Proof. apply of_dec_good, u32_dec. Qed.
Lemma strict_u32 : strict pu32. Proof. apply (of_dec_good 0), u32_dec. Qed.
Lemma good_s32 K : good K ps32. Proof. apply of_dec_good, s32_dec. Qed.
Lemma good_s64 K : good K ps64. Proof. apply of_dec_good, s64_dec. Qed.

Lemma good_take K n : good K (ptake n).
Proof.
  intros bs. unfold ptake. destruct (n <=? L bs) eqn:E; split; try discriminate.
  intros x r a E0; inversion E0; subst. rewrite skipn_length. split; lia.
Qed.
Lemma good_pbytes K : good K pbytes.
Proof. apply good_bind; [apply good_u32|intros; apply good_take]. Qed.
Lemma strict_pbytes : strict pbytes.
Proof. eapply strict_bind_l; [apply strict_u32|intros; apply (good_take 0)]. Qed.

(** ** vectors *)
Lemma prealloc_le esize n : prealloc esize n <= MAX_PREALLOCATED_BYTES.
Proof.
  unfold prealloc. destruct (N.eq_dec esize 0) as [->|NZ]; [rewrite N.mul_0_r; apply N.le_0_l|].
  etransitivity; [apply N.mul_le_mono_r, N.le_min_r|].
  replace (N.max 1 esize) with esize by lia. rewrite N.mul_comm. apply N.mul_div_le. exact NZ.
Qed.

Lemma pvec_go_good {A} Ki (item : parser A) esize :
  good Ki item -> strict item ->
  forall fuel count bs, (length bs < fuel)%nat ->
    pvec_go item esize fuel count bs <> PFuel /\
    forall xs r a, pvec_go item esize fuel count bs = POk xs r a ->
      (length r <= length bs)%nat /\ a <= (Ki + esize) * (L bs - L r).
Proof.
  intros GI SI. induction fuel as [|f IH]; intros count bs HL; [lia|].
  cbn [pvec_go]. destruct (count =? 0).
  { split; [discriminate|]. intros xs r a E; inversion E; subst. split; lia. }
  destruct (GI bs) as [I1 I2]. destruct (item bs) as [x r1 a1| |] eqn:EI; [|split; discriminate|congruence].
  destruct (I2 _ _ _ eq_refl) as [H1 H2]. pose proof (SI _ _ _ _ EI) as HS.
  destruct (IH (count - 1) r1 ltac:(lia)) as [V1 V2].
  destruct (pvec_go item esize f (count - 1) r1) as [xs r2 a2| |] eqn:EV; [|split; discriminate|congruence].
  destruct (V2 _ _ _ eq_refl) as [H3 H4]. split; [discriminate|].
  intros xs0 r0 a0 E; inversion E; subst. split; [lia|].
  replace (L bs - L r0) with ((L bs - L r1) + (L r1 - L r0)) by lia.
  assert (1 <= L bs - L r1) by lia. nia.
Qed.

Lemma good_pvec {A} Ki K (item : parser A) esize :
  good Ki item -> strict item -> MAX_PREALLOCATED_BYTES <= K -> Ki + esize <= K ->
  good K (pvec item esize) /\ strict (pvec item esize).
Proof.
  intros GI SI HM HK. split.
  - intros bs. unfold pvec. destruct (good_u32 0 bs) as [U1 U2].
    destruct (pu32 bs) as [n r a0| |] eqn:EU; [|split; discriminate|congruence].
    destruct (U2 _ _ _ eq_refl) as [H1 H2]. pose proof (strict_u32 _ _ _ _ EU) as HS.
    destruct (pvec_go_good Ki item esize GI SI (S (length r)) n r ltac:(lia)) as [V1 V2].
    destruct (pvec_go item esize (S (length r)) n r) as [xs r' a| |] eqn:EV; [|split; discriminate|congruence].
    destruct (V2 _ _ _ eq_refl) as [H3 H4]. split; [discriminate|].
    intros xs0 r0 a1 E; inversion E; subst. split; [lia|].
    pose proof (prealloc_le esize n). assert (a0 = 0) by lia. subst a0.
    replace (L bs - L r0) with ((L bs - L r) + (L r - L r0)) by lia.
    assert (1 <= L bs - L r) by lia. nia.
  - intros bs xs r a. unfold pvec. destruct (pu32 bs) as [n r1 a0| |] eqn:EU; try discriminate.
    pose proof (strict_u32 _ _ _ _ EU) as HS.
    destruct (pvec_go_good Ki item esize GI SI (S (length r1)) n r1 ltac:(lia)) as [V1 V2].
    destruct (pvec_go item esize (S (length r1)) n r1) as [xs1 r' a1| |] eqn:EV; try discriminate.
    intros E; inversion E; subst. destruct (V2 _ _ _ eq_refl). lia.
Qed.

(** ** the item parsers *)
Definition KA : N := MAX_PREALLOCATED_BYTES.
Definition KB : N := MAX_PREALLOCATED_BYTES + esz_max.
Lemma KA_big : esz_max <= KA /\ 1 <= KA /\ KA <= KB.
Proof. vm_compute. repeat split; discriminate. Qed.

Ltac good_step :=
  first
    [ apply good_ret | apply good_fail | apply good_guard | apply good_byte | apply good_expect
    | apply good_u32 | apply good_s32 | apply good_s64 | apply good_take | apply good_pbytes
    | match goal with |- good _ (pbind _ _) => apply good_bind; [|intros] end
    | match goal with |- good _ (if ?c then _ else _) => destruct c end
    | match goal with |- good _ (match ?x with _ => _ end) => destruct x end ].
Ltac good_auto := repeat good_step.

Lemma good_name K : 1 <= K -> good K pname.
Proof.
  intros HK bs. unfold pname. destruct (good_pbytes 0 bs) as [B1 B2].
  destruct (pbytes bs) as [nm r a| |] eqn:EB; [|split; discriminate|congruence].
  destruct (B2 _ _ _ eq_refl) as [H1 H2].
  destruct ((L nm <=? MAX_NAME_SIZE) && forallb (fun b => b <? 128) nm); split; try discriminate.
  intros x r0 a0 E; inversion E; subst. split; [lia|].
  (* the name is a prefix of what was consumed after the length *)
  unfold pbytes, pbind in EB. destruct (pu32 bs) as [n r1 a1| |] eqn:EU; try discriminate.
  unfold ptake in EB. destruct (n <=? L r1) eqn:EN; [|discriminate]. inversion EB; subst.
  rewrite firstn_length, skipn_length. apply N.leb_le in EN.
  pose proof (strict_u32 _ _ _ _ EU). assert (a1 = 0) by (destruct (good_u32 0 bs) as [_ U]; destruct (U _ _ _ EU); lia).
  subst. rewrite skipn_length in *. nia.
Qed.
Lemma strict_name : strict pname.
Proof.
  intros bs x r a. unfold pname. destruct (pbytes bs) as [nm r1 a1| |] eqn:EB; try discriminate.
  destruct (_ && _); [|discriminate]. intros E; inversion E; subst. eapply strict_pbytes; eauto.
Qed.

Lemma good_valtype K : good K pvaltype. Proof. unfold pvaltype. good_auto. Qed.
Lemma strict_valtype : strict pvaltype.
Proof. eapply strict_bind_l; [apply strict_byte|intros; instantiate (1 := 0); good_auto]. Qed.
Lemma good_blocktype K : good K pblocktype. Proof. unfold pblocktype. good_auto. Qed.
Lemma good_limits K : good K plimits. Proof. unfold plimits. good_auto. Qed.
Lemma good_local K : good K plocal. Proof. unfold plocal. good_auto; apply good_valtype. Qed.
Lemma strict_local : strict plocal.
Proof. eapply strict_bind_l; [apply strict_u32|intros; instantiate (1 := 0); good_auto; apply good_valtype]. Qed.

Lemma good_vec_valtype : good KA (pvec pvaltype esz_valtype).
Proof. destruct KA_big as (A & B & C). apply (good_pvec 0); [apply good_valtype|apply strict_valtype|apply N.le_refl|]. vm_compute. discriminate. Qed.
Lemma good_functype : good KA pfunctype.
Proof.
  unfold pfunctype. apply good_bind; [apply good_expect|intros _].
  apply good_bind; [apply good_vec_valtype|intros ps]. apply good_bind; [apply good_vec_valtype|intros rs].
  good_auto.
Qed.
Lemma strict_functype : strict pfunctype.
Proof.
  eapply strict_bind_l; [apply strict_expect|intros _].
  apply good_bind; [apply good_vec_valtype|intros ps]. apply good_bind; [apply good_vec_valtype|intros rs]. good_auto.
Qed.
Lemma good_tabletype K : good K ptabletype. Proof. unfold ptabletype. good_auto. apply good_limits. Qed.
Lemma strict_tabletype : strict ptabletype.
Proof. eapply strict_bind_l; [apply strict_expect|intros; instantiate (1 := 0); good_auto; apply good_limits]. Qed.
Lemma good_memtype K : good K pmemtype. Proof. unfold pmemtype. good_auto; apply good_limits. Qed.
Lemma strict_limits : strict plimits.
Proof. eapply strict_bind_l; [apply strict_byte|intros; instantiate (1 := 0); good_auto]. Qed.
Lemma strict_memtype : strict pmemtype.
Proof. eapply strict_bind_l; [apply strict_limits|intros; instantiate (1 := 0); good_auto]. Qed.

Lemma good_vec_u32 : good KA (pvec pu32 esz_u32).
Proof. apply (good_pvec 0); [apply good_u32|apply strict_u32|apply N.le_refl|vm_compute; discriminate]. Qed.
Lemma strict_vec_u32 : strict (pvec pu32 esz_u32).
Proof. apply (good_pvec 0 KA); [apply good_u32|apply strict_u32|apply N.le_refl|vm_compute; discriminate]. Qed.

Lemma good_decode cap sx : good KA (decode_opcode cap sx).
Proof.
  unfold decode_opcode, pmemarg. apply good_bind; [apply good_byte|intros b].
  repeat match goal with
         | |- good _ (if ?c then _ else _) => destruct c
         end;
  repeat first
    [ apply good_ret | apply good_fail | apply good_blocktype | apply good_vec_u32
    | apply good_u32 | apply good_s32 | apply good_s64 | apply good_expect
    | match goal with |- good _ (pbind _ _) => apply good_bind; [|intros] end
    | match goal with |- good _ (match ?x with _ => _ end) => destruct x end ].
Qed.
Lemma strict_decode cap sx : strict (decode_opcode cap sx).
Proof.
  unfold decode_opcode. eapply strict_bind_l; [apply strict_byte|intros b].
  pose proof (good_decode cap sx) as G. unfold decode_opcode in G.
  (* the continuation of [good_decode] after the first byte *)
  unfold pmemarg.
  repeat match goal with
         | |- good _ (if ?c then _ else _) => destruct c
         end;
  repeat first
    [ apply good_ret | apply good_fail | apply good_blocktype | apply good_vec_u32
    | apply good_u32 | apply good_s32 | apply good_s64 | apply good_expect
    | match goal with |- good _ (pbind _ _) => apply good_bind; [|intros] end
    | match goal with |- good _ (match ?x with _ => _ end) => destruct x end ].
Qed.

Lemma pops_good cap sx : forall fuel bs, (length bs < fuel)%nat ->
  pops cap sx fuel bs <> PFuel /\
  forall os r a, pops cap sx fuel bs = POk os r a -> r = [] /\ a <= (KA + esz_big) * L bs.
Proof.
  induction fuel as [|f IH]; intros bs HL; [lia|]. cbn [pops]. destruct bs as [|b0 bt].
  { split; [discriminate|]. intros os r a E; inversion E; subst. split; [reflexivity|lia]. }
  set (bs := b0 :: bt) in *.
  destruct (good_decode cap sx bs) as [D1 D2].
  destruct (decode_opcode cap sx bs) as [o r1 a1| |] eqn:ED; [|split; discriminate|congruence].
  destruct (D2 _ _ _ eq_refl) as [H1 H2]. pose proof (strict_decode cap sx _ _ _ _ ED) as HS.
  destruct (IH r1 ltac:(lia)) as [P1 P2].
  destruct (pops cap sx f r1) as [os r2 a2| |] eqn:EP; [|split; discriminate|congruence].
  destruct (P2 _ _ _ eq_refl) as [-> H4]. split; [discriminate|].
  intros os0 r0 a0 E; inversion E; subst. split; [reflexivity|].
  assert (1 <= L bs - L r1) by lia. replace (L bs) with ((L bs - L r1) + L r1) by lia. nia.
Qed.

Lemma good_constexpr cap sx ty gs : good KA (pconstexpr cap sx ty gs).
Proof.
  unfold pconstexpr. apply good_bind; [apply good_decode|intros o].
  apply good_bind; [|intros; apply good_bind; [apply good_expect|intros; apply good_ret]].
  destruct (fst o) as [| | | | |b]; try apply good_fail. destruct b; try apply good_fail.
  - destruct gs as [gs|]; [|apply good_fail]. destruct (nth_error gs i) as [[[t mu] z]|]; [|apply good_fail].
    destruct (valtype_eqb t ty && negb mu); [apply good_ret|apply good_fail].
  - destruct (valtype_eqb t ty); [apply good_ret|apply good_fail].
Qed.
Lemma strict_constexpr cap sx ty gs : strict (pconstexpr cap sx ty gs).
Proof.
  eapply (strict_bind_l KA); [apply strict_decode|intros o].
  apply good_bind; [|intros; apply good_bind; [apply good_expect|intros; apply good_ret]].
  destruct (fst o) as [| | | | |b]; try apply good_fail. destruct b; try apply good_fail.
  - destruct gs as [gs|]; [|apply good_fail]. destruct (nth_error gs i) as [[[t mu] z]|]; [|apply good_fail].
    destruct (valtype_eqb t ty && negb mu); [apply good_ret|apply good_fail].
  - destruct (valtype_eqb t ty); [apply good_ret|apply good_fail].
Qed.

Lemma good_import : good KA pimport_p.
Proof.
  destruct KA_big as (_ & H1 & _). unfold pimport_p.
  apply good_bind; [apply good_name; exact H1|intros m]. apply good_bind; [apply good_name; exact H1|intros n].
  good_auto.
Qed.
Lemma strict_import : strict pimport_p.
Proof.
  destruct KA_big as (_ & H1 & _). eapply (strict_bind_l KA); [apply strict_name|intros m].
  apply good_bind; [apply good_name; exact H1|intros n]. good_auto.
Qed.
Lemma good_export : good KA pexport_p.
Proof.
  destruct KA_big as (_ & H1 & _). unfold pexport_p.
  apply good_bind; [apply good_name; exact H1|intros m]. good_auto.
Qed.
Lemma strict_export : strict pexport_p.
Proof.
  destruct KA_big as (_ & H1 & _). eapply (strict_bind_l KA); [apply strict_name|intros m]. good_auto.
Qed.
Lemma good_global cap sx : good KA (pglobal cap sx).
Proof.
  unfold pglobal. apply good_bind; [apply good_valtype|intros t]. apply good_bind; [apply good_byte|intros mu].
  apply good_bind; [apply good_guard|intros _]. apply good_bind; [apply good_constexpr|intros v]. apply good_ret.
Qed.
Lemma strict_global cap sx : strict (pglobal cap sx).
Proof.
  eapply (strict_bind_l KA); [apply strict_valtype|intros t]. apply good_bind; [apply good_byte|intros mu].
  apply good_bind; [apply good_guard|intros _]. apply good_bind; [apply good_constexpr|intros v]. apply good_ret.
Qed.
Lemma good_element cap sx gs : good KA (pelement cap sx gs).
Proof.
  unfold pelement. apply good_bind; [apply good_u32|intros ti]. apply good_bind; [apply good_guard|intros _].
  apply good_bind; [apply good_constexpr|intros off]. apply good_bind; [apply good_vec_u32|intros]. apply good_ret.
Qed.
Lemma strict_element cap sx gs : strict (pelement cap sx gs).
Proof.
  eapply (strict_bind_l KA); [apply strict_u32|intros ti]. apply good_bind; [apply good_guard|intros _].
  apply good_bind; [apply good_constexpr|intros off]. apply good_bind; [apply good_vec_u32|intros]. apply good_ret.
Qed.
Lemma good_vec_byte : good KA (pvec pbyte esz_byte).
Proof. apply (good_pvec 0); [apply good_byte|apply strict_byte|apply N.le_refl|vm_compute; discriminate]. Qed.
Lemma good_data cap sx gs : good KA (pdata cap sx gs).
Proof.
  unfold pdata. apply good_bind; [apply good_u32|intros ti]. apply good_bind; [apply good_guard|intros _].
  apply good_bind; [apply good_constexpr|intros off]. apply good_bind; [apply good_vec_byte|intros]. apply good_ret.
Qed.
Lemma strict_data cap sx gs : strict (pdata cap sx gs).
Proof.
  eapply (strict_bind_l KA); [apply strict_u32|intros ti]. apply good_bind; [apply good_guard|intros _].
  apply good_bind; [apply good_constexpr|intros off]. apply good_bind; [apply good_vec_byte|intros]. apply good_ret.
Qed.
Lemma good_start K : good K pstart.
Proof. unfold pstart. apply good_bind; [apply good_u32|intros; apply good_fail]. Qed.

Lemma good_vec_local : good KA (pvec plocal esz_local) /\ strict (pvec plocal esz_local).
Proof. apply (good_pvec 0); [apply good_local|apply strict_local|apply N.le_refl|vm_compute; discriminate]. Qed.

(** a code entry: never out of fuel, consumes at least one byte, allocates within [KA] per byte,
    and its instruction bytes are part of what it consumed *)
Lemma pcode_good : good KA pcode /\ strict pcode /\
  forall bs ls body r a, pcode bs = POk (ls, body) r a -> (length body + length r <= length bs)%nat.
Proof.
  destruct good_vec_local as [GL SL].
  assert (M : forall bs, pcode bs <> PFuel /\ forall ls body r a, pcode bs = POk (ls, body) r a ->
             (length r < length bs)%nat /\ a <= KA * (L bs - L r) /\ (length body + length r <= length bs)%nat).
  { intros bs. unfold pcode. destruct (good_u32 0 bs) as [U1 U2].
    destruct (pu32 bs) as [size r1 a0| |] eqn:EU; [|split; discriminate|congruence].
    destruct (U2 _ _ _ eq_refl) as [H1 H2]. pose proof (strict_u32 _ _ _ _ EU) as HS.
    destruct (GL r1) as [V1 V2]. destruct (pvec plocal esz_local r1) as [ls r2 a1| |] eqn:EV; [|split; discriminate|congruence].
    destruct (V2 _ _ _ eq_refl) as [H3 H4].
    destruct (size <? N.of_nat (length r1 - length r2)); [split; discriminate|].
    unfold ptake. destruct (size - N.of_nat (length r1 - length r2) <=? L r2) eqn:ET; [|split; discriminate].
    split; [discriminate|]. intros ls0 body r a E; inversion E; subst.
    rewrite firstn_length, skipn_length. apply N.leb_le in ET. split; [lia|]. split; [|lia].
    assert (a0 = 0) by lia. subst a0. cbn [N.add].
    etransitivity; [exact H4|]. apply N.mul_le_mono_l. lia. }
  split; [|split].
  - intros bs. destruct (M bs) as [M1 M2]. split; auto. intros [ls body] r a E. destruct (M2 _ _ _ _ E) as (A & B & C). split; [lia|auto].
  - intros bs [ls body] r a E. destruct (M bs) as [_ M2]. destruct (M2 _ _ _ _ E) as (A & _). exact A.
  - intros bs ls body r a E. destruct (M bs) as [_ M2]. destruct (M2 _ _ _ _ E) as (_ & _ & C). exact C.
Qed.

(** ** the skeleton *)
Definition sec_id (s : section) : N := fst (fst s).
Definition sec_body (s : section) : list N := snd (fst s).
Definition noncustom_ids (ss : list section) : list N :=
  filter (fun i => negb (i =? 0)) (map sec_id ss).
Fixpoint sum_bodies (ss : list section) : nat :=
  match ss with [] => O | s :: r => (length (sec_body s) + sum_bodies r)%nat end.

Lemma psection_good bs : psection bs <> PFuel /\
  forall s r a, psection bs = POk s r a ->
    (length (sec_body s) + length r < length bs)%nat /\ a = 0 /\ sec_id s <= 11.
Proof.
  unfold psection. destruct bs as [|id r0]; cbn [pbyte]; [split; discriminate|].
  destruct (11 <? id) eqn:EI; [split; discriminate|]. apply N.ltb_ge in EI.
  destruct (good_pbytes 0 r0) as [B1 B2].
  destruct (pbytes r0) as [body r1 a1| |] eqn:EB; [|split; discriminate|congruence].
  split; [discriminate|]. intros s r a E; inversion E; subst. cbn [sec_body sec_id fst snd].
  split; [|split; auto].
  unfold pbytes, pbind in EB. destruct (pu32 r0) as [n r2 a2| |] eqn:EU; try discriminate.
  pose proof (strict_u32 _ _ _ _ EU). unfold ptake in EB. destruct (n <=? L r2) eqn:EN; [|discriminate].
  inversion EB; subst. apply N.leb_le in EN. rewrite firstn_length, skipn_length. cbn [length]. lia.
Qed.

Lemma pskel_go_good : forall fuel last bs, (length bs < fuel)%nat ->
  pskel_go fuel last bs <> PFuel /\
  forall ss r a, pskel_go fuel last bs = POk ss r a ->
    r = [] /\ a = 0 /\ (sum_bodies ss <= length bs)%nat /\
    StronglySorted N.lt (noncustom_ids ss) /\ Forall (fun i => last < i) (noncustom_ids ss).
Proof.
  induction fuel as [|f IH]; intros last bs HL; [lia|]. cbn [pskel_go]. destruct bs as [|b0 bt].
  { split; [discriminate|]. intros ss r a E; inversion E; subst. cbn. repeat split; auto; constructor. }
  set (bs := b0 :: bt) in *.
  destruct (psection_good bs) as [S1 S2].
  destruct (psection bs) as [s r1 a1| |] eqn:ES; [|split; discriminate|congruence].
  destruct (S2 _ _ _ eq_refl) as (H1 & -> & H3).
  change (fst (fst s)) with (sec_id s).
  destruct ((sec_id s =? 0) || (last <? sec_id s)) eqn:EO; [|split; discriminate].
  destruct (IH (if sec_id s =? 0 then last else sec_id s) r1 ltac:(lia)) as [K1 K2].
  destruct (pskel_go f _ r1) as [ss r2 a2| |] eqn:EK; [|split; discriminate|congruence].
  destruct (K2 _ _ _ eq_refl) as (-> & -> & HB & HSo & HF). split; [discriminate|].
  intros ss0 r0 a0 E; inversion E; subst. split; [reflexivity|]. split; [reflexivity|].
  split; [cbn [sum_bodies]; lia|].
  unfold noncustom_ids. cbn [map filter]. fold (noncustom_ids ss).
  destruct (N.eqb_spec (sec_id s) 0) as [Z|NZ]; cbn [negb].
  - split; auto.
  - cbn [orb] in EO. apply N.ltb_lt in EO. split.
    + constructor; auto.
    + constructor; auto. eapply Forall_impl; [|exact HF]. intros i Hi. cbn in Hi. lia.
Qed.

(** [parse_sections_ordered] *)
Theorem parse_sections_ordered_thm bs ss r a :
  parse_skeleton bs = POk ss r a -> StronglySorted N.lt (noncustom_ids ss) /\ Forall (fun i => 0 < i <= 11) (noncustom_ids ss).
Proof.
  unfold parse_skeleton. repeat (match goal with |- (if ?c then _ else _) = _ -> _ => destruct c; [discriminate|] end).
  intros E. destruct (pskel_go_good (S (length bs)) 0 (skipn 8 bs)) as [_ K2]; [rewrite skipn_length; lia|].
  destruct (K2 _ _ _ E) as (_ & _ & _ & HS & HF). split; auto.
  (* every id is at most 11 *)
  assert (G : forall fuel last bs0 ss0 r0 a0, pskel_go fuel last bs0 = POk ss0 r0 a0 -> Forall (fun s => sec_id s <= 11) ss0).
  { induction fuel as [|f IH]; intros last bs0 ss0 r0 a0; cbn [pskel_go]; destruct bs0 as [|b0 bt]; try discriminate.
    - intros E0; inversion E0; constructor.
    - intros E0; inversion E0; constructor.
    - destruct (psection_good (b0 :: bt)) as [_ S2]. destruct (psection (b0 :: bt)) as [s r1 a1| |] eqn:ES; try discriminate.
      destruct (S2 _ _ _ eq_refl) as (_ & _ & H3). destruct (_ || _); [|discriminate].
      destruct (pskel_go f _ r1) as [ss1 r2 a2| |] eqn:EK; try discriminate. intros E0; inversion E0; subst.
      constructor; eauto. }
  pose proof (G _ _ _ _ _ _ E) as HA. unfold noncustom_ids. rewrite Forall_forall in *.
  intros i Hi. apply filter_In in Hi. destruct Hi as [Hi NZ]. apply in_map_iff in Hi. destruct Hi as (s & <- & Hs).
  specialize (HF (sec_id s)). split; [|apply HA; exact Hs].
  apply negb_true_iff, N.eqb_neq in NZ. lia.
Qed.

Lemma parse_skeleton_good bs : parse_skeleton bs <> PFuel /\
  forall ss r a, parse_skeleton bs = POk ss r a -> r = [] /\ a = 0 /\ (sum_bodies ss <= length bs)%nat.
Proof.
  unfold parse_skeleton.
  repeat (match goal with |- context [if ?c then _ else _] => destruct c; [split; discriminate|] end).
  destruct (pskel_go_good (S (length bs)) 0 (skipn 8 bs)) as [K1 K2]; [rewrite skipn_length; lia|].
  split; auto. intros ss r a E. destruct (K2 _ _ _ E) as (A & B & C & _). rewrite skipn_length in C. repeat split; auto. lia.
Qed.

Lemma find_section_le id ss body : find_section id ss = Some body -> (length body <= sum_bodies ss)%nat.
Proof.
  unfold find_section. induction ss as [|s r IH]; cbn [find sum_bodies]; [discriminate|].
  destruct (fst (fst s) =? id).
  - intros E; inversion E; subst. unfold sec_body. lia.
  - intros E. specialize (IH E). lia.
Qed.

(** ** sections *)
Lemma psec_good {A} K (p : parser A) dflt o :
  good K p -> psec p dflt o <> PFuel /\
  forall x r a, psec p dflt o = POk x r a ->
    r = [] /\ a <= K * match o with Some body => L body | None => 0 end.
Proof.
  intros G. unfold psec. destruct o as [body|].
  - destruct (G body) as [G1 G2]. destruct (p body) as [x r a| |] eqn:E; [|split; discriminate|congruence].
    destruct (G2 _ _ _ eq_refl) as [H1 H2]. destruct r; split; try discriminate.
    intros x0 r0 a0 E0; inversion E0; subst. split; auto. cbn [length] in H2. rewrite N.sub_0_r in H2. exact H2.
  - split; [discriminate|]. intros x r a E; inversion E; subst. split; auto. lia.
Qed.

Lemma good_pone {A} (item : parser A) : good KA item -> strict item -> good KB (pone item).
Proof.
  intros G S. unfold pone. apply good_bind.
  - apply (good_pvec KA); auto; unfold KB, KA; [vm_compute; discriminate|apply N.le_refl].
  - intros l. destruct l as [|x [|y r]]; [apply good_ret|apply good_ret|apply good_fail].
Qed.
Lemma good_vec_big {A} (item : parser A) : good KA item -> strict item -> good KB (pvec item esz_big).
Proof. intros G S. apply (good_pvec KA); auto; unfold KB, KA; [vm_compute; discriminate|apply N.le_refl]. Qed.

Fixpoint sum_code (cs : list (list (N * valtype) * list N)) : nat :=
  match cs with [] => O | c :: r => (length (snd c) + sum_code r)%nat end.

Lemma pvec_go_code : forall fuel count bs cs r a,
  pvec_go pcode esz_big fuel count bs = POk cs r a -> (sum_code cs + length r <= length bs)%nat.
Proof.
  destruct pcode_good as (_ & _ & HM).
  induction fuel as [|f IH]; intros count bs cs r a; cbn [pvec_go]; destruct (count =? 0).
  - intros E; inversion E; subst. cbn. lia.
  - discriminate.
  - intros E; inversion E; subst. cbn. lia.
  - destruct (pcode bs) as [[ls body] r1 a1| |] eqn:EC; try discriminate.
    destruct (pvec_go pcode esz_big f (count - 1) r1) as [xs r2 a2| |] eqn:EV; try discriminate.
    intros E; inversion E; subst. specialize (IH _ _ _ _ _ EV). specialize (HM _ _ _ _ _ EC). cbn [sum_code snd]. lia.
Qed.
Lemma pvec_code_sum bs cs r a : pvec pcode esz_big bs = POk cs r a -> (sum_code cs <= length bs)%nat.
Proof.
  unfold pvec. destruct (pu32 bs) as [n r1 a0| |] eqn:EU; try discriminate.
  pose proof (strict_u32 _ _ _ _ EU).
  destruct (pvec_go pcode esz_big (S (length r1)) n r1) as [xs r' a1| |] eqn:EV; try discriminate.
  intros E; inversion E; subst. pose proof (pvec_go_code _ _ _ _ _ _ EV). lia.
Qed.

Lemma pbodies_good cap sx : forall cs, pbodies cap sx cs <> PFuel /\
  forall bs r a, pbodies cap sx cs = POk bs r a -> a <= (KA + esz_big) * N.of_nat (sum_code cs).
Proof.
  induction cs as [|[ls body] rest IH]; cbn [pbodies].
  - split; [discriminate|]. intros bs r a E; inversion E; subst. lia.
  - destruct (pops_good cap sx (S (length body)) body ltac:(lia)) as [P1 P2].
    destruct (pops cap sx (S (length body)) body) as [ops r1 a1| |] eqn:EP; [|split; discriminate|congruence].
    destruct (P2 _ _ _ eq_refl) as [_ H2]. destruct IH as [I1 I2].
    destruct (pbodies cap sx rest) as [bs r2 a2| |] eqn:EB; [|split; discriminate|congruence].
    specialize (I2 _ _ _ eq_refl). split; [discriminate|]. intros bs0 r a E; inversion E; subst.
    cbn [sum_code snd]. rewrite Nat2N.inj_add. lia.
Qed.

Lemma pcustoms_good : forall ss, pcustoms ss <> PFuel /\
  forall x r a, pcustoms ss = POk x r a -> a <= KB * N.of_nat (sum_bodies ss).
Proof.
  destruct KA_big as (_ & H1 & H2).
  induction ss as [|[[id body] len] rest IH]; cbn [pcustoms].
  - split; [discriminate|]. intros x r a E; inversion E; subst. lia.
  - destruct IH as [I1 I2]. cbn [sum_bodies]. unfold sec_body at 1. cbn [fst snd].
    destruct (id =? 0).
    + destruct (good_name KB ltac:(lia) body) as [N1 N2].
      destruct (pname body) as [nm r1 a1| |] eqn:EN; [|split; discriminate|congruence].
      destruct (N2 _ _ _ eq_refl) as [H3 H4].
      destruct (pcustoms rest) as [u r2 a2| |] eqn:EC; [|split; discriminate|congruence].
      specialize (I2 _ _ _ eq_refl). split; [discriminate|]. intros x r a E; inversion E; subst.
      rewrite Nat2N.inj_add. assert (a1 <= KB * L body) by (etransitivity; [exact H4|apply N.mul_le_mono_l; lia]). lia.
    + split; auto. intros x r a E. specialize (I2 _ _ _ E). rewrite Nat2N.inj_add. lia.
Qed.

(** ** the whole parser *)
Lemma psec_bound {A} K (p : parser A) dflt id ss bs x r a r0 a0 :
  good K p -> parse_skeleton bs = POk ss r0 a0 -> psec p dflt (find_section id ss) = POk x r a ->
  a <= K * L bs.
Proof.
  intros G ES E. destruct (psec_good K p dflt (find_section id ss) G) as [_ B]. destruct (B _ _ _ E) as [_ HB].
  destruct (parse_skeleton_good bs) as [_ S]. destruct (S _ _ _ ES) as (_ & _ & HS).
  destruct (find_section id ss) as [body|] eqn:EF.
  - pose proof (find_section_le _ _ _ EF). etransitivity; [exact HB|]. apply N.mul_le_mono_l. lia.
  - lia.
Qed.

Lemma code_sum_bound id ss bs code r a r0 a0 :
  parse_skeleton bs = POk ss r0 a0 -> psec (pvec pcode esz_big) [] (find_section id ss) = POk code r a ->
  (sum_code code <= length bs)%nat.
Proof.
  intros ES E. destruct (parse_skeleton_good bs) as [_ S]. destruct (S _ _ _ ES) as (_ & _ & HS).
  unfold psec in E. destruct (find_section id ss) as [body|] eqn:EF.
  - pose proof (find_section_le _ _ _ EF). destruct (pvec pcode esz_big body) as [cs r1 a1| |] eqn:EV; try discriminate.
    destruct r1; [|discriminate]. inversion E; subst. pose proof (pvec_code_sum _ _ _ _ EV). lia.
  - inversion E; subst. cbn. lia.
Qed.

Ltac stage LEM :=
  let F := fresh "F" in let B := fresh "B" in
  destruct LEM as [F B];
  match goal with
  | |- context [pres_bind ?X _] =>
      let x := fresh "x" in let r := fresh "r" in let a := fresh "a" in let E := fresh "E" in
      destruct X as [x r a| |] eqn:E;
      [clear F B | split; [discriminate|intros; discriminate] | congruence]
  end; cbn [pres_bind].

Theorem parse_module_good cfg bs :
  parse_module cfg bs <> PFuel /\
  forall p r a, parse_module cfg bs = POk p r a -> a <= 14 * KB * L bs.
Proof.
  destruct KA_big as (K1 & K2 & K3).
  assert (GB : forall A (p : parser A), good KA p -> good KB p) by (intros; eapply good_mono; eauto).
  unfold parse_module.
  set (cap := L bs). set (sx := cfg_signext cfg).
  stage (parse_skeleton_good bs). rename x into ss.
  stage (pcustoms_good ss).
  stage (psec_good KB (pvec pfunctype esz_big) [] (find_section 1 ss) (good_vec_big _ good_functype strict_functype)).
  stage (psec_good KB (pvec pimport_p esz_big) [] (find_section 2 ss) (good_vec_big _ good_import strict_import)).
  stage (psec_good KB (pone ptabletype) None (find_section 4 ss) (good_pone _ (good_tabletype KA) strict_tabletype)).
  stage (psec_good KB (pone pmemtype) None (find_section 5 ss) (good_pone _ (good_memtype KA) strict_memtype)).
  stage (psec_good KB (pvec (pglobal cap sx) esz_big) [] (find_section 6 ss) (good_vec_big _ (good_global cap sx) (strict_global cap sx))).
  stage (psec_good KB pstart tt (find_section 8 ss) (good_start KB)).
  stage (psec_good KB (pvec pu32 esz_u32) [] (find_section 3 ss) (GB _ _ good_vec_u32)).
  stage (psec_good KB (pvec pcode esz_big) [] (find_section 10 ss) (good_vec_big _ (proj1 pcode_good) (proj1 (proj2 pcode_good)))).
  rename x7 into code.
  stage (pbodies_good cap sx code).
  stage (psec_good KB (pvec pexport_p esz_big) [] (find_section 7 ss) (good_vec_big _ good_export strict_export)).
  set (gctx := if cfg_globals_in_init cfg then Some x4 else None).
  stage (psec_good KB (pvec (pelement cap sx gctx) esz_big) [] (find_section 9 ss) (good_vec_big _ (good_element cap sx gctx) (strict_element cap sx gctx))).
  stage (psec_good KB (pvec (pdata cap sx gctx) esz_big) [] (find_section 11 ss) (good_vec_big _ (good_data cap sx gctx) (strict_data cap sx gctx))).
  split; [discriminate|]. intros p r' a' EQ. inversion EQ; subst; clear EQ.
  (* the fourteen contributions *)
  destruct (parse_skeleton_good bs) as [_ S]. destruct (S _ _ _ E) as (_ & -> & HS).
  destruct (pcustoms_good ss) as [_ C]. specialize (C _ _ _ E0).
  assert (C' : a0 <= KB * L bs) by (etransitivity; [exact C|apply N.mul_le_mono_l; lia]).
  pose proof (psec_bound KB _ _ _ _ _ _ _ _ _ _ (good_vec_big _ good_functype strict_functype) E E1).
  pose proof (psec_bound KB _ _ _ _ _ _ _ _ _ _ (good_vec_big _ good_import strict_import) E E2).
  pose proof (psec_bound KB _ _ _ _ _ _ _ _ _ _ (good_pone _ (good_tabletype KA) strict_tabletype) E E3).
  pose proof (psec_bound KB _ _ _ _ _ _ _ _ _ _ (good_pone _ (good_memtype KA) strict_memtype) E E4).
  pose proof (psec_bound KB _ _ _ _ _ _ _ _ _ _ (good_vec_big _ (good_global cap sx) (strict_global cap sx)) E E5).
  pose proof (psec_bound KB _ _ _ _ _ _ _ _ _ _ (good_start KB) E E6).
  pose proof (psec_bound KB _ _ _ _ _ _ _ _ _ _ (GB _ _ good_vec_u32) E E7).
  pose proof (psec_bound KB _ _ _ _ _ _ _ _ _ _ (good_vec_big _ (proj1 pcode_good) (proj1 (proj2 pcode_good))) E E8).
  destruct (pbodies_good cap sx code) as [_ PB]. specialize (PB _ _ _ E9).
  pose proof (code_sum_bound _ _ _ _ _ _ _ _ E E8) as CS.
  assert (PB' : a9 <= KB * L bs) by (etransitivity; [exact PB|]; unfold KB; change esz_big with esz_max; apply N.mul_le_mono_l; lia).
  pose proof (psec_bound KB _ _ _ _ _ _ _ _ _ _ (good_vec_big _ good_export strict_export) E E10).
  pose proof (psec_bound KB _ _ _ _ _ _ _ _ _ _ (good_vec_big _ (good_element cap sx gctx) (strict_element cap sx gctx)) E E11).
  pose proof (psec_bound KB _ _ _ _ _ _ _ _ _ _ (good_vec_big _ (good_data cap sx gctx) (strict_data cap sx gctx)) E E12).
  lia.
Qed.

Theorem parse_total_thm cfg bs : parse_module cfg bs <> PFuel /\ parse_skeleton bs <> PFuel.
Proof. split; [apply parse_module_good|apply parse_skeleton_good]. Qed.

(** ghost allocation: at most [14 * (MAX_PREALLOCATED_BYTES + 64)] bytes per input byte *)
Theorem parse_alloc_bounded_thm cfg bs p r a :
  parse_module cfg bs = POk p r a -> a <= 14 * (MAX_PREALLOCATED_BYTES + esz_max) * L bs.
Proof. apply parse_module_good. Qed.
