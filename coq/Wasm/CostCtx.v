(** * Wasm/CostCtx — the context the cost schedule reads (hand-written; imported by the
    GENERATED files [Gen/CostV0.v], [Gen/CostV1.v] that translator T2 writes from
    metering_transformation.rs on every run).

    - label stack: metering_transformation.rs keeps [labels : Vec<BlockType>] with the
      innermost label LAST; here the innermost label is FIRST ([push x] = [x :: labels],
      [labels.first()] = the last element = the function label).
    - [cost_ctx] is [HasTransformationContext]: arities of a type / of a function.
    Definitions only. *)
From Coq Require Import NArith List.
From CB Require Import Wasm.Syntax.
Import ListNotations.
Local Open Scope N_scope.

Definition label_arity (bt : blocktype) : N := match bt with None => 0 | Some _ => 1 end.

(** metering_transformation.rs [lookup_label]: arity (0 or 1) of label [idx]; fails if absent. *)
Definition lookup_label (labels : list blocktype) (idx : nat) : option N :=
  match nth_error labels idx with Some bt => Some (label_arity bt) | None => None end.

(** [labels.first()]: the outermost (function) label. *)
Fixpoint labels_first (labels : list blocktype) : option blocktype :=
  match labels with
  | [] => None
  | [x] => Some x
  | _ :: r => labels_first r
  end.

Record cost_ctx := {
  cc_type_len : nat -> option (N * N);        (* get_type_len: (#params, #results) of a type index *)
  cc_func_type_len : nat -> option (N * N)    (* get_func_type_len: of a function index (imports first) *)
}.

Definition type_len (ft : functype) : N * N :=
  (N.of_nat (length (ft_params ft)), match ft_result ft with Some _ => 1 | None => 0 end).

(** [ModuleContext] of metering_transformation.rs (built from the module BEFORE injection). *)
Definition ctx_of_module (m : module) : cost_ctx :=
  let tl := fun ti => match nth_error (m_types m) ti with Some ft => Some (type_len ft) | None => None end in
  {| cc_type_len := tl;
     cc_func_type_len := fun idx =>
       match nth_error (m_imports m) idx with
       | Some ti => tl ti
       | None => match nth_error (m_funcs m) (idx - length (m_imports m)) with
                 | Some f => tl (f_type f)
                 | None => None
                 end
       end |}.

(** A cost configuration ([CostConfiguration] trait). *)
Record cost_cfg := {
  c_cost : opcode -> list blocktype -> cost_ctx -> option N;
  c_invoke_after : N -> N;
  c_branch : N -> N
}.
