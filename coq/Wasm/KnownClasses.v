(** * Wasm/KnownClasses — decidable predicates for the known defect classes of the
    compiler/interpreter (DESIGN.md section 8, known_findings.json KF-C01-1/2/3).

    - [class_f1]: the function contains a [br_if] whose target label carries a value
      (artifact.rs [push_br_if_jump] copies into the label's result register before testing).
    - [class_f2]: a [local.set/tee i] occurs inside a block/loop/if while an un-materialised
      read of local [i] ([local.get i] / [local.tee i]) pushed OUTSIDE that construct is still
      on the operand stack (artifact.rs redirects that stack slot for the code after the
      construct too, but the preserving Copy only runs if control passes through it, and
      runs again on every loop iteration).
    - F3 is dynamic: the faithful machine model ([Wasm/Machine.v]) stops with
      [MTrap TRemSOverflow].
    The predicates are static over-approximations evaluated on the code the compiler
    receives; a mismatch counts as a known finding only if, in addition, the faithful
    model ([Compile.v] + [Machine.v]) reproduces the implementation's answer exactly
    (see checks/C01.py).  Definitions only. *)
From Coq Require Import ZArith NArith List Bool.
From CB Require Import Wasm.Syntax Wasm.Compile.
Import ListNotations.

Section Classes.
Variable func_type : nat -> option functype.
Variable type_at : nat -> option functype.

Definition is_terminator (b : binstr) : bool :=
  match b with BUnreachable | BBr _ | BBrTable _ _ | BReturn => true | _ => false end.

(** ** F1 *)
Fixpoint f1_instr (labels : list blocktype) (i : instr) {struct i} : bool :=
  let seq := fix seq (labels : list blocktype) (is : list instr) {struct is} : bool :=
               match is with [] => false | x :: r => f1_instr labels x || seq labels r end in
  match i with
  | Basic (BBrIf l) => match nth_error labels l with Some (Some _) => true | _ => false end
  | Basic _ => false
  | Block bt body => seq (bt :: labels) body
  | Loop _ body => seq (None :: labels) body
  | If bt thn els => seq (bt :: labels) thn || seq (bt :: labels) els
  end.
Definition f1_body (result : blocktype) (body : list instr) : bool :=
  existsb (f1_instr [result]) body.

(** ** F2: abstract provider stack, [Some i] = un-materialised read of local [i] *)
Definition aentry := option nat.
Definition is_local (i : nat) (e : aentry) : bool := match e with Some j => Nat.eqb i j | None => false end.
Definition forget (i : nat) (st : list aentry) : list aentry :=
  map (fun e => if is_local i e then None else e) st.

Record f2_state := { f2_found : bool; f2_cur : list aentry; f2_outer : list aentry; f2_dead : bool }.

Definition f2_basic (depth : nat) (labels : list blocktype) (b : binstr) (s : f2_state) : f2_state :=
  let cur := f2_cur s in
  let mk f c o d := {| f2_found := f; f2_cur := c; f2_outer := o; f2_dead := d |} in
  if is_terminator b then mk (f2_found s) cur (f2_outer s) true else
  match b with
  | BLocalGet i => mk (f2_found s) (Some i :: cur) (f2_outer s) false
  | BLocalSet i =>
      let hit := negb (Nat.eqb depth 0) && existsb (is_local i) (f2_outer s) in
      mk (f2_found s || hit) (forget i (skipn 1 cur)) (forget i (f2_outer s)) false
  | BLocalTee i =>
      let hit := negb (Nat.eqb depth 0) && existsb (is_local i) (f2_outer s) in
      mk (f2_found s || hit) (Some i :: forget i (skipn 1 cur)) (forget i (f2_outer s)) false
  | BBrIf l =>
      let cur1 := skipn 1 cur in
      let cur2 := match nth_error labels l with
                  | Some (Some _) => None :: skipn 1 cur1
                  | _ => cur1
                  end in
      mk (f2_found s) cur2 (f2_outer s) false
  | BCall f =>
      match func_type f with
      | Some ft => mk (f2_found s) (repeat None (bt_arity (ft_result ft)) ++ skipn (length (ft_params ft)) cur) (f2_outer s) false
      | None => s
      end
  | BCallIndirect ti =>
      match type_at ti with
      | Some ft => mk (f2_found s) (repeat None (bt_arity (ft_result ft)) ++ skipn (S (length (ft_params ft))) cur) (f2_outer s) false
      | None => s
      end
  | _ =>
      let '(po, pu) := pops_pushes b in
      mk (f2_found s) (repeat None pu ++ skipn po cur) (f2_outer s) false
  end.

Fixpoint f2_instr (depth : nat) (labels : list blocktype) (i : instr) (s : f2_state) {struct i} : f2_state :=
  let seq := fix seq (depth : nat) (labels : list blocktype) (is : list instr) (s : f2_state) {struct is} : f2_state :=
               match is with
               | [] => s
               | x :: r => if f2_dead s then s else seq depth labels r (f2_instr depth labels x s)
               end in
  (* run a nested body: the current frame's entries become "outer" *)
  let nested (labels' : list blocktype) (body : list instr) (s : f2_state) : f2_state :=
    let n := length (f2_cur s) in
    let s1 := seq (S depth) labels' body
                  {| f2_found := f2_found s; f2_cur := []; f2_outer := f2_cur s ++ f2_outer s; f2_dead := false |} in
    {| f2_found := f2_found s1; f2_cur := firstn n (f2_outer s1); f2_outer := skipn n (f2_outer s1);
       f2_dead := false |} in
  let push_res (bt : blocktype) (s : f2_state) : f2_state :=
    {| f2_found := f2_found s; f2_cur := repeat None (bt_arity bt) ++ f2_cur s; f2_outer := f2_outer s;
       f2_dead := false |} in
  match i with
  | Basic b => f2_basic depth labels b s
  | Block bt body => push_res bt (nested (bt :: labels) body s)
  | Loop bt body => push_res bt (nested (None :: labels) body s)
  | If bt thn els =>
      let s0 := {| f2_found := f2_found s; f2_cur := skipn 1 (f2_cur s); f2_outer := f2_outer s; f2_dead := false |} in
      push_res bt (nested (bt :: labels) els (nested (bt :: labels) thn s0))
  end.

Definition f2_body (result : blocktype) (body : list instr) : bool :=
  f2_found (fold_left (fun s i => if f2_dead s then s else f2_instr 0 [result] i s) body
                      {| f2_found := false; f2_cur := []; f2_outer := []; f2_dead := false |}).
End Classes.

(** class flags (F1, F2) of a function body given in the flat form the compiler receives *)
Definition classes_of_function (cm : cmodule) (fd : nat * list valtype * list opcode) : option (bool * bool) :=
  let '(ti, _, ops) := fd in
  match nth_error (cm_types cm) ti, structure_body ops with
  | Some ft, Some body =>
      Some (f1_body (ft_result ft) body,
            f2_body (cm_func_type cm) (nth_error (cm_types cm)) (ft_result ft) body)
  | _, _ => None
  end.
