(** * Wasm/C09Examples — concrete instances showing that the hypotheses of the C09 theorems are
    satisfiable (non-vacuity). *)
From Coq Require Import ZArith NArith List Bool Arith Lia.
From CB Require Import Common.IntN Wasm.Syntax Gen.Limits Wasm.Validate Wasm.ValidateLimits Wasm.Typing
  Wasm.ValidateProofs Wasm.ValidateComplete Wasm.Sem Wasm.TypeSound Wasm.Accepted Wasm.Parse Wasm.ParseProofs.
Import ListNotations.

Definition vm_ex : vmodule :=
  {| vm_types := [ {| ft_params := [T_i32]; ft_result := Some T_i32 |} ];
     vm_imports := [];
     vm_funcs := [ {| mf_type := 0; mf_locals := [(1%N, T_i64)]; mf_body := ex_body |} ];
     vm_table := None;
     vm_mem := Some (1%N, Some 2%N);
     vm_globals := [(T_i64, true)];
     vm_exports := [(0%N, 0%N, 0%N); (1%N, 2%N, 0%N)];
     vm_elems := [];
     vm_data := [(65532%N, 4%N)] |}.

Definition is_ex : list instr :=
  match structure_body (map fst ex_body) with Some is => is | None => [] end.

Definition m_ex : module :=
  {| m_types := [ {| ft_params := [T_i32]; ft_result := Some T_i32 |} ];
     m_imports := [];
     m_funcs := [ {| f_type := 0; f_locals := [T_i64]; f_body := is_ex |} ];
     m_table := None;
     m_elems := [];
     m_mem := Some {| l_min := 1%N; l_max := Some 2%N |};
     m_data := [(65532%N, [1; 2; 3; 4]%Z)];
     m_globals := [ {| g_mut := true; g_init := VI64 5 |} ] |}.

Example accepted_never_stuck_hypotheses :
  validate_module true vm_ex = true /\ no_trailing true vm_ex /\ corresponds vm_ex m_ex /\
  host_ok no_host m_ex /\
  nth_error (ftypes m_ex) 0 = Some {| ft_params := [T_i32]; ft_result := Some T_i32 |}.
Proof.
  split; [vm_compute; reflexivity|]. split.
  { intros vf ft locals [<-|[]] HT HL. cbn in HT. inversion HT; subst.
    vm_compute in HL. inversion HL; subst. vm_compute. reflexivity. }
  split.
  { constructor; try reflexivity.
    - constructor; [|constructor]. repeat split.
    - cbn. auto. }
  split; [|reflexivity].
  intros fi args mem ft _ _. exact I.
Qed.

(** a body without dead code: block (result i32) local.get 0 end; call 0 *)
Definition ops_live : list (opcode * N) :=
  [ (OBlock (Some T_i32), 0); (OBasic (BLocalGet 0), 0); (OBasic (BConst T_i32 1), 0);
    (OBasic (BBinop T_i32 Add), 0); (OEnd, 0); (OBasic (BCall 0), 0);
    (OIf (Some T_i32), 0); (OBasic (BConst T_i32 2), 0); (OElse, 0); (OBasic (BConst T_i32 3), 0);
    (OBasic (BBr 0), 0); (OEnd, 0); (OEnd, 0) ]%N.
Definition is_live : list instr :=
  match structure_body (map fst ops_live) with Some is => is | None => [] end.

Example validate_complete_hypotheses :
  body_ok (tctx_of ex_ctx) is_live /\ seq_cond true is_live = true /\ length is_live = 3%nat /\
  Forall (fun ti => ti < length (vc_types ex_ctx))%nat (vc_funcs ex_ctx).
Proof.
  split.
  - destruct (validate_sound_thm ex_ctx ops_live 2%nat) as (is & SB & BO); [vm_compute; reflexivity|vm_compute; reflexivity|].
    vm_compute in SB. inversion SB; subst. exact BO.
  - split; [vm_compute; reflexivity|]. split; [vm_compute; reflexivity|]. repeat constructor.
Qed.

(** a complete module in binary form: type () -> (), one function, exported as "f0", body = end *)
Definition bytes_ex : list N :=
  [0x00; 0x61; 0x73; 0x6d; 0x01; 0x00; 0x00; 0x00;
   0x01; 0x04; 0x01; 0x60; 0x00; 0x00;
   0x03; 0x02; 0x01; 0x00;
   0x00; 0x05; 0x04; 0x6e; 0x61; 0x6d; 0x65;
   0x07; 0x06; 0x01; 0x02; 0x66; 0x30; 0x00; 0x00;
   0x0a; 0x04; 0x01; 0x02; 0x00; 0x0b]%N.
Example parse_example :
  accepts cfg_v1 bytes_ex = true /\ accepts cfg_v0 bytes_ex = true /\
  (exists ss r a, parse_skeleton bytes_ex = POk ss r a /\ noncustom_ids ss = [1; 3; 7; 10]%N) /\
  accepts cfg_v1 (bytes_ex ++ [0x03; 0x02; 0x01; 0x00]%N) = false.
Proof.
  split; [vm_compute; reflexivity|]. split; [vm_compute; reflexivity|]. split; [|vm_compute; reflexivity].
  vm_compute. eexists _, _, _. split; reflexivity.
Qed.
