(** * Wasm/CompileSafe3 — every case of [Handler::handle_opcode] preserves the invariant of
    [CompileSafe.v] and emits whole instructions of the grammar [shaped]. *)
From Coq Require Import ZArith NArith List Lia Bool.
From CB Require Import Wasm.Syntax Wasm.Compile Wasm.Machine Wasm.MachineLemmas Wasm.CompileLemmas
     Wasm.StraightProofs Wasm.BlockProofs Wasm.BlockInv Wasm.CompileSafe Wasm.CompileSafe2.
Import ListNotations.
Local Open Scope Z_scope.
Local Arguments i32_bytes : simpl never.
Local Arguments u32_bytes : simpl never.
Local Arguments u16_bytes : simpl never.

Section Safe3.
Variable nl : Z.
Variable cx : cctx.
Notation L := (L nl).
Notation Iv := (Iv nl).

(** result of one opcode: the old fields keep their kinds (only back-patched values change),
    whole instructions [ext] are appended, new jump targets are the old or the new end of code *)
Definition post (bs : list Z) (fl : list field) (s' : cstate) : Prop :=
  exists fl1 ext bs', map kind_of fl1 = map kind_of fl /\ Iv bs' s' (fl1 ++ ext) /\ shaped cx ext /\ incl bs bs'
    /\ (forall b, In b bs' -> In b bs \/ b = off fl \/ b = off (fl1 ++ ext)).

Lemma post_simple bs fl ext s' : Iv bs s' (fl ++ ext) -> shaped cx ext -> post bs fl s'.
Proof. intros H S. exists fl, ext, bs. splits; auto. apply incl_refl. Qed.
Lemma Iv_of_L bs s0 s fl : L bs (all_locs (c_bp s0)) s fl -> c_bp s = c_bp s0 -> Iv bs s fl.
Proof. intros H E. unfold CompileSafe2.Iv. rewrite E. exact H. Qed.

Lemma gi_safe bs s fl opc imm k prov s' :
  Iv bs s fl -> c_last s = None -> gi s opc imm k prov = Some s' ->
  fixed_shape opc = Some (length imm, k, prov) -> post bs fl s'.
Proof.
  intros H Hl E Hs. unfold gi in E.
  destruct (push_consume_n k (emit_imm (push_op s opc) imm)) as [s2|] eqn:E2; [|discriminate].
  pose proof (L_emit nl _ _ _ _ (FOp opc) H Hl Logic.I ltac:(discriminate)) as H1.
  set (immf := match imm with [] => [] | _ => [FImm imm] end).
  assert (H1' : L bs (all_locs (c_bp s)) (emit_imm (push_op s opc) imm) ((fl ++ [FOp opc]) ++ immf)
                /\ c_last (emit_imm (push_op s opc) imm) = None /\ c_bp (emit_imm (push_op s opc) imm) = c_bp s).
  { subst immf. destruct imm as [|b imm']; cbn [emit_imm].
    - rewrite app_nil_r. auto.
    - split; auto. apply (L_emit nl _ _ _ _ (FImm (b :: imm')) H1 Hl Logic.I ltac:(discriminate)). }
  destruct H1' as (H1' & Hl1 & Hb1).
  destruct (L_push_consume_n nl _ _ _ _ _ _ H1' Hl1 E2) as (ps & Lp & H2 & L2 & B2 & N2 & _).
  assert (Ko : oshape cx opc (map kind_of (immf ++ map FSrc ps) ++ dst_opt prov)).
  { rewrite map_app, map_kind_src, Lp, <- app_assoc.
    replace (map kind_of immf) with (match length imm with O => [] | _ => [KImm imm] end) by (subst immf; destruct imm; reflexivity).
    eapply sh_fixed; eauto. }
  destruct prov; inversion E; subst; clear E.
  - destruct (L_push_provide nl _ _ _ _ H2 L2) as (r & H3 & B3 & _).
    apply (post_simple bs fl (FOp opc :: immf ++ map FSrc ps ++ [FDst r])).
    + eapply (Iv_of_L bs s); [|congruence]. rewrite <- !app_assoc in H3. cbn [app] in H3. exact H3.
    + apply shaped_one. rewrite app_assoc, map_app. exact Ko.
  - apply (post_simple bs fl (FOp opc :: immf ++ map FSrc ps)).
    + eapply (Iv_of_L bs s); [|congruence]. rewrite <- !app_assoc in H2. cbn [app] in H2. exact H2.
    + apply shaped_one. cbn [dst_opt] in Ko. rewrite app_nil_r in Ko. exact Ko.
Qed.


Ltac napp H := rewrite <- ?app_assoc in H; cbn [app] in H.

Lemma kinds_split : forall (P a b : list field), map kind_of P = map kind_of (a ++ b) ->
  exists a' b', P = a' ++ b' /\ map kind_of a' = map kind_of a /\ map kind_of b' = map kind_of b.
Proof.
  intros P a b E. exists (firstn (length a) P), (skipn (length a) P). rewrite firstn_skipn. split; auto.
  rewrite map_app in E. rewrite <- firstn_map, <- skipn_map, E. rewrite <- (map_length kind_of a).
  rewrite firstn_app, Nat.sub_diag, firstn_all, skipn_app, Nat.sub_diag, skipn_all. cbn. rewrite app_nil_r. auto.
Qed.
Lemma shaped_kinds a b : map kind_of a = map kind_of b -> shaped cx a -> shaped cx b.
Proof. unfold shaped. intros ->. auto. Qed.

(** the state at the start of [handle_opcode] *)
Lemma Iv_start bs s0 fl : Iv bs s0 fl -> Iv bs (set_last s0 None) fl /\ c_last (set_last s0 None) = None.
Proof. intros H. split; [|reflexivity]. apply (L_set_last_none nl). exact H. Qed.

Lemma tee_tail_safe bs pl s3 fl idx (is_set : bool) s' :
  L bs pl s3 fl -> c_last s3 = None -> 0 <= idx < nl ->
  match push_consume (push_op s3 ICopy) with
  | Some (_, s4) => let s5 := emit s4 (i32_bytes idx) in Some (if is_set then s5 else provide_existing s5 (PLocal idx))
  | None => None end = Some s' ->
  exists p, L bs pl s' (fl ++ [FOp ICopy; FSrc p; FDst idx]) /\ c_bp s' = c_bp s3.
Proof.
  intros H Hl Hi E. destruct (push_consume (push_op s3 ICopy)) as [[p s4]|] eqn:Ep; [|discriminate].
  pose proof (L_emit nl _ _ _ _ (FOp ICopy) H Hl Logic.I ltac:(discriminate)) as H1.
  destruct (L_push_consume nl _ _ _ _ _ _ H1 Hl Ep) as (H2 & L2 & B2 & N2 & _).
  assert (Hd : fok (c_next s4) (ncon s4) (FDst idx)).
  { pose proof (w_next _ _ (l_cwf _ _ _ _ _ H2)). cbn. lia. }
  pose proof (L_emit nl _ _ _ _ (FDst idx) H2 L2 Hd ltac:(discriminate)) as H3. napp H3.
  exists (provider_idx p). destruct is_set; inversion E; subst; clear E.
  - split; auto.
  - destruct (L_provide_existing nl _ _ _ _ (PLocal idx) H3 Hi) as (H4 & B4 & _). split; auto; try (rewrite B4; exact B2).
Qed.

Lemma set_tee_safe bs s0 fl i (is_set : bool) s' :
  Iv bs s0 fl -> 0 <= Z.of_nat i < nl -> set_tee (c_last s0) (set_last s0 None) i is_set = Some s' -> post bs fl s'.
Proof.
  intros H0 Hi E. destruct (Iv_start _ _ _ H0) as (H & Hl). set (s := set_last s0 None) in *.
  assert (Cp : shaped cx [FOp ICopy; FSrc 0; FDst 0]) by (apply shaped_one; apply (sh_fixed cx ICopy 0 1 true []); reflexivity).
  unfold set_tee in E. rewrite preserve_local_spec in E. destruct (has_local (Z.of_nat i) (c_stack s)) eqn:Hh.
  - destruct (dyn_get s) as [d s2] eqn:Ed.
    destruct (L_dyn_get nl _ _ _ _ _ _ H Ed) as (H1 & Bd & B1 & L1 & N1 & S1 & _).
    destruct (dyn_get_spec nl s d s2 Ed (l_cwf _ _ _ _ _ H)) as (_ & Nr & _ & Es & _ & _ & _ & _ & W').
    assert (Fst : Forall (pwf nl s2) (map (subst_local (Z.of_nat i) (PDyn d)) (c_stack s))).
    { pose proof (w_stack _ _ W') as F. rewrite Es in F. apply Forall_forall. intros q Hq. apply in_map_iff in Hq.
      destruct Hq as (q0 & <- & Hq0). unfold subst_local. destruct (is_local (Z.of_nat i) q0).
      - cbn. split; [lia|exact Nr].
      - rewrite Forall_forall in F. apply F. exact Hq0. }
    set (st' := map (subst_local (Z.of_nat i) (PDyn d)) (c_stack s)) in *.
    assert (H2 : L bs (all_locs (c_bp s)) (set_stack s2 st') fl).
    { eapply (L_alloc nl); [exact H1|apply cwf_set_stack; auto| | | | |]; try reflexivity; try lia. }
    assert (L2 : c_last (set_stack s2 st') = None) by (cbn; congruence).
    pose proof (L_emit nl _ _ _ _ (FOp ICopy) H2 L2 Logic.I ltac:(discriminate)) as H3.
    assert (Hs : fok (c_next s2) (ncon s2) (FSrc (Z.of_nat i))).
    { pose proof (w_next _ _ W'). cbn. unfold ncon. lia. }
    pose proof (L_emit nl _ _ _ _ (FSrc (Z.of_nat i)) H3 L2 Hs ltac:(discriminate)) as H4.
    assert (Hdd : fok (c_next s2) (ncon s2) (FDst d)) by (pose proof (w_next _ _ W'); cbn; lia).
    pose proof (L_emit nl _ _ _ _ (FDst d) H4 L2 Hdd ltac:(discriminate)) as H5. napp H5.
    assert (E' : match push_consume (push_op (push_loc (emit (push_op (set_stack s2 st') ICopy) (i32_bytes (Z.of_nat i))) (PDyn d)) ICopy) with
                 | Some (_, s4) => let s5 := emit s4 (i32_bytes (Z.of_nat i)) in
                                   Some (if is_set then s5 else provide_existing s5 (PLocal (Z.of_nat i)))
                 | None => None end = Some s') by (destruct (c_last s0); exact E).
    destruct (tee_tail_safe _ _ _ _ _ _ _ H5 L2 Hi E') as (p & H6 & B6). napp H6.
    apply (post_simple bs fl [FOp ICopy; FSrc (Z.of_nat i); FDst d; FOp ICopy; FSrc p; FDst (Z.of_nat i)]).
    + eapply (Iv_of_L bs s); [exact H6|]. rewrite B6. cbn. exact B1.
    + apply (shaped_app cx [_; _; _] [_; _; _]); eapply shaped_kinds; try exact Cp; reflexivity.
  - assert (H2 : L bs (all_locs (c_bp s)) (set_stack s (c_stack s)) fl).
    { eapply (L_alloc nl); [exact H|eapply cwf_same; [|apply (l_cwf _ _ _ _ _ H)]; repeat split| | | | |]; try reflexivity; try lia. }
    assert (L2 : c_last (set_stack s (c_stack s)) = None) by exact Hl.
    destruct (c_last s0) as [q|] eqn:Elast.
    + destruct (l_last _ _ _ _ _ H0 q Elast) as (pre & r & Efl & Oq).
      destruct (consume (back_patch (set_stack s (c_stack s)) q (Z.of_nat i))) as [[p s4]|] eqn:Ec; [|discriminate].
      assert (Hd : fok (c_next (set_stack s (c_stack s))) (ncon (set_stack s (c_stack s))) (FDst (Z.of_nat i))).
      { pose proof (w_next _ _ (l_cwf _ _ _ _ _ H)) as X. unfold s in *. cbn in X |- *. lia. }
      pose proof (L_replace nl bs _ (all_locs (c_bp s)) _ fl pre (FDst r) (FDst (Z.of_nat i)) [] (Z.of_nat i) H2 Efl
                    eq_refl eq_refl eq_refl L2 Hd ltac:(discriminate) ltac:(auto) ltac:(auto)) as H3.
      rewrite Oq in H3.
      destruct (L_consume nl _ _ _ _ _ _ H3 Ec) as (H4 & _ & L4 & B4 & N4 & _).
      assert (K : map kind_of (pre ++ [FDst (Z.of_nat i)]) = map kind_of fl) by (rewrite Efl, !map_app; reflexivity).
      exists (pre ++ [FDst (Z.of_nat i)]), [], bs. rewrite app_nil_r. splits; auto; try apply incl_refl; try apply shaped_nil.
      destruct is_set; inversion E; subst; clear E.
      * eapply (Iv_of_L bs s); [exact H4|]. rewrite B4. reflexivity.
      * destruct (L_provide_existing nl _ _ _ _ (PLocal (Z.of_nat i)) H4 Hi) as (H5 & B5 & _).
        eapply (Iv_of_L bs s); [exact H5|]. cbn in B5, B4 |- *; congruence.
    + destruct (tee_tail_safe _ _ _ _ _ _ _ H2 L2 Hi E) as (p & H6 & B6).
      apply (post_simple bs fl [FOp ICopy; FSrc p; FDst (Z.of_nat i)]).
      * eapply (Iv_of_L bs s); [exact H6|]. rewrite B6. reflexivity.
      * eapply shaped_kinds; try exact Cp; reflexivity.
Qed.

Lemma score_safe bs s0 fl b s' :
  Iv bs s0 fl -> straight b = true -> locals_in nl b = true ->
  score (c_last s0) (set_last s0 None) b = Some s' -> post bs fl s'.
Proof.
  intros H0 Hs Hi E. destruct (Iv_start _ _ _ H0) as (H & Hl).
  destruct b; try discriminate Hs; cbn [score] in E; cbn [locals_in] in Hi;
    try (cbn [gi_shape] in E; eapply gi_safe; eauto;
         repeat match goal with
                | x : option _ |- _ => destruct x | x : (_ * _)%type |- _ => destruct x
                | x : packsize |- _ => destruct x | x : sx |- _ => destruct x
                | x : valtype |- _ => destruct x | x : unop |- _ => destruct x | x : binop |- _ => destruct x
                | x : relop |- _ => destruct x | x : cvtop |- _ => destruct x end; reflexivity).
  - inversion E; subst. apply (post_simple bs fl []); [rewrite app_nil_r; exact H|apply shaped_nil].
  - destruct (consume (set_last s0 None)) as [[p s1]|] eqn:Ec; [|discriminate]. inversion E; subst.
    destruct (L_consume nl _ _ _ _ _ _ H Ec) as (H1 & _ & _ & B1 & _).
    apply (post_simple bs fl []); [rewrite app_nil_r; eapply (Iv_of_L bs (set_last s0 None)); eauto|apply shaped_nil].
  - inversion E; subst. apply Z.ltb_lt in Hi.
    assert (Hr : res_ok nl (c_next (set_last s0 None)) (PLocal (Z.of_nat i))) by (unfold res_ok; lia).
    destruct (L_provide_existing nl _ _ _ _ (PLocal (Z.of_nat i)) H Hr) as (H1 & B1 & _).
    apply (post_simple bs fl []); [rewrite app_nil_r; eapply (Iv_of_L bs (set_last s0 None)); eauto|apply shaped_nil].
  - apply Z.ltb_lt in Hi. apply (set_tee_safe bs s0 fl i true s' H0); [lia|exact E].
  - apply Z.ltb_lt in Hi. apply (set_tee_safe bs s0 fl i false s' H0); [lia|exact E].
  - inversion E; subst.
    destruct (push_constant_spec nl (set_last s0 None) (const_i64 t z) (l_cwf _ _ _ _ _ H))
      as (idx & Es & (O1 & O2 & O3) & En & Er & (ext & Ec) & _ & _ & W).
    apply (post_simple bs fl []); [rewrite app_nil_r|apply shaped_nil].
    eapply (Iv_of_L bs (set_last s0 None)); [|exact O2].
    eapply (L_alloc nl); eauto; try lia. unfold ncon. rewrite Ec, app_length. lia.
Qed.


(** ** back-patching all pending jumps of a frame *)
Lemma L_patch_all bs pos : forall locs pl' s fl,
  L bs (locs ++ pl') s fl -> c_last s = None -> In pos bs ->
  exists fl1, map kind_of fl1 = map kind_of fl
    /\ L bs pl' (fold_left (fun acc l => back_patch acc l pos) locs s) fl1
    /\ c_bp (fold_left (fun acc l => back_patch acc l pos) locs s) = c_bp s.
Proof.
  induction locs as [|a locs IH]; intros pl' s fl H Hl Hp; cbn [fold_left app] in *.
  - exists fl. auto.
  - destruct (l_pend _ _ _ _ _ H a (or_introl eq_refl)) as (pre & t & post & E & O).
    assert (H1 : L bs (locs ++ pl') (back_patch s (off pre) pos) (pre ++ FTgt pos :: post)).
    { apply (L_replace nl bs (a :: locs ++ pl') (locs ++ pl') s fl pre (FTgt t) (FTgt pos) post pos H E); auto; try reflexivity.
      - intros t0 Et. inversion Et; subst. exact Hp.
      - intros q [<-|Hq]; [left; symmetry; exact O|right; exact Hq].
      - intros q Hq. right. exact Hq. }
    rewrite O in H1. destruct (IH pl' _ _ H1 Hl Hp) as (fl1 & K & H2 & B). exists fl1. splits; auto.
    rewrite K, E, !map_app. reflexivity.
Qed.

Lemma post_patched bs fl ext P s' pos :
  map kind_of P = map kind_of (fl ++ ext) -> shaped cx ext -> pos = off (fl ++ ext) ->
  Iv (pos :: bs) s' P -> post bs fl s'.
Proof.
  intros K S Ep H. destruct (kinds_split P fl ext K) as (a' & b' & EP & Ka & Kb). subst P.
  exists a', b', (pos :: bs). splits; auto.
  - eapply shaped_kinds; [symmetry; exact Kb|exact S].
  - apply incl_tl, incl_refl.
  - intros b [<-|Hb]; auto. right. right. rewrite Ep. apply off_kinds. symmetry. exact K.
Qed.

Lemma end_safe bs s fl (ir : bool) (v : vstate) s' :
  Iv bs s fl -> c_last s = None ->
  match c_bp s with
  | [] => None
  | JKnown _ :: bp' =>
      let s1 := set_bp s bp' in
      if negb ir && (length (c_stack s1) <? v_opds v)%nat then Some (snd (provide s1)) else Some s1
  | JUnknown locs result :: bp' =>
      let s1 := set_bp s bp' in
      let s2 :=
        match result with
        | Some res =>
            if ir then
              match consume s1 with
              | Some (p, s2) => Some (provide_existing (copy_if_needed s2 p res) res)
              | None => None
              end
            else
              let s2 := if (length (c_stack s1) =? v_opds v)%nat
                        then match consume s1 with Some (_, x) => Some x | None => None end
                        else Some s1 in
              match s2 with Some s2 => Some (provide_existing s2 res) | None => None end
        | None => Some s1
        end in
      match s2 with
      | Some s2 => let pos := cur_off s2 in Some (fold_left (fun acc l => back_patch acc l pos) locs s2)
      | None => None
      end
  end = Some s' -> post bs fl s'.
Proof.
  intros H Hl E. destruct (c_bp s) as [|[pos|locs result] bp'] eqn:Eb; [discriminate| |].
  - assert (H1 : L bs (all_locs bp') (set_bp s bp') fl).
    { apply (L_set_bp nl).
      - unfold CompileSafe2.Iv in H. rewrite Eb in H. exact H.
      - intros p Hp. apply (l_known _ _ _ _ _ H). rewrite Eb. right. exact Hp.
      - intros lo r Hp. apply (l_res _ _ _ _ _ H lo). rewrite Eb. right. exact Hp. }
    cbv zeta in E. destruct (negb ir && (length (c_stack (set_bp s bp')) <? v_opds v)%nat); inversion E; subst; clear E.
    + unfold provide. destruct (dyn_get (set_bp s bp')) as [r s2] eqn:Ed. cbn [snd].
      destruct (L_dyn_get nl _ _ _ _ _ _ H1 Ed) as (H2 & Br & B2 & L2 & N2 & S2 & _).
      destruct (dyn_get_spec nl _ r s2 Ed (l_cwf _ _ _ _ _ H1)) as (_ & Nr & _ & _ & _ & _ & _ & _ & W').
      apply (post_simple bs fl []); [rewrite app_nil_r|apply shaped_nil].
      eapply (Iv_of_L bs (set_bp s bp')); [|cbn; exact B2].
      eapply (L_alloc nl); [exact H2|apply cwf_push_dyn; auto| | | | |]; try reflexivity; try lia.
    + apply (post_simple bs fl []); [rewrite app_nil_r; exact H1|apply shaped_nil].
  - set (pl := locs ++ all_locs bp').
    assert (H1 : L bs pl (set_bp s bp') fl).
    { apply (L_set_bp nl).
      - unfold CompileSafe2.Iv in H. rewrite Eb in H. exact H.
      - intros p Hp. apply (l_known _ _ _ _ _ H). rewrite Eb. right. exact Hp.
      - intros lo r Hp. apply (l_res _ _ _ _ _ H lo). rewrite Eb. right. exact Hp. }
    assert (L1 : c_last (set_bp s bp') = None) by exact Hl.
    cbv zeta in E.
    match type of E with match ?X with _ => _ end = _ => destruct X as [s2|] eqn:E2; [|discriminate] end.
    inversion E; subst; clear E.
    assert (C : exists ext, L bs pl s2 (fl ++ ext) /\ shaped cx ext /\ c_last s2 = None /\ c_bp s2 = bp').
    { destruct result as [res|].
      - assert (Hr : res_ok nl (c_next s) res) by (apply (l_res _ _ _ _ _ H locs); rewrite Eb; left; reflexivity).
        destruct ir.
        + destruct (consume (set_bp s bp')) as [[p s3]|] eqn:Ec; [|discriminate]. inversion E2; subst; clear E2.
          destruct (L_consume nl _ _ _ _ _ _ H1 Ec) as (H3 & F3 & L3 & B3 & N3 & _).
          destruct (L_copy nl _ _ _ _ p res H3 ltac:(congruence) F3 ltac:(rewrite N3; exact Hr)) as (H4 & L4 & B4 & N4 & _).
          destruct (L_provide_existing nl _ _ _ _ res H4 ltac:(rewrite N4, N3; exact Hr)) as (H5 & B5 & L5 & _).
          exists (copy_fields p res). splits; auto using copy_shaped; cbn [set_bp c_bp c_next c_last] in *; congruence.
        + assert (C0 : exists s3, L bs pl s3 fl /\ c_last s3 = None /\ c_bp s3 = bp' /\ c_next s3 = c_next s
                                  /\ s2 = provide_existing s3 res).
          { destruct (length (c_stack (set_bp s bp')) =? v_opds v)%nat.
            - destruct (consume (set_bp s bp')) as [[p s3]|] eqn:Ec; [|discriminate]. inversion E2; subst; clear E2.
              destruct (L_consume nl _ _ _ _ _ _ H1 Ec) as (H3 & F3 & L3 & B3 & N3 & _). exists s3. splits; auto; cbn [set_bp c_bp c_next c_last] in *; congruence.
            - inversion E2; subst. exists (set_bp s bp'). splits; auto. }
          destruct C0 as (s3 & H3 & L3 & B3 & N3 & ->).
          destruct (L_provide_existing nl _ _ _ _ res H3 ltac:(rewrite N3; exact Hr)) as (H5 & B5 & L5 & _).
          exists []. rewrite app_nil_r. splits; auto using shaped_nil; cbn [set_bp c_bp c_next c_last] in *; congruence.
      - inversion E2; subst. exists []. rewrite app_nil_r. splits; auto using shaped_nil. }
    destruct C as (ext & H2 & S2 & L2 & B2).
    assert (Ep : cur_off s2 = off (fl ++ ext)) by (eapply cur_off_off; eauto).
    assert (H2' : L (cur_off s2 :: bs) (locs ++ all_locs bp') s2 (fl ++ ext)) by (eapply (L_bs nl); [exact H2|apply incl_tl, incl_refl]).
    destruct (L_patch_all (cur_off s2 :: bs) (cur_off s2) locs (all_locs bp') s2 (fl ++ ext) H2' L2 (or_introl eq_refl))
      as (P & K & H3 & B3).
    apply (post_patched bs fl ext P _ (cur_off s2) K S2 Ep).
    unfold CompileSafe2.Iv. rewrite B3, B2. exact H3.
Qed.

End Safe3.
