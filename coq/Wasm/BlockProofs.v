(** * Stage B: structured control without loops and calls (block / if / else / end, br, br_if)
    on top of the straight-line simulation.  See [compile_block_correct] at the end for the
    exact statement and [blocks_ok] for the accepted constructs. *)
From Coq Require Import ZArith NArith List Lia Bool FMapPositive.
From CB Require Import Common.IntN Common.IntNProofs Wasm.Syntax Wasm.Opcodes Wasm.Sem Wasm.Compile Wasm.Machine
     Wasm.MachineLemmas Wasm.CompileLemmas Wasm.NumOpsProofs Wasm.SemProofs Wasm.StraightProofs.
Import ListNotations.
Local Open Scope Z_scope.
Local Arguments i32_bytes : simpl never.
Local Arguments u32_bytes : simpl never.
Local Arguments u16_bytes : simpl never.

(** ** straight-line instructions leave the back-patch stack alone and keep [cwf] *)
Lemma consume_bp s p s' : consume s = Some (p, s') -> c_bp s' = c_bp s.
Proof.
  unfold consume. destruct (c_stack s) as [|q st0]; [discriminate|].
  destruct (negb (existsb (provider_eqb q) st0)); intros H; inversion H; subst; destruct p; reflexivity.
Qed.
Lemma push_consume_n_bp k : forall s s', push_consume_n k s = Some s' -> c_bp s' = c_bp s.
Proof.
  induction k; intros s s' H; cbn [push_consume_n] in H; [inversion H; reflexivity|].
  unfold push_consume in H. destruct (consume s) as [[p s1]|] eqn:E; [|discriminate].
  rewrite (IHk _ _ H). cbn. apply (consume_bp _ _ _ E).
Qed.
Lemma dyn_get_bp s r s' : dyn_get s = (r, s') -> c_bp s' = c_bp s.
Proof. unfold dyn_get. destruct (c_reuse s); intros H; inversion H; reflexivity. Qed.
Lemma gi_bp s opc imm k prov s1 : gi s opc imm k prov = Some s1 -> c_bp s1 = c_bp s.
Proof.
  unfold gi. destruct (push_consume_n k (emit_imm (push_op s opc) imm)) as [s2|] eqn:E; [|discriminate].
  pose proof (push_consume_n_bp _ _ _ E) as B. destruct (emit_imm_out (push_op s opc) imm) as (_ & _ & Eb & _).
  intros H. destruct prov; inversion H; subst; clear H.
  - unfold push_provide, provide. destruct (dyn_get s2) as [r s3] eqn:Ed. cbn. rewrite (dyn_get_bp _ _ _ Ed), B, Eb. reflexivity.
  - rewrite B, Eb. reflexivity.
Qed.
Lemma set_tee_bp lp s i b s1 : set_tee lp s i b = Some s1 -> c_bp s1 = c_bp s.
Proof.
  unfold set_tee. rewrite preserve_local_spec.
  destruct (has_local (Z.of_nat i) (c_stack s)).
  - destruct (dyn_get s) as [d s0'] eqn:Ed. pose proof (dyn_get_bp _ _ _ Ed) as B.
    destruct lp; unfold push_consume;
      match goal with |- context [consume ?X] => destruct (consume X) as [[p s4]|] eqn:E; [|discriminate] end;
      pose proof (consume_bp _ _ _ E) as B2; cbn in B2; intros H; destruct b; inversion H; subst; cbn; congruence.
  - destruct lp; unfold push_consume;
      match goal with |- context [consume ?X] => destruct (consume X) as [[p s4]|] eqn:E; [|discriminate] end;
      pose proof (consume_bp _ _ _ E) as B2; cbn in B2; intros H; destruct b; inversion H; subst; cbn; congruence.
Qed.
Lemma score_bp lp s b s1 : straight b = true -> score lp s b = Some s1 -> c_bp s1 = c_bp s.
Proof.
  intros Hs H. destruct b; try discriminate Hs; cbn [score] in H;
    try (cbn [gi_shape] in H; apply (gi_bp _ _ _ _ _ _ H)).
  - inversion H; reflexivity.
  - destruct (consume s) as [[p s']|] eqn:E; [|discriminate]. inversion H; subst. apply (consume_bp _ _ _ E).
  - inversion H; reflexivity.
  - apply (set_tee_bp _ _ _ _ _ H).
  - apply (set_tee_bp _ _ _ _ _ H).
  - inversion H; subst. unfold push_constant. destruct (find _ _) as [[? ?]|]; reflexivity.
Qed.

Definition locals_in (nl : Z) (b : binstr) : bool :=
  match b with BLocalGet i | BLocalSet i | BLocalTee i => Z.of_nat i <? nl | _ => true end.

Lemma set_tee_tail_cwf nl s3 idx b s1 :
  cwf nl s3 -> 0 <= idx < nl -> set_tee_tail s3 idx b = Some s1 -> cwf nl s1.
Proof.
  intros W Hi H. unfold set_tee_tail, push_consume in H.
  destruct (consume (push_op s3 ICopy)) as [[p s4]|] eqn:E; [|discriminate].
  assert (W0 : cwf nl (push_op s3 ICopy)) by (eapply cwf_same; [|exact W]; repeat split).
  destruct (consume_spec nl _ p s4 E W0) as (_ & _ & _ & _ & W4 & _).
  assert (W5 : cwf nl (emit (push_loc s4 p) (i32_bytes idx))) by (eapply cwf_same; [|exact W4]; repeat split).
  destruct b; inversion H; subst; [exact W5|]. exact (cwf_push_local nl _ idx W5 Hi).
Qed.

Lemma set_tee_cwf nl lp s i b s1 :
  cwf nl s -> 0 <= Z.of_nat i < nl -> set_tee lp s i b = Some s1 -> cwf nl s1.
Proof.
  intros W Hi H. unfold set_tee in H. rewrite preserve_local_spec in H.
  destruct (has_local (Z.of_nat i) (c_stack s)) eqn:Hl.
  - destruct (dyn_get s) as [d s0'] eqn:Ed.
    destruct (dyn_get_spec nl s d s0' Ed W) as (B & N & Nst & Es & _ & Ec & Bn & Sub & W').
    assert (Fst : Forall (pwf nl s0') (map (subst_local (Z.of_nat i) (PDyn d)) (c_stack s))).
    { pose proof (w_stack _ _ W') as F. rewrite Es in F. apply Forall_forall. intros q Hq. apply in_map_iff in Hq.
      destruct Hq as (q0 & <- & Hq0). unfold subst_local. destruct (is_local (Z.of_nat i) q0).
      - cbn. split; [lia|exact N].
      - rewrite Forall_forall in F. apply F. exact Hq0. }
    assert (W3 : cwf nl (push_loc (emit (push_op (set_stack s0' (map (subst_local (Z.of_nat i) (PDyn d)) (c_stack s))) ICopy)
                                        (i32_bytes (Z.of_nat i))) (PDyn d))).
    { eapply cwf_same; [|apply (cwf_set_stack nl s0' _ W' Fst)]. repeat split. }
    assert (Ht : set_tee_tail (push_loc (emit (push_op (set_stack s0' (map (subst_local (Z.of_nat i) (PDyn d)) (c_stack s))) ICopy)
                                              (i32_bytes (Z.of_nat i))) (PDyn d)) (Z.of_nat i) b = Some s1) by (destruct lp; exact H).
    eapply set_tee_tail_cwf; eauto.
  - assert (W2 : cwf nl (set_stack s (c_stack s))) by (eapply cwf_same; [|exact W]; repeat split).
    destruct lp as [off|].
    + destruct (consume (back_patch (set_stack s (c_stack s)) off (Z.of_nat i))) as [[p s4]|] eqn:E; [|discriminate].
      assert (Wb : cwf nl (back_patch (set_stack s (c_stack s)) off (Z.of_nat i))) by (eapply cwf_same; [|exact W2]; repeat split).
      destruct (consume_spec nl _ p s4 E Wb) as (_ & _ & _ & _ & W4 & _).
      destruct b; inversion H; subst; [exact W4|]. exact (cwf_push_local nl _ (Z.of_nat i) W4 Hi).
    + eapply set_tee_tail_cwf; eauto.
Qed.

Lemma score_cwf nl lp s b s1 :
  straight b = true -> locals_in nl b = true -> cwf nl s -> score lp (set_last s None) b = Some s1 -> cwf nl s1.
Proof.
  intros Hs Hl W H. assert (W0 : cwf nl (set_last s None)) by (eapply cwf_same; [|exact W]; repeat split).
  assert (GI : forall opc imm k prov, gi (set_last s None) opc imm k prov = Some s1 -> cwf nl s1).
  { intros opc imm k prov Hgi. destruct (gi_compile nl s opc imm k prov s1 W Hgi) as (ps & rest & _ & _ & _ & _ & _ & W1 & _). exact W1. }
  destruct b; try discriminate Hs; cbn [score] in H; cbn [locals_in] in Hl;
    try (cbn [gi_shape] in H; eapply GI; exact H).
  - inversion H; subst. exact W0.
  - destruct (consume (set_last s None)) as [[p s']|] eqn:E; [|discriminate]. inversion H; subst.
    destruct (consume_spec nl _ p s1 E W0) as (_ & _ & _ & _ & W4 & _). exact W4.
  - inversion H; subst. apply Z.ltb_lt in Hl. exact (cwf_push_local nl _ (Z.of_nat i) W0 ltac:(lia)).
  - apply Z.ltb_lt in Hl. eapply set_tee_cwf; eauto. lia.
  - apply Z.ltb_lt in Hl. eapply set_tee_cwf; eauto. lia.
  - inversion H; subst. destruct (push_constant_spec nl (set_last s None) (const_i64 t z) W0) as (idx & _ & _ & _ & _ & _ & _ & _ & W1). exact W1.
Qed.

(** ** pending back-patch locations: invariants and the "later output extends earlier output
    except at pending locations" relation *)
Definition locs_of (j : jump_target) : list Z := match j with JUnknown l _ => l | JKnown _ => [] end.
Definition all_locs (bp : list jump_target) : list Z := flat_map locs_of bp.
Definition in_win (loc : Z) (p : nat) : Prop := loc <= Z.of_nat p < loc + 4.
Definition pending (s : cstate) (p : nat) : Prop := exists loc, In loc (all_locs (c_bp s)) /\ in_win loc p.

Record bpwf (s : cstate) : Prop := {
  bw_range : forall loc, In loc (all_locs (c_bp s)) -> 0 <= loc /\ loc + 4 <= cur_off s;
  bw_sep : forall a b, In a (all_locs (c_bp s)) -> In b (all_locs (c_bp s)) -> a = b \/ a + 4 <= b \/ b + 4 <= a;
  bw_nodup : NoDup (all_locs (c_bp s))
}.

Definition ext (s s1 : cstate) : Prop :=
  (length (c_out s) <= length (c_out s1))%nat /\
  forall p, (p < length (c_out s))%nat -> ~ pending s p ->
            nth p (c_out s1) 0%N = nth p (c_out s) 0%N /\ ~ pending s1 p.
Definition matches (F : list N) (s : cstate) : Prop :=
  (length (c_out s) <= length F)%nat /\
  forall p, (p < length (c_out s))%nat -> ~ pending s p -> nth p F 0%N = nth p (c_out s) 0%N.

Lemma ext_refl s : ext s s. Proof. split; [lia|]. intros; auto. Qed.
Lemma ext_trans a b d : ext a b -> ext b d -> ext a d.
Proof.
  intros [L1 H1] [L2 H2]. split; [lia|]. intros p Hp Hn. destruct (H1 p Hp Hn) as [E1 N1].
  destruct (H2 p ltac:(lia) N1) as [E2 N2]. split; [congruence|exact N2].
Qed.
Lemma matches_ext F s s1 : ext s s1 -> matches F s1 -> matches F s.
Proof.
  intros [L1 H1] [L2 H2]. split; [lia|]. intros p Hp Hn. destruct (H1 p Hp Hn) as [E1 N1].
  rewrite (H2 p ltac:(lia) N1). exact E1.
Qed.
Lemma ext_append s s1 t : c_out s1 = c_out s ++ t -> c_bp s1 = c_bp s -> ext s s1.
Proof.
  intros Eo Eb. split; [rewrite Eo, app_length; lia|]. intros p Hp Hn. split.
  - rewrite Eo, app_nth1 by lia. reflexivity.
  - unfold pending in *. rewrite Eb. exact Hn.
Qed.

(** bytes of the final code *)
Definition win (F : list N) (loc : Z) : list N := firstn 4 (skipn (Z.to_nat loc) F).

Lemma nth_skipn' {A} (d : A) : forall k (l : list A) n, nth n (skipn k l) d = nth (k + n) l d.
Proof. induction k; intros [|x l] n; cbn; auto. destruct n; reflexivity. Qed.

Lemma nth_overwrite_other : forall (l : list N) pos bs p,
  (p < pos \/ pos + length bs <= p)%nat -> nth p (overwrite l pos bs) 0%N = nth p l 0%N.
Proof.
  induction l as [|x l IH]; intros pos bs p H.
  - destruct pos; cbn [overwrite]; [|reflexivity]. rewrite skipn_nil, app_nil_r.
    destruct H as [H|H]; [lia|]. rewrite !nth_overflow; cbn; auto; lia.
  - destruct pos as [|pos]; cbn [overwrite].
    + destruct H as [H|H]; [lia|]. rewrite app_nth2 by lia. rewrite nth_skipn'. f_equal. lia.
    + destruct p as [|p]; cbn [nth]; [reflexivity|]. apply IH. lia.
Qed.
Lemma nth_overwrite_in : forall (l : list N) pos bs p,
  (pos + length bs <= length l)%nat -> (pos <= p < pos + length bs)%nat ->
  nth p (overwrite l pos bs) 0%N = nth (p - pos) bs 0%N.
Proof.
  induction l as [|x l IH]; intros pos bs p Hl H.
  - cbn in Hl. assert (length bs = O) by lia. lia.
  - destruct pos as [|pos]; cbn [overwrite].
    + rewrite app_nth1 by lia. f_equal. lia.
    + destruct p as [|p]; [lia|]. cbn [nth]. rewrite IH by (cbn in Hl; lia). reflexivity.
Qed.
Lemma overwrite_length : forall (l : list N) pos bs, (pos + length bs <= length l)%nat -> length (overwrite l pos bs) = length l.
Proof.
  induction l as [|x l IH]; intros pos bs H.
  - cbn in H. destruct pos; cbn; [|reflexivity]. rewrite skipn_nil, app_nil_r. lia.
  - destruct pos as [|pos]; cbn [overwrite length].
    + rewrite app_length, skipn_length. cbn [length] in *. lia.
    + f_equal. apply IH. cbn in H. lia.
Qed.

(** ** machine steps of the control instructions *)
Section Ctl.
Variable art : artifact.
Variable mhost : nat -> list Z -> option (option Z).
Variable codes : list (code_map * list Z).
Variable fidx : nat.
Variable c : code_map.
Variable consts : list Z.
Hypothesis Hcode : nth_error codes fidx = Some (c, consts).

Notation mstep := (step art mhost codes).

Lemma mstep_br M tgt :
  ms_idx M = fidx -> code_at c (ms_pc M) (IBr :: u32_bytes tgt) -> 0 <= tgt < 4294967296 ->
  mstep M = SNext (set_pc M tgt).
Proof.
  intros Hi Hc Ht. apply code_at_cons in Hc. destruct Hc as [H0 H1].
  rewrite (mstep_at art mhost codes fidx c consts Hcode M Hi), H0, N2Z.id.
  change (exec_op art mhost c consts M (ms_pc M + 1) IBr) with (SNext (set_pc M (get_u32 c (ms_pc M + 1)))).
  rewrite (code_at_u32 c _ tgt Ht H1). reflexivity.
Qed.

Lemma mstep_br_if M tgt a :
  ms_idx M = fidx -> code_at c (ms_pc M) (IBrIf :: u32_bytes tgt ++ i32_bytes a) -> 0 <= tgt < 4294967296 ->
  -2147483648 <= a < 2147483648 ->
  mstep M = SNext (set_pc M (if as_i32 (get_local consts M a) =? 0 then ms_pc M + 9 else tgt)).
Proof.
  intros Hi Hc Ht Ha. apply code_at_cons in Hc. destruct Hc as [H0 Hc]. apply code_at_app in Hc. destruct Hc as [H1 H2].
  rewrite u32_bytes_length in H2.
  rewrite (mstep_at art mhost codes fidx c consts Hcode M Hi), H0, N2Z.id.
  change (exec_op art mhost c consts M (ms_pc M + 1) IBrIf) with
    (let tgt := get_u32 c (ms_pc M + 1) in
     let cond := get_local consts M (get_i32 c (ms_pc M + 1 + 4)) in
     SNext (set_pc M (if as_i32 cond =? 0 then ms_pc M + 1 + 8 else tgt))).
  cbv zeta. rewrite (code_at_u32 c _ tgt Ht H1).
  replace (ms_pc M + 1 + 4) with (ms_pc M + 1 + Z.of_nat 4) by lia. rewrite (code_at_i32 c _ a Ha H2).
  replace (ms_pc M + 1 + 8) with (ms_pc M + 9) by lia. reflexivity.
Qed.

Lemma mstep_if M a tgt :
  ms_idx M = fidx -> code_at c (ms_pc M) (IIf :: i32_bytes a ++ u32_bytes tgt) -> 0 <= tgt < 4294967296 ->
  -2147483648 <= a < 2147483648 ->
  mstep M = SNext (set_pc M (if as_i32 (get_local consts M a) =? 0 then tgt else ms_pc M + 9)).
Proof.
  intros Hi Hc Ht Ha. apply code_at_cons in Hc. destruct Hc as [H0 Hc]. apply code_at_app in Hc. destruct Hc as [H1 H2].
  rewrite i32_bytes_length in H2.
  rewrite (mstep_at art mhost codes fidx c consts Hcode M Hi), H0, N2Z.id.
  change (exec_op art mhost c consts M (ms_pc M + 1) IIf) with
    (let cond := get_local consts M (get_i32 c (ms_pc M + 1)) in
     let tgt := get_u32 c (ms_pc M + 1 + 4) in
     SNext (set_pc M (if as_i32 cond =? 0 then tgt else ms_pc M + 1 + 8))).
  cbv zeta. rewrite (code_at_i32 c _ a Ha H1).
  replace (ms_pc M + 1 + 4) with (ms_pc M + 1 + Z.of_nat 4) by lia. rewrite (code_at_u32 c _ tgt Ht H2).
  replace (ms_pc M + 1 + 8) with (ms_pc M + 9) by lia. reflexivity.
Qed.
End Ctl.

(** ** all_locs under the updates the compiler performs *)
Lemma all_locs_cons j r : all_locs (j :: r) = locs_of j ++ all_locs r. Proof. reflexivity. Qed.

Lemma all_locs_update : forall bp l locs res x,
  nth_error bp l = Some (JUnknown locs res) ->
  exists A B, all_locs bp = A ++ B /\ all_locs (update_nth bp l (JUnknown (locs ++ [x]) res)) = A ++ x :: B.
Proof.
  induction bp as [|j r IH]; intros [|l] locs res x H; cbn in H; try discriminate.
  - inversion H; subst. exists locs, (all_locs r). cbn [update_nth all_locs flat_map locs_of]. split; [reflexivity|].
    rewrite <- app_assoc. reflexivity.
  - destruct (IH l locs res x H) as (A & B & E1 & E2). exists (locs_of j ++ A), B.
    cbn [update_nth]. rewrite !all_locs_cons, E1, E2, <- !app_assoc. split; reflexivity.
Qed.

Lemma checked v r s' :
  match r with Some x => if (length (c_stack x) =? v_opds v)%nat then Some x else None | None => None end = Some s' ->
  r = Some s' /\ length (c_stack s') = v_opds v.
Proof.
  destruct r as [x|]; [|discriminate]. destruct (Nat.eqb_spec (length (c_stack x)) (v_opds v)); [|discriminate].
  intros H; inversion H; subst; auto.
Qed.

(** new location at the end of the output: fresh with respect to a well-formed state *)
Lemma fresh_loc s x : bpwf s -> cur_off s <= x ->
  ~ In x (all_locs (c_bp s)) /\ forall a, In a (all_locs (c_bp s)) -> a + 4 <= x.
Proof.
  intros W Hx. split.
  - intro Hin. destruct (bw_range _ W x Hin). lia.
  - intros a Ha. destruct (bw_range _ W a Ha). lia.
Qed.

(** a state whose pending locations are those of [s] plus one fresh location inside the new output *)
Lemma bpwf_add s s1 x A B :
  bpwf s -> all_locs (c_bp s) = A ++ B -> all_locs (c_bp s1) = A ++ x :: B ->
  cur_off s <= x -> x + 4 <= cur_off s1 -> cur_off s <= cur_off s1 -> bpwf s1.
Proof.
  intros W E E1 Hx Hx1 Hle. destruct (fresh_loc s x W Hx) as [Hn Hs].
  assert (Hin : forall y, In y (all_locs (c_bp s1)) <-> y = x \/ In y (all_locs (c_bp s))).
  { intros y. rewrite E1, E, !in_app_iff. cbn. intuition. }
  constructor.
  - intros loc Hl. apply Hin in Hl. destruct Hl as [->|Hl]; [unfold cur_off in *; lia|]. destruct (bw_range _ W loc Hl). lia.
  - intros a b Ha Hb. apply Hin in Ha. apply Hin in Hb. destruct Ha as [->|Ha], Hb as [->|Hb].
    + left; reflexivity.
    + right. right. apply Hs. exact Hb.
    + right. left. apply Hs. exact Ha.
    + apply (bw_sep _ W); auto.
  - rewrite E1. apply (NoDup_Add (Add_app x A B)). split; [rewrite <- E; apply (bw_nodup _ W)|rewrite <- E; exact Hn].
Qed.

Lemma ext_add s s1 t x A B :
  c_out s1 = c_out s ++ t -> all_locs (c_bp s) = A ++ B -> all_locs (c_bp s1) = A ++ x :: B ->
  cur_off s <= x -> ext s s1.
Proof.
  intros Eo E E1 Hx. split; [rewrite Eo, app_length; lia|]. intros p Hp Hn. split.
  - rewrite Eo, app_nth1 by lia. reflexivity.
  - intros (loc & Hl & Hw). rewrite E1 in Hl. apply in_app_iff in Hl. cbn in Hl.
    assert (Hc : loc = x \/ In loc (all_locs (c_bp s))) by (rewrite E, in_app_iff; intuition).
    destruct Hc as [->|Hc].
    + unfold in_win, cur_off in *. lia.
    + apply Hn. exists loc. auto.
Qed.
Lemma ext_same_locs s s1 t :
  c_out s1 = c_out s ++ t -> all_locs (c_bp s1) = all_locs (c_bp s) -> ext s s1.
Proof.
  intros Eo Eb. split; [rewrite Eo, app_length; lia|]. intros p Hp Hn. split.
  - rewrite Eo, app_nth1 by lia. reflexivity.
  - unfold pending in *. rewrite Eb. exact Hn.
Qed.
Lemma bpwf_same_locs s s1 : bpwf s -> all_locs (c_bp s1) = all_locs (c_bp s) -> cur_off s <= cur_off s1 -> bpwf s1.
Proof.
  intros [W1 W2 W3] E H. constructor; rewrite E; auto. intros loc Hl. destruct (W1 loc Hl). lia.
Qed.

(** ** back-patching a set of pending windows *)
Definition patch_all (out : list N) (locs : list Z) (pos : Z) : list N :=
  fold_left (fun o l => overwrite o (Z.to_nat l) (u32_bytes pos)) locs out.

Lemma fold_back_patch pos : forall locs s,
  let s' := fold_left (fun acc l => back_patch acc l pos) locs s in
  c_out s' = patch_all (c_out s) locs pos /\ c_bp s' = c_bp s /\ c_stack s' = c_stack s /\ c_next s' = c_next s
  /\ c_reuse s' = c_reuse s /\ c_consts s' = c_consts s /\ c_last s' = c_last s.
Proof.
  induction locs as [|a r IH]; intros s; cbn [fold_left patch_all].
  - repeat split.
  - specialize (IH (back_patch s a pos)). cbn zeta in IH. destruct IH as (A & B & C & D & E & G & H).
    unfold patch_all in *. rewrite A, B, C, D, E, G, H. repeat split.
Qed.

Definition win_ok (n : nat) (loc : Z) : Prop := 0 <= loc /\ (Z.to_nat loc + 4 <= n)%nat.
Definition sep (a b : Z) : Prop := a + 4 <= b \/ b + 4 <= a.

Lemma patch_all_length pos : forall locs out, Forall (win_ok (length out)) locs -> length (patch_all out locs pos) = length out.
Proof.
  induction locs as [|a r IH]; intros out H; cbn [patch_all fold_left]; [reflexivity|].
  inversion H as [|? ? Ha Hr]; subst. destruct Ha as [Ha0 Ha1].
  assert (L : length (overwrite out (Z.to_nat a) (u32_bytes pos)) = length out).
  { apply overwrite_length. rewrite u32_bytes_length. exact Ha1. }
  fold (patch_all (overwrite out (Z.to_nat a) (u32_bytes pos)) r pos). rewrite IH; [exact L|]. rewrite L. exact Hr.
Qed.

Lemma patch_all_other pos p : forall locs out,
  (forall loc, In loc locs -> 0 <= loc /\ ~ in_win loc p) -> nth p (patch_all out locs pos) 0%N = nth p out 0%N.
Proof.
  induction locs as [|a r IH]; intros out H; cbn [patch_all fold_left]; [reflexivity|].
  fold (patch_all (overwrite out (Z.to_nat a) (u32_bytes pos)) r pos). rewrite IH by (intros; apply H; right; auto).
  apply nth_overwrite_other. rewrite u32_bytes_length. destruct (H a (or_introl eq_refl)) as [H0 H1]. unfold in_win in H1. lia.
Qed.

Lemma patch_all_in pos p loc : forall locs out,
  In loc locs -> in_win loc p -> Forall (win_ok (length out)) locs ->
  (forall a b, In a locs -> In b locs -> a = b \/ sep a b) ->
  nth p (patch_all out locs pos) 0%N = nth (p - Z.to_nat loc) (u32_bytes pos) 0%N.
Proof.
  induction locs as [|a r IH]; intros out Hin Hw Hok Hsep; [destruct Hin|].
  cbn [patch_all fold_left]. fold (patch_all (overwrite out (Z.to_nat a) (u32_bytes pos)) r pos).
  inversion Hok as [|? ? Ha Hr]; subst. destruct Ha as [Ha0 Ha1].
  assert (L : length (overwrite out (Z.to_nat a) (u32_bytes pos)) = length out).
  { apply overwrite_length. rewrite u32_bytes_length. exact Ha1. }
  destruct (in_dec Z.eq_dec loc r) as [Hr'|Hr'].
  - apply IH; auto. { rewrite L. exact Hr. } intros; apply Hsep; right; auto.
  - destruct Hin as [->|Hin]; [|contradiction].
    rewrite patch_all_other.
    + apply nth_overwrite_in; rewrite u32_bytes_length; unfold in_win in Hw; lia.
    + intros b Hb. rewrite Forall_forall in Hr. destruct (Hr b Hb) as [Hb0 _]. split; [exact Hb0|].
      destruct (Hsep loc b (or_introl eq_refl) (or_intror Hb)) as [->|Hs]; [contradiction|].
      unfold in_win, sep in *. lia.
Qed.

(** window [loc] holds the target [T] and is no longer pending *)
Definition resolved (s : cstate) (loc T : Z) : Prop :=
  0 <= loc /\ (Z.to_nat loc + 4 <= length (c_out s))%nat /\
  forall j, (j < 4)%nat -> nth (Z.to_nat loc + j) (c_out s) 0%N = nth j (u32_bytes T) 0%N /\ ~ pending s (Z.to_nat loc + j).

Lemma pending_sub s s1 p : (forall x, In x (all_locs (c_bp s1)) -> In x (all_locs (c_bp s))) -> pending s1 p -> pending s p.
Proof. intros H (loc & Hl & Hw). exists loc. auto. Qed.

Lemma nodup_app {A} (a b : list A) : NoDup (a ++ b) -> NoDup b /\ forall x, In x a -> In x b -> False.
Proof.
  induction a as [|y a IH]; cbn; intros H; [split; [exact H|intros x []]|].
  inversion H as [|? ? Hy Hn]; subst. destruct (IH Hn) as [Hb Hd]. split; [exact Hb|].
  intros x [->|Hx] Hxb; [apply Hy; apply in_or_app; auto|eapply Hd; eauto].
Qed.

(** [End] with a result-less frame: all jumps of the frame are patched to the current offset *)
Lemma end_patch s locs res bp' s1 :
  bpwf s -> c_bp s = JUnknown locs res :: bp' ->
  s1 = fold_left (fun acc l => back_patch acc l (cur_off s)) locs (set_bp (set_last s None) bp') ->
  c_bp s1 = bp' /\ c_stack s1 = c_stack s /\ c_next s1 = c_next s /\ c_reuse s1 = c_reuse s /\ c_consts s1 = c_consts s
  /\ c_last s1 = None /\ cur_off s1 = cur_off s /\ bpwf s1 /\ ext s s1
  /\ forall loc, In loc locs -> resolved s1 loc (cur_off s).
Proof.
  intros W Eb ->. destruct (fold_back_patch (cur_off s) locs (set_bp (set_last s None) bp')) as (A & B & C & D & E & G & H).
  cbn zeta in *. set (s1 := fold_left _ locs _) in *. cbn [set_bp set_last c_out c_bp c_stack c_next c_reuse c_consts c_last] in *.
  assert (Hall : all_locs (c_bp s) = locs ++ all_locs bp') by (rewrite Eb; reflexivity).
  assert (Hok : Forall (win_ok (length (c_out s))) locs).
  { apply Forall_forall. intros x Hx. destruct (bw_range _ W x) as [X0 X1]; [rewrite Hall; apply in_or_app; auto|].
    unfold cur_off in X1. split; lia. }
  assert (Hsep : forall a b, In a locs -> In b locs -> a = b \/ sep a b).
  { intros a b Ha Hb. apply (bw_sep _ W); rewrite Hall; apply in_or_app; auto. }
  assert (L : length (c_out s1) = length (c_out s)) by (rewrite A; apply patch_all_length; exact Hok).
  assert (Hsub : forall x, In x (all_locs (c_bp s1)) -> In x (all_locs (c_bp s))).
  { intros x Hx. rewrite B in Hx. rewrite Hall. apply in_or_app; auto. }
  assert (Hco : cur_off s1 = cur_off s) by (unfold cur_off; rewrite L; reflexivity).
  splits; auto.
  - constructor.
    + intros loc Hl. rewrite Hco. apply (bw_range _ W). auto.
    + intros a b Ha Hb. apply (bw_sep _ W); auto.
    + rewrite B. pose proof (bw_nodup _ W) as Hn. rewrite Hall in Hn. apply nodup_app in Hn. apply Hn.
  - split; [lia|]. intros p Hp Hn. split.
    + rewrite A. apply patch_all_other. intros loc Hl. split.
      * apply (bw_range _ W). rewrite Hall. apply in_or_app; auto.
      * intros Hw. apply Hn. exists loc. split; [rewrite Hall; apply in_or_app; auto|exact Hw].
    + intros Hp1. apply Hn. eapply pending_sub; eauto.
  - intros loc Hl. rewrite Forall_forall in Hok. destruct (Hok loc Hl) as [H0 H1]. split; [exact H0|]. split; [lia|].
    intros j Hj. split.
    + rewrite A. rewrite (patch_all_in (cur_off s) (Z.to_nat loc + j) loc locs (c_out s) Hl); auto.
      * f_equal. lia.
      * unfold in_win. lia.
      * apply Forall_forall. exact Hok.
    + intros (x & Hx & Hw). rewrite B in Hx.
      assert (Hx' : In x (all_locs (c_bp s))) by (rewrite Hall; apply in_or_app; auto).
      assert (Hl' : In loc (all_locs (c_bp s))) by (rewrite Hall; apply in_or_app; auto).
      destruct (bw_sep _ W loc x Hl' Hx') as [->|Hs].
      * pose proof (bw_nodup _ W) as Hn. rewrite Hall in Hn. apply nodup_app in Hn. destruct Hn as [_ Hn]. apply (Hn x); auto.
      * unfold in_win in Hw. lia.
Qed.

