(** * Stage B, part 3: the accepted fragment as a boolean, pure compile-side facts for whole
    instruction sequences, and the simulation of block / if / else / end / br / br_if. *)
From Coq Require Import ZArith NArith List Lia Bool FMapPositive.
From CB Require Import Common.IntN Common.IntNProofs Wasm.Syntax Wasm.Opcodes Wasm.Sem Wasm.Compile Wasm.Machine
     Wasm.MachineLemmas Wasm.CompileLemmas Wasm.NumOpsProofs Wasm.SemProofs Wasm.SyntaxProofs Wasm.StraightProofs
     Wasm.BlockProofs Wasm.BlockInv.
Import ListNotations.
Local Open Scope Z_scope.
Local Arguments i32_bytes : simpl never.
Local Arguments u32_bytes : simpl never.
Local Arguments u16_bytes : simpl never.

Lemma compile_ops_app cx : forall a b v s,
  compile_ops cx (a ++ b) v s =
  match compile_ops cx a v s with Some (v1, s1) => compile_ops cx b v1 s1 | None => None end.
Proof.
  induction a as [|op a IH]; intros b v s; cbn [app compile_ops]; [reflexivity|].
  destruct (vstep cx v op) as [v1|]; [|reflexivity].
  destruct (handle_opcode cx s v1 (v_reachability v) op) as [s1|]; [|reflexivity]. apply IH.
Qed.

(** ** the accepted constructs, checked while replaying the validator's height computation *)
Definition ctl_ok (nl : Z) (cx : cctx) (v : vstate) (op : opcode) : bool :=
  match op with
  | OEnd => true
  | OElse =>    (* the then-branch of a value-typed if must reach its else *)
      match v_ctrls v with
      | f :: _ => match vf_end f, v_unreach v with Some _, Some _ => false | _, _ => true end
      | [] => true
      end
  | OBlock _ => match v_unreach v with None => (v_opds v =? 0)%nat | Some _ => false end
  | OIf _ => match v_unreach v with None => (v_opds v =? 1)%nat | Some _ => false end
  | OLoop None => match v_unreach v with None => (v_opds v =? 0)%nat | Some _ => false end
  | OBasic (BBr _) | OBasic BUnreachable => match v_unreach v with None => true | Some _ => false end
  | OBasic (BBrIf l) => match v_unreach v, label_type v l with None, Some None => true | _, _ => false end
  | OBasic BReturn => match v_unreach v, cx_return cx, last (map (fun f => Some (vf_label f)) (v_ctrls v)) None with
                      | None, None, Some None => true
                      | None, Some _, Some (Some _) => true      (* return with a value *)
                      | _, _, _ => false end
  | OBasic b => match v_unreach v with None => straight_ok b && locals_in nl b | Some _ => false end
  | _ => false
  end.
Fixpoint lvl (nl : Z) (cx : cctx) (ops : list opcode) (v : vstate) : bool :=
  match ops with
  | [] => true
  | op :: r => ctl_ok nl cx v op && match vstep cx v op with Some v1 => lvl nl cx r v1 | None => false end
  end.

Lemma lvl_app nl cx : forall a b v v1 s s1,
  compile_ops cx a v s = Some (v1, s1) -> lvl nl cx (a ++ b) v = lvl nl cx a v && lvl nl cx b v1.
Proof.
  induction a as [|op a IH]; intros b v v1 s s1 H; cbn [app lvl compile_ops] in *.
  - inversion H; subst. reflexivity.
  - destruct (vstep cx v op) as [v2|]; [|discriminate].
    destruct (handle_opcode cx s v2 (v_reachability v) op) as [s2|]; [|discriminate].
    rewrite (IH b v2 v1 s2 s1 H). rewrite andb_assoc. reflexivity.
Qed.

(** ** straight-line segments: pure facts *)
Lemma straight_vstep_ctrls cx v b v' :
  straight b = true -> vstep cx v (OBasic b) = Some v' -> v_ctrls v' = v_ctrls v.
Proof.
  intros Hs H.
  assert (P : forall n w, v_ctrls (v_pushn n w) = v_ctrls w).
  { induction n; intros; cbn; auto. rewrite IHn. reflexivity. }
  assert (Q1 : forall w w', v_pop w = Some w' -> v_ctrls w' = v_ctrls w).
  { intros w w'. unfold v_pop. destruct (v_ctrls w) eqn:E; [discriminate|].
    destruct (v_opds w =? vf_height v0)%nat; [destruct (vf_unreachable v0)|]; intros E1; inversion E1; subst; cbn; auto. }
  assert (Q : forall n w w', v_popn n w = Some w' -> v_ctrls w' = v_ctrls w).
  { induction n; intros w w' E; cbn in E; [inversion E; reflexivity|].
    destruct (v_pop w) eqn:E1; [|discriminate]. rewrite (IHn _ _ E). eapply Q1; eauto. }
  destruct b; try discriminate Hs; cbn [vstep] in H;
    try (destruct (pops_pushes _) as [po pu] eqn:Epp; destruct (v_popn po v) eqn:E; [|discriminate];
         inversion H; rewrite P; rewrite (Q _ _ _ E); reflexivity).
Qed.

Lemma ctl_ok_straight nl cx v b : v_unreach v = None -> straight_ok b = true -> ctl_ok nl cx v (OBasic b) = true ->
  locals_in nl b = true.
Proof.
  intros Hu Hs H. unfold ctl_ok in H. rewrite Hu in H.
  destruct b; try reflexivity; try (apply andb_true_iff in H; tauto); discriminate Hs.
Qed.

Lemma seg_pure nl cx : forall bs s v v' sf,
  forallb straight_ok bs = true -> compile_ops cx (map OBasic bs) v s = Some (v', sf) ->
  lvl nl cx (map OBasic bs) v = true -> v_unreach v = None -> cwf nl s ->
  c_bp sf = c_bp s /\ cwf nl sf /\ v_ctrls v' = v_ctrls v /\ v_unreach v' = None
  /\ (bs <> [] -> length (c_stack sf) = v_opds v').
Proof.
  induction bs as [|b r IH]; intros s v v' sf Hok Hc Hl Hu W.
  - cbn in Hc. inversion Hc; subst. splits; auto. intros X; contradiction.
  - cbn [forallb] in Hok. apply andb_true_iff in Hok. destruct Hok as [Hb Hr].
    cbn [map compile_ops lvl] in Hc, Hl. apply andb_true_iff in Hl. destruct Hl as [Hl1 Hl2].
    rewrite (reach_of_none v Hu) in Hc.
    destruct (vstep cx v (OBasic b)) as [v1|] eqn:Ev; [|discriminate].
    destruct (handle_opcode cx s v1 Reachable (OBasic b)) as [s1|] eqn:Eh; [|discriminate].
    pose proof (straight_ok_straight b Hb) as Hst.
    destruct (handle_score cx s v1 b s1 Hst Eh) as [Hsc Hlen].
    pose proof (straight_vstep cx v b v1 Hst Hu Ev) as Hu1.
    pose proof (straight_vstep_ctrls cx v b v1 Hst Ev) as Hc1.
    pose proof (score_cwf nl (c_last s) s b s1 Hst (ctl_ok_straight nl cx v b Hu Hb Hl1) W Hsc) as W1.
    pose proof (score_bp _ _ _ _ Hst Hsc) as Hbp. cbn [set_last c_bp] in Hbp.
    destruct (IH s1 v1 v' sf Hr Hc Hl2 Hu1 W1) as (A & B & C & D & E).
    splits; try congruence; auto. intros _. destruct r as [|b2 r']; [|apply E; discriminate].
    cbn in Hc. inversion Hc; subst. exact Hlen.
Qed.

(** ** what a compiled sequence preserves *)
Record pres (nl : Z) (s s' : cstate) (v' : vstate) : Prop := {
  p_ext : ext s s';
  p_mono : mono s s';
  p_inv : inv nl s' v';
  p_bp : bp_sub (c_bp s) (c_bp s')
}.
Lemma ext_off s s' : ext s s' -> cur_off s <= cur_off s'.
Proof. intros [H _]. unfold cur_off. lia. Qed.
Lemma mono_eq s s1 : c_next s1 = c_next s -> c_consts s1 = c_consts s -> mono s s1.
Proof. intros A B. split; [lia|exists []; rewrite app_nil_r; exact B]. Qed.
Lemma pres_refl nl s v : inv nl s v -> pres nl s s v.
Proof. intros I. constructor; auto. apply ext_refl. apply mono_refl. eapply bp_sub_refl. apply (i_frames _ _ _ I). Qed.
Lemma pres_trans nl a b d vb vd : pres nl a b vb -> pres nl b d vd -> pres nl a d vd.
Proof.
  intros [A1 A2 A3 A4] [B1 B2 B3 B4]. constructor; auto.
  eapply ext_trans; eauto. eapply mono_trans; eauto. eapply bp_sub_trans; eauto.
Qed.

Lemma compile_cons cx op r v s v' s' : compile_ops cx (op :: r) v s = Some (v', s') ->
  exists v1 s1, vstep cx v op = Some v1 /\ handle_opcode cx s v1 (v_reachability v) op = Some s1
                /\ compile_ops cx r v1 s1 = Some (v', s').
Proof.
  cbn [compile_ops]. intros H. destruct (vstep cx v op) as [v1|] eqn:E1; [|discriminate].
  destruct (handle_opcode cx s v1 (v_reachability v) op) as [s1|] eqn:E2; [|discriminate]. exists v1, s1. repeat split; auto.
Qed.
Lemma compile_app_inv cx a b v s v' s' : compile_ops cx (a ++ b) v s = Some (v', s') ->
  exists v1 s1, compile_ops cx a v s = Some (v1, s1) /\ compile_ops cx b v1 s1 = Some (v', s').
Proof.
  rewrite compile_ops_app. intros H. destruct (compile_ops cx a v s) as [[v1 s1]|] eqn:E; [|discriminate]. exists v1, s1. auto.
Qed.
Lemma lvl_cons nl cx op r v v1 : lvl nl cx (op :: r) v = true -> vstep cx v op = Some v1 ->
  ctl_ok nl cx v op = true /\ lvl nl cx r v1 = true.
Proof. cbn [lvl]. intros H E. rewrite E in H. apply andb_true_iff in H. exact H. Qed.

Lemma flatten_app a b : flatten (a ++ b) = flatten a ++ flatten b.
Proof. unfold flatten. apply flat_map_app. Qed.
Lemma flatten_basics bs : flatten (map Basic bs) = map OBasic bs.
Proof. induction bs; cbn; auto. f_equal. exact IHbs. Qed.
Lemma flatten_block bt body rest : flatten (Block bt body :: rest) = OBlock bt :: flatten body ++ OEnd :: flatten rest.
Proof. unfold flatten. cbn [flat_map flatten_instr]. cbn [app]. rewrite <- app_assoc. reflexivity. Qed.
Lemma flatten_loop bt body rest : flatten (Loop bt body :: rest) = OLoop bt :: flatten body ++ OEnd :: flatten rest.
Proof. unfold flatten. cbn [flat_map flatten_instr]. cbn [app]. rewrite <- app_assoc. reflexivity. Qed.
Lemma flatten_if1 bt thn rest : flatten (If bt thn [] :: rest) = OIf bt :: flatten thn ++ OEnd :: flatten rest.
Proof. unfold flatten. cbn [flat_map flatten_instr]. cbn [app]. rewrite <- app_assoc. reflexivity. Qed.
Lemma flatten_if2 bt thn e els rest :
  flatten (If bt thn (e :: els) :: rest) = OIf bt :: flatten thn ++ OElse :: flatten (e :: els) ++ OEnd :: flatten rest.
Proof.
  unfold flatten. cbn [flat_map flatten_instr]. cbn [app]. rewrite <- !app_assoc. cbn [app]. rewrite <- !app_assoc. reflexivity.
Qed.

(** ** maximal straight-line prefix *)
Definition ctl_first (is : list instr) : Prop :=
  match is with Basic b :: _ => straight_ok b = false | _ => True end.
Fixpoint span (is : list instr) : list binstr * list instr :=
  match is with
  | Basic b :: r => if straight_ok b then let '(bs, tl) := span r in (b :: bs, tl) else ([], is)
  | _ => ([], is)
  end.
Lemma span_spec : forall is bs tl, span is = (bs, tl) ->
  is = map Basic bs ++ tl /\ forallb straight_ok bs = true /\ ctl_first tl.
Proof.
  induction is as [|i r IH]; intros bs tl H; cbn in H.
  - inversion H; subst. cbn. auto.
  - destruct i; try (inversion H; subst; cbn; auto; fail).
    destruct (straight_ok b) eqn:Eb.
    + destruct (span r) as [bs' tl'] eqn:Es. inversion H; subst. destruct (IH bs' tl eq_refl) as (A & B & C).
      cbn. rewrite Eb, B. subst r. auto.
    + inversion H; subst. cbn. auto.
Qed.
Lemma lsize_app a b : lsize (a ++ b) = (lsize a + lsize b)%nat.
Proof. induction a; cbn [app lsize]; auto. rewrite IHa. lia. Qed.
Lemma lsize_basics bs : lsize (map Basic bs) = length bs.
Proof. induction bs; cbn; auto. Qed.

Lemma lvl_unreach_nil nl cx is v : v_unreach v <> None -> lvl nl cx (flatten is) v = true -> is = [].
Proof.
  intros Hu H. destruct is as [|i r]; [reflexivity|exfalso].
  destruct (v_unreach v) eqn:E; [|contradiction].
  destruct i as [b|bt body|bt body|bt thn els]; [change (flatten (Basic b :: r)) with (OBasic b :: flatten r) in H
    |rewrite flatten_block in H| |destruct els; [rewrite flatten_if1 in H|rewrite flatten_if2 in H]];
    cbn [lvl] in H; try (apply andb_true_iff in H; destruct H as [H _]; unfold ctl_ok in H; rewrite E in H).
  - destruct b; discriminate.
  - destruct bt; discriminate.
  - destruct bt; discriminate.
  - destruct bt; discriminate.
  - destruct bt; discriminate.
Qed.

(** ** the one syntactic restriction: an [if] with a result has an [else] (the validator rejects the
    other form, the height-only replay of it used here does not) *)
Fixpoint syn_i (i : instr) : bool :=
  let sl := fix sl (l : list instr) : bool := match l with [] => true | x :: r => syn_i x && sl r end in
  match i with
  | Basic _ => true
  | Block _ b | Loop _ b => sl b
  | If bt t e => match bt, e with Some _, [] => false | _, _ => sl t && sl e end
  end.
Fixpoint syn (l : list instr) : bool := match l with [] => true | x :: r => syn_i x && syn r end.
Lemma syn_block bt b : syn_i (Block bt b) = syn b. Proof. reflexivity. Qed.
Lemma syn_loop bt b : syn_i (Loop bt b) = syn b. Proof. reflexivity. Qed.
Lemma syn_if bt t e : syn_i (If bt t e) = match bt, e with Some _, [] => false | _, _ => syn t && syn e end.
Proof. reflexivity. Qed.
Lemma syn_app a b : syn (a ++ b) = syn a && syn b.
Proof. induction a; cbn [app syn]; auto. rewrite IHa, andb_assoc. reflexivity. Qed.
Lemma syn_cons i r : syn (i :: r) = true -> syn_i i = true /\ syn r = true.
Proof. cbn [syn]. intros H. apply andb_true_iff in H. exact H. Qed.

Lemma val_top_reachable nl cx s v locs r bp' op :
  inv nl s v -> c_bp s = JUnknown locs (Some r) :: bp' -> op = OElse -> ctl_ok nl cx v op = true ->
  v_unreach v = None.
Proof.
  intros I Ebp Hop Hk. pose proof (i_frames _ _ _ I) as Fr.
  destruct (v_ctrls v) as [|f rr] eqn:Ec; [inversion Fr; subst; rewrite Ebp in *; discriminate|].
  destruct (target_label_any _ _ _ _ O f _ _ Fr eq_refl ltac:(rewrite Ebp; reflexivity)) as (t0 & Fl & _).
  destruct (frames_cons _ _ _ _ _ Fr) as (_ & Fe & _). rewrite Fl in Fe.
  subst op; unfold ctl_ok in Hk; rewrite Ec, Fe in Hk; destruct (v_unreach v); auto; discriminate.
Qed.

(** ** the validation state alone: a terminated state only arises right after br / unreachable / return *)
Definition vinv (v : vstate) : Prop :=
  v_unreach v = None \/ (v_unreach v = Some (length (v_ctrls v) - 1)%nat /\ v_ctrls v <> []).
Definition is_term (b : binstr) : bool := match b with BBr _ | BUnreachable | BReturn => true | _ => false end.

Lemma pushn_unreach : forall n w, v_unreach (v_pushn n w) = v_unreach w.
Proof. induction n; intros; cbn; auto. rewrite IHn. reflexivity. Qed.
Lemma pop_unreach w w' : v_pop w = Some w' -> v_unreach w' = v_unreach w /\ v_ctrls w' = v_ctrls w.
Proof.
  unfold v_pop. destruct (v_ctrls w) eqn:E; [discriminate|].
  destruct (v_opds w =? vf_height v)%nat; [destruct (vf_unreachable v)|]; intros E1; inversion E1; subst; cbn; auto.
Qed.
Lemma popn_unreach : forall n w w', v_popn n w = Some w' -> v_unreach w' = v_unreach w /\ v_ctrls w' = v_ctrls w.
Proof.
  induction n; intros w w' E; cbn in E; [inversion E; auto|].
  destruct (v_pop w) eqn:E1; [|discriminate]. destruct (IHn _ _ E) as [A B]. destruct (pop_unreach _ _ E1) as [C D]. split; congruence.
Qed.
Lemma pop_ctrl_un v x : vinv v -> v_pop_ctrl v = Some x -> v_unreach (snd x) = None.
Proof.
  intros Hi H. unfold v_pop_ctrl in H. destruct (v_ctrls v) as [|f rest] eqn:Ec; [discriminate|].
  destruct (v_popn (bt_arity (vf_end f)) v) as [w|] eqn:Ep; [|discriminate].
  destruct (popn_unreach _ _ _ Ep) as [Eu _].
  destruct (v_opds w =? vf_height f)%nat; [|discriminate]. inversion H; subst x; clear H. cbn [snd v_unreach].
  rewrite Eu. destruct Hi as [->|[-> _]]; [reflexivity|]. rewrite Ec. cbn [length].
  replace (S (length rest) - 1)%nat with (length rest) by lia. rewrite Nat.eqb_refl. reflexivity.
Qed.
Lemma mark_vinv w w' : v_unreach w = None -> v_mark_unreachable w = Some w' -> vinv w'.
Proof.
  intros Hu H. unfold v_mark_unreachable in H. destruct (v_ctrls w) as [|f rest]; [discriminate|]. rewrite Hu in H.
  inversion H; subst. right. cbn. split; [f_equal; lia|discriminate].
Qed.

Lemma vinv_step nl cx v op v1 :
  ctl_ok nl cx v op = true -> vstep cx v op = Some v1 -> vinv v ->
  vinv v1 /\ (v_unreach v1 <> None -> exists b, op = OBasic b /\ is_term b = true).
Proof.
  intros Hk Hv Hi.
  assert (Done : v_unreach v1 = None -> vinv v1 /\ (v_unreach v1 <> None -> exists b, op = OBasic b /\ is_term b = true)).
  { intros E. split; [left; exact E|intros X; contradiction]. }
  pose proof Hv as Hv0. destruct op as [| |bt|bt|bt|b]; cbn [vstep] in Hv.
  - destruct (v_pop_ctrl v) as [[[res isif] v2]|] eqn:Ep; [|discriminate]. inversion Hv; subst. apply Done.
    rewrite pushn_unreach. apply (pop_ctrl_un v _ Hi Ep).
  - destruct (v_pop_ctrl v) as [[[res [|]] v2]|] eqn:Ep; try discriminate. inversion Hv; subst. apply Done. cbn.
    apply (pop_ctrl_un v _ Hi Ep).
  - unfold ctl_ok in Hk. destruct (v_unreach v) eqn:Hu; [discriminate|]. inversion Hv; subst. apply Done. exact Hu.
  - unfold ctl_ok in Hk. destruct bt; [discriminate|]. destruct (v_unreach v) eqn:Hu; [discriminate|]. inversion Hv; subst. apply Done. exact Hu.
  - unfold ctl_ok in Hk. destruct (v_unreach v) eqn:Hu; [discriminate|].
    destruct (v_pop v) as [w|] eqn:Ep; [|discriminate]. inversion Hv; subst. apply Done. cbn. destruct (pop_unreach _ _ Ep) as [A _]. congruence.
  - assert (Hu : v_unreach v = None).
    { unfold ctl_ok in Hk. destruct (v_unreach v); [|reflexivity]. destruct b; discriminate. }
    assert (Term : forall w, v_unreach w = None -> v_mark_unreachable w = Some v1 -> is_term b = true ->
                     vinv v1 /\ (v_unreach v1 <> None -> exists b0, OBasic b = OBasic b0 /\ is_term b0 = true)).
    { intros w Hw Hm Ht. split; [eapply mark_vinv; eauto|]. intros _. exists b. auto. }
    assert (Hst : straight_ok b = true -> vinv v1 /\ (v_unreach v1 <> None -> exists b0, OBasic b = OBasic b0 /\ is_term b0 = true)).
    { intros Hs. apply Done. exact (straight_vstep cx v b v1 (straight_ok_straight b Hs) Hu Hv0). }
    clear Hv0.
    destruct b; try (apply Hst; unfold ctl_ok in Hk; rewrite Hu in Hk; apply andb_true_iff in Hk; tauto); clear Hst.
    + (* unreachable *) cbn [vstep] in Hv. eapply Term; eauto.
    + (* br *) cbn [vstep] in Hv. match type of Hv with context [label_type v ?x] => destruct (label_type v x) as [lt|]; [|discriminate] end.
      destruct (v_popn (bt_arity lt) v) as [w|] eqn:Ep; [|discriminate]. destruct (popn_unreach _ _ _ Ep) as [A _].
      eapply (Term w); eauto. congruence.
    + (* br_if *) cbn [vstep] in Hv. match type of Hv with context [label_type v ?x] => destruct (label_type v x) as [lt|]; [|discriminate] end.
      destruct (v_pop v) as [w|] eqn:Ep; [|discriminate]. destruct (v_popn (bt_arity lt) w) as [w2|] eqn:Ep2; [|discriminate].
      inversion Hv; subst. apply Done. rewrite pushn_unreach. destruct (popn_unreach _ _ _ Ep2) as [A _]. destruct (pop_unreach _ _ Ep) as [B _]. congruence.
    + (* return *) cbn [vstep] in Hv. destruct (last (map (fun f => Some (vf_label f)) (v_ctrls v)) None) as [lt|].
      * destruct (v_popn (bt_arity lt) v) as [w|] eqn:Ep; [|discriminate]. destruct (popn_unreach _ _ _ Ep) as [A _].
        eapply (Term w); eauto. congruence.
      * inversion Hv; subst. apply Done. exact Hu.
Qed.

Lemma term_last_ops nl cx : forall ops v s v' s',
  compile_ops cx ops v s = Some (v', s') -> lvl nl cx ops v = true -> vinv v -> ops <> [] -> v_unreach v' <> None ->
  exists pre b, ops = pre ++ [OBasic b] /\ is_term b = true.
Proof.
  induction ops as [|op r IH]; intros v s v' s' Hc Hl Hi Hne Hu; [contradiction|].
  destruct (compile_cons _ _ _ _ _ _ _ Hc) as (v1 & s1 & Ev & Eh & Hc'). destruct (lvl_cons _ _ _ _ _ _ Hl Ev) as [Hk Hl'].
  destruct (vinv_step nl cx v op v1 Hk Ev Hi) as [Hi1 Ht].
  destruct r as [|op2 r'].
  - cbn in Hc'. inversion Hc'; subst. destruct (Ht Hu) as (b & -> & Hb). exists [], b. auto.
  - destruct (IH v1 s1 v' s' Hc' Hl' Hi1 ltac:(discriminate) Hu) as (pre & b & E & Hb). exists (op :: pre), b. rewrite E. auto.
Qed.

Lemma flatten_instr_last i : (exists b, i = Basic b) \/ exists front, flatten_instr i = front ++ [OEnd].
Proof.
  destruct i as [b|bt body|bt body|bt thn els].
  - left. eauto.
  - right. cbn. exists (OBlock bt :: flat_map flatten_instr body). reflexivity.
  - right. cbn. exists (OLoop bt :: flat_map flatten_instr body). reflexivity.
  - right. cbn. destruct els as [|e els].
    + exists (OIf bt :: flat_map flatten_instr thn). rewrite app_comm_cons. reflexivity.
    + exists (OIf bt :: flat_map flatten_instr thn ++ OElse :: flat_map flatten_instr (e :: els)).
      cbn [app]. f_equal. rewrite <- app_assoc. cbn [app]. reflexivity.
Qed.

Lemma term_last nl cx is v s v' s' :
  compile_ops cx (flatten is) v s = Some (v', s') -> lvl nl cx (flatten is) v = true -> v_unreach v = None ->
  v_unreach v' <> None -> exists pre b, is = pre ++ [Basic b] /\ is_term b = true.
Proof.
  intros Hc Hl Hu Hu'.
  destruct is as [|i0 r0] eqn:Eis; [cbn in Hc; inversion Hc; subst; contradiction|]. rewrite <- Eis in *.
  assert (Hne : is <> []) by (rewrite Eis; discriminate).
  destruct (exists_last Hne) as (pre & x & Ex).
  assert (Hfn : flatten is <> []).
  { rewrite Ex, flatten_app. destruct x; cbn; intros X; apply app_eq_nil in X; destruct X; discriminate. }
  destruct (term_last_ops nl cx (flatten is) v s v' s' Hc Hl (or_introl Hu) Hfn Hu') as (po & b & E & Hb).
  exists pre, b. split; [|exact Hb]. rewrite Ex. f_equal. f_equal.
  rewrite Ex, flatten_app in E. cbn [flatten flat_map] in E. rewrite app_nil_r in E.
  destruct (flatten_instr_last x) as [(b' & ->)|(front & Ef)].
  - cbn in E. apply app_inj_tail in E. destruct E as [_ E]. inversion E. reflexivity.
  - rewrite Ef, app_assoc in E. apply app_inj_tail in E. destruct E as [_ E]. discriminate.
Qed.

(** ** pure facts for a whole structured sequence *)
Definition ready (s : cstate) (is : list instr) : Prop := c_last s = None \/ ctl_first is.

Lemma bp_sub_cons_inv j b b' : bp_sub (j :: b) b' -> exists j' b'', b' = j' :: b'' /\ bp_sub b b''.
Proof. intros H. inversion H; subst. eauto. Qed.

Lemma bp_sub_head_nores j0 b0 b1 : bp_sub (j0 :: b0) b1 -> no_res j0 -> match b1 with j :: _ => no_res j | [] => True end.
Proof.
  intros H Hn. inversion H as [|? j1 ? ? [(locs & add & res & E1 & E2)|(pos & E1 & E2)]]; subst; cbn; auto.
Qed.

Lemma bp_sub_head_val l res b0 b1 : bp_sub (JUnknown l res :: b0) b1 ->
  exists add b1', b1 = JUnknown (l ++ add) res :: b1' /\ bp_sub b0 b1'.
Proof.
  intros H. inversion H as [|? j1 ? b1' [(locs & add & r0 & E1 & E2)|(pos & E1 & E2)] Ht]; subst; [|discriminate E1].
  inversion E1; subst. exists add, b1'. auto.
Qed.

Lemma isize_pos i : (1 <= isize i)%nat.
Proof. destruct i; cbn; lia. Qed.

Lemma pure_seq nl cx n : forall is, (lsize is <= n)%nat -> syn is = true -> forall s v v' s',
  compile_ops cx (flatten is) v s = Some (v', s') -> lvl nl cx (flatten is) v = true ->
  inv nl s v -> v_unreach v = None -> ready s is -> pres nl s s' v'.
Proof.
  induction n as [|n IH]; intros is Hn Hs s v v' s' Hc Hl I Hu Hr.
  { destruct is as [|i r]; [|cbn [lsize] in Hn; pose proof (isize_pos i); lia].
    cbn in Hc. inversion Hc; subst. apply pres_refl. exact I. }
  destruct is as [|i rest]; [cbn in Hc; inversion Hc; subst; apply pres_refl; exact I|].
  destruct (syn_cons _ _ Hs) as [Hsi Hsr].
  destruct i as [b|bt body|bt body|bt thn els].
  - (* basic *)
    destruct (straight_ok b) eqn:Eb.
    + destruct Hr as [Hlast|Hcf]; [|cbn in Hcf; congruence].
      destruct (span (Basic b :: rest)) as [bs tl] eqn:Esp. destruct (span_spec _ _ _ Esp) as (Eis & Hok & Hcf).
      assert (Hne : bs <> []).
      { cbn in Esp. rewrite Eb in Esp. destruct (span rest). inversion Esp. discriminate. }
      rewrite Eis in Hc, Hl, Hn, Hs. rewrite flatten_app, flatten_basics in Hc, Hl.
      rewrite syn_app in Hs. apply andb_true_iff in Hs. destruct Hs as [_ Hst].
      destruct (compile_app_inv _ _ _ _ _ _ _ Hc) as (v1 & s1 & Hc1 & Hc2).
      rewrite (lvl_app nl cx _ _ _ _ _ _ Hc1) in Hl. apply andb_true_iff in Hl. destruct Hl as [Hl1 Hl2].
      destruct (seg_pure nl cx bs s v v1 s1 Hok Hc1 Hl1 Hu (i_cwf _ _ _ I)) as (Ebp & W1 & Ectrl & Hu1 & Hlen).
      destruct (compile_grows cx (length bs) bs s v v1 s1 (le_n _) Hok Hc1 Hu (safe_last_none s bs Hlast)) as [(t & Eo) Mo].
      assert (X1 : ext s s1) by (eapply ext_append; eauto).
      assert (I1 : inv nl s1 v1).
      { constructor; auto.
        - eapply bpwf_same_locs; [apply (i_bp _ _ _ I)|rewrite Ebp; reflexivity|apply ext_off; exact X1].
        - rewrite Ectrl, Ebp. eapply frames_mono; [apply Mo|apply (i_frames _ _ _ I)].
        - left. exact Hu1. }
      assert (P1 : pres nl s s1 v1).
      { constructor; auto. rewrite Ebp. eapply bp_sub_refl. apply (i_frames _ _ _ I). }
      eapply pres_trans; [exact P1|]. rewrite lsize_app, lsize_basics in Hn.
      eapply (IH tl); eauto. { destruct bs; [contradiction|cbn in Hn; lia]. } right. exact Hcf.
    + change (flatten (Basic b :: rest)) with (OBasic b :: flatten rest) in Hc, Hl.
      destruct (compile_cons _ _ _ _ _ _ _ Hc) as (v1 & s1 & Ev & Eh & Hc').
      rewrite (reach_of_none v Hu) in Eh. destruct (lvl_cons _ _ _ _ _ _ Hl Ev) as [Hk Hl'].
      destruct b; try (unfold ctl_ok in Hk; rewrite Hu in Hk; rewrite Eb in Hk; discriminate).
      * (* unreachable *)
        destruct (op_unreachable nl cx s v v1 s1 I Hu Ev Eh) as (O1 & O2 & O3 & O4 & O5 & O6 & I1 & Hu1 & X1).
        rewrite (lvl_unreach_nil nl cx rest v1 Hu1 Hl') in Hc'. cbn in Hc'. inversion Hc'; subst v' s'.
        constructor; auto. apply mono_eq; auto. rewrite O2. eapply bp_sub_refl. apply (i_frames _ _ _ I).
      * (* br *)
        destruct (br_target _ _ _ _ Ev) as (fk & Ek). destruct (bp_target nl s v l fk I Ek) as [(locs & [rr|] & Enth)|(pos & Enth)].
        -- destruct (target_label_any _ _ _ _ l fk locs rr (i_frames _ _ _ I) Ek Enth) as (t0 & _ & [[-> _]|(d & -> & _)]).
           { destruct (op_br_ret nl cx s v v1 s1 l locs I Hu Enth Ev Eh) as (p & st & Es & Pp & O1 & O2 & O3 & O4 & O5 & O6 & I1 & Hu1 & X1).
             rewrite (lvl_unreach_nil nl cx rest v1 Hu1 Hl') in Hc'. cbn in Hc'. inversion Hc'; subst v' s'.
             constructor; auto. apply mono_eq; auto. rewrite O2. eapply bp_sub_update; eauto. apply (i_frames _ _ _ I). }
           destruct (op_br_val nl cx s v v1 s1 l locs d I Hu Enth Ev Eh) as (p & st & Es & Pp & Hd & O1 & O2 & O3 & O4 & O5 & O6 & I1 & Hu1 & X1).
           rewrite (lvl_unreach_nil nl cx rest v1 Hu1 Hl') in Hc'. cbn in Hc'. inversion Hc'; subst v' s'.
           constructor; auto. apply mono_eq; auto. rewrite O2. eapply bp_sub_update; eauto. apply (i_frames _ _ _ I).
        -- destruct (op_br nl cx s v v1 s1 l locs I Hu Enth Ev Eh) as (O1 & O2 & O3 & O4 & O5 & O6 & I1 & Hu1 & X1).
           rewrite (lvl_unreach_nil nl cx rest v1 Hu1 Hl') in Hc'. cbn in Hc'. inversion Hc'; subst v' s'.
           constructor; auto. apply mono_eq; auto. rewrite O2. eapply bp_sub_update; eauto. apply (i_frames _ _ _ I).
        -- destruct (op_br_known nl cx s v v1 s1 l pos I Hu Enth Ev Eh) as (O1 & O2 & O3 & O4 & O5 & O6 & I1 & Hu1 & X1).
           rewrite (lvl_unreach_nil nl cx rest v1 Hu1 Hl') in Hc'. cbn in Hc'. inversion Hc'; subst v' s'.
           constructor; auto. apply mono_eq; auto. rewrite O2. eapply bp_sub_refl. apply (i_frames _ _ _ I).
      * (* br_if *)
        destruct (br_if_target _ _ _ _ Ev) as (fk & Ek). destruct (bp_target nl s v l fk I Ek) as [(locs & [rr|] & Enth)|(pos & Enth)].
        -- exfalso. destruct (target_label_any _ _ _ _ l fk locs rr (i_frames _ _ _ I) Ek Enth) as (t0 & Fl & _).
           unfold ctl_ok in Hk. rewrite Hu in Hk. unfold label_type in Hk. rewrite Ek, Fl in Hk. discriminate.
        -- destruct (op_br_if nl cx s v v1 s1 l locs I Hu Enth Ev Eh) as (p & st & Es & Pp & O1 & O2 & O3 & O4 & O5 & O6 & I1 & Hu1 & X1).
           assert (P1 : pres nl s s1 v1).
           { constructor; auto. apply mono_eq; auto. rewrite O2. eapply bp_sub_update; eauto. apply (i_frames _ _ _ I). }
           eapply pres_trans; [exact P1|]. eapply (IH rest); eauto. { cbn [lsize isize] in Hn. lia. } left. exact O6.
        -- destruct (op_br_if_known nl cx s v v1 s1 l pos I Hu Enth Ev Eh) as (p & st & Es & Pp & O1 & O2 & O3 & O4 & O5 & O6 & I1 & Hu1 & X1).
           assert (P1 : pres nl s s1 v1).
           { constructor; auto. apply mono_eq; auto. rewrite O2. eapply bp_sub_refl. apply (i_frames _ _ _ I). }
           eapply pres_trans; [exact P1|]. eapply (IH rest); eauto. { cbn [lsize isize] in Hn. lia. } left. exact O6.
      * (* return *)
        unfold ctl_ok in Hk. rewrite Hu in Hk. destruct (cx_return cx) as [t'|] eqn:Hret.
        { destruct (last (map (fun f => Some (vf_label f)) (v_ctrls v)) None) as [[t0|]|] eqn:Hne; try discriminate.
          destruct (op_return_val nl cx s v v1 s1 t0 t' I Hu Hret Hne Ev Eh) as (p & st & Es & Pp & Hpos & O1 & O2 & O3 & O4 & O5 & O6 & I1 & Hu1 & X1).
          rewrite (lvl_unreach_nil nl cx rest v1 Hu1 Hl') in Hc'. cbn in Hc'. inversion Hc'; subst v' s'.
          constructor; auto. apply mono_eq; auto. rewrite O2. eapply bp_sub_refl. apply (i_frames _ _ _ I). }
        assert (Hne : last (map (fun f => Some (vf_label f)) (v_ctrls v)) None = Some None).
        { destruct (last (map (fun f => Some (vf_label f)) (v_ctrls v)) None) as [[?|]|]; try discriminate. reflexivity. }
        destruct (op_return nl cx s v v1 s1 I Hu Hret Hne Ev Eh) as (O1 & O2 & O3 & O4 & O5 & O6 & I1 & Hu1 & X1).
        rewrite (lvl_unreach_nil nl cx rest v1 Hu1 Hl') in Hc'. cbn in Hc'. inversion Hc'; subst v' s'.
        constructor; auto. apply mono_eq; auto. rewrite O2. eapply bp_sub_refl. apply (i_frames _ _ _ I).
  - (* block *)
    rewrite syn_block in Hsi. rewrite flatten_block in Hc, Hl.
    destruct (compile_cons _ _ _ _ _ _ _ Hc) as (va & sa & Ev & Eh & Hc').
    rewrite (reach_of_none v Hu) in Eh. destruct (lvl_cons _ _ _ _ _ _ Hl Ev) as [Hk Hl'].
    unfold ctl_ok in Hk. rewrite Hu in Hk. apply Nat.eqb_eq in Hk. cbn [lsize] in Hn. rewrite isize_block in Hn.
    destruct bt as [t|].
    { (* block with a result *)
      destruct (op_block_val nl cx s v va sa t I Hu Hk Ev Eh) as (d & Hd & A1 & A2 & A3 & Ma & A7 & Ia & Hua).
      destruct (compile_app_inv _ _ _ _ _ _ _ Hc') as (vb & sb & Hcb & Hc'').
      rewrite (lvl_app nl cx _ _ _ _ _ _ Hcb) in Hl'. apply andb_true_iff in Hl'. destruct Hl' as [Hlb Hl''].
      assert (Pb : pres nl sa sb vb) by (eapply (IH body); eauto; [lia|left; exact A7]).
      destruct (compile_cons _ _ _ _ _ _ _ Hc'') as (vc & sc & Evc & Ehc & Hcr).
      destruct (lvl_cons _ _ _ _ _ _ Hl'' Evc) as [_ Hlr].
      pose proof (p_bp _ _ _ _ Pb) as Hb. rewrite A2 in Hb. destruct (bp_sub_head_val _ _ _ _ Hb) as (add & b'' & Ebp & Hb').
      destruct (op_end_val nl cx sb vb vc sc _ d b'' (p_inv _ _ _ _ Pb) Ebp Evc Ehc)
        as (tc & E2 & E3 & E5 & E6 & E7 & X3 & Ecur & Rs & Hnth & Ic & Huc & Hd' & Hcase).
      assert (Pr : pres nl sc s' v') by (eapply (IH rest); eauto; [lia|left; exact E7]).
      constructor.
      - eapply ext_trans; [|eapply ext_trans; [apply (p_ext _ _ _ _ Pb)|eapply ext_trans; [exact X3|apply (p_ext _ _ _ _ Pr)]]].
        eapply (ext_same_locs s sa []); [rewrite app_nil_r; exact A1|rewrite A2; reflexivity].
      - eapply mono_trans; [exact Ma|]. eapply mono_trans; [apply (p_mono _ _ _ _ Pb)|].
        eapply mono_trans; [apply (mono_eq sb sc); auto|apply (p_mono _ _ _ _ Pr)].
      - apply (p_inv _ _ _ _ Pr).
      - eapply bp_sub_trans; [exact Hb'|]. rewrite <- E2. apply (p_bp _ _ _ _ Pr). }
    destruct (op_block nl cx s v va sa I Hu Hk Ev Eh) as (A1 & A2 & (A3 & A4 & A5 & A6) & A7 & Ia & Hua).
    destruct (compile_app_inv _ _ _ _ _ _ _ Hc') as (vb & sb & Hcb & Hc'').
    rewrite (lvl_app nl cx _ _ _ _ _ _ Hcb) in Hl'. apply andb_true_iff in Hl'. destruct Hl' as [Hlb Hl''].
    assert (Pb : pres nl sa sb vb) by (eapply (IH body); eauto; [lia|left; exact A7]).
    destruct (compile_cons _ _ _ _ _ _ _ Hc'') as (vc & sc & Evc & Ehc & Hcr).
    destruct (lvl_cons _ _ _ _ _ _ Hl'' Evc) as [_ Hlr].
    assert (Hnr : match c_bp sb with j :: _ => no_res j | [] => True end) by (eapply bp_sub_head_nores; [rewrite <- A2; apply (p_bp _ _ _ _ Pb)|exact Logic.I]).
    destruct (op_end nl cx sb vb vc sc (p_inv _ _ _ _ Pb) Hnr Evc Ehc) as (locs & bp' & E1 & E2 & E3 & E4 & E5 & E6 & E7 & E8 & X3 & Rs & Ic & Huc).
    assert (Pr : pres nl sc s' v') by (eapply (IH rest); eauto; [lia|left; exact E7]).
    constructor.
    + eapply ext_trans; [|eapply ext_trans; [apply (p_ext _ _ _ _ Pb)|eapply ext_trans; [exact X3|apply (p_ext _ _ _ _ Pr)]]].
      eapply (ext_same_locs s sa []); [rewrite app_nil_r; exact A1|rewrite A2; reflexivity].
    + eapply mono_trans; [apply (mono_eq s sa); auto|]. eapply mono_trans; [apply (p_mono _ _ _ _ Pb)|].
      eapply mono_trans; [apply (mono_eq sb sc); auto|apply (p_mono _ _ _ _ Pr)].
    + apply (p_inv _ _ _ _ Pr).
    + pose proof (p_bp _ _ _ _ Pb) as Hb. rewrite A2 in Hb. destruct (bp_sub_cons_inv _ _ _ Hb) as (j' & b'' & Eb' & Hb').
      rewrite E1 in Eb'. inversion Eb'; subst. eapply bp_sub_trans; [exact Hb'|]. apply (p_bp _ _ _ _ Pr).
  - (* loop *)
    rewrite syn_loop in Hsi. rewrite flatten_loop in Hc, Hl.
    destruct (compile_cons _ _ _ _ _ _ _ Hc) as (va & sa & Ev & Eh & Hc').
    rewrite (reach_of_none v Hu) in Eh. destruct (lvl_cons _ _ _ _ _ _ Hl Ev) as [Hk Hl'].
    destruct bt; [discriminate|]. unfold ctl_ok in Hk. rewrite Hu in Hk. apply Nat.eqb_eq in Hk.
    destruct (op_loop nl cx s v va sa I Hu Hk Ev Eh) as (A1 & A2 & (A3 & A4 & A5 & A6) & A7 & Ia & Hua).
    destruct (compile_app_inv _ _ _ _ _ _ _ Hc') as (vb & sb & Hcb & Hc'').
    rewrite (lvl_app nl cx _ _ _ _ _ _ Hcb) in Hl'. apply andb_true_iff in Hl'. destruct Hl' as [Hlb Hl''].
    cbn [lsize] in Hn. rewrite isize_loop in Hn.
    assert (Pb : pres nl sa sb vb) by (eapply (IH body); eauto; [lia|left; exact A7]).
    destruct (compile_cons _ _ _ _ _ _ _ Hc'') as (vc & sc & Evc & Ehc & Hcr).
    destruct (lvl_cons _ _ _ _ _ _ Hl'' Evc) as [_ Hlr].
    assert (Hnr : match c_bp sb with j :: _ => no_res j | [] => True end) by (eapply bp_sub_head_nores; [rewrite <- A2; apply (p_bp _ _ _ _ Pb)|exact Logic.I]).
    destruct (op_end nl cx sb vb vc sc (p_inv _ _ _ _ Pb) Hnr Evc Ehc) as (locs & bp' & E1 & E2 & E3 & E4 & E5 & E6 & E7 & E8 & X3 & Rs & Ic & Huc).
    assert (Pr : pres nl sc s' v') by (eapply (IH rest); eauto; [lia|left; exact E7]).
    constructor.
    + eapply ext_trans; [|eapply ext_trans; [apply (p_ext _ _ _ _ Pb)|eapply ext_trans; [exact X3|apply (p_ext _ _ _ _ Pr)]]].
      eapply (ext_same_locs s sa []); [rewrite app_nil_r; exact A1|rewrite A2; reflexivity].
    + eapply mono_trans; [apply (mono_eq s sa); auto|]. eapply mono_trans; [apply (p_mono _ _ _ _ Pb)|].
      eapply mono_trans; [apply (mono_eq sb sc); auto|apply (p_mono _ _ _ _ Pr)].
    + apply (p_inv _ _ _ _ Pr).
    + pose proof (p_bp _ _ _ _ Pb) as Hb. rewrite A2 in Hb. destruct (bp_sub_cons_inv _ _ _ Hb) as (j' & b'' & Eb' & Hb').
      rewrite E1 in Eb'. inversion Eb'; subst. eapply bp_sub_trans; [exact Hb'|]. apply (p_bp _ _ _ _ Pr).
  - (* if *)
    rewrite syn_if in Hsi.
    destruct els as [|e els].
    + destruct bt; [discriminate|]. apply andb_true_iff in Hsi. destruct Hsi as [Hst Hse].
      rewrite flatten_if1 in Hc, Hl.
      destruct (compile_cons _ _ _ _ _ _ _ Hc) as (va & sa & Ev & Eh & Hc').
      rewrite (reach_of_none v Hu) in Eh. destruct (lvl_cons _ _ _ _ _ _ Hl Ev) as [Hk Hl'].
      unfold ctl_ok in Hk. rewrite Hu in Hk. apply Nat.eqb_eq in Hk.
      destruct (op_if nl cx s v va sa I Hu Hk Ev Eh) as (p & Es & Pp & A1 & A2 & A3 & A4 & A5 & A6 & Ia & Hua & Xa).
      destruct (compile_app_inv _ _ _ _ _ _ _ Hc') as (vb & sb & Hcb & Hc'').
      rewrite (lvl_app nl cx _ _ _ _ _ _ Hcb) in Hl'. apply andb_true_iff in Hl'. destruct Hl' as [Hlb Hl''].
      cbn [lsize] in Hn. rewrite isize_if in Hn. cbn [lsize] in Hn.
      assert (Pb : pres nl sa sb vb) by (eapply (IH thn); eauto; [lia|left; exact A6]).
      destruct (compile_cons _ _ _ _ _ _ _ Hc'') as (vc & sc & Evc & Ehc & Hcr).
      destruct (lvl_cons _ _ _ _ _ _ Hl'' Evc) as [_ Hlr].
      assert (Hnr : match c_bp sb with j :: _ => no_res j | [] => True end) by (eapply bp_sub_head_nores; [rewrite <- A2; apply (p_bp _ _ _ _ Pb)|exact Logic.I]).
    destruct (op_end nl cx sb vb vc sc (p_inv _ _ _ _ Pb) Hnr Evc Ehc) as (locs & bp' & E1 & E2 & E3 & E4 & E5 & E6 & E7 & E8 & X3 & Rs & Ic & Huc).
      assert (Pr : pres nl sc s' v') by (eapply (IH rest); eauto; [lia|left; exact E7]).
      constructor.
      * eapply ext_trans; [exact Xa|eapply ext_trans; [apply (p_ext _ _ _ _ Pb)|eapply ext_trans; [exact X3|apply (p_ext _ _ _ _ Pr)]]].
      * eapply mono_trans; [apply (mono_eq s sa); auto|]. eapply mono_trans; [apply (p_mono _ _ _ _ Pb)|].
        eapply mono_trans; [apply (mono_eq sb sc); auto|apply (p_mono _ _ _ _ Pr)].
      * apply (p_inv _ _ _ _ Pr).
      * pose proof (p_bp _ _ _ _ Pb) as Hb. rewrite A2 in Hb. destruct (bp_sub_cons_inv _ _ _ Hb) as (j' & b'' & Eb' & Hb').
        rewrite E1 in Eb'. inversion Eb'; subst. eapply bp_sub_trans; [exact Hb'|]. apply (p_bp _ _ _ _ Pr).
    + assert (Hsi' : syn thn = true /\ syn (e :: els) = true) by (destruct bt; apply andb_true_iff in Hsi; exact Hsi).
      destruct Hsi' as [Hst Hse].
      rewrite flatten_if2 in Hc, Hl.
      destruct (compile_cons _ _ _ _ _ _ _ Hc) as (va & sa & Ev & Eh & Hc').
      rewrite (reach_of_none v Hu) in Eh. destruct (lvl_cons _ _ _ _ _ _ Hl Ev) as [Hk Hl'].
      unfold ctl_ok in Hk. rewrite Hu in Hk. apply Nat.eqb_eq in Hk. cbn [lsize] in Hn. rewrite isize_if in Hn.
      destruct bt as [t|].
      { (* if-else with a result *)
        destruct (op_if_val nl cx s v va sa t I Hu Hk Ev Eh) as (p & d & Es & Pp & Hd & A1 & A2 & A3 & Ma & A6 & Ia & Hua & Xa).
        destruct (compile_app_inv _ _ _ _ _ _ _ Hc') as (vb & sb & Hcb & Hc'').
        rewrite (lvl_app nl cx _ _ _ _ _ _ Hcb) in Hl'. apply andb_true_iff in Hl'. destruct Hl' as [Hlb Hl''].
        assert (Pb : pres nl sa sb vb) by (eapply (IH thn); eauto; [lia|left; exact A6]).
        destruct (compile_cons _ _ _ _ _ _ _ Hc'') as (vc & sc & Evc & Ehc & Hcr).
        destruct (lvl_cons _ _ _ _ _ _ Hl'' Evc) as [Hke Hlr].
        pose proof (p_bp _ _ _ _ Pb) as Hb. rewrite A2 in Hb. destruct (bp_sub_head_val _ _ _ _ Hb) as (add & b'' & Ebp & Hb').
        pose proof (val_top_reachable nl cx sb vb _ _ _ OElse (p_inv _ _ _ _ Pb) Ebp eq_refl Hke) as Hub.
        rewrite (reach_of_none vb Hub) in Ehc.
        destruct (op_else_val nl cx sb vb vc sc _ d b'' (p_inv _ _ _ _ Pb) Hub Ebp Evc Ehc)
          as (first & more & p2 & El & Esb & Pp2 & Hd2 & E2 & Hnth & E5 & E6n & E6c & E8 & Ecur & X3 & Rs & Ic & Huc).
        destruct (compile_app_inv _ _ _ _ _ _ _ Hcr) as (vd & sd & Hcd & Hcr').
        rewrite (lvl_app nl cx _ _ _ _ _ _ Hcd) in Hlr. apply andb_true_iff in Hlr. destruct Hlr as [Hld Hlr'].
        assert (Pd : pres nl sc sd vd) by (eapply (IH (e :: els)); eauto; [lia|left; exact E8]).
        destruct (compile_cons _ _ _ _ _ _ _ Hcr') as (ve & se & Eve & Ehe & Hcr'').
        destruct (lvl_cons _ _ _ _ _ _ Hlr' Eve) as [_ Hlr''].
        pose proof (p_bp _ _ _ _ Pd) as Hd0. rewrite E2 in Hd0. destruct (bp_sub_head_val _ _ _ _ Hd0) as (add2 & b3 & Ebp2 & Hb2).
        destruct (op_end_val nl cx sd vd ve se _ d b3 (p_inv _ _ _ _ Pd) Ebp2 Eve Ehe)
          as (tc & G2 & G3 & G5 & G6 & G7 & X5 & Gcur & Rs' & Gnth & Ie & Hue & Hd3 & Hcase).
        assert (Pr : pres nl se s' v') by (eapply (IH rest); eauto; [lia|left; exact G7]).
        constructor.
        - eapply ext_trans; [exact Xa|]. eapply ext_trans; [apply (p_ext _ _ _ _ Pb)|]. eapply ext_trans; [exact X3|].
          eapply ext_trans; [apply (p_ext _ _ _ _ Pd)|]. eapply ext_trans; [exact X5|apply (p_ext _ _ _ _ Pr)].
        - eapply mono_trans; [exact Ma|]. eapply mono_trans; [apply (p_mono _ _ _ _ Pb)|].
          eapply mono_trans; [apply (mono_eq sb sc); auto|]. eapply mono_trans; [apply (p_mono _ _ _ _ Pd)|].
          eapply mono_trans; [apply (mono_eq sd se); auto|apply (p_mono _ _ _ _ Pr)].
        - apply (p_inv _ _ _ _ Pr).
        - eapply bp_sub_trans; [exact Hb'|]. eapply bp_sub_trans; [exact Hb2|]. rewrite <- G2. apply (p_bp _ _ _ _ Pr). }
      destruct (op_if nl cx s v va sa I Hu Hk Ev Eh) as (p & Es & Pp & A1 & A2 & A3 & A4 & A5 & A6 & Ia & Hua & Xa).
      destruct (compile_app_inv _ _ _ _ _ _ _ Hc') as (vb & sb & Hcb & Hc'').
      rewrite (lvl_app nl cx _ _ _ _ _ _ Hcb) in Hl'. apply andb_true_iff in Hl'. destruct Hl' as [Hlb Hl''].
      assert (Pb : pres nl sa sb vb) by (eapply (IH thn); eauto; [lia|left; exact A6]).
      destruct (compile_cons _ _ _ _ _ _ _ Hc'') as (vc & sc & Evc & Ehc & Hcr).
      destruct (lvl_cons _ _ _ _ _ _ Hl'' Evc) as [_ Hlr].
      assert (Hnr : match c_bp sb with j :: _ => no_res j | [] => True end) by (eapply bp_sub_head_nores; [rewrite <- A2; apply (p_bp _ _ _ _ Pb)|exact Logic.I]).
      destruct (op_else nl cx sb vb vc sc (p_inv _ _ _ _ Pb) Hnr Evc Ehc)
        as (first & more & bp' & pre & E1 & E2 & Lp & E3 & E4 & E5 & E6 & E7 & E8 & X3 & Rs & Ic & Huc).
      destruct (compile_app_inv _ _ _ _ _ _ _ Hcr) as (vd & sd & Hcd & Hcr').
      rewrite (lvl_app nl cx _ _ _ _ _ _ Hcd) in Hlr. apply andb_true_iff in Hlr. destruct Hlr as [Hld Hlr'].
      assert (Pd : pres nl sc sd vd) by (eapply (IH (e :: els)); eauto; [lia|left; exact E8]).
      destruct (compile_cons _ _ _ _ _ _ _ Hcr') as (ve & se & Eve & Ehe & Hcr'').
      destruct (lvl_cons _ _ _ _ _ _ Hlr' Eve) as [_ Hlr''].
      assert (Hnr' : match c_bp sd with j :: _ => no_res j | [] => True end) by (eapply bp_sub_head_nores; [rewrite <- E2; apply (p_bp _ _ _ _ Pd)|exact Logic.I]).
      destruct (op_end nl cx sd vd ve se (p_inv _ _ _ _ Pd) Hnr' Eve Ehe) as (locs & bp'' & G1 & G2 & G3 & G4 & G5 & G6 & G7 & G8 & X5 & Rs' & Ie & Hue).
      assert (Pr : pres nl se s' v') by (eapply (IH rest); eauto; [lia|left; exact G7]).
      constructor.
      * eapply ext_trans; [exact Xa|]. eapply ext_trans; [apply (p_ext _ _ _ _ Pb)|]. eapply ext_trans; [exact X3|].
        eapply ext_trans; [apply (p_ext _ _ _ _ Pd)|]. eapply ext_trans; [exact X5|apply (p_ext _ _ _ _ Pr)].
      * eapply mono_trans; [apply (mono_eq s sa); auto|]. eapply mono_trans; [apply (p_mono _ _ _ _ Pb)|].
        eapply mono_trans; [apply (mono_eq sb sc); auto|]. eapply mono_trans; [apply (p_mono _ _ _ _ Pd)|].
        eapply mono_trans; [apply (mono_eq sd se); auto|apply (p_mono _ _ _ _ Pr)].
      * apply (p_inv _ _ _ _ Pr).
      * pose proof (p_bp _ _ _ _ Pb) as Hb. rewrite A2 in Hb. destruct (bp_sub_cons_inv _ _ _ Hb) as (j' & b'' & Eb' & Hb').
        rewrite E1 in Eb'. inversion Eb'; subst j' b''.
        pose proof (p_bp _ _ _ _ Pd) as Hd. rewrite E2 in Hd. destruct (bp_sub_cons_inv _ _ _ Hd) as (j2 & b2 & Eb2 & Hb2).
        rewrite G1 in Eb2. inversion Eb2; subst j2 b2.
        eapply bp_sub_trans; [exact Hb'|]. eapply bp_sub_trans; [exact Hb2|]. rewrite <- G2. apply (p_bp _ _ _ _ Pr).
Qed.
