(** Witness modules for the findings F1-F3 (DESIGN.md section 8), as Coq terms.  The same
    programs are in corpus/C01/witnesses.jsonl and are replayed on the real engine by the check. *)
From Coq Require Import ZArith NArith List.
From CB Require Import Wasm.Syntax.
Import ListNotations.
Local Open Scope Z_scope.

Definition single (params : list valtype) (res : valtype) (body : list instr) : module :=
  {| m_types := [ {| ft_params := params; ft_result := Some res |} ];
     m_imports := []; m_funcs := [ {| f_type := 0; f_locals := []; f_body := body |} ];
     m_table := None; m_elems := []; m_mem := None; m_data := []; m_globals := [] |}.

Definition i32c (z : Z) := Basic (BConst T_i32 z).
Definition lget (i : nat) := Basic (BLocalGet i).

(** F1a: block (result i32) 1; local.get 0; br_if 0; 2; local.get 0; br_if 0; drop end   arg 0 *)
Definition w_f1a : module :=
  single [T_i32] T_i32
    [Block (Some T_i32) [i32c 1; lget 0; Basic (BBrIf 0); i32c 2; lget 0; Basic (BBrIf 0); Basic BDrop]].
(** F1b: i32.const 0; local.get 0; br_if 0; drop; i32.const 42   arg 1 *)
Definition w_f1b : module :=
  single [T_i32] T_i32 [i32c 0; lget 0; Basic (BBrIf 0); Basic BDrop; i32c 42].
(** F2a: local.get 0; local.get 1; if; i32.const 9; local.set 0; end   args (7, 0) *)
Definition w_f2a : module :=
  single [T_i32; T_i32] T_i32 [lget 0; lget 1; If None [i32c 9; Basic (BLocalSet 0)] []].
(** F2b: local.get 0; loop; local.get 0; 1; add; local.set 0; local.get 0; 3; lt_s; br_if 0; end   arg 0 *)
Definition w_f2b : module :=
  single [T_i32] T_i32
    [lget 0; Loop None [lget 0; i32c 1; Basic (BBinop T_i32 Add); Basic (BLocalSet 0);
                        lget 0; i32c 3; Basic (BRelop T_i32 LtS); Basic (BBrIf 0)]].
(** F3: local.get 0; local.get 1; i32.rem_s   args (MIN, -1) *)
Definition w_f3 : module :=
  single [T_i32; T_i32] T_i32 [lget 0; lget 1; Basic (BBinop T_i32 RemS)].
(** a module outside the classes, for non-vacuity *)
Definition w_plain : module :=
  single [T_i32; T_i32] T_i32 [lget 0; lget 1; Basic (BBinop T_i32 Add); Basic (BLocalTee 0); lget 0; Basic (BBinop T_i32 Mul)].
