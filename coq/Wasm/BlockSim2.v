(** * Stage B, part 4: simulation of block / if / else / end / br / br_if (result-less labels,
    blocks entered at an empty operand stack) by the compiled register code. *)
From Coq Require Import ZArith NArith List Lia Bool FMapPositive.
From CB Require Import Common.IntN Common.IntNProofs Wasm.Syntax Wasm.Opcodes Wasm.Sem Wasm.Compile Wasm.Machine
     Wasm.MachineLemmas Wasm.CompileLemmas Wasm.NumOpsProofs Wasm.SemProofs Wasm.SyntaxProofs Wasm.StraightProofs
     Wasm.BlockProofs Wasm.BlockInv Wasm.BlockSim.
Import ListNotations.
Local Open Scope Z_scope.
Local Arguments i32_bytes : simpl never.
Local Arguments u32_bytes : simpl never.
Local Arguments u16_bytes : simpl never.

Section Sim.
Variable art : artifact.
Variable mhost : nat -> list Z -> option (option Z).
Variable codes : list (code_map * list Z).
Variable fidx : nat.
Variable c : code_map.
Variable consts : list Z.
Hypothesis Hcode : nth_error codes fidx = Some (c, consts).
Variable nl : Z.
Variable NR : Z.
Hypothesis NR_small : NR < 2147483648.
Variable cap : N.
Variable host : nat -> list val -> option memory -> host_result.
Variable m : module.
Variable cx : cctx.
Variable F : list N.                      (* the final code of the function *)
Hypothesis HF : code_at c 0 F.
Hypothesis HFlen : Z.of_nat (length F) < 4294967296.

Notation mstep := (step art mhost codes).
Notation nsteps := (nsteps art mhost codes).
Notation rel := (rel art fidx consts nl NR cap).

Lemma byte_F p : (p < length F)%nat -> byte_at c (Z.of_nat p) = Z.of_N (nth p F 0%N).
Proof. intros H. apply (HF p H). Qed.

Lemma code_from_F s1 pre t post :
  matches F s1 -> c_out s1 = pre ++ t ++ post ->
  (forall j, (j < length t)%nat -> ~ pending s1 (length pre + j)) ->
  code_at c (Z.of_nat (length pre)) t.
Proof.
  intros [L Hm] E Hn j Hj.
  assert (Hlt : (length pre + j < length (c_out s1))%nat) by (rewrite E, !app_length; lia).
  rewrite <- Nat2Z.inj_add, byte_F by lia. rewrite (Hm _ Hlt (Hn j Hj)), E.
  rewrite app_nth2 by lia. rewrite app_nth1 by lia. do 2 f_equal. lia.
Qed.

Lemma target_from_F s1 loc T :
  resolved s1 loc T -> matches F s1 -> 0 <= T < 4294967296 -> get_u32 c loc = T.
Proof.
  intros (H0 & H1 & H2) [L Hm] HT. apply code_at_u32; [exact HT|]. intros j Hj. rewrite u32_bytes_length in Hj.
  destruct (H2 j Hj) as [Hb Hp].
  replace (loc + Z.of_nat j) with (Z.of_nat (Z.to_nat loc + j)) by lia.
  rewrite byte_F by lia. rewrite (Hm (Z.to_nat loc + j)%nat ltac:(lia) Hp), Hb. reflexivity.
Qed.

(** ** label environments: for every open frame, the target all its [br] jumps will have in the
    final code; the second component excludes the [if]'s own jump (which lies before it) *)
Definition lenv1 (j : jump_target) (e : Z * Z * option provider) : Prop :=
  (exists locs, j = JUnknown locs (snd e) /\ forall loc, In loc locs -> snd (fst e) <= loc -> get_u32 c loc = fst (fst e))
  \/ (j = JKnown (fst (fst e)) /\ snd e = None).
Definition lenv (s : cstate) (rho : list (Z * Z * option provider)) : Prop := Forall2 lenv1 (c_bp s) rho.
Definition lows (rho : list (Z * Z * option provider)) (s : cstate) : Prop :=
  Forall (fun e => snd (fst e) <= cur_off s /\ 0 <= fst (fst e) < 4294967296) rho.

Lemma lenv_sub bp s s' rho : c_bp s = bp -> bp_sub bp (c_bp s') -> lenv s' rho -> lenv s rho.
Proof.
  unfold lenv. intros -> H. revert rho. induction H as [|j j' b b' Hj]; intros rho H2;
    inversion H2 as [|? e ? rho' He]; subst; constructor; auto.
  destruct Hj as [(locs & add & res & -> & ->)|(pos & -> & ->)]; [|exact He].
  destruct He as [(l2 & E & Hl)|[E _]]; [|discriminate E].
  inversion E; subst. left. exists locs. split; [reflexivity|]. intros loc Hin Hlo. apply Hl; auto. apply in_or_app; auto.
Qed.
Lemma lows_mono rho s s' : lows rho s -> cur_off s <= cur_off s' -> lows rho s'.
Proof. unfold lows. intros H Hle. eapply Forall_impl; [|exact H]. cbn. intros; lia. Qed.
Lemma lows_nth rho s k e : lows rho s -> nth_error rho k = Some e -> snd (fst e) <= cur_off s /\ 0 <= fst (fst e) < 4294967296.
Proof. unfold lows. intros H E. rewrite Forall_forall in H. apply H. eapply nth_error_In; eauto. Qed.

Definition at_pc (pc : Z) : cstate :=
  {| c_out := repeat 0%N (Z.to_nat pc); c_bp := []; c_stack := []; c_next := 0; c_reuse := []; c_consts := []; c_last := None |}.
Lemma cur_off_at_pc pc : 0 <= pc -> cur_off (at_pc pc) = pc.
Proof. intros H. unfold cur_off, at_pc. cbn. rewrite repeat_length. lia. Qed.

(** arrival at a label: nothing on the operand stack for a result-less label, the branch value in the
    reserved register otherwise *)
Definition at_pcv (pc : Z) (r : provider) : cstate :=
  {| c_out := repeat 0%N (Z.to_nat pc); c_bp := []; c_stack := [r]; c_next := 0; c_reuse := []; c_consts := []; c_last := None |}.
Lemma cur_off_at_pcv pc r : 0 <= pc -> cur_off (at_pcv pc r) = pc.
Proof. intros H. unfold cur_off, at_pcv. cbn. rewrite repeat_length. lia. Qed.
(** at the function's own label only the result (register 0), globals and memory matter: local 0 has
    been overwritten by the result *)
Definition wrel (pc : Z) (st : store) (v : val) (M : mstate) : Prop :=
  ms_idx M = fidx /\ ms_pc M = pc /\ Forall2 repr (ms_globals M) (s_globals st) /\ mem_rel art cap (ms_mem M) (s_mem st)
  /\ repr (reg M 0) v.
Definition arrive (e : Z * Z * option provider) (st : store) (l vs : list val) (M : mstate) : Prop :=
  match snd e with
  | None => rel (at_pc (fst (fst e))) st l [] M
  | Some (PDyn d) => exists v vs0, vs = v :: vs0 /\ rel (at_pcv (fst (fst e)) (PDyn d)) st l [v] M
  | Some _ => exists v vs0, vs = v :: vs0 /\ wrel (fst (fst e)) st v M
  end.

Definition sim_res (rho : list (Z * Z * option provider)) (M : mstate) (s1 : cstate) (r : res) : Prop :=
  match r with
  | RNormal st' l' vs' => exists n M', nsteps n M = SNext M' /\ rel s1 st' l' vs' M' /\ frame_eq M M'
  | RBr k st' l' vs' => exists e n M', nth_error rho k = Some e /\ 0 <= fst (fst e) /\ nsteps n M = SNext M'
                                     /\ arrive e st' l' vs' M' /\ frame_eq M M'
  | RTrap => exists n e, nsteps n M = STrap e
  | RReturn st' vs' => exists n M', nsteps n M = SNext M' /\ frame_eq M M' /\ ms_idx M' = fidx
                                /\ code_at c (ms_pc M') [IReturn]
                                /\ Forall2 repr (ms_globals M') (s_globals st') /\ mem_rel art cap (ms_mem M') (s_mem st')
                                /\ match cx_return cx with
                                   | Some _ => exists v vs0, vs' = v :: vs0 /\ repr (reg M' 0) v
                                   | None => True
                                   end
  | _ => True
  end.

Lemma sim_res_compose rho M M1 s1 n1 r :
  nsteps n1 M = SNext M1 -> frame_eq M M1 -> sim_res rho M1 s1 r -> sim_res rho M s1 r.
Proof.
  intros Hn Fq H. destruct r; cbn in *; auto.
  - destruct H as (n & M' & A & B & C0). exists (n1 + n)%nat, M'. rewrite (nsteps_app _ _ _ _ _ _ _ Hn).
    split; [exact A|split; [exact B|eapply frame_eq_trans; eauto]].
  - destruct H as (e & n & M' & A0 & A1 & A & B & C0). exists e, (n1 + n)%nat, M'. rewrite (nsteps_app _ _ _ _ _ _ _ Hn).
    split; [exact A0|split; [exact A1|split; [exact A|split; [exact B|eapply frame_eq_trans; eauto]]]].
  - destruct H as (n & M' & A & B & C0). exists (n1 + n)%nat, M'. rewrite (nsteps_app _ _ _ _ _ _ _ Hn).
    split; [exact A|split; [eapply frame_eq_trans; eauto|exact C0]].
  - destruct H as (n & e & A). exists (n1 + n)%nat, e. rewrite (nsteps_app _ _ _ _ _ _ _ Hn). exact A.
Qed.

Lemma rel_transfer s s2 st l vs M :
  rel s st l vs M -> c_stack s2 = c_stack s -> cur_off s2 = cur_off s -> rel s2 st l vs M.
Proof. intros R Es Eo. destruct R. constructor; auto; try congruence. Qed.

Lemma rel_jump s s2 st l vs M pc :
  rel s st l vs M -> c_stack s2 = [] -> cur_off s2 = pc -> rel s2 st l [] (set_pc M pc).
Proof.
  intros R Es Eo. destruct R. constructor; cbn [set_pc ms_idx ms_pc ms_regs ms_base ms_globals ms_mem]; auto.
  rewrite Es. constructor.
Qed.
Lemma frame_eq_set_pc M pc : frame_eq M (set_pc M pc).
Proof. repeat split. Qed.

(** ** machine steps with the jump target read from the final code *)
Lemma mstep_br2 M : ms_idx M = fidx -> code_at c (ms_pc M) [IBr] ->
  mstep M = SNext (set_pc M (get_u32 c (ms_pc M + 1))).
Proof.
  intros Hi Hc. apply code_at_cons in Hc. destruct Hc as [H0 _].
  rewrite (mstep_at art mhost codes fidx c consts Hcode M Hi), H0, N2Z.id. reflexivity.
Qed.
Lemma mstep_br_if2 M a : ms_idx M = fidx -> code_at c (ms_pc M) [IBrIf] -> code_at c (ms_pc M + 5) (i32_bytes a) ->
  -2147483648 <= a < 2147483648 ->
  mstep M = SNext (set_pc M (if as_i32 (get_local consts M a) =? 0 then ms_pc M + 9 else get_u32 c (ms_pc M + 1))).
Proof.
  intros Hi Hc H2 Ha. apply code_at_cons in Hc. destruct Hc as [H0 _].
  rewrite (mstep_at art mhost codes fidx c consts Hcode M Hi), H0, N2Z.id.
  change (exec_op art mhost c consts M (ms_pc M + 1) IBrIf) with
    (let tgt := get_u32 c (ms_pc M + 1) in
     let cond := get_local consts M (get_i32 c (ms_pc M + 1 + 4)) in
     SNext (set_pc M (if as_i32 cond =? 0 then ms_pc M + 1 + 8 else tgt))).
  cbv zeta. replace (ms_pc M + 1 + 4) with (ms_pc M + 5) by lia. rewrite (code_at_i32 c _ a Ha H2).
  replace (ms_pc M + 1 + 8) with (ms_pc M + 9) by lia. reflexivity.
Qed.
Lemma mstep_if2 M a : ms_idx M = fidx -> code_at c (ms_pc M) (IIf :: i32_bytes a) ->
  -2147483648 <= a < 2147483648 ->
  mstep M = SNext (set_pc M (if as_i32 (get_local consts M a) =? 0 then get_u32 c (ms_pc M + 5) else ms_pc M + 9)).
Proof.
  intros Hi Hc Ha. apply code_at_cons in Hc. destruct Hc as [H0 H1].
  rewrite (mstep_at art mhost codes fidx c consts Hcode M Hi), H0, N2Z.id.
  change (exec_op art mhost c consts M (ms_pc M + 1) IIf) with
    (let cond := get_local consts M (get_i32 c (ms_pc M + 1)) in
     let tgt := get_u32 c (ms_pc M + 1 + 4) in
     SNext (set_pc M (if as_i32 cond =? 0 then tgt else ms_pc M + 1 + 8))).
  cbv zeta. rewrite (code_at_i32 c _ a Ha H1).
  replace (ms_pc M + 1 + 4) with (ms_pc M + 5) by lia. replace (ms_pc M + 1 + 8) with (ms_pc M + 9) by lia. reflexivity.
Qed.

Lemma cond_repr r cv : repr r (VI32 cv) -> (as_i32 r =? 0) = (cv =? 0).
Proof. intros H. rewrite (as_i32_eqb0 mhost fidx consts). unfold repr in H. rewrite H. reflexivity. Qed.

(** ** the specification's interpreter on the accepted constructs *)
Notation exec_seq := (exec_seq host cap m).
Notation exec_instr := (exec_instr host cap m).

Lemma E_nil f st l vs : exec_seq (S f) st l vs [] = RNormal st l vs. Proof. reflexivity. Qed.
Lemma E_cons f st l vs i rest : exec_seq (S f) st l vs (i :: rest) =
  match exec_instr f st l vs i with RNormal s' l' st' => exec_seq f s' l' st' rest | r => r end.
Proof. reflexivity. Qed.
Lemma E_block f st l vs bt body : exec_instr (S f) st l vs (Block bt body) =
  match exec_seq f st l [] body with
  | RNormal s' l' vs' => RNormal s' l' (firstn (arity bt) vs' ++ vs)
  | RBr O s' l' vs' => RNormal s' l' (firstn (arity bt) vs' ++ vs)
  | RBr (S k) s' l' vs' => RBr k s' l' vs'
  | r => r
  end.
Proof. reflexivity. Qed.
Lemma E_if f st l cv vs bt thn els : exec_instr (S f) st l (VI32 cv :: vs) (If bt thn els) =
  exec_instr f st l vs (Block bt (if cv =? 0 then els else thn)).
Proof. reflexivity. Qed.
Lemma E_br f st l vs k : exec_instr (S f) st l vs (Basic (BBr k)) = RBr k st l vs. Proof. reflexivity. Qed.
Lemma E_br_if f st l cv vs k : exec_instr (S f) st l (VI32 cv :: vs) (Basic (BBrIf k)) =
  if cv =? 0 then RNormal st l vs else RBr k st l vs.
Proof. reflexivity. Qed.

Lemma E_loop f st l vs bt body : exec_instr (S f) st l vs (Loop bt body) =
  match exec_seq f st l [] body with
  | RNormal s' l' vs' => RNormal s' l' (firstn (arity bt) vs' ++ vs)
  | RBr O s' l' _ => exec_instr f s' l' vs (Loop bt body)
  | RBr (S k) s' l' vs' => RBr k s' l' vs'
  | r => r
  end.
Proof. reflexivity. Qed.
Lemma E_return f st l vs : exec_instr (S f) st l vs (Basic BReturn) = RReturn st vs. Proof. reflexivity. Qed.
Lemma E_unreachable f st l vs : exec_instr (S f) st l vs (Basic BUnreachable) = RTrap. Proof. reflexivity. Qed.

Lemma exec_prefix bs tl : forall fuel st l vs, forallb straight_ok bs = true ->
  exec_seq fuel st l vs (map Basic bs ++ tl) = RFuel \/
  exec_seq fuel st l vs (map Basic bs ++ tl) =
  match straight_sem cap bs st l vs with
  | inr (st', l', vs') => exec_seq (fuel - length bs) st' l' vs' tl
  | inl true => RTrap
  | inl false => RStuck
  end.
Proof.
  induction bs as [|b r IH]; intros fuel st l vs Hok.
  - right. cbn. rewrite Nat.sub_0_r. reflexivity.
  - cbn [forallb] in Hok. apply andb_true_iff in Hok. destruct Hok as [Hb Hr].
    destruct fuel as [|f]; [left; reflexivity|]. cbn [map app]. rewrite E_cons.
    destruct f as [|f']; [left; reflexivity|].
    assert (E : exec_instr (S f') st l vs (Basic b) =
                match exec_simple cap b st l vs with
                | inr (s', l', st') => RNormal s' l' st' | inl true => RTrap | inl false => RStuck end).
    { destruct b; try discriminate Hb; reflexivity. }
    rewrite E. cbn [straight_sem length]. destruct (exec_simple cap b st l vs) as [[|]|[[st1 l1] vs1]]; auto.
    replace (S (S f') - S (length r))%nat with (S f' - length r)%nat by lia. apply IH. exact Hr.
Qed.

Lemma nth_error_update_nth {A} : forall (bp : list A) k j x, nth_error bp k = Some j -> nth_error (update_nth bp k x) k = Some x.
Proof. induction bp as [|y r IH]; intros [|k] j x H; cbn in *; try discriminate; eauto. Qed.

Lemma lenv_nth s rho k locs res : lenv s rho -> nth_error (c_bp s) k = Some (JUnknown locs res) ->
  exists e, nth_error rho k = Some e /\ snd e = res /\ forall loc, In loc locs -> snd (fst e) <= loc -> get_u32 c loc = fst (fst e).
Proof.
  unfold lenv. intros H. revert k. induction H as [|j e b r He]; intros [|k] E; cbn in E; try discriminate.
  - inversion E; subst. destruct He as [(l0 & E0 & Hl)|[E0 _]]; [|discriminate E0]. inversion E0; subst.
    exists e. split; [reflexivity|split; [reflexivity|exact Hl]].
  - apply IHForall2. exact E.
Qed.
Lemma lenv_nth_known s rho k pos : lenv s rho -> nth_error (c_bp s) k = Some (JKnown pos) ->
  exists e, nth_error rho k = Some e /\ fst (fst e) = pos /\ snd e = None.
Proof.
  unfold lenv. intros H. revert k. induction H as [|j e b r He]; intros [|k] E; cbn in E; try discriminate.
  - inversion E; subst. destruct He as [(l0 & E0 & Hl)|[E0 En]]; [discriminate E0|]. inversion E0; subst.
    exists e. auto.
  - apply IHForall2. exact E.
Qed.

Lemma byte_at_nonneg p : 0 <= byte_at c p.
Proof. unfold byte_at. destruct (PositiveMap.find _ c); lia. Qed.
Lemma get_u32_nonneg p : 0 <= get_u32 c p.
Proof. unfold get_u32. pose proof (byte_at_nonneg p). pose proof (byte_at_nonneg (p + 1)). pose proof (byte_at_nonneg (p + 2)). pose proof (byte_at_nonneg (p + 3)). lia. Qed.

Lemma update_locs_in bp k locs res x y :
  nth_error bp k = Some (JUnknown locs res) ->
  In y (all_locs (update_nth bp k (JUnknown (locs ++ [x]) res))) -> y = x \/ In y (all_locs bp).
Proof.
  intros E H. destruct (all_locs_update bp k locs res x E) as (A & B & E1 & E2). rewrite E2 in H. rewrite E1.
  apply in_app_iff in H. cbn in H. rewrite in_app_iff. intuition.
Qed.

Lemma sim_br k locs s v v1 s1 rho st l vs M :
  inv nl s v -> v_unreach v = None -> nth_error (c_bp s) k = Some (JUnknown locs None) ->
  vstep cx v (OBasic (BBr k)) = Some v1 ->
  handle_opcode cx s v1 Reachable (OBasic (BBr k)) = Some s1 ->
  matches F s1 -> lenv s1 rho -> lows rho s -> rel s st l vs M ->
  sim_res rho M s1 (RBr k st l vs).
Proof.
  intros I Hu Enth Ev Eh Hm Hle Hlo R.
  destruct (op_br nl cx s v v1 s1 k locs I Hu Enth Ev Eh) as (O1 & O2 & O3 & O4 & O5 & O6 & I1 & Hu1 & X1).
  assert (Hc : code_at c (cur_off s) [IBr]).
  { apply (code_from_F s1 (c_out s) [IBr] (u32_bytes 0) Hm O1). intros j Hj. cbn in Hj.
    apply (pres_pending_new s s1 (cur_off s + 1)); [apply (i_bp _ _ _ I)| |lia|unfold in_win, cur_off; lia].
    intros y Hy. rewrite O2 in Hy. eapply update_locs_in; eauto. }
  assert (Enth1 : nth_error (c_bp s1) k = Some (JUnknown (locs ++ [cur_off s + 1]) None)).
  { rewrite O2. eapply nth_error_update_nth; eauto. }
  destruct (lenv_nth s1 rho k _ _ Hle Enth1) as (e & Ee & Er & He).
  assert (Hlo_e : snd (fst e) <= cur_off s) by apply (lows_nth _ _ _ _ Hlo Ee).
  assert (Ht : get_u32 c (cur_off s + 1) = fst (fst e)) by (apply He; [apply in_or_app; right; left; reflexivity|lia]).
  assert (H0 : 0 <= fst (fst e)) by (rewrite <- Ht; apply get_u32_nonneg).
  cbn. exists e, 1%nat, (set_pc M (fst (fst e))).
  split; [exact Ee|]. split; [exact H0|]. split.
  - cbn. rewrite (mstep_br2 M (r_idx _ _ _ _ _ _ _ _ _ _ _ R)); rewrite (r_pc _ _ _ _ _ _ _ _ _ _ _ R); [rewrite Ht; reflexivity|exact Hc].
  - split; [|apply frame_eq_set_pc]. unfold arrive. rewrite Er. eapply rel_jump; [exact R|reflexivity|apply cur_off_at_pc; exact H0].
Qed.

Lemma rel_pc s s2 st l vs vs2 M pc :
  rel s st l vs M -> Forall2 (fun p v => repr (denote consts M p) v) (c_stack s2) vs2 -> cur_off s2 = pc ->
  rel s2 st l vs2 (set_pc M pc).
Proof.
  intros R Hs Eo. destruct R. constructor; cbn [set_pc ms_idx ms_pc ms_regs ms_base ms_globals ms_mem]; auto.
Qed.

Lemma pwf_idx s p : small NR s -> cwf nl s -> pwf nl s p -> -2147483648 <= provider_idx p < 2147483648.
Proof. intros S W P. apply (idx_ok_of_pwf nl NR NR_small s p S (w_next _ _ W) P). Qed.

Lemma sim_br_if k locs s v v1 s1 rho st l cv vs M :
  inv nl s v -> v_unreach v = None -> nth_error (c_bp s) k = Some (JUnknown locs None) ->
  vstep cx v (OBasic (BBrIf k)) = Some v1 ->
  handle_opcode cx s v1 Reachable (OBasic (BBrIf k)) = Some s1 ->
  matches F s1 -> lenv s1 rho -> lows rho s -> small NR s1 -> rel s st l (VI32 cv :: vs) M ->
  exists M1, nsteps 1 M = SNext M1 /\ frame_eq M M1 /\
    if cv =? 0 then rel s1 st l vs M1
    else exists e, nth_error rho k = Some e /\ 0 <= fst (fst e) /\ arrive e st l vs M1.
Proof.
  intros I Hu Enth Ev Eh Hm Hle Hlo Sm R.
  destruct (op_br_if nl cx s v v1 s1 k locs I Hu Enth Ev Eh) as (p & rest & Es & Pp & O1 & O2 & O3 & O4 & O5 & O6 & I1 & Hu1 & X1).
  assert (Hpend : forall q, (length (c_out s) <= q)%nat -> ~ in_win (cur_off s + 1) q -> ~ pending s1 q).
  { intros q Hq Hw. apply (pres_pending_new s s1 (cur_off s + 1)); auto; [apply (i_bp _ _ _ I)|].
    intros y Hy. rewrite O2 in Hy. eapply update_locs_in; eauto. }
  assert (Hc : code_at c (cur_off s) [IBrIf]).
  { apply (code_from_F s1 (c_out s) [IBrIf] (u32_bytes 0 ++ i32_bytes (provider_idx p)) Hm O1). intros j Hj. cbn in Hj.
    apply Hpend; [lia|unfold in_win, cur_off; lia]. }
  assert (Hc2 : code_at c (cur_off s + 5) (i32_bytes (provider_idx p))).
  { assert (E : c_out s1 = (c_out s ++ IBrIf :: u32_bytes 0) ++ i32_bytes (provider_idx p) ++ []).
    { rewrite O1, app_nil_r, <- app_assoc. reflexivity. }
    pose proof (code_from_F s1 _ _ _ Hm E) as Hx. rewrite app_length in Hx. cbn [length] in Hx. rewrite !u32_bytes_length in Hx.
    replace (cur_off s + 5) with (Z.of_nat (length (c_out s) + 5)) by (unfold cur_off; lia). apply Hx.
    intros j Hj. apply Hpend; [lia|unfold in_win, cur_off; lia]. }
  pose proof (r_stack _ _ _ _ _ _ _ _ _ _ _ R) as Hst. rewrite Es in Hst. inversion Hst as [|? ? ? ? Hp Hrest]; subst.
  assert (Sm0 : small NR s) by (eapply small_of_mono; [exact Sm|apply mono_eq; auto]).
  pose proof (pwf_idx s p Sm0 (i_cwf _ _ _ I) Pp) as Hidx.
  pose proof (mstep_br_if2 M (provider_idx p) (r_idx _ _ _ _ _ _ _ _ _ _ _ R)) as Hstep.
  rewrite (r_pc _ _ _ _ _ _ _ _ _ _ _ R) in Hstep. specialize (Hstep Hc Hc2 Hidx).
  change (get_local consts M (provider_idx p)) with (denote consts M p) in Hstep. rewrite (cond_repr _ _ Hp) in Hstep.
  assert (Ecur : cur_off s1 = cur_off s + 9).
  { unfold cur_off. rewrite O1, app_length. cbn [length]. rewrite app_length, u32_bytes_length, i32_bytes_length. lia. }
  eexists. split; [cbn; rewrite Hstep; reflexivity|]. split; [apply frame_eq_set_pc|].
  destruct (cv =? 0).
  - eapply rel_pc; [exact R|exact Hrest|exact Ecur].
  - assert (Enth1 : nth_error (c_bp s1) k = Some (JUnknown (locs ++ [cur_off s + 1]) None)).
    { rewrite O2. eapply nth_error_update_nth; eauto. }
    destruct (lenv_nth s1 rho k _ _ Hle Enth1) as (e & Ee & Er & He).
    assert (Hlo_e : snd (fst e) <= cur_off s) by apply (lows_nth _ _ _ _ Hlo Ee).
    assert (Ht : get_u32 c (cur_off s + 1) = fst (fst e)) by (apply He; [apply in_or_app; right; left; reflexivity|lia]).
    assert (H0 : 0 <= fst (fst e)) by (rewrite <- Ht; apply get_u32_nonneg).
    exists e. split; [exact Ee|]. split; [exact H0|]. rewrite Ht. unfold arrive. rewrite Er.
    eapply rel_jump; [exact R|reflexivity|apply cur_off_at_pc; exact H0].
Qed.


(** ** jumps to a loop label (the target is in the code already), unreachable *)
Lemma no_new_pending s s1 q : bpwf s -> c_bp s1 = c_bp s -> (length (c_out s) <= q)%nat -> ~ pending s1 q.
Proof.
  intros B E Hq. apply (pres_pending_new s s1 (-10)); auto; [|unfold in_win; lia]. intros y Hy. right. rewrite <- E. exact Hy.
Qed.

Lemma sim_br_known k pos s v v1 s1 rho st l vs M :
  inv nl s v -> v_unreach v = None -> nth_error (c_bp s) k = Some (JKnown pos) ->
  vstep cx v (OBasic (BBr k)) = Some v1 ->
  handle_opcode cx s v1 Reachable (OBasic (BBr k)) = Some s1 ->
  matches F s1 -> lenv s1 rho -> lows rho s -> rel s st l vs M ->
  sim_res rho M s1 (RBr k st l vs).
Proof.
  intros I Hu Enth Ev Eh Hm Hle Hlo R.
  destruct (op_br_known nl cx s v v1 s1 k pos I Hu Enth Ev Eh) as (O1 & O2 & O3 & O4 & O5 & O6 & I1 & Hu1 & X1).
  assert (Enth1 : nth_error (c_bp s1) k = Some (JKnown pos)) by (rewrite O2; exact Enth).
  destruct (lenv_nth_known s1 rho k pos Hle Enth1) as (e & Ee & Epos & Er).
  destruct (lows_nth _ _ _ _ Hlo Ee) as [_ Hr]. rewrite Epos in Hr.
  assert (Hc : code_at c (cur_off s) (IBr :: u32_bytes pos)).
  { apply (code_from_F s1 (c_out s) (IBr :: u32_bytes pos) [] Hm); [rewrite app_nil_r; exact O1|].
    intros j Hj. apply (no_new_pending s s1); auto; [apply (i_bp _ _ _ I)|lia]. }
  cbn. exists e, 1%nat, (set_pc M pos). rewrite Epos.
  split; [exact Ee|]. split; [lia|]. split.
  - cbn. rewrite (mstep_br art mhost codes fidx c consts Hcode M pos (r_idx _ _ _ _ _ _ _ _ _ _ _ R)); auto.
    rewrite (r_pc _ _ _ _ _ _ _ _ _ _ _ R). exact Hc.
  - split; [|apply frame_eq_set_pc]. unfold arrive. rewrite Er, Epos. eapply rel_jump; [exact R|reflexivity|apply cur_off_at_pc; lia].
Qed.

Lemma sim_br_if_known k pos s v v1 s1 rho st l cv vs M :
  inv nl s v -> v_unreach v = None -> nth_error (c_bp s) k = Some (JKnown pos) ->
  vstep cx v (OBasic (BBrIf k)) = Some v1 ->
  handle_opcode cx s v1 Reachable (OBasic (BBrIf k)) = Some s1 ->
  matches F s1 -> lenv s1 rho -> lows rho s -> small NR s1 -> rel s st l (VI32 cv :: vs) M ->
  exists M1, nsteps 1 M = SNext M1 /\ frame_eq M M1 /\
    if cv =? 0 then rel s1 st l vs M1
    else exists e, nth_error rho k = Some e /\ 0 <= fst (fst e) /\ arrive e st l vs M1.
Proof.
  intros I Hu Enth Ev Eh Hm Hle Hlo Sm R.
  destruct (op_br_if_known nl cx s v v1 s1 k pos I Hu Enth Ev Eh) as (p & rest & Es & Pp & O1 & O2 & O3 & O4 & O5 & O6 & I1 & Hu1 & X1).
  assert (Enth1 : nth_error (c_bp s1) k = Some (JKnown pos)) by (rewrite O2; exact Enth).
  destruct (lenv_nth_known s1 rho k pos Hle Enth1) as (e & Ee & Epos & Er).
  destruct (lows_nth _ _ _ _ Hlo Ee) as [_ Hr]. rewrite Epos in Hr.
  assert (Hc : code_at c (cur_off s) (IBrIf :: u32_bytes pos ++ i32_bytes (provider_idx p))).
  { apply (code_from_F s1 (c_out s) _ [] Hm); [rewrite app_nil_r; exact O1|].
    intros j Hj. apply (no_new_pending s s1); auto; [apply (i_bp _ _ _ I)|lia]. }
  pose proof (r_stack _ _ _ _ _ _ _ _ _ _ _ R) as Hst. rewrite Es in Hst.
  assert (Hpr : repr (denote consts M p) (VI32 cv) /\ Forall2 (fun p v => repr (denote consts M p) v) rest vs) by (inversion Hst; auto).
  destruct Hpr as [Hp Hrest]. clear Hst.
  assert (Sm0 : small NR s) by (eapply small_of_mono; [exact Sm|apply mono_eq; auto]).
  pose proof (pwf_idx s p Sm0 (i_cwf _ _ _ I) Pp) as Hidx.
  pose proof (mstep_br_if art mhost codes fidx c consts Hcode M pos (provider_idx p) (r_idx _ _ _ _ _ _ _ _ _ _ _ R)) as Hstep.
  rewrite (r_pc _ _ _ _ _ _ _ _ _ _ _ R) in Hstep. specialize (Hstep Hc Hr Hidx).
  change (get_local consts M (provider_idx p)) with (denote consts M p) in Hstep. rewrite (cond_repr _ _ Hp) in Hstep.
  assert (Ecur : cur_off s1 = cur_off s + 9).
  { unfold cur_off. rewrite O1, app_length. cbn [length]. rewrite app_length, u32_bytes_length, i32_bytes_length. lia. }
  eexists. split; [cbn; rewrite Hstep; reflexivity|]. split; [apply frame_eq_set_pc|].
  destruct (cv =? 0).
  - eapply rel_pc; [exact R|rewrite O3; exact Hrest|exact Ecur].
  - exists e. split; [exact Ee|]. split; [rewrite Epos; lia|]. unfold arrive. rewrite Er, Epos.
    eapply rel_jump; [exact R|reflexivity|apply cur_off_at_pc; lia].
Qed.

Lemma sim_unreachable s v v1 s1 rho st l vs M :
  inv nl s v -> v_unreach v = None -> vstep cx v (OBasic BUnreachable) = Some v1 ->
  handle_opcode cx s v1 Reachable (OBasic BUnreachable) = Some s1 ->
  matches F s1 -> rel s st l vs M -> sim_res rho M s1 RTrap.
Proof.
  intros I Hu Ev Eh Hm R.
  destruct (op_unreachable nl cx s v v1 s1 I Hu Ev Eh) as (O1 & O2 & O3 & O4 & O5 & O6 & I1 & Hu1 & X1).
  assert (Hc : code_at c (cur_off s) [IUnreachable]).
  { apply (code_from_F s1 (c_out s) [IUnreachable] [] Hm); [rewrite app_nil_r; exact O1|].
    intros j Hj. apply (no_new_pending s s1); auto; [apply (i_bp _ _ _ I)|lia]. }
  apply code_at_cons in Hc. destruct Hc as [H0 _]. rewrite <- (r_pc _ _ _ _ _ _ _ _ _ _ _ R) in H0.
  cbn. exists 1%nat, TUnreachable. cbn.
  rewrite (mstep_at art mhost codes fidx c consts Hcode M (r_idx _ _ _ _ _ _ _ _ _ _ _ R)), H0, N2Z.id. reflexivity.
Qed.

Lemma sim_return s v v1 s1 rho st l vs M :
  inv nl s v -> v_unreach v = None -> cx_return cx = None ->
  last (map (fun f => Some (vf_label f)) (v_ctrls v)) None = Some None ->
  vstep cx v (OBasic BReturn) = Some v1 ->
  handle_opcode cx s v1 Reachable (OBasic BReturn) = Some s1 ->
  matches F s1 -> rel s st l vs M -> sim_res rho M s1 (RReturn st vs).
Proof.
  intros I Hu Hret Hne Ev Eh Hm R.
  destruct (op_return nl cx s v v1 s1 I Hu Hret Hne Ev Eh) as (O1 & O2 & O3 & O4 & O5 & O6 & I1 & Hu1 & X1).
  assert (Hc : code_at c (cur_off s) [IReturn]).
  { apply (code_from_F s1 (c_out s) [IReturn] [] Hm); [rewrite app_nil_r; exact O1|].
    intros j Hj. apply (no_new_pending s s1); auto; [apply (i_bp _ _ _ I)|lia]. }
  cbn. exists O, M. split; [reflexivity|]. split; [apply frame_eq_refl|]. split; [apply (r_idx _ _ _ _ _ _ _ _ _ _ _ R)|].
  split; [rewrite (r_pc _ _ _ _ _ _ _ _ _ _ _ R); exact Hc|].
  split; [apply (r_globals _ _ _ _ _ _ _ _ _ _ _ R)|]. split; [apply (r_mem _ _ _ _ _ _ _ _ _ _ _ R)|].
  rewrite Hret. exact Logic.I.
Qed.



(** ** moving a value into the reserved result register of a frame *)
Lemma sim_copy s p d rest st l v vs M :
  rel s st l (v :: vs) M -> c_stack s = p :: rest -> pwf nl s p -> cwf nl s -> small NR s -> nl <= d < c_next s ->
  code_at c (cur_off s) (copy_bytes p d) ->
  exists k M1, nsteps k M = SNext M1 /\ frame_eq M M1
    /\ ms_pc M1 = cur_off s + Z.of_nat (length (copy_bytes p d))
    /\ forall s2, c_stack s2 = [PDyn d] -> cur_off s2 = ms_pc M1 -> rel s2 st l [v] M1.
Proof.
  intros R Es Pp W Sm Hd Hc.
  pose proof (r_stack _ _ _ _ _ _ _ _ _ _ _ R) as Hst. rewrite Es in Hst.
  assert (Hp : repr (denote consts M p) v) by (inversion Hst; auto). clear Hst.
  pose proof (w_next _ _ W) as Hnl. destruct Sm as [Sn Sc].
  unfold copy_bytes in *. destruct (provider_eqb p (PDyn d)) eqn:Eq.
  - apply provider_eqb_eq in Eq. subst p. exists O, M. split; [reflexivity|]. split; [apply frame_eq_refl|].
    cbn [length]. split; [rewrite (r_pc _ _ _ _ _ _ _ _ _ _ _ R); lia|].
    intros s2 E2 Ec2. destruct R. constructor; auto. rewrite E2. constructor; [exact Hp|constructor].
  - pose proof (pwf_idx s p (conj Sn Sc) W Pp) as Hidx.
    assert (Hdi : idx_ok d) by (unfold idx_ok; lia).
    pose proof (mstep_copy art mhost codes fidx c consts Hcode M (provider_idx p) d (r_idx _ _ _ _ _ _ _ _ _ _ _ R)) as Hstep.
    rewrite (r_pc _ _ _ _ _ _ _ _ _ _ _ R) in Hstep. specialize (Hstep Hc Hidx Hdi).
    change (get_local consts M (provider_idx p)) with (denote consts M p) in Hstep.
    set (x := denote consts M p) in *. set (pc' := cur_off s + 9) in *.
    exists 1%nat, (set_pc (set_reg M d x) pc'). split; [cbn; rewrite Hstep; reflexivity|].
    split; [apply (frame_eq_write _ _ _ _ _ (mupd_refl M))|].
    split; [cbn [length]; rewrite app_length, !i32_bytes_length; cbn; unfold pc'; lia|].
    intros s2 E2 Ec2.
    assert (Hr : 0 <= d < NR) by lia.
    pose proof (reg_in_range _ _ _ _ _ _ _ _ _ _ _ d R Hr) as Hrange.
    eapply (rel_after_write art fidx consts nl NR cap s s2 st st l l (v :: vs) [v] M M d x pc' [PDyn d]); auto.
    + apply mupd_refl.
    + constructor; [|constructor]. cbn [provider_idx]. rewrite get_local_set_pc, get_local_set_reg by (auto; lia).
      rewrite Z.eqb_refl. exact Hp.
    + apply (r_nl _ _ _ _ _ _ _ _ _ _ _ R).
    + apply (locals_kept art mhost fidx consts nl NR cap s st l (v :: vs) M M d x pc' R (mupd_refl M)); lia.
    + apply (r_globals _ _ _ _ _ _ _ _ _ _ _ R).
    + apply (r_mem _ _ _ _ _ _ _ _ _ _ _ R).
Qed.

Lemma code_from_F2 s1 base t :
  matches F s1 -> (base + length t <= length (c_out s1))%nat ->
  (forall j, (j < length t)%nat -> nth (base + j) (c_out s1) 0%N = nth j t 0%N /\ ~ pending s1 (base + j)) ->
  code_at c (Z.of_nat base) t.
Proof.
  intros [L Hm] Hlen Hn j Hj. destruct (Hn j Hj) as [E Np].
  rewrite <- Nat2Z.inj_add, byte_F by lia. rewrite (Hm (base + j)%nat ltac:(lia) Np), E. reflexivity.
Qed.

Lemma sim_copy_ret s p rest st l v vs M :
  rel s st l (v :: vs) M -> c_stack s = p :: rest -> pwf nl s p -> cwf nl s -> small NR s -> 0 < NR ->
  code_at c (cur_off s) (copy_ret p) ->
  exists k M1, nsteps k M = SNext M1 /\ frame_eq M M1 /\ wrel (cur_off s + Z.of_nat (length (copy_ret p))) st v M1.
Proof.
  intros R Es Pp W Sm HNR Hc.
  pose proof (r_stack _ _ _ _ _ _ _ _ _ _ _ R) as Hst. rewrite Es in Hst.
  assert (Hp : repr (denote consts M p) v) by (inversion Hst; auto). clear Hst.
  unfold copy_ret in *. destruct (provider_eqb p (PLocal 0)) eqn:Eq.
  - apply provider_eqb_eq in Eq. subst p. exists O, M. split; [reflexivity|]. split; [apply frame_eq_refl|].
    cbn [length]. repeat split.
    + apply (r_idx _ _ _ _ _ _ _ _ _ _ _ R).
    + rewrite (r_pc _ _ _ _ _ _ _ _ _ _ _ R). lia.
    + apply (r_globals _ _ _ _ _ _ _ _ _ _ _ R).
    + apply (r_mem _ _ _ _ _ _ _ _ _ _ _ R).
    + exact Hp.
  - pose proof (pwf_idx s p Sm W Pp) as Hidx.
    assert (Hdi : idx_ok 0) by (unfold idx_ok; lia).
    pose proof (mstep_copy art mhost codes fidx c consts Hcode M (provider_idx p) 0 (r_idx _ _ _ _ _ _ _ _ _ _ _ R)) as Hstep.
    rewrite (r_pc _ _ _ _ _ _ _ _ _ _ _ R) in Hstep. specialize (Hstep Hc Hidx Hdi).
    change (get_local consts M (provider_idx p)) with (denote consts M p) in Hstep.
    set (x := denote consts M p) in *. set (pc' := cur_off s + 9) in *.
    exists 1%nat, (set_pc (set_reg M 0 x) pc'). split; [cbn; rewrite Hstep; reflexivity|].
    split; [apply (frame_eq_write _ _ _ _ _ (mupd_refl M))|].
    assert (Hr : 0 <= 0 < NR) by lia.
    pose proof (reg_in_range _ _ _ _ _ _ _ _ _ _ _ 0 R Hr) as Hrange.
    unfold wrel. cbn [set_pc set_reg ms_idx ms_pc ms_globals ms_mem].
    split; [apply (r_idx _ _ _ _ _ _ _ _ _ _ _ R)|].
    split; [cbn [length]; rewrite app_length, !i32_bytes_length; cbn; unfold pc'; lia|].
    split; [apply (r_globals _ _ _ _ _ _ _ _ _ _ _ R)|]. split; [apply (r_mem _ _ _ _ _ _ _ _ _ _ _ R)|].
    change (reg (set_pc (set_reg M 0 x) pc') 0) with (get_local consts (set_pc (set_reg M 0 x) pc') 0).
    rewrite get_local_set_pc, get_local_set_reg by (auto; lia). exact Hp.
Qed.

Lemma sim_br_val k locs d s v v1 s1 rho st l vs M :
  inv nl s v -> v_unreach v = None -> nth_error (c_bp s) k = Some (JUnknown locs (Some (PDyn d))) ->
  vstep cx v (OBasic (BBr k)) = Some v1 ->
  handle_opcode cx s v1 Reachable (OBasic (BBr k)) = Some s1 ->
  matches F s1 -> lenv s1 rho -> lows rho s -> small NR s1 -> rel s st l vs M ->
  sim_res rho M s1 (RBr k st l vs).
Proof.
  intros I Hu Enth Ev Eh Hm Hle Hlo Sm R.
  destruct (op_br_val nl cx s v v1 s1 k locs d I Hu Enth Ev Eh) as (p & rest & Es & Pp & Hd & O1 & O2 & O3 & O4 & O5 & O6 & I1 & Hu1 & X1).
  set (tc := copy_bytes p d) in *. set (x := cur_off s + Z.of_nat (length tc) + 1) in *.
  assert (Hpend : forall q, (length (c_out s) <= q)%nat -> ~ in_win x q -> ~ pending s1 q).
  { intros q Hq Hw. apply (pres_pending_new s s1 x); auto; [apply (i_bp _ _ _ I)|].
    intros y Hy. rewrite O2 in Hy. eapply update_locs_in; eauto. }
  destruct vs as [|v0 vs0]; [pose proof (r_stack _ _ _ _ _ _ _ _ _ _ _ R) as Hst; rewrite Es in Hst; inversion Hst|].
  assert (Sm0 : small NR s) by (eapply small_of_mono; [exact Sm|apply mono_eq; auto]).
  assert (Hc1 : code_at c (cur_off s) tc).
  { apply (code_from_F s1 (c_out s) tc (IBr :: u32_bytes 0) Hm O1). intros j Hj. apply Hpend; [lia|unfold in_win, x, cur_off; lia]. }
  destruct (sim_copy s p d rest st l v0 vs0 M R Es Pp (i_cwf _ _ _ I) Sm0 Hd Hc1) as (k1 & M1 & Hn1 & Fq1 & Hpc1 & Hbld).
  assert (Hidx1 : ms_idx M1 = fidx) by (destruct Fq1 as (E & _); rewrite E; apply (r_idx _ _ _ _ _ _ _ _ _ _ _ R)).
  assert (Hc2 : code_at c (ms_pc M1) [IBr]).
  { rewrite Hpc1. fold tc. assert (E : c_out s1 = (c_out s ++ tc) ++ [IBr] ++ u32_bytes 0) by (rewrite O1, <- app_assoc; reflexivity).
    pose proof (code_from_F s1 _ _ _ Hm E) as Hx. rewrite app_length in Hx.
    replace (cur_off s + Z.of_nat (length tc)) with (Z.of_nat (length (c_out s) + length tc)) by (unfold cur_off; lia). apply Hx.
    intros j Hj. cbn in Hj. apply Hpend; [lia|unfold in_win, x, cur_off; lia]. }
  assert (Enth1 : nth_error (c_bp s1) k = Some (JUnknown (locs ++ [x]) (Some (PDyn d)))).
  { rewrite O2. eapply nth_error_update_nth; eauto. }
  destruct (lenv_nth s1 rho k _ _ Hle Enth1) as (e & Ee & Er & He).
  destruct (lows_nth _ _ _ _ Hlo Ee) as [Hlo_e _].
  assert (Ht : get_u32 c (ms_pc M1 + 1) = fst (fst e)).
  { rewrite Hpc1. fold tc. replace (cur_off s + Z.of_nat (length tc) + 1) with x by reflexivity.
    apply He; [apply in_or_app; right; left; reflexivity|unfold x; lia]. }
  assert (H0 : 0 <= fst (fst e)) by (rewrite <- Ht; apply get_u32_nonneg).
  assert (Hpc0 : 0 <= ms_pc M1) by (rewrite Hpc1; unfold cur_off; lia).
  pose proof (Hbld (at_pcv (ms_pc M1) (PDyn d)) eq_refl (cur_off_at_pcv _ _ Hpc0)) as R1.
  cbn. exists e, (k1 + 1)%nat, (set_pc M1 (fst (fst e))).
  split; [exact Ee|]. split; [exact H0|]. split.
  - rewrite (nsteps_app _ _ _ _ _ _ _ Hn1). cbn. rewrite (mstep_br2 M1 Hidx1 Hc2), Ht. reflexivity.
  - split; [|exact Fq1].
    unfold arrive. rewrite Er. exists v0, vs0. split; [reflexivity|].
    eapply rel_pc; [exact R1|apply (r_stack _ _ _ _ _ _ _ _ _ _ _ R1)|apply cur_off_at_pcv; exact H0].
Qed.

Lemma sim_br_ret k locs s v v1 s1 rho st l vs M :
  inv nl s v -> v_unreach v = None -> nth_error (c_bp s) k = Some (JUnknown locs (Some (PLocal 0))) ->
  vstep cx v (OBasic (BBr k)) = Some v1 ->
  handle_opcode cx s v1 Reachable (OBasic (BBr k)) = Some s1 ->
  matches F s1 -> lenv s1 rho -> lows rho s -> small NR s1 -> rel s st l vs M ->
  sim_res rho M s1 (RBr k st l vs).
Proof.
  intros I Hu Enth Ev Eh Hm Hle Hlo Sm R.
  destruct (op_br_ret nl cx s v v1 s1 k locs I Hu Enth Ev Eh) as (p & rest & Es & Pp & O1 & O2 & O3 & O4 & O5 & O6 & I1 & Hu1 & X1).
  assert (HNR : 0 < NR).
  { destruct (br_target _ _ _ _ Ev) as (fk & Ek). destruct (target_label_any _ _ _ _ k fk locs (PLocal 0) (i_frames _ _ _ I) Ek Enth) as (t0 & _ & [[_ H0]|(d0 & E0 & _)]); [|discriminate E0]. destruct Sm as [Sn _]. rewrite O4 in Sn. lia. }
  set (tc := copy_ret p) in *. set (x := cur_off s + Z.of_nat (length tc) + 1) in *.
  assert (Hpend : forall q, (length (c_out s) <= q)%nat -> ~ in_win x q -> ~ pending s1 q).
  { intros q Hq Hw. apply (pres_pending_new s s1 x); auto; [apply (i_bp _ _ _ I)|].
    intros y Hy. rewrite O2 in Hy. eapply update_locs_in; eauto. }
  destruct vs as [|v0 vs0]; [pose proof (r_stack _ _ _ _ _ _ _ _ _ _ _ R) as Hst; rewrite Es in Hst; inversion Hst|].
  assert (Sm0 : small NR s) by (eapply small_of_mono; [exact Sm|apply mono_eq; auto]).
  assert (Hc1 : code_at c (cur_off s) tc).
  { apply (code_from_F s1 (c_out s) tc (IBr :: u32_bytes 0) Hm O1). intros j Hj. apply Hpend; [lia|unfold in_win, x, cur_off; lia]. }
  destruct (sim_copy_ret s p rest st l v0 vs0 M R Es Pp (i_cwf _ _ _ I) Sm0 HNR Hc1) as (k1 & M1 & Hn1 & Fq1 & Hw1).
  pose proof Hw1 as (Hidx1 & Hpc1 & _).
  assert (Hc2 : code_at c (ms_pc M1) [IBr]).
  { rewrite Hpc1. fold tc. assert (E : c_out s1 = (c_out s ++ tc) ++ [IBr] ++ u32_bytes 0) by (rewrite O1, <- app_assoc; reflexivity).
    pose proof (code_from_F s1 _ _ _ Hm E) as Hx. rewrite app_length in Hx.
    replace (cur_off s + Z.of_nat (length tc)) with (Z.of_nat (length (c_out s) + length tc)) by (unfold cur_off; lia). apply Hx.
    intros j Hj. cbn in Hj. apply Hpend; [lia|unfold in_win, x, cur_off; lia]. }
  assert (Enth1 : nth_error (c_bp s1) k = Some (JUnknown (locs ++ [x]) (Some (PLocal 0)))).
  { rewrite O2. eapply nth_error_update_nth; eauto. }
  destruct (lenv_nth s1 rho k _ _ Hle Enth1) as (e & Ee & Er & He).
  destruct (lows_nth _ _ _ _ Hlo Ee) as [Hlo_e _].
  assert (Ht : get_u32 c (ms_pc M1 + 1) = fst (fst e)).
  { rewrite Hpc1. fold tc. replace (cur_off s + Z.of_nat (length tc) + 1) with x by reflexivity.
    apply He; [apply in_or_app; right; left; reflexivity|unfold x; lia]. }
  assert (H0 : 0 <= fst (fst e)) by (rewrite <- Ht; apply get_u32_nonneg).
  cbn. exists e, (k1 + 1)%nat, (set_pc M1 (fst (fst e))).
  split; [exact Ee|]. split; [exact H0|]. split.
  - rewrite (nsteps_app _ _ _ _ _ _ _ Hn1). cbn. rewrite (mstep_br2 M1 Hidx1 Hc2), Ht. reflexivity.
  - split; [|exact Fq1].
    unfold arrive. rewrite Er. exists v0, vs0. split; [reflexivity|].
    destruct Hw1 as (W1 & W2 & W3 & W4 & W5). repeat split; auto.
Qed.

Lemma sim_return_val t t' s v v1 s1 rho st l vs M :
  inv nl s v -> v_unreach v = None -> cx_return cx = Some t' ->
  last (map (fun f => Some (vf_label f)) (v_ctrls v)) None = Some (Some t) ->
  vstep cx v (OBasic BReturn) = Some v1 ->
  handle_opcode cx s v1 Reachable (OBasic BReturn) = Some s1 ->
  matches F s1 -> small NR s1 -> rel s st l vs M -> sim_res rho M s1 (RReturn st vs).
Proof.
  intros I Hu Hret Hne Ev Eh Hm Sm R.
  destruct (op_return_val nl cx s v v1 s1 t t' I Hu Hret Hne Ev Eh) as (p & rest & Es & Pp & Hpos & O1 & O2 & O3 & O4 & O5 & O6 & I1 & Hu1 & X1).
  destruct vs as [|v0 vs0]; [pose proof (r_stack _ _ _ _ _ _ _ _ _ _ _ R) as Hst; rewrite Es in Hst; inversion Hst|].
  assert (Sm0 : small NR s) by (eapply small_of_mono; [exact Sm|apply mono_eq; auto]).
  assert (HNR : 0 < NR) by (destruct Sm0 as [Sn _]; lia).
  assert (Hc1 : code_at c (cur_off s) (copy_ret p)).
  { apply (code_from_F s1 (c_out s) (copy_ret p) [IReturn] Hm O1). intros j Hj. apply (no_new_pending s s1); auto; [apply (i_bp _ _ _ I)|lia]. }
  destruct (sim_copy_ret s p rest st l v0 vs0 M R Es Pp (i_cwf _ _ _ I) Sm0 HNR Hc1) as (k1 & M1 & Hn1 & Fq1 & W1 & W2 & W3 & W4 & W5).
  assert (Hc2 : code_at c (ms_pc M1) [IReturn]).
  { rewrite W2. assert (E : c_out s1 = (c_out s ++ copy_ret p) ++ [IReturn] ++ []) by (rewrite O1, app_nil_r, <- app_assoc; reflexivity).
    pose proof (code_from_F s1 _ _ _ Hm E) as Hx. rewrite app_length in Hx.
    replace (cur_off s + Z.of_nat (length (copy_ret p))) with (Z.of_nat (length (c_out s) + length (copy_ret p))) by (unfold cur_off; lia).
    apply Hx. intros j Hj. apply (no_new_pending s s1); auto; [apply (i_bp _ _ _ I)|lia]. }
  cbn. exists k1, M1. split; [exact Hn1|]. split; [exact Fq1|]. split; [exact W1|]. split; [exact Hc2|].
  split; [exact W3|]. split; [exact W4|]. rewrite Hret. exists v0, vs0. auto.
Qed.

(** ** composing a block body with what follows the block *)
Definition blk (r : res) : res :=
  match r with
  | RNormal s1 l1 vs1 => RNormal s1 l1 (firstn (arity None) vs1 ++ [])
  | RBr O s1 l1 vs1 => RNormal s1 l1 (firstn (arity None) vs1 ++ [])
  | RBr (S k) s1 l1 vs1 => RBr k s1 l1 vs1
  | r => r
  end.

Lemma sim_after_body f rho T lo sb sk s' M rb rest :
  sim_res ((T, lo, None) :: rho) M sb rb ->
  c_stack sb = [] -> c_stack sk = [] -> cur_off sk = T ->
  (forall st1 l1 M1, rel sb st1 l1 [] M1 ->
     exists n M2, nsteps n M1 = SNext M2 /\ frame_eq M1 M2 /\ rel sk st1 l1 [] M2) ->
  (forall st1 l1 M1, rel sk st1 l1 [] M1 -> sim_res rho M1 s' (exec_seq f st1 l1 [] rest)) ->
  sim_res rho M s' (match blk rb with RNormal s1 l1 st1 => exec_seq f s1 l1 st1 rest | r => r end).
Proof.
  intros Hb Esb Esk Ecur Hbridge Hrest. destruct rb as [st1 l1 vs1|k st1 l1 vs1| | | |]; cbn [blk sim_res] in *; auto.
  - destruct Hb as (n & M1 & Hn & R1 & Fq).
    pose proof (r_stack _ _ _ _ _ _ _ _ _ _ _ R1) as Hst. rewrite Esb in Hst. inversion Hst; subst. cbn [firstn app].
    destruct (Hbridge _ _ _ R1) as (n2 & M2 & Hn2 & Fq2 & R2).
    eapply sim_res_compose; [exact Hn|exact Fq|]. eapply sim_res_compose; [exact Hn2|exact Fq2|]. apply Hrest. exact R2.
  - destruct Hb as (e & n & M1 & Ee & H0 & Hn & R1 & Fq). destruct k as [|k].
    + cbn in Ee. inversion Ee; subst e. cbn [fst] in *. cbn [arity firstn app].
      eapply sim_res_compose; [exact Hn|exact Fq|]. apply Hrest.
      eapply rel_transfer; [exact R1|rewrite Esk; reflexivity|rewrite Ecur, cur_off_at_pc by exact H0; reflexivity].
    + cbn in Ee. cbn [sim_res]. exists e, n, M1. auto.
Qed.

(** a sequence whose last instruction is br / unreachable / return never finishes normally *)
Lemma no_normal_term b : is_term b = true -> forall pre fuel st l vs st' l' vs',
  exec_seq fuel st l vs (pre ++ [Basic b]) = RNormal st' l' vs' -> False.
Proof.
  intros Hb. induction pre as [|i pre IH]; intros fuel st l vs st' l' vs' H.
  - destruct fuel as [|f]; [discriminate|]. cbn [app] in H. rewrite E_cons in H.
    destruct f as [|f2]; [discriminate|].
    destruct b; try discriminate Hb; [rewrite E_unreachable in H|rewrite E_br in H|rewrite E_return in H]; discriminate.
  - destruct fuel as [|f]; [discriminate|]. cbn [app] in H. rewrite E_cons in H.
    destruct (exec_instr f st l vs i) as [s1 l1 vs1| | | | |]; try discriminate. eapply IH; eauto.
Qed.
Lemma term_no_normal is s v v' s' fuel st l vs st' l' vs' :
  compile_ops cx (flatten is) v s = Some (v', s') -> lvl nl cx (flatten is) v = true -> v_unreach v = None ->
  v_unreach v' <> None -> exec_seq fuel st l vs is = RNormal st' l' vs' -> False.
Proof.
  intros Hc Hl Hu Hu' H. destruct (term_last nl cx is v s v' s' Hc Hl Hu Hu') as (pre & b & -> & Hb).
  eapply no_normal_term; eauto.
Qed.

Definition blkv (t : valtype) (r : res) : res :=
  match r with
  | RNormal s1 l1 vs1 => RNormal s1 l1 (firstn (arity (Some t)) vs1 ++ [])
  | RBr O s1 l1 vs1 => RNormal s1 l1 (firstn (arity (Some t)) vs1 ++ [])
  | RBr (S k) s1 l1 vs1 => RBr k s1 l1 vs1
  | r => r
  end.

Lemma sim_after_body_val f t rho T lo d sb sk s' M rb rest :
  sim_res ((T, lo, Some (PDyn d)) :: rho) M sb rb ->
  c_stack sk = [PDyn d] -> cur_off sk = T ->
  (forall st1 l1 vs1 M1, rb = RNormal st1 l1 vs1 -> rel sb st1 l1 vs1 M1 ->
     exists v, vs1 = [v] /\ exists n M2, nsteps n M1 = SNext M2 /\ frame_eq M1 M2 /\ rel sk st1 l1 [v] M2) ->
  (forall st1 l1 v M1, rel sk st1 l1 [v] M1 -> sim_res rho M1 s' (exec_seq f st1 l1 [v] rest)) ->
  sim_res rho M s' (match blkv t rb with RNormal s1 l1 st1 => exec_seq f s1 l1 st1 rest | r => r end).
Proof.
  intros Hb Esk Ecur Hbridge Hrest. destruct rb as [st1 l1 vs1|k st1 l1 vs1| | | |]; cbn [blkv sim_res] in *; auto.
  - destruct Hb as (n & M1 & Hn & R1 & Fq).
    destruct (Hbridge _ _ _ _ eq_refl R1) as (v & -> & n2 & M2 & Hn2 & Fq2 & R2). cbn [arity firstn app].
    eapply sim_res_compose; [exact Hn|exact Fq|]. eapply sim_res_compose; [exact Hn2|exact Fq2|]. apply Hrest. exact R2.
  - destruct Hb as (e & n & M1 & Ee & H0 & Hn & R1 & Fq). destruct k as [|k].
    + cbn in Ee. inversion Ee; subst e. unfold arrive in R1. cbn [fst snd] in *.
      destruct R1 as (v & vs0 & -> & R1). cbn [arity firstn app].
      eapply sim_res_compose; [exact Hn|exact Fq|]. apply Hrest.
      eapply rel_transfer; [exact R1|rewrite Esk; reflexivity|rewrite Ecur, cur_off_at_pcv by exact H0; reflexivity].
    + cbn in Ee. cbn [sim_res]. exists e, n, M1. auto.
Qed.

Lemma sim_if s v va sa st l x vs M :
  inv nl s v -> v_unreach v = None -> v_opds v = 1%nat -> vstep cx v (OIf None) = Some va ->
  handle_opcode cx s va Reachable (OIf None) = Some sa ->
  matches F sa -> small NR sa -> rel s st l (x :: vs) M ->
  vs = [] /\
  forall cv, x = VI32 cv ->
  exists M1, nsteps 1 M = SNext M1 /\ frame_eq M M1 /\
    if cv =? 0 then forall s2, c_stack s2 = [] -> cur_off s2 = get_u32 c (cur_off s + 5) -> rel s2 st l [] M1
    else rel sa st l [] M1.
Proof.
  intros I Hu H1 Ev Eh Hm Sm R.
  destruct (op_if nl cx s v va sa I Hu H1 Ev Eh) as (p & Es & Pp & A1 & A2 & A3 & A4 & A5 & A6 & Ia & Hua & Xa).
  pose proof (r_stack _ _ _ _ _ _ _ _ _ _ _ R) as Hst. rewrite Es in Hst. inversion Hst as [|? ? ? ? Hp Hrest]; subst.
  inversion Hrest; subst. split; [reflexivity|]. intros cv ->.
  assert (Hc : code_at c (cur_off s) (IIf :: i32_bytes (provider_idx p))).
  { apply (code_from_F sa (c_out s) (IIf :: i32_bytes (provider_idx p)) (u32_bytes 0) Hm).
    - rewrite A1. reflexivity.
    - intros j Hj. cbn [length] in Hj. rewrite i32_bytes_length in Hj.
      apply (pres_pending_new s sa (cur_off s + 5)); [apply (i_bp _ _ _ I)| |lia|unfold in_win, cur_off; lia].
      intros y Hy. rewrite A2 in Hy. cbn in Hy. destruct Hy; auto. }
  assert (Sm0 : small NR s) by (eapply small_of_mono; [exact Sm|apply mono_eq; auto]).
  pose proof (pwf_idx s p Sm0 (i_cwf _ _ _ I) Pp) as Hidx.
  pose proof (mstep_if2 M (provider_idx p) (r_idx _ _ _ _ _ _ _ _ _ _ _ R)) as Hstep.
  rewrite (r_pc _ _ _ _ _ _ _ _ _ _ _ R) in Hstep. specialize (Hstep Hc Hidx).
  change (get_local consts M (provider_idx p)) with (denote consts M p) in Hstep. rewrite (cond_repr _ _ Hp) in Hstep.
  eexists. split; [cbn; rewrite Hstep; reflexivity|]. split; [apply frame_eq_set_pc|].
  destruct (cv =? 0).
  - intros s2 E2 Ec2. eapply rel_jump; [exact R|exact E2|exact Ec2].
  - eapply rel_jump; [exact R|exact A3|].
    unfold cur_off. rewrite A1, app_length. cbn [length]. rewrite app_length, i32_bytes_length, u32_bytes_length. lia.
Qed.

Lemma sim_if_val t s v va sa st l x vs M :
  inv nl s v -> v_unreach v = None -> v_opds v = 1%nat -> vstep cx v (OIf (Some t)) = Some va ->
  handle_opcode cx s va Reachable (OIf (Some t)) = Some sa ->
  matches F sa -> small NR sa -> rel s st l (x :: vs) M ->
  vs = [] /\
  forall cv, x = VI32 cv ->
  exists M1, nsteps 1 M = SNext M1 /\ frame_eq M M1 /\
    if cv =? 0 then forall s2, c_stack s2 = [] -> cur_off s2 = get_u32 c (cur_off s + 5) -> rel s2 st l [] M1
    else rel sa st l [] M1.
Proof.
  intros I Hu H1 Ev Eh Hm Sm R.
  destruct (op_if_val nl cx s v va sa t I Hu H1 Ev Eh) as (p & d & Es & Pp & Hd & A1 & A2 & A3 & Ma & A6 & Ia & Hua & Xa).
  pose proof (r_stack _ _ _ _ _ _ _ _ _ _ _ R) as Hst. rewrite Es in Hst. inversion Hst as [|? ? ? ? Hp Hrest]; subst.
  inversion Hrest; subst. split; [reflexivity|]. intros cv ->.
  assert (Hc : code_at c (cur_off s) (IIf :: i32_bytes (provider_idx p))).
  { apply (code_from_F sa (c_out s) (IIf :: i32_bytes (provider_idx p)) (u32_bytes 0) Hm).
    - rewrite A1. reflexivity.
    - intros j Hj. cbn [length] in Hj. rewrite i32_bytes_length in Hj.
      apply (pres_pending_new s sa (cur_off s + 5)); [apply (i_bp _ _ _ I)| |lia|unfold in_win, cur_off; lia].
      intros y Hy. rewrite A2 in Hy. cbn in Hy. destruct Hy; auto. }
  assert (Sm0 : small NR s) by (eapply small_of_mono; [exact Sm|exact Ma]).
  pose proof (pwf_idx s p Sm0 (i_cwf _ _ _ I) Pp) as Hidx.
  pose proof (mstep_if2 M (provider_idx p) (r_idx _ _ _ _ _ _ _ _ _ _ _ R)) as Hstep.
  rewrite (r_pc _ _ _ _ _ _ _ _ _ _ _ R) in Hstep. specialize (Hstep Hc Hidx).
  change (get_local consts M (provider_idx p)) with (denote consts M p) in Hstep. rewrite (cond_repr _ _ Hp) in Hstep.
  eexists. split; [cbn; rewrite Hstep; reflexivity|]. split; [apply frame_eq_set_pc|].
  destruct (cv =? 0).
  - intros s2 E2 Ec2. eapply rel_jump; [exact R|exact E2|exact Ec2].
  - eapply rel_jump; [exact R|exact A3|].
    unfold cur_off. rewrite A1, app_length. cbn [length]. rewrite app_length, i32_bytes_length, u32_bytes_length. lia.
Qed.

Lemma pres_of is s v v' s' : syn is = true ->
  compile_ops cx (flatten is) v s = Some (v', s') -> lvl nl cx (flatten is) v = true ->
  inv nl s v -> v_unreach v = None -> ready s is -> pres nl s s' v'.
Proof. intros Hs. apply (pure_seq nl cx (lsize is) is (le_n _) Hs). Qed.

Definition SIM (fuel : nat) : Prop := forall is s v v' s' rho st l vs M, syn is = true ->
  compile_ops cx (flatten is) v s = Some (v', s') -> lvl nl cx (flatten is) v = true ->
  inv nl s v -> v_unreach v = None -> ready s is ->
  matches F s' -> lenv s' rho -> lows rho s -> small NR s' -> consts_ok consts s' ->
  rel s st l vs M -> sim_res rho M s' (exec_seq fuel st l vs is).

Lemma T_range s1 : matches F s1 -> 0 <= cur_off s1 < 4294967296.
Proof. intros [L _]. unfold cur_off. lia. Qed.

(** the label environment of a body whose frame is closed by [end] at [sb] -> [sc] *)
Lemma lenv_end sb sc locs rho lo :
  c_bp sb = JUnknown locs None :: c_bp sc -> (forall loc, In loc locs -> resolved sc loc (cur_off sb)) ->
  matches F sc -> cur_off sc = cur_off sb -> lenv sc rho -> lenv sb ((cur_off sb, lo, None) :: rho).
Proof.
  intros E Rs Hm Ec Hl. unfold lenv. rewrite E. constructor; [|exact Hl].
  left. exists locs. split; [reflexivity|]. intros loc Hin _. cbn [fst].
  apply (target_from_F sc loc (cur_off sb) (Rs loc Hin) Hm). rewrite <- Ec. apply T_range. exact Hm.
Qed.

Lemma rel_nil_stack s st l vs M : rel s st l vs M -> c_stack s = [] -> vs = [].
Proof. intros R E. pose proof (r_stack _ _ _ _ _ _ _ _ _ _ _ R) as H. rewrite E in H. inversion H. reflexivity. Qed.

Lemma lows_cons T lo rr rho s sa : lows rho s -> cur_off s <= cur_off sa -> lo <= cur_off sa -> 0 <= T < 4294967296 ->
  lows ((T, lo, rr) :: rho) sa.
Proof. intros H Hle Hlo HT. constructor; [split; [exact Hlo|exact HT]|]. eapply lows_mono; eauto. Qed.

Lemma lenv1_u l res e : lenv1 (JUnknown l res) e -> forall loc, In loc l -> snd (fst e) <= loc -> get_u32 c loc = fst (fst e).
Proof. intros [(l0 & E & H)|[E _]]; [inversion E; subst; exact H|discriminate E]. Qed.

Lemma bp_sub_head_u l bp0 j bp1 :
  bp_sub (JUnknown l None :: bp0) (j :: bp1) -> exists add, j = JUnknown (l ++ add) None.
Proof.
  intros H. inversion H as [|? ? ? ? [(l0 & add & r0 & E1 & E2)|(pos & E1 & _)]]; subst; [|discriminate E1].
  inversion E1; subst. exists add. reflexivity.
Qed.

Section Cases.
Variable n : nat.
Hypothesis Hsim : forall f', (f' <= n)%nat -> SIM f'.

Lemma case_block f body rest s v v' s' rho st l vs M :
  (f <= n)%nat -> syn (Block None body :: rest) = true ->
  compile_ops cx (flatten (Block None body :: rest)) v s = Some (v', s') ->
  lvl nl cx (flatten (Block None body :: rest)) v = true ->
  inv nl s v -> v_unreach v = None ->
  matches F s' -> lenv s' rho -> lows rho s -> small NR s' -> consts_ok consts s' ->
  rel s st l vs M ->
  sim_res rho M s' (match exec_instr f st l vs (Block None body) with
                    | RNormal s1 l1 st1 => exec_seq f s1 l1 st1 rest | r => r end).
Proof.
  intros Hf Hs Hc Hl I Hu Hm Hle Hlo Sm Co R.
  destruct (syn_cons _ _ Hs) as [Hsb Hsr]. rewrite syn_block in Hsb.
  rewrite flatten_block in Hc, Hl.
  destruct (compile_cons _ _ _ _ _ _ _ Hc) as (va & sa & Ev & Eh & Hc').
  rewrite (reach_of_none v Hu) in Eh. destruct (lvl_cons _ _ _ _ _ _ Hl Ev) as [Hk Hl'].
  unfold ctl_ok in Hk. rewrite Hu in Hk. apply Nat.eqb_eq in Hk.
  destruct (op_block nl cx s v va sa I Hu Hk Ev Eh) as (A1 & A2 & (A3 & A4 & A5 & A6) & A7 & Ia & Hua).
  destruct (compile_app_inv _ _ _ _ _ _ _ Hc') as (vb & sb & Hcb & Hc'').
  rewrite (lvl_app nl cx _ _ _ _ _ _ Hcb) in Hl'. apply andb_true_iff in Hl'. destruct Hl' as [Hlb Hl''].
  assert (Pb : pres nl sa sb vb) by (eapply (pres_of body); eauto; left; exact A7).
  destruct (compile_cons _ _ _ _ _ _ _ Hc'') as (vc & sc & Evc & Ehc & Hcr).
  destruct (lvl_cons _ _ _ _ _ _ Hl'' Evc) as [_ Hlr].
  assert (Hnr : match c_bp sb with j :: _ => no_res j | [] => True end) by (eapply bp_sub_head_nores; [rewrite <- A2; apply (p_bp _ _ _ _ Pb)|exact Logic.I]).
  destruct (op_end nl cx sb vb vc sc (p_inv _ _ _ _ Pb) Hnr Evc Ehc) as (j & bp' & E1 & E2 & E3 & E4 & E5 & E6 & E7 & E8 & X3 & Rs & Ic & Huc).
  pose proof (p_bp _ _ _ _ Pb) as Hb0. rewrite A2, E1 in Hb0. destruct (bp_sub_head_u _ _ _ _ Hb0) as (add & ->).
  cbn [locs_of] in Rs. set (locs := [] ++ add) in *.
  assert (Pr : pres nl sc s' v') by (eapply (pres_of rest); eauto; left; exact E7).
  assert (Es : c_stack s = []) by (destruct (c_stack s) eqn:E; [reflexivity|pose proof (i_len _ _ _ I) as L; rewrite E, Hk in L; discriminate]).
  pose proof (rel_nil_stack _ _ _ _ _ R Es) as Evs. subst vs.
  destruct f as [|f2]; [cbn; exact Logic.I|]. rewrite E_block.
  match goal with |- sim_res _ _ _ ?rr =>
    replace rr with (match blk (exec_seq f2 st l [] body) with
                    | RNormal s1 l1 st1 => exec_seq (S f2) s1 l1 st1 rest | r0 => r0 end)
      by (destruct (exec_seq f2 st l [] body) as [? ? ?|[|?] ? ? ?| | | |]; reflexivity) end.
  (* facts about the intermediate states *)
  assert (Mc : matches F sc) by (eapply matches_ext; [apply (p_ext _ _ _ _ Pr)|exact Hm]).
  assert (Mb : matches F sb) by (eapply matches_ext; [exact X3|exact Mc]).
  assert (Moc : mono sc s') by apply (p_mono _ _ _ _ Pr).
  assert (Mob : mono sb s') by (eapply mono_trans; [apply (mono_eq sb sc); auto|exact Moc]).
  assert (Lc : lenv sc rho) by (eapply lenv_sub; [reflexivity|apply (p_bp _ _ _ _ Pr)|exact Hle]).
  assert (Ebp : c_bp sb = JUnknown locs None :: c_bp sc) by (rewrite E1, E2; reflexivity).
  assert (Lb : lenv sb ((cur_off sb, 0, None) :: rho)) by (eapply lenv_end; eauto).
  assert (Oa : cur_off sa = cur_off s) by (unfold cur_off; rewrite A1; reflexivity).
  assert (Ob : cur_off sa <= cur_off sb) by (apply ext_off; apply (p_ext _ _ _ _ Pb)).
  eapply (sim_after_body (S f2) rho (cur_off sb) 0 sb sc s').
  - eapply (Hsim f2 ltac:(lia) body sa va vb sb); eauto.
    + left. exact A7.
    + apply (lows_cons _ _ _ _ s); auto; try lia; [unfold cur_off; lia|apply T_range; assumption].
    + eapply small_of_mono; eauto.
    + eapply consts_ok_of_mono; eauto.
    + eapply rel_transfer; [exact R|rewrite A3; reflexivity|exact Oa].
  - exact E3.
  - exact E4.
  - exact E8.
  - intros st1 l1 M1 R1. exists O, M1. split; [reflexivity|]. split; [apply frame_eq_refl|].
    eapply rel_transfer; [exact R1|rewrite E3, E4; reflexivity|exact E8].
  - intros st1 l1 M1 R1. eapply (Hsim (S f2) Hf rest sc vc v' s'); eauto.
    + left. exact E7.
    + eapply lows_mono; [exact Hlo|]. rewrite E8. lia.
Qed.

Lemma case_block_val f t body rest s v v' s' rho st l vs M :
  (f <= n)%nat -> syn (Block (Some t) body :: rest) = true ->
  compile_ops cx (flatten (Block (Some t) body :: rest)) v s = Some (v', s') ->
  lvl nl cx (flatten (Block (Some t) body :: rest)) v = true ->
  inv nl s v -> v_unreach v = None ->
  matches F s' -> lenv s' rho -> lows rho s -> small NR s' -> consts_ok consts s' ->
  rel s st l vs M ->
  sim_res rho M s' (match exec_instr f st l vs (Block (Some t) body) with
                    | RNormal s1 l1 st1 => exec_seq f s1 l1 st1 rest | r => r end).
Proof.
  intros Hf Hs Hc Hl I Hu Hm Hle Hlo Sm Co R.
  destruct (syn_cons _ _ Hs) as [Hsb Hsr]. rewrite syn_block in Hsb.
  rewrite flatten_block in Hc, Hl.
  destruct (compile_cons _ _ _ _ _ _ _ Hc) as (va & sa & Ev & Eh & Hc').
  rewrite (reach_of_none v Hu) in Eh. destruct (lvl_cons _ _ _ _ _ _ Hl Ev) as [Hk Hl'].
  unfold ctl_ok in Hk. rewrite Hu in Hk. apply Nat.eqb_eq in Hk.
  destruct (op_block_val nl cx s v va sa t I Hu Hk Ev Eh) as (d & Hd & A1 & A2 & A3 & Ma & A7 & Ia & Hua).
  destruct (compile_app_inv _ _ _ _ _ _ _ Hc') as (vb & sb & Hcb & Hc'').
  rewrite (lvl_app nl cx _ _ _ _ _ _ Hcb) in Hl'. apply andb_true_iff in Hl'. destruct Hl' as [Hlb Hl''].
  assert (Pb : pres nl sa sb vb) by (eapply (pres_of body); eauto; left; exact A7).
  destruct (compile_cons _ _ _ _ _ _ _ Hc'') as (vc & sc & Evc & Ehc & Hcr).
  destruct (lvl_cons _ _ _ _ _ _ Hl'' Evc) as [Hke Hlr].
  pose proof (p_bp _ _ _ _ Pb) as Hb0. rewrite A2 in Hb0. destruct (bp_sub_head_val _ _ _ _ Hb0) as (add & b'' & Ebp & Hb').
  destruct (op_end_val nl cx sb vb vc sc _ d b'' (p_inv _ _ _ _ Pb) Ebp Evc Ehc)
    as (tc & E2 & E3 & E5 & E6 & E7 & X3 & Ecur & Rs & Hnth & Ic & Huc & Hd' & Hcase).
  assert (Pr : pres nl sc s' v') by (eapply (pres_of rest); eauto; left; exact E7).
  assert (Es : c_stack s = []) by (destruct (c_stack s) eqn:E; [reflexivity|pose proof (i_len _ _ _ I) as L; rewrite E, Hk in L; discriminate]).
  pose proof (rel_nil_stack _ _ _ _ _ R Es) as Evs. subst vs.
  destruct f as [|f2]; [cbn; exact Logic.I|]. rewrite E_block.
  match goal with |- sim_res _ _ _ ?rr =>
    replace rr with (match blkv t (exec_seq f2 st l [] body) with
                    | RNormal s1 l1 st1 => exec_seq (S f2) s1 l1 st1 rest | r0 => r0 end)
      by (destruct (exec_seq f2 st l [] body) as [? ? ?|[|?] ? ? ?| | | |]; reflexivity) end.
  assert (Mc : matches F sc) by (eapply matches_ext; [apply (p_ext _ _ _ _ Pr)|exact Hm]).
  assert (Mb : matches F sb) by (eapply matches_ext; [exact X3|exact Mc]).
  assert (Moc : mono sc s') by apply (p_mono _ _ _ _ Pr).
  assert (Mob : mono sb s') by (eapply mono_trans; [apply (mono_eq sb sc); auto|exact Moc]).
  assert (Lc : lenv sc rho) by (eapply lenv_sub; [reflexivity|apply (p_bp _ _ _ _ Pr)|exact Hle]).
  assert (HT : 0 <= cur_off sc < 4294967296) by (apply T_range; exact Mc).
  assert (Lb : lenv sb ((cur_off sc, 0, Some (PDyn d)) :: rho)).
  { unfold lenv. rewrite Ebp. constructor; [|unfold lenv in Lc; rewrite E2 in Lc; exact Lc].
    left. exists ([] ++ add). split; [reflexivity|]. intros loc Hin _. cbn [fst].
    apply (target_from_F sc loc (cur_off sc) (Rs loc Hin) Mc HT). }
  assert (Oa : cur_off sa = cur_off s) by (unfold cur_off; rewrite A1; reflexivity).
  assert (Ob : cur_off sa <= cur_off sb) by (apply ext_off; apply (p_ext _ _ _ _ Pb)).
  assert (Sb : small NR sb) by (eapply small_of_mono; [exact Sm|exact Mob]).
  eapply (sim_after_body_val (S f2) t rho (cur_off sc) 0 d sb sc s').
  - eapply (Hsim f2 ltac:(lia) body sa va vb sb); eauto.
    + left. exact A7.
    + apply (lows_cons _ _ _ _ s); auto; try lia. unfold cur_off. lia.
    + eapply consts_ok_of_mono; [exact Co|exact Mob].
    + eapply rel_transfer; [exact R|rewrite A3; reflexivity|exact Oa].
  - exact E3.
  - reflexivity.
  - intros st1 l1 vs1 M1 Erb R1.
    destruct Hcase as [(Hub & p & Esb & Pp & Etc)|(Hub & _)]; [|exfalso; eapply (term_no_normal body sa va vb sb); eauto].
    pose proof (r_stack _ _ _ _ _ _ _ _ _ _ _ R1) as Hst. rewrite Esb in Hst.
    inversion Hst as [|? v1 ? vs1' Hp1 Hr1]; subst. inversion Hr1; subst. clear Hst Hr1.
    exists v1. split; [reflexivity|].
    assert (Hcc : code_at c (cur_off sb) (copy_bytes p d)).
    { unfold cur_off. apply (code_from_F2 sc (length (c_out sb)) (copy_bytes p d) Mc); [|exact Hnth].
      unfold cur_off in Ecur. lia. }
    destruct (sim_copy sb p d [] st1 l1 v1 [] M1 R1 Esb Pp (i_cwf _ _ _ (p_inv _ _ _ _ Pb)) Sb Hd' Hcc) as (k1 & M2 & Hn1 & Fq1 & Hpc1 & Hbld).
    exists k1, M2. split; [exact Hn1|]. split; [exact Fq1|]. apply Hbld; [exact E3|]. rewrite Hpc1, Ecur. reflexivity.
  - intros st1 l1 v1 M1 R1. eapply (Hsim (S f2) Hf rest sc vc v' s'); eauto.
    + left. exact E7.
    + eapply lows_mono; [exact Hlo|]. lia.
Qed.

Lemma bp_sub_head L bp0 locs bp1 :
  bp_sub (JUnknown [L] None :: bp0) (JUnknown locs None :: bp1) -> exists add, locs = L :: add.
Proof.
  intros H. destruct (bp_sub_head_u _ _ _ _ H) as (add & E). inversion E; subst. exists add. reflexivity.
Qed.

Lemma case_if_val f t thn e els rest s v v' s' rho st l vs M :
  (f <= n)%nat -> syn (If (Some t) thn (e :: els) :: rest) = true ->
  compile_ops cx (flatten (If (Some t) thn (e :: els) :: rest)) v s = Some (v', s') ->
  lvl nl cx (flatten (If (Some t) thn (e :: els) :: rest)) v = true ->
  inv nl s v -> v_unreach v = None ->
  matches F s' -> lenv s' rho -> lows rho s -> small NR s' -> consts_ok consts s' ->
  rel s st l vs M ->
  sim_res rho M s' (match exec_instr f st l vs (If (Some t) thn (e :: els)) with
                    | RNormal s1 l1 st1 => exec_seq f s1 l1 st1 rest | r => r end).
Proof.
  intros Hf Hs Hc Hl I Hu Hm Hle Hlo Sm Co R.
  destruct (syn_cons _ _ Hs) as [Hsi Hsr]. rewrite syn_if in Hsi. apply andb_true_iff in Hsi. destruct Hsi as [Hsyt Hsye].
  rewrite flatten_if2 in Hc, Hl.
  destruct (compile_cons _ _ _ _ _ _ _ Hc) as (va & sa & Ev & Eh & Hc').
  rewrite (reach_of_none v Hu) in Eh. destruct (lvl_cons _ _ _ _ _ _ Hl Ev) as [Hk Hl'].
  unfold ctl_ok in Hk. rewrite Hu in Hk. apply Nat.eqb_eq in Hk.
  destruct (op_if_val nl cx s v va sa t I Hu Hk Ev Eh) as (p & d & Es & Pp & Hd & A1 & A2 & A3 & Ma0 & A6 & Ia & Hua & Xa).
  destruct (compile_app_inv _ _ _ _ _ _ _ Hc') as (vb & sb & Hcb & Hc'').
  rewrite (lvl_app nl cx _ _ _ _ _ _ Hcb) in Hl'. apply andb_true_iff in Hl'. destruct Hl' as [Hlb Hl''].
  assert (Pb : pres nl sa sb vb) by (eapply (pres_of thn); eauto; left; exact A6).
  destruct (compile_cons _ _ _ _ _ _ _ Hc'') as (vc & sc & Evc & Ehc & Hcr).
  destruct (lvl_cons _ _ _ _ _ _ Hl'' Evc) as [Hke Hlr].
  pose proof (p_bp _ _ _ _ Pb) as Hb0. rewrite A2 in Hb0. destruct (bp_sub_head_val _ _ _ _ Hb0) as (add & b'' & Ebp & Hb').
  pose proof (val_top_reachable nl cx sb vb _ _ _ OElse (p_inv _ _ _ _ Pb) Ebp eq_refl Hke) as Hub.
  rewrite (reach_of_none vb Hub) in Ehc.
  destruct (op_else_val nl cx sb vb vc sc _ d b'' (p_inv _ _ _ _ Pb) Hub Ebp Evc Ehc)
    as (first & more & p2 & El & Esb & Pp2 & Hd2 & E2 & Hnth & E5 & E6n & E6c & E8 & Ecur & X3 & Rs & Ic & Huc).
  cbn [app] in El. inversion El; subst first add. clear El.
  destruct (compile_app_inv _ _ _ _ _ _ _ Hcr) as (vd & sd & Hcd & Hcr').
  rewrite (lvl_app nl cx _ _ _ _ _ _ Hcd) in Hlr. apply andb_true_iff in Hlr. destruct Hlr as [Hld Hlr'].
  assert (Pd : pres nl sc sd vd) by (eapply (pres_of (e :: els)); eauto; left; exact E8).
  destruct (compile_cons _ _ _ _ _ _ _ Hcr') as (ve & se & Eve & Ehe & Hcr'').
  destruct (lvl_cons _ _ _ _ _ _ Hlr' Eve) as [Hke2 Hlr''].
  pose proof (p_bp _ _ _ _ Pd) as Hd0. rewrite E2 in Hd0. destruct (bp_sub_head_val _ _ _ _ Hd0) as (add2 & b3 & Ebp2 & Hb2).
  destruct (op_end_val nl cx sd vd ve se _ d b3 (p_inv _ _ _ _ Pd) Ebp2 Eve Ehe)
    as (tc & G2 & G3 & G5 & G6 & G7 & X5 & Gcur & Rs' & Gnth & Ie & Hue & Hd3 & Hcase).
  assert (Pr : pres nl se s' v') by (eapply (pres_of rest); eauto; left; exact G7).
  set (tc2 := copy_bytes p2 d) in *. set (x := cur_off sb + Z.of_nat (length tc2) + 1) in *.
  assert (Me : matches F se) by (eapply matches_ext; [apply (p_ext _ _ _ _ Pr)|exact Hm]).
  assert (Md : matches F sd) by (eapply matches_ext; [exact X5|exact Me]).
  assert (Mc : matches F sc) by (eapply matches_ext; [apply (p_ext _ _ _ _ Pd)|exact Md]).
  assert (Mb : matches F sb) by (eapply matches_ext; [exact X3|exact Mc]).
  assert (Ma : matches F sa) by (eapply matches_ext; [apply (p_ext _ _ _ _ Pb)|exact Mb]).
  assert (Moe : mono se s') by apply (p_mono _ _ _ _ Pr).
  assert (Mod : mono sd s') by (eapply mono_trans; [apply (mono_eq sd se); auto|exact Moe]).
  assert (Moc : mono sc s') by (eapply mono_trans; [apply (p_mono _ _ _ _ Pd)|exact Mod]).
  assert (Mob : mono sb s') by (eapply mono_trans; [apply (mono_eq sb sc); auto|exact Moc]).
  assert (Moa : mono sa s') by (eapply mono_trans; [apply (p_mono _ _ _ _ Pb)|exact Mob]).
  assert (Le : lenv se rho) by (eapply lenv_sub; [reflexivity|apply (p_bp _ _ _ _ Pr)|exact Hle]).
  assert (HT : 0 <= cur_off se < 4294967296) by (apply T_range; exact Me).
  assert (Ld : lenv sd ((cur_off se, 0, Some (PDyn d)) :: rho)).
  { unfold lenv. rewrite Ebp2. constructor; [|unfold lenv in Le; rewrite G2 in Le; exact Le].
    left. eexists. split; [reflexivity|]. intros loc Hin _. cbn [fst].
    apply (target_from_F se loc (cur_off se) (Rs' loc Hin) Me HT). }
  assert (Lc : lenv sc ((cur_off se, 0, Some (PDyn d)) :: rho)) by (eapply lenv_sub; [reflexivity|apply (p_bp _ _ _ _ Pd)|exact Ld]).
  assert (Oa : cur_off s <= cur_off sa) by (apply ext_off; exact Xa).
  assert (Oa9 : cur_off sa = cur_off s + 9).
  { unfold cur_off. rewrite A1, app_length. cbn [length]. rewrite app_length, i32_bytes_length, u32_bytes_length. lia. }
  assert (Ob : cur_off sa <= cur_off sb) by (apply ext_off; apply (p_ext _ _ _ _ Pb)).
  assert (Od : cur_off sc <= cur_off sd) by (apply ext_off; apply (p_ext _ _ _ _ Pd)).
  assert (Sa : small NR sa) by (eapply small_of_mono; eauto).
  assert (Sb : small NR sb) by (eapply small_of_mono; [exact Sm|exact Mob]).
  assert (Sd : small NR sd) by (eapply small_of_mono; [exact Sm|exact Mod]).
  pose proof Lc as Lc'. unfold lenv in Lc'. rewrite E2 in Lc'. inversion Lc' as [|? ? ? ? He Htl]; subst. pose proof (lenv1_u _ _ _ He) as Hl2. clear Lc'.
  cbn [fst snd] in Hl2.
  assert (Lb : lenv sb ((cur_off se, cur_off sa, Some (PDyn d)) :: rho)).
  { unfold lenv. rewrite Ebp. constructor; [|exact Htl]. left. eexists. split; [reflexivity|]. cbn [fst snd]. intros loc Hin Hge.
    apply Hl2; [|unfold cur_off in *; lia]. cbn [app] in Hin. destruct Hin as [<-|Hin]; [lia|apply in_or_app; left; exact Hin]. }
  destruct vs as [|x0 vs]; [pose proof (r_stack _ _ _ _ _ _ _ _ _ _ _ R) as Hst; rewrite Es in Hst; inversion Hst|].
  destruct (sim_if_val t s v va sa st l x0 vs M I Hu Hk Ev Eh Ma Sa R) as [-> Hstep].
  destruct f as [|f2]; [cbn; exact Logic.I|].
  destruct x0 as [cv|cv]; [|cbn; exact Logic.I].
  rewrite E_if. destruct f2 as [|f3]; [cbn; exact Logic.I|]. rewrite E_block.
  destruct (Hstep cv eq_refl) as (M1 & Hn1 & Fq1 & Hcasev).
  eapply sim_res_compose; [exact Hn1|exact Fq1|].
  match goal with |- sim_res _ _ _ ?rr =>
    replace rr with (match blkv t (exec_seq f3 st l [] (if cv =? 0 then e :: els else thn)) with
                    | RNormal s1 l1 st1 => exec_seq (S (S f3)) s1 l1 st1 rest | r0 => r0 end)
      by (destruct (exec_seq f3 st l [] (if cv =? 0 then e :: els else thn)) as [? ? ?|[|?] ? ? ?| | | |]; reflexivity) end.
  assert (Hrest : forall st1 l1 v1 M2, rel se st1 l1 [v1] M2 -> sim_res rho M2 s' (exec_seq (S (S f3)) st1 l1 [v1] rest)).
  { intros st1 l1 v1 M2 R2. eapply (Hsim (S (S f3)) Hf rest se ve v' s'); eauto.
    - left. exact G7.
    - eapply lows_mono; [exact Hlo|]. lia. }
  destruct (cv =? 0).
  - (* else branch *)
    assert (Rc : rel sc st l [] M1).
    { apply Hcasev; [exact E5|].
      rewrite (target_from_F sc (cur_off s + 5) (cur_off sc) Rs Mc); [reflexivity|]. apply T_range. exact Mc. }
    eapply (sim_after_body_val (S (S f3)) t rho (cur_off se) 0 d sd se s').
    + eapply (Hsim f3 ltac:(lia) (e :: els) sc vc vd sd); eauto.
      * left. exact E8.
      * apply (lows_cons _ _ _ _ s); auto; try lia. unfold cur_off. lia.
      * eapply consts_ok_of_mono; [exact Co|exact Mod].
    + exact G3.
    + reflexivity.
    + intros st1 l1 vs1 M2 Erb R2.
      destruct Hcase as [(_ & p3 & Esd & Pp3 & Etc)|(Hud' & _)]; [|exfalso; eapply (term_no_normal (e :: els) sc vc vd sd); eauto]. subst tc.
      pose proof (r_stack _ _ _ _ _ _ _ _ _ _ _ R2) as Hst. rewrite Esd in Hst.
      inversion Hst as [|? v1 ? vs1' Hp1 Hr1]; subst. inversion Hr1; subst. clear Hst Hr1.
      exists v1. split; [reflexivity|].
      assert (Hcc : code_at c (cur_off sd) (copy_bytes p3 d)).
      { unfold cur_off. apply (code_from_F2 se (length (c_out sd)) (copy_bytes p3 d) Me); [|exact Gnth].
        unfold cur_off in Gcur. lia. }
      destruct (sim_copy sd p3 d [] st1 l1 v1 [] M2 R2 Esd Pp3 (i_cwf _ _ _ (p_inv _ _ _ _ Pd)) Sd Hd3 Hcc) as (k1 & M3 & Hn3 & Fq3 & Hpc3 & Hbld).
      exists k1, M3. split; [exact Hn3|]. split; [exact Fq3|]. apply Hbld; [exact G3|]. rewrite Hpc3, Gcur. reflexivity.
    + exact Hrest.
  - (* then branch: move the result, jump over the else branch *)
    eapply (sim_after_body_val (S (S f3)) t rho (cur_off se) (cur_off sa) d sb se s').
    + eapply (Hsim f3 ltac:(lia) thn sa va vb sb); eauto.
      * left. exact A6.
      * apply (lows_cons _ _ _ _ s); auto; lia.
      * eapply consts_ok_of_mono; [exact Co|exact Mob].
    + exact G3.
    + reflexivity.
    + intros st1 l1 vs1 M2 Erb R2.
      pose proof (r_stack _ _ _ _ _ _ _ _ _ _ _ R2) as Hst. rewrite Esb in Hst.
      inversion Hst as [|? v1 ? vs1' Hp1 Hr1]; subst. inversion Hr1; subst. clear Hst Hr1.
      exists v1. split; [reflexivity|].
      assert (Hcall : code_at c (cur_off sb) (tc2 ++ [IBr])).
      { unfold cur_off. apply (code_from_F2 sc (length (c_out sb)) (tc2 ++ [IBr]) Mc); [|exact Hnth].
        rewrite app_length. cbn [length]. unfold cur_off in Ecur. fold tc2 in Ecur. lia. }
      apply code_at_app in Hcall. destruct Hcall as [Hc1 Hc2].
      destruct (sim_copy sb p2 d [] st1 l1 v1 [] M2 R2 Esb Pp2 (i_cwf _ _ _ (p_inv _ _ _ _ Pb)) Sb Hd2 Hc1) as (k1 & M3 & Hn3 & Fq3 & Hpc3 & Hbld).
      fold tc2 in Hpc3.
      assert (Hidx3 : ms_idx M3 = fidx) by (destruct Fq3 as (E & _); rewrite E; apply (r_idx _ _ _ _ _ _ _ _ _ _ _ R2)).
      rewrite <- Hpc3 in Hc2.
      assert (Htgt : get_u32 c (ms_pc M3 + 1) = cur_off se).
      { rewrite Hpc3. apply Hl2; [apply in_or_app; right; left; reflexivity|unfold cur_off; lia]. }
      assert (Hpc0 : 0 <= ms_pc M3) by (rewrite Hpc3; unfold cur_off; lia).
      pose proof (Hbld (at_pcv (ms_pc M3) (PDyn d)) eq_refl (cur_off_at_pcv _ _ Hpc0)) as R3.
      exists (k1 + 1)%nat, (set_pc M3 (cur_off se)). split.
      * rewrite (nsteps_app _ _ _ _ _ _ _ Hn3). cbn. rewrite (mstep_br2 M3 Hidx3 Hc2), Htgt. reflexivity.
      * split; [exact Fq3|]. eapply rel_pc; [exact R3|rewrite G3; apply (r_stack _ _ _ _ _ _ _ _ _ _ _ R3)|reflexivity].
    + exact Hrest.
Qed.

Lemma case_if f bt thn els rest s v v' s' rho st l vs M :
  (f <= n)%nat -> syn (If bt thn els :: rest) = true ->
  compile_ops cx (flatten (If bt thn els :: rest)) v s = Some (v', s') ->
  lvl nl cx (flatten (If bt thn els :: rest)) v = true ->
  inv nl s v -> v_unreach v = None ->
  matches F s' -> lenv s' rho -> lows rho s -> small NR s' -> consts_ok consts s' ->
  rel s st l vs M ->
  sim_res rho M s' (match exec_instr f st l vs (If bt thn els) with
                    | RNormal s1 l1 st1 => exec_seq f s1 l1 st1 rest | r => r end).
Proof.
  intros Hf Hs Hc Hl I Hu Hm Hle Hlo Sm Co R.
  destruct (syn_cons _ _ Hs) as [Hsi Hsr]. rewrite syn_if in Hsi.
  assert (Hsi' : syn thn = true /\ syn els = true).
  { destruct bt, els; try discriminate Hsi; apply andb_true_iff in Hsi; exact Hsi. }
  destruct Hsi' as [Hsyt Hsye].
  destruct els as [|e els].
  - (* one-armed *)
    rewrite flatten_if1 in Hc, Hl.
    destruct (compile_cons _ _ _ _ _ _ _ Hc) as (va & sa & Ev & Eh & Hc').
    rewrite (reach_of_none v Hu) in Eh. destruct (lvl_cons _ _ _ _ _ _ Hl Ev) as [Hk Hl'].
    destruct bt; [discriminate|]. unfold ctl_ok in Hk. rewrite Hu in Hk. apply Nat.eqb_eq in Hk.
    destruct (op_if nl cx s v va sa I Hu Hk Ev Eh) as (p & Es & Pp & A1 & A2 & A3 & A4 & A5 & A6 & Ia & Hua & Xa).
    destruct (compile_app_inv _ _ _ _ _ _ _ Hc') as (vb & sb & Hcb & Hc'').
    rewrite (lvl_app nl cx _ _ _ _ _ _ Hcb) in Hl'. apply andb_true_iff in Hl'. destruct Hl' as [Hlb Hl''].
    assert (Pb : pres nl sa sb vb) by (eapply (pres_of thn); eauto; left; exact A6).
    destruct (compile_cons _ _ _ _ _ _ _ Hc'') as (vc & sc & Evc & Ehc & Hcr).
    destruct (lvl_cons _ _ _ _ _ _ Hl'' Evc) as [_ Hlr].
    assert (Hnr : match c_bp sb with j :: _ => no_res j | [] => True end) by (eapply bp_sub_head_nores; [rewrite <- A2; apply (p_bp _ _ _ _ Pb)|exact Logic.I]).
  destruct (op_end nl cx sb vb vc sc (p_inv _ _ _ _ Pb) Hnr Evc Ehc) as (j & bp' & E1 & E2 & E3 & E4 & E5 & E6 & E7 & E8 & X3 & Rs & Ic & Huc).
    pose proof (p_bp _ _ _ _ Pb) as Hb0. rewrite A2, E1 in Hb0. destruct (bp_sub_head_u _ _ _ _ Hb0) as (add & ->).
    cbn [locs_of] in Rs. set (locs := [cur_off s + 5] ++ add) in *.
    assert (Pr : pres nl sc s' v') by (eapply (pres_of rest); eauto; left; exact E7).
    assert (Mc : matches F sc) by (eapply matches_ext; [apply (p_ext _ _ _ _ Pr)|exact Hm]).
    assert (Mb : matches F sb) by (eapply matches_ext; [exact X3|exact Mc]).
    assert (Ma : matches F sa) by (eapply matches_ext; [apply (p_ext _ _ _ _ Pb)|exact Mb]).
    assert (Moc : mono sc s') by apply (p_mono _ _ _ _ Pr).
    assert (Mob : mono sb s') by (eapply mono_trans; [apply (mono_eq sb sc); auto|exact Moc]).
    assert (Moa : mono sa s') by (eapply mono_trans; [apply (p_mono _ _ _ _ Pb)|exact Mob]).
    assert (Lc : lenv sc rho) by (eapply lenv_sub; [reflexivity|apply (p_bp _ _ _ _ Pr)|exact Hle]).
    assert (Ebp : c_bp sb = JUnknown locs None :: c_bp sc) by (rewrite E1, E2; reflexivity).
    assert (Lb : lenv sb ((cur_off sb, 0, None) :: rho)) by (eapply lenv_end; eauto).
    assert (Oa : cur_off s <= cur_off sa) by (apply ext_off; exact Xa).
    assert (Ob : cur_off sa <= cur_off sb) by (apply ext_off; apply (p_ext _ _ _ _ Pb)).
    assert (Sa : small NR sa) by (eapply small_of_mono; eauto).
    destruct vs as [|x vs]; [pose proof (r_stack _ _ _ _ _ _ _ _ _ _ _ R) as Hst; rewrite Es in Hst; inversion Hst|].
    destruct (sim_if s v va sa st l x vs M I Hu Hk Ev Eh Ma Sa R) as [-> Hstep].
    destruct f as [|f2]; [cbn; exact Logic.I|].
    destruct x as [cv|cv]; [|cbn; exact Logic.I].
    rewrite E_if. destruct f2 as [|f3]; [cbn; exact Logic.I|]. rewrite E_block.
    destruct (Hstep cv eq_refl) as (M1 & Hn1 & Fq1 & Hcase).
    eapply sim_res_compose; [exact Hn1|exact Fq1|].
    match goal with |- sim_res _ _ _ ?rr =>
      replace rr with (match blk (exec_seq f3 st l [] (if cv =? 0 then [] else thn)) with
                      | RNormal s1 l1 st1 => exec_seq (S (S f3)) s1 l1 st1 rest | r0 => r0 end)
        by (destruct (exec_seq f3 st l [] (if cv =? 0 then [] else thn)) as [? ? ?|[|?] ? ? ?| | | |]; reflexivity) end.
    assert (HL : In (cur_off s + 5) locs).
    { subst locs. left. reflexivity. }
    assert (Hrest : forall st1 l1 M2, rel sc st1 l1 [] M2 -> sim_res rho M2 s' (exec_seq (S (S f3)) st1 l1 [] rest)).
    { intros st1 l1 M2 R2. eapply (Hsim (S (S f3)) Hf rest sc vc v' s'); eauto.
      - left. exact E7.
      - eapply lows_mono; [exact Hlo|]. rewrite E8. lia. }
    destruct (cv =? 0).
    + destruct f3 as [|f4]; [cbn; exact Logic.I|]. rewrite E_nil. cbn [blk arity firstn app].
      apply Hrest. apply Hcase; [exact E4|].
      rewrite (target_from_F sc _ (cur_off sb) (Rs _ HL) Mc); [exact E8|]. rewrite <- E8. apply T_range. exact Mc.
    + eapply (sim_after_body (S (S f3)) rho (cur_off sb) 0 sb sc s').
      * eapply (Hsim f3 ltac:(lia) thn sa va vb sb); eauto.
        -- left. exact A6.
        -- apply (lows_cons _ _ _ _ s); auto; try lia; [unfold cur_off; lia|apply T_range; assumption].
        -- eapply small_of_mono; [exact Sm|exact Mob].
        -- eapply consts_ok_of_mono; [exact Co|exact Mob].
      * exact E3.
      * exact E4.
      * exact E8.
      * intros st1 l1 M2 R2. exists O, M2. split; [reflexivity|]. split; [apply frame_eq_refl|].
        eapply rel_transfer; [exact R2|rewrite E3, E4; reflexivity|exact E8].
      * exact Hrest.
  - (* two-armed *)
    destruct bt as [t|]; [eapply (case_if_val f t thn e els rest s v v' s'); eauto|].
    rewrite flatten_if2 in Hc, Hl.
    destruct (compile_cons _ _ _ _ _ _ _ Hc) as (va & sa & Ev & Eh & Hc').
    rewrite (reach_of_none v Hu) in Eh. destruct (lvl_cons _ _ _ _ _ _ Hl Ev) as [Hk Hl'].
    unfold ctl_ok in Hk. rewrite Hu in Hk. apply Nat.eqb_eq in Hk.
    destruct (op_if nl cx s v va sa I Hu Hk Ev Eh) as (p & Es & Pp & A1 & A2 & A3 & A4 & A5 & A6 & Ia & Hua & Xa).
    destruct (compile_app_inv _ _ _ _ _ _ _ Hc') as (vb & sb & Hcb & Hc'').
    rewrite (lvl_app nl cx _ _ _ _ _ _ Hcb) in Hl'. apply andb_true_iff in Hl'. destruct Hl' as [Hlb Hl''].
    assert (Pb : pres nl sa sb vb) by (eapply (pres_of thn); eauto; left; exact A6).
    destruct (compile_cons _ _ _ _ _ _ _ Hc'') as (vc & sc & Evc & Ehc & Hcr).
    destruct (lvl_cons _ _ _ _ _ _ Hl'' Evc) as [_ Hlr].
    assert (Hnr : match c_bp sb with j :: _ => no_res j | [] => True end) by (eapply bp_sub_head_nores; [rewrite <- A2; apply (p_bp _ _ _ _ Pb)|exact Logic.I]).
    destruct (op_else nl cx sb vb vc sc (p_inv _ _ _ _ Pb) Hnr Evc Ehc)
      as (first & more & bp' & pre & E1 & E2 & Lp & E3 & E4 & E5 & E6 & E7 & E8 & X3 & Rs & Ic & Huc).
    destruct (compile_app_inv _ _ _ _ _ _ _ Hcr) as (vd & sd & Hcd & Hcr').
    rewrite (lvl_app nl cx _ _ _ _ _ _ Hcd) in Hlr. apply andb_true_iff in Hlr. destruct Hlr as [Hld Hlr'].
    assert (Pd : pres nl sc sd vd) by (eapply (pres_of (e :: els)); eauto; left; exact E8).
    destruct (compile_cons _ _ _ _ _ _ _ Hcr') as (ve & se & Eve & Ehe & Hcr'').
    destruct (lvl_cons _ _ _ _ _ _ Hlr' Eve) as [_ Hlr''].
    assert (Hnr' : match c_bp sd with j :: _ => no_res j | [] => True end) by (eapply bp_sub_head_nores; [rewrite <- E2; apply (p_bp _ _ _ _ Pd)|exact Logic.I]).
    destruct (op_end nl cx sd vd ve se (p_inv _ _ _ _ Pd) Hnr' Eve Ehe) as (j & bp'' & G1 & G2 & G3 & G4 & G5 & G6 & G7 & G8 & X5 & Rs' & Ie & Hue).
    pose proof (p_bp _ _ _ _ Pd) as Hd0. rewrite E2, G1 in Hd0. destruct (bp_sub_head_u _ _ _ _ Hd0) as (add0 & ->).
    cbn [locs_of] in Rs'. set (locs := (more ++ [cur_off sb + 1]) ++ add0) in *.
    assert (Pr : pres nl se s' v') by (eapply (pres_of rest); eauto; left; exact G7).
    assert (Me : matches F se) by (eapply matches_ext; [apply (p_ext _ _ _ _ Pr)|exact Hm]).
    assert (Md : matches F sd) by (eapply matches_ext; [exact X5|exact Me]).
    assert (Mc : matches F sc) by (eapply matches_ext; [apply (p_ext _ _ _ _ Pd)|exact Md]).
    assert (Mb : matches F sb) by (eapply matches_ext; [exact X3|exact Mc]).
    assert (Ma : matches F sa) by (eapply matches_ext; [apply (p_ext _ _ _ _ Pb)|exact Mb]).
    assert (Moe : mono se s') by apply (p_mono _ _ _ _ Pr).
    assert (Mod : mono sd s') by (eapply mono_trans; [apply (mono_eq sd se); auto|exact Moe]).
    assert (Moc : mono sc s') by (eapply mono_trans; [apply (p_mono _ _ _ _ Pd)|exact Mod]).
    assert (Mob : mono sb s') by (eapply mono_trans; [apply (mono_eq sb sc); auto|exact Moc]).
    assert (Moa : mono sa s') by (eapply mono_trans; [apply (p_mono _ _ _ _ Pb)|exact Mob]).
    assert (Le : lenv se rho) by (eapply lenv_sub; [reflexivity|apply (p_bp _ _ _ _ Pr)|exact Hle]).
    assert (Ebp : c_bp sd = JUnknown locs None :: c_bp se) by (rewrite G1, G2; reflexivity).
    assert (Ld : lenv sd ((cur_off sd, 0, None) :: rho)) by (eapply lenv_end; eauto).
    assert (Lc : lenv sc ((cur_off sd, 0, None) :: rho)) by (eapply lenv_sub; [reflexivity|apply (p_bp _ _ _ _ Pd)|exact Ld]).
    assert (Oa : cur_off s <= cur_off sa) by (apply ext_off; exact Xa).
    assert (Oa9 : cur_off sa = cur_off s + 9).
    { unfold cur_off. rewrite A1, app_length. cbn [length]. rewrite app_length, i32_bytes_length, u32_bytes_length. lia. }
    assert (Ob : cur_off sa <= cur_off sb) by (apply ext_off; apply (p_ext _ _ _ _ Pb)).
    assert (Oc : cur_off sc = cur_off sb + 5).
    { unfold cur_off. rewrite E3, app_length, Lp. cbn [length]. rewrite u32_bytes_length. lia. }
    assert (Od : cur_off sc <= cur_off sd) by (apply ext_off; apply (p_ext _ _ _ _ Pd)).
    assert (Sa : small NR sa) by (eapply small_of_mono; eauto).
    assert (Hfirst : first = cur_off s + 5).
    { pose proof (p_bp _ _ _ _ Pb) as Hb. rewrite A2, E1 in Hb. destruct (bp_sub_head _ _ _ _ Hb) as (add & Ea). inversion Ea. reflexivity. }
    subst first.
    assert (Lb : lenv sb ((cur_off sd, cur_off sa, None) :: rho)).
    { unfold lenv in Lc |- *. rewrite E2 in Lc. rewrite E1. inversion Lc as [|? ? ? ? He Htl]; subst. pose proof (lenv1_u _ _ _ He) as Hl2.
      constructor; [|exact Htl]. left. exists ((cur_off s + 5) :: more). split; [reflexivity|]. cbn [fst snd] in *. intros loc Hin Hge.
      apply Hl2; [|unfold cur_off in *; lia].
      destruct Hin as [<-|Hin]; [lia|apply in_or_app; left; exact Hin]. }
    destruct vs as [|x vs]; [pose proof (r_stack _ _ _ _ _ _ _ _ _ _ _ R) as Hst; rewrite Es in Hst; inversion Hst|].
    destruct (sim_if s v va sa st l x vs M I Hu Hk Ev Eh Ma Sa R) as [-> Hstep].
    destruct f as [|f2]; [cbn; exact Logic.I|].
    destruct x as [cv|cv]; [|cbn; exact Logic.I].
    rewrite E_if. destruct f2 as [|f3]; [cbn; exact Logic.I|]. rewrite E_block.
    destruct (Hstep cv eq_refl) as (M1 & Hn1 & Fq1 & Hcase).
    eapply sim_res_compose; [exact Hn1|exact Fq1|].
    match goal with |- sim_res _ _ _ ?rr =>
      replace rr with (match blk (exec_seq f3 st l [] (if cv =? 0 then e :: els else thn)) with
                      | RNormal s1 l1 st1 => exec_seq (S (S f3)) s1 l1 st1 rest | r0 => r0 end)
        by (destruct (exec_seq f3 st l [] (if cv =? 0 then e :: els else thn)) as [? ? ?|[|?] ? ? ?| | | |]; reflexivity) end.
    assert (Hrest : forall st1 l1 M2, rel se st1 l1 [] M2 -> sim_res rho M2 s' (exec_seq (S (S f3)) st1 l1 [] rest)).
    { intros st1 l1 M2 R2. eapply (Hsim (S (S f3)) Hf rest se ve v' s'); eauto.
      - left. exact G7.
      - eapply lows_mono; [exact Hlo|]. rewrite G8. lia. }
    destruct (cv =? 0).
    + (* else branch *)
      assert (Rc : rel sc st l [] M1).
      { apply Hcase; [exact E5|].
        rewrite (target_from_F sc (cur_off s + 5) (cur_off sb + 5) Rs Mc); [exact Oc|]. rewrite <- Oc. apply T_range. exact Mc. }
      eapply (sim_after_body (S (S f3)) rho (cur_off sd) 0 sd se s').
      * eapply (Hsim f3 ltac:(lia) (e :: els) sc vc vd sd); eauto.
        -- left. exact E8.
        -- apply (lows_cons _ _ _ _ s); auto; try lia; [unfold cur_off; lia|apply T_range; assumption].
        -- eapply small_of_mono; [exact Sm|exact Mod].
        -- eapply consts_ok_of_mono; [exact Co|exact Mod].
      * exact G3.
      * exact G4.
      * exact G8.
      * intros st1 l1 M2 R2. exists O, M2. split; [reflexivity|]. split; [apply frame_eq_refl|].
        eapply rel_transfer; [exact R2|rewrite G3, G4; reflexivity|exact G8].
      * exact Hrest.
    + (* then branch, followed by the jump over the else branch *)
      eapply (sim_after_body (S (S f3)) rho (cur_off sd) (cur_off sa) sb se s').
      * eapply (Hsim f3 ltac:(lia) thn sa va vb sb); eauto.
        -- left. exact A6.
        -- apply (lows_cons _ _ _ _ s); auto; try lia. apply T_range; assumption.
        -- eapply small_of_mono; [exact Sm|exact Mob].
        -- eapply consts_ok_of_mono; [exact Co|exact Mob].
      * exact E4.
      * exact G4.
      * exact G8.
      * intros st1 l1 M2 R2.
        assert (Hcode1 : code_at c (cur_off sb) [IBr]).
        { unfold cur_off. rewrite <- Lp. apply (code_from_F sc pre [IBr] (u32_bytes 0) Mc E3). intros j Hj. cbn in Hj.
          rewrite Lp. apply (pres_pending_new sb sc (cur_off sb + 1)); [apply (i_bp _ _ _ (p_inv _ _ _ _ Pb))| |lia|unfold in_win, cur_off; lia].
          intros y Hy. rewrite E2 in Hy. cbn [all_locs flat_map locs_of] in Hy. rewrite E1. cbn [all_locs flat_map locs_of].
          rewrite <- app_assoc in Hy. apply in_app_iff in Hy. cbn in Hy. rewrite in_app_iff.
          destruct Hy as [Hy|[Hy|Hy]]; auto. right. left. right. exact Hy. }
        assert (Htgt : get_u32 c (cur_off sb + 1) = cur_off sd).
        { unfold lenv in Lc. rewrite E2 in Lc. inversion Lc as [|? ? ? ? He Htl]; subst. pose proof (lenv1_u _ _ _ He) as Hl2.
          cbn [fst snd] in Hl2. apply Hl2; [apply in_or_app; right; left; reflexivity|unfold cur_off; lia]. }
        exists 1%nat, (set_pc M2 (cur_off sd)). split.
        -- cbn. rewrite (mstep_br2 M2 (r_idx _ _ _ _ _ _ _ _ _ _ _ R2)); rewrite (r_pc _ _ _ _ _ _ _ _ _ _ _ R2); [rewrite Htgt; reflexivity|exact Hcode1].
        -- split; [apply frame_eq_set_pc|]. eapply rel_jump; [exact R2|exact G4|exact G8].
      * exact Hrest.
Qed.

Lemma bp_sub_head_k pos bp0 j bp1 : bp_sub (JKnown pos :: bp0) (j :: bp1) -> j = JKnown pos.
Proof. intros H. inversion H as [|? ? ? ? [(l0 & add & r0 & E1 & E2)|(p0 & E1 & E2)]]; subst; [discriminate E1|]. inversion E1; subst. reflexivity. Qed.

Lemma case_loop f bt body rest s v v' s' rho st l vs M :
  (f <= n)%nat -> syn (Loop bt body :: rest) = true ->
  compile_ops cx (flatten (Loop bt body :: rest)) v s = Some (v', s') ->
  lvl nl cx (flatten (Loop bt body :: rest)) v = true ->
  inv nl s v -> v_unreach v = None ->
  matches F s' -> lenv s' rho -> lows rho s -> small NR s' -> consts_ok consts s' ->
  rel s st l vs M ->
  sim_res rho M s' (match exec_instr f st l vs (Loop bt body) with
                    | RNormal s1 l1 st1 => exec_seq f s1 l1 st1 rest | r => r end).
Proof.
  intros Hf Hs Hc Hl I Hu Hm Hle Hlo Sm Co R.
  destruct (syn_cons _ _ Hs) as [Hsb Hsr]. rewrite syn_loop in Hsb.
  rewrite flatten_loop in Hc, Hl.
  destruct (compile_cons _ _ _ _ _ _ _ Hc) as (va & sa & Ev & Eh & Hc').
  rewrite (reach_of_none v Hu) in Eh. destruct (lvl_cons _ _ _ _ _ _ Hl Ev) as [Hk Hl'].
  destruct bt; [discriminate|]. unfold ctl_ok in Hk. rewrite Hu in Hk. apply Nat.eqb_eq in Hk.
  destruct (op_loop nl cx s v va sa I Hu Hk Ev Eh) as (A1 & A2 & (A3 & A4 & A5 & A6) & A7 & Ia & Hua).
  destruct (compile_app_inv _ _ _ _ _ _ _ Hc') as (vb & sb & Hcb & Hc'').
  rewrite (lvl_app nl cx _ _ _ _ _ _ Hcb) in Hl'. apply andb_true_iff in Hl'. destruct Hl' as [Hlb Hl''].
  assert (Pb : pres nl sa sb vb) by (eapply (pres_of body); eauto; left; exact A7).
  destruct (compile_cons _ _ _ _ _ _ _ Hc'') as (vc & sc & Evc & Ehc & Hcr).
  destruct (lvl_cons _ _ _ _ _ _ Hl'' Evc) as [_ Hlr].
  assert (Hnr : match c_bp sb with j :: _ => no_res j | [] => True end) by (eapply bp_sub_head_nores; [rewrite <- A2; apply (p_bp _ _ _ _ Pb)|exact Logic.I]).
  destruct (op_end nl cx sb vb vc sc (p_inv _ _ _ _ Pb) Hnr Evc Ehc) as (j & bp' & E1 & E2 & E3 & E4 & E5 & E6 & E7 & E8 & X3 & Rs & Ic & Huc).
  pose proof (p_bp _ _ _ _ Pb) as Hb0. rewrite A2, E1 in Hb0. pose proof (bp_sub_head_k _ _ _ _ Hb0) as Ej. subst j.
  assert (Pr : pres nl sc s' v') by (eapply (pres_of rest); eauto; left; exact E7).
  assert (Es : c_stack s = []) by (destruct (c_stack s) eqn:E; [reflexivity|pose proof (i_len _ _ _ I) as L; rewrite E, Hk in L; discriminate]).
  pose proof (rel_nil_stack _ _ _ _ _ R Es) as Evs. subst vs.
  assert (Mc : matches F sc) by (eapply matches_ext; [apply (p_ext _ _ _ _ Pr)|exact Hm]).
  assert (Mb : matches F sb) by (eapply matches_ext; [exact X3|exact Mc]).
  assert (Ma : matches F sa) by (eapply matches_ext; [apply (p_ext _ _ _ _ Pb)|exact Mb]).
  assert (Moc : mono sc s') by apply (p_mono _ _ _ _ Pr).
  assert (Mob : mono sb s') by (eapply mono_trans; [apply (mono_eq sb sc); auto|exact Moc]).
  assert (Lc : lenv sc rho) by (eapply lenv_sub; [reflexivity|apply (p_bp _ _ _ _ Pr)|exact Hle]).
  assert (Oa : cur_off sa = cur_off s) by (unfold cur_off; rewrite A1; reflexivity).
  assert (Lb : lenv sb ((cur_off s, 0, None) :: rho)).
  { unfold lenv. rewrite E1. constructor; [right; split; reflexivity|]. unfold lenv in Lc. rewrite E2 in Lc. exact Lc. }
  assert (Hlo' : lows ((cur_off s, 0, None) :: rho) sa).
  { apply (lows_cons _ _ _ _ s); auto; try lia; [unfold cur_off; lia|]. rewrite <- Oa. apply T_range. exact Ma. }
  assert (Hrest : forall st1 l1 M2, rel sc st1 l1 [] M2 -> sim_res rho M2 s' (exec_seq f st1 l1 [] rest)).
  { intros st1 l1 M2 R2. eapply (Hsim f Hf rest sc vc v' s'); eauto.
    - left. exact E7.
    - eapply lows_mono; [exact Hlo|]. rewrite E8. pose proof (ext_off _ _ (p_ext _ _ _ _ Pb)). lia. }
  assert (Ra : rel sa st l [] M) by (eapply rel_transfer; [exact R|rewrite A3; reflexivity|exact Oa]).
  clear R. revert st l M Ra.
  assert (G : forall g, (g <= f)%nat -> forall st l M, rel sa st l [] M ->
            sim_res rho M s' (match exec_instr g st l [] (Loop None body) with
                              | RNormal s1 l1 st1 => exec_seq f s1 l1 st1 rest | r => r end)).
  { induction g as [|g2 IHg]; intros Hg st l M Ra; [cbn; exact Logic.I|].
    rewrite E_loop.
    assert (Hb : sim_res ((cur_off s, 0, None) :: rho) M sb (exec_seq g2 st l [] body)).
    { eapply (Hsim g2 ltac:(lia) body sa va vb sb); eauto.
      - left. exact A7.
      - eapply small_of_mono; [exact Sm|exact Mob].
      - eapply consts_ok_of_mono; [exact Co|exact Mob]. }
    destruct (exec_seq g2 st l [] body) as [st1 l1 vs1|[|k] st1 l1 vs1| | | |]; cbn [sim_res] in Hb |- *; auto.
    - destruct Hb as (n1 & M1 & Hn & R1 & Fq).
      pose proof (rel_nil_stack _ _ _ _ _ R1 E3) as Ev1. subst vs1. cbn [arity firstn app].
      eapply sim_res_compose; [exact Hn|exact Fq|]. apply Hrest.
      eapply rel_transfer; [exact R1|rewrite E3, E4; reflexivity|exact E8].
    - destruct Hb as (e & n1 & M1 & Ee & H0 & Hn & R1 & Fq). cbn in Ee. inversion Ee; subst e. cbn [fst] in *.
      eapply sim_res_compose; [exact Hn|exact Fq|]. apply IHg; [lia|].
      eapply rel_transfer; [exact R1|rewrite A3, Es; reflexivity|rewrite Oa, cur_off_at_pc by exact H0; reflexivity]. }
  intros st l M Ra. apply G; auto.
Qed.
End Cases.

Lemma seg_facts bs s v v1 s1 :
  bs <> [] -> forallb straight_ok bs = true -> compile_ops cx (map OBasic bs) v s = Some (v1, s1) ->
  lvl nl cx (map OBasic bs) v = true -> inv nl s v -> v_unreach v = None -> c_last s = None ->
  inv nl s1 v1 /\ v_unreach v1 = None /\ c_bp s1 = c_bp s /\ mono s s1 /\ exists t, c_out s1 = c_out s ++ t.
Proof.
  intros Hne Hok Hc1 Hl1 I Hu Hlast.
  destruct (seg_pure nl cx bs s v v1 s1 Hok Hc1 Hl1 Hu (i_cwf _ _ _ I)) as (Ebp & W1 & Ectrl & Hu1 & Hlen).
  destruct (compile_grows cx (length bs) bs s v v1 s1 (le_n _) Hok Hc1 Hu (safe_last_none s bs Hlast)) as [(t & Eo) Mo].
  assert (X1 : ext s s1) by (eapply ext_append; eauto).
  splits; auto; [|exists t; exact Eo].
  constructor; auto.
  - eapply bpwf_same_locs; [apply (i_bp _ _ _ I)|rewrite Ebp; reflexivity|apply ext_off; exact X1].
  - rewrite Ectrl, Ebp. eapply frames_mono; [apply Mo|apply (i_frames _ _ _ I)].
  - left. exact Hu1.
Qed.

Lemma sim_all : forall n fuel, (fuel <= n)%nat -> SIM fuel.
Proof.
  induction n as [|n IH]; intros fuel Hf.
  { destruct fuel; [|lia]. unfold SIM. intros. cbn. exact Logic.I. }
  assert (CF : forall fuel', (fuel' <= S n)%nat -> forall is s v v' s' rho st l vs M, ctl_first is -> syn is = true ->
            compile_ops cx (flatten is) v s = Some (v', s') -> lvl nl cx (flatten is) v = true ->
            inv nl s v -> v_unreach v = None ->
            matches F s' -> lenv s' rho -> lows rho s -> small NR s' -> consts_ok consts s' ->
            rel s st l vs M -> sim_res rho M s' (exec_seq fuel' st l vs is)).
  { intros fuel' Hf' is s v v' s' rho st l vs M Hcf Hs Hc Hl I Hu Hm Hle Hlo Sm Co R.
    destruct fuel' as [|f]; [cbn; exact Logic.I|].
    destruct is as [|i rest].
    - rewrite E_nil. cbn in Hc. inversion Hc; subst. cbn. exists O, M. split; [reflexivity|]. split; [exact R|apply frame_eq_refl].
    - destruct (syn_cons _ _ Hs) as [Hsi Hsr]. rewrite E_cons. destruct i as [b|bt body|bt body|bt thn els].
      + cbn in Hcf. change (flatten (Basic b :: rest)) with (OBasic b :: flatten rest) in Hc, Hl.
        destruct (compile_cons _ _ _ _ _ _ _ Hc) as (v1 & s1 & Ev & Eh & Hc').
        rewrite (reach_of_none v Hu) in Eh. destruct (lvl_cons _ _ _ _ _ _ Hl Ev) as [Hk Hl'].
        destruct b; try (unfold ctl_ok in Hk; rewrite Hu in Hk; rewrite Hcf in Hk; discriminate).
        * (* unreachable *)
          destruct (op_unreachable nl cx s v v1 s1 I Hu Ev Eh) as (O1 & O2 & O3 & O4 & O5 & O6 & I1 & Hu1 & X1).
          rewrite (lvl_unreach_nil nl cx rest v1 Hu1 Hl') in Hc'. cbn in Hc'. inversion Hc'; subst v' s'.
          destruct f as [|f2]; [cbn; exact Logic.I|]. rewrite E_unreachable.
          exact (sim_unreachable s v v1 s1 rho st l vs M I Hu Ev Eh Hm R).
        * (* br *)
          destruct (br_target _ _ _ _ Ev) as (fk & Ek). destruct (bp_target nl s v l0 fk I Ek) as [(locs & [rr|] & Enth)|(pos & Enth)].
          -- destruct (target_label_any _ _ _ _ l0 fk locs rr (i_frames _ _ _ I) Ek Enth) as (t0 & _ & [[-> _]|(d & -> & _)]).
             { destruct (op_br_ret nl cx s v v1 s1 l0 locs I Hu Enth Ev Eh) as (p & st0 & Es & Pp & O1 & O2 & O3 & O4 & O5 & O6 & I1 & Hu1 & X1).
               rewrite (lvl_unreach_nil nl cx rest v1 Hu1 Hl') in Hc'. cbn in Hc'. inversion Hc'; subst v' s'.
               destruct f as [|f2]; [cbn; exact Logic.I|]. rewrite E_br.
               exact (sim_br_ret l0 locs s v v1 s1 rho st l vs M I Hu Enth Ev Eh Hm Hle Hlo Sm R). }
             destruct (op_br_val nl cx s v v1 s1 l0 locs d I Hu Enth Ev Eh) as (p & st0 & Es & Pp & Hd & O1 & O2 & O3 & O4 & O5 & O6 & I1 & Hu1 & X1).
             rewrite (lvl_unreach_nil nl cx rest v1 Hu1 Hl') in Hc'. cbn in Hc'. inversion Hc'; subst v' s'.
             destruct f as [|f2]; [cbn; exact Logic.I|]. rewrite E_br.
             exact (sim_br_val l0 locs d s v v1 s1 rho st l vs M I Hu Enth Ev Eh Hm Hle Hlo Sm R).
          -- destruct (op_br nl cx s v v1 s1 l0 locs I Hu Enth Ev Eh) as (O1 & O2 & O3 & O4 & O5 & O6 & I1 & Hu1 & X1).
             rewrite (lvl_unreach_nil nl cx rest v1 Hu1 Hl') in Hc'. cbn in Hc'. inversion Hc'; subst v' s'.
             destruct f as [|f2]; [cbn; exact Logic.I|]. rewrite E_br.
             exact (sim_br l0 locs s v v1 s1 rho st l vs M I Hu Enth Ev Eh Hm Hle Hlo R).
          -- destruct (op_br_known nl cx s v v1 s1 l0 pos I Hu Enth Ev Eh) as (O1 & O2 & O3 & O4 & O5 & O6 & I1 & Hu1 & X1).
             rewrite (lvl_unreach_nil nl cx rest v1 Hu1 Hl') in Hc'. cbn in Hc'. inversion Hc'; subst v' s'.
             destruct f as [|f2]; [cbn; exact Logic.I|]. rewrite E_br.
             exact (sim_br_known l0 pos s v v1 s1 rho st l vs M I Hu Enth Ev Eh Hm Hle Hlo R).
        * (* br_if *)
          assert (Hbi : exists p st0, c_last s1 = None /\ ext s s1 /\ inv nl s1 v1 /\ v_unreach v1 = None /\ c_stack s = p :: st0 /\
                   forall cv vs0, vs = VI32 cv :: vs0 -> matches F s1 -> lenv s1 rho -> small NR s1 ->
                   exists Mx, nsteps 1 M = SNext Mx /\ frame_eq M Mx /\
                     if cv =? 0 then rel s1 st l vs0 Mx
                     else exists e, nth_error rho l0 = Some e /\ 0 <= fst (fst e) /\ arrive e st l vs0 Mx).
          { destruct (br_if_target _ _ _ _ Ev) as (fk & Ek). destruct (bp_target nl s v l0 fk I Ek) as [(locs & [rr|] & Enth)|(pos & Enth)].
            - exfalso. destruct (target_label_any _ _ _ _ l0 fk locs rr (i_frames _ _ _ I) Ek Enth) as (t0 & Fl & _).
              unfold ctl_ok in Hk. rewrite Hu in Hk. unfold label_type in Hk. rewrite Ek, Fl in Hk. discriminate.
            - destruct (op_br_if nl cx s v v1 s1 l0 locs I Hu Enth Ev Eh) as (p & st0 & Es & Pp & O1 & O2 & O3 & O4 & O5 & O6 & I1 & Hu1 & X1).
              exists p, st0. splits; auto. intros cv vs0 -> Hm1 Hl1 Hs1.
              exact (sim_br_if l0 locs s v v1 s1 rho st l cv vs0 M I Hu Enth Ev Eh Hm1 Hl1 Hlo Hs1 R).
            - destruct (op_br_if_known nl cx s v v1 s1 l0 pos I Hu Enth Ev Eh) as (p & st0 & Es & Pp & O1 & O2 & O3 & O4 & O5 & O6 & I1 & Hu1 & X1).
              exists p, st0. splits; auto. intros cv vs0 -> Hm1 Hl1 Hs1.
              exact (sim_br_if_known l0 pos s v v1 s1 rho st l cv vs0 M I Hu Enth Ev Eh Hm1 Hl1 Hlo Hs1 R). }
          destruct Hbi as (p & st0 & O6 & X1 & I1 & Hu1 & Es & Hstep).
          assert (P2 : pres nl s1 s' v') by (eapply (pres_of rest); eauto; left; exact O6).
          assert (M1' : matches F s1) by (eapply matches_ext; [apply (p_ext _ _ _ _ P2)|exact Hm]).
          assert (L1 : lenv s1 rho) by (eapply lenv_sub; [reflexivity|apply (p_bp _ _ _ _ P2)|exact Hle]).
          assert (S1 : small NR s1) by (eapply small_of_mono; [exact Sm|apply (p_mono _ _ _ _ P2)]).
          destruct f as [|f2]; [cbn; exact Logic.I|].
          destruct vs as [|[cv|cv] vs]; try (cbn; exact Logic.I). rewrite E_br_if.
          destruct (Hstep cv vs eq_refl M1' L1 S1) as (Mx & Hn & Fq & Hcase).
          destruct (cv =? 0).
          -- eapply sim_res_compose; [exact Hn|exact Fq|].
             eapply (IH (S f2) ltac:(lia) rest s1 v1 v' s'); eauto.
             ++ left. exact O6.
             ++ eapply lows_mono; [exact Hlo|apply ext_off; exact X1].
          -- destruct Hcase as (e & Ee & H0 & Re). cbn. exists e, 1%nat, Mx. auto.
        * (* return *)
          unfold ctl_ok in Hk. rewrite Hu in Hk. destruct (cx_return cx) as [t'|] eqn:Hret.
          { destruct (last (map (fun f => Some (vf_label f)) (v_ctrls v)) None) as [[t0|]|] eqn:Hne; try discriminate.
            destruct (op_return_val nl cx s v v1 s1 t0 t' I Hu Hret Hne Ev Eh) as (p & st0 & Es & Pp & Hpos & O1 & O2 & O3 & O4 & O5 & O6 & I1 & Hu1 & X1).
            rewrite (lvl_unreach_nil nl cx rest v1 Hu1 Hl') in Hc'. cbn in Hc'. inversion Hc'; subst v' s'.
            destruct f as [|f2]; [cbn; exact Logic.I|]. rewrite E_return.
            exact (sim_return_val t0 t' s v v1 s1 rho st l vs M I Hu Hret Hne Ev Eh Hm Sm R). }
          assert (Hne : last (map (fun f => Some (vf_label f)) (v_ctrls v)) None = Some None).
          { destruct (last (map (fun f => Some (vf_label f)) (v_ctrls v)) None) as [[?|]|]; try discriminate. reflexivity. }
          destruct (op_return nl cx s v v1 s1 I Hu Hret Hne Ev Eh) as (O1 & O2 & O3 & O4 & O5 & O6 & I1 & Hu1 & X1).
          rewrite (lvl_unreach_nil nl cx rest v1 Hu1 Hl') in Hc'. cbn in Hc'. inversion Hc'; subst v' s'.
          destruct f as [|f2]; [cbn; exact Logic.I|]. rewrite E_return.
          exact (sim_return s v v1 s1 rho st l vs M I Hu Hret Hne Ev Eh Hm R).
      + destruct bt as [t|].
        * eapply (case_block_val n IH f t body rest s v v' s'); eauto; lia.
        * eapply (case_block n IH f body rest s v v' s'); eauto; lia.
      + eapply (case_loop n IH f bt body rest s v v' s'); eauto; lia.
      + eapply (case_if n IH f bt thn els rest s v v' s'); eauto; lia. }
  unfold SIM. intros is s v v' s' rho st l vs M Hs Hc Hl I Hu Hr Hm Hle Hlo Sm Co R.
  destruct (span is) as [bs tl] eqn:Esp. destruct (span_spec _ _ _ Esp) as (Eis & Hok & Hcf).
  destruct bs as [|b0 bs0].
  { cbn in Eis. subst is. apply (CF fuel Hf tl s v v' s'); auto. }
  assert (Hlast : c_last s = None).
  { destruct Hr as [H|H]; auto. rewrite Eis in H. cbn in H. cbn [forallb] in Hok. rewrite H in Hok. discriminate. }
  set (bs := b0 :: bs0) in *. rewrite Eis in Hc, Hl, Hs |- *. rewrite syn_app in Hs. apply andb_true_iff in Hs. destruct Hs as [_ Hst]. rewrite flatten_app, flatten_basics in Hc, Hl.
  destruct (compile_app_inv _ _ _ _ _ _ _ Hc) as (v1 & s1 & Hc1 & Hc2).
  rewrite (lvl_app nl cx _ _ _ _ _ _ Hc1) in Hl. apply andb_true_iff in Hl. destruct Hl as [Hl1 Hl2].
  destruct (seg_facts bs s v v1 s1 ltac:(discriminate) Hok Hc1 Hl1 I Hu Hlast) as (I1 & Hu1 & Ebp & Mo & t & Eo).
  assert (P2 : pres nl s1 s' v') by (eapply (pres_of tl); eauto; right; exact Hcf).
  assert (M1' : matches F s1) by (eapply matches_ext; [apply (p_ext _ _ _ _ P2)|exact Hm]).
  assert (S1 : small NR s1) by (eapply small_of_mono; [exact Sm|apply (p_mono _ _ _ _ P2)]).
  assert (C1 : consts_ok consts s1) by (eapply consts_ok_of_mono; [exact Co|apply (p_mono _ _ _ _ P2)]).
  assert (Hcode' : code_at c (cur_off s) t).
  { apply (code_from_F s1 (c_out s) t [] M1'); [rewrite app_nil_r; exact Eo|].
    intros j Hj. apply (pres_pending_new s s1 (-10)); [apply (i_bp _ _ _ I)| |lia|unfold in_win; lia].
    intros y Hy. right. rewrite <- Ebp. exact Hy. }
  pose proof (straight_main art mhost codes fidx c consts Hcode nl NR NR_small cap cx (length bs) bs s v v1 s1 st l vs M t
                (le_n _) Hok Hc1 Hu (i_cwf _ _ _ I) S1 C1 (safe_last_none s bs Hlast) R Eo Hcode') as Hsr.
  destruct (exec_prefix bs tl fuel st l vs Hok) as [E|E]; rewrite E; [cbn; exact Logic.I|].
  unfold sim_result in Hsr. destruct (straight_sem cap bs st l vs) as [[|]|[[st1 l1] vs1]].
  - exact Hsr.
  - cbn. exact Logic.I.
  - destruct Hsr as (W1 & n1 & M1 & Hn1 & R1 & Fq1).
    eapply sim_res_compose; [exact Hn1|exact Fq1|].
    apply (CF (fuel - length bs)%nat ltac:(lia) tl s1 v1 v' s'); auto.
    eapply lows_mono; [exact Hlo|]. unfold cur_off. rewrite Eo, app_length. lia.
Qed.
End Sim.
