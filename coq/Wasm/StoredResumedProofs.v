(** * Wasm/StoredResumedProofs — C13 end to end in the model: an artifact that was serialised and
    parsed again (owned or borrowed view), run with any interrupt schedule, behaves as the fresh
    artifact run without interruption. *)
From Coq Require Import ZArith NArith List Bool Lia.
From CB Require Import Common.IntN Wasm.Syntax Wasm.Sem Wasm.Compile Wasm.Machine
     Wasm.ArtifactCodec Wasm.ArtifactCodecProofs Wasm.ArtifactView Wasm.ArtifactViewProofs Wasm.Resume Wasm.ResumeProofs.
Import ListNotations.

(** the reloaded record IS the stored record, hence every function of it agrees: [Machine.mrun],
    the direct and the interrupted runs *)
Theorem reloaded_behaves_equal_thm : forall a rest a' rest',
  wf_artifact a -> parse_artifact (output_artifact a ++ rest) = Some (a', rest') ->
  a' = a /\ rest' = rest
  /\ (forall mhost fuel entry args,
        mrun (to_machine a') mhost fuel entry args = mrun (to_machine a) mhost fuel entry args)
  /\ (forall (H : Type) hc choose rounds fuel (h : H) st,
        m_drive H (to_machine a') hc choose rounds fuel h st = m_drive H (to_machine a) hc choose rounds fuel h st).
Proof.
  intros a rest a' rest' W P. rewrite (artifact_roundtrip_thm a rest W) in P. inversion P; subst.
  repeat split; reflexivity.
Qed.

(** same through the zero-copy view: slices into the stored bytes resolve to the stored record *)
Theorem borrowed_behaves_equal_thm : forall a rest b rest',
  wf_artifact a -> parse_artifact_borrowed (output_artifact a ++ rest) = Some (b, rest') ->
  resolve (output_artifact a ++ rest) b = a /\ rest' = rest
  /\ (forall mhost fuel entry args,
        mrun (to_machine (resolve (output_artifact a ++ rest) b)) mhost fuel entry args
        = mrun (to_machine a) mhost fuel entry args).
Proof.
  intros a rest b rest' W P. pose proof (borrowed_roundtrip_thm a rest W) as Hb. rewrite P in Hb.
  change (Some (resolve (output_artifact a ++ rest) b, rest') = Some (a, rest)) in Hb.
  assert (Hr : resolve (output_artifact a ++ rest) b = a) by congruence.
  assert (Hrest : rest' = rest) by congruence.
  rewrite Hr. repeat split; try assumption; reflexivity.
Qed.

(** headline: store, reload, run with ANY interrupt schedule against a stateless host
    = [Machine.mrun] of the fresh artifact *)
Theorem stored_and_resumed_equiv_thm : forall a mhost choose rounds fuel entry args,
  wf_artifact a -> (fuel <= rounds)%nat ->
  match parse_artifact (output_artifact a) with
  | Some (a', []) =>
      match init_state (to_machine a') entry args with
      | Some st0 => finish (to_machine a') entry
                      (r_out (m_drive unit (to_machine a') (lift_host mhost) choose rounds fuel tt st0))
      | None => MTrap TBadCode
      end = mrun (to_machine a) mhost fuel entry args
  | _ => False
  end.
Proof.
  intros a mhost choose rounds fuel entry args W Hle.
  pose proof (artifact_roundtrip_thm a [] W) as P. rewrite app_nil_r in P. rewrite P.
  rewrite direct_refines_machine_thm.
  destruct (init_state (to_machine a) entry args) as [st0|]; [|reflexivity].
  rewrite resume_equiv_thm by exact Hle. reflexivity.
Qed.

(** the same for the artifact of a compiled module: the stored record [s_artifact_of] and the machine
    artifact [build_artifact] of C01 are the same object ([to_machine_s_artifact_of_thm]), so: compile,
    serialise, parse, run under any interrupt schedule = [Machine.mrun] on the artifact C01's layers
    (i)/(ii) tie to the implementation *)
Theorem compiled_stored_resumed_equiv_thm : forall cm m elem_shift names exports code sa art mhost choose rounds fuel entry args,
  view_okb cm m names code = true ->
  s_artifact_of cm m elem_shift names exports code = Some sa ->
  wf_artifact sa -> (fuel <= rounds)%nat ->
  build_artifact cm m elem_shift code = Some art ->
  match parse_artifact (output_artifact sa) with
  | Some (sa', []) =>
      match init_state (to_machine sa') entry args with
      | Some st0 => finish (to_machine sa') entry
                      (r_out (m_drive unit (to_machine sa') (lift_host mhost) choose rounds fuel tt st0))
      | None => MTrap TBadCode
      end = mrun art mhost fuel entry args
  | _ => False
  end.
Proof.
  intros cm m sh names exports code sa art mhost choose rounds fuel entry args Hok Hs W Hle Hb.
  rewrite (to_machine_s_artifact_of_thm _ _ _ _ _ _ _ Hok Hs) in Hb. inversion Hb; subst art.
  apply stored_and_resumed_equiv_thm; assumption.
Qed.
