(** * compile_straightline_correct — the compiler model [Compile.v] followed by the machine
    model [Machine.v] simulates the reference semantics [Sem.v] on straight-line code.

    Setting: a function body fragment [bs] of basic instructions without control flow
    ([straight_ok]); the compiler state before it is well formed ([cwf]); the machine runs the
    emitted bytes (found in the code map at the current offset) from a state related to the
    specification state by [rel]: every provider on the compile-time stack denotes the value at
    the same position of the operand stack, registers [0,nl) hold the locals, globals and memory
    agree.  Then the specification's result and the machine's are related again / both trap. *)
From Coq Require Import ZArith NArith List Lia Bool FMapPositive.
From CB Require Import Common.IntN Common.IntNProofs Wasm.Syntax Wasm.Opcodes Wasm.Sem Wasm.Compile Wasm.Machine
     Wasm.MachineLemmas Wasm.CompileLemmas Wasm.NumOpsProofs Wasm.SemProofs.
Import ListNotations.
Local Open Scope Z_scope.
Local Arguments i32_bytes : simpl never.
Local Arguments u32_bytes : simpl never.
Local Arguments u16_bytes : simpl never.

(** a register pattern represents a value: only the low 32 bits matter for i32 *)
Definition repr (r : Z) (v : val) : Prop :=
  match v with VI32 z => low32 r = z | VI64 z => as_u64 r = z end.

Lemma repr_i32_range r z : repr r (VI32 z) -> IntNProofs.in_range 32 z.
Proof. cbn. intros <-. unfold IntNProofs.in_range. change (modulus 32) with 4294967296. apply low32_range. Qed.
Lemma repr_i64_range r z : repr r (VI64 z) -> IntNProofs.in_range 64 z.
Proof. cbn. intros <-. unfold IntNProofs.in_range. change (modulus 64) with 18446744073709551616. apply as_u64_range. Qed.

Section Straight.
Variable art : artifact.
Variable mhost : nat -> list Z -> option (option Z).
Variable codes : list (code_map * list Z).
Variable fidx : nat.
Variable c : code_map.
Variable consts : list Z.
Hypothesis Hcode : nth_error codes fidx = Some (c, consts).
Variable nl : Z.                       (* registers [0, nl) are the locals *)
Variable NR : Z.                       (* registers of the frame: num_registers *)
Hypothesis NR_small : NR < 2147483648.
Variable cap : N.                      (* page cap of the specification's memory.grow *)

Notation mstep := (step art mhost codes).
Fixpoint nsteps (n : nat) (M : mstate) : step_res :=
  match n with
  | O => SNext M
  | S k => match mstep M with SNext M' => nsteps k M' | r => r end
  end.
Lemma nsteps_app n m M M' : nsteps n M = SNext M' -> nsteps (n + m) M = nsteps m M'.
Proof.
  revert M. induction n; intros M H; cbn in *.
  - inversion H; reflexivity.
  - destruct (mstep M); try discriminate. apply IHn. exact H.
Qed.

Definition denote (M : mstate) (p : provider) : Z := get_local consts M (provider_idx p).

(** same frame: everything but pc, registers' contents, memory, globals *)
Definition frame_eq (M M' : mstate) : Prop :=
  ms_idx M' = ms_idx M /\ ms_frames M' = ms_frames M /\ ms_ret M' = ms_ret M /\ ms_base M' = ms_base M
  /\ length (ms_regs M') = length (ms_regs M) /\ ms_energy M' = ms_energy M.
Lemma frame_eq_refl M : frame_eq M M. Proof. repeat split. Qed.
Lemma frame_eq_trans A B C : frame_eq A B -> frame_eq B C -> frame_eq A C.
Proof. unfold frame_eq. intuition congruence. Qed.

Definition max_memory : Z := match a_memory art with Some (_, mx, _) => Z.of_N mx | None => 0 end.
Definition mem_rel (mm : option memory) (sm : option memory) : Prop :=
  match mm, sm with
  | None, None => True
  | Some a, Some b => mem_pages a = mem_pages b /\ mem_data a = mem_data b /\ Z.of_N (grow_limit cap b) = max_memory
                      /\ (mem_pages b <= 65536)%N /\ (forall a, 0 <= mem_get b a < 256)
  | _, _ => False
  end.

Definition consts_ok (s : cstate) : Prop :=
  forall k v idx, nth_error (c_consts s) k = Some (v, idx) -> nth k consts 0 = v.
Definition small (s : cstate) : Prop := c_next s <= NR /\ Z.of_nat (length (c_consts s)) < 2147483648.

Record rel (s : cstate) (st : store) (locals vs : list val) (M : mstate) : Prop := {
  r_idx : ms_idx M = fidx;
  r_pc : ms_pc M = cur_off s;
  r_regs : (ms_base M + Z.to_nat NR <= length (ms_regs M))%nat;
  r_stack : Forall2 (fun p v => repr (denote M p) v) (c_stack s) vs;
  r_nl : Z.of_nat (length locals) = nl;
  r_locals : forall i v, nth_error locals i = Some v -> repr (reg M (Z.of_nat i)) v;
  r_globals : Forall2 repr (ms_globals M) (s_globals st);
  r_mem : mem_rel (ms_mem M) (s_mem st)
}.

(** ** register file lemmas *)
Lemma reg_set_reg_same M d x : 0 <= d -> (ms_base M + Z.to_nat d < length (ms_regs M))%nat ->
  reg (set_reg M d x) d = x.
Proof. intros H0 H. unfold reg, set_reg. cbn. apply nth_list_set_same. exact H. Qed.
Lemma reg_set_reg_other M d x i : 0 <= d -> 0 <= i -> i <> d -> reg (set_reg M d x) i = reg M i.
Proof. intros H0 H1 H. unfold reg, set_reg. cbn. apply nth_list_set_other. lia. Qed.
Lemma get_local_set_reg M d x i : 0 <= d -> (ms_base M + Z.to_nat d < length (ms_regs M))%nat ->
  get_local consts (set_reg M d x) i = if i =? d then x else get_local consts M i.
Proof.
  intros H0 H. unfold get_local. destruct (Z.leb_spec 0 i).
  - destruct (Z.eqb_spec i d) as [->|Hne]; [apply reg_set_reg_same; auto|apply reg_set_reg_other; auto].
  - destruct (Z.eqb_spec i d); [lia|reflexivity].
Qed.
Lemma get_local_set_pc M pc i : get_local consts (set_pc M pc) i = get_local consts M i.
Proof. reflexivity. Qed.

Lemma idx_ok_of_pwf s p : small s -> 0 <= nl <= c_next s -> pwf nl s p -> -2147483648 <= provider_idx p < 2147483648.
Proof.
  intros [S1 S2] Hnl H. pose proof NR_small. destruct p as [r|i|k]; cbn [pwf provider_idx] in *.
  - destruct H as [[? ?] _]. lia.
  - lia.
  - destruct H as [Hneg (v & Hv)]. assert (Z.to_nat (- (k + 1)) < length (c_consts s))%nat by (apply nth_error_Some; congruence). lia.
Qed.

(** reading operand locations from the code *)
Lemma code_at_locs ps : forall pc,
  code_at c pc (loc_bytes ps) -> Forall (fun p => -2147483648 <= provider_idx p < 2147483648) ps ->
  forall j p, nth_error ps j = Some p -> get_i32 c (pc + 4 * Z.of_nat j) = provider_idx p.
Proof.
  induction ps as [|q r IH]; intros pc H F j p Hj; [destruct j; discriminate|].
  unfold loc_bytes in H. cbn [flat_map] in H. apply code_at_app in H. destruct H as [H1 H2].
  rewrite i32_bytes_length in H2. inversion F; subst.
  destruct j as [|j]; cbn in Hj.
  - inversion Hj; subst. rewrite Z.add_0_r. apply code_at_i32; auto.
  - replace (pc + 4 * Z.of_nat (S j)) with (pc + 4 + 4 * Z.of_nat j) by lia. apply IH; auto.
Qed.
Lemma loc_bytes_length ps : length (loc_bytes ps) = (4 * length ps)%nat.
Proof. induction ps; cbn; auto. unfold loc_bytes in *. cbn [flat_map]. rewrite app_length, i32_bytes_length, IHps. lia. Qed.

Lemma mstep_at M : ms_idx M = fidx -> mstep M = exec_op art mhost c consts M (ms_pc M + 1) (Z.to_N (byte_at c (ms_pc M))).
Proof. intros E. unfold step. rewrite E, Hcode. reflexivity. Qed.

(** ** machine semantics of the "generic" instructions (opcode, immediates, k sources, target) *)
Definition grow_result (M : mstate) (v : Z) : (Z -> Z) * mstate :=
  let n := as_u32 v in
  let sz := mlen M / 65536 in
  if sz + n >? max_memory then (fun old => set_short old (-1), M)
  else (fun old => set_short old sz,
        match ms_mem M with
        | Some mm => if n =? 0 then M else
                     set_mmem M {| mem_pages := Z.to_N (sz + n); mem_max := mem_max mm; mem_data := mem_data mm |}
        | None => M
        end).

Definition load_width (t : valtype) (pk : option (packsize * sx)) : nat :=
  match pk with None => type_bytes t | Some (p, _) => pack_bytes p end.
Definition load_conv (t : valtype) (pk : option (packsize * sx)) (raw : Z) : Z :=
  match t, pk with
  | T_i32, None => from_i32 raw
  | T_i64, None => from_i64 raw
  | T_i32, Some (P8, SX_S) => from_i32 (sext 8 raw)
  | T_i32, Some (P16, SX_S) => from_i32 (sext 16 raw)
  | T_i32, Some (_, _) => from_i32 raw
  | T_i64, Some (P8, SX_S) => from_i64 (sext 8 raw)
  | T_i64, Some (P16, SX_S) => from_i64 (sext 16 raw)
  | T_i64, Some (P32, SX_S) => from_i64 (sext 32 raw)
  | T_i64, Some (_, SX_U) => from_i64 raw
  end.
Definition load_result (t : valtype) (pk : option (packsize * sx)) (off : N) (base : Z) (M : mstate)
  : sum trap_reason ((Z -> Z) * mstate) :=
  let pos := as_u32 base + Z.of_N off in
  match ms_mem M with
  | Some mm => if pos + Z.of_nat (load_width t pk) <=? mlen M
               then inr (fun _ : Z => load_conv t pk (of_bytes (mem_read mm (Z.to_N pos) (load_width t pk))), M)
               else inl TMemory
  | None => inl TMemory
  end.
Definition load_valid (t : valtype) (pk : option (packsize * sx)) : bool :=
  match t, pk with T_i32, Some (P32, _) => false | _, _ => true end.

Definition gi_val (b : binstr) (srcs : list Z) (M : mstate) : option (sum trap_reason ((Z -> Z) * mstate)) :=
  match b, srcs with
  | BUnop T_i32 o, [s] => Some (inr (fun old => set_short old (rs_unop32 o s), M))
  | BUnop T_i64 o, [s] => Some (inr (fun old => set_long old (rs_unop64 o s), M))
  | BEqz T_i32, [s] => Some (inr (fun old => set_short old (rs_eqz32 s), M))
  | BEqz T_i64, [s] => Some (inr (fun old => set_short old (rs_eqz64 s), M))
  | BCvt WrapI64, [s] => Some (inr (fun old => set_short old (rs_cvt WrapI64 s), M))
  | BCvt ExtendI32S, [s] => Some (inr (fun old => set_long old (rs_cvt ExtendI32S s), M))
  | BCvt ExtendI32U, [s] => Some (inr (fun old => set_long old (rs_cvt ExtendI32U s), M))
  | BBinop T_i32 o, [r; l] =>
      Some (match rs_binop 32 o (as_i32 l) (as_i32 r) (as_u32 l) (as_u32 r) with
            | inr x => inr (fun old => set_short old x, M) | inl e => inl e end)
  | BBinop T_i64 o, [r; l] =>
      Some (match rs_binop 64 o (as_i64 l) (as_i64 r) (as_u64 l) (as_u64 r) with
            | inr x => inr (fun old => set_long old x, M) | inl e => inl e end)
  | BRelop T_i32 o, [r; l] =>
      Some (inr (fun old => set_short old (rs_relop o (as_i32 l) (as_i32 r) (as_u32 l) (as_u32 r)), M))
  | BRelop T_i64 o, [r; l] =>
      Some (inr (fun old => set_short old (rs_relop o (as_i64 l) (as_i64 r) (as_u64 l) (as_u64 r)), M))
  | BSelect, [top; t2; t1] => Some (inr (fun _ => if as_i32 top =? 0 then t2 else t1, M))
  | BGlobalGet i, [] => Some (inr (fun _ => nth i (ms_globals M) 0, M))
  | BMemorySize, [] => Some (inr (fun _ => from_i32 (mlen M / 65536), M))
  | BMemoryGrow, [v] => Some (inr (grow_result M v))
  | BLoad t pk off, [base] => Some (load_result t pk off base M)
  | _, _ => None
  end.

(** the instruction classes covered by the simulation theorem *)
Definition sim_gi (b : binstr) : bool :=
  match b with
  | BUnop T_i32 Extend32S => false
  | BBinop _ RemS => false          (* finding F3: rem_s(MIN,-1) *)
  | BGlobalGet i => Z.of_nat i <? 65536
  | BLoad t pk off => (off <? 4294967296)%N && load_valid t pk
  | BUnop _ _ | BEqz _ | BCvt _ | BBinop _ _ | BRelop _ _ | BSelect | BMemorySize | BMemoryGrow => true
  | _ => false
  end.

Lemma gi_fields pc0 opc imm ps d :
  code_at c pc0 (opc :: imm ++ loc_bytes ps ++ i32_bytes d) ->
  Forall (fun p => -2147483648 <= provider_idx p < 2147483648) ps -> -2147483648 <= d < 2147483648 ->
  byte_at c pc0 = Z.of_N opc /\ code_at c (pc0 + 1) imm
  /\ (forall j p, nth_error ps j = Some p -> get_i32 c (pc0 + 1 + Z.of_nat (length imm) + 4 * Z.of_nat j) = provider_idx p)
  /\ get_i32 c (pc0 + 1 + Z.of_nat (length imm) + 4 * Z.of_nat (length ps)) = d.
Proof.
  intros H F Hd. apply code_at_cons in H. destruct H as [H0 H]. apply code_at_app in H. destruct H as [H1 H].
  apply code_at_app in H. destruct H as [H2 H3]. rewrite loc_bytes_length in H3.
  repeat split; auto.
  - intros j p Hj. apply (code_at_locs ps); auto.
  - apply code_at_i32; auto. replace (pc0 + 1 + Z.of_nat (length imm) + 4 * Z.of_nat (length ps))
      with (pc0 + 1 + Z.of_nat (length imm) + Z.of_nat (4 * length ps)) by lia. exact H3.
Qed.

(** dispatch of [exec_op] on the opcodes of the generic instructions *)
Lemma exec_unop32 M pc o : o <> Extend32S ->
  exec_op art mhost c consts M pc (unop_opcode T_i32 o)
  = unary c consts M pc (fun src old => set_short old (rs_unop32 o src)).
Proof. intros H. destruct o; try contradiction; reflexivity. Qed.
Lemma exec_unop64 M pc o :
  exec_op art mhost c consts M pc (unop_opcode T_i64 o)
  = unary c consts M pc (fun src old => set_long old (rs_unop64 o src)).
Proof. destruct o; reflexivity. Qed.
Lemma exec_eqz32 M pc : exec_op art mhost c consts M pc (eqz_opcode T_i32)
  = unary c consts M pc (fun src old => set_short old (rs_eqz32 src)).
Proof. reflexivity. Qed.
Lemma exec_eqz64 M pc : exec_op art mhost c consts M pc (eqz_opcode T_i64)
  = unary c consts M pc (fun src old => set_short old (rs_eqz64 src)).
Proof. reflexivity. Qed.
Lemma exec_cvt M pc o : exec_op art mhost c consts M pc (cvt_opcode o)
  = unary c consts M pc (match o with
                         | WrapI64 => fun src old => set_short old (rs_cvt WrapI64 src)
                         | ExtendI32S => fun src old => set_long old (rs_cvt ExtendI32S src)
                         | ExtendI32U => fun src old => set_long old (rs_cvt ExtendI32U src)
                         end).
Proof. destruct o; reflexivity. Qed.
Lemma exec_binop32 M pc o : exec_op art mhost c consts M pc (binop_opcode T_i32 o)
  = binary c consts M pc (fun l r old =>
      match rs_binop 32 o (as_i32 l) (as_i32 r) (as_u32 l) (as_u32 r) with
      | inr x => inr (set_short old x) | inl e => inl e end).
Proof. destruct o; reflexivity. Qed.
Lemma exec_binop64 M pc o : exec_op art mhost c consts M pc (binop_opcode T_i64 o)
  = binary c consts M pc (fun l r old =>
      match rs_binop 64 o (as_i64 l) (as_i64 r) (as_u64 l) (as_u64 r) with
      | inr x => inr (set_long old x) | inl e => inl e end).
Proof. destruct o; reflexivity. Qed.
Lemma exec_relop32 M pc o : exec_op art mhost c consts M pc (relop_opcode T_i32 o)
  = binary c consts M pc (fun l r old =>
      inr (set_short old (rs_relop o (as_i32 l) (as_i32 r) (as_u32 l) (as_u32 r)))).
Proof. destruct o; reflexivity. Qed.
Lemma exec_relop64 M pc o : exec_op art mhost c consts M pc (relop_opcode T_i64 o)
  = binary c consts M pc (fun l r old =>
      inr (set_short old (rs_relop o (as_i64 l) (as_i64 r) (as_u64 l) (as_u64 r)))).
Proof. destruct o; reflexivity. Qed.

Lemma exec_load M pc t pk : load_valid t pk = true ->
  exec_op art mhost c consts M pc (load_opcode t pk) = do_load c consts M pc (load_width t pk) (load_conv t pk).
Proof. destruct t, pk as [[[] []]|]; try discriminate; reflexivity. Qed.

Definition idx_ok (x : Z) : Prop := -2147483648 <= x < 2147483648.

Lemma gi_machine b opc imm k ps d M :
  gi_shape b = Some (opc, imm, k, true) -> sim_gi b = true -> length ps = k ->
  ms_idx M = fidx -> code_at c (ms_pc M) (opc :: imm ++ loc_bytes ps ++ i32_bytes d) ->
  Forall (fun p => idx_ok (provider_idx p)) ps -> idx_ok d ->
  exists res, gi_val b (map (denote M) ps) M = Some res /\
    mstep M = match res with
              | inr (w, Mm) => SNext (set_pc (set_reg Mm d (w (reg Mm d)))
                                             (ms_pc M + 1 + Z.of_nat (length imm) + 4 * Z.of_nat k + 4))
              | inl e => STrap e
              end.
Proof.
  intros Hsh Hsim Hlen Hidx Hcode' Fps Hd.
  destruct (gi_fields _ _ _ _ _ Hcode' Fps Hd) as (Hop & Himm & Hsrc & Hdst).
  rewrite (mstep_at M Hidx), Hop, N2Z.id. subst k.
  destruct b; try discriminate Hsim; cbn [gi_shape] in Hsh; injection Hsh as Eo Ei Ek; subst opc imm;
    cbn [length Z.of_nat] in *; rewrite ?Z.add_0_r in *.
  - (* select *)
    destruct ps as [|p1 [|p2 [|p3 [|? ?]]]]; try discriminate.
    pose proof (Hsrc 0%nat p1 eq_refl) as E1. pose proof (Hsrc 1%nat p2 eq_refl) as E2. pose proof (Hsrc 2%nat p3 eq_refl) as E3.
    cbn [length Z.of_nat Pos.of_succ_nat Pos.succ] in *. rewrite ?Z.add_0_r, ?Z.mul_0_r in *.
    eexists; split; [reflexivity|]. cbn [map].
    change (exec_op art mhost c consts M (ms_pc M + 1) ISelect) with
      (let top := get_local consts M (get_i32 c (ms_pc M + 1)) in
       let t2 := get_local consts M (get_i32 c (ms_pc M + 1 + 4)) in
       let t1 := get_local consts M (get_i32 c (ms_pc M + 1 + 8)) in
       SNext (set_pc (set_reg M (get_i32 c (ms_pc M + 1 + 12)) (if as_i32 top =? 0 then t2 else t1)) (ms_pc M + 1 + 16))).
    cbv zeta. replace (ms_pc M + 1 + 4) with (ms_pc M + 1 + 4 * 1) by lia. replace (ms_pc M + 1 + 8) with (ms_pc M + 1 + 4 * 2) by lia.
    replace (ms_pc M + 1 + 12) with (ms_pc M + 1 + 4 * 3) by lia.
    rewrite E1, E2, E3, Hdst. unfold denote. do 2 f_equal; try lia.
  - (* global.get *)
    destruct ps; try discriminate. apply Z.ltb_lt in Hsim.
    rewrite u16_bytes_length in *. cbn [length Z.of_nat Pos.of_succ_nat Pos.succ] in *. rewrite ?Z.mul_0_r, ?Z.add_0_r in *.
    pose proof (code_at_u16 c (ms_pc M + 1) (Z.of_nat i) ltac:(lia) Himm) as Eg.
    eexists; split; [reflexivity|].
    change (exec_op art mhost c consts M (ms_pc M + 1) IGlobalGet) with
      (let g := nth (Z.to_nat (get_u16 c (ms_pc M + 1))) (ms_globals M) 0 in
       SNext (set_pc (set_reg M (get_i32 c (ms_pc M + 1 + 2)) g) (ms_pc M + 1 + 6))).
    cbv zeta. rewrite Eg, Hdst, Nat2Z.id. do 2 f_equal; try lia.
  - (* load *)
    destruct ps as [|p1 [|? ?]]; try discriminate.
    apply andb_true_iff in Hsim. destruct Hsim as [Hoff Hval]. apply N.ltb_lt in Hoff.
    rewrite u32_bytes_length in *. pose proof (Hsrc 0%nat p1 eq_refl) as E1.
    cbn [length Z.of_nat Pos.of_succ_nat Pos.succ] in *. rewrite ?Z.mul_0_r, ?Z.add_0_r in *.
    pose proof (code_at_u32 c (ms_pc M + 1) (Z.of_N offset) ltac:(lia) Himm) as Eo'.
    rewrite (exec_load M _ t pk Hval). unfold do_load. rewrite Eo', E1.
    replace (ms_pc M + 1 + 8) with (ms_pc M + 1 + 4 + 4 * 1) by lia. rewrite Hdst.
    eexists; split; [reflexivity|]. cbn [map]. unfold load_result, denote.
    destruct (ms_mem M); [|reflexivity].
    destruct (as_u32 (get_local consts M (provider_idx p1)) + Z.of_N offset + Z.of_nat (load_width t pk) <=? mlen M); [|reflexivity].
    do 2 f_equal; try lia.
  - (* memory.size *)
    destruct ps; try discriminate. cbn [length Z.of_nat] in *. rewrite ?Z.mul_0_r, ?Z.add_0_r in *.
    eexists; split; [reflexivity|].
    change (exec_op art mhost c consts M (ms_pc M + 1) IMemorySize) with
      (SNext (set_pc (set_reg M (get_i32 c (ms_pc M + 1)) (from_i32 (mlen M / 65536))) (ms_pc M + 1 + 4))).
    rewrite Hdst. do 2 f_equal; try lia.
  - (* memory.grow *)
    destruct ps as [|p1 [|? ?]]; try discriminate.
    pose proof (Hsrc 0%nat p1 eq_refl) as E1. cbn [length Z.of_nat Pos.of_succ_nat] in *. rewrite ?Z.mul_0_r, ?Z.add_0_r in *.
    eexists; split; [reflexivity|]. cbn [map]. unfold grow_result.
    change (exec_op art mhost c consts M (ms_pc M + 1) IMemoryGrow) with
      (let v := get_local consts M (get_i32 c (ms_pc M + 1)) in
       let t := get_i32 c (ms_pc M + 1 + 4) in
       let n := as_u32 v in
       let sz := mlen M / 65536 in
       if sz + n >? max_memory then SNext (set_pc (set_reg M t (set_short (reg M t) (-1))) (ms_pc M + 1 + 8))
       else
         let st1 := match ms_mem M with
                    | Some mm => if n =? 0 then M else
                                 set_mmem M {| mem_pages := Z.to_N (sz + n); mem_max := mem_max mm; mem_data := mem_data mm |}
                    | None => M
                    end in
         SNext (set_pc (set_reg st1 t (set_short (reg M t) sz)) (ms_pc M + 1 + 8))).
    cbv zeta. replace (ms_pc M + 1 + 4) with (ms_pc M + 1 + 4 * 1) by lia. rewrite E1, Hdst. unfold denote.
    destruct (mlen M / 65536 + as_u32 (get_local consts M (provider_idx p1)) >? max_memory).
    + do 2 f_equal; try lia.
    + destruct (ms_mem M); [destruct (as_u32 (get_local consts M (provider_idx p1)) =? 0)|]; do 2 f_equal; try lia.
  - (* unop *)
    destruct ps as [|p1 [|? ?]]; try discriminate.
    pose proof (Hsrc 0%nat p1 eq_refl) as E1. cbn [length Z.of_nat Pos.of_succ_nat] in *. rewrite ?Z.mul_0_r, ?Z.add_0_r in *.
    replace (ms_pc M + 1 + 4 * 1) with (ms_pc M + 1 + 4) in Hdst by lia.
    destruct t.
    + assert (Ho : op <> Extend32S) by (intro; subst; discriminate).
      rewrite (exec_unop32 M _ op Ho). unfold unary. rewrite E1, Hdst.
      eexists; split; [reflexivity|]. unfold denote. do 2 f_equal; try lia.
    + rewrite (exec_unop64 M _ op). unfold unary. rewrite E1, Hdst.
      eexists; split; [reflexivity|]. unfold denote. do 2 f_equal; try lia.
  - (* binop *)
    destruct ps as [|p1 [|p2 [|? ?]]]; try discriminate.
    pose proof (Hsrc 0%nat p1 eq_refl) as E1. pose proof (Hsrc 1%nat p2 eq_refl) as E2.
    cbn [length Z.of_nat Pos.of_succ_nat Pos.succ] in *. rewrite ?Z.mul_0_r, ?Z.add_0_r in *.
    replace (ms_pc M + 1 + 4 * 1) with (ms_pc M + 1 + 4) in E2 by lia.
    replace (ms_pc M + 1 + 4 * 2) with (ms_pc M + 1 + 8) in Hdst by lia.
    destruct t.
    + rewrite (exec_binop32 M _ op). unfold binary. rewrite E1, E2, Hdst. cbn [map]. unfold denote.
      eexists; split; [reflexivity|].
      destruct (rs_binop 32 op _ _ _ _); [reflexivity|]. do 2 f_equal; try lia.
    + rewrite (exec_binop64 M _ op). unfold binary. rewrite E1, E2, Hdst. cbn [map]. unfold denote.
      eexists; split; [reflexivity|].
      destruct (rs_binop 64 op _ _ _ _); [reflexivity|]. do 2 f_equal; try lia.
  - (* eqz *)
    destruct ps as [|p1 [|? ?]]; try discriminate.
    pose proof (Hsrc 0%nat p1 eq_refl) as E1. cbn [length Z.of_nat Pos.of_succ_nat] in *. rewrite ?Z.mul_0_r, ?Z.add_0_r in *.
    replace (ms_pc M + 1 + 4 * 1) with (ms_pc M + 1 + 4) in Hdst by lia.
    destruct t; [rewrite exec_eqz32|rewrite exec_eqz64]; unfold unary; rewrite E1, Hdst;
      (eexists; split; [reflexivity|]); cbv beta iota; unfold denote; do 2 f_equal; try lia.
  - (* relop *)
    destruct ps as [|p1 [|p2 [|? ?]]]; try discriminate.
    pose proof (Hsrc 0%nat p1 eq_refl) as E1. pose proof (Hsrc 1%nat p2 eq_refl) as E2.
    cbn [length Z.of_nat Pos.of_succ_nat Pos.succ] in *. rewrite ?Z.mul_0_r, ?Z.add_0_r in *.
    replace (ms_pc M + 1 + 4 * 1) with (ms_pc M + 1 + 4) in E2 by lia.
    replace (ms_pc M + 1 + 4 * 2) with (ms_pc M + 1 + 8) in Hdst by lia.
    destruct t; [rewrite exec_relop32|rewrite exec_relop64]; unfold binary; rewrite E1, E2, Hdst; cbn [map]; unfold denote;
      (eexists; split; [reflexivity|]); cbv beta iota; do 2 f_equal; try lia.
  - (* cvt *)
    destruct ps as [|p1 [|? ?]]; try discriminate.
    pose proof (Hsrc 0%nat p1 eq_refl) as E1. cbn [length Z.of_nat Pos.of_succ_nat] in *. rewrite ?Z.mul_0_r, ?Z.add_0_r in *.
    replace (ms_pc M + 1 + 4 * 1) with (ms_pc M + 1 + 4) in Hdst by lia.
    rewrite exec_cvt. unfold unary. rewrite E1, Hdst.
    destruct op; (eexists; split; [reflexivity|]); cbv beta iota; unfold denote; do 2 f_equal; try lia.
Qed.

(** ** the machine operators only look at the part of a register the value type uses *)
Lemma low32_idem r : low32 (low32 r) = low32 r.
Proof. unfold low32, two32. apply Z.mod_mod. lia. Qed.
Lemma as_u64_idem r : as_u64 (as_u64 r) = as_u64 r.
Proof. unfold as_u64, two64. apply Z.mod_mod. lia. Qed.
Lemma range32_low r : IntNProofs.in_range 32 (low32 r).
Proof. unfold IntNProofs.in_range. change (modulus 32) with 4294967296. apply low32_range. Qed.
Lemma range64_u64 r : IntNProofs.in_range 64 (as_u64 r).
Proof. unfold IntNProofs.in_range. change (modulus 64) with 18446744073709551616. apply as_u64_range. Qed.
Lemma as_i32_repr r : as_i32 r = signed 32 (low32 r).
Proof. rewrite as_i32_low. apply as_i32_signed. apply range32_low. Qed.
Lemma as_i64_repr r : as_i64 r = signed 64 (as_u64 r).
Proof. rewrite as_i64_low. apply as_i64_signed. apply range64_u64. Qed.
Lemma as_i32_eqb0 r : (as_i32 r =? 0) = (low32 r =? 0).
Proof.
  rewrite as_i32_repr. pose proof (signed_eq0 32 (low32 r) ltac:(lia) (range32_low r)) as E.
  destruct (Z.eqb_spec (signed 32 (low32 r)) 0), (Z.eqb_spec (low32 r) 0); tauto.
Qed.
Lemma rs_unop32_low o s : rs_unop32 o s = rs_unop32 o (low32 s).
Proof.
  assert (A : as_i32 (low32 s) = as_i32 s) by (symmetry; apply as_i32_low).
  assert (B : as_u32 (low32 s) = as_u32 s) by (unfold as_u32; apply low32_idem).
  destruct o; cbn [rs_unop32]; rewrite ?A, ?B; reflexivity.
Qed.
Lemma rs_unop64_low o s : rs_unop64 o s = rs_unop64 o (as_u64 s).
Proof.
  assert (A : as_i64 (as_u64 s) = as_i64 s) by (symmetry; apply as_i64_low).
  assert (B : as_u64 (as_u64 s) = as_u64 s) by apply as_u64_idem.
  destruct o; cbn [rs_unop64]; rewrite ?A, ?B; reflexivity.
Qed.

Definition mupd (M Mm : mstate) : Prop :=
  ms_pc Mm = ms_pc M /\ ms_idx Mm = ms_idx M /\ ms_frames Mm = ms_frames M /\ ms_ret Mm = ms_ret M
  /\ ms_regs Mm = ms_regs M /\ ms_base Mm = ms_base M /\ ms_globals Mm = ms_globals M /\ ms_energy Mm = ms_energy M.
Lemma mupd_refl M : mupd M M. Proof. repeat split. Qed.

Lemma repr_short old x z : x mod 4294967296 = z -> repr (set_short old x) (VI32 z).
Proof. intros <-. cbn. apply low32_set_short. Qed.
Lemma repr_long old x z : x mod 18446744073709551616 = z -> repr (set_long old x) (VI64 z).
Proof. intros <-. cbn. apply as_u64_set_long. Qed.


(** ** memory loads: the machine and the specification read the same bytes and convert alike *)
Lemma mem_get_ext a b x : mem_data a = mem_data b -> mem_get a x = mem_get b x.
Proof. intros E. unfold mem_get. rewrite E. reflexivity. Qed.
Lemma mem_read_ext a b : mem_data a = mem_data b -> forall k x, mem_read a x k = mem_read b x k.
Proof. intros E k. induction k; intros x; cbn; auto. rewrite IHk, (mem_get_ext a b x E). reflexivity. Qed.
Lemma mem_read_range mm : (forall a, 0 <= mem_get mm a < 256) -> forall k x, Forall (fun b => 0 <= b < 256) (mem_read mm x k).
Proof. intros H k. induction k; intros x; cbn; constructor; auto. Qed.
Lemma of_bytes_range bs : Forall (fun b => 0 <= b < 256) bs -> 0 <= of_bytes bs < 256 ^ Z.of_nat (length bs).
Proof.
  induction 1 as [|b r Hb Hr IH]; cbn [of_bytes length]; [cbn; lia|].
  rewrite Nat2Z.inj_succ, Z.pow_succ_r by lia. lia.
Qed.
Lemma mem_read_length mm : forall k x, length (mem_read mm x k) = k.
Proof. induction k; intros; cbn; auto. Qed.

Lemma load_conv_agree t pk raw :
  load_valid t pk = true -> 0 <= raw < 256 ^ Z.of_nat (load_width t pk) ->
  repr (load_conv t pk raw)
       (mkval t (match pk with
                 | None => raw
                 | Some (p, SX_U) => iextend_u (8 * Z.of_nat (pack_bytes p)) (bits t) raw
                 | Some (p, SX_S) => iextend_s (8 * Z.of_nat (pack_bytes p)) (bits t) raw
                 end)).
Proof.
  intros Hv Hr.
  assert (S8 : forall x, 0 <= x < 256 -> sext 8 x = signed 8 x) by (intros x Hx; rewrite sext_signed, Z.mod_small by (change (2 ^ 8) with 256; lia); reflexivity).
  assert (S16 : forall x, 0 <= x < 65536 -> sext 16 x = signed 16 x) by (intros x Hx; rewrite sext_signed, Z.mod_small by (change (2 ^ 16) with 65536; lia); reflexivity).
  assert (S32 : forall x, 0 <= x < 4294967296 -> sext 32 x = signed 32 x) by (intros x Hx; rewrite sext_signed, Z.mod_small by (change (2 ^ 32) with 4294967296; lia); reflexivity).
  destruct t, pk as [[[] []]|]; try discriminate Hv; cbn [load_width load_conv type_bytes pack_bytes mkval repr bits Z.of_nat Pos.of_succ_nat Pos.succ Z.mul] in *;
    unfold iextend_u, iextend_s, unsigned, wrap, modulus, from_i32, from_i64, low32, as_u64, two32, two64;
    rewrite ?Z.mod_mod by lia.
  all: try (change (256 ^ 1) with 256 in Hr); try (change (256 ^ 2) with 65536 in Hr);
       try (change (256 ^ 4) with 4294967296 in Hr); try (change (256 ^ 8) with 18446744073709551616 in Hr).
  all: try (apply Z.mod_small; lia).
  all: try (rewrite S8 by lia; reflexivity); try (rewrite S16 by lia; reflexivity); try (rewrite S32 by lia; reflexivity).
Qed.

Definition gi_post (M : mstate) (res : sum trap_reason ((Z -> Z) * mstate)) (st' : store) (v' : val) : Prop :=
  exists w Mm, res = inr (w, Mm) /\ (forall old, repr (w old) v')
               /\ mupd M Mm /\ Forall2 repr (ms_globals Mm) (s_globals st') /\ mem_rel (ms_mem Mm) (s_mem st').

Lemma gi_sem b srcs M res st locals tops vs :
  sim_gi b = true -> gi_val b srcs M = Some res -> Forall2 repr srcs tops ->
  Forall2 repr (ms_globals M) (s_globals st) -> mem_rel (ms_mem M) (s_mem st) ->
  match exec_simple cap b st locals (tops ++ vs) with
  | inr (st', l', vs') => exists v', l' = locals /\ vs' = v' :: vs /\ gi_post M res st' v'
  | inl true => exists e, res = inl e
  | inl false => True
  end.
Proof.
  intros Hsim Hv Hrep Hg Hm.
  assert (POST : forall w v', (forall old, repr (w old) v') -> gi_post M (inr (w, M)) st v').
  { intros w v' Hw. exists w, M. repeat split; auto. }
  destruct b; try discriminate Hsim; cbn [gi_val] in Hv.
  - (* select *)
    destruct srcs as [|top [|t2 [|t1 [|? ?]]]]; try discriminate. inversion Hv; subst; clear Hv.
    inversion Hrep as [|? vc ? ? Rc Hr1]; subst. inversion Hr1 as [|? v2 ? ? R2 Hr2]; subst.
    inversion Hr2 as [|? v1 ? ? R1 Hr3]; subst. inversion Hr3; subst. cbn [app].
    destruct vc as [cz|cz]; cbn [exec_simple]; [|exact I].
    destruct (valtype_eqb (type_of_val v1) (type_of_val v2)); [|exact I]. cbn [ok].
    eexists; split; [reflexivity|split; [reflexivity|]]. apply POST. intros _.
    rewrite as_i32_eqb0. cbn in Rc. rewrite Rc. destruct (cz =? 0); assumption.
  - (* global.get *)
    destruct srcs; try discriminate. inversion Hv; subst; clear Hv. inversion Hrep; subst. cbn [app exec_simple].
    unfold nth_opt. destruct (nth_error (s_globals st) i) as [v|] eqn:E; [|exact I]. cbn [ok].
    eexists; split; [reflexivity|split; [reflexivity|]]. apply POST. intros _.
    clear - Hg E. revert i E. induction Hg; intros [|i] E; cbn in *; try discriminate.
    + inversion E; subst. assumption.
    + apply IHHg. exact E.
  - (* load *)
    destruct srcs as [|base [|? ?]]; try discriminate. inversion Hv; subst; clear Hv.
    inversion Hrep as [|? v ? ? R1 Hr1]; subst. inversion Hr1; subst. cbn [app].
    apply andb_true_iff in Hsim. destruct Hsim as [Hoff Hval].
    destruct v as [i|i]; cbn [exec_simple]; [|exact I].
    destruct (s_mem st) as [sm|] eqn:Es; [|exact I].
    unfold mem_rel in Hm. destruct (ms_mem M) as [mm|] eqn:Em; [|contradiction]. destruct Hm as (Hp & Hd & Hl & Hb & Hby).
    cbn in R1. assert (Hi : 0 <= i < 4294967296) by (rewrite <- R1; apply low32_range).
    unfold load_result. rewrite Em. unfold as_u32. rewrite R1.
    set (w := load_width t pk).
    assert (Ew : match pk with None => type_bytes t | Some (p, _) => pack_bytes p end = w) by reflexivity.
    assert (Eml : mlen M = Z.of_N (mem_len sm)) by (unfold mlen; rewrite Em; unfold mem_len; rewrite Hp; reflexivity).
    assert (Eb : (i + Z.of_N offset + Z.of_nat w <=? mlen M) = in_bounds sm (Z.to_N i + offset) w).
    { unfold in_bounds. rewrite Eml.
      destruct (Z.leb_spec (i + Z.of_N offset + Z.of_nat w) (Z.of_N (mem_len sm))), (N.leb_spec (Z.to_N i + offset + N.of_nat w) (mem_len sm)); auto; lia. }
    assert (Eraw : of_bytes (mem_read mm (Z.to_N (i + Z.of_N offset)) w) = of_bytes (mem_read sm (Z.to_N i + offset) w)).
    { rewrite (mem_read_ext mm sm Hd). f_equal. f_equal. lia. }
    assert (Rraw : 0 <= of_bytes (mem_read sm (Z.to_N i + offset) w) < 256 ^ Z.of_nat w).
    { rewrite <- (mem_read_length sm w (Z.to_N i + offset)) at 3. apply of_bytes_range. apply mem_read_range. exact Hby. }
    rewrite Eb, Eraw.
    assert (SEM : forall k, k = w -> mem_load sm (Z.to_N i + offset) k =
                  if in_bounds sm (Z.to_N i + offset) w then Some (of_bytes (mem_read sm (Z.to_N i + offset) w)) else None).
    { intros k ->. reflexivity. }
    pose proof (load_conv_agree t pk _ Hval Rraw) as CA.
    destruct pk as [[p sg]|]; rewrite (SEM _ Ew); destruct (in_bounds sm (Z.to_N i + offset) w).
    + cbn [ok]. eexists; split; [reflexivity|split; [reflexivity|]].
      exists (fun _ : Z => load_conv t (Some (p, sg)) (of_bytes (mem_read sm (Z.to_N i + offset) w))), M.
      split; [reflexivity|]. split; [intros _; destruct sg; exact CA|]. split; [apply mupd_refl|]. split; [exact Hg|].
      rewrite Em, Es. cbn. auto.
    + eexists; reflexivity.
    + cbn [ok]. eexists; split; [reflexivity|split; [reflexivity|]].
      exists (fun _ : Z => load_conv t None (of_bytes (mem_read sm (Z.to_N i + offset) w))), M.
      split; [reflexivity|]. split; [intros _; exact CA|]. split; [apply mupd_refl|]. split; [exact Hg|].
      rewrite Em, Es. cbn. auto.
    + eexists; reflexivity.
  - (* memory.size *)
    destruct srcs; try discriminate. inversion Hv; subst; clear Hv. inversion Hrep; subst. cbn [app exec_simple].
    destruct (s_mem st) as [sm|] eqn:Es; [|exact I]. cbn [ok].
    eexists; split; [reflexivity|split; [reflexivity|]]. apply POST. intros _.
    unfold mem_rel in Hm. destruct (ms_mem M) as [mm|] eqn:Em; [|contradiction]. destruct Hm as (Hp & Hd & Hl & Hb & Hby).
    cbn. unfold mlen. rewrite Em. unfold mem_len, page_size. rewrite Hp. unfold from_i32, low32, two32.
    rewrite N2Z.inj_mul. change (Z.of_N 65536) with 65536. rewrite Z.div_mul by lia. rewrite Z.mod_mod by lia.
    apply Z.mod_small. lia.
  - (* memory.grow *)
    destruct srcs as [|s1 [|? ?]]; try discriminate. inversion Hv; subst; clear Hv.
    inversion Hrep as [|? v ? ? R1 Hr1]; subst. inversion Hr1; subst. cbn [app].
    destruct v as [n|n]; cbn [exec_simple]; [|exact I].
    destruct (s_mem st) as [sm|] eqn:Es; [|exact I].
    unfold mem_rel in Hm. destruct (ms_mem M) as [mm|] eqn:Em; [|contradiction]. destruct Hm as (Hp & Hd & Hl & Hb & Hby).
    cbn in R1. assert (Hn : 0 <= n < 4294967296) by (rewrite <- R1; apply low32_range).
    unfold mem_grow, grow_result. unfold as_u32. rewrite R1.
    assert (Esz : mlen M / 65536 = Z.of_N (mem_pages sm)).
    { unfold mlen. rewrite Em. unfold mem_len, page_size. rewrite Hp, N2Z.inj_mul. change (Z.of_N 65536) with 65536.
      apply Z.div_mul. lia. }
    rewrite Esz. rewrite <- Hl.
    destruct (N.leb_spec (mem_pages sm + Z.to_N n) (grow_limit cap sm)) as [Hle|Hgt].
    + destruct (Z.gtb_spec (Z.of_N (mem_pages sm) + n) (Z.of_N (grow_limit cap sm))) as [G|G]; [lia|].
      cbn [ok]. eexists; split; [reflexivity|split; [reflexivity|]].
      eexists _, _. split; [reflexivity|]. split.
      * intros old. apply repr_short. apply Z.mod_small.
        assert (grow_limit cap sm <= 65536)%N by (unfold grow_limit; lia). lia.
      * rewrite Em. assert (L : (grow_limit cap sm <= 65536)%N) by (unfold grow_limit; lia).
        destruct (Z.eqb_spec n 0) as [->|Hn0].
        -- split; [apply mupd_refl|]. split; [exact Hg|]. unfold with_mem, set_mem; cbn [s_mem]. rewrite Em.
           cbn. rewrite N.add_0_r. repeat split; auto; try (apply (proj1 (Hby _))); try (apply (proj2 (Hby _))).
        -- split; [repeat split|]. split; [exact Hg|]. unfold with_mem, set_mem; cbn [s_mem ms_mem set_mmem].
           repeat split; cbn; auto; try lia; try (apply (proj1 (Hby _))); try (apply (proj2 (Hby _))).
    + destruct (Z.gtb_spec (Z.of_N (mem_pages sm) + n) (Z.of_N (grow_limit cap sm))) as [G|G]; [|lia].
      cbn [ok]. eexists; split; [reflexivity|split; [reflexivity|]].
      eexists _, M. split; [reflexivity|]. split; [intros old; apply repr_short; reflexivity|].
      split; [apply mupd_refl|]. split; [exact Hg|]. unfold with_mem, set_mem; cbn [s_mem]. rewrite Em. repeat split; auto; try (apply (proj1 (Hby _))); try (apply (proj2 (Hby _))).
  - (* unop *)
    destruct srcs as [|s1 [|? ?]]; try (destruct t; discriminate).
    inversion Hrep as [|? v ? ? R1 Hr1]; subst. inversion Hr1; subst. cbn [app exec_simple].
    destruct t, v as [z|z]; cbn [payload]; try exact I; inversion Hv; subst; clear Hv; cbn in R1.
    + assert (Ho : op <> Extend32S) by (intro; subst; discriminate).
      rewrite (rs_unop32_agrees op z); [|rewrite <- R1; apply range32_low|exact Ho]. cbn [ok mkval].
      eexists; split; [reflexivity|split; [reflexivity|]]. apply POST. intros old. apply repr_short.
      rewrite rs_unop32_low, R1. reflexivity.
    + rewrite (rs_unop64_agrees op z); [|rewrite <- R1; apply range64_u64]. cbn [ok mkval].
      eexists; split; [reflexivity|split; [reflexivity|]]. apply POST. intros old. apply repr_long.
      rewrite rs_unop64_low, R1. reflexivity.
  - (* binop *)
    destruct srcs as [|r [|l [|? ?]]]; try (destruct t; discriminate).
    inversion Hrep as [|? v2 ? ? R2 Hr1]; subst. inversion Hr1 as [|? v1 ? ? R1 Hr2]; subst. inversion Hr2; subst.
    cbn [app exec_simple].
    assert (Hop : op <> RemS) by (intro; subst; destruct t; discriminate).
    destruct t, v1 as [x|x], v2 as [y|y]; cbn [payload]; try exact I; inversion Hv; subst; clear Hv; cbn in R1, R2.
    + pose proof (rs_binop_agrees_all T_i32 op x y ltac:(rewrite <- R1; apply range32_low)
                    ltac:(rewrite <- R2; apply range32_low) ltac:(intros; contradiction)) as A.
      cbn [bits] in A. rewrite !as_i32_repr. unfold as_u32. rewrite R1, R2.
      destruct (rs_binop 32 op (signed 32 x) (signed 32 y) x y) as [e|q]; rewrite A.
      * eexists; reflexivity.
      * cbn [ok mkval]. eexists; split; [reflexivity|split; [reflexivity|]]. apply POST. intros old.
        apply repr_short. reflexivity.
    + pose proof (rs_binop_agrees_all T_i64 op x y ltac:(rewrite <- R1; apply range64_u64)
                    ltac:(rewrite <- R2; apply range64_u64) ltac:(intros; contradiction)) as A.
      cbn [bits] in A. rewrite !as_i64_repr. rewrite R1, R2.
      destruct (rs_binop 64 op (signed 64 x) (signed 64 y) x y) as [e|q]; rewrite A.
      * eexists; reflexivity.
      * cbn [ok mkval]. eexists; split; [reflexivity|split; [reflexivity|]]. apply POST. intros old.
        apply repr_long. reflexivity.
  - (* eqz *)
    destruct srcs as [|s1 [|? ?]]; try (destruct t; discriminate).
    inversion Hrep as [|? v ? ? R1 Hr1]; subst. inversion Hr1; subst. cbn [app exec_simple].
    destruct t, v as [z|z]; cbn [payload]; try exact I; inversion Hv; subst; clear Hv; cbn in R1; cbn [ok].
    + eexists; split; [reflexivity|split; [reflexivity|]]. apply POST. intros old. apply repr_short.
      destruct (rs_eqz_agrees z) as [E _]. cbn [bits]. rewrite <- E by (rewrite <- R1; apply range32_low).
      assert (L : rs_eqz32 s1 = rs_eqz32 z) by (unfold rs_eqz32; rewrite (as_i32_low s1), R1; reflexivity).
      rewrite L. unfold rs_eqz32. destruct (as_i32 z =? 0); reflexivity.
    + eexists; split; [reflexivity|split; [reflexivity|]]. apply POST. intros old. apply repr_short.
      destruct (rs_eqz_agrees z) as [_ E]. cbn [bits]. rewrite <- E by (rewrite <- R1; apply range64_u64).
      assert (L : rs_eqz64 s1 = rs_eqz64 z) by (unfold rs_eqz64; rewrite (as_i64_low s1), R1; reflexivity).
      rewrite L. unfold rs_eqz64. destruct (as_i64 z =? 0); reflexivity.
  - (* relop *)
    destruct srcs as [|r [|l [|? ?]]]; try (destruct t; discriminate).
    inversion Hrep as [|? v2 ? ? R2 Hr1]; subst. inversion Hr1 as [|? v1 ? ? R1 Hr2]; subst. inversion Hr2; subst.
    cbn [app exec_simple].
    destruct t, v1 as [x|x], v2 as [y|y]; cbn [payload]; try exact I; inversion Hv; subst; clear Hv; cbn in R1, R2; cbn [ok].
    + eexists; split; [reflexivity|split; [reflexivity|]]. apply POST. intros old. apply repr_short.
      rewrite !as_i32_repr. unfold as_u32. rewrite R1, R2.
      pose proof (rs_relop_all T_i32 op x y ltac:(rewrite <- R1; apply range32_low) ltac:(rewrite <- R2; apply range32_low)) as A.
      cbn [bits] in A. rewrite A.
      apply Z.mod_small. unfold app_relop, ieq, ine, ilt_s, ilt_u, igt_s, igt_u, ile_s, ile_u, ige_s, ige_u, bool_to_Z.
      destruct op; match goal with |- context [if ?b then _ else _] => destruct b end; lia.
    + eexists; split; [reflexivity|split; [reflexivity|]]. apply POST. intros old. apply repr_short.
      rewrite !as_i64_repr. rewrite R1, R2.
      pose proof (rs_relop_all T_i64 op x y ltac:(rewrite <- R1; apply range64_u64) ltac:(rewrite <- R2; apply range64_u64)) as A.
      cbn [bits] in A. rewrite A.
      apply Z.mod_small. unfold app_relop, ieq, ine, ilt_s, ilt_u, igt_s, igt_u, ile_s, ile_u, ige_s, ige_u, bool_to_Z.
      destruct op; match goal with |- context [if ?b then _ else _] => destruct b end; lia.
  - (* cvt *)
    destruct srcs as [|s1 [|? ?]]; try (destruct op; discriminate).
    inversion Hrep as [|? v ? ? R1 Hr1]; subst. inversion Hr1; subst. cbn [app].
    destruct (rs_cvt_agrees (match v with VI32 z | VI64 z => z end)) as (C1 & C2 & C3).
    destruct op, v as [z|z]; cbn [exec_simple]; try exact I; inversion Hv; subst; clear Hv; cbn in R1; cbn [ok].
    + eexists; split; [reflexivity|split; [reflexivity|]]. apply POST. intros old. apply repr_short.
      rewrite <- C1 by (rewrite <- R1; apply range64_u64). cbn [rs_cvt]. rewrite as_i64_low, R1. reflexivity.
    + eexists; split; [reflexivity|split; [reflexivity|]]. apply POST. intros old. apply repr_long.
      rewrite <- C2 by (rewrite <- R1; apply range32_low). cbn [rs_cvt]. rewrite as_i32_low, R1. reflexivity.
    + eexists; split; [reflexivity|split; [reflexivity|]]. apply POST. intros old. apply repr_long.
      rewrite <- C3 by (rewrite <- R1; apply range32_low). cbn [rs_cvt]. unfold as_u32. rewrite R1.
      rewrite <- R1. unfold as_u32. rewrite low32_idem. reflexivity.
Qed.

(** ** compile side of the generic instructions *)
Lemma emit_imm_out s imm : c_out (emit_imm s imm) = c_out s ++ imm /\ same_alloc s (emit_imm s imm)
  /\ c_bp (emit_imm s imm) = c_bp s /\ c_last (emit_imm s imm) = c_last s.
Proof. destruct imm; cbn; rewrite ?app_nil_r; repeat split; auto. Qed.

Lemma gi_compile s opc imm k prov s1 :
  cwf nl s -> gi (set_last s None) opc imm k prov = Some s1 ->
  exists ps rest, c_stack s = ps ++ rest /\ length ps = k /\ Forall (pwf nl s) ps
  /\ c_consts s1 = c_consts s /\ c_bp s1 = c_bp s /\ cwf nl s1 /\ c_next s <= c_next s1 <= c_next s + 1
  /\ if prov then
       exists r, c_stack s1 = PDyn r :: rest /\ nl <= r < c_next s1 /\ ~ In (PDyn r) rest
                 /\ c_out s1 = c_out s ++ opc :: imm ++ loc_bytes ps ++ i32_bytes r
                 /\ c_last s1 = Some (cur_off s + 1 + Z.of_nat (length imm) + 4 * Z.of_nat k)
     else c_stack s1 = rest /\ c_out s1 = c_out s ++ opc :: imm ++ loc_bytes ps /\ c_last s1 = None.
Proof.
  intros W H. unfold gi in H.
  destruct (emit_imm_out (push_op (set_last s None) opc) imm) as (Eo & Sa & Eb & El).
  assert (W0 : cwf nl (emit_imm (push_op (set_last s None) opc) imm)).
  { eapply cwf_same; [|exact W]. eapply same_alloc_trans; [|exact Sa]. repeat split. }
  destruct (push_consume_n k (emit_imm (push_op (set_last s None) opc) imm)) as [s2|] eqn:E; [|discriminate].
  destruct (push_consume_n_spec nl k _ _ E W0) as (ps & Es & Lps & Eo2 & Eb2 & El2 & En2 & Ec2 & W2 & Fp).
  destruct Sa as (Sa1 & Sa2 & Sa3 & Sa4). cbn [c_stack c_next c_reuse c_consts push_op emit set_out set_last] in Sa1, Sa2, Sa3, Sa4.
  exists ps, (c_stack s2). rewrite Sa1 in Es.
  assert (Fp' : Forall (pwf nl s) ps).
  { eapply Forall_impl; [|exact Fp]. intros q Hq. eapply pwf_ext; [| | |exact Hq]; auto. }
  cbn [c_out push_op emit set_out set_last] in Eo. cbn [c_bp c_last push_op emit set_out set_last] in Eb, El.
  destruct prov; inversion H; subst; clear H.
  - destruct (push_provide_spec nl s2 W2) as (r & Ps & Po & Pl & Pb & Pc & Pn & Pr & Pnin & Pw).
    splits; auto; try congruence; try lia.
    exists r. splits; auto; try lia.
    + rewrite Po, Eo2, Eo. rewrite <- !app_assoc. reflexivity.
    + rewrite Pl. unfold cur_off. rewrite Eo2, Eo. rewrite !app_length, loc_bytes_length. cbn [length]. f_equal. lia.
  - splits; auto; try congruence; try lia.
    all: try (rewrite Eo2, Eo; rewrite <- !app_assoc; reflexivity).
    all: try (rewrite El2, El; reflexivity).
Qed.

(** ** writing a register that no provider refers to *)
Lemma get_local_mupd M Mm i : mupd M Mm -> get_local consts Mm i = get_local consts M i.
Proof. intros (_ & _ & _ & _ & Er & Eb & _). unfold get_local, reg. rewrite Er, Eb. reflexivity. Qed.

Lemma denote_write M Mm d x pc q :
  mupd M Mm -> 0 <= d -> (ms_base M + Z.to_nat d < length (ms_regs M))%nat -> provider_idx q <> d ->
  denote (set_pc (set_reg Mm d x) pc) q = denote M q.
Proof.
  intros U H0 Hl Hne. unfold denote. rewrite get_local_set_pc.
  destruct U as (U1 & U2 & U3 & U4 & Er & Eb & U5). rewrite get_local_set_reg by (rewrite ?Er, ?Eb; auto).
  destruct (Z.eqb_spec (provider_idx q) d); [contradiction|]. apply get_local_mupd. repeat split; auto; tauto.
Qed.
Lemma denote_write_same M Mm d x pc :
  mupd M Mm -> 0 <= d -> (ms_base M + Z.to_nat d < length (ms_regs M))%nat ->
  get_local consts (set_pc (set_reg Mm d x) pc) d = x.
Proof.
  intros U H0 Hl. rewrite get_local_set_pc. destruct U as (U1 & U2 & U3 & U4 & Er & Eb & U5).
  rewrite get_local_set_reg by (rewrite ?Er, ?Eb; auto). rewrite Z.eqb_refl. reflexivity.
Qed.

Lemma pwf_idx_ne_dyn s q r : 0 <= nl -> pwf nl s q -> nl <= r -> q <> PDyn r -> provider_idx q <> r.
Proof.
  intros Hnl H Hr Hne E. destruct q as [r'|i|k]; cbn in *.
  - subst. apply Hne; reflexivity.
  - lia.
  - destruct H. lia.
Qed.

Lemma Forall2_app_inv_l' {A B} (R : A -> B -> Prop) l1 l2 l :
  Forall2 R (l1 ++ l2) l -> exists a b, l = a ++ b /\ Forall2 R l1 a /\ Forall2 R l2 b.
Proof. intros H. apply Forall2_app_inv_l in H. destruct H as (a & b & H1 & H2 & E). exists a, b. auto. Qed.

Lemma frame_eq_write M Mm d x pc : mupd M Mm -> frame_eq M (set_pc (set_reg Mm d x) pc).
Proof.
  intros (U1 & U2 & U3 & U4 & Er & Eb & U5 & U6). unfold frame_eq. cbn. rewrite list_set_length, Er. repeat split; auto.
Qed.

Definition sim_result (M : mstate) (s1 : cstate) (r : step_result) : Prop :=
  match r with
  | inr (st', l', vs') => cwf nl s1 /\ exists n M', nsteps n M = SNext M' /\ rel s1 st' l' vs' M' /\ frame_eq M M'
  | inl true => exists n e, nsteps n M = STrap e
  | inl false => True
  end.

Lemma Forall2_map_l {A B C} (f : A -> B) (R : B -> C -> Prop) l l' :
  Forall2 (fun a c => R (f a) c) l l' -> Forall2 R (map f l) l'.
Proof. induction 1; cbn; constructor; auto. Qed.
Lemma Forall2_impl_in {A B} (R R' : A -> B -> Prop) l l' :
  Forall2 R l l' -> (forall a b, In a l -> R a b -> R' a b) -> Forall2 R' l l'.
Proof. induction 1; intros H'; constructor; [apply H'; cbn; auto|apply IHForall2; intros; apply H'; cbn; auto]. Qed.

Lemma small_idx_ok s ps : cwf nl s -> small s -> Forall (pwf nl s) ps -> Forall (fun p => idx_ok (provider_idx p)) ps.
Proof.
  intros W S F. eapply Forall_impl; [|exact F]. intros p Hp. eapply idx_ok_of_pwf; eauto. apply W.
Qed.

(** the machine executes one generic instruction with an arbitrary target register [d] *)
Lemma gi_core b opc imm k s ps rest st locals vs M d :
  gi_shape b = Some (opc, imm, k, true) -> sim_gi b = true -> cwf nl s -> small s ->
  c_stack s = ps ++ rest -> length ps = k -> rel s st locals vs M -> idx_ok d ->
  code_at c (cur_off s) (opc :: imm ++ loc_bytes ps ++ i32_bytes d) ->
  exists tops restv, vs = tops ++ restv /\ Forall2 (fun p v => repr (denote M p) v) rest restv /\
  match exec_simple cap b st locals vs with
  | inr (st', l', vs') =>
      exists v' w Mm, l' = locals /\ vs' = v' :: restv
        /\ mstep M = SNext (set_pc (set_reg Mm d (w (reg Mm d))) (cur_off s + 1 + Z.of_nat (length imm) + 4 * Z.of_nat k + 4))
        /\ (forall old, repr (w old) v') /\ mupd M Mm
        /\ Forall2 repr (ms_globals Mm) (s_globals st') /\ mem_rel (ms_mem Mm) (s_mem st')
  | inl true => exists e, mstep M = STrap e
  | inl false => True
  end.
Proof.
  intros Hsh Hsim W S Es Lps R Hd Hc.
  pose proof (r_stack _ _ _ _ _ R) as RS. rewrite Es in RS.
  destruct (Forall2_app_inv_l' _ _ _ _ RS) as (tops & restv & Evs & Rt & Rr).
  exists tops, restv. split; [exact Evs|]. split; [exact Rr|].
  assert (Fps : Forall (pwf nl s) ps).
  { pose proof (w_stack _ _ W) as F. rewrite Es in F. apply Forall_app in F. tauto. }
  rewrite <- (r_pc _ _ _ _ _ R) in Hc.
  destruct (gi_machine b opc imm k ps d M Hsh Hsim Lps (r_idx _ _ _ _ _ R) Hc (small_idx_ok s ps W S Fps) Hd) as (res & Hval & Hstep).
  pose proof (gi_sem b (map (denote M) ps) M res st locals tops restv Hsim Hval (Forall2_map_l _ _ _ _ Rt)
                (r_globals _ _ _ _ _ R) (r_mem _ _ _ _ _ R)) as HS.
  rewrite <- Evs in HS.
  destruct (exec_simple cap b st locals vs) as [[|]|[[st' l'] vs']].
  - destruct HS as (e & ->). exists e. exact Hstep.
  - exact I.
  - destruct HS as (v' & El & Ev & (w & Mm & Eres & Hw & U & Gl & Me)). subst res.
    exists v', w, Mm. rewrite (r_pc _ _ _ _ _ R) in Hstep. splits; auto.
Qed.

(** re-establishing [rel] after a write to a register [d] that no stack entry refers to *)
Lemma rel_after_write s s1 st st' locals locals' vs vs1 M Mm d x pc stack1 :
  rel s st locals vs M -> True ->
  mupd M Mm -> 0 <= d < NR -> c_stack s1 = stack1 -> cur_off s1 = pc ->
  Forall2 (fun p v => repr (get_local consts (set_pc (set_reg Mm d x) pc) (provider_idx p)) v) stack1 vs1 ->
  Z.of_nat (length locals') = nl ->
  (forall i v, nth_error locals' i = Some v -> repr (get_local consts (set_pc (set_reg Mm d x) pc) (Z.of_nat i)) v) ->
  Forall2 repr (ms_globals Mm) (s_globals st') -> mem_rel (ms_mem Mm) (s_mem st') ->
  rel s1 st' locals' vs1 (set_pc (set_reg Mm d x) pc).
Proof.
  intros R _ U Hd Es Ep Hs Hn Hl Hg Hm.
  destruct U as (U1 & U2 & U3 & U4 & Er & Eb & U5 & U6).
  constructor; cbn [ms_idx ms_pc ms_regs ms_base ms_globals ms_mem set_pc set_reg]; auto.
  - rewrite U2. apply (r_idx _ _ _ _ _ R).
  - rewrite list_set_length, Er, Eb. apply (r_regs _ _ _ _ _ R).
  - rewrite Es. exact Hs.
  - intros i v Hi. specialize (Hl i v Hi). unfold get_local in Hl.
    destruct (Z.leb_spec 0 (Z.of_nat i)); [exact Hl|lia].
Qed.

Lemma get_local_nonneg M i : 0 <= i -> get_local consts M i = reg M i.
Proof. intros H. unfold get_local. destruct (Z.leb_spec 0 i); [reflexivity|lia]. Qed.

Lemma reg_in_range s st locals vs M d : rel s st locals vs M -> 0 <= d < NR ->
  (ms_base M + Z.to_nat d < length (ms_regs M))%nat.
Proof. intros R Hd. pose proof (r_regs _ _ _ _ _ R). lia. Qed.

Lemma locals_kept s st locals vs M Mm d x pc :
  rel s st locals vs M -> mupd M Mm -> nl <= d < NR -> 0 <= nl ->
  forall i v, nth_error locals i = Some v ->
    repr (get_local consts (set_pc (set_reg Mm d x) pc) (Z.of_nat i)) v.
Proof.
  intros R U Hd Hnl i v Hi.
  assert (Z.of_nat i < nl).
  { rewrite <- (r_nl _ _ _ _ _ R). apply inj_lt. apply nth_error_Some. congruence. }
  change (get_local consts (set_pc (set_reg Mm d x) pc) (Z.of_nat i))
    with (denote (set_pc (set_reg Mm d x) pc) (PLocal (Z.of_nat i))).
  rewrite (denote_write M Mm d x pc (PLocal (Z.of_nat i)) U); try lia.
  - unfold denote. cbn [provider_idx]. rewrite get_local_nonneg by lia. apply (r_locals _ _ _ _ _ R). exact Hi.
  - eapply reg_in_range; eauto. lia.
  - cbn. lia.
Qed.

Lemma stack_kept s st locals vs M Mm d x pc rest restv :
  rel s st locals vs M -> mupd M Mm -> 0 <= d < NR ->
  Forall2 (fun p v => repr (denote M p) v) rest restv ->
  (forall q, In q rest -> provider_idx q <> d) ->
  Forall2 (fun p v => repr (get_local consts (set_pc (set_reg Mm d x) pc) (provider_idx p)) v) rest restv.
Proof.
  intros R U Hd F Hne. eapply Forall2_impl_in; [exact F|]. intros q v Hq Hr.
  change (get_local consts (set_pc (set_reg Mm d x) pc) (provider_idx q)) with (denote (set_pc (set_reg Mm d x) pc) q).
  rewrite (denote_write M Mm d x pc q U); auto; try lia. eapply reg_in_range; eauto.
Qed.

Lemma small_mono s s1 : small s1 -> c_next s <= c_next s1 -> c_consts s1 = c_consts s -> small s.
Proof. intros [A B] Hn Hc. split; [lia|rewrite <- Hc; exact B]. Qed.

Definition mono (s s1 : cstate) : Prop := c_next s <= c_next s1 /\ exists ext, c_consts s1 = c_consts s ++ ext.
Definition step_ok (s s1 : cstate) (M : mstate) (r : step_result) : Prop :=
  exists tail, c_out s1 = c_out s ++ tail /\ mono s s1 /\ (code_at c (cur_off s) tail -> sim_result M s1 r).

Lemma step_gi_prov b opc imm k s s1 st locals vs M :
  gi_shape b = Some (opc, imm, k, true) -> sim_gi b = true -> cwf nl s -> small s1 ->
  gi (set_last s None) opc imm k true = Some s1 -> rel s st locals vs M ->
  step_ok s s1 M (exec_simple cap b st locals vs) /\ c_last s1 <> None
  /\ exists r rest, c_stack s1 = PDyn r :: rest /\ ~ In (PDyn r) rest /\ nl <= r.
Proof.
  intros Hsh Hsim W S1 Hgi R.
  destruct (gi_compile s opc imm k true s1 W Hgi) as (ps & rest & Es & Lps & Fps & Ec & Eb & W1 & Bn & (r & Es1 & Br & Nin & Eo & El)).
  split; [|split; [rewrite El; discriminate|exists r, rest; splits; auto; lia]].
  exists (opc :: imm ++ loc_bytes ps ++ i32_bytes r). split; [exact Eo|]. split; [split; [lia|exists []; rewrite app_nil_r; exact Ec]|]. intros Hc.
  assert (S : small s) by (eapply small_mono; eauto; lia).
  assert (Hnl : 0 <= nl) by apply W.
  assert (Hr : idx_ok r) by (destruct S1; unfold idx_ok; lia).
  destruct (gi_core b opc imm k s ps rest st locals vs M r Hsh Hsim W S Es Lps R Hr Hc) as (tops & restv & Evs & Rr & HS).
  unfold sim_result. destruct (exec_simple cap b st locals vs) as [[|]|[[st' l'] vs']].
  - destruct HS as (e & He). exists 1%nat, e. cbn. rewrite He. reflexivity.
  - exact I.
  - destruct HS as (v' & w & Mm & -> & -> & Hstep & Hw & U & Gl & Me).
    split; [exact W1|].
    eexists 1%nat, _. split; [cbn; rewrite Hstep; reflexivity|]. split; [|apply frame_eq_write; exact U].
    assert (Hr' : 0 <= r < NR) by (destruct S1; lia).
    eapply (rel_after_write s s1 st st' locals locals vs); eauto.
    + unfold cur_off. rewrite Eo, app_length. cbn [length]. rewrite !app_length, loc_bytes_length, i32_bytes_length. lia.
    + constructor.
      * cbn [provider_idx]. rewrite (denote_write_same M Mm r _ _ U); [apply Hw|lia|eapply reg_in_range; eauto].
      * eapply stack_kept; eauto. intros q Hq. eapply (pwf_idx_ne_dyn s); eauto; try lia.
        -- pose proof (w_stack _ _ W) as F. rewrite Es in F. rewrite Forall_forall in F. apply F. apply in_or_app. right; exact Hq.
        -- intro E; subst q. contradiction.
    + apply (r_nl _ _ _ _ _ R).
    + eapply locals_kept; eauto. lia.
Qed.

(** ** instructions that emit no code *)
Lemma rel_same s s' st locals vs M :
  c_stack s' = c_stack s -> c_out s' = c_out s -> rel s st locals vs M -> rel s' st locals vs M.
Proof.
  intros Es Eo R. destruct R. constructor; auto.
  - unfold cur_off. rewrite Eo. exact r_pc0.
  - rewrite Es. exact r_stack0.
Qed.
Lemma mono_refl s : mono s s. Proof. split; [lia|exists []; rewrite app_nil_r; reflexivity]. Qed.
Lemma cwf_last s l : cwf nl s -> cwf nl (set_last s l).
Proof. apply cwf_same. repeat split. Qed.

Lemma step_nop s st locals vs M :
  cwf nl s -> rel s st locals vs M ->
  step_ok s (set_last s None) M (exec_simple cap BNop st locals vs) /\ c_last (set_last s None) = None.
Proof.
  intros W R. split; [|reflexivity]. exists []. split; [cbn; rewrite app_nil_r; reflexivity|]. split; [split; [cbn; lia|exists []; cbn; rewrite app_nil_r; reflexivity]|].
  intros _. cbn. split; [apply cwf_last; exact W|]. exists O, M. split; [reflexivity|]. split; [|apply frame_eq_refl].
  eapply rel_same; [| |exact R]; reflexivity.
Qed.

Lemma step_drop s s1 p st locals vs M :
  cwf nl s -> rel s st locals vs M -> consume (set_last s None) = Some (p, s1) ->
  step_ok s s1 M (exec_simple cap BDrop st locals vs) /\ c_last s1 = None.
Proof.
  intros W R H. destruct (consume_spec nl _ p s1 H (cwf_last s None W)) as (Es & (O1 & O2 & O3) & En & Ec & W1 & Wp).
  cbn [c_stack c_out c_last c_next c_consts set_last] in *. split; [|exact O3].
  exists []. split; [rewrite app_nil_r; exact O1|]. split; [split; [lia|exists []; rewrite app_nil_r; exact Ec]|].
  intros _. pose proof (r_stack _ _ _ _ _ R) as RS. rewrite Es in RS. inversion RS as [|? v ? vs' Rp Rr]; subst.
  cbn. split; [exact W1|]. exists O, M. split; [reflexivity|]. split; [|apply frame_eq_refl].
  destruct R. constructor; auto. unfold cur_off. rewrite O1. exact r_pc0.
Qed.

Lemma step_local_get s i st locals vs M :
  cwf nl s -> rel s st locals vs M ->
  step_ok s (provide_existing (set_last s None) (PLocal (Z.of_nat i))) M (exec_simple cap (BLocalGet i) st locals vs)
  /\ c_last (provide_existing (set_last s None) (PLocal (Z.of_nat i))) = None.
Proof.
  intros W R. split; [|reflexivity]. exists []. split; [cbn; rewrite app_nil_r; reflexivity|]. split; [split; [cbn; lia|exists []; cbn; rewrite app_nil_r; reflexivity]|].
  intros _. cbn [exec_simple]. unfold nth_opt. destruct (nth_error locals i) as [v|] eqn:E; [|exact I]. cbn [ok sim_result].
  assert (Hi : 0 <= Z.of_nat i < nl).
  { rewrite <- (r_nl _ _ _ _ _ R). split; [lia|]. apply inj_lt. apply nth_error_Some. congruence. }
  split; [apply cwf_push_local; [apply cwf_last; exact W|exact Hi]|].
  exists O, M. split; [reflexivity|]. split; [|apply frame_eq_refl].
  destruct R. constructor; auto. cbn. constructor; [|exact r_stack0].
  unfold denote. cbn [provider_idx]. rewrite get_local_nonneg by lia. apply r_locals0. exact E.
Qed.

Lemma const_repr t z cst :
  0 <= z < 2 ^ bits t -> cst = const_i64 t z -> repr (from_i64 cst) (mkval t z).
Proof.
  intros Hz ->. unfold from_i64, two64, const_i64. destruct t; cbn [bits mkval repr] in *.
  - change (2 ^ 32) with 4294967296 in Hz. unfold low32, two32.
    destruct (Z.ltb_spec z 2147483648).
    + rewrite (Z.mod_small z 18446744073709551616) by lia. apply Z.mod_small; lia.
    + replace ((z - 4294967296) mod 18446744073709551616) with (z - 4294967296 + 18446744073709551616).
      * replace (z - 4294967296 + 18446744073709551616) with (z + 4294967295 * 4294967296) by lia.
        rewrite Z.mod_add by lia. apply Z.mod_small; lia.
      * symmetry. replace (z - 4294967296) with ((z - 4294967296 + 18446744073709551616) + (-1) * 18446744073709551616) at 1 by lia.
        rewrite Z.mod_add by lia. apply Z.mod_small; lia.
  - change (2 ^ 64) with 18446744073709551616 in Hz. unfold as_u64, two64. rewrite Z.mod_mod by lia.
    destruct (Z.ltb_spec z 9223372036854775808).
    + apply Z.mod_small; lia.
    + replace (z - 18446744073709551616) with (z + (-1) * 18446744073709551616) by lia.
      rewrite Z.mod_add by lia. apply Z.mod_small; lia.
Qed.

Lemma step_const s t z st locals vs M :
  cwf nl s -> rel s st locals vs M -> 0 <= z < 2 ^ bits t ->
  consts_ok (push_constant (set_last s None) (const_i64 t z)) ->
  step_ok s (push_constant (set_last s None) (const_i64 t z)) M (exec_simple cap (BConst t z) st locals vs)
  /\ c_last (push_constant (set_last s None) (const_i64 t z)) = None.
Proof.
  intros W R Hz CO.
  destruct (push_constant_spec nl (set_last s None) (const_i64 t z) (cwf_last s None W))
    as (idx & Es & (O1 & O2 & O3) & En & Er & (ext & Ec) & Hneg & Hnth & W1).
  cbn [c_stack c_out c_last c_next c_consts c_reuse set_last] in *. split; [|exact O3].
  exists []. split; [rewrite app_nil_r; exact O1|]. split; [split; [lia|exists ext; exact Ec]|].
  intros _. cbn [exec_simple ok]. split; [exact W1|]. exists O, M. split; [reflexivity|]. split; [|apply frame_eq_refl].
  destruct R. constructor; auto.
  - unfold cur_off. rewrite O1. exact r_pc0.
  - rewrite Es. constructor; [|exact r_stack0].
    unfold denote, get_local. cbn [provider_idx]. destruct (Z.leb_spec 0 idx); [lia|].
    rewrite (CO _ _ _ Hnth). apply const_repr; auto.
Qed.

(** ** Copy, global.set on the machine *)
Lemma mstep_copy M a d :
  ms_idx M = fidx -> code_at c (ms_pc M) (ICopy :: i32_bytes a ++ i32_bytes d) -> idx_ok a -> idx_ok d ->
  mstep M = SNext (set_pc (set_reg M d (get_local consts M a)) (ms_pc M + 9)).
Proof.
  intros Hi Hc Ha Hd. apply code_at_cons in Hc. destruct Hc as [H0 Hc]. apply code_at_app in Hc. destruct Hc as [H1 H2].
  rewrite i32_bytes_length in H2. rewrite (mstep_at M Hi), H0, N2Z.id.
  change (exec_op art mhost c consts M (ms_pc M + 1) ICopy) with
    (let src := get_local consts M (get_i32 c (ms_pc M + 1)) in
     SNext (set_pc (set_reg M (get_i32 c (ms_pc M + 1 + 4)) src) (ms_pc M + 1 + 8))).
  cbv zeta. rewrite (code_at_i32 c (ms_pc M + 1) a Ha H1).
  replace (ms_pc M + 1 + 4) with (ms_pc M + 1 + Z.of_nat 4) by lia. rewrite (code_at_i32 c _ d Hd H2).
  do 2 f_equal. lia.
Qed.

Lemma mstep_global_set M i a :
  ms_idx M = fidx -> code_at c (ms_pc M) (IGlobalSet :: u16_bytes (Z.of_nat i) ++ i32_bytes a) ->
  Z.of_nat i < 65536 -> idx_ok a ->
  mstep M = SNext (set_pc (set_mglobals M (list_set (ms_globals M) i (get_local consts M a))) (ms_pc M + 7)).
Proof.
  intros Hi Hc Hb Ha. apply code_at_cons in Hc. destruct Hc as [H0 Hc]. apply code_at_app in Hc. destruct Hc as [H1 H2].
  rewrite u16_bytes_length in H2. rewrite (mstep_at M Hi), H0, N2Z.id.
  change (exec_op art mhost c consts M (ms_pc M + 1) IGlobalSet) with
    (let v := get_local consts M (get_i32 c (ms_pc M + 1 + 2)) in
     SNext (set_pc (set_mglobals M (list_set (ms_globals M) (Z.to_nat (get_u16 c (ms_pc M + 1))) v)) (ms_pc M + 1 + 6))).
  cbv zeta. rewrite (code_at_u16 c (ms_pc M + 1) (Z.of_nat i) ltac:(lia) H1), Nat2Z.id.
  replace (ms_pc M + 1 + 2) with (ms_pc M + 1 + Z.of_nat 2) by lia. rewrite (code_at_i32 c _ a Ha H2).
  do 2 f_equal. lia.
Qed.

(** ** Sem.set_nth *)
Lemma set_nth_spec {A} (l : list A) : forall i x l', set_nth l i x = Some l' ->
  (i < length l)%nat /\ length l' = length l /\
  forall j, nth_error l' j = if Nat.eqb j i then Some x else nth_error l j.
Proof.
  induction l as [|a r IH]; intros [|i] x l' H; cbn in H; try discriminate.
  - inversion H; subst. cbn. repeat split; try lia. intros [|j]; reflexivity.
  - destruct (set_nth r i x) as [r'|] eqn:E; [|discriminate]. inversion H; subst.
    destruct (IH _ _ _ E) as (H1 & H2 & H3). cbn. repeat split; try lia.
    intros [|j]; cbn; [reflexivity|apply H3].
Qed.

Lemma Forall2_list_set (l : list Z) (g g' : list val) i x v :
  Forall2 repr l g -> set_nth g i v = Some g' -> repr x v -> Forall2 repr (list_set l i x) g'.
Proof.
  intros F. revert i g'. induction F as [|a b l g Hab F IH]; intros [|i] g' H Hr; cbn in H; try discriminate.
  - inversion H; subst. cbn. constructor; auto.
  - destruct (set_nth g i v) as [r'|] eqn:E; [|discriminate]. inversion H; subst. cbn. constructor; auto.
Qed.

(** ** writing a local: re-establishing [rel] *)
Lemma no_local_idx idx q s : is_local idx q = false -> pwf nl s q -> 0 <= idx < nl -> provider_idx q <> idx.
Proof.
  intros H Hp Hi E. destruct q as [r|l|k]; cbn in *.
  - lia.
  - subst. rewrite Z.eqb_refl in H. discriminate.
  - destruct Hp. lia.
Qed.

Lemma existsb_false_in {A} (f : A -> bool) l q : existsb f l = false -> In q l -> f q = false.
Proof.
  induction l as [|a r IH]; cbn; intros H Hq; [contradiction|]. apply orb_false_iff in H. destruct H as [H1 H2].
  destruct Hq as [->|Hq]; auto.
Qed.

Lemma rel_write_local s s1 st st' locals locals' vs restv rest M Mm i x v pc (tee : bool) :
  rel s st locals vs M -> cwf nl s1 -> small s1 -> mupd M Mm ->
  Forall2 (fun p w => repr (denote M p) w) rest restv -> Forall (pwf nl s1) rest -> has_local (Z.of_nat i) rest = false ->
  set_nth locals i v = Some locals' -> repr x v ->
  c_stack s1 = (if tee then PLocal (Z.of_nat i) :: rest else rest) -> cur_off s1 = pc ->
  Forall2 repr (ms_globals Mm) (s_globals st') -> mem_rel (ms_mem Mm) (s_mem st') ->
  rel s1 st' locals' (if tee then v :: restv else restv) (set_pc (set_reg Mm (Z.of_nat i) x) pc).
Proof.
  intros R W1 S1 U Fr Fp Hl Hs Hx Es Ep Hg Hm.
  destruct (set_nth_spec locals i v locals' Hs) as (Hi & Hlen & Hnth).
  assert (Hidx : 0 <= Z.of_nat i < nl) by (rewrite <- (r_nl _ _ _ _ _ R); lia).
  assert (HNR : 0 <= Z.of_nat i < NR) by (destruct S1; destruct W1 as [[? ?] _ _ _ _]; lia).
  assert (Hrest : Forall2 (fun p w => repr (get_local consts (set_pc (set_reg Mm (Z.of_nat i) x) pc) (provider_idx p)) w) rest restv).
  { eapply stack_kept; eauto. intros q Hq. rewrite Forall_forall in Fp.
    eapply no_local_idx; eauto. eapply existsb_false_in; eauto. }
  assert (Hsame : get_local consts (set_pc (set_reg Mm (Z.of_nat i) x) pc) (Z.of_nat i) = x).
  { apply (denote_write_same M Mm); auto; try lia. eapply reg_in_range; eauto. }
  eapply (rel_after_write s s1 st st' locals locals' vs); eauto.
  - destruct tee; [constructor; [cbn [provider_idx]; rewrite Hsame; exact Hx|exact Hrest]|exact Hrest].
  - rewrite Hlen. apply (r_nl _ _ _ _ _ R).
  - intros j w Hj. rewrite Hnth in Hj. destruct (Nat.eqb_spec j i) as [->|Hne].
    + inversion Hj; subst. rewrite Hsame. exact Hx.
    + change (get_local consts (set_pc (set_reg Mm (Z.of_nat i) x) pc) (Z.of_nat j))
        with (denote (set_pc (set_reg Mm (Z.of_nat i) x) pc) (PLocal (Z.of_nat j))).
      rewrite (denote_write M Mm _ x pc (PLocal (Z.of_nat j)) U); try lia.
      * unfold denote. cbn [provider_idx]. rewrite get_local_nonneg by lia. apply (r_locals _ _ _ _ _ R). exact Hj.
      * eapply reg_in_range; eauto.
      * cbn. lia.
Qed.

Lemma step_global_set s s1 i st locals vs M :
  cwf nl s -> small s1 -> Z.of_nat i < 65536 -> rel s st locals vs M ->
  gi (set_last s None) IGlobalSet (u16_bytes (Z.of_nat i)) 1 false = Some s1 ->
  step_ok s s1 M (exec_simple cap (BGlobalSet i) st locals vs) /\ c_last s1 = None.
Proof.
  intros W S1 Hi R Hgi.
  destruct (gi_compile s _ _ _ false s1 W Hgi) as (ps & rest & Es & Lps & Fps & Ec & Eb & W1 & Bn & (Es1 & Eo & El)).
  split; [|exact El]. destruct ps as [|p [|? ?]]; try discriminate Lps.
  exists (IGlobalSet :: u16_bytes (Z.of_nat i) ++ loc_bytes [p]). split; [exact Eo|].
  split; [split; [lia|exists []; rewrite app_nil_r; exact Ec]|]. intros Hc.
  assert (S : small s) by (eapply small_mono; eauto; lia).
  pose proof (r_stack _ _ _ _ _ R) as RS. rewrite Es in RS. cbn [app] in RS.
  inversion RS as [|? v ? restv Rp Rr]; subst. cbn [exec_simple].
  destruct (set_nth (s_globals st) i v) as [g'|] eqn:Eg; [|exact I]. cbn [ok sim_result].
  split; [exact W1|].
  assert (Hp : idx_ok (provider_idx p)).
  { inversion Fps; subst. eapply idx_ok_of_pwf; eauto. apply W. }
  unfold loc_bytes in Hc. cbn [flat_map] in Hc. rewrite app_nil_r in Hc. rewrite <- (r_pc _ _ _ _ _ R) in Hc.
  pose proof (mstep_global_set M i (provider_idx p) (r_idx _ _ _ _ _ R) Hc Hi Hp) as Hstep.
  eexists 1%nat, _. split; [cbn; rewrite Hstep; reflexivity|]. split; [|repeat split].
  destruct R. constructor; cbn [ms_idx ms_pc ms_regs ms_base ms_globals ms_mem set_pc set_mglobals]; auto.
  - unfold cur_off. rewrite Eo, app_length. cbn [length]. rewrite app_length, u16_bytes_length.
    unfold loc_bytes. cbn [flat_map]. rewrite app_nil_r, i32_bytes_length. unfold cur_off in r_pc0. lia.
  - cbn [set_globals s_globals]. eapply Forall2_list_set; eauto.
Qed.

(** ** local.set / local.tee: the part after the (optional) preservation copy *)
Definition set_tee_tail (s3 : cstate) (idx : Z) (is_set : bool) : option cstate :=
  match push_consume (push_op s3 ICopy) with
  | Some (_, s4) => let s5 := emit s4 (i32_bytes idx) in
                    Some (if is_set then s5 else provide_existing s5 (PLocal idx))
  | None => None
  end.

Lemma step_tee_tail s3 s1 i is_set :
  cwf nl s3 -> small s1 -> has_local (Z.of_nat i) (c_stack s3) = false -> c_last s3 = None ->
  set_tee_tail s3 (Z.of_nat i) is_set = Some s1 ->
  exists tail, c_out s1 = c_out s3 ++ tail /\ mono s3 s1 /\ c_last s1 = None /\
    forall st locals vs M, rel s3 st locals vs M -> code_at c (cur_off s3) tail ->
      sim_result M s1 (exec_simple cap (if is_set then BLocalSet i else BLocalTee i) st locals vs).
Proof.
  intros W S1 Hl Hlast H. unfold set_tee_tail, push_consume in H.
  destruct (consume (push_op s3 ICopy)) as [[p s4]|] eqn:E; [|discriminate].
  assert (W0 : cwf nl (push_op s3 ICopy)) by (eapply cwf_same; [|exact W]; repeat split).
  destruct (consume_spec nl _ p s4 E W0) as (Es & (O1 & O2 & O3) & En & Ec & W4 & Wp).
  cbn [c_stack c_out c_last c_next c_consts c_bp push_op emit set_out] in Es, O1, O2, O3, En, Ec.
  set (s5 := emit (push_loc s4 p) (i32_bytes (Z.of_nat i))) in *.
  assert (W5 : cwf nl s5) by (eapply cwf_same; [|exact W4]; repeat split).
  assert (Eo5 : c_out s5 = c_out s3 ++ ICopy :: i32_bytes (provider_idx p) ++ i32_bytes (Z.of_nat i)).
  { unfold s5. cbn [c_out emit push_loc set_out]. rewrite O1. rewrite <- !app_assoc. reflexivity. }
  assert (Eoff : cur_off s5 = cur_off s3 + 9).
  { unfold cur_off. rewrite Eo5, app_length. cbn [length]. rewrite app_length, !i32_bytes_length. lia. }
  assert (Hs1 : c_out s1 = c_out s5 /\ c_next s1 = c_next s3 /\ c_consts s1 = c_consts s3 /\ c_last s1 = None
                /\ c_stack s1 = (if is_set then c_stack s4 else PLocal (Z.of_nat i) :: c_stack s4)).
  { destruct is_set; inversion H; subst; cbn; rewrite ?En, ?Ec, ?O3, ?Hlast; repeat split; auto. }
  destruct Hs1 as (Eo1 & En1 & Ec1 & El1 & Est1).
  exists (ICopy :: i32_bytes (provider_idx p) ++ i32_bytes (Z.of_nat i)).
  split; [rewrite Eo1; exact Eo5|]. split; [split; [lia|exists []; rewrite app_nil_r; exact Ec1]|]. split; [exact El1|].
  intros st locals vs M R Hc.
  pose proof (r_stack _ _ _ _ _ R) as RS. rewrite Es in RS. inversion RS as [|? v ? restv Rp Rr]; subst.
  assert (S3 : small s3) by (eapply small_mono; eauto; lia).
  assert (Hsem : exec_simple cap (if is_set then BLocalSet i else BLocalTee i) st locals (v :: restv)
                 = match set_nth locals i v with
                   | Some l' => inr (st, l', if is_set then restv else v :: restv)
                   | None => inl false end).
  { destruct is_set; cbn [exec_simple]; destruct (set_nth locals i v); reflexivity. }
  rewrite Hsem. destruct (set_nth locals i v) as [l'|] eqn:Esn; [|exact I]. cbn [sim_result].
  destruct (set_nth_spec locals i v l' Esn) as (Hi & _ & _).
  assert (Hidx : 0 <= Z.of_nat i < nl) by (rewrite <- (r_nl _ _ _ _ _ R); lia).
  assert (W1 : cwf nl s1).
  { destruct is_set; inversion H; subst; [exact W5|]. exact (cwf_push_local nl s5 (Z.of_nat i) W5 Hidx). }
  split; [exact W1|].
  assert (Hp : idx_ok (provider_idx p)) by (eapply idx_ok_of_pwf; [exact S3| |exact Wp]; apply W).
  assert (Hd : idx_ok (Z.of_nat i)) by (pose proof NR_small; destruct S3; destruct W as [[? ?] _ _ _ _]; unfold idx_ok; lia).
  rewrite <- (r_pc _ _ _ _ _ R) in Hc.
  pose proof (mstep_copy M (provider_idx p) (Z.of_nat i) (r_idx _ _ _ _ _ R) Hc Hp Hd) as Hstep.
  eexists 1%nat, _. split; [cbn; rewrite Hstep; reflexivity|]. split; [|apply frame_eq_write; apply mupd_refl].
  assert (Frest : Forall (pwf nl s1) (c_stack s4)).
  { pose proof (w_stack _ _ W4) as F. eapply Forall_impl; [|exact F]. intros q Hq.
    eapply pwf_ext; [| | |exact Hq]; destruct is_set; inversion H; subst; reflexivity. }
  assert (Hl4 : has_local (Z.of_nat i) (c_stack s4) = false).
  { unfold has_local in *. rewrite Es in Hl. cbn [existsb] in Hl. apply orb_false_iff in Hl. tauto. }
  pose proof (rel_write_local s3 s1 st st locals l' (v :: restv) restv (c_stack s4) M M i (denote M p) v (ms_pc M + 9) (negb is_set)
                R W1 S1 (mupd_refl M) Rr Frest Hl4 Esn Rp) as RW.
  replace (if negb is_set then v :: restv else restv) with (if is_set then restv else v :: restv) in RW by (destruct is_set; reflexivity).
  apply RW.
  - rewrite Est1. destruct is_set; reflexivity.
  - rewrite (r_pc _ _ _ _ _ R). unfold cur_off in *. rewrite Eo1. lia.
  - apply (r_globals _ _ _ _ _ R).
  - apply (r_mem _ _ _ _ _ R).
Qed.

(** ** the preservation copy of local.set / local.tee *)
Lemma Forall2_map_subst {A} (R R' : provider -> A -> Prop) f l vs :
  Forall2 R l vs -> (forall q w, In q l -> R q w -> R' (f q) w) -> Forall2 R' (map f l) vs.
Proof. induction 1; intros H'; cbn; constructor; [apply H'; cbn; auto|apply IHForall2; intros; apply H'; cbn; auto]. Qed.

Lemma has_local_subst idx rp l : is_local idx rp = false -> has_local idx (map (subst_local idx rp) l) = false.
Proof.
  intros Hr. induction l as [|q r IH]; cbn; [reflexivity|]. fold (has_local idx (map (subst_local idx rp) r)). rewrite IH.
  unfold subst_local. destruct (is_local idx q) eqn:E; rewrite ?Hr, ?E; reflexivity.
Qed.

Lemma has_local_in idx l : has_local idx l = true -> In (PLocal idx) l.
Proof.
  unfold has_local. rewrite existsb_exists. intros (q & Hq & E). destruct q as [r|k|cc]; cbn in E; try discriminate.
  apply Z.eqb_eq in E. subst. exact Hq.
Qed.

Lemma step_reserve s0 i d s0' st locals vs M :
  cwf nl s0 -> c_next s0' <= NR -> Z.of_nat (length (c_consts s0)) < 2147483648 ->
  has_local (Z.of_nat i) (c_stack s0) = true -> dyn_get s0 = (d, s0') ->
  rel s0 st locals vs M ->
  let s3 := push_loc (emit (push_op (set_stack s0' (map (subst_local (Z.of_nat i) (PDyn d)) (c_stack s0))) ICopy)
                           (i32_bytes (Z.of_nat i))) (PDyn d) in
  cwf nl s3 /\ has_local (Z.of_nat i) (c_stack s3) = false
  /\ c_out s3 = c_out s0 ++ ICopy :: i32_bytes (Z.of_nat i) ++ i32_bytes d
  /\ c_last s3 = c_last s0 /\ c_consts s3 = c_consts s0 /\ c_next s0 <= c_next s3 <= c_next s0 + 1
  /\ (code_at c (cur_off s0) (ICopy :: i32_bytes (Z.of_nat i) ++ i32_bytes d) ->
      exists M1, mstep M = SNext M1 /\ rel s3 st locals vs M1 /\ frame_eq M M1).
Proof.
  intros W Hnr Hcs Hl Hd R s3.
  destruct (dyn_get_spec nl s0 d s0' Hd W) as (B & N & Nst & Es & (O1 & O2 & O3) & Ec & Bn & Sub & W').
  pose proof (has_local_in _ _ Hl) as Hin.
  assert (Hidx : 0 <= Z.of_nat i < nl).
  { pose proof (w_stack _ _ W) as F. rewrite Forall_forall in F. apply (F _ Hin). }
  assert (Hnl : 0 <= nl) by apply W.
  assert (Fst : Forall (pwf nl s0') (map (subst_local (Z.of_nat i) (PDyn d)) (c_stack s0))).
  { pose proof (w_stack _ _ W') as F. rewrite Es in F. apply Forall_forall. intros q Hq. apply in_map_iff in Hq.
    destruct Hq as (q0 & <- & Hq0). unfold subst_local. destruct (is_local (Z.of_nat i) q0).
    - cbn. split; [lia|exact N].
    - rewrite Forall_forall in F. apply F. exact Hq0. }
  assert (W3 : cwf nl s3).
  { eapply cwf_same; [|apply (cwf_set_stack nl s0' _ W' Fst)]. repeat split. }
  splits; auto; try lia; try (change (c_next s3) with (c_next s0'); lia).
  - unfold s3. cbn [c_stack push_loc emit push_op set_out set_stack]. apply has_local_subst. reflexivity.
  - unfold s3. cbn [c_out push_loc emit push_op set_out set_stack]. rewrite O1. rewrite <- !app_assoc. reflexivity.
  - intros Hc. rewrite <- (r_pc _ _ _ _ _ R) in Hc.
    assert (Hdi : idx_ok d) by (unfold idx_ok; pose proof NR_small; lia).
    assert (Hii : idx_ok (Z.of_nat i)) by (unfold idx_ok; pose proof NR_small; destruct W' as [[? ?] _ _ _ _]; lia).
    pose proof (mstep_copy M (Z.of_nat i) d (r_idx _ _ _ _ _ R) Hc Hii Hdi) as Hstep.
    eexists. split; [exact Hstep|]. split; [|apply frame_eq_write; apply mupd_refl].
    assert (HdNR : 0 <= d < NR) by lia.
    eapply (rel_after_write s0 s3 st st locals locals vs vs M M); eauto.
    + apply mupd_refl.
    + unfold s3, cur_off. cbn [c_out push_loc emit push_op set_out set_stack]. rewrite O1, (r_pc _ _ _ _ _ R).
      rewrite !app_length. cbn [length]. rewrite !i32_bytes_length. unfold cur_off. lia.
    + unfold s3. cbn [c_stack push_loc emit push_op set_out set_stack].
      eapply Forall2_map_subst; [apply (r_stack _ _ _ _ _ R)|]. intros q w Hq Hr.
      unfold subst_local. destruct (is_local (Z.of_nat i) q) eqn:E.
      * destruct q as [r|l|k]; cbn in E; try discriminate. apply Z.eqb_eq in E. subst l.
        cbn [provider_idx]. rewrite (denote_write_same M M d _ _ (mupd_refl M)); [|lia|eapply reg_in_range; eauto].
        exact Hr.
      * change (get_local consts (set_pc (set_reg M d (get_local consts M (Z.of_nat i))) (ms_pc M + 9)) (provider_idx q))
          with (denote (set_pc (set_reg M d (get_local consts M (Z.of_nat i))) (ms_pc M + 9)) q).
        rewrite (denote_write M M d _ _ q (mupd_refl M)); auto; try lia; [eapply reg_in_range; eauto|].
        eapply (pwf_idx_ne_dyn s0); eauto; try lia.
        -- pose proof (w_stack _ _ W) as F. rewrite Forall_forall in F. apply F. exact Hq.
        -- intro E'; subst q. contradiction.
    + apply (r_nl _ _ _ _ _ R).
    + eapply locals_kept; eauto. apply mupd_refl. lia.
    + apply (r_globals _ _ _ _ _ R).
    + apply (r_mem _ _ _ _ _ R).
Qed.

Lemma set_tee_tail_alloc s3 idx b s1 :
  set_tee_tail s3 idx b = Some s1 -> c_next s1 = c_next s3 /\ c_consts s1 = c_consts s3.
Proof.
  unfold set_tee_tail, push_consume, consume. cbn [c_stack push_op emit set_out].
  destruct (c_stack s3) as [|p st0]; [discriminate|].
  destruct (negb (existsb (provider_eqb p) st0)); intros H; destruct b; inversion H; subst; clear H;
    destruct p; cbn; auto.
Qed.

Lemma step_set_tee s lp s1 i is_set st locals vs M :
  cwf nl s -> small s1 -> (lp = None \/ has_local (Z.of_nat i) (c_stack s) = true) ->
  rel s st locals vs M -> set_tee lp (set_last s None) i is_set = Some s1 ->
  step_ok s s1 M (exec_simple cap (if is_set then BLocalSet i else BLocalTee i) st locals vs) /\ c_last s1 = None.
Proof.
  intros W S1 Hlp R H. set (s0 := set_last s None) in *.
  assert (W0 : cwf nl s0) by (apply cwf_last; exact W).
  assert (R0 : rel s0 st locals vs M) by (eapply rel_same; [| |exact R]; reflexivity).
  unfold set_tee in H. rewrite preserve_local_spec in H.
  change (c_stack s0) with (c_stack s) in H.
  destruct (has_local (Z.of_nat i) (c_stack s)) eqn:Hl.
  - destruct (dyn_get s0) as [d s0'] eqn:Ed.
    set (s3 := push_loc (emit (push_op (set_stack s0' (map (subst_local (Z.of_nat i) (PDyn d)) (c_stack s0))) ICopy)
                              (i32_bytes (Z.of_nat i))) (PDyn d)) in *.
    assert (Ht : set_tee_tail s3 (Z.of_nat i) is_set = Some s1) by (destruct lp; exact H).
    destruct (set_tee_tail_alloc _ _ _ _ Ht) as (En1 & Ec1).
    assert (Hnr : c_next s0' <= NR) by (change (c_next s0') with (c_next s3); rewrite <- En1; apply S1).
    assert (Hcs : Z.of_nat (length (c_consts s0)) < 2147483648).
    { destruct (dyn_get_spec nl s0 d s0' Ed W0) as (_ & _ & _ & _ & _ & Ec & _).
      change (c_consts s0) with (c_consts s). change (c_consts s3) with (c_consts s0') in Ec1. rewrite Ec in Ec1.
      change (c_consts s0) with (c_consts s) in Ec1. rewrite <- Ec1. apply S1. }
    destruct (step_reserve s0 i d s0' st locals vs M W0 Hnr Hcs Hl Ed R0) as (W3 & Hl3 & Eo3 & El3 & Ec3 & Bn3 & Hm).
    fold s3 in W3, Hl3, Eo3, El3, Ec3, Bn3, Hm.
    destruct (step_tee_tail s3 s1 i is_set W3 S1 Hl3 El3 Ht) as (t2 & Eo1 & (Mn & ext & Mc) & El1 & Hsim).
    split; [|exact El1].
    exists ((ICopy :: i32_bytes (Z.of_nat i) ++ i32_bytes d) ++ t2).
    split; [rewrite Eo1, Eo3; change (c_out s0) with (c_out s); rewrite <- !app_assoc; reflexivity|].
    split; [split; [change (c_next s0) with (c_next s) in Bn3; lia|exists ext; rewrite Mc, Ec3; reflexivity]|].
    intros Hc. apply code_at_app in Hc. destruct Hc as [Hc1 Hc2].
    destruct (Hm Hc1) as (M1 & Hst & R3 & F1).
    assert (Eoff : cur_off s3 = cur_off s + Z.of_nat (length (ICopy :: i32_bytes (Z.of_nat i) ++ i32_bytes d))).
    { unfold cur_off. rewrite Eo3, app_length. change (c_out s0) with (c_out s). lia. }
    rewrite <- Eoff in Hc2. specialize (Hsim st locals vs M1 R3 Hc2).
    unfold sim_result in *.
    destruct (exec_simple cap (if is_set then BLocalSet i else BLocalTee i) st locals vs) as [[|]|[[st' l'] vs']].
    + destruct Hsim as (n & e & Hn). exists (S n), e. cbn. rewrite Hst. exact Hn.
    + exact I.
    + destruct Hsim as (W1 & n & M' & Hn & R1 & F2). split; [exact W1|].
      exists (S n), M'. split; [cbn; rewrite Hst; exact Hn|]. split; [exact R1|eapply frame_eq_trans; eauto].
  - destruct Hlp as [->|Hx]; [|discriminate].
    set (s2 := set_stack s0 (c_stack s)) in *.
    assert (Ht : set_tee_tail s2 (Z.of_nat i) is_set = Some s1) by exact H.
    assert (W2 : cwf nl s2) by (eapply cwf_same; [|exact W0]; repeat split).
    assert (R2 : rel s2 st locals vs M) by (eapply rel_same; [| |exact R]; reflexivity).
    destruct (step_tee_tail s2 s1 i is_set W2 S1 Hl eq_refl Ht) as (t2 & Eo1 & Mo & El1 & Hsim).
    split; [|exact El1]. exists t2. split; [exact Eo1|]. split; [exact Mo|]. intros Hc. apply (Hsim st locals vs M R2 Hc).
Qed.

(** ** a providing instruction followed by a short-circuited local.set / local.tee *)
Lemma overwrite_end a b b' : length b' = length b -> overwrite (a ++ b) (length a) b' = a ++ b'.
Proof.
  intros H. induction a as [|x a IH]; cbn [app length overwrite].
  - destruct b; cbn [overwrite]; rewrite H, skipn_all; apply app_nil_r.
  - f_equal. exact IH.
Qed.

Lemma tail_assoc {A} (a : list A) x i l d : a ++ x :: i ++ l ++ d = (a ++ x :: i ++ l) ++ d.
Proof. rewrite <- app_assoc. cbn [app]. rewrite <- !app_assoc. reflexivity. Qed.

Lemma step_pair b opc imm k s s1 s2 i is_set st locals vs M :
  gi_shape b = Some (opc, imm, k, true) -> sim_gi b = true -> cwf nl s -> small s2 ->
  Z.of_nat i < 2147483648 ->
  gi (set_last s None) opc imm k true = Some s1 ->
  has_local (Z.of_nat i) (c_stack s1) = false ->
  set_tee (c_last s1) (set_last s1 None) i is_set = Some s2 ->
  rel s st locals vs M ->
  step_ok s s2 M (match exec_simple cap b st locals vs with
                  | inr (st', l', vs') => exec_simple cap (if is_set then BLocalSet i else BLocalTee i) st' l' vs'
                  | inl x => inl x
                  end) /\ c_last s2 = None.
Proof.
  intros Hsh Hsim W S2 Hi31 Hgi Hl H R.
  destruct (gi_compile s opc imm k true s1 W Hgi) as (ps & rest & Es & Lps & Fps & Ec & Eb & W1 & Bn & (r & Es1 & Br & Nin & Eo & El)).
  unfold set_tee in H. rewrite preserve_local_spec in H. change (c_stack (set_last s1 None)) with (c_stack s1) in H.
  rewrite Hl, El in H.
  set (off := cur_off s + 1 + Z.of_nat (length imm) + 4 * Z.of_nat k) in *.
  set (sb := back_patch (set_stack (set_last s1 None) (c_stack s1)) off (Z.of_nat i)) in *.
  assert (Wb : cwf nl sb) by (eapply cwf_same; [|exact W1]; repeat split).
  destruct (consume sb) as [[p s4]|] eqn:Ecs; [|discriminate].
  destruct (consume_spec nl sb p s4 Ecs Wb) as (Esb & (O1 & O2 & O3) & En4 & Ec4 & W4 & Wp).
  change (c_stack sb) with (c_stack s1) in Esb. rewrite Es1 in Esb. inversion Esb as [[Ep Er4]]. subst p.
  assert (Eob : c_out sb = c_out s ++ opc :: imm ++ loc_bytes ps ++ i32_bytes (Z.of_nat i)).
  { unfold sb, back_patch. cbn [c_out set_out set_stack set_last]. rewrite Eo.
    rewrite tail_assoc.
    replace (Z.to_nat off) with (length (c_out s ++ opc :: imm ++ loc_bytes ps)).
    - rewrite overwrite_end by (rewrite u32_bytes_length, i32_bytes_length; reflexivity).
      rewrite (tail_assoc (c_out s) opc imm (loc_bytes ps) (i32_bytes (Z.of_nat i))). reflexivity.
    - unfold off, cur_off. rewrite app_length. cbn [length]. rewrite app_length, loc_bytes_length. lia. }
  assert (Hs2 : c_out s2 = c_out sb /\ c_next s2 = c_next s1 /\ c_consts s2 = c_consts s1 /\ c_last s2 = None
                /\ c_stack s2 = (if is_set then rest else PLocal (Z.of_nat i) :: rest)).
  { change (c_next sb) with (c_next s1) in En4. change (c_consts sb) with (c_consts s1) in Ec4.
    change (c_last sb) with (@None Z) in O3.
    destruct is_set; inversion H; subst; cbn; rewrite ?En4, ?Ec4, ?O3, ?O1, <- ?Er4; repeat split; auto. }
  destruct Hs2 as (Eo2 & En2 & Ec2 & El2 & Est2). split; [|exact El2].
  exists (opc :: imm ++ loc_bytes ps ++ i32_bytes (Z.of_nat i)).
  split; [rewrite Eo2; exact Eob|]. split; [split; [lia|exists []; rewrite app_nil_r; congruence]|]. intros Hc.
  assert (S : small s) by (eapply small_mono; [exact S2|lia|congruence]).
  assert (Hnl : 0 <= nl) by apply W.
  assert (Hii : idx_ok (Z.of_nat i)) by (unfold idx_ok; lia).
  destruct (gi_core b opc imm k s ps rest st locals vs M (Z.of_nat i) Hsh Hsim W S Es Lps R Hii Hc) as (tops & restv & Evs & Rr & HS).
  unfold sim_result. destruct (exec_simple cap b st locals vs) as [[|]|[[st' l'] vs']].
  - destruct HS as (e & He). exists 1%nat, e. cbn. rewrite He. reflexivity.
  - exact I.
  - destruct HS as (v' & w & Mm & -> & -> & Hstep & Hw & U & Gl & Me).
    assert (Hsem : exec_simple cap (if is_set then BLocalSet i else BLocalTee i) st' locals (v' :: restv)
                   = match set_nth locals i v' with
                     | Some l' => inr (st', l', if is_set then restv else v' :: restv)
                     | None => inl false end).
    { destruct is_set; cbn [exec_simple]; destruct (set_nth locals i v'); reflexivity. }
    rewrite Hsem. destruct (set_nth locals i v') as [l'|] eqn:Esn; [|exact I].
    destruct (set_nth_spec locals i v' l' Esn) as (Hilt & _ & _).
    assert (Hidx : 0 <= Z.of_nat i < nl) by (rewrite <- (r_nl _ _ _ _ _ R); lia).
    assert (W2 : cwf nl s2).
    { destruct is_set; inversion H; subst; [exact W4|]. exact (cwf_push_local nl s4 (Z.of_nat i) W4 Hidx). }
    split; [exact W2|].
    eexists 1%nat, _. split; [cbn; rewrite Hstep; reflexivity|]. split; [|apply frame_eq_write; exact U].
    assert (Frest : Forall (pwf nl s2) rest).
    { pose proof (w_stack _ _ W4) as F. rewrite <- Er4 in F. eapply Forall_impl; [|exact F]. intros q Hq.
      eapply pwf_ext; [| | |exact Hq]; destruct is_set; inversion H; subst; reflexivity. }
    assert (Hlr : has_local (Z.of_nat i) rest = false).
    { unfold has_local in *. rewrite Es1 in Hl. cbn [existsb] in Hl. apply orb_false_iff in Hl. tauto. }
    pose proof (rel_write_local s s2 st st' locals l' vs restv rest M Mm i (w (reg Mm (Z.of_nat i))) v'
                  (cur_off s + 1 + Z.of_nat (length imm) + 4 * Z.of_nat k + 4) (negb is_set)
                  R W2 S2 U Rr Frest Hlr Esn (Hw _)) as RW.
    replace (if negb is_set then v' :: restv else restv) with (if is_set then restv else v' :: restv) in RW by (destruct is_set; reflexivity).
    apply RW; auto.
    + rewrite Est2. destruct is_set; reflexivity.
    + unfold cur_off. rewrite Eo2, Eob, app_length. cbn [length]. rewrite !app_length, loc_bytes_length, i32_bytes_length.
      unfold cur_off. lia.
Qed.

(** ** the whole sequence *)
Definition store_valid (t : valtype) (pk : option packsize) : bool :=
  match t, pk with T_i32, Some P32 => false | _, _ => true end.
Definition store_width (t : valtype) (pk : option packsize) : nat :=
  match pk with None => type_bytes t | Some p => pack_bytes p end.

Definition straight_ok (b : binstr) : bool :=
  match b with
  | BNop | BDrop => true
  | BLocalGet i | BLocalSet i | BLocalTee i => Z.of_nat i <? 2147483648
  | BConst t z => (0 <=? z) && (z <? 2 ^ bits t)
  | BGlobalSet i => Z.of_nat i <? 65536
  | BStore t pk off => (off <? 4294967296)%N && store_valid t pk
  | _ => sim_gi b
  end.

Fixpoint straight_sem (bs : list binstr) (st : store) (locals vs : list val) : step_result :=
  match bs with
  | [] => inr (st, locals, vs)
  | b :: r => match exec_simple cap b st locals vs with
              | inr (st', l', vs') => straight_sem r st' l' vs'
              | inl x => inl x
              end
  end.


Lemma mono_trans a b d : mono a b -> mono b d -> mono a d.
Proof.
  intros [A1 (e1 & A2)] [B1 (e2 & B2)]. split; [lia|]. exists (e1 ++ e2). rewrite B2, A2, app_assoc. reflexivity.
Qed.
Lemma small_of_mono s sf : small sf -> mono s sf -> small s.
Proof.
  intros [A B] [M1 (e & M2)]. split; [lia|]. rewrite M2, app_length in B. lia.
Qed.
Lemma consts_ok_of_mono s sf : consts_ok sf -> mono s sf -> consts_ok s.
Proof.
  intros CO [_ (e & M2)] k v idx Hk. apply (CO k v idx). rewrite M2. rewrite nth_error_app1; auto.
  apply nth_error_Some. congruence.
Qed.
Lemma cur_off_app s s1 t : c_out s1 = c_out s ++ t -> cur_off s1 = cur_off s + Z.of_nat (length t).
Proof. intros E. unfold cur_off. rewrite E, app_length. lia. Qed.

Lemma sim_compose M M1 sf n1 r :
  nsteps n1 M = SNext M1 -> frame_eq M M1 -> sim_result M1 sf r -> sim_result M sf r.
Proof.
  intros Hn F H. unfold sim_result in *. destruct r as [[|]|[[st' l'] vs']].
  - destruct H as (n & e & Hn2). exists (n1 + n)%nat, e. rewrite (nsteps_app _ _ _ _ Hn). exact Hn2.
  - exact I.
  - destruct H as (W & n & M' & Hn2 & R & F2). split; [exact W|]. exists (n1 + n)%nat, M'.
    split; [rewrite (nsteps_app _ _ _ _ Hn); exact Hn2|]. split; [exact R|eapply frame_eq_trans; eauto].
Qed.

(** ** memory stores *)
Lemma exec_store M pc t pk : store_valid t pk = true ->
  exec_op art mhost c consts M pc (store_opcode t pk) = do_store c consts M pc (store_width t pk).
Proof. destruct t, pk as [[]|]; try discriminate; reflexivity. Qed.

Lemma bytes_of_mod k : forall j x, (k <= j)%nat -> bytes_of k (x mod 256 ^ Z.of_nat j) = bytes_of k x.
Proof.
  induction k as [|k IH]; intros j x H; cbn [bytes_of]; [reflexivity|].
  destruct j as [|j]; [lia|]. rewrite Nat2Z.inj_succ, Z.pow_succ_r by lia.
  assert (P : 0 < 256 ^ Z.of_nat j) by (apply Z.pow_pos_nonneg; lia).
  f_equal.
  - rewrite Z.rem_mul_r by lia. rewrite (Z.mul_comm 256), Z.mod_add by lia. apply Z.mod_mod. lia.
  - rewrite Z.rem_mul_r by lia. rewrite (Z.mul_comm 256), Z.div_add by lia.
    rewrite (Z.div_small (x mod 256) 256) by (apply Z.mod_pos_bound; lia). rewrite Z.add_0_l. apply IH. lia.
Qed.

Lemma mem_write_data_ext bs : forall a b x, mem_data a = mem_data b -> mem_data (mem_write a x bs) = mem_data (mem_write b x bs).
Proof.
  induction bs as [|y r IH]; intros a b x E; cbn [mem_write]; [exact E|]. apply IH. unfold mem_set. cbn. rewrite E. reflexivity.
Qed.
Lemma mem_write_max bs : forall a x, mem_max (mem_write a x bs) = mem_max a.
Proof. induction bs; intros; cbn [mem_write]; auto. rewrite IHbs. reflexivity. Qed.
Lemma mem_write_bytes_ok bs : forall mm x, (forall a, 0 <= mem_get mm a < 256) -> Forall (fun b => 0 <= b < 256) bs ->
  forall a, 0 <= mem_get (mem_write mm x bs) a < 256.
Proof.
  induction bs as [|y r IH]; intros mm x H F a; cbn [mem_write]; [apply H|].
  inversion F; subst. apply IH; auto. intros a'. destruct (N.eq_dec x a') as [->|Hne].
  - rewrite SemProofs.mem_get_set_same. assumption.
  - rewrite SemProofs.mem_get_set_other by exact Hne. apply H.
Qed.

Lemma step_store s s1 t pk off st locals vs M :
  cwf nl s -> small s1 -> (off <? 4294967296)%N = true -> store_valid t pk = true -> rel s st locals vs M ->
  gi (set_last s None) (store_opcode t pk) (u32_bytes (Z.of_N off)) 2 false = Some s1 ->
  step_ok s s1 M (exec_simple cap (BStore t pk off) st locals vs) /\ c_last s1 = None.
Proof.
  intros W S1 Hoff Hval R Hgi. apply N.ltb_lt in Hoff.
  destruct (gi_compile s _ _ _ false s1 W Hgi) as (ps & rest & Es & Lps & Fps & Ec & Eb & W1 & Bn & (Es1 & Eo & El)).
  split; [|exact El]. destruct ps as [|pv [|pb [|? ?]]]; try discriminate Lps.
  exists (store_opcode t pk :: u32_bytes (Z.of_N off) ++ loc_bytes [pv; pb]). split; [exact Eo|].
  split; [split; [lia|exists []; rewrite app_nil_r; exact Ec]|]. intros Hc.
  assert (S : small s) by (eapply small_mono; eauto; lia).
  pose proof (r_stack _ _ _ _ _ R) as RS. rewrite Es in RS. cbn [app] in RS.
  inversion RS as [|? v ? vs1 Rv RS1]; subst. inversion RS1 as [|? vb ? restv Rb Rr]; subst.
  assert (Hpv : idx_ok (provider_idx pv)) by (inversion Fps; subst; eapply idx_ok_of_pwf; eauto; apply W).
  assert (Hpb : idx_ok (provider_idx pb)).
  { inversion Fps as [|? ? ? F2]; subst. inversion F2; subst. eapply idx_ok_of_pwf; eauto. apply W. }
  (* machine step *)
  rewrite <- (r_pc _ _ _ _ _ R) in Hc.
  apply code_at_cons in Hc. destruct Hc as [H0 Hc]. apply code_at_app in Hc. destruct Hc as [H1 H2].
  rewrite u32_bytes_length in H2. unfold loc_bytes in H2. cbn [flat_map] in H2. rewrite app_nil_r in H2.
  apply code_at_app in H2. destruct H2 as [H2 H3]. rewrite i32_bytes_length in H3.
  pose proof (code_at_u32 c _ (Z.of_N off) ltac:(lia) H1) as Eoff.
  pose proof (code_at_i32 c _ _ Hpv H2) as Ev. pose proof (code_at_i32 c _ _ Hpb H3) as Ebs.
  assert (Hstep : mstep M = do_store c consts M (ms_pc M + 1) (store_width t pk)).
  { rewrite (mstep_at M (r_idx _ _ _ _ _ R)), H0, N2Z.id. apply exec_store. exact Hval. }
  unfold do_store in Hstep. rewrite Eoff in Hstep.
  replace (ms_pc M + 1 + 4) with (ms_pc M + 1 + Z.of_nat 4) in Hstep by lia. rewrite Ev in Hstep.
  replace (ms_pc M + 1 + 8) with (ms_pc M + 1 + Z.of_nat 4 + Z.of_nat 4) in Hstep by lia. rewrite Ebs in Hstep.
  fold (denote M pv) in Hstep. fold (denote M pb) in Hstep.
  (* specification *)
  destruct vb as [i|i]; cbn [exec_simple]; [|destruct v; exact I].
  destruct (s_mem st) as [sm|] eqn:Esm; [|exact I].
  destruct (payload t v) as [x|] eqn:Epl; [|exact I].
  pose proof (r_mem _ _ _ _ _ R) as Hm. rewrite Esm in Hm. unfold mem_rel in Hm.
  destruct (ms_mem M) as [mm|] eqn:Em; [|contradiction]. destruct Hm as (Hp & Hd & Hl & Hb & Hby).
  cbn in Rb. assert (Hi : 0 <= i < 4294967296) by (rewrite <- Rb; apply low32_range).
  set (w := store_width t pk) in *.
  assert (Ew : match pk with None => type_bytes t | Some p => pack_bytes p end = w) by reflexivity.
  rewrite Ew. unfold as_u32 in Hstep. rewrite Rb in Hstep.
  assert (Eml : mlen M = Z.of_N (mem_len sm)) by (unfold mlen; rewrite Em; unfold mem_len; rewrite Hp; reflexivity).
  assert (Ebd : (i + Z.of_N off + Z.of_nat w <=? mlen M) = in_bounds sm (Z.to_N i + off) w).
  { unfold in_bounds. rewrite Eml.
    destruct (Z.leb_spec (i + Z.of_N off + Z.of_nat w) (Z.of_N (mem_len sm))), (N.leb_spec (Z.to_N i + off + N.of_nat w) (mem_len sm)); auto; lia. }
  rewrite Ebd in Hstep. unfold mem_store.
  destruct (in_bounds sm (Z.to_N i + off) w).
  - cbn [ok sim_result]. split; [exact W1|].
    eexists 1%nat, _. split; [cbn; rewrite Hstep; reflexivity|]. split; [|repeat split].
    assert (Ebytes : bytes_of w (denote M pv) = bytes_of w x).
    { destruct t, v as [z|z]; cbn in Epl; try discriminate; inversion Epl; subst x; cbn in Rv; rewrite <- Rv.
      - unfold low32, two32. change 4294967296 with (256 ^ Z.of_nat 4). symmetry. apply bytes_of_mod.
        unfold w, store_width. destruct pk as [[]|]; try discriminate Hval; cbn; lia.
      - unfold as_u64, two64. change 18446744073709551616 with (256 ^ Z.of_nat 8). symmetry. apply bytes_of_mod.
        unfold w, store_width. destruct pk as [[]|]; cbn; lia. }
    destruct R. constructor; cbn [ms_idx ms_pc ms_regs ms_base ms_globals ms_mem set_pc set_mmem]; auto.
    + unfold cur_off. rewrite Eo, app_length. cbn [length]. rewrite app_length, u32_bytes_length.
      unfold loc_bytes. cbn [flat_map]. rewrite app_nil_r, app_length, !i32_bytes_length. unfold cur_off in r_pc0. lia.
    + cbn [with_mem set_mem s_mem]. rewrite Ebytes. replace (Z.to_N (i + Z.of_N off)) with (Z.to_N i + off)%N by lia.
      repeat split.
      * rewrite !SemProofs.mem_write_pages. exact Hp.
      * apply mem_write_data_ext. exact Hd.
      * unfold grow_limit. rewrite mem_write_max. exact Hl.
      * rewrite SemProofs.mem_write_pages. exact Hb.
      * apply mem_write_bytes_ok; auto. apply bytes_of_range.
      * apply mem_write_bytes_ok; auto. apply bytes_of_range.
  - cbn [sim_result]. exists 1%nat, TMemory. cbn. rewrite Hstep. reflexivity.
Qed.

Definition is_set_tee (b : binstr) : option (nat * bool) :=
  match b with BLocalSet i => Some (i, true) | BLocalTee i => Some (i, false) | _ => None end.

(** ** facts about the compiler's output that need no invariant: the output only grows (apart
    from the 4 bytes patched by a short-circuited local.set), locations and constants grow *)
Definition grows (s s1 : cstate) : Prop := (exists t, c_out s1 = c_out s ++ t) /\ mono s s1.
Lemma grows_refl s : grows s s.
Proof. split; [exists []; rewrite app_nil_r; reflexivity|apply mono_refl]. Qed.
Lemma grows_trans a b d : grows a b -> grows b d -> grows a d.
Proof.
  intros [(t1 & E1) M1] [(t2 & E2) M2]. split; [exists (t1 ++ t2); rewrite E2, E1, app_assoc; reflexivity|].
  eapply mono_trans; eauto.
Qed.

Lemma consume_pure s p s' : consume s = Some (p, s') ->
  c_out s' = c_out s /\ c_next s' = c_next s /\ c_consts s' = c_consts s /\ c_last s' = c_last s.
Proof.
  unfold consume. destruct (c_stack s) as [|q st0]; [discriminate|].
  destruct (negb (existsb (provider_eqb q) st0)); intros H; inversion H; subst; clear H; destruct p; cbn; auto.
Qed.
Lemma push_consume_n_pure k : forall s s', push_consume_n k s = Some s' ->
  (exists t, c_out s' = c_out s ++ t) /\ c_next s' = c_next s /\ c_consts s' = c_consts s /\ c_last s' = c_last s.
Proof.
  induction k as [|k IH]; intros s s' H; cbn [push_consume_n] in H.
  - inversion H; subst. split; [exists []; rewrite app_nil_r; reflexivity|auto].
  - unfold push_consume in H. destruct (consume s) as [[p s1]|] eqn:E; [|discriminate].
    destruct (consume_pure _ _ _ E) as (A1 & A2 & A3 & A4).
    destruct (IH _ _ H) as ((t & B1) & B2 & B3 & B4). cbn in B1, B2, B3, B4.
    split; [exists (i32_bytes (provider_idx p) ++ t); rewrite B1, A1, app_assoc; reflexivity|].
    repeat split; congruence.
Qed.
Lemma dyn_get_pure s r s' : dyn_get s = (r, s') ->
  c_out s' = c_out s /\ c_next s <= c_next s' /\ c_consts s' = c_consts s /\ c_last s' = c_last s /\ c_stack s' = c_stack s.
Proof. unfold dyn_get. destruct (c_reuse s); intros H; inversion H; subst; cbn; repeat split; auto; lia. Qed.

Lemma gi_pure s opc imm k prov s1 :
  gi (set_last s None) opc imm k prov = Some s1 ->
  mono s s1 /\ exists pre,
    if prov then exists r, c_out s1 = (c_out s ++ pre) ++ i32_bytes r /\ c_last s1 = Some (Z.of_nat (length (c_out s ++ pre)))
    else c_out s1 = c_out s ++ pre /\ c_last s1 = None.
Proof.
  unfold gi. intros H.
  destruct (emit_imm_out (push_op (set_last s None) opc) imm) as (Eo & (Sa1 & Sa2 & Sa3 & Sa4) & Eb & El).
  destruct (push_consume_n k (emit_imm (push_op (set_last s None) opc) imm)) as [s2|] eqn:E; [|discriminate].
  destruct (push_consume_n_pure _ _ _ E) as ((t & B1) & B2 & B3 & B4).
  cbn [c_out c_next c_consts c_last c_stack c_reuse push_op emit set_out set_last] in *.
  destruct prov; inversion H; subst; clear H.
  - unfold push_provide, provide. destruct (dyn_get s2) as [r s3] eqn:Ed.
    destruct (dyn_get_pure _ _ _ Ed) as (D1 & D2 & D3 & D4 & D5).
    cbn [c_out c_next c_consts c_last emit set_out set_last set_stack cur_off].
    split; [split; [cbn [c_next c_consts set_last emit set_out set_stack]; lia
                   |exists []; cbn [c_next c_consts set_last emit set_out set_stack]; rewrite app_nil_r; congruence]|].
    exists ([opc] ++ imm ++ t). exists r. unfold cur_off. cbn [c_out set_stack]. rewrite D1, B1, Eo.
    split; [rewrite <- !app_assoc; reflexivity|]. f_equal. f_equal. rewrite <- !app_assoc. reflexivity.
  - split; [split; [lia|exists []; rewrite app_nil_r; congruence]|].
    exists ([opc] ++ imm ++ t). split; [rewrite B1, Eo, <- !app_assoc; reflexivity|congruence].
Qed.

Lemma set_tee_tail_pure s3 idx b s1 : set_tee_tail s3 idx b = Some s1 ->
  grows s3 s1 /\ c_last s1 = c_last s3.
Proof.
  unfold set_tee_tail, push_consume. destruct (consume (push_op s3 ICopy)) as [[p s4]|] eqn:E; [|discriminate].
  destruct (consume_pure _ _ _ E) as (A1 & A2 & A3 & A4). cbn in A1, A2, A3, A4.
  intros H. destruct b; inversion H; subst; clear H; cbn [c_last emit push_loc set_out set_stack provide_existing]; rewrite ?A4.
  all: unfold grows, mono; cbn [c_out c_next c_consts emit push_loc set_out set_stack provide_existing]; rewrite ?A1, ?A2, ?A3.
  all: split; [split; [exists ([ICopy] ++ i32_bytes (provider_idx p) ++ i32_bytes idx); rewrite <- !app_assoc; reflexivity
                      |split; [lia|exists []; rewrite app_nil_r; reflexivity]]|reflexivity].
Qed.

Lemma set_tee_pure lp s0 i b s1 :
  set_tee lp s0 i b = Some s1 -> (lp = None \/ has_local (Z.of_nat i) (c_stack s0) = true) ->
  grows s0 s1 /\ c_last s1 = c_last s0.
Proof.
  unfold set_tee. rewrite preserve_local_spec. intros H Hlp.
  destruct (has_local (Z.of_nat i) (c_stack s0)) eqn:Hl.
  - destruct (dyn_get s0) as [d s0'] eqn:Ed. destruct (dyn_get_pure _ _ _ Ed) as (D1 & D2 & D3 & D4 & D5).
    assert (Ht : set_tee_tail (push_loc (emit (push_op (set_stack s0' (map (subst_local (Z.of_nat i) (PDyn d)) (c_stack s0))) ICopy)
                                              (i32_bytes (Z.of_nat i))) (PDyn d)) (Z.of_nat i) b = Some s1) by (destruct lp; exact H).
    destruct (set_tee_tail_pure _ _ _ _ Ht) as (G & L). cbn in L. split; [|congruence].
    eapply grows_trans; [|exact G]. split.
    + exists ([ICopy] ++ i32_bytes (Z.of_nat i) ++ i32_bytes d). cbn. rewrite D1, <- !app_assoc. reflexivity.
    + split; [cbn; lia|exists []; cbn; rewrite app_nil_r; congruence].
  - destruct Hlp as [->|X]; [|discriminate].
    assert (Ht : set_tee_tail (set_stack s0 (c_stack s0)) (Z.of_nat i) b = Some s1) by exact H.
    destruct (set_tee_tail_pure _ _ _ _ Ht) as (G & L). split; [|exact L].
    eapply grows_trans; [|exact G]. split; [exists []; cbn; rewrite app_nil_r; reflexivity|split; [cbn; lia|exists []; cbn; rewrite app_nil_r; reflexivity]].
Qed.

Lemma straight_ok_straight b : straight_ok b = true -> straight b = true.
Proof. destruct b; cbn; try discriminate; auto; try (destruct t; try destruct op; cbn; auto; discriminate). Qed.

Lemma score_pure lp s b s1 :
  straight_ok b = true -> score lp (set_last s None) b = Some s1 ->
  (match is_set_tee b with Some (i, _) => lp = None \/ has_local (Z.of_nat i) (c_stack s) = true | None => True end) ->
  grows s s1 /\ (sim_gi b = true \/ c_last s1 = None).
Proof.
  intros Hok H Hsafe.
  assert (G0 : grows s (set_last s None)) by (split; [exists []; cbn; rewrite app_nil_r; reflexivity|split; [cbn; lia|exists []; cbn; rewrite app_nil_r; reflexivity]]).
  assert (GI : forall opc imm k prov, gi_shape b = Some (opc, imm, k, prov) -> gi (set_last s None) opc imm k prov = Some s1 ->
               (prov = true -> sim_gi b = true) ->
               grows s s1 /\ (sim_gi b = true \/ c_last s1 = None)).
  { intros opc imm k prov Hsh Hgi Hp'. destruct (gi_pure _ _ _ _ _ _ Hgi) as (Mo & pre & Hp). destruct prov.
    - destruct Hp as (r & E & _). split; [|left; auto]. split; [|exact Mo]. exists (pre ++ i32_bytes r). rewrite E, app_assoc. reflexivity.
    - destruct Hp as (E & L). split; [|right; exact L]. split; [|exact Mo]. exists pre. exact E. }
  destruct b; cbn [straight_ok] in Hok; try discriminate Hok; cbn [score] in H; cbn [is_set_tee] in Hsafe;
    try (cbn [gi_shape] in H; eapply GI; [reflexivity|exact H|intros; try discriminate; exact Hok]).
  - inversion H; subst. split; [exact G0|right; reflexivity].
  - destruct (consume (set_last s None)) as [[p s']|] eqn:E; [|discriminate]. inversion H; subst.
    destruct (consume_pure _ _ _ E) as (A1 & A2 & A3 & A4). cbn in A1, A2, A3, A4.
    split; [|right; exact A4]. split; [exists []; rewrite app_nil_r; exact A1|split; [lia|exists []; rewrite app_nil_r; exact A3]].
  - inversion H; subst. split; [|right; reflexivity]. exact G0.
  - destruct (set_tee_pure _ _ _ _ _ H Hsafe) as (G & L). split; [exact (grows_trans _ _ _ G0 G)|right; exact L].
  - destruct (set_tee_pure _ _ _ _ _ H Hsafe) as (G & L). split; [exact (grows_trans _ _ _ G0 G)|right; exact L].
  - inversion H; subst. unfold push_constant. destruct (find _ _) as [[? ?]|].
    + split; [exact G0|right; reflexivity].
    + split; [|right; reflexivity].
      split; [exists []; cbn; rewrite app_nil_r; reflexivity|split; [cbn; lia|eexists; cbn; reflexivity]].
Qed.

Lemma pair_pure s s1 s2 opc imm k i b :
  gi (set_last s None) opc imm k true = Some s1 -> has_local (Z.of_nat i) (c_stack s1) = false ->
  set_tee (c_last s1) (set_last s1 None) i b = Some s2 -> grows s s2 /\ c_last s2 = None.
Proof.
  intros Hgi Hl H. destruct (gi_pure _ _ _ _ _ _ Hgi) as (Mo & pre & r & Eo & El).
  unfold set_tee in H. rewrite preserve_local_spec in H. change (c_stack (set_last s1 None)) with (c_stack s1) in H.
  rewrite Hl, El in H.
  set (sb := back_patch (set_stack (set_last s1 None) (c_stack s1)) (Z.of_nat (length (c_out s ++ pre))) (Z.of_nat i)) in *.
  destruct (consume sb) as [[p s4]|] eqn:Ecs; [|discriminate].
  destruct (consume_pure _ _ _ Ecs) as (A1 & A2 & A3 & A4).
  assert (Eob : c_out sb = (c_out s ++ pre) ++ i32_bytes (Z.of_nat i)).
  { unfold sb, back_patch. cbn [c_out set_out set_stack set_last]. rewrite Eo, Nat2Z.id.
    apply overwrite_end. rewrite u32_bytes_length, i32_bytes_length. reflexivity. }
  change (c_next sb) with (c_next s1) in A2. change (c_consts sb) with (c_consts s1) in A3. change (c_last sb) with (@None Z) in A4.
  assert (F : c_out s2 = c_out sb /\ c_next s2 = c_next s1 /\ c_consts s2 = c_consts s1 /\ c_last s2 = None).
  { destruct b; inversion H; subst; cbn; rewrite ?A1, ?A2, ?A3, ?A4; auto. }
  destruct F as (F1 & F2 & F3 & F4). split; [|exact F4]. split.
  - exists (pre ++ i32_bytes (Z.of_nat i)). rewrite F1, Eob, app_assoc. reflexivity.
  - destruct Mo as [M1 (e & M2)]. split; [lia|exists e; congruence].
Qed.


Lemma sim_gi_shape b : sim_gi b = true -> exists opc imm k, gi_shape b = Some (opc, imm, k, true).
Proof. destruct b; cbn; try discriminate; intros; eauto. Qed.

(** a machine state related to any well-formed compile state (used to read off facts of the
    compiler that do not depend on the machine) *)
Lemma rel_dummy s : 0 <= nl -> 0 <= NR -> exists st locals vs M, rel s st locals vs M.
Proof.
  intros Hnl Hnr.
  set (M := {| ms_pc := cur_off s; ms_idx := fidx; ms_frames := []; ms_ret := None; ms_mem := None;
               ms_regs := repeat 0 (Z.to_nat NR); ms_base := O; ms_globals := []; ms_energy := 0%N |}).
  exists {| s_mem := None; s_globals := []; s_table := [] |}, (repeat (VI64 0) (Z.to_nat nl)),
         (map (fun p => VI64 (as_u64 (denote M p))) (c_stack s)), M.
  constructor; cbn; auto.
  - rewrite repeat_length. lia.
  - induction (c_stack s); cbn; constructor; auto. cbn. reflexivity.
  - rewrite repeat_length. lia.
  - intros i v Hi. assert (v = VI64 0).
    { apply nth_error_In in Hi. apply repeat_spec in Hi. exact Hi. }
    subst v. cbn. unfold reg. cbn. assert (E : nth (Z.to_nat (Z.of_nat i)) (repeat 0 (Z.to_nat NR)) 0 = 0).
    { destruct (nth_in_or_default (Z.to_nat (Z.of_nat i)) (repeat 0 (Z.to_nat NR)) 0) as [Hin|E]; auto.
      apply repeat_spec in Hin. exact Hin. }
    rewrite E. reflexivity.
Qed.

Definition safe (s : cstate) (bs : list binstr) : Prop :=
  match bs with
  | b :: _ => match is_set_tee b with
              | Some (i, _) => c_last s = None \/ has_local (Z.of_nat i) (c_stack s) = true
              | None => True
              end
  | [] => True
  end.

Lemma step_one cx b s v1 s1 st locals vs M :
  straight_ok b = true -> handle_opcode cx s v1 Reachable (OBasic b) = Some s1 ->
  cwf nl s -> small s1 -> consts_ok s1 -> safe s [b] -> rel s st locals vs M ->
  step_ok s s1 M (exec_simple cap b st locals vs) /\ (sim_gi b = true \/ c_last s1 = None).
Proof.
  intros Hok H W S1 CO Hsafe R.
  destruct (handle_score cx s v1 b s1 (straight_ok_straight b Hok) H) as [Hsc _].
  assert (GI : sim_gi b = true -> step_ok s s1 M (exec_simple cap b st locals vs) /\ (sim_gi b = true \/ c_last s1 = None)).
  { intros Hg. destruct (sim_gi_shape b Hg) as (opc & imm & k & Hsh).
    assert (Hgi : gi (set_last s None) opc imm k true = Some s1).
    { destruct b; cbn [sim_gi] in Hg; try discriminate Hg; cbn [score gi_shape] in Hsc; cbn [gi_shape] in Hsh;
        inversion Hsh; subst; exact Hsc. }
    destruct (step_gi_prov b opc imm k s s1 st locals vs M Hsh Hg W S1 Hgi R) as (Hs & _). split; auto. }
  destruct b; cbn [straight_ok] in Hok; try (apply GI; exact Hok); try discriminate Hok; cbn [score] in Hsc.
  - (* nop *) inversion Hsc; subst. destruct (step_nop s st locals vs M W R). split; auto.
  - (* drop *) destruct (consume (set_last s None)) as [[p s']|] eqn:E; [|discriminate]. inversion Hsc; subst.
    destruct (step_drop s s1 p st locals vs M W R E). split; auto.
  - (* local.get *) inversion Hsc; subst. destruct (step_local_get s i st locals vs M W R). split; auto.
  - (* local.set *) cbn in Hsafe. destruct (step_set_tee s (c_last s) s1 i true st locals vs M W S1 Hsafe R Hsc). split; auto.
  - (* local.tee *) cbn in Hsafe. destruct (step_set_tee s (c_last s) s1 i false st locals vs M W S1 Hsafe R Hsc). split; auto.
  - (* global.set *) apply Z.ltb_lt in Hok. cbn [gi_shape] in Hsc.
    destruct (step_global_set s s1 i st locals vs M W S1 Hok R Hsc). split; auto.
  - (* store *) apply andb_true_iff in Hok. destruct Hok as [Ho Hv]. cbn [gi_shape] in Hsc.
    destruct (step_store s s1 t pk offset st locals vs M W S1 Ho Hv R Hsc). split; auto.
  - (* const *) apply andb_true_iff in Hok. destruct Hok as [H0 H1]. apply Z.leb_le in H0. apply Z.ltb_lt in H1.
    inversion Hsc; subst.
    destruct (step_const s t z st locals vs M W R (conj H0 H1) CO). split; auto.
Qed.

Lemma step_two cx b1 b2 i is_set s v1 v2 s1 s2 st locals vs M :
  straight_ok b1 = true -> sim_gi b1 = true -> is_set_tee b2 = Some (i, is_set) -> straight_ok b2 = true ->
  handle_opcode cx s v1 Reachable (OBasic b1) = Some s1 ->
  handle_opcode cx s1 v2 Reachable (OBasic b2) = Some s2 ->
  has_local (Z.of_nat i) (c_stack s1) = false ->
  cwf nl s -> small s2 -> rel s st locals vs M ->
  step_ok s s2 M (match exec_simple cap b1 st locals vs with
                  | inr (st', l', vs') => exec_simple cap b2 st' l' vs'
                  | inl x => inl x
                  end) /\ c_last s2 = None.
Proof.
  intros Hok1 Hg Hst Hok2 H1 H2 Hl W S2 R.
  destruct (handle_score cx s v1 b1 s1 (straight_ok_straight b1 Hok1) H1) as [Hsc1 _].
  destruct (handle_score cx s1 v2 b2 s2 (straight_ok_straight b2 Hok2) H2) as [Hsc2 _].
  destruct (sim_gi_shape b1 Hg) as (opc & imm & k & Hsh).
  assert (Hgi : gi (set_last s None) opc imm k true = Some s1).
  { destruct b1; cbn [sim_gi] in Hg; try discriminate Hg; cbn [score gi_shape] in Hsc1; cbn [gi_shape] in Hsh;
      inversion Hsh; subst; exact Hsc1. }
  destruct b2; cbn [is_set_tee] in Hst; try discriminate Hst; inversion Hst; subst; cbn [score] in Hsc2;
    cbn [straight_ok] in Hok2; apply Z.ltb_lt in Hok2.
  - exact (step_pair b1 opc imm k s s1 s2 i true st locals vs M Hsh Hg W S2 Hok2 Hgi Hl Hsc2 R).
  - exact (step_pair b1 opc imm k s s1 s2 i false st locals vs M Hsh Hg W S2 Hok2 Hgi Hl Hsc2 R).
Qed.

(** classification of the next step: a providing instruction followed by a short-circuited
    local.set / local.tee is handled as one unit *)
Lemma next_case b1 rest s1 :
  (exists b2 rest' i is_set, rest = b2 :: rest' /\ sim_gi b1 = true /\ is_set_tee b2 = Some (i, is_set)
                            /\ has_local (Z.of_nat i) (c_stack s1) = false)
  \/ (sim_gi b1 = true \/ c_last s1 = None -> safe s1 rest).
Proof.
  destruct rest as [|b2 rest']; [right; intros; exact I|].
  destruct (is_set_tee b2) as [[i is_set]|] eqn:Est; [|right; intros; cbn; rewrite Est; exact I].
  destruct (sim_gi b1) eqn:Hg.
  - destruct (has_local (Z.of_nat i) (c_stack s1)) eqn:Hl.
    + right. intros _. cbn. rewrite Est. right. exact Hl.
    + left. exists b2, rest', i, is_set. auto.
  - right. intros [X|X]; [discriminate|]. cbn. rewrite Est. left. exact X.
Qed.

Lemma safe_last_none s bs : c_last s = None -> safe s bs.
Proof. intros H. destruct bs as [|b r]; cbn; auto. destruct (is_set_tee b) as [[i ?]|]; auto. Qed.

Lemma compile_grows cx n : forall bs s v v' sf,
  (length bs <= n)%nat -> forallb straight_ok bs = true ->
  compile_ops cx (map OBasic bs) v s = Some (v', sf) -> v_unreach v = None -> safe s bs ->
  grows s sf.
Proof.
  induction n as [|n IH]; intros bs s v v' sf Hlen Hok Hc Hu Hsafe.
  - destruct bs; [|cbn in Hlen; lia]. cbn in Hc. inversion Hc; subst. apply grows_refl.
  - destruct bs as [|b1 rest]; [cbn in Hc; inversion Hc; subst; apply grows_refl|].
    cbn [forallb] in Hok. apply andb_true_iff in Hok. destruct Hok as [Hok1 Hokr].
    cbn [map compile_ops] in Hc.
    assert (Hreach : v_reachability v = Reachable) by (unfold v_reachability; rewrite Hu; reflexivity).
    rewrite Hreach in Hc.
    destruct (vstep cx v (OBasic b1)) as [v1|] eqn:Ev1; [|discriminate].
    destruct (handle_opcode cx s v1 Reachable (OBasic b1)) as [s1|] eqn:Eh1; [|discriminate].
    pose proof (straight_vstep cx v b1 v1 (straight_ok_straight b1 Hok1) Hu Ev1) as Hu1.
    destruct (handle_score cx s v1 b1 s1 (straight_ok_straight b1 Hok1) Eh1) as [Hsc1 _].
    destruct (next_case b1 rest s1) as [(b2 & rest' & i & is_set & -> & Hg & Est & Hl)|Hsafe1].
    + cbn [forallb] in Hokr. apply andb_true_iff in Hokr. destruct Hokr as [Hok2 Hokr'].
      cbn [map compile_ops] in Hc.
      assert (Hreach1 : v_reachability v1 = Reachable) by (unfold v_reachability; rewrite Hu1; reflexivity).
      rewrite Hreach1 in Hc.
      destruct (vstep cx v1 (OBasic b2)) as [v2|] eqn:Ev2; [|discriminate].
      destruct (handle_opcode cx s1 v2 Reachable (OBasic b2)) as [s2|] eqn:Eh2; [|discriminate].
      pose proof (straight_vstep cx v1 b2 v2 (straight_ok_straight b2 Hok2) Hu1 Ev2) as Hu2.
      destruct (handle_score cx s1 v2 b2 s2 (straight_ok_straight b2 Hok2) Eh2) as [Hsc2 _].
      destruct (sim_gi_shape b1 Hg) as (opc & imm & k & Hsh).
      assert (Hgi : gi (set_last s None) opc imm k true = Some s1).
      { destruct b1; cbn [sim_gi] in Hg; try discriminate Hg; cbn [score gi_shape] in Hsc1; cbn [gi_shape] in Hsh;
          inversion Hsh; subst; exact Hsc1. }
      assert (Hst : set_tee (c_last s1) (set_last s1 None) i is_set = Some s2).
      { destruct b2; cbn [is_set_tee] in Est; try discriminate Est; inversion Est; subst; exact Hsc2. }
      destruct (pair_pure s s1 s2 opc imm k i is_set Hgi Hl Hst) as (G & L).
      eapply grows_trans; [exact G|]. eapply (IH rest'); eauto. { cbn in Hlen. lia. } apply safe_last_none. exact L.
    + assert (Hs1 : match is_set_tee b1 with Some (i, _) => c_last s = None \/ has_local (Z.of_nat i) (c_stack s) = true | None => True end).
      { cbn in Hsafe. exact Hsafe. }
      destruct (score_pure (c_last s) s b1 s1 Hok1 Hsc1 Hs1) as (G & Hn).
      eapply grows_trans; [exact G|]. eapply (IH rest); eauto. cbn in Hlen. lia.
Qed.

Lemma straight_main cx n : forall bs s v v' sf st locals vs M tail,
  (length bs <= n)%nat -> forallb straight_ok bs = true ->
  compile_ops cx (map OBasic bs) v s = Some (v', sf) -> v_unreach v = None ->
  cwf nl s -> small sf -> consts_ok sf -> safe s bs ->
  rel s st locals vs M -> c_out sf = c_out s ++ tail -> code_at c (cur_off s) tail ->
  sim_result M sf (straight_sem bs st locals vs).
Proof.
  induction n as [|n IH]; intros bs s v v' sf st locals vs M tail Hlen Hok Hc Hu W Sf COf Hsafe R Et Hcode'.
  - destruct bs; [|cbn in Hlen; lia]. cbn in Hc. inversion Hc; subst. cbn.
    split; [exact W|]. exists O, M. split; [reflexivity|]. split; [exact R|apply frame_eq_refl].
  - destruct bs as [|b1 rest].
    { cbn in Hc. inversion Hc; subst. cbn. split; [exact W|]. exists O, M. split; [reflexivity|]. split; [exact R|apply frame_eq_refl]. }
    cbn [forallb] in Hok. apply andb_true_iff in Hok. destruct Hok as [Hok1 Hokr].
    cbn [map compile_ops] in Hc.
    assert (Hreach : v_reachability v = Reachable) by (unfold v_reachability; rewrite Hu; reflexivity).
    rewrite Hreach in Hc.
    destruct (vstep cx v (OBasic b1)) as [v1|] eqn:Ev1; [|discriminate].
    destruct (handle_opcode cx s v1 Reachable (OBasic b1)) as [s1|] eqn:Eh1; [|discriminate].
    pose proof (straight_vstep cx v b1 v1 (straight_ok_straight b1 Hok1) Hu Ev1) as Hu1.
    destruct (next_case b1 rest s1) as [(b2 & rest' & i & is_set & -> & Hg & Est & Hl)|Hsafe1].
    + (* pair *)
      cbn [forallb] in Hokr. apply andb_true_iff in Hokr. destruct Hokr as [Hok2 Hokr'].
      cbn [map compile_ops] in Hc.
      assert (Hreach1 : v_reachability v1 = Reachable) by (unfold v_reachability; rewrite Hu1; reflexivity).
      rewrite Hreach1 in Hc.
      destruct (vstep cx v1 (OBasic b2)) as [v2|] eqn:Ev2; [|discriminate].
      destruct (handle_opcode cx s1 v2 Reachable (OBasic b2)) as [s2|] eqn:Eh2; [|discriminate].
      pose proof (straight_vstep cx v1 b2 v2 (straight_ok_straight b2 Hok2) Hu1 Ev2) as Hu2.
      (* growth of the rest, without invariant *)
      assert (L2 : c_last s2 = None).
      { destruct (handle_score cx s v1 b1 s1 (straight_ok_straight b1 Hok1) Eh1) as [Hsc1 _].
        destruct (handle_score cx s1 v2 b2 s2 (straight_ok_straight b2 Hok2) Eh2) as [Hsc2 _].
        destruct (sim_gi_shape b1 Hg) as (opc & imm & k & Hsh).
        assert (Hgi : gi (set_last s None) opc imm k true = Some s1).
        { destruct b1; cbn [sim_gi] in Hg; try discriminate Hg; cbn [score gi_shape] in Hsc1; cbn [gi_shape] in Hsh;
            inversion Hsh; subst; exact Hsc1. }
        assert (Hst : set_tee (c_last s1) (set_last s1 None) i is_set = Some s2).
        { destruct b2; cbn [is_set_tee] in Est; try discriminate Est; inversion Est; subst; exact Hsc2. }
        apply (pair_pure s s1 s2 opc imm k i is_set Hgi Hl Hst). }
      assert (G2 : grows s2 sf).
      { eapply (compile_grows cx n rest'); eauto. { cbn in Hlen. lia. } apply safe_last_none. exact L2. }
      destruct G2 as [(t2 & E2) Mo2].
      assert (S2 : small s2) by (eapply small_of_mono; eauto).
      destruct (step_two cx b1 b2 i is_set s v1 v2 s1 s2 st locals vs M Hok1 Hg Est Hok2 Eh1 Eh2 Hl W S2 R)
        as [(t1 & E1 & Mo1 & Hsim) _].
      assert (Etail : tail = t1 ++ t2).
      { rewrite E2, E1, <- app_assoc in Et. apply app_inv_head in Et. symmetry; exact Et. }
      subst tail. apply code_at_app in Hcode'. destruct Hcode' as [Hc1 Hc2].
      specialize (Hsim Hc1). cbn [straight_sem].
      unfold sim_result in Hsim.
      destruct (exec_simple cap b1 st locals vs) as [[|]|[[st1 l1] vs1]].
      * exact Hsim.
      * exact I.
      * destruct (exec_simple cap b2 st1 l1 vs1) as [[|]|[[st2 l2] vs2']].
        -- exact Hsim.
        -- exact I.
        -- destruct Hsim as (W2 & n1 & M1 & Hn1 & R1 & F1).
           eapply (sim_compose M M1 sf n1); eauto.
           eapply (IH rest' s2 v2 v' sf st2 l2 vs2' M1 t2); eauto.
           ++ cbn in Hlen. lia.
           ++ apply safe_last_none. exact L2.
           ++ rewrite (cur_off_app s s2 t1 E1). exact Hc2.
    + (* single instruction *)
      destruct (handle_score cx s v1 b1 s1 (straight_ok_straight b1 Hok1) Eh1) as [Hsc1 _].
      assert (Hs1 : match is_set_tee b1 with Some (i, _) => c_last s = None \/ has_local (Z.of_nat i) (c_stack s) = true | None => True end).
      { cbn in Hsafe. exact Hsafe. }
      destruct (score_pure (c_last s) s b1 s1 Hok1 Hsc1 Hs1) as (G1 & Hn1).
      pose proof (Hsafe1 Hn1) as Hsafe1'.
      assert (G2 : grows s1 sf).
      { eapply (compile_grows cx n rest); eauto. cbn in Hlen. lia. }
      destruct G2 as [(t2 & E2) Mo2].
      assert (S1 : small s1) by (eapply small_of_mono; eauto).
      assert (CO1 : consts_ok s1) by (eapply consts_ok_of_mono; eauto).
      assert (Hsf : safe s [b1]) by (cbn in *; exact Hsafe).
      destruct (step_one cx b1 s v1 s1 st locals vs M Hok1 Eh1 W S1 CO1 Hsf R) as [(t1 & E1 & Mo1 & Hsim) _].
      assert (Etail : tail = t1 ++ t2).
      { rewrite E2, E1, <- app_assoc in Et. apply app_inv_head in Et. symmetry; exact Et. }
      subst tail. apply code_at_app in Hcode'. destruct Hcode' as [Hc1 Hc2].
      specialize (Hsim Hc1). cbn [straight_sem]. unfold sim_result in Hsim.
      destruct (exec_simple cap b1 st locals vs) as [[|]|[[st1 l1] vs1]].
      * exact Hsim.
      * exact I.
      * destruct Hsim as (W1 & n1 & M1 & Hn1' & R1 & F1).
        eapply (sim_compose M M1 sf n1); eauto.
        eapply (IH rest s1 v1 v' sf st1 l1 vs1 M1 t2); eauto.
        -- cbn in Hlen. lia.
        -- rewrite (cur_off_app s s1 t1 E1). exact Hc2.
Qed.

End Straight.

(** * The theorem in closed form: compilation from an empty provider stack *)
Definition init_cstate (next : Z) : cstate :=
  {| c_out := []; c_bp := []; c_stack := []; c_next := next; c_reuse := []; c_consts := []; c_last := None |}.
Definition init_vstate (ret : blocktype) : vstate :=
  v_push_ctrl false ret ret {| v_opds := 0; v_ctrls := []; v_unreach := None |}.

Lemma cwf_init nl next : 0 <= nl <= next -> cwf nl (init_cstate next).
Proof.
  intros H. constructor; cbn; auto.
  - intros k v idx Hk. destruct k; discriminate.
Qed.

Theorem straightline_correct :
  forall (art : artifact) (mhost : nat -> list Z -> option (option Z)) (cap : N) (cx : cctx)
         (bs : list binstr) (ret : blocktype) (nl next : Z) (v' : vstate) (sf : cstate),
    forallb straight_ok bs = true ->
    0 <= nl <= next ->
    compile_ops cx (map OBasic bs) (init_vstate ret) (init_cstate next) = Some (v', sf) ->
    c_next sf < 2147483648 -> Z.of_nat (length (c_consts sf)) < 2147483648 ->
    forall (codes : list (code_map * list Z)) (fidx : nat) (rest_code : list N),
      nth_error codes fidx
        = Some (build_code (c_out sf ++ rest_code) xH (PositiveMap.empty N), map fst (c_consts sf)) ->
      forall (st : store) (locals : list val) (M : mstate),
        rel art fidx (map fst (c_consts sf)) nl (c_next sf) cap (init_cstate next) st locals [] M ->
        sim_result art mhost codes fidx (map fst (c_consts sf)) nl (c_next sf) cap M sf
                   (straight_sem cap bs st locals []).
Proof.
  intros art mhost cap cx bs ret nl next v' sf Hok Hnl Hc Hn Hcs codes fidx rest_code Hcodes st locals M R.
  eapply (straight_main art mhost codes fidx _ (map fst (c_consts sf)) Hcodes nl (c_next sf) Hn cap cx (length bs) bs
            (init_cstate next) (init_vstate ret) v' sf st locals [] M (c_out sf)); eauto.
  - apply cwf_init. exact Hnl.
  - split; [lia|exact Hcs].
  - intros k v idx Hk. rewrite (nth_indep _ 0 (fst (v, idx))). 2:{ rewrite map_length. apply nth_error_Some. congruence. }
    rewrite map_nth. erewrite nth_error_nth; [|exact Hk]. reflexivity.
  - apply safe_last_none. reflexivity.
  - cbn. eapply code_at_prefix. apply build_code_at.
Qed.

(** the specification's [exec_seq] on straight-line code is [straight_sem] *)
Lemma exec_seq_straight host cap m bs : forall fuel s locals vs,
  forallb straight_ok bs = true -> (length bs + 2 <= fuel)%nat ->
  exec_seq host cap m fuel s locals vs (map Basic bs) =
  match straight_sem cap bs s locals vs with
  | inr (s', l', vs') => RNormal s' l' vs'
  | inl true => RTrap
  | inl false => RStuck
  end.
Proof.
  induction bs as [|b r IH]; intros fuel s locals vs Hok Hf.
  - destruct fuel; [cbn in Hf; lia|]. reflexivity.
  - cbn [forallb] in Hok. apply andb_true_iff in Hok. destruct Hok as [Hb Hr].
    destruct fuel as [|[|f]]; try (cbn in Hf; lia).
    cbn [map straight_sem].
    assert (E : exec_seq host cap m (S (S f)) s locals vs (Basic b :: map Basic r) =
                match exec_simple cap b s locals vs with
                | inr (s', l', st') => exec_seq host cap m (S f) s' l' st' (map Basic r)
                | inl true => RTrap
                | inl false => RStuck
                end).
    { destruct b; try discriminate Hb; cbn [exec_seq exec_instr];
        destruct (exec_simple cap _ s locals vs) as [[|]|[[? ?] ?]]; reflexivity. }
    rewrite E. destruct (exec_simple cap b s locals vs) as [[|]|[[s' l'] vs']]; try reflexivity.
    apply IH; auto. cbn in Hf. lia.
Qed.
