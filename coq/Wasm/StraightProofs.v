(** * compile_straightline_correct — the compiler model [Compile.v] followed by the machine
    model [Machine.v] simulates the reference semantics [Sem.v] on straight-line code.

    Setting: a function body fragment [bs] of basic instructions without control flow
    ([straight_ok]); the compiler state before it is well formed ([cwf]); the machine runs the
    emitted bytes (found in the code map at the current offset) from a state related to the
    specification state by [rel]: every provider on the compile-time stack denotes the value at
    the same position of the operand stack, registers [0,nl) hold the locals, globals and memory
    agree.  Then the specification's result and the machine's are related again / both trap. *)
From Coq Require Import ZArith NArith List Lia Bool FMapPositive.
From CB Require Import Common.IntN Common.IntNProofs Wasm.Syntax Wasm.Opcodes Wasm.Sem Wasm.Compile Wasm.Machine
     Wasm.MachineLemmas Wasm.CompileLemmas Wasm.NumOpsProofs.
Import ListNotations.
Local Open Scope Z_scope.
Local Arguments i32_bytes : simpl never.
Local Arguments u32_bytes : simpl never.
Local Arguments u16_bytes : simpl never.

(** a register pattern represents a value: only the low 32 bits matter for i32 *)
Definition repr (r : Z) (v : val) : Prop :=
  match v with VI32 z => low32 r = z | VI64 z => as_u64 r = z end.

Lemma repr_i32_range r z : repr r (VI32 z) -> IntNProofs.in_range 32 z.
Proof. cbn. intros <-. unfold IntNProofs.in_range. change (modulus 32) with 4294967296. apply low32_range. Qed.
Lemma repr_i64_range r z : repr r (VI64 z) -> IntNProofs.in_range 64 z.
Proof. cbn. intros <-. unfold IntNProofs.in_range. change (modulus 64) with 18446744073709551616. apply as_u64_range. Qed.

Section Straight.
Variable art : artifact.
Variable mhost : nat -> list Z -> option (option Z).
Variable codes : list (code_map * list Z).
Variable fidx : nat.
Variable c : code_map.
Variable consts : list Z.
Hypothesis Hcode : nth_error codes fidx = Some (c, consts).
Variable nl : Z.                       (* registers [0, nl) are the locals *)
Variable NR : Z.                       (* registers of the frame: num_registers *)
Hypothesis NR_small : NR < 2147483648.
Variable cap : N.                      (* page cap of the specification's memory.grow *)

Notation mstep := (step art mhost codes).
Fixpoint nsteps (n : nat) (M : mstate) : step_res :=
  match n with
  | O => SNext M
  | S k => match mstep M with SNext M' => nsteps k M' | r => r end
  end.
Lemma nsteps_app n m M M' : nsteps n M = SNext M' -> nsteps (n + m) M = nsteps m M'.
Proof.
  revert M. induction n; intros M H; cbn in *.
  - inversion H; reflexivity.
  - destruct (mstep M); try discriminate. apply IHn. exact H.
Qed.

Definition denote (M : mstate) (p : provider) : Z := get_local consts M (provider_idx p).

(** same frame: everything but pc, registers' contents, memory, globals *)
Definition frame_eq (M M' : mstate) : Prop :=
  ms_idx M' = ms_idx M /\ ms_frames M' = ms_frames M /\ ms_ret M' = ms_ret M /\ ms_base M' = ms_base M
  /\ length (ms_regs M') = length (ms_regs M) /\ ms_energy M' = ms_energy M.
Lemma frame_eq_refl M : frame_eq M M. Proof. repeat split. Qed.
Lemma frame_eq_trans A B C : frame_eq A B -> frame_eq B C -> frame_eq A C.
Proof. unfold frame_eq. intuition congruence. Qed.

Definition max_memory : Z := match a_memory art with Some (_, mx, _) => Z.of_N mx | None => 0 end.
Definition mem_rel (mm : option memory) (sm : option memory) : Prop :=
  match mm, sm with
  | None, None => True
  | Some a, Some b => mem_pages a = mem_pages b /\ mem_data a = mem_data b /\ Z.of_N (grow_limit cap b) = max_memory
  | _, _ => False
  end.

Definition consts_ok (s : cstate) : Prop :=
  forall k v idx, nth_error (c_consts s) k = Some (v, idx) -> nth k consts 0 = v.
Definition small (s : cstate) : Prop := c_next s <= NR /\ Z.of_nat (length (c_consts s)) < 2147483648.

Record rel (s : cstate) (st : store) (locals vs : list val) (M : mstate) : Prop := {
  r_idx : ms_idx M = fidx;
  r_pc : ms_pc M = cur_off s;
  r_regs : (ms_base M + Z.to_nat NR <= length (ms_regs M))%nat;
  r_stack : Forall2 (fun p v => repr (denote M p) v) (c_stack s) vs;
  r_nl : Z.of_nat (length locals) = nl;
  r_locals : forall i v, nth_error locals i = Some v -> repr (reg M (Z.of_nat i)) v;
  r_globals : Forall2 repr (ms_globals M) (s_globals st);
  r_mem : mem_rel (ms_mem M) (s_mem st)
}.

(** ** register file lemmas *)
Lemma reg_set_reg_same M d x : 0 <= d -> (ms_base M + Z.to_nat d < length (ms_regs M))%nat ->
  reg (set_reg M d x) d = x.
Proof. intros H0 H. unfold reg, set_reg. cbn. apply nth_list_set_same. exact H. Qed.
Lemma reg_set_reg_other M d x i : 0 <= d -> 0 <= i -> i <> d -> reg (set_reg M d x) i = reg M i.
Proof. intros H0 H1 H. unfold reg, set_reg. cbn. apply nth_list_set_other. lia. Qed.
Lemma get_local_set_reg M d x i : 0 <= d -> (ms_base M + Z.to_nat d < length (ms_regs M))%nat ->
  get_local consts (set_reg M d x) i = if i =? d then x else get_local consts M i.
Proof.
  intros H0 H. unfold get_local. destruct (Z.leb_spec 0 i).
  - destruct (Z.eqb_spec i d) as [->|Hne]; [apply reg_set_reg_same; auto|apply reg_set_reg_other; auto].
  - destruct (Z.eqb_spec i d); [lia|reflexivity].
Qed.
Lemma get_local_set_pc M pc i : get_local consts (set_pc M pc) i = get_local consts M i.
Proof. reflexivity. Qed.

Lemma idx_ok_of_pwf s p : small s -> 0 <= nl <= c_next s -> pwf nl s p -> -2147483648 <= provider_idx p < 2147483648.
Proof.
  intros [S1 S2] Hnl H. pose proof NR_small. destruct p as [r|i|k]; cbn [pwf provider_idx] in *.
  - destruct H as [[? ?] _]. lia.
  - lia.
  - destruct H as [Hneg (v & Hv)]. assert (Z.to_nat (- (k + 1)) < length (c_consts s))%nat by (apply nth_error_Some; congruence). lia.
Qed.

(** reading operand locations from the code *)
Lemma code_at_locs ps : forall pc,
  code_at c pc (loc_bytes ps) -> Forall (fun p => -2147483648 <= provider_idx p < 2147483648) ps ->
  forall j p, nth_error ps j = Some p -> get_i32 c (pc + 4 * Z.of_nat j) = provider_idx p.
Proof.
  induction ps as [|q r IH]; intros pc H F j p Hj; [destruct j; discriminate|].
  unfold loc_bytes in H. cbn [flat_map] in H. apply code_at_app in H. destruct H as [H1 H2].
  rewrite i32_bytes_length in H2. inversion F; subst.
  destruct j as [|j]; cbn in Hj.
  - inversion Hj; subst. rewrite Z.add_0_r. apply code_at_i32; auto.
  - replace (pc + 4 * Z.of_nat (S j)) with (pc + 4 + 4 * Z.of_nat j) by lia. apply IH; auto.
Qed.
Lemma loc_bytes_length ps : length (loc_bytes ps) = (4 * length ps)%nat.
Proof. induction ps; cbn; auto. unfold loc_bytes in *. cbn [flat_map]. rewrite app_length, i32_bytes_length, IHps. lia. Qed.

Lemma mstep_at M : ms_idx M = fidx -> mstep M = exec_op art mhost c consts M (ms_pc M + 1) (Z.to_N (byte_at c (ms_pc M))).
Proof. intros E. unfold step. rewrite E, Hcode. reflexivity. Qed.

(** ** machine semantics of the "generic" instructions (opcode, immediates, k sources, target) *)
Definition grow_result (M : mstate) (v : Z) : (Z -> Z) * mstate :=
  let n := as_u32 v in
  let sz := mlen M / 65536 in
  if sz + n >? max_memory then (fun old => set_short old (-1), M)
  else (fun old => set_short old sz,
        match ms_mem M with
        | Some mm => if n =? 0 then M else
                     set_mmem M {| mem_pages := Z.to_N (sz + n); mem_max := mem_max mm; mem_data := mem_data mm |}
        | None => M
        end).

Definition gi_val (b : binstr) (srcs : list Z) (M : mstate) : option (sum trap_reason ((Z -> Z) * mstate)) :=
  match b, srcs with
  | BUnop T_i32 o, [s] => Some (inr (fun old => set_short old (rs_unop32 o s), M))
  | BUnop T_i64 o, [s] => Some (inr (fun old => set_long old (rs_unop64 o s), M))
  | BEqz T_i32, [s] => Some (inr (fun old => set_short old (rs_eqz32 s), M))
  | BEqz T_i64, [s] => Some (inr (fun old => set_short old (rs_eqz64 s), M))
  | BCvt WrapI64, [s] => Some (inr (fun old => set_short old (rs_cvt WrapI64 s), M))
  | BCvt ExtendI32S, [s] => Some (inr (fun old => set_long old (rs_cvt ExtendI32S s), M))
  | BCvt ExtendI32U, [s] => Some (inr (fun old => set_long old (rs_cvt ExtendI32U s), M))
  | BBinop T_i32 o, [r; l] =>
      Some (match rs_binop 32 o (as_i32 l) (as_i32 r) (as_u32 l) (as_u32 r) with
            | inr x => inr (fun old => set_short old x, M) | inl e => inl e end)
  | BBinop T_i64 o, [r; l] =>
      Some (match rs_binop 64 o (as_i64 l) (as_i64 r) (as_u64 l) (as_u64 r) with
            | inr x => inr (fun old => set_long old x, M) | inl e => inl e end)
  | BRelop T_i32 o, [r; l] =>
      Some (inr (fun old => set_short old (rs_relop o (as_i32 l) (as_i32 r) (as_u32 l) (as_u32 r)), M))
  | BRelop T_i64 o, [r; l] =>
      Some (inr (fun old => set_short old (rs_relop o (as_i64 l) (as_i64 r) (as_u64 l) (as_u64 r)), M))
  | BSelect, [top; t2; t1] => Some (inr (fun _ => if as_i32 top =? 0 then t2 else t1, M))
  | BGlobalGet i, [] => Some (inr (fun _ => nth i (ms_globals M) 0, M))
  | BMemorySize, [] => Some (inr (fun _ => from_i32 (mlen M / 65536), M))
  | BMemoryGrow, [v] => Some (inr (grow_result M v))
  | _, _ => None
  end.

(** the instruction classes covered by the simulation theorem *)
Definition sim_gi (b : binstr) : bool :=
  match b with
  | BUnop T_i32 Extend32S => false
  | BGlobalGet i => Z.of_nat i <? 65536
  | BUnop _ _ | BEqz _ | BCvt _ | BBinop _ _ | BRelop _ _ | BSelect | BMemorySize | BMemoryGrow => true
  | _ => false
  end.

Lemma gi_fields pc0 opc imm ps d :
  code_at c pc0 (opc :: imm ++ loc_bytes ps ++ i32_bytes d) ->
  Forall (fun p => -2147483648 <= provider_idx p < 2147483648) ps -> -2147483648 <= d < 2147483648 ->
  byte_at c pc0 = Z.of_N opc /\ code_at c (pc0 + 1) imm
  /\ (forall j p, nth_error ps j = Some p -> get_i32 c (pc0 + 1 + Z.of_nat (length imm) + 4 * Z.of_nat j) = provider_idx p)
  /\ get_i32 c (pc0 + 1 + Z.of_nat (length imm) + 4 * Z.of_nat (length ps)) = d.
Proof.
  intros H F Hd. apply code_at_cons in H. destruct H as [H0 H]. apply code_at_app in H. destruct H as [H1 H].
  apply code_at_app in H. destruct H as [H2 H3]. rewrite loc_bytes_length in H3.
  repeat split; auto.
  - intros j p Hj. apply (code_at_locs ps); auto.
  - apply code_at_i32; auto. replace (pc0 + 1 + Z.of_nat (length imm) + 4 * Z.of_nat (length ps))
      with (pc0 + 1 + Z.of_nat (length imm) + Z.of_nat (4 * length ps)) by lia. exact H3.
Qed.

(** dispatch of [exec_op] on the opcodes of the generic instructions *)
Lemma exec_unop32 M pc o : o <> Extend32S ->
  exec_op art mhost c consts M pc (unop_opcode T_i32 o)
  = unary c consts M pc (fun src old => set_short old (rs_unop32 o src)).
Proof. intros H. destruct o; try contradiction; reflexivity. Qed.
Lemma exec_unop64 M pc o :
  exec_op art mhost c consts M pc (unop_opcode T_i64 o)
  = unary c consts M pc (fun src old => set_long old (rs_unop64 o src)).
Proof. destruct o; reflexivity. Qed.
Lemma exec_eqz32 M pc : exec_op art mhost c consts M pc (eqz_opcode T_i32)
  = unary c consts M pc (fun src old => set_short old (rs_eqz32 src)).
Proof. reflexivity. Qed.
Lemma exec_eqz64 M pc : exec_op art mhost c consts M pc (eqz_opcode T_i64)
  = unary c consts M pc (fun src old => set_short old (rs_eqz64 src)).
Proof. reflexivity. Qed.
Lemma exec_cvt M pc o : exec_op art mhost c consts M pc (cvt_opcode o)
  = unary c consts M pc (match o with
                         | WrapI64 => fun src old => set_short old (rs_cvt WrapI64 src)
                         | ExtendI32S => fun src old => set_long old (rs_cvt ExtendI32S src)
                         | ExtendI32U => fun src old => set_long old (rs_cvt ExtendI32U src)
                         end).
Proof. destruct o; reflexivity. Qed.
Lemma exec_binop32 M pc o : exec_op art mhost c consts M pc (binop_opcode T_i32 o)
  = binary c consts M pc (fun l r old =>
      match rs_binop 32 o (as_i32 l) (as_i32 r) (as_u32 l) (as_u32 r) with
      | inr x => inr (set_short old x) | inl e => inl e end).
Proof. destruct o; reflexivity. Qed.
Lemma exec_binop64 M pc o : exec_op art mhost c consts M pc (binop_opcode T_i64 o)
  = binary c consts M pc (fun l r old =>
      match rs_binop 64 o (as_i64 l) (as_i64 r) (as_u64 l) (as_u64 r) with
      | inr x => inr (set_long old x) | inl e => inl e end).
Proof. destruct o; reflexivity. Qed.
Lemma exec_relop32 M pc o : exec_op art mhost c consts M pc (relop_opcode T_i32 o)
  = binary c consts M pc (fun l r old =>
      inr (set_short old (rs_relop o (as_i32 l) (as_i32 r) (as_u32 l) (as_u32 r)))).
Proof. destruct o; reflexivity. Qed.
Lemma exec_relop64 M pc o : exec_op art mhost c consts M pc (relop_opcode T_i64 o)
  = binary c consts M pc (fun l r old =>
      inr (set_short old (rs_relop o (as_i64 l) (as_i64 r) (as_u64 l) (as_u64 r)))).
Proof. destruct o; reflexivity. Qed.

Definition idx_ok (x : Z) : Prop := -2147483648 <= x < 2147483648.

Lemma gi_machine b opc imm k ps d M :
  gi_shape b = Some (opc, imm, k, true) -> sim_gi b = true -> length ps = k ->
  ms_idx M = fidx -> code_at c (ms_pc M) (opc :: imm ++ loc_bytes ps ++ i32_bytes d) ->
  Forall (fun p => idx_ok (provider_idx p)) ps -> idx_ok d ->
  exists res, gi_val b (map (denote M) ps) M = Some res /\
    mstep M = match res with
              | inr (w, Mm) => SNext (set_pc (set_reg Mm d (w (reg Mm d)))
                                             (ms_pc M + 1 + Z.of_nat (length imm) + 4 * Z.of_nat k + 4))
              | inl e => STrap e
              end.
Proof.
  intros Hsh Hsim Hlen Hidx Hcode' Fps Hd.
  destruct (gi_fields _ _ _ _ _ Hcode' Fps Hd) as (Hop & Himm & Hsrc & Hdst).
  rewrite (mstep_at M Hidx), Hop, N2Z.id. subst k.
  destruct b; try discriminate Hsim; cbn [gi_shape] in Hsh; inversion Hsh; subst; clear Hsh;
    cbn [length Z.of_nat] in *; rewrite ?Z.add_0_r in *.
  - (* select *)
    destruct ps as [|p1 [|p2 [|p3 [|? ?]]]]; try discriminate.
    pose proof (Hsrc 0%nat p1 eq_refl) as E1. pose proof (Hsrc 1%nat p2 eq_refl) as E2. pose proof (Hsrc 2%nat p3 eq_refl) as E3.
    cbn [length Z.of_nat Pos.of_succ_nat Pos.succ] in *. rewrite ?Z.add_0_r, ?Z.mul_0_r in *.
    eexists; split; [reflexivity|]. cbn [map].
    change (exec_op art mhost c consts M (ms_pc M + 1) ISelect) with
      (let top := get_local consts M (get_i32 c (ms_pc M + 1)) in
       let t2 := get_local consts M (get_i32 c (ms_pc M + 1 + 4)) in
       let t1 := get_local consts M (get_i32 c (ms_pc M + 1 + 8)) in
       SNext (set_pc (set_reg M (get_i32 c (ms_pc M + 1 + 12)) (if as_i32 top =? 0 then t2 else t1)) (ms_pc M + 1 + 16))).
    cbv zeta. replace (ms_pc M + 1 + 4) with (ms_pc M + 1 + 4 * 1) by lia. replace (ms_pc M + 1 + 8) with (ms_pc M + 1 + 4 * 2) by lia.
    replace (ms_pc M + 1 + 12) with (ms_pc M + 1 + 4 * 3) by lia.
    replace (ms_pc M + 1) with (ms_pc M + 1 + 4 * 0) at 1 by lia.
    rewrite E1, E2, E3, Hdst. unfold denote. do 2 f_equal. lia.
  - (* global.get *)
    destruct ps; try discriminate. apply Z.ltb_lt in Hsim.
    rewrite u16_bytes_length in *. cbn [length Z.of_nat Pos.of_succ_nat Pos.succ] in *. rewrite ?Z.mul_0_r, ?Z.add_0_r in *.
    pose proof (code_at_u16 c (ms_pc M + 1) (Z.of_nat i) ltac:(lia) Himm) as Eg.
    eexists; split; [reflexivity|].
    change (exec_op art mhost c consts M (ms_pc M + 1) IGlobalGet) with
      (let g := nth (Z.to_nat (get_u16 c (ms_pc M + 1))) (ms_globals M) 0 in
       SNext (set_pc (set_reg M (get_i32 c (ms_pc M + 1 + 2)) g) (ms_pc M + 1 + 6))).
    cbv zeta. rewrite Eg, Hdst, Nat2Z.id. do 2 f_equal. lia.
  - (* memory.size *)
    destruct ps; try discriminate. cbn [length Z.of_nat] in *. rewrite ?Z.mul_0_r, ?Z.add_0_r in *.
    eexists; split; [reflexivity|].
    change (exec_op art mhost c consts M (ms_pc M + 1) IMemorySize) with
      (SNext (set_pc (set_reg M (get_i32 c (ms_pc M + 1)) (from_i32 (mlen M / 65536))) (ms_pc M + 1 + 4))).
    rewrite Hdst. do 2 f_equal. lia.
  - (* memory.grow *)
    destruct ps as [|p1 [|? ?]]; try discriminate.
    pose proof (Hsrc 0%nat p1 eq_refl) as E1. cbn [length Z.of_nat Pos.of_succ_nat] in *. rewrite ?Z.mul_0_r, ?Z.add_0_r in *.
    eexists; split; [reflexivity|]. cbn [map]. unfold grow_result.
    change (exec_op art mhost c consts M (ms_pc M + 1) IMemoryGrow) with
      (let v := get_local consts M (get_i32 c (ms_pc M + 1)) in
       let t := get_i32 c (ms_pc M + 1 + 4) in
       let n := as_u32 v in
       let sz := mlen M / 65536 in
       if sz + n >? max_memory then SNext (set_pc (set_reg M t (set_short (reg M t) (-1))) (ms_pc M + 1 + 8))
       else
         let st1 := match ms_mem M with
                    | Some mm => if n =? 0 then M else
                                 set_mmem M {| mem_pages := Z.to_N (sz + n); mem_max := mem_max mm; mem_data := mem_data mm |}
                    | None => M
                    end in
         SNext (set_pc (set_reg st1 t (set_short (reg M t) sz)) (ms_pc M + 1 + 8))).
    cbv zeta. replace (ms_pc M + 1 + 4) with (ms_pc M + 1 + 4 * 1) by lia. rewrite E1, Hdst. unfold denote.
    destruct (mlen M / 65536 + as_u32 (get_local consts M (provider_idx p1)) >? max_memory).
    + do 2 f_equal. lia.
    + destruct (ms_mem M); [destruct (as_u32 (get_local consts M (provider_idx p1)) =? 0)|]; do 2 f_equal; lia.
  - (* unop *)
    destruct ps as [|p1 [|? ?]]; try discriminate.
    pose proof (Hsrc 0%nat p1 eq_refl) as E1. cbn [length Z.of_nat Pos.of_succ_nat] in *. rewrite ?Z.mul_0_r, ?Z.add_0_r in *.
    replace (ms_pc M + 1 + 4 * 1) with (ms_pc M + 1 + 4) in Hdst by lia.
    destruct t.
    + assert (Ho : op <> Extend32S) by (intro; subst; discriminate).
      rewrite (exec_unop32 M _ op Ho). unfold unary. rewrite E1, Hdst.
      eexists; split; [reflexivity|]. unfold denote. do 2 f_equal. lia.
    + rewrite (exec_unop64 M _ op). unfold unary. rewrite E1, Hdst.
      eexists; split; [reflexivity|]. unfold denote. do 2 f_equal. lia.
  - (* binop *)
    destruct ps as [|p1 [|p2 [|? ?]]]; try discriminate.
    pose proof (Hsrc 0%nat p1 eq_refl) as E1. pose proof (Hsrc 1%nat p2 eq_refl) as E2.
    cbn [length Z.of_nat Pos.of_succ_nat Pos.succ] in *. rewrite ?Z.mul_0_r, ?Z.add_0_r in *.
    replace (ms_pc M + 1 + 4 * 1) with (ms_pc M + 1 + 4) in E2 by lia.
    replace (ms_pc M + 1 + 4 * 2) with (ms_pc M + 1 + 8) in Hdst by lia.
    destruct t.
    + rewrite (exec_binop32 M _ op). unfold binary. rewrite E1, E2, Hdst. cbn [map]. unfold denote.
      eexists; split; [reflexivity|].
      destruct (rs_binop 32 op _ _ _ _); [reflexivity|]. do 2 f_equal. lia.
    + rewrite (exec_binop64 M _ op). unfold binary. rewrite E1, E2, Hdst. cbn [map]. unfold denote.
      eexists; split; [reflexivity|].
      destruct (rs_binop 64 op _ _ _ _); [reflexivity|]. do 2 f_equal. lia.
  - (* eqz *)
    destruct ps as [|p1 [|? ?]]; try discriminate.
    pose proof (Hsrc 0%nat p1 eq_refl) as E1. cbn [length Z.of_nat Pos.of_succ_nat] in *. rewrite ?Z.mul_0_r, ?Z.add_0_r in *.
    replace (ms_pc M + 1 + 4 * 1) with (ms_pc M + 1 + 4) in Hdst by lia.
    destruct t; [rewrite exec_eqz32|rewrite exec_eqz64]; unfold unary; rewrite E1, Hdst;
      (eexists; split; [reflexivity|]); unfold denote; do 2 f_equal; lia.
  - (* relop *)
    destruct ps as [|p1 [|p2 [|? ?]]]; try discriminate.
    pose proof (Hsrc 0%nat p1 eq_refl) as E1. pose proof (Hsrc 1%nat p2 eq_refl) as E2.
    cbn [length Z.of_nat Pos.of_succ_nat Pos.succ] in *. rewrite ?Z.mul_0_r, ?Z.add_0_r in *.
    replace (ms_pc M + 1 + 4 * 1) with (ms_pc M + 1 + 4) in E2 by lia.
    replace (ms_pc M + 1 + 4 * 2) with (ms_pc M + 1 + 8) in Hdst by lia.
    destruct t; [rewrite exec_relop32|rewrite exec_relop64]; unfold binary; rewrite E1, E2, Hdst; cbn [map]; unfold denote;
      (eexists; split; [reflexivity|]); do 2 f_equal; lia.
  - (* cvt *)
    destruct ps as [|p1 [|? ?]]; try discriminate.
    pose proof (Hsrc 0%nat p1 eq_refl) as E1. cbn [length Z.of_nat Pos.of_succ_nat] in *. rewrite ?Z.mul_0_r, ?Z.add_0_r in *.
    replace (ms_pc M + 1 + 4 * 1) with (ms_pc M + 1 + 4) in Hdst by lia.
    rewrite exec_cvt. unfold unary. rewrite E1, Hdst.
    destruct op; (eexists; split; [reflexivity|]); unfold denote; do 2 f_equal; lia.
Qed.

End Straight.
