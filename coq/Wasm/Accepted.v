(** * Wasm/Accepted — accepted modules never get stuck on the reference semantics:
    [validate_module] (model of validate.rs) + [validate_sound] + type soundness of [Wasm/Sem.v]. *)
From Coq Require Import ZArith NArith List Bool Arith Lia.
From CB Require Import Common.IntN Wasm.Syntax Gen.Limits Wasm.Validate Wasm.ValidateLimits Wasm.Typing
  Wasm.ValidateProofs Wasm.Sem Wasm.TypeSound.
Import ListNotations.

Definition expand_locals (ls : list (N * valtype)) : list valtype :=
  flat_map (fun '(n, t) => repeat t (N.to_nat n)) ls.

(** [m] is the decoded form of the validated module [vm]: same index spaces, bodies = the
    structured form of the flat code, declared locals expanded. *)
Record corresponds (vm : vmodule) (m : module) : Prop := {
  co_types : m_types m = vm_types vm;
  co_imports : m_imports m = vm_imports vm;
  co_funcs : Forall2 (fun vf f => f_type f = mf_type vf /\ f_locals f = expand_locals (mf_locals vf) /\
                                  structure_body (map fst (mf_body vf)) = Some (f_body f))
                     (vm_funcs vm) (m_funcs m);
  co_globals : map (fun g => (type_of_val (g_init g), g_mut g)) (m_globals m) = vm_globals vm;
  co_table : m_table m = vm_table vm;
  co_mem : match m_mem m, vm_mem vm with
           | Some l, Some (mn, mx) => l_min l = mn /\ l_max l = mx
           | None, None => True
           | _, _ => False
           end;
  co_elems : map (fun '(off, fs) => (off, map N.of_nat fs)) (m_elems m) = vm_elems vm;
  co_data : map (fun '(off, bs) => (off, N.of_nat (length bs))) (m_data m) = vm_data vm
}.

(** no function continues after the [end] that closes it (the class KF-C09-1) *)
Definition no_trailing (signext : bool) (vm : vmodule) : Prop :=
  forall vf ft locals, In vf (vm_funcs vm) -> nth_error (vm_types vm) (mf_type vf) = Some ft ->
    make_locals (ft_params ft) (mf_locals vf) = Some locals ->
    ends_early (func_ctx signext vm ft locals) (mf_body vf) = false.

Lemma Forall2_in_r {A B} (R : A -> B -> Prop) l1 l2 y : Forall2 R l1 l2 -> In y l2 -> exists x, In x l1 /\ R x y.
Proof.
  induction 1 as [|a b l1 l2 Hab HF IH]; cbn; [tauto|]. intros [<-|H]; [eauto|].
  destruct (IH H) as (x & Hx & Hr). eauto.
Qed.
Lemma Forall2_map_eq {A B C} (f : A -> C) (g : B -> C) l1 l2 :
  Forall2 (fun a b => g b = f a) l1 l2 -> map f l1 = map g l2.
Proof. induction 1; cbn; congruence. Qed.

Section Acc.
Variables (signext : bool) (vm : vmodule) (m : module).
Hypothesis VAL : validate_module signext vm = true.
Hypothesis NT : no_trailing signext vm.
Hypothesis CO : corresponds vm m.

Lemma co_ftypes : map mf_type (vm_funcs vm) = map f_type (m_funcs m).
Proof. pose proof (co_funcs _ _ CO) as H. induction H as [|vf f l1 l2 (E & _) _ IH]; cbn; congruence. Qed.

Lemma accepted_indices : Forall (fun ti => ti < length (m_types m))%nat (m_imports m ++ map f_type (m_funcs m)).
Proof.
  pose proof VAL as H. unfold validate_module in H. rewrite !andb_true_iff in H.
  destruct H as [[[[[[[[[Himp _] _] _] Hfun] _] _] _] _] _].
  rewrite (co_types _ _ CO), (co_imports _ _ CO), <- co_ftypes. apply Forall_app. split.
  - apply Forall_forall. intros ti Hin. rewrite forallb_forall in Himp. specialize (Himp _ Hin).
    apply nth_error_Some. destruct (nth_error (vm_types vm) ti); congruence.
  - apply Forall_forall. intros ti Hin. apply in_map_iff in Hin. destruct Hin as (vf & <- & Hin).
    rewrite forallb_forall in Hfun. specialize (Hfun _ Hin). unfold validate_mfunc, obind in Hfun.
    apply nth_error_Some. destruct (nth_error (vm_types vm) (mf_type vf)); congruence.
Qed.

Lemma make_locals_eq params ls locals : make_locals params ls = Some locals -> locals = params ++ expand_locals ls.
Proof. unfold make_locals. destruct (_ <=? _)%N; [|discriminate]. intros E; inversion E; reflexivity. Qed.

Lemma accepted_module_ok : module_ok m.
Proof.
  constructor; [exact accepted_indices|].
  intros fn ft Hin HT.
  destruct (Forall2_in_r _ _ _ _ (co_funcs _ _ CO) Hin) as (vf & Hvf & E1 & E2 & E3).
  destruct (validate_module_sound_thm _ _ VAL vf Hvf) as (ft' & locals & h & T & ML & _ & _ & _ & HB).
  rewrite (co_types _ _ CO), E1, T in HT. inversion HT; subst ft'.
  destruct (HB (NT _ _ _ Hvf T ML)) as (is & SB & BO). rewrite E3 in SB. inversion SB; subst is.
  replace (fctx m ft fn) with (tctx_of (func_ctx signext vm ft locals)); [exact BO|].
  unfold tctx_of, fctx, func_ctx, ftypes, gtypes, has_mem, has_table. cbn.
  rewrite (co_types _ _ CO), (co_imports _ _ CO), co_ftypes, (co_globals _ _ CO), (co_table _ _ CO), E2.
  rewrite (make_locals_eq _ _ _ ML).
  pose proof (co_mem _ _ CO) as CM.
  destruct (m_mem m), (vm_mem vm) as [[]|]; try contradiction; reflexivity.
Qed.

Lemma accepted_segments_ok : segments_ok m.
Proof.
  pose proof (validate_module_limits_thm _ _ VAL) as ML.
  pose proof accepted_module_ok as MOK.
  split.
  - intros off fs Hin.
    assert (Hin' : In (off, map N.of_nat fs) (vm_elems vm)).
    { rewrite <- (co_elems _ _ CO). apply (in_map (fun '(off, fs) => (off, map N.of_nat fs)) _ _ Hin). }
    destruct (vm_table vm) as [sz|] eqn:ET.
    2:{ exfalso. apply (ml_elems_table _ ML); [intros E; rewrite E in Hin'; exact Hin'|exact ET]. }
    destruct (ml_elems _ ML _ _ _ Hin' ET) as [B V]. exists sz. split; [rewrite (co_table _ _ CO); exact ET|].
    rewrite map_length in B. split; [lia|].
    apply Forall_forall. intros fi Hfi. rewrite func_type_ftypes by exact MOK.
    rewrite Forall_forall in V. specialize (V (N.of_nat fi) (in_map _ _ _ Hfi)).
    apply nth_error_Some. unfold ftypes. rewrite map_length, app_length, map_length.
    rewrite (co_imports _ _ CO). rewrite <- (map_length f_type), <- co_ftypes, map_length. lia.
  - pose proof (co_mem _ _ CO) as CM.
    destruct (m_mem m) as [l|] eqn:EM; destruct (vm_mem vm) as [[mn mx]|] eqn:EV; try contradiction.
    + destruct CM as [C1 C2]. intros off bs Hin.
      assert (Hin' : In (off, N.of_nat (length bs)) (vm_data vm)).
      { rewrite <- (co_data _ _ CO). apply (in_map (fun '(off, bs) => (off, N.of_nat (length bs))) _ _ Hin). }
      destruct (ml_data _ ML _ _ _ _ Hin' EV) as [B _].
      pose proof limits_consistent as (_ & _ & _ & _ & _ & LC6 & _). rewrite LC6 in B. rewrite C1. exact B.
    + destruct (vm_data vm) eqn:ED.
      * pose proof (co_data _ _ CO) as CD. rewrite ED in CD. destruct (m_data m); [reflexivity|discriminate].
      * exfalso. apply (ml_data_mem _ ML); [rewrite ED; discriminate|exact EV].
Qed.
End Acc.

(** [accepted_never_stuck]: a module accepted by the validation model (and outside KF-C09-1)
    instantiates, and invoking any of its functions with arguments of the parameter types never
    reaches the [Stuck] outcome of the reference semantics, for every fuel, every embedder page
    cap and every host whose functions respect their declared types. *)
Theorem accepted_never_stuck_thm signext vm m host page_cap fuel fi args ft :
  validate_module signext vm = true -> no_trailing signext vm -> corresponds vm m ->
  host_ok host m ->
  nth_error (ftypes m) fi = Some ft -> map type_of_val args = ft_params ft ->
  run host page_cap m fuel fi args <> Stuck.
Proof.
  intros VAL NT CO HOK HF HA.
  eapply run_never_stuck_thm; eauto.
  - eapply accepted_module_ok; eauto.
  - eapply accepted_segments_ok; eauto.
Qed.
