(** * Wasm/MeterProofs — syntactic facts about the metering transformation ([Wasm/Meter.v]) and the
    energy-budget model ([Wasm/MeterRun.v]). *)
From Coq Require Import ZArith NArith List Bool Lia.
From CB Require Import Common.IntN Wasm.Syntax Wasm.Sem Wasm.CostCtx Wasm.Meter Wasm.SemTrace Wasm.MeterRun.
Import ListNotations.
Local Open Scope N_scope.
Local Arguments N.add : simpl never.
Local Arguments N.sub : simpl never.
Local Arguments N.mul : simpl never.
Local Arguments N.leb : simpl never.
Local Arguments N.ltb : simpl never.

(** ** induction principle for the nested type [instr] *)
Section InstrInd.
Variable P : instr -> Prop.
Variable Q : list instr -> Prop.
Hypothesis HB : forall b, P (Basic b).
Hypothesis HBl : forall bt body, Q body -> P (Block bt body).
Hypothesis HL : forall bt body, Q body -> P (Loop bt body).
Hypothesis HI : forall bt t e, Q t -> Q e -> P (If bt t e).
Hypothesis Hnil : Q [].
Hypothesis Hcons : forall i r, P i -> Q r -> Q (i :: r).
Fixpoint instr_ind2 (i : instr) : P i :=
  let go := fix go (l : list instr) : Q l :=
    match l with [] => Hnil | x :: r => Hcons x r (instr_ind2 x) (go r) end in
  match i with
  | Basic b => HB b
  | Block bt body => HBl bt body (go body)
  | Loop bt body => HL bt body (go body)
  | If bt t e => HI bt t e (go t) (go e)
  end.
Fixpoint instrs_ind2 (l : list instr) : Q l :=
  match l with [] => Hnil | x :: r => Hcons x r (instr_ind2 x) (instrs_ind2 r) end.
End InstrInd.

(** ** unfolding of the nested fixpoint *)
Section WithConfig.
Variable cfg : cost_cfg.
Variable cx : cost_ctx.
Notation mi := (mi cfg cx).
Notation mseq := (mseq cfg cx).

Lemma mseq_nil L : mseq L [] = Some (0, []).
Proof. reflexivity. Qed.
Lemma mseq_cons L j r :
  mseq L (j :: r) = match mseq L r, mi L j with
                    | Some (hr, r'), Some x => mcombine x hr r'
                    | _, _ => None
                    end.
Proof. reflexivity. Qed.

Lemma mi_eq L i :
  mi L i =
  match i with
  | Basic b =>
      obind (c_cost cfg (OBasic b) L cx) (fun c =>
      match kind_of b with
      | KPending => Some (c, [ABasic (OSrc c 0) b], false)
      | KMemGrow => Some (c, [ABasic OInj (BCall fn_idx_memory_alloc); ABasic (OSrc c 0) b], false)
      | KFlushKeep => Some (c, [ABasic (OSrc c 0) b], true)
      | KCall idx => Some (c, [ABasic (OSrc c 0) (BCall (idx + num_added_functions)%nat)], true)
      | KBrIf idx =>
          obind (lookup_label L idx) (fun a =>
          obind (brif_rewrite cfg c a idx) (fun rw => Some (c, rw, true)))
      | KTick => None
      end)
  | Block bt body =>
      obind (c_cost cfg (OBlock bt) L cx) (fun c =>
      obind (mseq (bt :: L) body) (fun '(hb, body') =>
      Some (c + hb, [ABlock (OSrc c 0) bt body'], true)))
  | Loop bt body =>
      obind (c_cost cfg (OLoop bt) L cx) (fun c =>
      obind (mseq (None :: L) body) (fun '(hb, body') =>
      if seg_ok hb then Some (c, [ALoop (OSrc c 0) bt (tick_opt hb ++ body')], true) else None))
  | If bt thn els =>
      obind (c_cost cfg (OIf bt) L cx) (fun c =>
      obind (mseq (bt :: L) thn) (fun '(ht, thn') =>
      obind (mseq (bt :: L) els) (fun '(he, els') =>
      if seg_ok ht && seg_ok he
      then Some (c, [AIf (OSrc c 0) bt (tick_opt ht ++ thn') (tick_opt he ++ els')], true)
      else None)))
  end.
Proof.
  assert (E : forall is L',
    (fix mseq_in (L' : list blocktype) (is : list instr) {struct is} : option (N * list ainstr) :=
       match is with
       | [] => Some (0, [])
       | j :: r => match mseq_in L' r, mi L' j with
                   | Some (hr, r'), Some x => mcombine x hr r'
                   | _, _ => None
                   end
       end) L' is = mseq L' is).
  { induction is as [|j r IH]; intro L'; [reflexivity|].
    change (mseq L' (j :: r)) with (match mseq L' r, mi L' j with
                                    | Some (hr, r'), Some x => mcombine x hr r'
                                    | _, _ => None
                                    end).
    cbv beta iota fix. rewrite IH. reflexivity. }
  destruct i; cbn [Meter.mi]; try reflexivity; rewrite ?E; reflexivity.
Qed.

(** ** memgrow_announced *)
Inductive Announced : list instr -> Prop :=
| A_nil : Announced []
| A_grow r : Announced r -> Announced (Basic (BCall fn_idx_memory_alloc) :: Basic BMemoryGrow :: r)
| A_basic b r : b <> BMemoryGrow -> Announced r -> Announced (Basic b :: r)
| A_block bt body r : Announced body -> Announced r -> Announced (Block bt body :: r)
| A_loop bt body r : Announced body -> Announced r -> Announced (Loop bt body :: r)
| A_if bt t e r : Announced t -> Announced e -> Announced r -> Announced (If bt t e :: r).

Lemma announced_app a b : Announced a -> Announced b -> Announced (a ++ b).
Proof. induction 1; intros; cbn; try constructor; auto. Qed.

Lemma announced_tick h : Announced (erase_seq (tick_opt h)).
Proof. unfold tick_opt. destruct (0 <? h); cbn; repeat constructor; discriminate. Qed.

Lemma erase_seq_app a b : erase_seq (a ++ b) = erase_seq a ++ erase_seq b.
Proof. apply map_app. Qed.

Lemma announced_brif c a idx rw : brif_rewrite cfg c a idx = Some rw -> Announced (erase_seq rw).
Proof.
  unfold brif_rewrite. destruct (negb _); [discriminate|].
  destruct (a =? 0); [intro H; inversion H; subst; cbn; repeat constructor; discriminate|].
  destruct (a =? 1); [intro H; inversion H; subst; cbn; repeat constructor; discriminate|discriminate].
Qed.

Lemma announced_mcombine x hr r' h out :
  mcombine x hr r' = Some (h, out) ->
  Announced (erase_seq (snd (fst x))) -> Announced (erase_seq r') -> Announced (erase_seq out).
Proof.
  destruct x as [[h0 pre] fl]; cbn. destruct fl.
  - destruct (seg_ok hr); [|discriminate]. intro H; inversion H; subst. intros.
    rewrite !erase_seq_app. apply announced_app; [assumption|]. apply announced_app; [apply announced_tick|assumption].
  - intro H; inversion H; subst. intros. rewrite erase_seq_app. apply announced_app; assumption.
Qed.

Ltac obind_inv H :=
  repeat match type of H with
         | obind ?o _ = Some _ => let E := fresh "E" in destruct o eqn:E; [cbn [obind] in H|discriminate H]
         | (let '(_, _) := ?p in _) = Some _ => destruct p
         | (if ?c then _ else _) = Some _ => let E := fresh "E" in destruct c eqn:E; [|discriminate H]
         end.

Lemma memgrow_announced_seq :
  forall is L h is', mseq L is = Some (h, is') -> Announced (erase_seq is').
Proof.
  apply (instrs_ind2
           (fun i => forall L h pre fl, mi L i = Some (h, pre, fl) -> Announced (erase_seq pre))
           (fun is => forall L h is', mseq L is = Some (h, is') -> Announced (erase_seq is'))).
  - (* Basic *)
    intros b L h pre fl H. rewrite mi_eq in H. obind_inv H.
    destruct b; cbn [kind_of] in H;
      try (inversion H; subst; cbn; repeat constructor; discriminate).
    obind_inv H. inversion H; subst. eapply announced_brif; eassumption.
  - (* Block *)
    intros bt body IH L h pre fl H. rewrite mi_eq in H. obind_inv H. inversion H; subst.
    cbn. constructor; [eapply IH; eassumption|constructor].
  - (* Loop *)
    intros bt body IH L h pre fl H. rewrite mi_eq in H. obind_inv H. inversion H; subst.
    cbn. constructor; [|constructor]. fold (erase_seq (tick_opt n0 ++ l)). rewrite erase_seq_app.
    apply announced_app; [apply announced_tick|eapply IH; eassumption].
  - (* If *)
    intros bt t e IHt IHe L h pre fl H. rewrite mi_eq in H. obind_inv H. inversion H; subst.
    cbn. constructor; [| |constructor].
    + fold (erase_seq (tick_opt n0 ++ l)). rewrite erase_seq_app.
      apply announced_app; [apply announced_tick|eapply IHt; eassumption].
    + fold (erase_seq (tick_opt n1 ++ l0)). rewrite erase_seq_app.
      apply announced_app; [apply announced_tick|eapply IHe; eassumption].
  - intros L h is' H. inversion H; subst. constructor.
  - intros i r IHi IHr L h is' H. rewrite mseq_cons in H.
    destruct (mseq L r) as [[hr r']|] eqn:Er; [|discriminate].
    destruct (mi L i) as [[[hi pre] fl]|] eqn:Ei; [|discriminate].
    eapply announced_mcombine; [eassumption| |]; cbn; eauto.
Qed.

Lemma memgrow_announced_body nl result body b :
  meter_body cfg cx nl result body = Some b -> Announced b.
Proof.
  unfold meter_body, ameter_body. destruct (mseq [result] body) as [[h body']|] eqn:E; [|discriminate].
  cbn [obind]. destruct (seg_ok _); [|discriminate]. intro H; inversion H; subst.
  rewrite erase_seq_app. apply announced_app; [|eapply memgrow_announced_seq; eassumption].
  destruct (0 <? _); cbn; repeat constructor; discriminate.
Qed.
End WithConfig.

Lemma omap_list_forall {A B} (f : A -> option B) (P : B -> Prop) l l' :
  omap_list f l = Some l' -> (forall x y, f x = Some y -> P y) -> Forall P l'.
Proof.
  revert l'. induction l as [|x r IH]; intros l' H HP; cbn in H.
  - inversion H; constructor.
  - destruct (f x) eqn:Ex; [|discriminate]. destruct (omap_list f r) eqn:Er; [|discriminate].
    inversion H; subst. constructor; eauto.
Qed.

(** every function body of the metered module announces its memory.grow *)
Lemma memgrow_announced_module cfg m m' :
  inject cfg m = Some m' -> Forall (fun f => Announced (f_body f)) (m_funcs m').
Proof.
  unfold inject. destruct (omap_list (meter_func cfg m) (m_funcs m)) as [fs|] eqn:E; [|discriminate].
  intro H; inversion H; subst; cbn. eapply omap_list_forall; [eassumption|].
  intros f f' Hf. unfold meter_func in Hf. destruct (nth_error _ _); [|discriminate].
  destruct (meter_body _ _ _ _ _) eqn:Eb; [|discriminate]. inversion Hf; subst; cbn.
  eapply memgrow_announced_body; eassumption.
Qed.

(** ** The energy budget ([InterpreterEnergy]) *)
Definition sum_charges (cs : list N) : N := fold_right N.add 0 cs.

Lemma pay_spec : forall cs B,
  (sum_charges cs <= B -> pay B cs = (true, B - sum_charges cs)) /\
  (B < sum_charges cs -> pay B cs = (false, 0)).
Proof.
  induction cs as [|c r IH]; intro B; cbn [pay sum_charges fold_right].
  - split; intro H; [f_equal; lia|lia].
  - unfold tick_energy. destruct (c <=? B) eqn:E.
    + apply N.leb_le in E. destruct (IH (B - c)) as [I1 I2]. split; intro H.
      * rewrite I1 by (unfold sum_charges; lia). f_equal. unfold sum_charges. lia.
      * apply I2. unfold sum_charges. lia.
    + apply N.leb_gt in E. split; intro H; [lia|reflexivity].
Qed.

(** a larger budget changes only the remaining energy, by exactly the difference *)
Lemma budget_monotone_pay cs B B' rem :
  pay B cs = (true, rem) -> B <= B' -> pay B' cs = (true, rem + (B' - B)).
Proof.
  intros H Hle. destruct (pay_spec cs B) as [P1 P2].
  destruct (N.le_gt_cases (sum_charges cs) B) as [Hs|Hs].
  - rewrite P1 in H by assumption. inversion H; subst.
    destruct (pay_spec cs B') as [Q1 _]. rewrite Q1 by lia. f_equal. lia.
  - rewrite P2 in H by assumption. discriminate.
Qed.

(** out of energy exactly when the need exceeds the budget; then the remaining energy is 0 *)
Lemma out_of_energy_iff cs B : fst (pay B cs) = false <-> B < sum_charges cs.
Proof.
  destruct (pay_spec cs B) as [P1 P2]. destruct (N.le_gt_cases (sum_charges cs) B) as [Hs|Hs].
  - rewrite P1 by assumption. cbn. split; [discriminate|lia].
  - rewrite P2 by assumption. cbn. split; auto.
Qed.
