(** * Wasm/CostProofs — facts about the GENERATED cost schedules [Gen/CostV0.v], [Gen/CostV1.v]
    (finite case analysis over the tables; re-checked whenever the translator output changes). *)
From Coq Require Import ZArith NArith List Bool Lia.
From CB Require Import Wasm.Syntax Wasm.CostCtx.
From CB Require Gen.CostV0 Gen.CostV1.
Import ListNotations.
Local Open Scope N_scope.
Local Arguments N.add : simpl never.
Local Arguments N.mul : simpl never.
Local Arguments N.div : simpl never.
Local Arguments N.sub : simpl never.

(** opcodes that are pure structure (delimiters, the trap, the metering pseudo-instruction) *)
Definition structural (o : opcode) : bool :=
  match o with
  | OEnd | OElse | OBlock _ | OLoop _ => true
  | OBasic BUnreachable | OBasic (BTick _) => true
  | _ => false
  end.

(** opcodes for which the register-machine compiler (artifact.rs) emits no instruction of its own:
    constants become constant-pool operands, [drop] and the local accesses only move the
    compile-time provider stack *)
Definition erased (o : opcode) : bool :=
  match o with
  | OBasic (BConst _ _) | OBasic BDrop
  | OBasic (BLocalGet _) | OBasic (BLocalSet _) | OBasic (BLocalTee _) => true
  | _ => false
  end.

Definition is_branch_or_call (o : opcode) : bool :=
  match o with
  | OBasic (BBr _) | OBasic (BBrIf _) | OBasic (BBrTable _ _) | OBasic BReturn
  | OBasic (BCall _) | OBasic (BCallIndirect _) | OIf _ => true
  | _ => false
  end.

Ltac crush_cost :=
  repeat match goal with
         | H : match ?x with _ => _ end = Some _ |- _ => destruct x eqn:?; try discriminate H
         | H : Some _ = Some _ |- _ => inversion H; subst; clear H
         | H : None = Some _ |- _ => discriminate H
         | p : (N * N)%type |- _ => destruct p
         end.

(** ** cost V0 *)
Section V0.
Import CostV0.
Lemma v0_table : forall o L cx c, get_cost o L cx = Some c ->
  (structural o = true -> c = 0) /\ (structural o = false -> 1 <= c).
Proof.
  intros o L cx c H.
  destruct o as [| |bt|bt|bt|b];
    [ | | | | | destruct b; try destruct t; try destruct pk as [[[] []]|]; try destruct op; try destruct p ];
    cbn in H; crush_cost; cbn;
    (split; intros; try discriminate; try reflexivity;
     cbv [NOP BR_IF IF_STATEMENT TEST JUMP DROP SELECT copy_stack GET_LOCAL SET_LOCAL TEE_LOCAL GET_GLOBAL SET_GLOBAL
          LOAD_WORD BOUNDS MEMSIZE MEMGROW CONST SIMPLE_UNOP SIMPLE_BINOP UNOP BINOP MUL DIV REM read_stack write_stack
          branch br_table invoke_before call_indirect type_check FUNC_FRAME_BASE]; lia).
Qed.
Lemma v0_branch : forall a, 1 <= cfg_branch a.
Proof. intro a. cbv [cfg_branch branch JUMP copy_stack]. lia. Qed.
Lemma v0_end_else : forall L cx, get_cost OEnd L cx = Some 0 /\ get_cost OElse L cx = Some 0.
Proof. intros; split; reflexivity. Qed.
Lemma v0_total : forall o L cx c, get_cost o L cx = Some c -> is_branch_or_call o = true -> 1 <= c.
Proof.
  intros o L cx c H Hb. apply (v0_table o L cx c H).
  destruct o as [| |bt|bt|bt|b]; try discriminate; try reflexivity. destruct b; try discriminate; reflexivity.
Qed.
End V0.

(** ** cost V1 *)
Section V1.
Import CostV1.
Ltac Zify.zify_post_hook ::= Z.div_mod_to_equations.
Lemma v1_table : forall o L cx c, get_cost o L cx = Some c ->
  (structural o || erased o = true -> c = 0) /\ (structural o || erased o = false -> 1 <= c).
Proof.
  intros o L cx c H.
  destruct o as [| |bt|bt|bt|b];
    [ | | | | | destruct b; try destruct t; try destruct pk as [[[] []]|]; try destruct op; try destruct p ];
    cbn in H; crush_cost; cbn;
    (split; intros; try discriminate; try reflexivity;
     cbv [NOP BR_IF IF_STATEMENT TEST JUMP DROP SELECT copy_stack GET_LOCAL SET_LOCAL TEE_LOCAL GET_GLOBAL SET_GLOBAL
          LOAD_WORD BOUNDS MEMSIZE MEMGROW CONST SIMPLE_UNOP SIMPLE_BINOP UNOP BINOP MUL DIV REM read_source write_result
          br_table invoke_before call_indirect type_check FUNC_FRAME_BASE]; lia).
Qed.
Lemma v1_branch : forall a, 1 <= cfg_branch a.
Proof. intro a. cbv [cfg_branch JUMP]. lia. Qed.
Lemma v1_end_else : forall L cx, get_cost OEnd L cx = Some 0 /\ get_cost OElse L cx = Some 0.
Proof. intros; split; reflexivity. Qed.
Lemma v1_total : forall o L cx c, get_cost o L cx = Some c -> is_branch_or_call o = true -> 1 <= c.
Proof.
  intros o L cx c H Hb. apply (v1_table o L cx c H).
  destruct o as [| |bt|bt|bt|b]; try discriminate; try reflexivity. destruct b; try discriminate; reflexivity.
Qed.
End V1.
