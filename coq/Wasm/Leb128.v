(** * Wasm/Leb128 — the LEB128 readers of parse.rs.

    parse.rs reads integers with [leb128::read::unsigned / signed] (crate leb128 0.2.5) over
    [cursor.take(k)] with k = 5 (32 bit) or 10 (64 bit) and narrows 32-bit values with
    [u32::try_from] / [i32::try_from].  [uread] / [sread] transcribe the two crate loops
    (including the [shift == 63] overflow test); the [Take] adaptor is the byte budget [maxb]
    (a read beyond it fails like a read at end of input).
    [result |= low_bits << shift] is written [acc + low * 2^shift]: the accumulated value is
    below [2^shift], so the two agree (checked against the implementation by the
    correspondence run); in the signed reader the shift is performed in 64 bits.
    Bytes are [N] below 256.  Definitions only (proofs: [Wasm/Leb128Proofs.v]). *)
From Coq Require Import ZArith NArith List Bool.
Import ListNotations.
Local Open Scope N_scope.

Fixpoint uread (maxb : nat) (bs : list N) (shift acc : N) : option (N * list N) :=
  match maxb with
  | O => None
  | S k =>
      match bs with
      | [] => None
      | b :: r =>
          if (shift =? 63) && negb (b =? 0) && negb (b =? 1) then None
          else
            let acc' := acc + (b mod 128) * 2 ^ shift in
            if b <? 128 then Some (acc', r) else uread k r (shift + 7) acc'
      end
  end.

Definition decode_u64 (bs : list N) : option (N * list N) := uread 10 bs 0 0.
Definition decode_u32 (bs : list N) : option (N * list N) :=
  match uread 5 bs 0 0 with
  | Some (v, r) => if v <? 2 ^ 32 then Some (v, r) else None
  | None => None
  end.

(** two's complement interpretation of a 64-bit pattern *)
Definition signed64 (x : N) : Z :=
  let y := x mod 2 ^ 64 in
  if y <? 2 ^ 63 then Z.of_N y else (Z.of_N y - 2 ^ 64)%Z.

Fixpoint sread (maxb : nat) (bs : list N) (shift acc : N) : option (Z * list N) :=
  match maxb with
  | O => None
  | S k =>
      match bs with
      | [] => None
      | b :: r =>
          if (shift =? 63) && negb (b =? 0) && negb (b =? 127) then None
          else
            let acc' := (acc + (b mod 128) * 2 ^ shift) mod 2 ^ 64 in
            let shift' := shift + 7 in
            if b <? 128 then
              (* sign extend from [shift'] if it is below 64 and the sign bit 0x40 is set *)
              if (shift' <? 64) && (64 <=? b mod 128)
              then Some ((Z.of_N acc' - 2 ^ Z.of_N shift')%Z, r)
              else Some (signed64 acc', r)
            else sread k r shift' acc'
      end
  end.

Definition decode_s64 (bs : list N) : option (Z * list N) := sread 10 bs 0 0.
Definition decode_s32 (bs : list N) : option (Z * list N) :=
  match sread 5 bs 0 0 with
  | Some (v, r) => if ((- 2 ^ 31 <=? v) && (v <? 2 ^ 31))%Z then Some (v, r) else None
  | None => None
  end.

(** canonical (shortest) encoders, as the specification's [uN] / [sN] grammars generate them *)
Fixpoint uenc (fuel : nat) (n : N) : list N :=
  match fuel with
  | O => []
  | S f => if n <? 128 then [n] else (n mod 128 + 128) :: uenc f (n / 128)
  end.
Fixpoint senc (fuel : nat) (z : Z) : list N :=
  match fuel with
  | O => []
  | S f =>
      let b := Z.to_N (z mod 128) in
      if ((-64 <=? z) && (z <? 64))%Z then [b] else (b + 128) :: senc f (z / 128)%Z
  end.
