(** * Wasm/Parse — executable model of parse.rs (wasm-transform): [parse_skeleton], the
    [Parseable] implementations of every section, the opcode decoder and the
    constant-expression reader, as they are driven by [validate::validate_module].

    Parsers are functions from the remaining input (bytes = [N] below 256) to a result
    [POk value rest alloc | PErr class | PFuel].  [alloc] is a GHOST counter of the memory the
    implementation reserves while parsing: every vector reader
    ([impl Parseable for Vec<A>]) reserves [min(declared length, MAX_PREALLOCATED_BYTES /
    size_of::<A>())] elements up front and then pushes one element per parsed item; names
    allocate their own length.  Element sizes are nominal constants ([esz_*], at most
    [esz_max]); the pre-reservation bound does not depend on them.
    Recursion over vectors and opcode sequences uses fuel = (remaining input length + 1);
    [PFuel] is never returned ([Wasm/ParseProofs.v], parse_total).

    Indices that the decoded instructions carry as [nat] are truncated to the input length
    ([idx]): no index space (types, functions, globals, locals, labels, table) can be longer
    than the input, so every truncated index is out of range exactly when the original is.

    Definitions only. *)
From Coq Require Import ZArith NArith List Bool Arith.
From CB Require Import Common.IntN Wasm.Syntax Wasm.Opcodes Gen.Limits Wasm.Validate Wasm.Leb128.
Import ListNotations.
Local Open Scope N_scope.

Inductive perr :=
| E_eof | E_magic | E_version | E_section_id | E_section_order | E_size | E_leb
| E_opcode | E_valtype | E_blocktype | E_tag | E_name | E_limits | E_table | E_memory
| E_start | E_constexpr | E_multi | E_leftover | E_byte | E_code_size.

Inductive pres (A : Type) :=
| POk (x : A) (rest : list N) (alloc : N)
| PErr (e : perr)
| PFuel.
Arguments POk {A}. Arguments PErr {A}. Arguments PFuel {A}.
Definition parser (A : Type) := list N -> pres A.

Definition pret {A} (x : A) : parser A := fun bs => POk x bs 0.
Definition pfail {A} (e : perr) : parser A := fun _ => PErr e.
Definition pbind {A B} (p : parser A) (f : A -> parser B) : parser B :=
  fun bs =>
    match p bs with
    | POk x r a =>
        match f x r with
        | POk y r' a' => POk y r' (a + a')
        | PErr e => PErr e
        | PFuel => PFuel
        end
    | PErr e => PErr e
    | PFuel => PFuel
    end.
Notation "'let*' x := p 'in' q" := (pbind p (fun x => q)) (at level 200, x pattern, p at level 100, q at level 200).
Definition pguard (b : bool) (e : perr) : parser unit := if b then pret tt else pfail e.

(** ** primitives *)
Definition pbyte : parser N := fun bs => match bs with b :: r => POk b r 0 | [] => PErr E_eof end.
Definition pexpect (b : N) : parser unit := let* x := pbyte in pguard (x =? b) E_byte.
Definition of_dec {A} (d : list N -> option (A * list N)) : parser A :=
  fun bs => match d bs with Some (v, r) => POk v r 0 | None => PErr E_leb end.
Definition pu32 : parser N := of_dec decode_u32.
Definition ps32 : parser Z := of_dec decode_s32.
Definition ps64 : parser Z := of_dec decode_s64.
(** [&[u8]]: a length followed by that many bytes, without copying *)
Definition ptake (n : N) : parser (list N) :=
  fun bs => if n <=? N.of_nat (length bs)
            then POk (firstn (N.to_nat n) bs) (skipn (N.to_nat n) bs) 0 else PErr E_size.
Definition pbytes : parser (list N) := let* n := pu32 in ptake n.

(** ** vectors: [impl Parseable for Vec<A>] *)
Fixpoint pvec_go {A} (item : parser A) (esize : N) (fuel : nat) (count : N) (bs : list N) : pres (list A) :=
  if count =? 0 then POk [] bs 0
  else match fuel with
       | O => PFuel
       | S f =>
           match item bs with
           | POk x r a =>
               match pvec_go item esize f (count - 1) r with
               | POk xs r' a' => POk (x :: xs) r' (a + esize + a')
               | PErr e => PErr e
               | PFuel => PFuel
               end
           | PErr e => PErr e
           | PFuel => PFuel
           end
       end.
Definition prealloc (esize count : N) : N := N.min count (MAX_PREALLOCATED_BYTES / N.max 1 esize) * esize.
Definition pvec {A} (item : parser A) (esize : N) : parser (list A) :=
  fun bs =>
    match pu32 bs with
    | POk n r a0 =>
        match pvec_go item esize (S (length r)) n r with
        | POk xs r' a => POk xs r' (a0 + prealloc esize n + a)
        | PErr e => PErr e
        | PFuel => PFuel
        end
    | PErr e => PErr e
    | PFuel => PFuel
    end.

(** nominal element sizes (bytes) of the Rust types collected in vectors *)
Definition esz_byte : N := 1.
Definition esz_u32 : N := 4.
Definition esz_valtype : N := 1.
Definition esz_local : N := 8.
Definition esz_big : N := 64.     (* FunctionType, Import, Global, Export, Element, CodeSkeleton, Data, ... *)
Definition esz_max : N := 64.

(** ** names: ASCII, at most MAX_NAME_SIZE bytes (from_utf8 + is_ascii) *)
Definition pname : parser (list N) :=
  fun bs =>
    match pbytes bs with
    | POk nm r a =>
        if (N.of_nat (length nm) <=? MAX_NAME_SIZE) && forallb (fun b => b <? 128) nm
        then POk nm r (a + N.of_nat (length nm)) else PErr E_name
    | PErr e => PErr e
    | PFuel => PFuel
    end.

Definition pvaltype : parser valtype :=
  let* b := pbyte in
  if b =? 0x7F then pret T_i32 else if b =? 0x7E then pret T_i64 else pfail E_valtype.
Definition pblocktype : parser blocktype :=
  let* b := pbyte in
  if b =? 0x40 then pret None else if b =? 0x7F then pret (Some T_i32)
  else if b =? 0x7E then pret (Some T_i64) else pfail E_blocktype.

(** [Limits]: min, optional max with min <= max *)
Definition plimits : parser (N * option N) :=
  let* tag := pbyte in
  if tag =? 0 then let* mn := pu32 in pret (mn, None)
  else if tag =? 1 then
    let* mn := pu32 in let* mx := pu32 in
    let* _ := pguard (mn <=? mx) E_limits in pret (mn, Some mx)
  else pfail E_limits.

Definition pfunctype : parser functype :=
  let* _ := pexpect 0x60 in
  let* ps := pvec pvaltype esz_valtype in
  let* rs := pvec pvaltype esz_valtype in
  match rs with
  | [] => pret {| ft_params := ps; ft_result := None |}
  | [t] => pret {| ft_params := ps; ft_result := Some t |}
  | _ => pfail E_multi
  end.

Definition ptabletype : parser N :=
  let* _ := pexpect 0x70 in
  let* l := plimits in
  let* _ := pguard (fst l <=? MAX_INIT_TABLE_SIZE) E_table in pret (fst l).
Definition pmemtype : parser (N * option N) :=
  let* l := plimits in
  let* _ := pguard (fst l <=? MAX_INIT_MEMORY_SIZE) E_memory in
  let* _ := pguard (match snd l with Some x => x <=? 65536 | None => fst l <=? 65536 end) E_memory in
  pret l.

(** ** opcodes *)
Section Decode.
Variable cap : N.              (* the input length: bound of every index space *)
Variable signext : bool.
Definition idx (n : N) : nat := N.to_nat (N.min n cap).

Definition is_signext_byte (b : N) : bool := (0xC0 <=? b) && (b <=? 0xC4).
Definition is_mem_byte (b : N) : bool :=
  ((0x28 <=? b) && (b <=? 0x29)) || ((0x2C <=? b) && (b <=? 0x3E)).

Definition pmemarg : parser (N * N) := let* al := pu32 in let* off := pu32 in pret (off, al).

Definition decode_opcode : parser (opcode * N) :=
  let* b := pbyte in
  if b =? 0x0B then pret (OEnd, 0)
  else if b =? 0x05 then pret (OElse, 0)
  else if b =? 0x02 then let* bt := pblocktype in pret (OBlock bt, 0)
  else if b =? 0x03 then let* bt := pblocktype in pret (OLoop bt, 0)
  else if b =? 0x04 then let* bt := pblocktype in pret (OIf bt, 0)
  else if b =? 0x0C then let* l := pu32 in pret (OBasic (BBr (idx l)), 0)
  else if b =? 0x0D then let* l := pu32 in pret (OBasic (BBrIf (idx l)), 0)
  else if b =? 0x0E then
    let* ls := pvec pu32 esz_u32 in let* d := pu32 in pret (OBasic (BBrTable (map idx ls) (idx d)), 0)
  else if b =? 0x10 then let* f := pu32 in pret (OBasic (BCall (idx f)), 0)
  else if b =? 0x11 then
    let* t := pu32 in let* _ := pexpect 0 in pret (OBasic (BCallIndirect (idx t)), 0)
  else if b =? 0x20 then let* i := pu32 in pret (OBasic (BLocalGet (idx i)), 0)
  else if b =? 0x21 then let* i := pu32 in pret (OBasic (BLocalSet (idx i)), 0)
  else if b =? 0x22 then let* i := pu32 in pret (OBasic (BLocalTee (idx i)), 0)
  else if b =? 0x23 then let* i := pu32 in pret (OBasic (BGlobalGet (idx i)), 0)
  else if b =? 0x24 then let* i := pu32 in pret (OBasic (BGlobalSet (idx i)), 0)
  else if is_mem_byte b then
    let* m := pmemarg in
    match mem_of_byte b (fst m) with
    | Some i => pret (OBasic i, snd m)
    | None => pfail E_opcode
    end
  else if (b =? 0x3F) || (b =? 0x40) then
    let* _ := pexpect 0 in
    match plain_of_byte b with Some i => pret (OBasic i, 0) | None => pfail E_opcode end
  else if b =? 0x41 then let* c := ps32 in pret (OBasic (mk_const T_i32 c), 0)
  else if b =? 0x42 then let* c := ps64 in pret (OBasic (mk_const T_i64 c), 0)
  else if is_signext_byte b && negb signext then pfail E_opcode
  else match plain_of_byte b with Some i => pret (OBasic i, 0) | None => pfail E_opcode end.

(** all opcodes of a function body ([OpCodeIterator] until the bytes are exhausted) *)
Fixpoint pops (fuel : nat) (bs : list N) : pres (list (opcode * N)) :=
  match bs with
  | [] => POk [] [] 0
  | _ :: _ =>
      match fuel with
      | O => PFuel
      | S f =>
          match decode_opcode bs with
          | POk o r a =>
              match pops f r with
              | POk os r' a' => POk (o :: os) r' (a + esz_big + a')
              | PErr e => PErr e
              | PFuel => PFuel
              end
          | PErr e => PErr e
          | PFuel => PFuel
          end
      end
  end.

(** ** constant expressions ([read_constant_expr]): one constant instruction and [end].
    [globals] = Some (the module's globals: type, mutable, initial value) when references to
    immutable globals are allowed (ValidationConfig V0, in element and data offsets). *)
Definition pconstexpr (ty : valtype) (globals : option (list (valtype * bool * Z))) : parser Z :=
  let* o := decode_opcode in
  let* v :=
    match fst o with
    | OBasic (BConst t z) =>
        if valtype_eqb t ty then pret z else pfail E_constexpr
    | OBasic (BGlobalGet i) =>
        match globals with
        | None => pfail E_constexpr
        | Some gs =>
            match nth_error gs i with
            | Some (t, mu, z) => if valtype_eqb t ty && negb mu then pret z else pfail E_constexpr
            | None => pfail E_constexpr
            end
        end
    | _ => pfail E_constexpr
    end in
  let* _ := pexpect 0x0B in pret v.
End Decode.

(** ** the skeleton *)
Definition magic_version : list N := MAGIC_HASH ++ VERSION.
Fixpoint list_eqb (a b : list N) : bool :=
  match a, b with [], [] => true | x :: a', y :: b' => (x =? y) && list_eqb a' b' | _, _ => false end.

(** sections in input order: id, contents, total size (header included) *)
Definition section := (N * list N * N)%type.
Definition psection : parser section :=
  fun bs =>
    match pbyte bs with
    | POk id r _ =>
        if 11 <? id then PErr E_section_id
        else match pbytes r with
             | POk body r' _ => POk (id, body, N.of_nat (length bs - length r')) r' 0
             | PErr e => PErr e
             | PFuel => PFuel
             end
    | PErr e => PErr e
    | PFuel => PFuel
    end.

Fixpoint pskel_go (fuel : nat) (last : N) (bs : list N) : pres (list section) :=
  match bs with
  | [] => POk [] [] 0
  | _ :: _ =>
      match fuel with
      | O => PFuel
      | S f =>
          match psection bs with
          | POk s r a =>
              let id := fst (fst s) in
              if (id =? 0) || (last <? id) then
                match pskel_go f (if id =? 0 then last else id) r with
                | POk ss r' a' => POk (s :: ss) r' (a + a')
                | PErr e => PErr e
                | PFuel => PFuel
                end
              else PErr E_section_order
          | PErr e => PErr e
          | PFuel => PFuel
          end
      end
  end.

Definition parse_skeleton : parser (list section) :=
  fun bs =>
    if N.of_nat (length bs) <? 4 then PErr E_eof
    else if negb (list_eqb (firstn 4 bs) MAGIC_HASH) then PErr E_magic
    else if N.of_nat (length bs) <? 8 then PErr E_eof
    else if negb (list_eqb (firstn 4 (skipn 4 bs)) VERSION) then PErr E_version
    else pskel_go (S (length bs)) 0 (skipn 8 bs).

Definition find_section (id : N) (ss : list section) : option (list N) :=
  match find (fun s => fst (fst s) =? id) ss with Some s => Some (snd (fst s)) | None => None end.

(** [parse_sec_with_default]: a present section must be consumed entirely *)
Definition psec {A} (p : parser A) (dflt : A) (o : option (list N)) : pres A :=
  match o with
  | None => POk dflt [] 0
  | Some bs =>
      match p bs with
      | POk x [] a => POk x [] a
      | POk _ (_ :: _) _ => PErr E_leftover
      | PErr e => PErr e
      | PFuel => PFuel
      end
  end.

(** ** sections *)
Record pimport := { pi_mod : list N; pi_name : list N; pi_type : N }.
Definition pimport_p : parser pimport :=
  let* m := pname in let* n := pname in
  let* tag := pbyte in
  if tag =? 0 then let* t := pu32 in pret {| pi_mod := m; pi_name := n; pi_type := t |}
  else pfail E_tag.

Record pexport := { pe_name : list N; pe_kind : N; pe_index : N }.
Definition MAX_FUNC_NAME_SIZE : N := 100.
Definition pexport_p : parser pexport :=
  let* nm := pname in
  let* tag := pbyte in
  if tag =? 0 then
    let* i := pu32 in
    let* _ := pguard (N.of_nat (length nm) <=? MAX_FUNC_NAME_SIZE) E_name in
    pret {| pe_name := nm; pe_kind := 0; pe_index := i |}
  else if (tag =? 1) || (tag =? 2) then
    let* i := pu32 in let* _ := pguard (i =? 0) E_multi in
    pret {| pe_name := nm; pe_kind := tag; pe_index := 0 |}
  else if tag =? 3 then let* i := pu32 in pret {| pe_name := nm; pe_kind := 3; pe_index := i |}
  else pfail E_tag.

Definition pglobal (cap : N) (signext : bool) : parser (valtype * bool * Z) :=
  let* t := pvaltype in
  let* mu := pbyte in
  let* _ := pguard ((mu =? 0) || (mu =? 1)) E_tag in
  let* v := pconstexpr cap signext t None in
  pret (t, mu =? 1, v).

Definition plocal : parser (N * valtype) := let* n := pu32 in let* t := pvaltype in pret (n, t).
(** [CodeSkeleton]: size, locals, and the remaining [size - |locals|] bytes of instructions *)
Definition pcode : parser (list (N * valtype) * list N) :=
  fun bs =>
    match pu32 bs with
    | POk size r a0 =>
        match pvec plocal esz_local r with
        | POk ls r' a =>
            let used := N.of_nat (length r - length r') in
            if size <? used then PErr E_code_size
            else match ptake (size - used) r' with
                 | POk body r'' _ => POk (ls, body) r'' (a0 + a)
                 | PErr _ => PErr E_code_size
                 | PFuel => PFuel
                 end
        | PErr e => PErr e
        | PFuel => PFuel
        end
    | PErr e => PErr e
    | PFuel => PFuel
    end.

Definition pelement (cap : N) (signext : bool) (globals : option (list (valtype * bool * Z))) : parser (Z * list N) :=
  let* ti := pu32 in
  let* _ := pguard (ti =? 0) E_multi in
  let* off := pconstexpr cap signext T_i32 globals in
  let* inits := pvec pu32 esz_u32 in
  pret (off, inits).
Definition pdata (cap : N) (signext : bool) (globals : option (list (valtype * bool * Z))) : parser (Z * list N) :=
  let* mi := pu32 in
  let* _ := pguard (mi =? 0) E_multi in
  let* off := pconstexpr cap signext T_i32 globals in
  let* init := pvec pbyte esz_byte in
  pret (off, init).
Definition pstart : parser unit := let* _ := pu32 in pfail E_start.

(** at most one table / memory *)
Definition pone {A} (item : parser A) : parser (option A) :=
  let* l := pvec item esz_big in
  match l with [] => pret None | [x] => pret (Some x) | _ => pfail E_multi end.

(** ** the parsed module *)
Record pmodule := {
  pm_types : list functype;
  pm_imports : list pimport;
  pm_functypes : list N;
  pm_table : option N;
  pm_mem : option (N * option N);
  pm_globals : list (valtype * bool * Z);
  pm_exports : list pexport;
  pm_elems : list (Z * list N);
  pm_code : list (list (N * valtype) * list (opcode * N));
  pm_data : list (Z * list N)
}.

Definition pres_bind {A B} (r : pres A) (f : A -> N -> pres B) : pres B :=
  match r with POk x _ a => f x a | PErr e => PErr e | PFuel => PFuel end.

(** the bodies of the code section: every function's opcode sequence *)
Fixpoint pbodies (cap : N) (signext : bool) (cs : list (list (N * valtype) * list N))
  : pres (list (list (N * valtype) * list (opcode * N))) :=
  match cs with
  | [] => POk [] [] 0
  | (ls, body) :: r =>
      match pops cap signext (S (length body)) body with
      | POk ops _ a =>
          match pbodies cap signext r with
          | POk rest _ a' => POk ((ls, ops) :: rest) [] (a + a')
          | PErr e => PErr e
          | PFuel => PFuel
          end
      | PErr e => PErr e
      | PFuel => PFuel
      end
  end.

(** ValidationConfig: V0 = globals allowed in offsets, no sign extension; V1 = the reverse *)
Record vconfig := { cfg_globals_in_init : bool; cfg_signext : bool }.
Definition cfg_v0 := {| cfg_globals_in_init := true; cfg_signext := false |}.
Definition cfg_v1 := {| cfg_globals_in_init := false; cfg_signext := true |}.

Fixpoint pcustoms (ss : list section) : pres unit :=
  match ss with
  | [] => POk tt [] 0
  | (id, body, _) :: r =>
      if id =? 0 then
        match pname body with
        | POk _ _ a => match pcustoms r with POk _ _ a' => POk tt [] (a + a') | e => e end
        | PErr e => PErr e
        | PFuel => PFuel
        end
      else pcustoms r
  end.

(** all parsing that [utils::instantiate] performs (the order of the steps is that of
    [validate_module]; the validation checks interleaved there are in [Wasm/Validate.v]) *)
Definition parse_module (cfg : vconfig) (bs : list N) : pres pmodule :=
  let cap := N.of_nat (length bs) in
  let sx := cfg_signext cfg in
  pres_bind (parse_skeleton bs) (fun ss a0 =>
  pres_bind (pcustoms ss) (fun _ a1 =>
  pres_bind (psec (pvec pfunctype esz_big) [] (find_section 1 ss)) (fun types a2 =>
  pres_bind (psec (pvec pimport_p esz_big) [] (find_section 2 ss)) (fun imports a3 =>
  pres_bind (psec (pone ptabletype) None (find_section 4 ss)) (fun table a4 =>
  pres_bind (psec (pone pmemtype) None (find_section 5 ss)) (fun mem a5 =>
  pres_bind (psec (pvec (pglobal cap sx) esz_big) [] (find_section 6 ss)) (fun globals a6 =>
  pres_bind (psec pstart tt (find_section 8 ss)) (fun _ a7 =>
  pres_bind (psec (pvec pu32 esz_u32) [] (find_section 3 ss)) (fun functypes a8 =>
  pres_bind (psec (pvec pcode esz_big) [] (find_section 10 ss)) (fun code a9 =>
  pres_bind (pbodies cap sx code) (fun bodies a10 =>
  pres_bind (psec (pvec pexport_p esz_big) [] (find_section 7 ss)) (fun exports a11 =>
  let gctx := if cfg_globals_in_init cfg then Some globals else None in
  pres_bind (psec (pvec (pelement cap sx gctx) esz_big) [] (find_section 9 ss)) (fun elems a12 =>
  pres_bind (psec (pvec (pdata cap sx gctx) esz_big) [] (find_section 11 ss)) (fun data a13 =>
  POk {| pm_types := types; pm_imports := imports; pm_functypes := functypes; pm_table := table;
         pm_mem := mem; pm_globals := globals; pm_exports := exports; pm_elems := elems;
         pm_code := bodies; pm_data := data |} []
      (a0 + a1 + a2 + a3 + a4 + a5 + a6 + a7 + a8 + a9 + a10 + a11 + a12 + a13))))))))))))))).

(** ** from the parsed module to the validator's module *)
Fixpoint index_of (x : list N) (l : list (list N)) (i : N) : N :=
  match l with [] => i | y :: r => if list_eqb x y then i else index_of x r (i + 1) end.
Definition intern_names (names : list (list N)) : list N :=
  if N.of_nat (length names) <=? MAX_NUM_EXPORTS
  then map (fun n => index_of n names 0) names
  else map (fun _ => 0) names.

Definition u32_of_i32 (z : Z) : N := Z.to_N (wrap 32 z).

(** offsets are kept in their unsigned 32-bit representation: an [i32] offset is negative
    iff it is at least 2^31 *)
Definition to_vmodule (cap : N) (p : pmodule) : option vmodule :=
  if negb (length (pm_functypes p) =? length (pm_code p))%nat then None        (* counts must match *)
  else if existsb (fun d => (2 ^ 31 <=? fst d)%Z) (pm_data p) then None        (* offset.try_into::<u32>() *)
  else
    Some {| vm_types := pm_types p;
            vm_imports := map (fun i => idx cap (pi_type i)) (pm_imports p);
            vm_funcs := map (fun '(ti, (ls, ops)) => {| mf_type := idx cap ti; mf_locals := ls; mf_body := ops |})
                            (combine (pm_functypes p) (pm_code p));
            vm_table := pm_table p;
            vm_mem := pm_mem p;
            vm_globals := map (fun g => (fst (fst g), snd (fst g))) (pm_globals p);
            vm_exports := map (fun '(e, n) => (n, pe_kind e, pe_index e))
                              (combine (pm_exports p) (intern_names (map pe_name (pm_exports p))));
            vm_elems := map (fun e => (u32_of_i32 (fst e), snd e)) (pm_elems p);
            vm_data := map (fun d => (Z.to_N (fst d), N.of_nat (length (snd d)))) (pm_data p) |}.

(** parse, then validate: the verdict of [utils::instantiate] with an import validator that
    admits everything *)
Definition accepts (cfg : vconfig) (bs : list N) : bool :=
  match parse_module cfg bs with
  | POk p _ _ => match to_vmodule (N.of_nat (length bs)) p with Some vm => validate_module (cfg_signext cfg) vm | None => false end
  | _ => false
  end.
