(** * Wasm/CompileSafe4 — [handle_opcode] on every opcode, the fold over a function
    body, and [compile_output_safe_partial] for [compile_function]. *)
From Coq Require Import ZArith NArith List Lia Bool.
From CB Require Import Wasm.Syntax Wasm.Compile Wasm.Machine Wasm.MachineLemmas Wasm.CompileLemmas
     Wasm.StraightProofs Wasm.BlockProofs Wasm.BlockInv Wasm.CompileSafe Wasm.CompileSafe2 Wasm.CompileSafe3 Wasm.CompileSafe3b.
Import ListNotations.
Local Open Scope Z_scope.
Local Arguments i32_bytes : simpl never.
Local Arguments u32_bytes : simpl never.
Local Arguments u16_bytes : simpl never.

Ltac napp H := rewrite <- ?app_assoc in H; cbn [app] in H.

Definition op_locals (n : Z) (op : opcode) : bool :=
  match op with OBasic b => locals_in n b | _ => true end.

Section Safe4.
Variable nl : Z.
Variable cx : cctx.
Hypothesis Hret : cx_return cx <> None -> 0 < nl.
Notation L := (L nl).
Notation Iv := (Iv nl).
Notation post := (post nl cx).

Lemma checked_some (r : option cstate) (n : nat) s' :
  match r with Some x => if (length (c_stack x) =? n)%nat then Some x else None | None => None end = Some s' -> r = Some s'.
Proof. destruct r as [x|]; [|discriminate]. destruct (_ =? _)%nat; [|discriminate]. auto. Qed.

Lemma skip_safe bs s0 fl : Iv bs s0 fl -> post bs fl (set_last s0 None).
Proof.
  intros H. destruct (Iv_start nl _ _ _ H) as (H1 & _).
  apply (post_simple nl cx bs fl []); [rewrite app_nil_r; exact H1|apply shaped_nil].
Qed.

Lemma block_safe bs s fl (ty : blocktype) s' :
  Iv bs s fl ->
  match ty with
  | Some _ => let '(r, s1) := dyn_get s in Some (set_bp s1 (JUnknown [] (Some (PDyn r)) :: c_bp s1))
  | None => Some (set_bp s (JUnknown [] None :: c_bp s))
  end = Some s' -> post bs fl s'.
Proof.
  intros H E. apply (post_simple nl cx bs fl []); [rewrite app_nil_r|apply shaped_nil]. destruct ty as [t|].
  - destruct (dyn_get s) as [r s1] eqn:Ed. inversion E; subst; clear E.
    destruct (L_dyn_get nl _ _ _ _ _ _ H Ed) as (H1 & Br & B1 & _).
    assert (H1' : L bs (all_locs (c_bp s1)) s1 fl) by (rewrite B1; exact H1).
    apply (L_set_bp nl bs (all_locs (c_bp s1)) s1 fl _ H1').
    + intros p [Hp|Hp]; [discriminate|]. apply (l_known _ _ _ _ _ H1). exact Hp.
    + intros lo r0 [Hp|Hp]; [inversion Hp; subst; exact Br|]. apply (l_res _ _ _ _ _ H1 lo). exact Hp.
  - inversion E; subst; clear E. apply (L_set_bp nl bs (all_locs (c_bp s)) s fl _ H).
    + intros p [Hp|Hp]; [discriminate|]. apply (l_known _ _ _ _ _ H). exact Hp.
    + intros lo r0 [Hp|Hp]; [discriminate|]. apply (l_res _ _ _ _ _ H lo). exact Hp.
Qed.

Lemma loop_safe bs s fl : Iv bs s fl -> post bs fl (set_bp s (JKnown (cur_off s) :: c_bp s)).
Proof.
  intros H. exists fl, [], (off fl :: bs). rewrite app_nil_r. splits; auto using shaped_nil.
  - assert (H1 : L (off fl :: bs) (all_locs (c_bp s)) s fl) by (eapply (L_bs nl); [exact H|apply incl_tl, incl_refl]).
    apply (L_set_bp nl _ (all_locs (c_bp s)) s fl _ H1).
    + intros p [Hp|Hp].
      * inversion Hp; subst. left. symmetry. eapply cur_off_off; eauto.
      * right. apply (l_known _ _ _ _ _ H). exact Hp.
    + intros lo r0 [Hp|Hp]; [discriminate|]. apply (l_res _ _ _ _ _ H lo). exact Hp.
  - apply incl_tl, incl_refl.
  - intros b [<-|Hb]; auto.
Qed.

Lemma fixed_one o imm : fixed_shape o = Some (length imm, 0%nat, false) -> imm <> [] \/ length imm = 0%nat ->
  shaped cx (FOp o :: match imm with [] => [] | _ => [FImm imm] end).
Proof.
  intros Hs _. apply shaped_one.
  pose proof (sh_fixed cx o (length imm) 0 false imm Hs eq_refl) as X. cbn [repeat dst_opt app] in X. rewrite app_nil_r in X.
  destruct imm; exact X.
Qed.

Lemma unreachable_safe bs s fl n s' :
  Iv bs s fl -> c_last s = None -> truncate (push_op s IUnreachable) n = Some s' -> post bs fl s'.
Proof.
  intros H Hl E. pose proof (L_emit nl _ _ _ _ (FOp IUnreachable) H Hl Logic.I ltac:(discriminate)) as H1.
  destruct (L_truncate_n nl _ _ _ _ _ _ H1 E) as (H2 & L2 & B2 & N2).
  apply (post_simple nl cx bs fl [FOp IUnreachable]).
  - eapply (Iv_of_L nl bs s); [exact H2|exact B2].
  - apply (fixed_one IUnreachable []); auto.
Qed.

Lemma tick_safe bs s fl n :
  Iv bs s fl -> c_last s = None -> post bs fl (emit (push_op s ITickEnergy) (u32_bytes (Z.of_N n))).
Proof.
  intros H Hl. pose proof (L_emit nl _ _ _ _ (FOp ITickEnergy) H Hl Logic.I ltac:(discriminate)) as H1.
  pose proof (L_emit nl _ _ _ _ (FImm (u32_bytes (Z.of_N n))) H1 Hl Logic.I ltac:(discriminate)) as H2. napp H2.
  apply (post_simple nl cx bs fl [FOp ITickEnergy; FImm (u32_bytes (Z.of_N n))]).
  - exact H2.
  - apply shaped_one. apply (sh_fixed cx ITickEnergy 4 0 false (u32_bytes (Z.of_N n))); [reflexivity|apply u32_bytes_length].
Qed.

Lemma return_safe bs s fl n s' :
  Iv bs s fl -> c_last s = None ->
  match (match cx_return cx with
         | Some _ => match consume s with Some (top, s1) => Some (copy_if_needed s1 top RETURN_VALUE_LOCATION) | None => None end
         | None => Some s end) with
  | Some s1 => truncate (push_op s1 IReturn) n
  | None => None end = Some s' -> post bs fl s'.
Proof.
  intros H Hl E.
  match type of E with match ?X with _ => _ end = _ => destruct X as [s1|] eqn:E1; [|discriminate] end.
  assert (C : exists ext, L bs (all_locs (c_bp s)) s1 (fl ++ ext) /\ shaped cx ext /\ c_last s1 = None /\ c_bp s1 = c_bp s).
  { destruct (cx_return cx) as [t|] eqn:Er.
    - destruct (consume s) as [[top s2]|] eqn:Ec; [|discriminate]. inversion E1; subst; clear E1.
      destruct (L_consume nl _ _ _ _ _ _ H Ec) as (H3 & F3 & L3 & B3 & N3 & _).
      assert (Hr : res_ok nl (c_next s2) RETURN_VALUE_LOCATION) by (unfold res_ok, RETURN_VALUE_LOCATION; assert (0 < nl) by (apply Hret; congruence); lia).
      destruct (L_copy nl _ _ _ _ top RETURN_VALUE_LOCATION H3 ltac:(congruence) F3 Hr) as (H4 & L4 & B4 & N4 & _).
      exists (copy_fields top RETURN_VALUE_LOCATION). splits; auto using copy_shaped. congruence.
    - inversion E1; subst. exists []. rewrite app_nil_r. splits; auto using shaped_nil. }
  destruct C as (ext & H2 & S2 & L2 & B2).
  pose proof (L_emit nl _ _ _ _ (FOp IReturn) H2 L2 Logic.I ltac:(discriminate)) as H3. napp H3.
  destruct (L_truncate_n nl _ _ _ _ _ _ H3 E) as (H4 & L4 & B4 & N4).
  apply (post_simple nl cx bs fl (ext ++ [FOp IReturn])).
  - eapply (Iv_of_L nl bs s); [exact H4|]. rewrite B4. exact B2.
  - apply shaped_app; auto. apply (fixed_one IReturn []); auto.
Qed.

Lemma br_safe bs s fl l n s' :
  Iv bs s fl -> c_last s = None ->
  match push_br_jump s true l with Some s1 => truncate s1 n | None => None end = Some s' -> post bs fl s'.
Proof.
  intros H Hl E. destruct (push_br_jump s true l) as [s1|] eqn:E1; [|discriminate].
  destruct (br_jump_safe nl cx _ _ _ _ _ _ H Hl E1) as (ext & H1 & S1 & L1).
  destruct (L_truncate_n nl _ _ _ _ _ _ H1 E) as (H2 & L2 & B2 & N2).
  apply (post_simple nl cx bs fl ext); auto. eapply (Iv_of_L nl bs s1); [exact H2|exact B2].
Qed.

(** ** one opcode *)
Lemma handle_safe bs s0 fl v reach op s' :
  Iv bs s0 fl -> op_locals nl op = true ->
  handle_opcode cx s0 v reach op = Some s' -> post bs fl s'.
Proof.
  intros H Hloc E. destruct (Iv_start nl _ _ _ H) as (H1 & Hl).
  assert (Skip : Some (set_last s0 None) = Some s' -> post bs fl s').
  { intros X. inversion X; subst. apply skip_safe. exact H. }
  destruct reach.
  - (* reachable *)
    destruct op as [| |ty|ty|ty|b].
    + unfold handle_opcode in E. cbv beta iota zeta in E. apply checked_some in E.
      exact (end_safe nl cx bs (set_last s0 None) fl true v s' H1 Hl E).
    + unfold handle_opcode in E. cbv beta iota zeta in E. apply checked_some in E.
      exact (else_safe nl cx bs (set_last s0 None) fl true s' H1 Hl E).
    + unfold handle_opcode in E. cbv beta iota zeta in E. apply checked_some in E.
      exact (block_safe bs (set_last s0 None) fl ty s' H1 E).
    + unfold handle_opcode in E. cbv beta iota zeta in E.
      match type of E with (if ?c then _ else _) = _ => destruct c; [|discriminate] end.
      injection E as <-. exact (loop_safe bs (set_last s0 None) fl H1).
    + unfold handle_opcode in E. cbv beta iota zeta in E. apply checked_some in E.
      exact (if_safe nl cx bs (set_last s0 None) fl ty s' H1 Hl E).
    + destruct (straight b) eqn:Hs.
      * destruct (handle_score cx s0 v b s' Hs E) as (Esc & _). exact (score_safe nl cx bs s0 fl b s' H Hs Hloc Esc).
      * destruct b; try discriminate Hs;
          unfold handle_opcode in E; cbv beta iota zeta in E;
          first [apply checked_some in E | match type of E with (if ?c then _ else _) = _ => destruct c; [|discriminate] end];
          first [ exact (unreachable_safe bs (set_last s0 None) fl _ s' H1 Hl E)
                | exact (br_safe bs (set_last s0 None) fl _ _ s' H1 Hl E)
                | exact (br_if_safe nl cx bs (set_last s0 None) fl _ s' H1 Hl E)
                | exact (br_table_safe nl cx bs (set_last s0 None) fl v _ _ s' H1 Hl E)
                | exact (return_safe bs (set_last s0 None) fl _ s' H1 Hl E)
                | exact (call_safe nl cx bs (set_last s0 None) fl _ s' H1 Hl E)
                | exact (calli_safe nl cx bs (set_last s0 None) fl _ s' H1 Hl E)
                | (injection E as <-; exact (tick_safe bs (set_last s0 None) fl _ H1 Hl)) ].
  - destruct op as [| |ty|ty|ty|b]; try (apply Skip; exact E).
    + unfold handle_opcode in E. cbv beta iota zeta in E. apply checked_some in E.
      exact (end_safe nl cx bs (set_last s0 None) fl false v s' H1 Hl E).
    + unfold handle_opcode in E. cbv beta iota zeta in E. apply checked_some in E.
      exact (else_safe nl cx bs (set_last s0 None) fl false s' H1 Hl E).
  - apply Skip. destruct op; exact E.
Qed.

(** ** level 2: jump targets are instruction starts *)
Definition starts (fl : list field) (b : Z) : Prop :=
  exists pre post, fl = pre ++ post /\ off pre = b /\ shaped cx pre /\ shaped cx post.
Record J (bs : list Z) (s : cstate) (fl : list field) : Prop := {
  j_iv : Iv bs s fl; j_sh : shaped cx fl; j_bs : Forall (starts fl) bs
}.

Lemma post_J bs s fl s' : J bs s fl -> post bs fl s' -> exists bs' fl', J bs' s' fl'.
Proof.
  intros [A1 A2 A3] (fl1 & ext & bs' & K & H & S & Hin & Hb).
  assert (S1 : shaped cx fl1) by (eapply shaped_kinds; [symmetry; exact K|exact A2]).
  exists bs', (fl1 ++ ext). constructor; auto.
  - apply shaped_app; auto.
  - apply Forall_forall. intros b Hbin. destruct (Hb b Hbin) as [Hold|[->| ->]].
    + rewrite Forall_forall in A3. destruct (A3 b Hold) as (pre & po & E & O & P1 & P2). subst fl.
      destruct (kinds_split fl1 pre po K) as (a' & b' & E1 & Ka & Kb). subst fl1.
      exists a', (b' ++ ext). splits.
      * rewrite app_assoc. reflexivity.
      * rewrite <- O. apply off_kinds. exact Ka.
      * eapply shaped_kinds; [symmetry; exact Ka|exact P1].
      * apply shaped_app; auto. eapply shaped_kinds; [symmetry; exact Kb|exact P2].
    + exists fl1, ext. splits; auto. apply off_kinds. exact K.
    + exists (fl1 ++ ext), []. rewrite app_nil_r. splits; auto using shaped_nil. apply shaped_app; auto.
Qed.

Lemma compile_ops_safe : forall ops v s v' s' bs fl,
  J bs s fl -> Forall (fun op => op_locals nl op = true) ops ->
  compile_ops cx ops v s = Some (v', s') -> exists bs' fl', J bs' s' fl'.
Proof.
  induction ops as [|op ops IH]; intros v s v' s' bs fl HJ Hc E; cbn [compile_ops] in E.
  - inversion E; subst. eauto.
  - inversion Hc as [|? ? C2 Hc']; subst.
    destruct (vstep cx v op) as [v1|]; [|discriminate].
    destruct (handle_opcode cx s v1 (v_reachability v) op) as [s1|] eqn:Eh; [|discriminate].
    destruct (post_J _ _ _ _ HJ (handle_safe _ _ _ _ _ _ _ (j_iv _ _ _ HJ) C2 Eh)) as (bs1 & fl1 & HJ1).
    eapply IH; eauto.
Qed.

End Safe4.

(** ** the function level *)
Definition code_safe (cx : cctx) (nregs nconsts : Z) (code : list N) : Prop :=
  exists fl, code = enc fl /\ shaped cx fl /\ Forall (fok nregs nconsts) fl
    /\ (forall pre t post, fl = pre ++ FTgt t :: post -> starts cx fl t /\ 0 <= t <= Z.of_nat (length code)).

Lemma locals_in_mono n n' b : n <= n' -> locals_in n b = true -> locals_in n' b = true.
Proof. intros Hn. destruct b; cbn; auto; intros H; apply Z.ltb_lt in H; apply Z.ltb_lt; lia. Qed.

Theorem compile_output_safe_partial_proof cx ti ft nd ops cf :
  cx_return cx = ft_result ft ->
  Forall (fun op => op_locals (Z.of_nat (length (ft_params ft) + nd)) op = true) ops ->
  compile_function cx ti ft nd ops = Some cf ->
  0 <= cf_num_registers cf /\ Z.of_nat (length (ft_params ft) + nd) <= cf_num_registers cf
  /\ code_safe cx (cf_num_registers cf) (Z.of_nat (length (cf_constants cf))) (cf_code cf).
Proof.
  intros Hr Hc E. unfold compile_function in E.
  set (num_locals := (length (ft_params ft) + nd)%nat) in *.
  set (next := match num_locals, ft_result ft with O, Some _ => 1 | _, _ => Z.of_nat num_locals end) in *.
  assert (Hn : Z.of_nat num_locals <= next) by (unfold next; destruct num_locals, (ft_result ft); lia).
  assert (Hres : ft_result ft <> None -> 0 < next).
  { unfold next. destruct num_locals, (ft_result ft); try lia; intros X; contradiction X; reflexivity. }
  match type of E with match compile_ops _ _ ?V ?S with _ => _ end = _ =>
    set (v0 := V) in *; set (s0 := S) in *; destruct (compile_ops cx ops v0 s0) as [[v s]|] eqn:Ec; [|discriminate] end.
  destruct (v_ctrls v); [|discriminate]. destruct (c_bp s) eqn:Ebp; [|discriminate]. inversion E; subst cf; clear E.
  cbn [cf_num_registers cf_constants cf_code].
  assert (W0 : cwf next s0).
  { constructor; cbn; auto; try lia. intros k v1 idx Hk. destruct k; discriminate. }
  assert (J0 : J next cx [] s0 []).
  { constructor; [|constructor|constructor]. constructor; auto.
    - intros pre t post X. destruct pre; discriminate.
    - intros q [].
    - cbn. intros pos [X|[]]. discriminate.
    - cbn. intros locs r [X|[]]. destruct (ft_result ft) eqn:Ef; inversion X; subst.
      unfold res_ok, RETURN_VALUE_LOCATION. assert (0 < next) by (apply Hres; discriminate). lia.
    - cbn. discriminate. }
  assert (Hc' : Forall (fun op => op_locals next op = true) ops).
  { eapply Forall_impl; [|exact Hc]. intros op B. destruct op; auto. cbn in *. eapply locals_in_mono; eauto. }
  assert (Hret : cx_return cx <> None -> 0 < next) by (rewrite Hr; exact Hres).
  destruct (compile_ops_safe next cx Hret ops v0 s0 v s [] [] J0 Hc' Ec) as (bs & fl & [Hiv Hsh Hbs]).
  pose proof (w_next _ _ (l_cwf _ _ _ _ _ Hiv)) as Wn.
  splits; try lia.
  assert (Sret : shaped cx [FOp IReturn]) by (apply shaped_one; apply (sh_fixed cx IReturn 0 0 false []); reflexivity).
  exists (fl ++ [FOp IReturn]). splits.
  - rewrite enc_app, (l_out _ _ _ _ _ Hiv). reflexivity.
  - apply shaped_app; auto.
  - apply Forall_app. split; [|constructor; [exact Logic.I|constructor]].
    pose proof (l_ops _ _ _ _ _ Hiv) as X. unfold ncon in X. rewrite map_length. exact X.
  - intros pre t post X.
    assert (St : starts cx (fl ++ [FOp IReturn]) t).
    { apply split_last in X. destruct X as [(_ & X & _)|(m & X & _)]; [discriminate|].
      destruct (l_tgt _ _ _ _ _ Hiv _ _ _ X) as [Hin|Hin]; [|rewrite Ebp in Hin; destruct Hin].
      rewrite Forall_forall in Hbs. destruct (Hbs t Hin) as (p1 & p2 & E1 & O & P1 & P2).
      exists p1, (p2 ++ [FOp IReturn]). splits; auto. rewrite E1, app_assoc. reflexivity. apply shaped_app; auto. }
    split; auto. destruct St as (p1 & p2 & E1 & O & _). rewrite <- O.
    change (Z.of_nat (length (c_out s ++ [IReturn]))) with (Z.of_nat (length (c_out s ++ enc [FOp IReturn]))).
    rewrite (l_out _ _ _ _ _ Hiv), <- enc_app, E1. fold (off (p1 ++ p2)). rewrite off_app. pose proof (off_nonneg p1). pose proof (off_nonneg p2). lia.
Qed.
