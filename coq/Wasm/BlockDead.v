(** * Stage B, extension 1: DEAD CODE.  [br] / [br_table] / [return] / [unreachable] may be followed by
    further instructions in the same body.  The compiler ([handle_opcode] with
    [UnreachableInstruction] / [UnreachableFrame]) skips them; the validator's state after them differs
    only in the operand height, which the closing [end] / [else] resets.  Hence compiling a body equals
    compiling the body with the instructions after the first terminator removed ([strip], applied
    recursively to nested bodies in live position), and the reference interpreter never executes them.
    The simulation theorems of [BlockTheorem] therefore carry over to every body whose [strip] is in
    the fragment. *)
From Coq Require Import ZArith NArith List Lia Bool FMapPositive.
From CB Require Import Common.IntN Common.IntNProofs Wasm.Syntax Wasm.Opcodes Wasm.Sem Wasm.Compile Wasm.Machine
     Wasm.MachineLemmas Wasm.CompileLemmas Wasm.NumOpsProofs Wasm.SemProofs Wasm.SyntaxProofs Wasm.StraightProofs
     Wasm.BlockProofs Wasm.BlockInv Wasm.BlockSim Wasm.BlockSim2 Wasm.BlockTheorem.
Import ListNotations.
Local Open Scope Z_scope.

(** ** removing dead code *)
Definition term_b (b : binstr) : bool :=
  match b with BBr _ | BBrTable _ _ | BUnreachable | BReturn => true | _ => false end.
Definition term_i (i : instr) : bool := match i with Basic b => term_b b | _ => false end.

Fixpoint strip_i (i : instr) : instr :=
  let sl := fix sl (l : list instr) : list instr :=
              match l with [] => [] | x :: r => if term_i x then [strip_i x] else strip_i x :: sl r end in
  match i with
  | Basic b => Basic b
  | Block bt b => Block bt (sl b)
  | Loop bt b => Loop bt (sl b)
  | If bt t e => If bt (sl t) (sl e)
  end.
Fixpoint strip (l : list instr) : list instr :=
  match l with [] => [] | x :: r => if term_i x then [strip_i x] else strip_i x :: strip r end.

Lemma strip_block bt b : strip_i (Block bt b) = Block bt (strip b). Proof. reflexivity. Qed.
Lemma strip_loop bt b : strip_i (Loop bt b) = Loop bt (strip b). Proof. reflexivity. Qed.
Lemma strip_if bt t e : strip_i (If bt t e) = If bt (strip t) (strip e). Proof. reflexivity. Qed.
Lemma strip_cons_term b r : term_b b = true -> strip (Basic b :: r) = [Basic b].
Proof. intros H. cbn. rewrite H. reflexivity. Qed.
Lemma strip_cons_live i r : term_i i = false -> strip (i :: r) = strip_i i :: strip r.
Proof. intros H. cbn [strip]. rewrite H. reflexivity. Qed.
Lemma strip_nil_iff l : strip l = [] <-> l = [].
Proof. split; [|intros ->; reflexivity]. destruct l as [|x r]; [reflexivity|]. cbn. destruct (term_i x); discriminate. Qed.

(** ** the reference interpreter never executes stripped instructions *)
Section SemDead.
Variable host : nat -> list val -> option memory -> host_result.
Variable cap : N.
Variable m : module.
Notation exec_seq := (exec_seq host cap m).
Notation exec_instr := (exec_instr host cap m).

Lemma exec_term f st l vs b : term_b b = true ->
  match exec_instr f st l vs (Basic b) with RNormal _ _ _ => False | _ => True end.
Proof.
  intros H. destruct f as [|f]; [exact I|]. destruct b; try discriminate H; cbn; auto.
  destruct vs as [|[c|c] vs]; exact I.
Qed.

Lemma exec_strip : forall fuel,
  (forall st l vs is, exec_seq fuel st l vs (strip is) = exec_seq fuel st l vs is)
  /\ (forall st l vs i, exec_instr fuel st l vs (strip_i i) = exec_instr fuel st l vs i).
Proof.
  induction fuel as [|f [IHs IHi]]; [split; reflexivity|]. split.
  - intros st l vs is. destruct is as [|i r]; [reflexivity|].
    destruct (term_i i) eqn:Et.
    + destruct i as [b| | |]; try discriminate Et. cbn [term_i] in Et.
      rewrite (strip_cons_term b r Et). rewrite !E_cons.
      pose proof (exec_term f st l vs b Et) as Hx.
      destruct (exec_instr f st l vs (Basic b)); try reflexivity. contradiction.
    + rewrite (strip_cons_live i r Et). rewrite !E_cons. rewrite IHi.
      destruct (exec_instr f st l vs i); try reflexivity. apply IHs.
  - intros st l vs i. destruct i as [b|bt body|bt body|bt thn els].
    + reflexivity.
    + rewrite strip_block, !E_block, IHs. reflexivity.
    + rewrite strip_loop, !E_loop, IHs.
      destruct (Sem.exec_seq host cap m f st l [] body) as [| [|k] s' l' vs'| | | |]; try reflexivity.
      rewrite <- strip_loop. apply IHi.
    + rewrite strip_if. destruct vs as [|[cv|cv] vs]; try reflexivity. rewrite !E_if.
      rewrite <- (IHi st l vs (Block bt (if cv =? 0 then els else thn))). rewrite strip_block.
      destruct (cv =? 0); reflexivity.
Qed.

Lemma exec_strip_block fuel st l vs bt is :
  exec_instr fuel st l vs (Block bt (strip is)) = exec_instr fuel st l vs (Block bt is).
Proof. rewrite <- strip_block. apply (proj2 (exec_strip fuel)). Qed.
End SemDead.

(** ** the compiler skips them *)
Definition clen (v : vstate) : nat := length (v_ctrls v).
(** terminated state of the body of frame [top] *)
Definition tstate (v : vstate) : Prop :=
  exists top r, v_ctrls v = top :: r /\ v_unreach v = Some (length r) /\ vf_unreachable top = true /\ v_opds v = vf_height top.
Definition deadrel (vt vd : vstate) : Prop := v_ctrls vd = v_ctrls vt /\ v_unreach vd = v_unreach vt.
(** inside dead code: [k] frames opened after the terminator *)
Definition DI (top : vframe) (r : list vframe) (k : nat) (v : vstate) : Prop :=
  exists inner, length inner = k /\ v_ctrls v = inner ++ top :: r /\ v_unreach v = Some (length r).

Lemma pushn_ctrls : forall n w, v_ctrls (v_pushn n w) = v_ctrls w.
Proof. induction n; intros; cbn; auto. rewrite IHn. reflexivity. Qed.

Lemma DI_pop top r k v v1 : v_pop v = Some v1 -> DI top r k v -> DI top r k v1.
Proof. intros H (inner & A & B & C). destruct (pop_unreach _ _ H) as [E1 E2]. exists inner. rewrite E1, E2. auto. Qed.
Lemma DI_popn top r k n v v1 : v_popn n v = Some v1 -> DI top r k v -> DI top r k v1.
Proof. intros H (inner & A & B & C). destruct (popn_unreach _ _ _ H) as [E1 E2]. exists inner. rewrite E1, E2. auto. Qed.
Lemma DI_pushn top r k n v : DI top r k v -> DI top r k (v_pushn n v).
Proof. intros (inner & A & B & C). exists inner. rewrite pushn_unreach, pushn_ctrls. auto. Qed.
Lemma frame_eta top : vf_unreachable top = true ->
  {| vf_is_if := vf_is_if top; vf_label := vf_label top; vf_end := vf_end top; vf_height := vf_height top; vf_unreachable := true |} = top.
Proof. destruct top; cbn; intros ->; reflexivity. Qed.
Lemma DI_mark top r k v v1 : vf_unreachable top = true -> v_mark_unreachable v = Some v1 -> DI top r k v -> DI top r k v1.
Proof.
  intros Ht H (inner & A & B & C). unfold v_mark_unreachable in H. rewrite B, C in H.
  destruct inner as [|f inner']; cbn [app] in H; inversion H; subst v1; clear H.
  - exists []. cbn. rewrite (frame_eta top Ht). splits; auto. f_equal. lia.
  - eexists (_ :: inner'). cbn [length app v_ctrls v_unreach]. splits; [exact A|reflexivity|].
    f_equal. rewrite app_length. cbn [length]. lia.
Qed.
Lemma DI_push_ctrl top r k v b l e : DI top r k v -> DI top r (S k) (v_push_ctrl b l e v).
Proof. intros (inner & A & B & C). eexists (_ :: inner). cbn. rewrite A, B. splits; auto. Qed.
Lemma DI_pop_ctrl top r k v x : DI top r (S k) v -> v_pop_ctrl v = Some x -> DI top r k (snd x).
Proof.
  intros (inner & A & B & C) H. destruct inner as [|f inner']; [discriminate A|]. cbn in A. injection A as A.
  unfold v_pop_ctrl in H. rewrite B in H. cbn [app] in H.
  destruct (v_popn (bt_arity (vf_end f)) v) as [w|] eqn:Ep; [|discriminate].
  destruct (popn_unreach _ _ _ Ep) as [Eu _].
  destruct (v_opds w =? vf_height f)%nat; [|discriminate]. inversion H; subst x; clear H. cbn [snd].
  exists inner'. cbn. splits; auto. rewrite Eu, C.
  destruct (Nat.eqb_spec (length r) (length (inner' ++ top :: r))) as [E|]; [|reflexivity].
  rewrite app_length in E. cbn in E. lia.
Qed.

Ltac dstep :=
  repeat match goal with
         | H : Some _ = Some _ |- _ => inversion H; subst; clear H
         | H : None = Some _ |- _ => discriminate H
         | H : match ?x with _ => _ end = Some _ |- _ => destruct x eqn:?
         end.

Lemma DI_basic cx top r k v b v1 : vf_unreachable top = true ->
  vstep cx v (OBasic b) = Some v1 -> DI top r k v -> DI top r k v1.
Proof.
  intros Ht H D.
  destruct b; cbn [vstep pops_pushes] in H; dstep;
    repeat match goal with
    | H : v_pop ?a = Some ?b, D : DI _ _ _ ?a |- _ => pose proof (DI_pop _ _ _ _ _ H D); clear H
    | H : v_popn _ ?a = Some ?b, D : DI _ _ _ ?a |- _ => pose proof (DI_popn _ _ _ _ _ _ H D); clear H
    | H : v_mark_unreachable ?a = Some ?b, D : DI _ _ _ ?a |- _ => pose proof (DI_mark _ _ _ _ _ Ht H D); clear H
    end; try (apply DI_pushn); assumption.
Qed.

Lemma DI_reach top r k v : DI top r k v ->
  v_reachability v = match k with O => UnreachableInstruction | S _ => UnreachableFrame end.
Proof.
  intros (inner & A & B & C). unfold v_reachability. rewrite C, B, app_length. cbn [length].
  destruct k; destruct (Nat.ltb_spec (length r + 1) (length inner + S (length r))); auto; lia.
Qed.

Lemma handle_dead_basic cx s v reach b : reach <> Reachable -> handle_opcode cx s v reach (OBasic b) = Some (set_last s None).
Proof. intros H. destruct reach; [contradiction| |]; reflexivity. Qed.
Lemma handle_dead_frame cx s v op : handle_opcode cx s v UnreachableFrame op = Some (set_last s None).
Proof. reflexivity. Qed.
Lemma handle_dead_open cx s v reach op : reach <> Reachable -> match op with OBlock _ | OLoop _ | OIf _ => True | _ => False end ->
  handle_opcode cx s v reach op = Some (set_last s None).
Proof. intros H Ho. destruct reach; [contradiction| |]; destruct op; try contradiction; reflexivity. Qed.

Lemma DI_not_reach top r k v : DI top r k v -> v_reachability v <> Reachable.
Proof. intros D. rewrite (DI_reach _ _ _ _ D). destruct k; discriminate. Qed.

Lemma last_last s : set_last (set_last s None) None = set_last s None. Proof. reflexivity. Qed.

Lemma dead_seq cx top r (Ht : vf_unreachable top = true) : forall n dead, (lsize dead <= n)%nat -> forall k v s v' s',
  DI top r k v -> compile_ops cx (flatten dead) v s = Some (v', s') ->
  DI top r k v' /\ set_last s' None = set_last s None.
Proof.
  induction n as [|n IH]; intros dead Hn k v s v' s' D Hc.
  { destruct dead as [|i rr]; [|cbn [lsize] in Hn; pose proof (isize_pos i); lia]. cbn in Hc. inversion Hc; subst. auto. }
  destruct dead as [|i rest]; [cbn in Hc; inversion Hc; subst; auto|].
  cbn [lsize] in Hn. pose proof (DI_not_reach _ _ _ _ D) as Hnr.
  destruct i as [b|bt body|bt body|bt thn els].
  - change (flatten (Basic b :: rest)) with (OBasic b :: flatten rest) in Hc.
    destruct (compile_cons _ _ _ _ _ _ _ Hc) as (v1 & s1 & Ev & Eh & Hc').
    rewrite (handle_dead_basic cx s v1 _ b Hnr) in Eh. inversion Eh; subst s1; clear Eh.
    destruct (IH rest ltac:(cbn [isize] in Hn; lia) k v1 _ v' s' (DI_basic cx top r k v b v1 Ht Ev D) Hc') as [D' E].
    split; [exact D'|]. rewrite E. reflexivity.
  - rewrite flatten_block in Hc. rewrite isize_block in Hn.
    destruct (compile_cons _ _ _ _ _ _ _ Hc) as (va & sa & Ev & Eh & Hc').
    rewrite (handle_dead_open cx s va _ (OBlock bt) Hnr I) in Eh. inversion Eh; subst sa; clear Eh.
    cbn [vstep] in Ev. inversion Ev; subst va; clear Ev.
    destruct (compile_app_inv _ _ _ _ _ _ _ Hc') as (vb & sb & Hcb & Hc'').
    destruct (IH body ltac:(lia) (S k) _ _ vb sb (DI_push_ctrl top r k v false bt bt D) Hcb) as [Db Eb].
    destruct (compile_cons _ _ _ _ _ _ _ Hc'') as (vc & sc & Evc & Ehc & Hcr).
    rewrite (DI_reach _ _ _ _ Db), handle_dead_frame in Ehc. inversion Ehc; subst sc; clear Ehc.
    cbn [vstep] in Evc. destruct (v_pop_ctrl vb) as [[[res isif] v2]|] eqn:Ep; [|discriminate]. inversion Evc; subst vc; clear Evc.
    pose proof (DI_pop_ctrl top r k vb _ Db Ep) as Dc. cbn [snd] in Dc.
    destruct (IH rest ltac:(lia) k _ _ v' s' (DI_pushn top r k (bt_arity res) v2 Dc) Hcr) as [D' E].
    split; [exact D'|]. rewrite E, last_last, Eb. reflexivity.
  - rewrite flatten_loop in Hc. rewrite isize_loop in Hn.
    destruct (compile_cons _ _ _ _ _ _ _ Hc) as (va & sa & Ev & Eh & Hc').
    rewrite (handle_dead_open cx s va _ (OLoop bt) Hnr I) in Eh. inversion Eh; subst sa; clear Eh.
    cbn [vstep] in Ev. inversion Ev; subst va; clear Ev.
    destruct (compile_app_inv _ _ _ _ _ _ _ Hc') as (vb & sb & Hcb & Hc'').
    destruct (IH body ltac:(lia) (S k) _ _ vb sb (DI_push_ctrl top r k v false None bt D) Hcb) as [Db Eb].
    destruct (compile_cons _ _ _ _ _ _ _ Hc'') as (vc & sc & Evc & Ehc & Hcr).
    rewrite (DI_reach _ _ _ _ Db), handle_dead_frame in Ehc. inversion Ehc; subst sc; clear Ehc.
    cbn [vstep] in Evc. destruct (v_pop_ctrl vb) as [[[res isif] v2]|] eqn:Ep; [|discriminate]. inversion Evc; subst vc; clear Evc.
    pose proof (DI_pop_ctrl top r k vb _ Db Ep) as Dc. cbn [snd] in Dc.
    destruct (IH rest ltac:(lia) k _ _ v' s' (DI_pushn top r k (bt_arity res) v2 Dc) Hcr) as [D' E].
    split; [exact D'|]. rewrite E, last_last, Eb. reflexivity.
  - rewrite isize_if in Hn.
    assert (Hopen : forall X v' s', compile_ops cx (OIf bt :: X) v s = Some (v', s') ->
              exists va, DI top r (S k) va /\ compile_ops cx X va (set_last s None) = Some (v', s')).
    { intros X w' t' Hx. destruct (compile_cons _ _ _ _ _ _ _ Hx) as (va & sa & Ev & Eh & Hc').
      rewrite (handle_dead_open cx s va _ (OIf bt) Hnr I) in Eh. inversion Eh; subst sa; clear Eh.
      cbn [vstep] in Ev. destruct (v_pop v) as [w|] eqn:Epop; [|discriminate]. inversion Ev; subst va; clear Ev.
      eexists. split; [|exact Hc']. apply DI_push_ctrl. eapply DI_pop; eauto. }
    assert (Hclose : forall vb sb rest' , DI top r (S k) vb -> (lsize rest' <= n)%nat ->
              compile_ops cx (OEnd :: flatten rest') vb sb = Some (v', s') ->
              DI top r k v' /\ set_last s' None = set_last sb None).
    { intros vb sb rest' Db Hr Hx. destruct (compile_cons _ _ _ _ _ _ _ Hx) as (vc & sc & Evc & Ehc & Hcr).
      rewrite (DI_reach _ _ _ _ Db), handle_dead_frame in Ehc. inversion Ehc; subst sc; clear Ehc.
      cbn [vstep] in Evc. destruct (v_pop_ctrl vb) as [[[res isif] v2]|] eqn:Ep; [|discriminate]. inversion Evc; subst vc; clear Evc.
      pose proof (DI_pop_ctrl top r k vb _ Db Ep) as Dc. cbn [snd] in Dc.
      destruct (IH rest' Hr k _ _ v' s' (DI_pushn top r k (bt_arity res) v2 Dc) Hcr) as [D' E].
      split; [exact D'|]. rewrite E. reflexivity. }
    destruct els as [|e els].
    + rewrite flatten_if1 in Hc. destruct (Hopen _ _ _ Hc) as (va & Da & Hc').
      destruct (compile_app_inv _ _ _ _ _ _ _ Hc') as (vb & sb & Hcb & Hc'').
      destruct (IH thn ltac:(lia) (S k) _ _ vb sb Da Hcb) as [Db Eb].
      destruct (Hclose vb sb rest Db ltac:(lia) Hc'') as [D' E]. split; [exact D'|]. rewrite E, Eb. reflexivity.
    + rewrite flatten_if2 in Hc. destruct (Hopen _ _ _ Hc) as (va & Da & Hc').
      destruct (compile_app_inv _ _ _ _ _ _ _ Hc') as (vb & sb & Hcb & Hc'').
      destruct (IH thn ltac:(lia) (S k) _ _ vb sb Da Hcb) as [Db Eb].
      destruct (compile_cons _ _ _ _ _ _ _ Hc'') as (vc & sc & Evc & Ehc & Hcr).
      rewrite (DI_reach _ _ _ _ Db), handle_dead_frame in Ehc. inversion Ehc; subst sc; clear Ehc.
      cbn [vstep] in Evc. destruct (v_pop_ctrl vb) as [[[res [|]] v2]|] eqn:Ep; try discriminate. inversion Evc; subst vc; clear Evc.
      pose proof (DI_pop_ctrl top r k vb _ Db Ep) as Dc. cbn [snd] in Dc.
      destruct (compile_app_inv _ _ _ _ _ _ _ Hcr) as (vd & sd & Hcd & Hcr').
      destruct (IH (e :: els) ltac:(lia) (S k) _ _ vd sd (DI_push_ctrl top r k v2 false res res Dc) Hcd) as [Dd Ed].
      destruct (Hclose vd sd rest Dd ltac:(lia) Hcr') as [D' E]. split; [exact D'|]. rewrite E, Ed, last_last, Eb. reflexivity.
Qed.

(** ** live instructions *)
Lemma popn_len n v w : v_popn n v = Some w -> clen w = clen v.
Proof. intros H. unfold clen. rewrite (proj2 (popn_unreach _ _ _ H)). reflexivity. Qed.
Lemma pop_len v w : v_pop v = Some w -> clen w = clen v.
Proof. intros H. unfold clen. rewrite (proj2 (pop_unreach _ _ H)). reflexivity. Qed.
Lemma pushn_len n v : clen (v_pushn n v) = clen v.
Proof. unfold clen. rewrite pushn_ctrls. reflexivity. Qed.

Lemma mark_tstate v w : v_unreach v = None -> v_mark_unreachable v = Some w -> tstate w /\ clen w = clen v.
Proof.
  intros Hu H. unfold v_mark_unreachable in H. destruct (v_ctrls v) as [|f rest] eqn:Ec; [discriminate|]. rewrite Hu in H.
  inversion H; subst w; clear H. split; [|unfold clen; cbn; rewrite Ec; reflexivity].
  eexists _, rest. cbn. splits; reflexivity.
Qed.

Lemma live_basic cx v b v1 : term_b b = false -> v_unreach v = None -> vstep cx v (OBasic b) = Some v1 ->
  v_unreach v1 = None /\ clen v1 = clen v.
Proof.
  intros Ht Hu H.
  destruct b; try discriminate Ht; cbn [vstep pops_pushes] in H; dstep;
    rewrite ?pushn_unreach, ?pushn_len;
    repeat match goal with
           | H : v_popn _ _ = Some _ |- _ => pose proof (popn_len _ _ _ H); destruct (popn_unreach _ _ _ H) as [? _]; clear H
           | H : v_pop _ = Some _ |- _ => pose proof (pop_len _ _ H); destruct (pop_unreach _ _ H) as [? _]; clear H
           end; unfold clen in *; cbn [v_push v_unreach v_ctrls]; split; congruence.
Qed.

Lemma term_basic cx v b v1 : term_b b = true -> v_unreach v = None -> (0 < clen v)%nat -> vstep cx v (OBasic b) = Some v1 ->
  tstate v1 /\ clen v1 = clen v.
Proof.
  intros Ht Hu Hl H.
  assert (K : forall w, v_unreach w = None -> clen w = clen v -> v_mark_unreachable w = Some v1 -> tstate v1 /\ clen v1 = clen v).
  { intros w Hw Hc Hm. destruct (mark_tstate w v1 Hw Hm) as [A B]. split; [exact A|congruence]. }
  destruct b; try discriminate Ht; cbn [vstep] in H.
  - apply (K v); [exact Hu|reflexivity|exact H].
  - dstep. match goal with H : v_popn _ _ = Some _ |- _ => pose proof (popn_len _ _ _ H); destruct (popn_unreach _ _ _ H) as [? _] end.
    match goal with Hm : v_mark_unreachable ?w = Some _ |- _ => apply (K w); [congruence|congruence|exact Hm] end.
  - dstep. repeat match goal with
           | H : v_popn _ _ = Some _ |- _ => pose proof (popn_len _ _ _ H); destruct (popn_unreach _ _ _ H) as [? _]; clear H
           | H : v_pop _ = Some _ |- _ => pose proof (pop_len _ _ H); destruct (pop_unreach _ _ H) as [? _]; clear H
           end.
    match goal with Hm : v_mark_unreachable ?w = Some _ |- _ => apply (K w); [congruence|congruence|exact Hm] end.
  - destruct (last (map (fun f => Some (vf_label f)) (v_ctrls v)) None) as [lt|] eqn:El.
    + dstep. match goal with H : v_popn _ _ = Some _ |- _ => pose proof (popn_len _ _ _ H); destruct (popn_unreach _ _ _ H) as [? _] end.
      match goal with Hm : v_mark_unreachable ?w = Some _ |- _ => apply (K w); [congruence|congruence|exact Hm] end.
    + exfalso. unfold clen in Hl. destruct (v_ctrls v) as [|f rest]; [cbn in Hl; lia|].
      clear - El. revert f El. induction rest as [|g rest IHr]; intros f El; cbn in El; [discriminate|]. apply (IHr g). exact El.
Qed.

(** ** the closing delimiter resets the difference *)
Definition srel (v' : vstate) (s' : cstate) (v'' : vstate) (s'' : cstate) : Prop :=
  (v'' = v' /\ s'' = s' /\ v_unreach v' = None)
  \/ (tstate v'' /\ deadrel v'' v' /\ set_last s' None = set_last s'' None).

Lemma popn_stay n v top r : v_ctrls v = top :: r -> vf_unreachable top = true -> v_opds v = vf_height top -> v_popn n v = Some v.
Proof.
  intros A B C. induction n; [reflexivity|]. cbn [v_popn]. unfold v_pop. rewrite A, C, Nat.eqb_refl, B. exact IHn.
Qed.

Lemma pop_ctrl_dead vt vd x : tstate vt -> deadrel vt vd -> v_pop_ctrl vd = Some x ->
  v_pop_ctrl vt = Some x /\ v_unreach (snd x) = None /\ S (clen (snd x)) = clen vt.
Proof.
  intros (top & r & A & B & C & D) [E1 E2] H. unfold v_pop_ctrl in *. rewrite E1, A in H. rewrite A.
  rewrite (popn_stay _ vt top r A C D). cbv beta iota. rewrite D, Nat.eqb_refl, B, Nat.eqb_refl.
  destruct (v_popn (bt_arity (vf_end top)) vd) as [w|] eqn:Ep; [|discriminate].
  destruct (popn_unreach _ _ _ Ep) as [Eu _].
  destruct (Nat.eqb_spec (v_opds w) (vf_height top)) as [Eo|]; [|discriminate].
  inversion H; subst x; clear H. cbn [snd v_unreach v_ctrls]. rewrite Eu, E2, B, Eo, Nat.eqb_refl.
  splits; auto. unfold clen. cbn. rewrite A. reflexivity.
Qed.

Lemma pop_ctrl_live v x : v_unreach v = None -> v_pop_ctrl v = Some x -> v_unreach (snd x) = None /\ S (clen (snd x)) = clen v.
Proof.
  intros Hu H. split; [apply (pop_ctrl_un v x (or_introl Hu) H)|].
  unfold v_pop_ctrl in H. destruct (v_ctrls v) as [|f rest] eqn:Ec; [discriminate|].
  destruct (v_popn (bt_arity (vf_end f)) v) as [w|]; [|discriminate].
  destruct (v_opds w =? vf_height f)%nat; [|discriminate]. inversion H; subst x. unfold clen. cbn. rewrite Ec. reflexivity.
Qed.

Lemma reach_dead vt vd : deadrel vt vd -> v_reachability vd = v_reachability vt.
Proof. intros [A B]. unfold v_reachability. rewrite A, B. reflexivity. Qed.

Lemma handle_delim_last cx a b w reach d : (d = OEnd \/ d = OElse) -> set_last a None = set_last b None ->
  handle_opcode cx a w reach d = handle_opcode cx b w reach d.
Proof.
  intros [-> | ->] H; unfold handle_opcode; cbv beta iota zeta; rewrite H; reflexivity.
Qed.

Lemma close_delim cx d v' s' v'' s'' w s3 : (d = OEnd \/ d = OElse) -> srel v' s' v'' s'' ->
  vstep cx v' d = Some w -> handle_opcode cx s' w (v_reachability v') d = Some s3 ->
  vstep cx v'' d = Some w /\ handle_opcode cx s'' w (v_reachability v'') d = Some s3
  /\ v_unreach w = None /\ (d = OEnd -> S (clen w) = clen v') /\ (d = OElse -> clen w = clen v').
Proof.
  intros Hd [(-> & -> & Hu)|(T & Dr & El)] Ev Eh.
  - splits; auto; destruct Hd as [-> | ->]; cbn [vstep] in Ev; try (intros X; discriminate X).
    + destruct (v_pop_ctrl v') as [[[res isif] v2]|] eqn:Ep; [|discriminate]. inversion Ev; subst w.
      rewrite pushn_unreach. apply (pop_ctrl_live v' _ Hu Ep).
    + destruct (v_pop_ctrl v') as [[[res [|]] v2]|] eqn:Ep; try discriminate. inversion Ev; subst w. cbn.
      apply (pop_ctrl_live v' _ Hu Ep).
    + intros _. destruct (v_pop_ctrl v') as [[[res isif] v2]|] eqn:Ep; [|discriminate]. inversion Ev; subst w.
      rewrite pushn_len. apply (pop_ctrl_live v' _ Hu Ep).
    + intros _. destruct (v_pop_ctrl v') as [[[res [|]] v2]|] eqn:Ep; try discriminate. inversion Ev; subst w.
      unfold clen. cbn. destruct (pop_ctrl_live v' _ Hu Ep) as [_ X]. cbn [snd] in X. unfold clen in X. lia.
  - rewrite (reach_dead _ _ Dr) in Eh. rewrite (handle_delim_last cx s' s'' w _ d Hd El) in Eh.
    assert (Hcl : clen v' = clen v'') by (unfold clen; rewrite (proj1 Dr); reflexivity).
    destruct Hd as [-> | ->]; cbn [vstep] in Ev |- *.
    + destruct (v_pop_ctrl v') as [[[res isif] v2]|] eqn:Ep; [|discriminate]. inversion Ev; subst w.
      destruct (pop_ctrl_dead v'' v' _ T Dr Ep) as (Ep' & Hu & Hl). rewrite Ep'. cbn [snd] in *.
      splits; auto; [rewrite pushn_unreach; exact Hu|intros _; rewrite pushn_len; lia|intros X; discriminate X].
    + destruct (v_pop_ctrl v') as [[[res [|]] v2]|] eqn:Ep; try discriminate. inversion Ev; subst w.
      destruct (pop_ctrl_dead v'' v' _ T Dr Ep) as (Ep' & Hu & Hl). rewrite Ep'. cbn [snd] in *.
      splits; auto; [intros X; discriminate X|intros _; unfold clen in *; cbn; lia].
Qed.

(** ** compiling a body = compiling its stripped form (up to the dead tail's effect on the validation
    state, which the closing delimiter removes) *)
Lemma strip_compile cx : forall n is, (lsize is <= n)%nat -> forall v s v' s',
  v_unreach v = None -> (0 < clen v)%nat -> compile_ops cx (flatten is) v s = Some (v', s') ->
  clen v' = clen v /\ exists v'' s'', compile_ops cx (flatten (strip is)) v s = Some (v'', s'') /\ srel v' s' v'' s''.
Proof.
  induction n as [|n IH]; intros is Hn v s v' s' Hu Hl Hc.
  { destruct is as [|i rr]; [|cbn [lsize] in Hn; pose proof (isize_pos i); lia]. cbn in Hc. inversion Hc; subst.
    split; [reflexivity|]. exists v', s'. split; [reflexivity|]. left. auto. }
  destruct is as [|i rest].
  { cbn in Hc. inversion Hc; subst. split; [reflexivity|]. exists v', s'. split; [reflexivity|]. left. auto. }
  cbn [lsize] in Hn.
  (* closing a nested frame and continuing with [rest] *)
  assert (Hcont : forall d vb sb vb2 sb2 X X2 (tl2 : list instr),
             (d = OEnd \/ d = OElse) -> srel vb sb vb2 sb2 -> (0 < clen v)%nat ->
             compile_ops cx (d :: X) vb sb = Some (v', s') ->
             (forall w s3, v_unreach w = None -> (d = OEnd -> S (clen w) = clen vb) -> (d = OElse -> clen w = clen vb) ->
                compile_ops cx X w s3 = Some (v', s') ->
                clen v' = clen v /\ exists v'' s'', compile_ops cx X2 w s3 = Some (v'', s'') /\ srel v' s' v'' s'') ->
             clen v' = clen v /\ exists v'' s'', compile_ops cx (d :: X2) vb2 sb2 = Some (v'', s'') /\ srel v' s' v'' s'').
  { intros d vb sb vb2 sb2 X X2 _ Hd Sr _ Hx Hk.
    destruct (compile_cons _ _ _ _ _ _ _ Hx) as (w & s3 & Ev & Eh & Hcr).
    destruct (close_delim cx d vb sb vb2 sb2 w s3 Hd Sr Ev Eh) as (Ev2 & Eh2 & Huw & L1 & L2).
    destruct (Hk w s3 Huw L1 L2 Hcr) as (A & v'' & s'' & B & C0). split; [exact A|].
    exists v'', s''. split; [|exact C0]. cbn [compile_ops]. rewrite Ev2, Eh2. exact B. }
  destruct i as [b|bt body|bt body|bt thn els].
  - change (flatten (Basic b :: rest)) with (OBasic b :: flatten rest) in Hc.
    destruct (compile_cons _ _ _ _ _ _ _ Hc) as (v1 & s1 & Ev & Eh & Hc').
    destruct (term_b b) eqn:Et.
    + rewrite (strip_cons_term b rest Et).
      destruct (term_basic cx v b v1 Et Hu Hl Ev) as [T L1].
      pose proof T as T'. destruct T' as (top & r & A & B & C0 & D).
      assert (D0 : DI top r 0 v1) by (exists []; cbn; auto).
      destruct (dead_seq cx top r C0 (lsize rest) rest (le_n _) 0%nat v1 s1 v' s' D0 Hc') as [(inner & Li & A' & B') El].
      destruct inner; [|discriminate Li]. cbn [app] in A'.
      split; [unfold clen in *; rewrite A'; rewrite A in L1; exact L1|].
      exists v1, s1. split; [cbn [flatten flat_map flatten_instr app compile_ops]; rewrite Ev, Eh; reflexivity|].
      right. split; [exact T|]. split; [split; congruence|exact El].
    + assert (Eti : term_i (Basic b) = false) by exact Et. rewrite (strip_cons_live _ rest Eti).
      destruct (live_basic cx v b v1 Et Hu Ev) as [Hu1 L1].
      destruct (IH rest ltac:(cbn [isize] in Hn; lia) v1 s1 v' s' Hu1 ltac:(lia) Hc') as (A & v'' & s'' & B & C0).
      split; [lia|]. exists v'', s''. split; [|exact C0].
      change (flatten (strip_i (Basic b) :: strip rest)) with (OBasic b :: flatten (strip rest)).
      cbn [compile_ops]. rewrite Ev, Eh. exact B.
  - rewrite (strip_cons_live (Block bt body) rest eq_refl), strip_block, flatten_block. rewrite flatten_block in Hc. rewrite isize_block in Hn.
    destruct (compile_cons _ _ _ _ _ _ _ Hc) as (va & sa & Ev & Eh & Hc').
    assert (Ha : v_unreach va = None /\ clen va = S (clen v)) by (cbn [vstep] in Ev; inversion Ev; subst va; cbn; auto).
    destruct Ha as [Hua Hla].
    destruct (compile_app_inv _ _ _ _ _ _ _ Hc') as (vb & sb & Hcb & Hc'').
    destruct (IH body ltac:(lia) va sa vb sb Hua ltac:(lia) Hcb) as (Lb & vb2 & sb2 & Hcb2 & Srb).
    destruct (Hcont OEnd vb sb vb2 sb2 (flatten rest) (flatten (strip rest)) rest (or_introl eq_refl) Srb Hl Hc'') as (A & v'' & s'' & B & C0).
    { intros w s3 Huw L1 _ Hcr. destruct (IH rest ltac:(lia) w s3 v' s' Huw ltac:(specialize (L1 eq_refl); lia) Hcr) as (A & R).
      split; [specialize (L1 eq_refl); lia|exact R]. }
    split; [exact A|]. exists v'', s''. split; [|exact C0].
    cbn [compile_ops]. rewrite Ev, Eh. rewrite compile_ops_app, Hcb2. exact B.
  - rewrite (strip_cons_live (Loop bt body) rest eq_refl), strip_loop, flatten_loop. rewrite flatten_loop in Hc. rewrite isize_loop in Hn.
    destruct (compile_cons _ _ _ _ _ _ _ Hc) as (va & sa & Ev & Eh & Hc').
    assert (Ha : v_unreach va = None /\ clen va = S (clen v)) by (cbn [vstep] in Ev; inversion Ev; subst va; cbn; auto).
    destruct Ha as [Hua Hla].
    destruct (compile_app_inv _ _ _ _ _ _ _ Hc') as (vb & sb & Hcb & Hc'').
    destruct (IH body ltac:(lia) va sa vb sb Hua ltac:(lia) Hcb) as (Lb & vb2 & sb2 & Hcb2 & Srb).
    destruct (Hcont OEnd vb sb vb2 sb2 (flatten rest) (flatten (strip rest)) rest (or_introl eq_refl) Srb Hl Hc'') as (A & v'' & s'' & B & C0).
    { intros w s3 Huw L1 _ Hcr. destruct (IH rest ltac:(lia) w s3 v' s' Huw ltac:(specialize (L1 eq_refl); lia) Hcr) as (A & R).
      split; [specialize (L1 eq_refl); lia|exact R]. }
    split; [exact A|]. exists v'', s''. split; [|exact C0].
    cbn [compile_ops]. rewrite Ev, Eh. rewrite compile_ops_app, Hcb2. exact B.
  - rewrite (strip_cons_live (If bt thn els) rest eq_refl), strip_if. rewrite isize_if in Hn.
    assert (Hopen : forall X, compile_ops cx (OIf bt :: X) v s = Some (v', s') ->
              exists va sa, vstep cx v (OIf bt) = Some va /\ handle_opcode cx s va (v_reachability v) (OIf bt) = Some sa
                            /\ v_unreach va = None /\ clen va = S (clen v) /\ compile_ops cx X va sa = Some (v', s')).
    { intros X Hx. destruct (compile_cons _ _ _ _ _ _ _ Hx) as (va & sa & Ev & Eh & Hc').
      exists va, sa. splits; auto; cbn [vstep] in Ev; destruct (v_pop v) as [w|] eqn:Epop; try discriminate; inversion Ev; subst va; cbn.
      - destruct (pop_unreach _ _ Epop) as [E1 _]. congruence.
      - f_equal. apply (pop_len _ _ Epop). }
    destruct els as [|e els].
    + rewrite flatten_if1 in Hc. change (strip []) with (@nil instr). rewrite flatten_if1.
      destruct (Hopen _ Hc) as (va & sa & Ev & Eh & Hua & Hla & Hc').
      destruct (compile_app_inv _ _ _ _ _ _ _ Hc') as (vb & sb & Hcb & Hc'').
      destruct (IH thn ltac:(lia) va sa vb sb Hua ltac:(lia) Hcb) as (Lb & vb2 & sb2 & Hcb2 & Srb).
      destruct (Hcont OEnd vb sb vb2 sb2 (flatten rest) (flatten (strip rest)) rest (or_introl eq_refl) Srb Hl Hc'') as (A & v'' & s'' & B & C0).
      { intros w s3 Huw L1 _ Hcr. destruct (IH rest ltac:(lia) w s3 v' s' Huw ltac:(specialize (L1 eq_refl); lia) Hcr) as (A & R).
        split; [specialize (L1 eq_refl); lia|exact R]. }
      split; [exact A|]. exists v'', s''. split; [|exact C0].
      cbn [compile_ops]. rewrite Ev, Eh. rewrite compile_ops_app, Hcb2. exact B.
    + rewrite flatten_if2 in Hc.
      destruct (strip (e :: els)) as [|e2 els2] eqn:Ese; [apply (proj1 (strip_nil_iff _)) in Ese; discriminate Ese|]. rewrite flatten_if2. rewrite <- Ese.
      destruct (Hopen _ Hc) as (va & sa & Ev & Eh & Hua & Hla & Hc').
      destruct (compile_app_inv _ _ _ _ _ _ _ Hc') as (vb & sb & Hcb & Hc'').
      destruct (IH thn ltac:(lia) va sa vb sb Hua ltac:(lia) Hcb) as (Lb & vb2 & sb2 & Hcb2 & Srb).
      destruct (Hcont OElse vb sb vb2 sb2 (flatten (e :: els) ++ OEnd :: flatten rest)
                  (flatten (strip (e :: els)) ++ OEnd :: flatten (strip rest)) rest (or_intror eq_refl) Srb Hl Hc'') as (A & v'' & s'' & B & C0).
      { intros w s3 Huw _ L2 Hcr. specialize (L2 eq_refl).
        destruct (compile_app_inv _ _ _ _ _ _ _ Hcr) as (vd & sd & Hcd & Hcr').
        destruct (IH (e :: els) ltac:(lia) w s3 vd sd Huw ltac:(lia) Hcd) as (Ld & vd2 & sd2 & Hcd2 & Srd).
        destruct (Hcont OEnd vd sd vd2 sd2 (flatten rest) (flatten (strip rest)) rest (or_introl eq_refl) Srd Hl Hcr') as (A & v'' & s'' & B & C0).
        { intros w2 s4 Huw2 L1 _ Hcr2. specialize (L1 eq_refl).
          destruct (IH rest ltac:(lia) w2 s4 v' s' Huw2 ltac:(lia) Hcr2) as (A & R). split; [lia|exact R]. }
        split; [exact A|]. exists v'', s''. split; [|exact C0]. rewrite compile_ops_app, Hcd2. exact B. }
      split; [exact A|]. exists v'', s''. split; [|exact C0].
      cbn [compile_ops]. rewrite Ev, Eh. rewrite compile_ops_app, Hcb2. exact B.
Qed.

(** whole function body incl. the final [end]: identical compilation result *)
Theorem strip_compile_body cx is v s v' s' :
  v_unreach v = None -> (0 < clen v)%nat ->
  compile_ops cx (flatten_body is) v s = Some (v', s') ->
  compile_ops cx (flatten_body (strip is)) v s = Some (v', s').
Proof.
  intros Hu Hl Hc. unfold flatten_body in *.
  destruct (compile_app_inv _ _ _ _ _ _ _ Hc) as (vb & sb & Hcb & Hc').
  destruct (strip_compile cx (lsize is) is (le_n _) v s vb sb Hu Hl Hcb) as (_ & vb2 & sb2 & Hcb2 & Sr).
  destruct (compile_cons _ _ _ _ _ _ _ Hc') as (w & s3 & Ev & Eh & Hcr). cbn in Hcr. inversion Hcr; subst w s3; clear Hcr.
  destruct (close_delim cx OEnd vb sb vb2 sb2 v' s' (or_introl eq_refl) Sr Ev Eh) as (Ev2 & Eh2 & _).
  rewrite compile_ops_app, Hcb2. cbn [compile_ops]. rewrite Ev2, Eh2. reflexivity.
Qed.
