(** * Wasm/Engine — the implementation pipeline as one function: flatten the structured
    module, compile every function with [Compile.v], instantiate the artifact and run it
    on [Machine.v].  ([utils::instantiate] followed by [Artifact::run], without metering.)
    Also the observable part of outcomes, used to compare with the specification [Sem.run].
    Definitions only. *)
From Coq Require Import ZArith NArith List Bool.
From CB Require Import Wasm.Syntax Wasm.Sem Wasm.Compile Wasm.Machine Wasm.KnownClasses.
Import ListNotations.

Definition cmodule_of (m : module) : cmodule :=
  {| cm_types := m_types m; cm_imports := m_imports m;
     cm_funcs := map (fun f => (f_type f, f_locals f, flatten_body (f_body f))) (m_funcs m) |}.

Fixpoint all_some {A} (l : list (option A)) : option (list A) :=
  match l with
  | [] => Some []
  | Some x :: r => match all_some r with Some r' => Some (x :: r') | None => None end
  | None :: _ => None
  end.

Definition engine_artifact (m : module) : option artifact :=
  let cm := cmodule_of m in
  match all_some (compile_module cm) with
  | Some code => build_artifact cm m 0 code
  | None => None
  end.

(** [entry] is a function index; imports cannot be entry points *)
Definition engine_run (m : module) (fuel : nat) (entry : nat) (args : list val) : option moutcome :=
  match engine_artifact m with
  | Some art => Some (mrun art metering_host fuel (entry - length (m_imports m)) args)
  | None => None
  end.

(** What C01 observes: result value, final memory (size and contents) and globals, or trap. *)
Inductive observation :=
| ObsDone (r : option val) (pages : N) (bytes : list (N * Z)) (globals : list Z)
| ObsTrap.

Definition nonzero_bytes (mm : option memory) : list (N * Z) :=
  match mm with
  | Some x => map (fun kv => (N.pred (Npos (fst kv)), snd kv))
                  (filter (fun kv => negb (Z.eqb (snd kv) 0)) (FMapPositive.PositiveMap.elements (mem_data x)))
  | None => []
  end.
Definition pages_of (mm : option memory) : N := match mm with Some x => mem_pages x | None => 0%N end.
Definition global_bits (v : val) : Z := match v with VI32 z | VI64 z => z end.

Definition observe_spec (o : outcome) : option observation :=
  match o with
  | Done r mm gs => Some (ObsDone r (pages_of mm) (nonzero_bytes mm) (map global_bits gs))
  | Trap => Some ObsTrap
  | _ => None
  end.
Definition observe_engine (tys : list valtype) (o : moutcome) : option observation :=
  match o with
  | MDone r mm gs _ =>
      Some (ObsDone r (pages_of mm) (nonzero_bytes mm)
                    (map (fun tg => match fst tg with T_i32 => as_u32 (snd tg) | T_i64 => as_u64 (snd tg) end)
                         (combine tys gs)))
  | MTrap _ => Some ObsTrap
  | MOutOfFuel => None
  end.
Definition global_types (m : module) : list valtype := map (fun g => type_of_val (g_init g)) (m_globals m).

(** the module is in a known defect class (static part) *)
Definition known_class (m : module) : bool * bool :=
  let cm := cmodule_of m in
  fold_left (fun acc fd => match classes_of_function cm fd with
                           | Some (a, b) => (fst acc || a, snd acc || b)
                           | None => acc
                           end) (cm_funcs cm) (false, false).
