(** A concrete function body satisfying the hypotheses of [compile_block_correct]: two nested
    blocks, a [br_if] out of both, an if/else whose then-branch ends with a [br] out of the [if]
    and of both blocks, straight-line code between the constructs, and a one-armed [if]. *)
From Coq Require Import ZArith NArith List.
From CB Require Import Wasm.Syntax Wasm.Sem Wasm.Compile Wasm.CompileLemmas Wasm.StraightProofs Wasm.BlockSim Wasm.BlockTheorem.
Import ListNotations.
Local Open Scope Z_scope.

Definition blk_cx : cctx := {| cx_func_type := fun _ => None; cx_type := fun _ => None; cx_return := None |}.
Definition blk_body : list instr :=
  [ Block None
      [ Block None
          [ Basic (BLocalGet 0); Basic (BBrIf 1);
            Basic (BLocalGet 1);
            If None [ Basic (BConst T_i32 7); Basic (BLocalSet 0); Basic (BBr 2) ]
                    [ Basic (BConst T_i32 9); Basic (BLocalSet 0) ];
            Basic (BLocalGet 0); Basic (BConst T_i32 1); Basic (BBinop T_i32 Add); Basic (BLocalSet 1) ];
        Basic (BConst T_i32 3); Basic (BLocalSet 0) ];
    Basic (BLocalGet 1);
    If None [ Basic (BConst T_i32 5); Basic (BLocalSet 1) ] [] ].

Lemma ex_blocks :
  blocks_ok 2 blk_cx blk_body = true
  /\ (exists v' sF, compile_ops blk_cx (flatten_body blk_body) (init_vstate None) (init_fstate 2) = Some (v', sF)
       /\ c_bp sF = [] /\ c_stack sF = []
       /\ c_next sF < 2147483648 /\ Z.of_nat (length (c_consts sF)) < 2147483648
       /\ Z.of_nat (length (c_out sF ++ [IReturn])) < 4294967296)
  /\ (forall host cap m st,
        exec_instr host cap m 30 st [VI32 0; VI32 1] [] (Block None blk_body) = RNormal st [VI32 7; VI32 5] []
        /\ exec_instr host cap m 30 st [VI32 0; VI32 0] [] (Block None blk_body) = RNormal st [VI32 3; VI32 5] []
        /\ exec_instr host cap m 30 st [VI32 4; VI32 0] [] (Block None blk_body) = RNormal st [VI32 4; VI32 0] []).
Proof.
  split; [vm_compute; reflexivity|]. split.
  - eexists _, _. split; [vm_compute; reflexivity|]. vm_compute. repeat split; congruence.
  - intros host cap m st. repeat split; vm_compute; reflexivity.
Qed.

(** a counting loop: local 1 += local 0, local 0 -= 1, until local 0 = 0 (back edge [br 0], exit
    [br_if 1] out of the loop and the block); then a guarded [return] and a guarded [unreachable] *)
Definition loop_body : list instr :=
  [ Block None
      [ Loop None
          [ Basic (BLocalGet 0); Basic (BEqz T_i32); Basic (BBrIf 1);
            Basic (BLocalGet 1); Basic (BLocalGet 0); Basic (BBinop T_i32 Add); Basic (BLocalSet 1);
            Basic (BLocalGet 0); Basic (BConst T_i32 1); Basic (BBinop T_i32 Sub); Basic (BLocalSet 0);
            Basic (BBr 0) ] ];
    Basic (BLocalGet 1); Basic (BConst T_i32 6); Basic (BRelop T_i32 Eq);
    If None [ Basic BReturn ] [];
    Basic (BLocalGet 1); Basic (BConst T_i32 100); Basic (BRelop T_i32 GtU);
    If None [ Basic BUnreachable ] [] ].

Lemma ex_loop :
  blocks_ok 2 blk_cx loop_body = true
  /\ (exists v' sF, compile_ops blk_cx (flatten_body loop_body) (init_vstate None) (init_fstate 2) = Some (v', sF)
       /\ c_bp sF = [] /\ c_stack sF = []
       /\ c_next sF < 2147483648 /\ Z.of_nat (length (c_consts sF)) < 2147483648
       /\ Z.of_nat (length (c_out sF ++ [IReturn])) < 4294967296)
  /\ (forall host cap m st,
        exec_instr host cap m 200 st [VI32 4; VI32 0] [] (Block None loop_body) = RNormal st [VI32 0; VI32 10] []
        /\ exec_instr host cap m 200 st [VI32 0; VI32 7] [] (Block None loop_body) = RNormal st [VI32 0; VI32 7] []
        /\ exec_instr host cap m 200 st [VI32 3; VI32 0] [] (Block None loop_body) = RReturn st []
        /\ exec_instr host cap m 200 st [VI32 20; VI32 0] [] (Block None loop_body) = RTrap
        /\ exec_instr host cap m 20 st [VI32 20; VI32 0] [] (Block None loop_body) = RFuel).
Proof.
  split; [vm_compute; reflexivity|]. split.
  - eexists _, _. split; [vm_compute; reflexivity|]. vm_compute. repeat split; congruence.
  - intros host cap m st. repeat split; vm_compute; reflexivity.
Qed.

(** a block with a result: reached by fall-through (constant 22) or by a [br 1] carrying 11 out of a
    nested [if]; the result is consumed by [local.set 1]; an if-else with a result; a second value block
    nested in a loop body *)
Definition val_body : list instr :=
  [ Block (Some T_i32)
      [ Basic (BLocalGet 0);
        If None [ Basic (BConst T_i32 11); Basic (BBr 1) ] [];
        Basic (BConst T_i32 22) ];
    Basic (BLocalSet 1);
    Basic (BLocalGet 0);
    If (Some T_i32) [ Basic (BLocalGet 1); Basic (BConst T_i32 1); Basic (BBinop T_i32 Add) ]
                    [ Basic (BLocalGet 1); Basic (BConst T_i32 2); Basic (BBinop T_i32 Add) ];
    Basic (BLocalSet 1);
    Block None
      [ Loop None
          [ Basic (BLocalGet 0); Basic (BEqz T_i32); Basic (BBrIf 1);
            Block (Some T_i32) [ Basic (BLocalGet 1); Basic (BLocalGet 0); Basic (BBinop T_i32 Add) ];
            Basic (BLocalSet 1);
            Basic (BLocalGet 0); Basic (BConst T_i32 1); Basic (BBinop T_i32 Sub); Basic (BLocalSet 0);
            Basic (BBr 0) ] ] ].

Lemma ex_val :
  blocks_ok 2 blk_cx val_body = true
  /\ (exists v' sF, compile_ops blk_cx (flatten_body val_body) (init_vstate None) (init_fstate 2) = Some (v', sF)
       /\ c_bp sF = [] /\ c_stack sF = []
       /\ c_next sF < 2147483648 /\ Z.of_nat (length (c_consts sF)) < 2147483648
       /\ Z.of_nat (length (c_out sF ++ [IReturn])) < 4294967296)
  /\ (forall host cap m st,
        exec_instr host cap m 200 st [VI32 3; VI32 0] [] (Block None val_body) = RNormal st [VI32 0; VI32 18] []
        /\ exec_instr host cap m 200 st [VI32 0; VI32 5] [] (Block None val_body) = RNormal st [VI32 0; VI32 24] []).
Proof.
  split; [vm_compute; reflexivity|]. split.
  - eexists _, _. split; [vm_compute; reflexivity|]. vm_compute. repeat split; congruence.
  - intros host cap m st. repeat split; vm_compute; reflexivity.
Qed.

(** a function with a result: the value reaches the final [end] by a [br 1] to the function's own label
    (carrying 7 out of an [if]) or by fall-through (local 1 + 1); a [return] with the value 42 *)
Definition fn_cx : cctx := {| cx_func_type := fun _ => None; cx_type := fun _ => None; cx_return := Some T_i32 |}.
Definition fn_body : list instr :=
  [ Basic (BLocalGet 0);
    If None [ Basic (BConst T_i32 7); Basic (BBr 1) ] [];
    Basic (BLocalGet 1); Basic (BConst T_i32 9); Basic (BRelop T_i32 Eq);
    If None [ Basic (BConst T_i32 42); Basic BReturn ] [];
    Basic (BLocalGet 1); Basic (BConst T_i32 1); Basic (BBinop T_i32 Add) ].

Lemma ex_fn :
  blocks_ok_r 2 fn_cx T_i32 fn_body = true
  /\ (exists v' sF, compile_ops fn_cx (flatten_body fn_body) (init_vstate (Some T_i32)) (init_fstate_r 2) = Some (v', sF)
       /\ c_bp sF = [] /\ c_stack sF = [PLocal 0]
       /\ c_next sF < 2147483648 /\ Z.of_nat (length (c_consts sF)) < 2147483648
       /\ Z.of_nat (length (c_out sF ++ [IReturn])) < 4294967296)
  /\ (forall host cap m st,
        exec_instr host cap m 50 st [VI32 1; VI32 5] [] (Block (Some T_i32) fn_body) = RNormal st [VI32 1; VI32 5] [VI32 7]
        /\ exec_instr host cap m 50 st [VI32 0; VI32 5] [] (Block (Some T_i32) fn_body) = RNormal st [VI32 0; VI32 5] [VI32 6]
        /\ exec_instr host cap m 50 st [VI32 0; VI32 9] [] (Block (Some T_i32) fn_body) = RReturn st [VI32 42]).
Proof.
  split; [vm_compute; reflexivity|]. split.
  - eexists _, _. split; [vm_compute; reflexivity|]. vm_compute. repeat split; congruence.
  - intros host cap m st. repeat split; vm_compute; reflexivity.
Qed.

(** bodies that end with a jump: a value-typed block whose body ends with a [br] carrying the value, and a
    function body that ends with [return] (the final [end] is compiled as unreachable) *)
Definition fn_body2 : list instr :=
  [ Block (Some T_i32) [ Basic (BLocalGet 0); Basic (BBr 0) ];
    Basic (BLocalGet 1); Basic (BBinop T_i32 Add); Basic BReturn ].

Lemma ex_fn2 :
  blocks_ok_r 2 fn_cx T_i32 fn_body2 = true
  /\ (exists v' sF, compile_ops fn_cx (flatten_body fn_body2) (init_vstate (Some T_i32)) (init_fstate_r 2) = Some (v', sF)
       /\ c_bp sF = []
       /\ c_next sF < 2147483648 /\ Z.of_nat (length (c_consts sF)) < 2147483648
       /\ Z.of_nat (length (c_out sF ++ [IReturn])) < 4294967296)
  /\ (forall host cap m st,
        exec_instr host cap m 50 st [VI32 3; VI32 4] [] (Block (Some T_i32) fn_body2) = RReturn st [VI32 7]).
Proof.
  split; [vm_compute; reflexivity|]. split.
  - eexists _, _. split; [vm_compute; reflexivity|]. vm_compute. repeat split; congruence.
  - intros host cap m st. vm_compute. reflexivity.
Qed.
