(** * Wasm/ValidateComplete — completeness of the validation algorithm on the reachable-code
    fragment: a well-typed body in which the stack-polymorphic instructions ([unreachable], [br],
    [br_table], [return]) occur only as the LAST instruction of an instruction sequence (so no
    instruction is validated in the unreachable state of a frame) and which respects the chain
    restrictions that typing does not express (switch size, sign-extension opcodes only when the
    parser admits them) is accepted by [validate_func]. *)
From Coq Require Import ZArith NArith List Bool Arith Lia.
From CB Require Import Common.IntN Wasm.Syntax Gen.Limits Wasm.Validate Wasm.Typing Wasm.ValidateProofs.
Import ListNotations.

Definition is_term (i : instr) : bool :=
  match i with
  | Basic BUnreachable | Basic (BBr _) | Basic (BBrTable _ _) | Basic BReturn => true
  | _ => false
  end.
Definition basic_cond (signext : bool) (b : binstr) : bool :=
  match b with
  | BBrTable ls _ => (N.of_nat (length ls) <=? MAX_SWITCH_SIZE)%N
  | BUnop _ op => negb (is_signext op) || signext
  | _ => true
  end.
Section Cond.
Variable signext : bool.
Fixpoint instr_cond (i : instr) : bool :=
  let seq := fix go (l : list instr) : bool :=
    match l with
    | [] => true
    | x :: r => instr_cond x && (match r with [] => true | _ :: _ => negb (is_term x) end) && go r
    end in
  match i with
  | Basic b => basic_cond signext b
  | Block _ body | Loop _ body => seq body
  | If _ thn els => seq thn && seq els
  end.
Definition seq_cond (l : list instr) : bool := instr_cond (Block None l).
Lemma seq_cond_nil : seq_cond [] = true. Proof. reflexivity. Qed.
Lemma seq_cond_cons x r : seq_cond (x :: r) =
  instr_cond x && (match r with [] => true | _ :: _ => negb (is_term x) end) && seq_cond r.
Proof. reflexivity. Qed.
Lemma instr_cond_block bt body : instr_cond (Block bt body) = seq_cond body.
Proof. reflexivity. Qed.
Lemma instr_cond_loop bt body : instr_cond (Loop bt body) = seq_cond body.
Proof. reflexivity. Qed.
Lemma instr_cond_if bt thn els : instr_cond (If bt thn els) = seq_cond thn && seq_cond els.
Proof. reflexivity. Qed.
End Cond.

Notation w0 := (map (fun o : opcode => (o, 0%N))).
Lemma w0_app (a b : list opcode) : w0 (a ++ b) = w0 a ++ w0 b. Proof. apply map_app. Qed.

Lemma vrun_app c : forall a b s, vrun c s (a ++ b) = match vrun c s a with Some s' => vrun c s' b | None => None end.
Proof. induction a as [|o a IH]; intros b s; cbn [app vrun]; [reflexivity|]. destruct (vstep c s o); auto. Qed.

Lemma valtype_eqb_refl t : valtype_eqb t t = true. Proof. destruct t; reflexivity. Qed.
Lemma blocktype_eqb_refl b : blocktype_eqb b b = true. Proof. destruct b as [[]|]; reflexivity. Qed.

Notation kn := (map Known).

(** outcome of a sequence in a reachable frame *)
Definition reach (F : frame) (ts : list valtype) : Prop := unr F = false /\ opds F = kn ts.
Definition dead (F : frame) : Prop := unr F = true /\ opds F = [].
Definition out (F : frame) (ts : list valtype) : Prop := reach F ts \/ dead F.

(** ** forward lemmas for the primitives *)
Lemma pop_known_fwd s F K t o : vs_ctrls s = F :: K -> opds F = Known t :: o ->
  pop_known t s = Some (set_top s (with_opds F o) K).
Proof.
  intros HC HO. unfold pop_known, pop_expect, pop_opd. rewrite HC, HO. cbn. now rewrite valtype_eqb_refl.
Qed.
Lemma pop_opds_fwd s F K bt o : vs_ctrls s = F :: K -> opds F = kn (bt_list bt) ++ o ->
  exists s', pop_opds bt s = Some s' /\ vs_ctrls s' = with_opds F o :: K.
Proof.
  intros HC HO. destruct bt as [t|]; cbn in *.
  - rewrite (pop_known_fwd _ _ _ _ _ HC HO). eauto.
  - exists s. split; auto. rewrite HC. destruct F; cbn in *; subst; reflexivity.
Qed.
Lemma pop_params_fwd : forall ps s F K o, vs_ctrls s = F :: K -> opds F = kn ps ++ o ->
  exists s', pop_params ps s = Some s' /\ vs_ctrls s' = with_opds F o :: K.
Proof.
  induction ps as [|t r IH]; intros s F K o HC HO; cbn in *.
  - exists s. split; auto. rewrite HC. destruct F; cbn in *; subst; reflexivity.
  - rewrite (pop_known_fwd _ _ _ _ _ HC HO). apply (IH _ (with_opds F (kn r ++ o)) K o); reflexivity.
Qed.
Lemma mark_fwd s F K : vs_ctrls s = F :: K ->
  exists s' F', mark_unreachable s = Some s' /\ vs_ctrls s' = F' :: K /\ shape F F' /\ dead F'.
Proof.
  intros HC. unfold mark_unreachable. rewrite HC. eexists _, _. split; [reflexivity|]. split; [reflexivity|].
  split; repeat split.
Qed.
Lemma shape_wo F o : shape F (with_opds F o). Proof. repeat split. Qed.

Lemma get_label_mkC c s F K l bt : vs_ctrls s = F :: K ->
  nth_error (tc_labels (mkC c (map fr_label (F :: K)))) l = Some bt -> get_label s l = Some bt.
Proof. intros HC H. rewrite get_label_map, HC. exact H. Qed.

Section Complete.
Variable c : vctx.
Hypothesis FV : Forall (fun ti => ti < length (vc_types c))%nat (vc_funcs c).

Lemma get_func_of_tc L f ft : nth_error (tc_funcs (mkC c L)) f = Some ft -> get_func c f = Some ft.
Proof.
  cbn [mkC tc_funcs]. rewrite nth_error_map. unfold get_func, get_type.
  destruct (nth_error (vc_funcs c) f) as [ti|] eqn:E; cbn; [|discriminate].
  intros H; inversion H; subst. apply nth_error_nth'.
  rewrite Forall_forall in FV. apply FV. eapply nth_error_In; eauto.
Qed.

Definition is_term_b (b : binstr) : bool := is_term (Basic b).

(** one basic instruction from a reachable frame whose operands are exactly [t1] *)
Lemma vstep_basic_complete b t1 t2 s F K :
  basic_ok (mkC c (map fr_label (F :: K))) b t1 t2 -> basic_cond (vc_signext c) b = true ->
  vs_ctrls s = F :: K -> reach F t1 ->
  exists s' F', vstep_basic c s b 0%N = Some s' /\ vs_ctrls s' = F' :: K /\ shape F F' /\
    (if is_term_b b then dead F' else reach F' t2).
Proof.
  intros HB HCd HC [HU HO].
  assert (PUSH : forall m s0 F0, vs_ctrls s0 = F0 :: K -> unr F0 = unr F ->
            vs_ctrls (push_opd m s0) = with_opds F0 (m :: opds F0) :: K) by (intros; now apply push_opd_ctrls).
  destruct HB; cbn [vstep_basic is_term_b is_term].
  - (* unreachable *) destruct (mark_fwd _ _ _ HC) as (s' & F' & E & HC' & HS & HD). eauto 6.
  - (* nop *) exists s, F. repeat split; auto.
  - (* br *)
    rewrite (get_label_mkC _ _ _ _ _ _ HC H). cbn [obind].
    rewrite map_app in HO.
    destruct (pop_opds_fwd _ _ _ _ _ HC HO) as (s1 & -> & HC1). cbn [obind].
    destruct (mark_fwd _ _ _ HC1) as (s' & F' & E & HC' & HS & HD).
    exists s', F'. split; [exact E|]. split; [exact HC'|]. split; [exact HS|exact HD].
  - (* br_if *)
    rewrite (get_label_mkC _ _ _ _ _ _ HC H). cbn [obind].
    cbn [map] in HO. rewrite map_app in HO.
    rewrite (pop_known_fwd _ _ _ _ _ HC HO). cbn [obind].
    destruct (pop_opds_fwd (set_top s (with_opds F (kn (bt_list bt) ++ kn rest)) K) _ K bt (kn rest) eq_refl eq_refl) as (s2 & -> & HC2).
    cbn [obind]. eexists _, _. split; [reflexivity|]. split; [apply push_opds_ctrls; exact HC2|].
    split; [repeat split|]. split; [exact HU|]. cbn. rewrite map_app. destruct bt; reflexivity.
  - (* br_table *)
    cbn [basic_cond] in HCd. rewrite HCd. cbn [guard obind].
    rewrite (get_label_mkC _ _ _ _ _ _ HC H). cbn [obind].
    assert (G : forallb (fun l => match get_label s l with Some lt => blocktype_eqb bt lt | None => false end) ls = true).
    { apply forallb_forall. intros l Hl. rewrite Forall_forall in H0.
      rewrite (get_label_mkC _ _ _ _ _ _ HC (H0 _ Hl)). apply blocktype_eqb_refl. }
    rewrite G. cbn [guard obind].
    cbn [map] in HO. rewrite map_app in HO.
    rewrite (pop_known_fwd _ _ _ _ _ HC HO). cbn [obind].
    destruct (pop_opds_fwd (set_top s (with_opds F (kn (bt_list bt) ++ kn t1)) K) _ K bt (kn t1) eq_refl eq_refl) as (s2 & -> & HC2).
    cbn [obind]. destruct (mark_fwd _ _ _ HC2) as (s' & F' & E & HC' & HS & HD).
    exists s', F'. split; [exact E|]. split; [exact HC'|]. split; [exact HS|exact HD].
  - (* return *)
    destruct (outermost_some _ _ _ HC) as [f Hf]. rewrite Hf.
    pose proof (outermost_label _ _ Hf) as OL. rewrite HC in OL.
    cbn [mkC tc_return] in HO. rewrite OL in HO.
    rewrite map_app in HO.
    destruct (pop_opds_fwd _ _ _ _ _ HC HO) as (s1 & -> & HC1). cbn [obind].
    destruct (mark_fwd _ _ _ HC1) as (s' & F' & E & HC' & HS & HD).
    exists s', F'. split; [exact E|]. split; [exact HC'|]. split; [exact HS|exact HD].
  - (* call *)
    rewrite (get_func_of_tc _ _ _ H). cbn [obind].
    rewrite map_app in HO.
    destruct (pop_params_fwd _ _ _ _ _ HC HO) as (s1 & -> & HC1). cbn [obind].
    eexists _, _. split; [reflexivity|]. split; [apply push_opds_ctrls; exact HC1|].
    split; [repeat split|]. split; [exact HU|]. cbn. rewrite map_app. destruct (ft_result ft); reflexivity.
  - (* call_indirect *)
    cbn [mkC tc_table] in H. rewrite H. cbn [guard obind].
    cbn [mkC tc_types] in H0. unfold get_type. rewrite H0. cbn [obind].
    cbn [map] in HO. rewrite map_app in HO.
    rewrite (pop_known_fwd _ _ _ _ _ HC HO). cbn [obind].
    destruct (pop_params_fwd (rev (ft_params ft)) (set_top s (with_opds F (kn (rev (ft_params ft)) ++ kn rest)) K) _ K (kn rest) eq_refl eq_refl) as (s2 & -> & HC2).
    cbn [obind]. eexists _, _. split; [reflexivity|]. split; [apply push_opds_ctrls; exact HC2|].
    split; [repeat split|]. split; [exact HU|]. cbn. rewrite map_app. destruct (ft_result ft); reflexivity.
  - (* drop *)
    unfold pop_opd. rewrite HC, HO. cbn. eexists _, _. split; [reflexivity|]. repeat split; auto.
  - (* select *)
    cbn [map] in HO. rewrite (pop_known_fwd _ _ _ _ _ HC HO). cbn [obind].
    unfold pop_opd at 1. cbn. unfold pop_expect, pop_opd. cbn. rewrite valtype_eqb_refl. cbn.
    eexists _, _. split; [reflexivity|]. rewrite HU. cbn. repeat split; auto.
  - (* local.get *)
    cbn [mkC tc_locals] in H. rewrite H. cbn [obind].
    eexists _, _. split; [reflexivity|]. split; [apply push_opd_ctrls; exact HC|].
    split; [repeat split|]. split; [exact HU|]. cbn. now rewrite HO.
  - (* local.set *)
    cbn [mkC tc_locals] in H. rewrite H. cbn [obind]. cbn [map] in HO.
    rewrite (pop_known_fwd _ _ _ _ _ HC HO). eexists _, _. split; [reflexivity|]. repeat split; auto.
  - (* local.tee *)
    cbn [mkC tc_locals] in H. rewrite H. cbn [obind]. cbn [map] in HO.
    unfold pop_expect, pop_opd. rewrite HC, HO. cbn. rewrite valtype_eqb_refl. cbn. rewrite HU.
    eexists _, _. split; [reflexivity|]. cbn. repeat split; auto.
  - (* global.get *)
    cbn [mkC tc_globals] in H. rewrite H. cbn [obind fst].
    eexists _, _. split; [reflexivity|]. split; [apply push_opd_ctrls; exact HC|].
    split; [repeat split|]. split; [exact HU|]. cbn. now rewrite HO.
  - (* global.set *)
    cbn [mkC tc_globals] in H. rewrite H. cbn [obind fst snd guard]. cbn [map] in HO.
    rewrite (pop_known_fwd _ _ _ _ _ HC HO). eexists _, _. split; [reflexivity|]. repeat split; auto.
  - (* load *)
    cbn [mkC tc_memory] in H. rewrite H. cbn [guard obind].
    assert (G : (match pk with Some (p, _) => pack_ok t p | None => true end) = true).
    { destruct pk as [[[] ?]|]; cbn in *; subst; try destruct t; reflexivity. }
    rewrite G. cbn [guard obind]. rewrite (proj2 (N.leb_le 0 _) (N.le_0_l _)). cbn [guard obind]. cbn [map] in HO.
    rewrite (pop_known_fwd _ _ _ _ _ HC HO). cbn [obind].
    eexists _, _. split; [reflexivity|]. split; [apply push_opd_ctrls; reflexivity|].
    split; [repeat split|]. split; [exact HU|]. reflexivity.
  - (* store *)
    cbn [mkC tc_memory] in H. rewrite H. cbn [guard obind].
    assert (G : (match pk with Some p => pack_ok t p | None => true end) = true).
    { destruct pk as [[]|]; cbn in *; subst; try destruct t; reflexivity. }
    rewrite G. cbn [guard obind]. rewrite (proj2 (N.leb_le 0 _) (N.le_0_l _)). cbn [guard obind]. cbn [map] in HO.
    rewrite (pop_known_fwd _ _ _ _ _ HC HO). cbn [obind].
    rewrite (pop_known_fwd (set_top s (with_opds F (Known T_i32 :: kn rest)) K) (with_opds F (Known T_i32 :: kn rest)) K T_i32 (kn rest) eq_refl eq_refl).
    eexists _, _. split; [reflexivity|]. repeat split; auto.
  - (* memory.size *)
    cbn [mkC tc_memory] in H. rewrite H. cbn [guard obind].
    eexists _, _. split; [reflexivity|]. split; [apply push_opd_ctrls; exact HC|].
    split; [repeat split|]. split; [exact HU|]. cbn. now rewrite HO.
  - (* memory.grow *)
    cbn [mkC tc_memory] in H. rewrite H. cbn [guard obind]. cbn [map] in HO.
    rewrite (pop_known_fwd _ _ _ _ _ HC HO). cbn [obind].
    eexists _, _. split; [reflexivity|]. split; [apply push_opd_ctrls; reflexivity|].
    split; [repeat split|]. split; [exact HU|]. reflexivity.
  - (* const *)
    eexists _, _. split; [reflexivity|]. split; [apply push_opd_ctrls; exact HC|].
    split; [repeat split|]. split; [exact HU|]. cbn. now rewrite HO.
  - (* unop *)
    assert (G : unop_ok c t op = true).
    { unfold unop_ok. cbn [basic_cond] in HCd. rewrite HCd. cbn. destruct t, op; auto; cbn in H; discriminate. }
    rewrite G. cbn [guard obind]. cbn [map] in HO.
    rewrite (pop_known_fwd _ _ _ _ _ HC HO). cbn [obind].
    eexists _, _. split; [reflexivity|]. split; [apply push_opd_ctrls; reflexivity|].
    split; [repeat split|]. split; [exact HU|]. reflexivity.
  - (* binop *)
    cbn [map] in HO. rewrite (pop_known_fwd _ _ _ _ _ HC HO). cbn [obind].
    rewrite (pop_known_fwd (set_top s (with_opds F (Known t :: kn rest)) K) (with_opds F (Known t :: kn rest)) K t (kn rest) eq_refl eq_refl). cbn [obind].
    eexists _, _. split; [reflexivity|]. split; [apply push_opd_ctrls; reflexivity|].
    split; [repeat split|]. split; [exact HU|]. reflexivity.
  - (* eqz *)
    cbn [map] in HO. rewrite (pop_known_fwd _ _ _ _ _ HC HO). cbn [obind].
    eexists _, _. split; [reflexivity|]. split; [apply push_opd_ctrls; reflexivity|].
    split; [repeat split|]. split; [exact HU|]. reflexivity.
  - (* relop *)
    cbn [map] in HO. rewrite (pop_known_fwd _ _ _ _ _ HC HO). cbn [obind].
    rewrite (pop_known_fwd (set_top s (with_opds F (Known t :: kn rest)) K) (with_opds F (Known t :: kn rest)) K t (kn rest) eq_refl eq_refl). cbn [obind].
    eexists _, _. split; [reflexivity|]. split; [apply push_opd_ctrls; reflexivity|].
    split; [repeat split|]. split; [exact HU|]. reflexivity.
  - (* cvt *)
    assert (E1 : fst (cvt_types op) = cvt_from op) by (destruct op; reflexivity).
    assert (E2 : snd (cvt_types op) = cvt_to op) by (destruct op; reflexivity).
    rewrite E1, E2. cbn [map] in HO. rewrite (pop_known_fwd _ _ _ _ _ HC HO). cbn [obind].
    eexists _, _. split; [reflexivity|]. split; [apply push_opd_ctrls; reflexivity|].
    split; [repeat split|]. split; [exact HU|]. reflexivity.
Qed.

(** ** closing frames (forward) *)
Lemma pop_ctrl_fwd s F0 R : vs_ctrls s = F0 :: R -> out F0 (bt_list (fr_end F0)) ->
  exists s2, pop_ctrl s = Some (fr_end F0, fr_is_if F0, s2) /\ vs_ctrls s2 = R.
Proof.
  intros HC HO. unfold pop_ctrl. rewrite HC.
  assert (G : exists s1 F1, pop_opds (fr_end F0) s = Some s1 /\ vs_ctrls s1 = F1 :: R /\ opds F1 = []).
  { destruct HO as [[HU HO]|[HU HO]].
    - destruct (pop_opds_fwd s F0 R (fr_end F0) [] HC) as (s1 & E & HC1); [now rewrite app_nil_r|].
      exists s1, (with_opds F0 []). auto.
    - exists s, F0. split; [|auto]. destruct (fr_end F0) as [t|]; cbn; [|reflexivity].
      unfold pop_known, pop_expect, pop_opd. rewrite HC, HO, HU. reflexivity. }
  destruct G as (s1 & F1 & -> & HC1 & HO1). rewrite HC1, HO1. eexists. split; reflexivity.
Qed.

Lemma end_fwd s F0 F K : vs_ctrls s = F0 :: F :: K -> out F0 (bt_list (fr_end F0)) ->
  (fr_is_if F0 = true -> fr_end F0 = None) ->
  exists s', vstep c s (OEnd, 0%N) = Some s' /\
    vs_ctrls s' = with_opds F (kn (bt_list (fr_end F0)) ++ opds F) :: K.
Proof.
  intros HC HO HI. unfold vstep. cbn [fst].
  destruct (pop_ctrl_fwd _ _ _ HC HO) as (s2 & -> & HC2). cbn [obind].
  assert (G : negb (fr_is_if F0) || blocktype_eqb (fr_end F0) None = true).
  { destruct (fr_is_if F0); [|reflexivity]. rewrite HI by reflexivity. reflexivity. }
  rewrite G. cbn [guard obind]. eexists. split; [reflexivity|].
  rewrite (push_opds_ctrls _ _ _ _ HC2). destruct (fr_end F0); reflexivity.
Qed.
Lemma else_fwd s F0 R : vs_ctrls s = F0 :: R -> out F0 (bt_list (fr_end F0)) -> fr_is_if F0 = true ->
  exists s', vstep c s (OElse, 0%N) = Some s' /\
    vs_ctrls s' = new_frame false (fr_end F0) (fr_end F0) :: R.
Proof.
  intros HC HO HI. unfold vstep. cbn [fst].
  destruct (pop_ctrl_fwd _ _ _ HC HO) as (s2 & -> & HC2). cbn [obind]. rewrite HI. cbn [guard obind].
  eexists. split; [reflexivity|]. cbn. now rewrite HC2.
Qed.
Lemma end_top s F0 : vs_ctrls s = [F0] -> out F0 (bt_list (fr_end F0)) -> fr_is_if F0 = false ->
  exists s', vstep c s (OEnd, 0%N) = Some s' /\ vs_ctrls s' = [].
Proof.
  intros HC HO HI. unfold vstep. cbn [fst].
  destruct (pop_ctrl_fwd _ _ _ HC HO) as (s2 & -> & HC2). cbn [obind]. rewrite HI. cbn [guard obind].
  eexists. split; [reflexivity|]. now apply push_opds_nil.
Qed.

Scheme instr_ok_min := Minimality for instr_ok Sort Prop
  with seq_ok_min := Minimality for seq_ok Sort Prop.
Combined Scheme typing_mutind from instr_ok_min, seq_ok_min.

Notation cond_i := (instr_cond (vc_signext c)).
Notation cond_s := (seq_cond (vc_signext c)).

Definition P_i (C : tctx) (i : instr) (t1 t2 : list valtype) : Prop :=
  cond_i i = true -> forall s F K, vs_ctrls s = F :: K -> C = mkC c (map fr_label (F :: K)) -> reach F t1 ->
  exists s' F', vrun c s (w0 (flatten_instr i)) = Some s' /\ vs_ctrls s' = F' :: K /\ shape F F' /\
    (if is_term i then dead F' else reach F' t2).
Definition P_s (C : tctx) (is : list instr) (t1 t2 : list valtype) : Prop :=
  cond_s is = true -> forall s F K, vs_ctrls s = F :: K -> C = mkC c (map fr_label (F :: K)) -> reach F t1 ->
  exists s' F', vrun c s (w0 (flatten is)) = Some s' /\ vs_ctrls s' = F' :: K /\ shape F F' /\ out F' t2.

Lemma reach_new is_if l e : reach (new_frame is_if l e) []. Proof. split; reflexivity. Qed.

Lemma complete_all :
  (forall C i t1 t2, instr_ok C i t1 t2 -> P_i C i t1 t2) /\
  (forall C is t1 t2, seq_ok C is t1 t2 -> P_s C is t1 t2).
Proof.
  apply typing_mutind.
  - (* basic *)
    intros C b t1 t2 HB HCd s F K HC -> HR. cbn [flatten_instr map vrun]. unfold vstep. cbn [fst snd].
    destruct (vstep_basic_complete b t1 t2 s F K HB HCd HC HR) as (s' & F' & -> & HC' & HS & HO).
    exists s', F'. auto.
  - (* block *)
    intros C bt body rest HB IH HCd s F K HC -> HR. rewrite instr_cond_block in HCd.
    cbn [flatten_instr]. change (OBlock bt :: flat_map flatten_instr body ++ [OEnd]) with ([OBlock bt] ++ flatten body ++ [OEnd]).
    rewrite !w0_app, vrun_app. cbn [map vrun vstep fst]. rewrite ?vrun_app.
    assert (HC1 : vs_ctrls (push_ctrl false bt bt s) = new_frame false bt bt :: F :: K) by (cbn; now rewrite HC).
    destruct (IH HCd _ _ _ HC1 eq_refl (reach_new _ _ _)) as (s2 & F0' & -> & HC2 & HS2 & HO2).
    pose proof HS2 as (HI & _ & HE). cbn in HI, HE.
    destruct (end_fwd s2 F0' F K HC2) as (s3 & E3 & HC3); [rewrite HE; exact HO2|rewrite HI; discriminate|].
    cbn [map vrun]. rewrite E3. exists s3, (with_opds F (kn (bt_list (fr_end F0')) ++ opds F)). split; [reflexivity|]. split; [exact HC3|].
    split; [apply shape_wo|]. cbn [is_term]. destruct HR as [HU HO]. split; [exact HU|]. cbn. rewrite HE, HO, map_app. reflexivity.
  - (* loop *)
    intros C bt body rest HB IH HCd s F K HC -> HR. rewrite instr_cond_loop in HCd.
    cbn [flatten_instr]. change (OLoop bt :: flat_map flatten_instr body ++ [OEnd]) with ([OLoop bt] ++ flatten body ++ [OEnd]).
    rewrite !w0_app, vrun_app. cbn [map vrun vstep fst]. rewrite ?vrun_app.
    assert (HC1 : vs_ctrls (push_ctrl false None bt s) = new_frame false None bt :: F :: K) by (cbn; now rewrite HC).
    destruct (IH HCd _ _ _ HC1 eq_refl (reach_new _ _ _)) as (s2 & F0' & -> & HC2 & HS2 & HO2).
    pose proof HS2 as (HI & _ & HE). cbn in HI, HE.
    destruct (end_fwd s2 F0' F K HC2) as (s3 & E3 & HC3); [rewrite HE; exact HO2|rewrite HI; discriminate|].
    cbn [map vrun]. rewrite E3. exists s3, (with_opds F (kn (bt_list (fr_end F0')) ++ opds F)). split; [reflexivity|]. split; [exact HC3|].
    split; [apply shape_wo|]. cbn [is_term]. destruct HR as [HU HO]. split; [exact HU|]. cbn. rewrite HE, HO, map_app. reflexivity.
  - (* if *)
    intros C bt thn els rest HT IHT HEl IHE HCd s F K HC -> HR. rewrite instr_cond_if in HCd.
    apply andb_true_iff in HCd. destruct HCd as [CdT CdE].
    destruct HR as [HU HO]. cbn [map] in HO.
    assert (HCp : vs_ctrls (set_top s (with_opds F (kn rest)) K) = with_opds F (kn rest) :: K) by reflexivity.
    assert (HC1 : vs_ctrls (push_ctrl true bt bt (set_top s (with_opds F (kn rest)) K)) = new_frame true bt bt :: with_opds F (kn rest) :: K) by reflexivity.
    destruct (IHT CdT _ _ _ HC1 eq_refl (reach_new _ _ _)) as (s2 & F0' & ET & HC2 & HS2 & HO2).
    pose proof HS2 as (HI & _ & HE). cbn in HI, HE.
    cbn [flatten_instr]. destruct els as [|e0 els'].
    + (* no else: the typing of the empty else branch forces an empty result *)
      assert (bt = None) as -> by (inversion HEl; destruct bt; [discriminate|reflexivity]).
      change (OIf None :: flat_map flatten_instr thn ++ [OEnd]) with ([OIf None] ++ flatten thn ++ [OEnd]).
      rewrite !w0_app, vrun_app. cbn [map vrun vstep fst]. rewrite ?vrun_app.
      rewrite (pop_known_fwd _ _ _ _ _ HC HO). cbn [obind]. rewrite ?vrun_app, ET.
      destruct (end_fwd s2 F0' _ K HC2) as (s3 & E3 & HC3); [rewrite HE; exact HO2|intros _; exact HE|].
      cbn [map vrun]. rewrite E3. eexists s3, _. split; [reflexivity|]. split; [exact HC3|].
      split; [repeat split|]. cbn [is_term]. split; [exact HU|]. cbn. rewrite HE. reflexivity.
    + change (OIf bt :: flat_map flatten_instr thn ++ OElse :: flat_map flatten_instr (e0 :: els') ++ [OEnd])
        with ([OIf bt] ++ flatten thn ++ [OElse] ++ flatten (e0 :: els') ++ [OEnd]).
      rewrite !w0_app, vrun_app. cbn [map vrun vstep fst]. rewrite ?vrun_app.
      rewrite (pop_known_fwd _ _ _ _ _ HC HO). cbn [obind]. rewrite ?vrun_app, ET.
      destruct (else_fwd s2 F0' _ HC2) as (s3 & E3 & HC3); [rewrite HE; exact HO2|exact HI|].
      cbn [map vrun]. rewrite ?vrun_app. cbn [map vrun]. rewrite E3. rewrite ?vrun_app. rewrite HE in HC3.
      destruct (IHE CdE _ _ _ HC3 eq_refl (reach_new _ _ _)) as (s4 & F1' & -> & HC4 & HS4 & HO4).
      pose proof HS4 as (HI4 & _ & HE4). cbn in HI4, HE4.
      destruct (end_fwd s4 F1' _ K HC4) as (s5 & E5 & HC5); [rewrite HE4; exact HO4|rewrite HI4; discriminate|].
      cbn [map vrun]. rewrite E5. eexists s5, _. split; [reflexivity|]. split; [exact HC5|].
      split; [repeat split|]. cbn [is_term]. split; [exact HU|]. cbn. rewrite HE4, map_app. reflexivity.
  - (* nil *)
    intros C ts _ s F K HC -> HR. exists s, F. cbn. repeat split; auto. now left.
  - (* cons *)
    intros C i is t1 t2 t3 HI IHI HS IHS HCd s F K HC -> HR. rewrite seq_cond_cons in HCd.
    apply andb_true_iff in HCd. destruct HCd as [HCd CdS]. apply andb_true_iff in HCd. destruct HCd as [CdI CdT].
    change (flatten (i :: is)) with (flatten_instr i ++ flatten is). rewrite w0_app, vrun_app.
    destruct (IHI CdI _ _ _ HC eq_refl HR) as (s1 & F1 & -> & HC1 & HS1 & HO1).
    destruct is as [|j is'].
    + cbn [flatten flat_map map vrun]. exists s1, F1. split; [reflexivity|]. split; [exact HC1|]. split; [exact HS1|].
      inversion HS; subst. destruct (is_term i); [now right|now left].
    + apply negb_true_iff in CdT. rewrite CdT in HO1.
      destruct (IHS CdS _ _ _ HC1) as (s2 & F2 & E2 & HC2 & HS2 & HO2);
        [now rewrite (map_label_shape _ _ _ HS1)|exact HO1|].
      exists s2, F2. split; [exact E2|]. split; [exact HC2|]. split; [eapply shape_trans; eauto|exact HO2].
Qed.

(** [validate_complete_partial] *)
Theorem validate_complete_partial_thm is :
  body_ok (tctx_of c) is -> cond_s is = true ->
  exists h, validate_func c (w0 (flatten_body is)) = Some h.
Proof.
  intros HB HCd. unfold validate_func, flatten_body. rewrite w0_app, vrun_app.
  assert (HC : vs_ctrls (vinit c) = [new_frame false (vc_return c) (vc_return c)]) by reflexivity.
  destruct (proj2 complete_all _ _ _ _ HB HCd _ _ _ HC eq_refl (reach_new _ _ _)) as (s1 & F1 & -> & HC1 & HS1 & HO1).
  pose proof HS1 as (HI & _ & HE). cbn in HI, HE. cbn [map vrun].
  destruct (end_top s1 F1 HC1) as (s2 & -> & HC2); [rewrite HE; exact HO1|exact HI|].
  rewrite HC2. eauto.
Qed.
End Complete.
