(** * Wasm/ArtifactNormalForm — what [parse_artifact] accepts, and the exact normal form.

    [parse_artifact] ([Wasm/ArtifactCodec.v]) accepts more byte strings than [output_artifact]
    produces: LEB128 numbers may be over-long (within the byte budget) and the export list may be
    in any order (it is inserted into a [BTreeMap]).  This file shows that these are the ONLY
    two sources of non-canonicity:

    - [parse_wf_thm]: whatever the parser returns is a well-formed artifact;
    - [parse_output_normal_form_thm], [reserialise_idempotent_thm]: parse-then-output is idempotent;
    - [parse_artifact_strict]: the same parser, except that every LEB128 number must be in its
      shortest form and the export list must already be strictly sorted;
    - [strict_sound_thm], [strict_canonical_thm], [strict_complete_thm]: the strict parser accepts
      exactly the byte strings [output_artifact a ++ rest] with [a] well-formed, and
    - [noncanonical_iff_not_strict_thm]: an accepted input equals its re-serialisation exactly when
      the strict parser accepts it too.

    To state "the same parser except ..." without copying it, the parser is written once more with
    its four LEB128 readers and the export normaliser as arguments ([g_artifact]);
    [g_artifact_loose] shows that instantiating it with the readers of parse.rs gives
    [parse_artifact] back (by computation), and [parse_artifact_strict] is the instance with the
    strict readers. *)
From Coq Require Import ZArith NArith List Bool Lia Setoid.
From CB Require Import Wasm.Syntax Wasm.Leb128 Wasm.Leb128Proofs Wasm.ArtifactLeb
                       Wasm.ArtifactCodec Wasm.ArtifactCodecProofs.
Import ListNotations.
Local Open Scope N_scope.

Definition bytes_ok (bs : list N) : Prop := Forall (fun b => b < 256) bs.

(** ** The parser with its integer readers and export normaliser as arguments *)
Section Gen.
  Variables (du16 du32 : dec N) (ds32 ds64 : dec Z).
  Variable norm : list (list N * N) -> option (list (list N * N)).

  Definition g_vec {A} (d : dec A) : dec (list A) := do n <- du32; p_many d n.
  Definition g_bytes : dec (list N) := do n <- du32; p_take n.
  Definition g_valtypes : dec (list valtype) :=
    do bs <- g_bytes; match valtypes_of_bytes bs with Some ts => ret ts | None => fail end.
  Definition g_functype : dec functype :=
    do b <- p_byte;
    if b =? 0x60 then
      do ps <- g_vec p_valtype;
      do rs <- g_vec p_valtype;
      match rs with
      | [] => ret {| ft_params := ps; ft_result := None |}
      | [t] => ret {| ft_params := ps; ft_result := Some t |}
      | _ => fail
      end
    else fail.
  Definition g_name : dec (list N) := do l <- g_bytes; if name_ok l then ret l else fail.
  Definition g_import : dec s_import :=
    do m <- g_name; do i <- g_name; do t <- g_functype;
    ret {| si_mod := m; si_item := i; si_ty := t |}.
  Definition g_local : dec s_local :=
    do m <- du16; do t <- p_valtype; ret {| sl_mult := m; sl_ty := t |}.
  Definition g_data : dec s_data :=
    do o <- ds32; do i <- g_bytes; ret {| sd_offset := o; sd_init := i |}.
  Definition g_memory : dec s_memory :=
    do i <- du32; do m <- du32; do d <- g_vec g_data;
    ret {| sm_init := i; sm_max := m; sm_data := d |}.
  Definition g_ginit : dec s_ginit :=
    do t <- p_byte;
    if t =? 0 then (do z <- ds32; ret (GI32 z))
    else if t =? 1 then (do z <- ds64; ret (GI64 z)) else fail.
  Definition g_export : dec (list N * N) := do n <- g_name; do i <- du32; ret (n, i).
  Definition g_func : dec s_func :=
    do ti <- du32; do rt <- p_blocktype; do ps <- g_valtypes;
    do nl <- du32; do ls <- g_vec g_local;
    do nr <- du32; do cs <- g_vec ds64; do code <- g_bytes;
    ret {| sf_type_idx := ti; sf_return := rt; sf_params := ps; sf_num_locals := nl;
           sf_locals := ls; sf_num_registers := nr; sf_constants := cs; sf_code := code |}.
  Definition g_artifact : dec s_artifact :=
    do v <- p_byte;
    if v =? 255 then
      do ni <- du16;
      do imports <- p_many g_import ni;
      do types <- g_vec g_functype;
      do table <- g_vec (p_option du32);
      do memory <- p_option g_memory;
      do globals <- g_vec g_ginit;
      do raw <- g_vec g_export;
      match norm raw with
      | Some exports =>
          do code <- g_vec g_func;
          ret {| sa_imports := imports; sa_types := types; sa_table := table; sa_memory := memory;
                 sa_globals := globals; sa_exports := exports; sa_code := code |}
      | None => fail
      end
    else fail.
End Gen.

(** with the readers of parse.rs this is [parse_artifact], definitionally *)
Lemma g_artifact_loose :
  g_artifact decode_u16 decode_u32 decode_s32 decode_s64 normalise = parse_artifact.
Proof. reflexivity. Qed.

(** ** The strict readers *)
Fixpoint prefixb (p bs : list N) : bool :=
  match p, bs with
  | [], _ => true
  | x :: p', y :: bs' => (x =? y) && prefixb p' bs'
  | _ :: _, [] => false
  end.
(** [strict d o]: read with [d], and require the input to start with the canonical encoding [o a]
    of the value read *)
Definition strict {A} (d : dec A) (o : A -> list N) : dec A := fun bs =>
  match d bs with
  | Some (a, r) => if prefixb (o a) bs then Some (a, r) else None
  | None => None
  end.
Definition strict_u16 : dec N := strict decode_u16 out_u16.
Definition strict_u32 : dec N := strict decode_u32 out_u32.
Definition strict_s32 : dec Z := strict decode_s32 out_i32.
Definition strict_s64 : dec Z := strict decode_s64 out_i64.
(** the export list must already be in map order *)
Definition norm_strict (l : list (list N * N)) : option (list (list N * N)) :=
  if sorted_namesb l then Some l else None.

Definition parse_artifact_strict : list N -> option (s_artifact * list N) :=
  g_artifact strict_u16 strict_u32 strict_s32 strict_s64 norm_strict.

(** ** Soundness: the strict parser accepts less *)
Definition Refines {A} (ds d : dec A) : Prop := forall bs x, ds bs = Some x -> d bs = Some x.

Lemma Refines_refl {A} (d : dec A) : Refines d d.
Proof. intros bs x H. exact H. Qed.
Lemma Refines_fail_l {A} (d : dec A) : Refines fail d.
Proof. intros bs x H. discriminate. Qed.
Lemma Refines_bind {A B} (ds d : dec A) (ks k : A -> dec B) :
  Refines ds d -> (forall a, Refines (ks a) (k a)) -> Refines (bind ds ks) (bind d k).
Proof.
  intros H1 H2 bs x. unfold bind. destruct (ds bs) as [[a r]|] eqn:E; [|discriminate].
  rewrite (H1 _ _ E). apply H2.
Qed.
Lemma Refines_strict {A} (d : dec A) o : Refines (strict d o) d.
Proof.
  intros bs x. unfold strict. destruct (d bs) as [[a r]|]; [|discriminate].
  destruct (prefixb (o a) bs); [auto|discriminate].
Qed.
Lemma Refines_many_nat {A} (ds d : dec A) : Refines ds d -> forall n, Refines (p_many_nat ds n) (p_many_nat d n).
Proof.
  intros H. induction n as [|n IH]; intros bs x; cbn [p_many_nat]; [auto|].
  destruct (ds bs) as [[a r]|] eqn:E; [|discriminate]. rewrite (H _ _ E).
  destruct (p_many_nat ds n r) as [[l r']|] eqn:E2; [|discriminate]. rewrite (IH _ _ E2). auto.
Qed.
Lemma Refines_many {A} (ds d : dec A) n : Refines ds d -> Refines (p_many ds n) (p_many d n).
Proof. intros H bs x. rewrite !p_many_eq_nat. apply Refines_many_nat. exact H. Qed.
Lemma Refines_option {A} (ds d : dec A) : Refines ds d -> Refines (p_option ds) (p_option d).
Proof.
  intros H. unfold p_option. apply Refines_bind; [apply Refines_refl|]. intros t.
  destruct (t =? 0); [apply Refines_refl|]. destruct (t =? 1); [|apply Refines_refl].
  apply Refines_bind; [exact H|]. intros v. apply Refines_refl.
Qed.

Ltac ref_tac :=
  repeat first
    [ assumption | apply Refines_refl | solve [auto with refdb]
    | match goal with |- Refines (if ?c then _ else _) _ => destruct c end
    | match goal with |- Refines (match ?x with _ => _ end) _ => destruct x end
    | apply Refines_bind; [|intros ?] ].

Section Sound.
  Variables (su16 su32 : dec N) (ss32 ss64 : dec Z) (norm_s : list (list N * N) -> option (list (list N * N))).
  Variables (lu16 lu32 : dec N) (ls32 ls64 : dec Z) (norm_l : list (list N * N) -> option (list (list N * N))).
  Hypothesis H16 : Refines su16 lu16.
  Hypothesis H32 : Refines su32 lu32.
  Hypothesis Hs32 : Refines ss32 ls32.
  Hypothesis Hs64 : Refines ss64 ls64.
  Hypothesis Hnorm : forall l e, norm_s l = Some e -> norm_l l = Some e.

  Lemma gR_vec {A} (ds d : dec A) : Refines ds d -> Refines (g_vec su32 ds) (g_vec lu32 d).
  Proof. intros H. unfold g_vec. apply Refines_bind; [exact H32|]. intros n. apply Refines_many. exact H. Qed.
  Lemma gR_bytes : Refines (g_bytes su32) (g_bytes lu32).
  Proof. unfold g_bytes. ref_tac. Qed.
  Hint Resolve gR_vec gR_bytes Refines_option Refines_many : refdb.
  Lemma gR_valtypes : Refines (g_valtypes su32) (g_valtypes lu32).
  Proof. unfold g_valtypes. ref_tac. Qed.
  Lemma gR_functype : Refines (g_functype su32) (g_functype lu32).
  Proof. unfold g_functype. ref_tac. Qed.
  Lemma gR_name : Refines (g_name su32) (g_name lu32).
  Proof. unfold g_name. ref_tac. Qed.
  Hint Resolve gR_valtypes gR_functype gR_name : refdb.
  Lemma gR_import : Refines (g_import su32) (g_import lu32).
  Proof. unfold g_import. ref_tac. Qed.
  Lemma gR_local : Refines (g_local su16) (g_local lu16).
  Proof. unfold g_local. ref_tac. Qed.
  Lemma gR_data : Refines (g_data su32 ss32) (g_data lu32 ls32).
  Proof. unfold g_data. ref_tac. Qed.
  Hint Resolve gR_import gR_local gR_data : refdb.
  Lemma gR_memory : Refines (g_memory su32 ss32) (g_memory lu32 ls32).
  Proof. unfold g_memory. ref_tac. Qed.
  Lemma gR_ginit : Refines (g_ginit ss32 ss64) (g_ginit ls32 ls64).
  Proof. unfold g_ginit. ref_tac. Qed.
  Lemma gR_export : Refines (g_export su32) (g_export lu32).
  Proof. unfold g_export. ref_tac. Qed.
  Lemma gR_func : Refines (g_func su16 su32 ss64) (g_func lu16 lu32 ls64).
  Proof. unfold g_func. ref_tac. Qed.
  Hint Resolve gR_memory gR_ginit gR_export gR_func : refdb.

  Lemma gR_artifact :
    Refines (g_artifact su16 su32 ss32 ss64 norm_s) (g_artifact lu16 lu32 ls32 ls64 norm_l).
  Proof.
    unfold g_artifact.
    apply Refines_bind; [apply Refines_refl|intros v]. destruct (v =? 255); [|apply Refines_refl].
    apply Refines_bind; [exact H16|intros ni].
    apply Refines_bind; [ref_tac|intros imports].
    apply Refines_bind; [ref_tac|intros types].
    apply Refines_bind; [ref_tac|intros table].
    apply Refines_bind; [ref_tac|intros memory].
    apply Refines_bind; [ref_tac|intros globals].
    apply Refines_bind; [ref_tac|intros raw].
    destruct (norm_s raw) as [e|] eqn:E; [rewrite (Hnorm _ _ E)|apply Refines_fail_l].
    ref_tac.
  Qed.
End Sound.

Lemma norm_strict_normalise l e : norm_strict l = Some e -> normalise l = Some e.
Proof.
  unfold norm_strict. destruct (sorted_namesb l) eqn:S; [|discriminate]. intros H. inversion H; subst.
  apply normalise_sorted. apply sorted_namesb_iff. exact S.
Qed.

Theorem strict_sound_thm : forall bs x, parse_artifact_strict bs = Some x -> parse_artifact bs = Some x.
Proof.
  intros bs x. rewrite <- g_artifact_loose. unfold parse_artifact_strict.
  apply gR_artifact; try apply Refines_strict. exact norm_strict_normalise.
Qed.

(** ** Completeness: round trip for any readers that invert the canonical encoders *)
Section Complete.
  Variables (du16 du32 : dec N) (ds32 ds64 : dec Z) (norm : list (list N * N) -> option (list (list N * N))).
  Hypothesis R16 : RT out_u16 du16 wf_u16.
  Hypothesis R32 : RT out_u32 du32 wf_u32.
  Hypothesis Rs32 : RT out_i32 ds32 wf_i32.
  Hypothesis Rs64 : RT out_i64 ds64 wf_i64.
  Hypothesis Rnorm : forall l, sorted_names l -> norm l = Some l.

  Lemma gRT_vec {A} (o : A -> list N) d P : RT o d P -> RT (out_vec o) (g_vec du32 d) (fun l => wf_len l /\ Forall P l).
  Proof.
    intros R l rest [L F]. unfold g_vec, out_vec. rt R32. apply RT_many with (P := P); auto.
  Qed.
  Lemma gRT_bytes : RT out_bytes (g_bytes du32) wf_len.
  Proof.
    intros l rest L. unfold g_bytes, out_bytes. rt R32. unfold p_take.
    rewrite (proj2 (N.leb_le _ _)) by (rewrite app_length; lia).
    rewrite Nat2N.id, firstn_length_app, skipn_length_app. reflexivity.
  Qed.
  Lemma gRT_valtypes : RT out_valtypes (g_valtypes du32) wf_len.
  Proof.
    intros ts rest L. unfold g_valtypes, out_valtypes.
    rt gRT_bytes; [|unfold wf_len; rewrite map_length; exact L].
    rewrite valtypes_of_bytes_map. reflexivity.
  Qed.
  Lemma gRT_functype : RT out_functype (g_functype du32) wf_functype.
  Proof.
    intros [ps r] rest W. unfold wf_functype in W. cbn [ft_params] in W.
    unfold g_functype, out_functype. cbn [ft_params ft_result app].
    unfold bind at 1, p_byte. rewrite N.eqb_refl.
    rt (gRT_vec out_valtype p_valtype (fun _ => True) RT_valtype);
      [|split; [exact W|apply Forall_forall; auto]].
    destruct r as [t|].
    - change (out_option out_valtype (Some t) ++ rest) with (out_vec out_valtype [t] ++ rest).
      rt (gRT_vec out_valtype p_valtype (fun _ => True) RT_valtype); [reflexivity|].
      split; [reflexivity|auto].
    - change (out_option out_valtype None ++ rest) with (out_vec out_valtype (@nil valtype) ++ rest).
      rt (gRT_vec out_valtype p_valtype (fun _ => True) RT_valtype); [reflexivity|].
      split; [reflexivity|auto].
  Qed.
  Lemma gRT_name : RT out_name (g_name du32) wf_name.
  Proof.
    intros l rest W. unfold g_name, out_name. rt gRT_bytes; [|apply wf_name_len; exact W].
    rewrite (proj2 (name_ok_iff l) W). reflexivity.
  Qed.
  Lemma gRT_import : RT out_import (g_import du32) wf_import.
  Proof.
    intros [m i t] rest (Wm & Wi & Wt). cbn [si_mod si_item si_ty] in *.
    unfold g_import, out_import. cbn [si_mod si_item si_ty].
    rt gRT_name. rt gRT_name. rt gRT_functype. reflexivity.
  Qed.
  Lemma gRT_local : RT out_local (g_local du16) wf_local.
  Proof.
    intros [m t] rest W. unfold wf_local in W. cbn [sl_mult] in W.
    unfold g_local, out_local. cbn [sl_mult sl_ty].
    rt R16. cbn [app]. unfold bind. rewrite RT_valtype1. reflexivity.
  Qed.
  Lemma gRT_data : RT out_data (g_data du32 ds32) wf_data.
  Proof.
    intros [o i] rest (Wo & Wi & _). cbn [sd_offset sd_init] in *.
    unfold g_data, out_data. cbn [sd_offset sd_init].
    rt Rs32. rt gRT_bytes. reflexivity.
  Qed.
  Lemma gRT_memory : RT out_memory (g_memory du32 ds32) wf_memory.
  Proof.
    intros [i m d] rest (Wi & Wm & Wl & Wd). cbn [sm_init sm_max sm_data] in *.
    unfold g_memory, out_memory. cbn [sm_init sm_max sm_data].
    rt R32. rt R32. rt (gRT_vec _ _ _ gRT_data). reflexivity.
  Qed.
  Lemma gRT_ginit : RT out_ginit (g_ginit ds32 ds64) wf_ginit.
  Proof.
    intros [z|z] rest W; unfold g_ginit, out_ginit; cbn [app wf_ginit] in *; unfold bind at 1, p_byte.
    - change (0 =? 0) with true. cbv iota. rt Rs32. reflexivity.
    - change (1 =? 0) with false. change (1 =? 1) with true. cbv iota. rt Rs64. reflexivity.
  Qed.
  Lemma gRT_export : RT out_export (g_export du32) wf_export.
  Proof.
    intros [n i] rest (Wn & Wi). cbn [fst snd] in *.
    unfold g_export, out_export. cbn [fst snd].
    rt gRT_name. rt R32. reflexivity.
  Qed.
  Lemma gRT_func : RT out_func (g_func du16 du32 ds64) wf_func.
  Proof.
    intros [ti rt ps nl ls nr cs code] rest (W1 & W2 & W3 & W4 & W5 & W6 & W7 & _).
    cbn [sf_type_idx sf_return sf_params sf_num_locals sf_locals sf_num_registers sf_constants sf_code] in *.
    unfold g_func, out_func.
    cbn [sf_type_idx sf_return sf_params sf_num_locals sf_locals sf_num_registers sf_constants sf_code].
    rt R32. rt RT_blocktype. rt gRT_valtypes. rt R32. rt (gRT_vec _ _ _ gRT_local).
    rt R32. rt (gRT_vec _ _ _ Rs64). rt gRT_bytes. reflexivity.
  Qed.
  Lemma gRT_artifact : RT output_artifact (g_artifact du16 du32 ds32 ds64 norm) wf_artifact.
  Proof.
    intros [imports types table memory globals exports code] rest
           ((Wi1 & Wi2) & Wt & Wtab & Wmem & Wg & (We1 & We2 & We3) & Wc).
    cbn [sa_imports sa_types sa_table sa_memory sa_globals sa_exports sa_code] in *.
    unfold g_artifact, output_artifact.
    cbn [sa_imports sa_types sa_table sa_memory sa_globals sa_exports sa_code app].
    unfold bind at 1, p_byte. rewrite N.eqb_refl.
    rt R16.
    rewrite <- ?app_assoc. rewrite (bind_ok _ _ _ _ _ (RT_many _ _ _ gRT_import imports _ Wi2)). cbv beta.
    rt (gRT_vec _ _ _ gRT_functype).
    rt (gRT_vec _ _ _ (RT_option _ _ _ R32)).
    rt (RT_option _ _ _ gRT_memory).
    rt (gRT_vec _ _ _ gRT_ginit).
    rt (gRT_vec _ _ _ gRT_export).
    rewrite (Rnorm _ We3).
    rt (gRT_vec _ _ _ gRT_func). reflexivity.
  Qed.
End Complete.

Lemma prefixb_app p r : prefixb p (p ++ r) = true.
Proof. induction p as [|x p IH]; [reflexivity|]. cbn [prefixb app]. rewrite N.eqb_refl, IH. reflexivity. Qed.
Lemma prefixb_true p : forall bs, prefixb p bs = true -> exists r, bs = p ++ r.
Proof.
  induction p as [|x p IH]; intros bs H; [exists bs; reflexivity|].
  destruct bs as [|y bs]; [discriminate|]. cbn [prefixb] in H. apply andb_true_iff in H.
  destruct H as [E H]. apply N.eqb_eq in E. subst y. destruct (IH _ H) as [r ->]. exists r. reflexivity.
Qed.
Lemma RT_strict {A} (o : A -> list N) d P : RT o d P -> RT o (strict d o) P.
Proof. intros R a rest W. unfold strict. rewrite (R a rest W), prefixb_app. reflexivity. Qed.
Lemma norm_strict_sorted l : sorted_names l -> norm_strict l = Some l.
Proof. intros H. unfold norm_strict. rewrite (proj2 (sorted_namesb_iff l) H). reflexivity. Qed.

Theorem strict_complete_thm : forall a rest,
  wf_artifact a -> parse_artifact_strict (output_artifact a ++ rest) = Some (a, rest).
Proof.
  unfold parse_artifact_strict. apply gRT_artifact.
  - apply RT_strict, RT_u16.
  - apply RT_strict, RT_u32.
  - apply RT_strict, RT_i32.
  - apply RT_strict, RT_i64.
  - exact norm_strict_sorted.
Qed.

(** ** Canonicity: a parser all of whose readers are canonical is canonical *)
Definition Canon {A} (o : A -> list N) (d : dec A) : Prop :=
  forall bs a r, d bs = Some (a, r) -> bs = o a ++ r.
(** the same with the bytes already consumed, [pre], in front *)
Definition Canon' {A} (pre : list N) (d : dec A) (o : A -> list N) : Prop :=
  forall bs a r, d bs = Some (a, r) -> pre ++ bs = o a ++ r.

Lemma bind_inv {A B} (d : dec A) (k : A -> dec B) bs x :
  bind d k bs = Some x -> exists a r, d bs = Some (a, r) /\ k a r = Some x.
Proof. unfold bind. destruct (d bs) as [[a r]|]; [|discriminate]. intros H. exists a, r. auto. Qed.

Lemma Canon_of' {A} (o : A -> list N) d : Canon' [] d o -> Canon o d.
Proof. intros H bs a r E. exact (H bs a r E). Qed.
Lemma Canon'_bind {A B} pre (d : dec A) o1 (k : A -> dec B) o :
  Canon o1 d -> (forall a, Canon' (pre ++ o1 a) (k a) o) -> Canon' pre (bind d k) o.
Proof.
  intros H1 H2 bs b r H. apply bind_inv in H. destruct H as (a & r1 & E & H).
  apply H1 in E. subst bs. rewrite app_assoc. exact (H2 a r1 b r H).
Qed.
Lemma Canon'_ret {A} pre (x : A) o : pre = o x -> Canon' pre (ret x) o.
Proof. intros -> bs a r H. inversion H; subst. reflexivity. Qed.
Lemma Canon'_fail {A} pre (o : A -> list N) : Canon' pre fail o.
Proof. intros bs a r H. discriminate. Qed.

Lemma Canon_byte : Canon (fun b => [b]) p_byte.
Proof. intros [|b t] a r H; inversion H; subst. reflexivity. Qed.

Lemma many_nat_canon {A} (o : A -> list N) d : Canon o d -> forall n bs l r,
  p_many_nat d n bs = Some (l, r) -> bs = out_list o l ++ r /\ length l = n.
Proof.
  intros C. induction n as [|n IH]; intros bs l r; cbn [p_many_nat].
  - intros H. inversion H; subst. split; reflexivity.
  - destruct (d bs) as [[x r1]|] eqn:E; [|discriminate].
    destruct (p_many_nat d n r1) as [[l' r2]|] eqn:E2; [|discriminate].
    intros H. inversion H; subst. apply C in E. destruct (IH _ _ _ E2) as [-> <-]. subst bs.
    unfold out_list. cbn [flat_map length]. rewrite <- app_assoc. split; reflexivity.
Qed.
Lemma many_nat_length {A} (d : dec A) : forall n bs l r, p_many_nat d n bs = Some (l, r) -> length l = n.
Proof.
  induction n as [|n IH]; intros bs l r; cbn [p_many_nat].
  - intros H. inversion H; subst. reflexivity.
  - destruct (d bs) as [[x r1]|]; [|discriminate].
    destruct (p_many_nat d n r1) as [[l' r2]|] eqn:E2; [|discriminate].
    intros H. inversion H; subst. cbn [length]. f_equal. eapply IH; eauto.
Qed.
Lemma Canon'_bind_many {A B} pre (d : dec A) o1 n (k : list A -> dec B) o :
  Canon o1 d -> (forall l, length l = N.to_nat n -> Canon' (pre ++ out_list o1 l) (k l) o) ->
  Canon' pre (bind (p_many d n) k) o.
Proof.
  intros H1 H2 bs b r H. apply bind_inv in H. destruct H as (l & r1 & E & H).
  rewrite p_many_eq_nat in E. destruct (many_nat_canon _ _ H1 _ _ _ _ E) as [-> L].
  rewrite app_assoc. exact (H2 l L r1 b r H).
Qed.

Lemma valtype_of_byte_inv b t : valtype_of_byte b = Some t -> b = valtype_byte t.
Proof.
  unfold valtype_of_byte. destruct (N.eqb_spec b 0x7F) as [->|]; [intros H; inversion H; reflexivity|].
  destruct (N.eqb_spec b 0x7E) as [->|]; [intros H; inversion H; reflexivity|discriminate].
Qed.
Lemma valtypes_of_bytes_inv : forall l ts, valtypes_of_bytes l = Some ts -> l = map valtype_byte ts.
Proof.
  induction l as [|b l IH]; intros ts; cbn [valtypes_of_bytes].
  - intros H. inversion H. reflexivity.
  - destruct (valtype_of_byte b) as [t|] eqn:E; [|discriminate].
    destruct (valtypes_of_bytes l) as [ts'|]; [|discriminate]. intros H. inversion H; subst.
    cbn [map]. rewrite (valtype_of_byte_inv _ _ E), (IH _ eq_refl). reflexivity.
Qed.

Lemma Canon_valtype : Canon out_valtype p_valtype.
Proof.
  apply Canon_of'. unfold p_valtype. eapply Canon'_bind; [apply Canon_byte|intros b].
  destruct (valtype_of_byte b) as [t|] eqn:E; [|apply Canon'_fail].
  apply Canon'_ret. cbn [app]. rewrite (valtype_of_byte_inv _ _ E). reflexivity.
Qed.
Lemma Canon_blocktype : Canon out_blocktype p_blocktype.
Proof.
  apply Canon_of'. unfold p_blocktype. eapply Canon'_bind; [apply Canon_byte|intros b].
  destruct (N.eqb_spec b 0x40) as [->|]; [apply Canon'_ret; reflexivity|].
  destruct (N.eqb_spec b 0x7F) as [->|]; [apply Canon'_ret; reflexivity|].
  destruct (N.eqb_spec b 0x7E) as [->|]; [apply Canon'_ret; reflexivity|apply Canon'_fail].
Qed.
Lemma Canon_option {A} (o : A -> list N) d : Canon o d -> Canon (out_option o) (p_option d).
Proof.
  intros C. apply Canon_of'. unfold p_option. eapply Canon'_bind; [apply Canon_byte|intros t].
  destruct (N.eqb_spec t 0) as [->|]; [apply Canon'_ret; reflexivity|].
  destruct (N.eqb_spec t 1) as [->|]; [|apply Canon'_fail].
  eapply Canon'_bind; [exact C|intros v]. apply Canon'_ret. reflexivity.
Qed.

(** one step of a [do]: find the canonicity fact of the first parser among the hints *)
Ltac can_bind := eapply Canon'_bind; [solve [eauto with candb]|intros ?].
Ltac can_ret := apply Canon'_ret; cbn [app]; rewrite <- ?app_assoc; reflexivity.

Section Canonical.
  Variables (du16 du32 : dec N) (ds32 ds64 : dec Z) (norm : list (list N * N) -> option (list (list N * N))).
  Hypothesis C16 : Canon out_u16 du16.
  Hypothesis C32 : Canon out_u32 du32.
  Hypothesis Cs32 : Canon out_i32 ds32.
  Hypothesis Cs64 : Canon out_i64 ds64.
  Hypothesis Cnorm : forall l e, norm l = Some e -> e = l.

  Lemma gC_vec {A} (o : A -> list N) d : Canon o d -> Canon (out_vec o) (g_vec du32 d).
  Proof.
    intros C bs l r H. unfold g_vec in H. apply bind_inv in H. destruct H as (n & r1 & E & H).
    apply C32 in E. subst bs. rewrite p_many_eq_nat in H.
    destruct (many_nat_canon _ _ C _ _ _ _ H) as [-> L].
    unfold out_vec. rewrite L, N2Nat.id, <- app_assoc. reflexivity.
  Qed.
  Lemma gC_bytes : Canon out_bytes (g_bytes du32).
  Proof.
    intros bs l r H. unfold g_bytes in H. apply bind_inv in H. destruct H as (n & r1 & E & H).
    apply C32 in E. subst bs. unfold p_take in H.
    destruct (N.leb_spec n (N.of_nat (length r1))); [|discriminate]. inversion H; subst; clear H.
    unfold out_bytes. rewrite firstn_length_le by lia. rewrite N2Nat.id, <- app_assoc, firstn_skipn. reflexivity.
  Qed.
  Hint Resolve C16 C32 Cs32 Cs64 gC_vec gC_bytes Canon_valtype Canon_blocktype Canon_option Canon_byte : candb.

  Lemma gC_valtypes : Canon out_valtypes (g_valtypes du32).
  Proof.
    apply Canon_of'. unfold g_valtypes. can_bind.
    destruct (valtypes_of_bytes a) as [ts|] eqn:E; [|apply Canon'_fail].
    apply Canon'_ret. cbn [app]. unfold out_valtypes. rewrite (valtypes_of_bytes_inv _ _ E). reflexivity.
  Qed.
  Lemma gC_functype : Canon out_functype (g_functype du32).
  Proof.
    apply Canon_of'. unfold g_functype. eapply Canon'_bind; [apply Canon_byte|intros b].
    destruct (N.eqb_spec b 0x60) as [->|]; [|apply Canon'_fail].
    can_bind. can_bind. destruct a0 as [|t [|? ?]]; [| |apply Canon'_fail].
    - apply Canon'_ret. cbn [app]. unfold out_functype. cbn [ft_params ft_result].
      rewrite <- ?app_assoc. reflexivity.
    - apply Canon'_ret. cbn [app]. unfold out_functype. cbn [ft_params ft_result].
      rewrite <- ?app_assoc. reflexivity.
  Qed.
  Lemma gC_name : Canon out_name (g_name du32).
  Proof.
    apply Canon_of'. unfold g_name. can_bind. destruct (name_ok a); [|apply Canon'_fail]. can_ret.
  Qed.
  Hint Resolve gC_valtypes gC_functype gC_name : candb.
  Lemma gC_import : Canon out_import (g_import du32).
  Proof. apply Canon_of'. unfold g_import. can_bind. can_bind. can_bind. can_ret. Qed.
  Lemma gC_local : Canon out_local (g_local du16).
  Proof. apply Canon_of'. unfold g_local. can_bind. can_bind. can_ret. Qed.
  Lemma gC_data : Canon out_data (g_data du32 ds32).
  Proof. apply Canon_of'. unfold g_data. can_bind. can_bind. can_ret. Qed.
  Hint Resolve gC_import gC_local gC_data : candb.
  Lemma gC_memory : Canon out_memory (g_memory du32 ds32).
  Proof. apply Canon_of'. unfold g_memory. can_bind. can_bind. can_bind. can_ret. Qed.
  Lemma gC_ginit : Canon out_ginit (g_ginit ds32 ds64).
  Proof.
    apply Canon_of'. unfold g_ginit. eapply Canon'_bind; [apply Canon_byte|intros t].
    destruct (N.eqb_spec t 0) as [->|]; [can_bind; can_ret|].
    destruct (N.eqb_spec t 1) as [->|]; [can_bind; can_ret|apply Canon'_fail].
  Qed.
  Lemma gC_export : Canon out_export (g_export du32).
  Proof. apply Canon_of'. unfold g_export. can_bind. can_bind. can_ret. Qed.
  Lemma gC_func : Canon out_func (g_func du16 du32 ds64).
  Proof. apply Canon_of'. unfold g_func. do 8 can_bind. can_ret. Qed.
  Hint Resolve gC_memory gC_ginit gC_export gC_func : candb.

  Lemma gC_artifact : Canon output_artifact (g_artifact du16 du32 ds32 ds64 norm).
  Proof.
    apply Canon_of'. unfold g_artifact. eapply Canon'_bind; [apply Canon_byte|intros v].
    destruct (N.eqb_spec v 255) as [->|]; [|apply Canon'_fail].
    can_bind. rename a into ni.
    apply Canon'_bind_many with (o1 := out_import); [exact gC_import|intros imports Hlen].
    do 5 can_bind.
    destruct (norm a3) as [e|] eqn:E; [apply Cnorm in E; subst e|apply Canon'_fail].
    can_bind. apply Canon'_ret. cbn [app]. unfold output_artifact.
    cbn [sa_imports sa_types sa_table sa_memory sa_globals sa_exports sa_code].
    rewrite Hlen, N2Nat.id. rewrite <- ?app_assoc. reflexivity.
  Qed.
End Canonical.

Lemma Canon_strict {A} (o : A -> list N) d (P : A -> Prop) :
  RT o d P -> (forall bs a r, d bs = Some (a, r) -> P a) -> Canon o (strict d o).
Proof.
  intros R B bs a r. unfold strict. destruct (d bs) as [[a' r']|] eqn:E; [|discriminate].
  destruct (prefixb (o a') bs) eqn:Pf; [|discriminate]. intros H. inversion H; subst.
  destruct (prefixb_true _ _ Pf) as [r2 ->]. rewrite (R a r2 (B _ _ _ E)) in E. inversion E. reflexivity.
Qed.
Lemma norm_strict_id l e : norm_strict l = Some e -> e = l.
Proof. unfold norm_strict. destruct (sorted_namesb l); [|discriminate]. intros H. inversion H. reflexivity. Qed.

(** the strict parser is byte-canonical (on any input, bytes or not) *)
Theorem strict_canonical_gen_thm : forall bs a rest,
  parse_artifact_strict bs = Some (a, rest) -> bs = output_artifact a ++ rest.
Proof.
  unfold parse_artifact_strict. apply gC_artifact.
  - apply (Canon_strict _ _ _ RT_u16). intros bs a r H. apply (decode_u16_bounded _ _ _ H).
  - apply (Canon_strict _ _ _ RT_u32). intros bs a r H. apply (decode_u32_bounded _ _ _ H).
  - apply (Canon_strict _ _ _ RT_i32). intros bs a r H. apply (decode_s32_bounded _ _ _ H).
  - apply (Canon_strict _ _ _ RT_i64). intros bs a r H. apply (decode_s64_range _ _ _ H).
  - exact norm_strict_id.
Qed.

Theorem strict_canonical_thm : forall bs a rest,
  bytes_ok bs -> parse_artifact_strict bs = Some (a, rest) -> bs = output_artifact a ++ rest.
Proof. intros bs a rest _. apply strict_canonical_gen_thm. Qed.

(** ** What the parser returns is well-formed *)
Definition Inv {A} (d : dec A) (Q : A -> Prop) : Prop :=
  forall bs a r, bytes_ok bs -> d bs = Some (a, r) -> Q a /\ bytes_ok r.

Lemma Inv_bind {A B} (d : dec A) Q1 (k : A -> dec B) Q :
  Inv d Q1 -> (forall a, Q1 a -> Inv (k a) Q) -> Inv (bind d k) Q.
Proof.
  intros H1 H2 bs b r Hb H. apply bind_inv in H. destruct H as (a & r1 & E & H).
  destruct (H1 _ _ _ Hb E) as [Qa Hr1]. exact (H2 a Qa r1 b r Hr1 H).
Qed.
Lemma Inv_ret {A} (x : A) (Q : A -> Prop) : Q x -> Inv (ret x) Q.
Proof. intros Qx bs a r Hb H. inversion H; subst. auto. Qed.
Lemma Inv_fail {A} (Q : A -> Prop) : Inv fail Q.
Proof. intros bs a r Hb H. discriminate. Qed.
Lemma Inv_weaken {A} (d : dec A) (Q Q' : A -> Prop) : Inv d Q -> (forall a, Q a -> Q' a) -> Inv d Q'.
Proof. intros H W bs a r Hb E. destruct (H _ _ _ Hb E). auto. Qed.
Lemma Inv_of_Sfx {A} (d : dec A) (Q : A -> Prop) :
  Sfx d -> (forall bs a r, d bs = Some (a, r) -> Q a) -> Inv d Q.
Proof.
  intros S H bs a r Hb E. split; [eauto|]. destruct (S _ _ _ E) as [pre ->].
  unfold bytes_ok in *. apply Forall_app in Hb. tauto.
Qed.
Lemma Inv_byte : Inv p_byte (fun b => b < 256).
Proof. intros [|b t] a r Hb H; inversion H; subst. inversion Hb; subst. auto. Qed.
Lemma Inv_take n : Inv (p_take n) (fun l => length l = N.to_nat n /\ bytes_ok l).
Proof.
  intros bs l r Hb. unfold p_take. destruct (N.leb_spec n (N.of_nat (length bs))) as [Hle|]; [|discriminate].
  intros E. inversion E; subst; clear E. rewrite <- (firstn_skipn (N.to_nat n) bs) in Hb.
  unfold bytes_ok in *. apply Forall_app in Hb. destruct Hb. rewrite firstn_length_le by lia. auto.
Qed.
Lemma Inv_many_nat {A} (d : dec A) Q : Inv d Q -> forall n, Inv (p_many_nat d n) (fun l => length l = n /\ Forall Q l).
Proof.
  intros H. induction n as [|n IH]; intros bs l r Hb; cbn [p_many_nat].
  - intros E. inversion E; subst. auto.
  - destruct (d bs) as [[x r1]|] eqn:E; [|discriminate].
    destruct (p_many_nat d n r1) as [[l' r2]|] eqn:E2; [|discriminate].
    intros E3. inversion E3; subst. destruct (H _ _ _ Hb E) as [Qx Hr1].
    destruct (IH _ _ _ Hr1 E2) as [[L F] Hr]. cbn [length]. auto.
Qed.
Lemma Inv_many {A} (d : dec A) Q n : Inv d Q -> Inv (p_many d n) (fun l => length l = N.to_nat n /\ Forall Q l).
Proof. intros H bs l r Hb. rewrite p_many_eq_nat. apply Inv_many_nat; auto. Qed.
Lemma Inv_option {A} (d : dec A) Q : Inv d Q -> Inv (p_option d) (wf_opt Q).
Proof.
  intros H. unfold p_option. eapply Inv_bind; [apply Inv_byte|intros t _].
  destruct (t =? 0); [apply Inv_ret; exact I|]. destruct (t =? 1); [|apply Inv_fail].
  eapply Inv_bind; [exact H|intros v Qv]. apply Inv_ret. exact Qv.
Qed.
Lemma Inv_valtype : Inv p_valtype (fun _ => True).
Proof. apply Inv_of_Sfx; [apply Sfx_valtype|auto]. Qed.
Lemma Inv_blocktype : Inv p_blocktype (fun _ => True).
Proof. apply Inv_of_Sfx; [apply Sfx_blocktype|auto]. Qed.

Ltac inv_bind :=
  eapply Inv_bind;
  [solve [eauto with invdb]|let a := fresh "a" in let H := fresh "H" in intros a H; cbv beta in H].

Section WF.
  Variables (du16 du32 : dec N) (ds32 ds64 : dec Z) (norm : list (list N * N) -> option (list (list N * N))).
  Hypothesis I16 : Inv du16 wf_u16.
  Hypothesis I32 : Inv du32 wf_u32.
  Hypothesis Is32 : Inv ds32 wf_i32.
  Hypothesis Is64 : Inv ds64 wf_i64.
  Hypothesis Inorm : forall l e, norm l = Some e ->
    length e = length l /\ (forall P : list N * N -> Prop, Forall P l -> Forall P e) /\ sorted_names e.

  Lemma gI_vec {A} (d : dec A) Q : Inv d Q -> Inv (g_vec du32 d) (fun l => wf_len l /\ Forall Q l).
  Proof.
    intros H. unfold g_vec. eapply Inv_bind; [exact I32|intros n Wn].
    eapply Inv_weaken; [apply Inv_many; exact H|]. intros l [L F]. split; [|exact F].
    unfold wf_len. rewrite L, N2Nat.id. exact Wn.
  Qed.
  Lemma gI_bytes : Inv (g_bytes du32) wf_bytes.
  Proof.
    unfold g_bytes. eapply Inv_bind; [exact I32|intros n Wn].
    eapply Inv_weaken; [apply Inv_take|]. intros l [L F]. split; [|exact F].
    unfold wf_len. rewrite L, N2Nat.id. exact Wn.
  Qed.
  Hint Resolve I16 I32 Is32 Is64 gI_vec gI_bytes Inv_byte Inv_option Inv_valtype Inv_blocktype : invdb.
  Lemma gI_valtypes : Inv (g_valtypes du32) wf_len.
  Proof.
    unfold g_valtypes. inv_bind. destruct (valtypes_of_bytes a) as [ts|] eqn:E; [|apply Inv_fail].
    apply Inv_ret. apply valtypes_of_bytes_inv in E. subst a. destruct H as [L _].
    unfold wf_len in *. rewrite map_length in L. exact L.
  Qed.
  Lemma gI_functype : Inv (g_functype du32) wf_functype.
  Proof.
    unfold g_functype. inv_bind. destruct (a =? 0x60); [|apply Inv_fail]. inv_bind. inv_bind.
    destruct a1 as [|t [|? ?]]; [| |apply Inv_fail]; apply Inv_ret; unfold wf_functype; cbn [ft_params]; tauto.
  Qed.
  Lemma gI_name : Inv (g_name du32) wf_name.
  Proof.
    unfold g_name. inv_bind. destruct (name_ok a) eqn:E; [|apply Inv_fail].
    apply Inv_ret. apply name_ok_iff. exact E.
  Qed.
  Hint Resolve gI_valtypes gI_functype gI_name : invdb.
  Lemma gI_import : Inv (g_import du32) wf_import.
  Proof.
    unfold g_import. do 3 inv_bind. apply Inv_ret. unfold wf_import. cbn [si_mod si_item si_ty]. tauto.
  Qed.
  Lemma gI_local : Inv (g_local du16) wf_local.
  Proof. unfold g_local. do 2 inv_bind. apply Inv_ret. unfold wf_local. cbn [sl_mult]. assumption. Qed.
  Lemma gI_data : Inv (g_data du32 ds32) wf_data.
  Proof. unfold g_data. do 2 inv_bind. apply Inv_ret. unfold wf_data. cbn [sd_offset sd_init]. tauto. Qed.
  Hint Resolve gI_import gI_local gI_data : invdb.
  Lemma gI_memory : Inv (g_memory du32 ds32) wf_memory.
  Proof.
    unfold g_memory. do 3 inv_bind. apply Inv_ret. unfold wf_memory. cbn [sm_init sm_max sm_data]. tauto.
  Qed.
  Lemma gI_ginit : Inv (g_ginit ds32 ds64) wf_ginit.
  Proof.
    unfold g_ginit. inv_bind. destruct (a =? 0); [inv_bind; apply Inv_ret; assumption|].
    destruct (a =? 1); [inv_bind; apply Inv_ret; assumption|apply Inv_fail].
  Qed.
  Lemma gI_export : Inv (g_export du32) wf_export.
  Proof. unfold g_export. do 2 inv_bind. apply Inv_ret. unfold wf_export. cbn [fst snd]. tauto. Qed.
  Lemma gI_func : Inv (g_func du16 du32 ds64) wf_func.
  Proof.
    unfold g_func. do 8 inv_bind. apply Inv_ret. unfold wf_func.
    cbn [sf_type_idx sf_return sf_params sf_num_locals sf_locals sf_num_registers sf_constants sf_code].
    tauto.
  Qed.
  Hint Resolve gI_memory gI_ginit gI_export gI_func : invdb.

  Lemma gI_artifact : Inv (g_artifact du16 du32 ds32 ds64 norm) wf_artifact.
  Proof.
    unfold g_artifact. inv_bind. destruct (a =? 255); [|apply Inv_fail].
    inv_bind. rename a0 into ni.
    eapply Inv_bind; [apply Inv_many; exact gI_import|intros imports [Li Fi]].
    do 5 inv_bind.
    destruct (norm a4) as [e|] eqn:E; [|apply Inv_fail].
    destruct (Inorm _ _ E) as (Le & Fe & Se). destruct H5 as [Lraw Fraw].
    inv_bind. apply Inv_ret. unfold wf_artifact.
    cbn [sa_imports sa_types sa_table sa_memory sa_globals sa_exports sa_code].
    assert (wf_u16 (N.of_nat (length imports))) by (rewrite Li, N2Nat.id; assumption).
    assert (wf_len e) by (unfold wf_len in *; rewrite Le; exact Lraw).
    pose proof (Fe _ Fraw). tauto.
  Qed.
End WF.

(** ** [normalise] returns a strictly sorted permutation-by-insertion of its argument *)
Lemma lex_lt_trans : forall a b c, lex_lt a b = true -> lex_lt b c = true -> lex_lt a c = true.
Proof.
  induction a as [|x a IH]; intros [|y b] [|z c]; cbn [lex_lt]; try discriminate; auto.
  destruct (N.ltb_spec x y), (N.ltb_spec y x), (N.ltb_spec y z), (N.ltb_spec z y),
           (N.ltb_spec x z), (N.ltb_spec z x);
    try discriminate; try lia; auto; intros; eauto.
Qed.
Lemma lex_lt_irrefl : forall a, lex_lt a a = false.
Proof. induction a as [|x a IH]; cbn [lex_lt]; [reflexivity|]. rewrite N.ltb_irrefl. exact IH. Qed.

Lemma ins_spec x : forall l l', ins x l = Some l' ->
  length l' = S (length l)
  /\ (forall P : list N * N -> Prop, P x -> Forall P l -> Forall P l')
  /\ (sorted_names l -> sorted_names l').
Proof.
  induction l as [|y l IH]; intros l'; cbn [ins].
  - intros H. inversion H; subst. cbn [length sorted_names]. repeat split; auto.
  - destruct (lex_lt (fst y) (fst x)) eqn:Lyx.
    + destruct (ins x l) as [t'|] eqn:E; [|discriminate]. intros H. inversion H; subst.
      destruct (IH _ eq_refl) as (L & F & S). cbn [length sorted_names]. split; [congruence|]. split.
      * intros P Px Fl. inversion Fl; subst. constructor; auto.
      * intros [Fy Sl]. split; [|auto]. apply F; assumption.
    + destruct (lex_lt (fst x) (fst y)) eqn:Lxy; [|discriminate]. intros H. inversion H; subst.
      cbn [length]. split; [reflexivity|]. split.
      * intros P Px Fl. constructor; assumption.
      * intros Syl. cbn [sorted_names]. split; [|exact Syl]. constructor; [exact Lxy|].
        destruct Syl as [Fy _]. eapply Forall_impl; [|exact Fy].
        intros z Hz. cbv beta in Hz. eapply lex_lt_trans; eauto.
Qed.
Lemma fold_ins_none l :
  fold_left (fun a x => match a with Some m => ins x m | None => None end) l None = None.
Proof. induction l as [|x l IH]; cbn [fold_left]; auto. Qed.
Lemma fold_ins_spec : forall l acc e,
  fold_left (fun a x => match a with Some m => ins x m | None => None end) l (Some acc) = Some e ->
  length e = (length acc + length l)%nat
  /\ (forall P : list N * N -> Prop, Forall P acc -> Forall P l -> Forall P e)
  /\ (sorted_names acc -> sorted_names e).
Proof.
  induction l as [|x l IH]; intros acc e; cbn [fold_left].
  - intros H. inversion H; subst. cbn [length]. repeat split; auto.
  - destruct (ins x acc) as [acc'|] eqn:E; [|rewrite fold_ins_none; discriminate].
    intros H. destruct (ins_spec _ _ _ E) as (L1 & F1 & S1). destruct (IH _ _ H) as (L2 & F2 & S2).
    cbn [length]. split; [lia|]. split.
    + intros P Fa Fl. inversion Fl; subst. apply F2; auto.
    + auto.
Qed.
Lemma normalise_spec l e : normalise l = Some e ->
  length e = length l /\ (forall P : list N * N -> Prop, Forall P l -> Forall P e) /\ sorted_names e.
Proof.
  unfold normalise. intros H. destruct (fold_ins_spec _ _ _ H) as (L & F & S).
  split; [exact L|]. split; [|apply S; exact I]. intros P Fl. apply F; auto.
Qed.

(** (A) *)
Theorem parse_wf_thm : forall bs a rest,
  bytes_ok bs -> parse_artifact bs = Some (a, rest) -> wf_artifact a /\ bytes_ok rest.
Proof.
  intros bs a rest. rewrite <- g_artifact_loose. apply gI_artifact.
  - apply Inv_of_Sfx; [apply Sfx_u16|]. intros b v r H. apply (decode_u16_bounded _ _ _ H).
  - apply Inv_of_Sfx; [apply Sfx_u32|]. intros b v r H. apply (decode_u32_bounded _ _ _ H).
  - apply Inv_of_Sfx; [apply Sfx_s32|]. intros b v r H. apply (decode_s32_bounded _ _ _ H).
  - apply Inv_of_Sfx; [apply Sfx_s64|]. intros b v r H. apply (decode_s64_range _ _ _ H).
  - exact normalise_spec.
Qed.

(** (B) parse-then-output is idempotent *)
Theorem parse_output_normal_form_thm : forall bs a rest,
  bytes_ok bs -> parse_artifact bs = Some (a, rest) ->
  parse_artifact (output_artifact a ++ rest) = Some (a, rest).
Proof.
  intros bs a rest Hb H. apply artifact_roundtrip_thm. apply (parse_wf_thm _ _ _ Hb H).
Qed.
Theorem reserialise_idempotent_strong_thm : forall bs a rest,
  bytes_ok bs -> parse_artifact bs = Some (a, rest) ->
  forall a' r', parse_artifact (output_artifact a) = Some (a', r') -> a' = a /\ r' = [].
Proof.
  intros bs a rest Hb H a' r' H'.
  pose proof (artifact_roundtrip_thm a [] (proj1 (parse_wf_thm _ _ _ Hb H))) as R.
  rewrite app_nil_r in R. rewrite R in H'. inversion H'. auto.
Qed.
Theorem reserialise_idempotent_thm : forall bs a rest,
  bytes_ok bs -> parse_artifact bs = Some (a, rest) ->
  forall a', parse_artifact (output_artifact a) = Some (a', []) -> output_artifact a' = output_artifact a.
Proof.
  intros bs a rest Hb H a' H'. destruct (reserialise_idempotent_strong_thm _ _ _ Hb H _ _ H') as [-> _].
  reflexivity.
Qed.
(** ... and never fails: the hypothesis of [reserialise_idempotent_thm] is always met *)
Theorem reserialise_parses_thm : forall bs a rest,
  bytes_ok bs -> parse_artifact bs = Some (a, rest) -> parse_artifact (output_artifact a) = Some (a, []).
Proof.
  intros bs a rest Hb H. rewrite <- (app_nil_r (output_artifact a)).
  apply artifact_roundtrip_thm. apply (parse_wf_thm _ _ _ Hb H).
Qed.

(** (C) the characterisation: an accepted input is its own re-serialisation exactly when the strict
    parser accepts it, i.e. when no LEB128 number is over-long and the exports are sorted *)
Theorem noncanonical_iff_not_strict_thm : forall bs a rest,
  bytes_ok bs -> parse_artifact bs = Some (a, rest) ->
  (bs = output_artifact a ++ rest <-> parse_artifact_strict bs = Some (a, rest)).
Proof.
  intros bs a rest Hb H. split.
  - intros E. rewrite E. apply strict_complete_thm. apply (parse_wf_thm _ _ _ Hb H).
  - apply strict_canonical_gen_thm.
Qed.
(** the strict parser accepts exactly the serialisations of well-formed artifacts *)
Theorem strict_accepts_iff_thm : forall bs a rest, bytes_ok bs ->
  (parse_artifact_strict bs = Some (a, rest) <-> wf_artifact a /\ bs = output_artifact a ++ rest).
Proof.
  intros bs a rest Hb. split.
  - intros H. split; [|apply strict_canonical_gen_thm; exact H].
    apply (parse_wf_thm bs a rest Hb). apply strict_sound_thm. exact H.
  - intros [W ->]. apply strict_complete_thm. exact W.
Qed.

(** ** Examples *)
(** over-long import count: accepted, not strictly *)
Example strict_rejects_overlong_ex :
  let bs := [255; 0x80; 0x00; 0; 0; 0; 0; 0; 0] in
  parse_artifact bs = Some (empty_artifact, []) /\ parse_artifact_strict bs = None
  /\ parse_artifact_strict (output_artifact empty_artifact) = Some (empty_artifact, []).
Proof. cbv zeta. repeat split; vm_compute; reflexivity. Qed.

(** two exports "b" -> 1, "a" -> 2 in descending name order: accepted, the map order is "a", "b";
    the strict parser rejects the input and accepts the re-serialisation, which has them swapped *)
Definition two_exports (l : list (list N * N)) : s_artifact :=
  {| sa_imports := []; sa_types := []; sa_table := []; sa_memory := None; sa_globals := [];
     sa_exports := l; sa_code := [] |}.
Example strict_rejects_unsorted_ex :
  let bs := [255; 0; 0; 0; 0; 0; 2; 1; 98; 1; 1; 97; 2; 0] in
  let a := two_exports [([97], 2); ([98], 1)] in
  parse_artifact bs = Some (a, []) /\ parse_artifact_strict bs = None
  /\ output_artifact a = [255; 0; 0; 0; 0; 0; 2; 1; 97; 2; 1; 98; 1; 0]
  /\ parse_artifact_strict (output_artifact a) = Some (a, []).
Proof. cbv zeta. repeat split; vm_compute; reflexivity. Qed.
(** a duplicate export name is rejected by both *)
Example duplicate_export_rejected_ex :
  parse_artifact [255; 0; 0; 0; 0; 0; 2; 1; 97; 1; 1; 97; 2; 0] = None.
Proof. vm_compute. reflexivity. Qed.
