(** * Wasm/ArtifactNormalForm — what [parse_artifact] accepts, and the exact normal form.

    [parse_artifact] ([Wasm/ArtifactCodec.v]) accepts more byte strings than [output_artifact]
    produces: LEB128 numbers may be over-long (within the byte budget) and the export list may be
    in any order (it is inserted into a [BTreeMap]).  This file shows that these are the ONLY
    two sources of non-canonicity:

    - [parse_wf_thm]: whatever the parser returns is a well-formed artifact;
    - [parse_output_normal_form_thm], [reserialise_idempotent_thm]: parse-then-output is idempotent;
    - [parse_artifact_strict]: the same parser, except that every LEB128 number must be in its
      shortest form and the export list must already be strictly sorted;
    - [strict_sound_thm], [strict_canonical_thm], [strict_complete_thm]: the strict parser accepts
      exactly the byte strings [output_artifact a ++ rest] with [a] well-formed, and
    - [noncanonical_iff_not_strict_thm]: an accepted input equals its re-serialisation exactly when
      the strict parser accepts it too.

    To state "the same parser except ..." without copying it, the parser is written once more with
    its four LEB128 readers and the export normaliser as arguments ([g_artifact]);
    [g_artifact_loose] shows that instantiating it with the readers of parse.rs gives
    [parse_artifact] back (by computation), and [parse_artifact_strict] is the instance with the
    strict readers. *)
From Coq Require Import ZArith NArith List Bool Lia Setoid.
From CB Require Import Wasm.Syntax Wasm.Leb128 Wasm.Leb128Proofs Wasm.ArtifactLeb
                       Wasm.ArtifactCodec Wasm.ArtifactCodecProofs.
Import ListNotations.
Local Open Scope N_scope.

Definition bytes_ok (bs : list N) : Prop := Forall (fun b => b < 256) bs.

(** ** The parser with its integer readers and export normaliser as arguments *)
Section Gen.
  Variables (du16 du32 : dec N) (ds32 ds64 : dec Z).
  Variable norm : list (list N * N) -> option (list (list N * N)).

  Definition g_vec {A} (d : dec A) : dec (list A) := do n <- du32; p_many d n.
  Definition g_bytes : dec (list N) := do n <- du32; p_take n.
  Definition g_valtypes : dec (list valtype) :=
    do bs <- g_bytes; match valtypes_of_bytes bs with Some ts => ret ts | None => fail end.
  Definition g_functype : dec functype :=
    do b <- p_byte;
    if b =? 0x60 then
      do ps <- g_vec p_valtype;
      do rs <- g_vec p_valtype;
      match rs with
      | [] => ret {| ft_params := ps; ft_result := None |}
      | [t] => ret {| ft_params := ps; ft_result := Some t |}
      | _ => fail
      end
    else fail.
  Definition g_name : dec (list N) := do l <- g_bytes; if name_ok l then ret l else fail.
  Definition g_import : dec s_import :=
    do m <- g_name; do i <- g_name; do t <- g_functype;
    ret {| si_mod := m; si_item := i; si_ty := t |}.
  Definition g_local : dec s_local :=
    do m <- du16; do t <- p_valtype; ret {| sl_mult := m; sl_ty := t |}.
  Definition g_data : dec s_data :=
    do o <- ds32; do i <- g_bytes; ret {| sd_offset := o; sd_init := i |}.
  Definition g_memory : dec s_memory :=
    do i <- du32; do m <- du32; do d <- g_vec g_data;
    ret {| sm_init := i; sm_max := m; sm_data := d |}.
  Definition g_ginit : dec s_ginit :=
    do t <- p_byte;
    if t =? 0 then (do z <- ds32; ret (GI32 z))
    else if t =? 1 then (do z <- ds64; ret (GI64 z)) else fail.
  Definition g_export : dec (list N * N) := do n <- g_name; do i <- du32; ret (n, i).
  Definition g_func : dec s_func :=
    do ti <- du32; do rt <- p_blocktype; do ps <- g_valtypes;
    do nl <- du32; do ls <- g_vec g_local;
    do nr <- du32; do cs <- g_vec ds64; do code <- g_bytes;
    ret {| sf_type_idx := ti; sf_return := rt; sf_params := ps; sf_num_locals := nl;
           sf_locals := ls; sf_num_registers := nr; sf_constants := cs; sf_code := code |}.
  Definition g_artifact : dec s_artifact :=
    do v <- p_byte;
    if v =? 255 then
      do ni <- du16;
      do imports <- p_many g_import ni;
      do types <- g_vec g_functype;
      do table <- g_vec (p_option du32);
      do memory <- p_option g_memory;
      do globals <- g_vec g_ginit;
      do raw <- g_vec g_export;
      match norm raw with
      | Some exports =>
          do code <- g_vec g_func;
          ret {| sa_imports := imports; sa_types := types; sa_table := table; sa_memory := memory;
                 sa_globals := globals; sa_exports := exports; sa_code := code |}
      | None => fail
      end
    else fail.
End Gen.

(** with the readers of parse.rs this is [parse_artifact], definitionally *)
Lemma g_artifact_loose :
  g_artifact decode_u16 decode_u32 decode_s32 decode_s64 normalise = parse_artifact.
Proof. reflexivity. Qed.

(** ** The strict readers *)
Fixpoint prefixb (p bs : list N) : bool :=
  match p, bs with
  | [], _ => true
  | x :: p', y :: bs' => (x =? y) && prefixb p' bs'
  | _ :: _, [] => false
  end.
(** [strict d o]: read with [d], and require the input to start with the canonical encoding [o a]
    of the value read *)
Definition strict {A} (d : dec A) (o : A -> list N) : dec A := fun bs =>
  match d bs with
  | Some (a, r) => if prefixb (o a) bs then Some (a, r) else None
  | None => None
  end.
Definition strict_u16 : dec N := strict decode_u16 out_u16.
Definition strict_u32 : dec N := strict decode_u32 out_u32.
Definition strict_s32 : dec Z := strict decode_s32 out_i32.
Definition strict_s64 : dec Z := strict decode_s64 out_i64.
(** the export list must already be in map order *)
Definition norm_strict (l : list (list N * N)) : option (list (list N * N)) :=
  if sorted_namesb l then Some l else None.

Definition parse_artifact_strict : list N -> option (s_artifact * list N) :=
  g_artifact strict_u16 strict_u32 strict_s32 strict_s64 norm_strict.

(** ** Soundness: the strict parser accepts less *)
Definition Refines {A} (ds d : dec A) : Prop := forall bs x, ds bs = Some x -> d bs = Some x.

Lemma Refines_refl {A} (d : dec A) : Refines d d.
Proof. intros bs x H. exact H. Qed.
Lemma Refines_fail_l {A} (d : dec A) : Refines fail d.
Proof. intros bs x H. discriminate. Qed.
Lemma Refines_bind {A B} (ds d : dec A) (ks k : A -> dec B) :
  Refines ds d -> (forall a, Refines (ks a) (k a)) -> Refines (bind ds ks) (bind d k).
Proof.
  intros H1 H2 bs x. unfold bind. destruct (ds bs) as [[a r]|] eqn:E; [|discriminate].
  rewrite (H1 _ _ E). apply H2.
Qed.
Lemma Refines_strict {A} (d : dec A) o : Refines (strict d o) d.
Proof.
  intros bs x. unfold strict. destruct (d bs) as [[a r]|]; [|discriminate].
  destruct (prefixb (o a) bs); [auto|discriminate].
Qed.
Lemma Refines_many_nat {A} (ds d : dec A) : Refines ds d -> forall n, Refines (p_many_nat ds n) (p_many_nat d n).
Proof.
  intros H. induction n as [|n IH]; intros bs x; cbn [p_many_nat]; [auto|].
  destruct (ds bs) as [[a r]|] eqn:E; [|discriminate]. rewrite (H _ _ E).
  destruct (p_many_nat ds n r) as [[l r']|] eqn:E2; [|discriminate]. rewrite (IH _ _ E2). auto.
Qed.
Lemma Refines_many {A} (ds d : dec A) n : Refines ds d -> Refines (p_many ds n) (p_many d n).
Proof. intros H bs x. rewrite !p_many_eq_nat. apply Refines_many_nat. exact H. Qed.
Lemma Refines_option {A} (ds d : dec A) : Refines ds d -> Refines (p_option ds) (p_option d).
Proof.
  intros H. unfold p_option. apply Refines_bind; [apply Refines_refl|]. intros t.
  destruct (t =? 0); [apply Refines_refl|]. destruct (t =? 1); [|apply Refines_refl].
  apply Refines_bind; [exact H|]. intros v. apply Refines_refl.
Qed.

Ltac ref_tac :=
  repeat first
    [ assumption | apply Refines_refl | solve [auto with refdb]
    | match goal with |- Refines (if ?c then _ else _) _ => destruct c end
    | match goal with |- Refines (match ?x with _ => _ end) _ => destruct x end
    | apply Refines_bind; [|intros ?] ].

Section Sound.
  Variables (su16 su32 : dec N) (ss32 ss64 : dec Z) (norm_s : list (list N * N) -> option (list (list N * N))).
  Variables (lu16 lu32 : dec N) (ls32 ls64 : dec Z) (norm_l : list (list N * N) -> option (list (list N * N))).
  Hypothesis H16 : Refines su16 lu16.
  Hypothesis H32 : Refines su32 lu32.
  Hypothesis Hs32 : Refines ss32 ls32.
  Hypothesis Hs64 : Refines ss64 ls64.
  Hypothesis Hnorm : forall l e, norm_s l = Some e -> norm_l l = Some e.

  Lemma gR_vec {A} (ds d : dec A) : Refines ds d -> Refines (g_vec su32 ds) (g_vec lu32 d).
  Proof. intros H. unfold g_vec. apply Refines_bind; [exact H32|]. intros n. apply Refines_many. exact H. Qed.
  Lemma gR_bytes : Refines (g_bytes su32) (g_bytes lu32).
  Proof. unfold g_bytes. ref_tac. Qed.
  Hint Resolve gR_vec gR_bytes Refines_option Refines_many : refdb.
  Lemma gR_valtypes : Refines (g_valtypes su32) (g_valtypes lu32).
  Proof. unfold g_valtypes. ref_tac. Qed.
  Lemma gR_functype : Refines (g_functype su32) (g_functype lu32).
  Proof. unfold g_functype. ref_tac. Qed.
  Lemma gR_name : Refines (g_name su32) (g_name lu32).
  Proof. unfold g_name. ref_tac. Qed.
  Hint Resolve gR_valtypes gR_functype gR_name : refdb.
  Lemma gR_import : Refines (g_import su32) (g_import lu32).
  Proof. unfold g_import. ref_tac. Qed.
  Lemma gR_local : Refines (g_local su16) (g_local lu16).
  Proof. unfold g_local. ref_tac. Qed.
  Lemma gR_data : Refines (g_data su32 ss32) (g_data lu32 ls32).
  Proof. unfold g_data. ref_tac. Qed.
  Hint Resolve gR_import gR_local gR_data : refdb.
  Lemma gR_memory : Refines (g_memory su32 ss32) (g_memory lu32 ls32).
  Proof. unfold g_memory. ref_tac. Qed.
  Lemma gR_ginit : Refines (g_ginit ss32 ss64) (g_ginit ls32 ls64).
  Proof. unfold g_ginit. ref_tac. Qed.
  Lemma gR_export : Refines (g_export su32) (g_export lu32).
  Proof. unfold g_export. ref_tac. Qed.
  Lemma gR_func : Refines (g_func su16 su32 ss64) (g_func lu16 lu32 ls64).
  Proof. unfold g_func. ref_tac. Qed.
  Hint Resolve gR_memory gR_ginit gR_export gR_func : refdb.

  Lemma gR_artifact :
    Refines (g_artifact su16 su32 ss32 ss64 norm_s) (g_artifact lu16 lu32 ls32 ls64 norm_l).
  Proof.
    unfold g_artifact.
    apply Refines_bind; [apply Refines_refl|intros v]. destruct (v =? 255); [|apply Refines_refl].
    apply Refines_bind; [exact H16|intros ni].
    apply Refines_bind; [ref_tac|intros imports].
    apply Refines_bind; [ref_tac|intros types].
    apply Refines_bind; [ref_tac|intros table].
    apply Refines_bind; [ref_tac|intros memory].
    apply Refines_bind; [ref_tac|intros globals].
    apply Refines_bind; [ref_tac|intros raw].
    destruct (norm_s raw) as [e|] eqn:E; [rewrite (Hnorm _ _ E)|apply Refines_fail_l].
    ref_tac.
  Qed.
End Sound.

Lemma norm_strict_normalise l e : norm_strict l = Some e -> normalise l = Some e.
Proof.
  unfold norm_strict. destruct (sorted_namesb l) eqn:S; [|discriminate]. intros H. inversion H; subst.
  apply normalise_sorted. apply sorted_namesb_iff. exact S.
Qed.

Theorem strict_sound_thm : forall bs x, parse_artifact_strict bs = Some x -> parse_artifact bs = Some x.
Proof.
  intros bs x. rewrite <- g_artifact_loose. unfold parse_artifact_strict.
  apply gR_artifact; try apply Refines_strict. exact norm_strict_normalise.
Qed.

(** ** Completeness: round trip for any readers that invert the canonical encoders *)
Section Complete.
  Variables (du16 du32 : dec N) (ds32 ds64 : dec Z) (norm : list (list N * N) -> option (list (list N * N))).
  Hypothesis R16 : RT out_u16 du16 wf_u16.
  Hypothesis R32 : RT out_u32 du32 wf_u32.
  Hypothesis Rs32 : RT out_i32 ds32 wf_i32.
  Hypothesis Rs64 : RT out_i64 ds64 wf_i64.
  Hypothesis Rnorm : forall l, sorted_names l -> norm l = Some l.

  Lemma gRT_vec {A} (o : A -> list N) d P : RT o d P -> RT (out_vec o) (g_vec du32 d) (fun l => wf_len l /\ Forall P l).
  Proof.
    intros R l rest [L F]. unfold g_vec, out_vec. rt R32. apply RT_many with (P := P); auto.
  Qed.
  Lemma gRT_bytes : RT out_bytes (g_bytes du32) wf_len.
  Proof.
    intros l rest L. unfold g_bytes, out_bytes. rt R32. unfold p_take.
    rewrite (proj2 (N.leb_le _ _)) by (rewrite app_length; lia).
    rewrite Nat2N.id, firstn_length_app, skipn_length_app. reflexivity.
  Qed.
  Lemma gRT_valtypes : RT out_valtypes (g_valtypes du32) wf_len.
  Proof.
    intros ts rest L. unfold g_valtypes, out_valtypes.
    rt gRT_bytes; [|unfold wf_len; rewrite map_length; exact L].
    rewrite valtypes_of_bytes_map. reflexivity.
  Qed.
  Lemma gRT_functype : RT out_functype (g_functype du32) wf_functype.
  Proof.
    intros [ps r] rest W. unfold wf_functype in W. cbn [ft_params] in W.
    unfold g_functype, out_functype. cbn [ft_params ft_result app].
    unfold bind at 1, p_byte. rewrite N.eqb_refl.
    rt (gRT_vec out_valtype p_valtype (fun _ => True) RT_valtype);
      [|split; [exact W|apply Forall_forall; auto]].
    destruct r as [t|].
    - change (out_option out_valtype (Some t) ++ rest) with (out_vec out_valtype [t] ++ rest).
      rt (gRT_vec out_valtype p_valtype (fun _ => True) RT_valtype); [reflexivity|].
      split; [reflexivity|auto].
    - change (out_option out_valtype None ++ rest) with (out_vec out_valtype (@nil valtype) ++ rest).
      rt (gRT_vec out_valtype p_valtype (fun _ => True) RT_valtype); [reflexivity|].
      split; [reflexivity|auto].
  Qed.
  Lemma gRT_name : RT out_name (g_name du32) wf_name.
  Proof.
    intros l rest W. unfold g_name, out_name. rt gRT_bytes; [|apply wf_name_len; exact W].
    rewrite (proj2 (name_ok_iff l) W). reflexivity.
  Qed.
  Lemma gRT_import : RT out_import (g_import du32) wf_import.
  Proof.
    intros [m i t] rest (Wm & Wi & Wt). cbn [si_mod si_item si_ty] in *.
    unfold g_import, out_import. cbn [si_mod si_item si_ty].
    rt gRT_name. rt gRT_name. rt gRT_functype. reflexivity.
  Qed.
  Lemma gRT_local : RT out_local (g_local du16) wf_local.
  Proof.
    intros [m t] rest W. unfold wf_local in W. cbn [sl_mult] in W.
    unfold g_local, out_local. cbn [sl_mult sl_ty].
    rt R16. cbn [app]. unfold bind. rewrite RT_valtype1. reflexivity.
  Qed.
  Lemma gRT_data : RT out_data (g_data du32 ds32) wf_data.
  Proof.
    intros [o i] rest (Wo & Wi & _). cbn [sd_offset sd_init] in *.
    unfold g_data, out_data. cbn [sd_offset sd_init].
    rt Rs32. rt gRT_bytes. reflexivity.
  Qed.
  Lemma gRT_memory : RT out_memory (g_memory du32 ds32) wf_memory.
  Proof.
    intros [i m d] rest (Wi & Wm & Wl & Wd). cbn [sm_init sm_max sm_data] in *.
    unfold g_memory, out_memory. cbn [sm_init sm_max sm_data].
    rt R32. rt R32. rt (gRT_vec _ _ _ gRT_data). reflexivity.
  Qed.
  Lemma gRT_ginit : RT out_ginit (g_ginit ds32 ds64) wf_ginit.
  Proof.
    intros [z|z] rest W; unfold g_ginit, out_ginit; cbn [app wf_ginit] in *; unfold bind at 1, p_byte.
    - change (0 =? 0) with true. cbv iota. rt Rs32. reflexivity.
    - change (1 =? 0) with false. change (1 =? 1) with true. cbv iota. rt Rs64. reflexivity.
  Qed.
  Lemma gRT_export : RT out_export (g_export du32) wf_export.
  Proof.
    intros [n i] rest (Wn & Wi). cbn [fst snd] in *.
    unfold g_export, out_export. cbn [fst snd].
    rt gRT_name. rt R32. reflexivity.
  Qed.
  Lemma gRT_func : RT out_func (g_func du16 du32 ds64) wf_func.
  Proof.
    intros [ti rt ps nl ls nr cs code] rest (W1 & W2 & W3 & W4 & W5 & W6 & W7 & _).
    cbn [sf_type_idx sf_return sf_params sf_num_locals sf_locals sf_num_registers sf_constants sf_code] in *.
    unfold g_func, out_func.
    cbn [sf_type_idx sf_return sf_params sf_num_locals sf_locals sf_num_registers sf_constants sf_code].
    rt R32. rt RT_blocktype. rt gRT_valtypes. rt R32. rt (gRT_vec _ _ _ gRT_local).
    rt R32. rt (gRT_vec _ _ _ Rs64). rt gRT_bytes. reflexivity.
  Qed.
  Lemma gRT_artifact : RT output_artifact (g_artifact du16 du32 ds32 ds64 norm) wf_artifact.
  Proof.
    intros [imports types table memory globals exports code] rest
           ((Wi1 & Wi2) & Wt & Wtab & Wmem & Wg & (We1 & We2 & We3) & Wc).
    cbn [sa_imports sa_types sa_table sa_memory sa_globals sa_exports sa_code] in *.
    unfold g_artifact, output_artifact.
    cbn [sa_imports sa_types sa_table sa_memory sa_globals sa_exports sa_code app].
    unfold bind at 1, p_byte. rewrite N.eqb_refl.
    rt R16.
    rewrite <- ?app_assoc. rewrite (bind_ok _ _ _ _ _ (RT_many _ _ _ gRT_import imports _ Wi2)). cbv beta.
    rt (gRT_vec _ _ _ gRT_functype).
    rt (gRT_vec _ _ _ (RT_option _ _ _ R32)).
    rt (RT_option _ _ _ gRT_memory).
    rt (gRT_vec _ _ _ gRT_ginit).
    rt (gRT_vec _ _ _ gRT_export).
    rewrite (Rnorm _ We3).
    rt (gRT_vec _ _ _ gRT_func). reflexivity.
  Qed.
End Complete.

Lemma prefixb_app p r : prefixb p (p ++ r) = true.
Proof. induction p as [|x p IH]; [reflexivity|]. cbn [prefixb app]. rewrite N.eqb_refl, IH. reflexivity. Qed.
Lemma prefixb_true p : forall bs, prefixb p bs = true -> exists r, bs = p ++ r.
Proof.
  induction p as [|x p IH]; intros bs H; [exists bs; reflexivity|].
  destruct bs as [|y bs]; [discriminate|]. cbn [prefixb] in H. apply andb_true_iff in H.
  destruct H as [E H]. apply N.eqb_eq in E. subst y. destruct (IH _ H) as [r ->]. exists r. reflexivity.
Qed.
Lemma RT_strict {A} (o : A -> list N) d P : RT o d P -> RT o (strict d o) P.
Proof. intros R a rest W. unfold strict. rewrite (R a rest W), prefixb_app. reflexivity. Qed.
Lemma norm_strict_sorted l : sorted_names l -> norm_strict l = Some l.
Proof. intros H. unfold norm_strict. rewrite (proj2 (sorted_namesb_iff l) H). reflexivity. Qed.

Theorem strict_complete_thm : forall a rest,
  wf_artifact a -> parse_artifact_strict (output_artifact a ++ rest) = Some (a, rest).
Proof.
  unfold parse_artifact_strict. apply gRT_artifact.
  - apply RT_strict, RT_u16.
  - apply RT_strict, RT_u32.
  - apply RT_strict, RT_i32.
  - apply RT_strict, RT_i64.
  - exact norm_strict_sorted.
Qed.
