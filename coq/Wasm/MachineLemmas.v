(** Lemmas about [Wasm/Machine.v]: decoding of immediates from the byte code, the code map
    built from a byte list, register-file updates, and the dispatch of [exec_op] on the opcode
    numbers the compiler emits for straight-line code. *)
From Coq Require Import ZArith NArith List Lia Bool FMapPositive Znumtheory.
From CB Require Import Common.IntN Wasm.Syntax Wasm.Opcodes Wasm.Sem Wasm.Compile Wasm.Machine.
Import ListNotations.
Local Open Scope Z_scope.

(** ** code_at: the byte code contains [bs] at position [pc] *)
Definition code_at (c : code_map) (pc : Z) (bs : list N) : Prop :=
  forall j, (j < length bs)%nat -> byte_at c (pc + Z.of_nat j) = Z.of_N (nth j bs 0%N).

Lemma code_at_app c pc a b :
  code_at c pc (a ++ b) <-> code_at c pc a /\ code_at c (pc + Z.of_nat (length a)) b.
Proof.
  unfold code_at. split.
  - intros H. split; intros j Hj.
    + rewrite H by (rewrite app_length; lia). rewrite app_nth1 by lia. reflexivity.
    + specialize (H (length a + j)%nat). rewrite app_length in H. specialize (H ltac:(lia)).
      rewrite app_nth2 in H by lia. replace (length a + j - length a)%nat with j in H by lia.
      rewrite <- H. f_equal. lia.
  - intros [Ha Hb] j Hj. rewrite app_length in Hj. destruct (Nat.lt_ge_cases j (length a)).
    + rewrite app_nth1 by lia. apply Ha; lia.
    + rewrite app_nth2 by lia. specialize (Hb (j - length a)%nat ltac:(lia)). rewrite <- Hb. f_equal. lia.
Qed.

Lemma code_at_cons c pc b bs : code_at c pc (b :: bs) <-> byte_at c pc = Z.of_N b /\ code_at c (pc + 1) bs.
Proof.
  change (b :: bs) with ([b] ++ bs). rewrite code_at_app. cbn [length]. split; intros [H1 H2]; split; auto.
  - specialize (H1 O ltac:(cbn; lia)). cbn in H1. rewrite Z.add_0_r in H1. exact H1.
  - intros j Hj. cbn in Hj. assert (j = O) by lia. subst. cbn. rewrite Z.add_0_r. exact H1.
Qed.

Lemma code_at_nil c pc : code_at c pc []. Proof. intros j Hj. cbn in Hj. lia. Qed.

Lemma le_bytes_length k x : length (le_bytes k x) = k.
Proof. revert x; induction k; intros; cbn; auto. Qed.

Lemma code_at_le4 c pc x : 0 <= x < 4294967296 -> code_at c pc (le_bytes 4 x) -> get_u32 c pc = x.
Proof.
  intros Hx H. cbn [le_bytes] in H.
  apply code_at_cons in H. destruct H as [B0 H]. apply code_at_cons in H. destruct H as [B1 H].
  apply code_at_cons in H. destruct H as [B2 H]. apply code_at_cons in H. destruct H as [B3 _].
  unfold get_u32. replace (pc + 1 + 1) with (pc + 2) in * by lia. replace (pc + 2 + 1) with (pc + 3) in * by lia.
  rewrite B0, B1, B2, B3. rewrite !Z2N.id by (apply Z.mod_pos_bound; lia).
  Z.div_mod_to_equations. lia.
Qed.

Lemma code_at_u32 c pc v : 0 <= v < 4294967296 -> code_at c pc (u32_bytes v) -> get_u32 c pc = v.
Proof. intros Hv H. unfold u32_bytes in H. rewrite Z.mod_small in H by lia. apply code_at_le4; auto. Qed.

Lemma code_at_i32 c pc v : -2147483648 <= v < 2147483648 -> code_at c pc (i32_bytes v) -> get_i32 c pc = v.
Proof.
  intros Hv H. unfold i32_bytes in H. unfold get_i32.
  rewrite (code_at_le4 c pc (v mod 4294967296)); auto; [|apply Z.mod_pos_bound; lia].
  unfold two32. destruct (Z_lt_le_dec v 0).
  - replace (v mod 4294967296) with (v + 4294967296).
    + destruct (Z.ltb_spec (v + 4294967296) 2147483648); lia.
    + symmetry. replace v with ((v + 4294967296) + (-1) * 4294967296) at 1 by lia.
      rewrite Z.mod_add by lia. apply Z.mod_small; lia.
  - rewrite Z.mod_small by lia. destruct (Z.ltb_spec v 2147483648); lia.
Qed.

Lemma code_at_u16 c pc v : 0 <= v < 65536 -> code_at c pc (u16_bytes v) -> get_u16 c pc = v.
Proof.
  intros Hv H. unfold u16_bytes in H. rewrite Z.mod_small in H by lia. cbn [le_bytes] in H.
  apply code_at_cons in H. destruct H as [B0 H]. apply code_at_cons in H. destruct H as [B1 _].
  unfold get_u16. rewrite B0, B1. rewrite !Z2N.id by (apply Z.mod_pos_bound; lia).
  Z.div_mod_to_equations. lia.
Qed.

Lemma i32_bytes_length v : length (i32_bytes v) = 4%nat. Proof. apply le_bytes_length. Qed.
Lemma u32_bytes_length v : length (u32_bytes v) = 4%nat. Proof. apply le_bytes_length. Qed.
Lemma u16_bytes_length v : length (u16_bytes v) = 2%nat. Proof. apply le_bytes_length. Qed.

(** ** the code map built from a byte list *)
Lemma build_code_find bs : forall k m p,
  PositiveMap.find p (build_code bs k m) =
  if (Pos.leb k p && (Zpos p <? Zpos k + Z.of_nat (length bs)))%bool
  then Some (nth (Z.to_nat (Zpos p - Zpos k)) bs 0%N)
  else PositiveMap.find p m.
Proof.
  induction bs as [|b r IH]; intros k m p; cbn [build_code length].
  - destruct (Pos.leb k p) eqn:E; cbn [andb]; [|reflexivity].
    destruct (Z.ltb_spec (Zpos p) (Zpos k + Z.of_nat 0)); [|reflexivity]. apply Pos.leb_le in E. lia.
  - rewrite IH. destruct (Pos.leb (Pos.succ k) p) eqn:E1.
    + apply Pos.leb_le in E1. assert (E2 : Pos.leb k p = true) by (apply Pos.leb_le; lia). rewrite E2. cbn [andb].
      replace (Zpos (Pos.succ k) + Z.of_nat (length r)) with (Zpos k + Z.of_nat (S (length r))) by lia.
      destruct (Z.ltb_spec (Zpos p) (Zpos k + Z.of_nat (S (length r)))).
      * f_equal. replace (Z.to_nat (Zpos p - Zpos k)) with (S (Z.to_nat (Zpos p - Zpos (Pos.succ k)))) by lia. reflexivity.
      * rewrite PositiveMap.gso by lia. reflexivity.
    + cbn [andb]. apply Pos.leb_gt in E1. destruct (Pos.leb k p) eqn:E2; cbn [andb].
      * apply Pos.leb_le in E2. assert (p = k) by lia. subst p. rewrite PositiveMap.gss.
        destruct (Z.ltb_spec (Zpos k) (Zpos k + Z.of_nat (S (length r)))); [|lia].
        rewrite Z.sub_diag. reflexivity.
      * apply Pos.leb_gt in E2. rewrite PositiveMap.gso by lia. reflexivity.
Qed.

Lemma build_code_at bs : code_at (build_code bs xH (PositiveMap.empty N)) 0 bs.
Proof.
  intros j Hj. unfold byte_at. rewrite build_code_find.
  assert (E : Z.to_pos (0 + Z.of_nat j + 1) = Pos.of_succ_nat j) by lia. rewrite E.
  assert (L : Pos.leb 1 (Pos.of_succ_nat j) = true) by (apply Pos.leb_le; lia). rewrite L. cbn [andb].
  destruct (Z.ltb_spec (Zpos (Pos.of_succ_nat j)) (1 + Z.of_nat (length bs))); [|lia].
  f_equal. f_equal. lia.
Qed.

Lemma code_at_prefix c pc a b : code_at c pc (a ++ b) -> code_at c pc a.
Proof. intros H. apply code_at_app in H. tauto. Qed.

(** ** register views *)
Lemma low32_set_short old v : low32 (set_short old v) = v mod two32.
Proof.
  unfold low32, set_short, two32. rewrite Z.add_comm, Z.mod_add by lia. apply Z.mod_mod. lia.
Qed.
Lemma as_u64_set_long old v : as_u64 (set_long old v) = v mod two64.
Proof. unfold as_u64, set_long, two64. apply Z.mod_mod. lia. Qed.
Lemma low32_range r : 0 <= low32 r < 4294967296. Proof. apply Z.mod_pos_bound. lia. Qed.
Lemma as_u64_range r : 0 <= as_u64 r < 18446744073709551616. Proof. apply Z.mod_pos_bound. lia. Qed.

(** the i32 views only depend on the low 32 bits, the i64 views on the low 64 *)
Lemma as_i32_low r : as_i32 r = as_i32 (low32 r).
Proof. unfold as_i32, low32, two32. rewrite Z.mod_mod by lia. reflexivity. Qed.
Lemma as_u32_low r : as_u32 r = low32 r. Proof. reflexivity. Qed.
Lemma as_i64_low r : as_i64 r = as_i64 (as_u64 r).
Proof. unfold as_i64, as_u64, two64. rewrite Z.mod_mod by lia. reflexivity. Qed.
Lemma low32_as_u64 r : low32 (as_u64 r) = low32 r.
Proof.
  unfold low32, as_u64, two32, two64. symmetry. apply Zmod_div_mod; try lia.
  exists 4294967296. reflexivity.
Qed.

(** ** list_set / nth *)
Lemma list_set_length l : forall i x, length (list_set l i x) = length l.
Proof. induction l; intros [|i] x; cbn; auto. Qed.
Lemma nth_list_set_same l : forall i x, (i < length l)%nat -> nth i (list_set l i x) 0 = x.
Proof. induction l; intros [|i] x H; cbn in *; try lia; auto. apply IHl. lia. Qed.
Lemma nth_list_set_other l : forall i j x, i <> j -> nth j (list_set l i x) 0 = nth j l 0.
Proof. induction l; intros [|i] [|j] x H; cbn; auto; try lia. Qed.
