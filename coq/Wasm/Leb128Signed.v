(** * Wasm/Leb128Signed — round trip of the signed LEB128 reader of [Wasm/Leb128.v]. *)
From Coq Require Import ZArith NArith List Bool Lia.
From CB Require Import Wasm.Leb128.
Import ListNotations.
Local Open Scope Z_scope.

Lemma senc_S f z : senc (S f) z =
  if (-64 <=? z) && (z <? 64) then [Z.to_N (z mod 128)]
  else (Z.to_N (z mod 128) + 128)%N :: senc f (z / 128).
Proof. reflexivity. Qed.
Lemma sread_S k b r shift acc : sread (S k) (b :: r) shift acc =
  if ((shift =? 63) && negb (b =? 0) && negb (b =? 127))%N then None
  else
    let acc' := ((acc + (b mod 128) * 2 ^ shift) mod 2 ^ 64)%N in
    if (b <? 128)%N then
      if ((shift + 7 <? 64) && (64 <=? b mod 128))%N
      then Some (Z.of_N acc' - 2 ^ Z.of_N (shift + 7), r)
      else Some (signed64 acc', r)
    else sread k r (shift + 7)%N acc'.
Proof. reflexivity. Qed.

(** facts about the low seven bits of [z] as a byte *)
Lemma byte_facts m : 0 <= m < 128 ->
  let b := Z.to_N m in
  (b mod 128 = b)%N /\ Z.of_N b = m /\ (b <? 128)%N = true /\ ((b + 128) <? 128)%N = false /\
  ((b + 128) mod 128 = b)%N /\ (b < 128)%N.
Proof.
  intros H b. assert (Hb : (b < 128)%N) by (unfold b; lia).
  repeat split.
  - apply N.mod_small; exact Hb.
  - unfold b. lia.
  - apply N.ltb_lt; exact Hb.
  - apply N.ltb_ge. lia.
  - replace (b + 128)%N with (b + 1 * 128)%N by lia. rewrite N.mod_add by lia. apply N.mod_small; exact Hb.
  - exact Hb.
Qed.

Lemma pow7 j : 2 ^ (7 * Z.of_nat (S j)) = 128 * 2 ^ (7 * Z.of_nat j).
Proof. replace (7 * Z.of_nat (S j)) with (7 + 7 * Z.of_nat j) by lia. rewrite Z.pow_add_r by lia. reflexivity. Qed.

Section Byte.
Variables (j : nat) (z : Z) (acc : N).
Notation P := (2 ^ (7 * Z.of_nat j)).
Notation sh := (7 * N.of_nat j)%N.
Hypothesis HA : (acc < 2 ^ sh)%N.
Hypothesis HV : - 2 ^ 63 <= Z.of_N acc + z * P < 2 ^ 63.

Lemma HP : 0 < P. Proof. apply Z.pow_pos_nonneg; lia. Qed.
Lemma HPN : Z.of_N (2 ^ sh) = P.
Proof. rewrite N2Z.inj_pow. f_equal. lia. Qed.
Lemma HAz : 0 <= Z.of_N acc < P.
Proof. split; [lia|]. rewrite <- HPN. lia. Qed.

Lemma low_facts : 0 <= z mod 128 < 128 /\ z = 128 * (z / 128) + z mod 128.
Proof. split; [apply Z.mod_pos_bound; lia|apply Z.div_mod; lia]. Qed.

(** shift <= 56: adding the seven new bits does not wrap *)
Lemma nowrap : (j <= 8)%nat ->
  128 * P <= 2 ^ 63 /\
  ((acc + Z.to_N (z mod 128) * 2 ^ sh) mod 2 ^ 64 = acc + Z.to_N (z mod 128) * 2 ^ sh)%N /\
  Z.of_N (acc + Z.to_N (z mod 128) * 2 ^ sh) = Z.of_N acc + (z mod 128) * P.
Proof.
  intros J8. pose proof HP. pose proof HAz. destruct low_facts as [HM _].
  destruct (byte_facts _ HM) as (_ & B2 & _).
  assert (H128 : 128 * P <= 2 ^ 63) by (rewrite <- pow7; apply Z.pow_le_mono_r; lia).
  assert (ZV : Z.of_N (acc + Z.to_N (z mod 128) * 2 ^ sh) = Z.of_N acc + (z mod 128) * P)
    by (rewrite N2Z.inj_add, N2Z.inj_mul, HPN, B2; reflexivity).
  split; [exact H128|]. split; [|exact ZV].
  apply N.mod_small. apply N2Z.inj_lt. rewrite ZV. change (Z.of_N (2 ^ 64)) with (2 * 2 ^ 63). nia.
Qed.

(** the final byte of an encoding *)
Lemma last_byte k rest : (j <= 9)%nat -> -64 <= z < 64 ->
  sread (S k) (Z.to_N (z mod 128) :: rest) sh acc = Some (Z.of_N acc + z * P, rest).
Proof.
  intros J9 HZ. pose proof HP. pose proof HAz. destruct low_facts as [HM HD].
  destruct (byte_facts _ HM) as (B1 & B2 & B3 & _ & _ & B6).
  rewrite sread_S, B1, B3.
  destruct (N.eqb_spec sh 63) as [E63|N63].
  - (* the tenth byte *)
    assert (j = 9%nat) by lia. subst j. change (2 ^ (7 * Z.of_nat 9)) with (2 ^ 63) in *.
    change (7 * N.of_nat 9)%N with 63%N in *. cbn [andb].
    assert (z = 0 \/ z = -1) as [-> | ->] by nia.
    + change (Z.to_N (0 mod 128)) with 0%N. cbn [N.eqb negb andb].
      change ((63 + 7 <? 64)%N) with false. cbn [andb].
      rewrite N.mul_0_l, N.add_0_r. unfold signed64. rewrite N.mod_mod by (intro X; discriminate X).
      rewrite (N.mod_small acc (2 ^ 64)) by (apply N.lt_trans with (2 ^ 63)%N; [exact HA|reflexivity]).
      rewrite (proj2 (N.ltb_lt acc (2 ^ 63)) HA). f_equal. f_equal. lia.
    + change (Z.to_N (-1 mod 128)) with 127%N. cbn [N.eqb negb andb Pos.eqb].
      change ((63 + 7 <? 64)%N) with false. cbn [andb].
      assert (EQ : ((acc + 127 * 2 ^ 63) mod 2 ^ 64 = acc + 2 ^ 63)%N).
      { replace (acc + 127 * 2 ^ 63)%N with (acc + 2 ^ 63 + 63 * 2 ^ 64)%N by (change (2 ^ 64)%N with (2 * 2 ^ 63)%N; lia).
        rewrite N.mod_add by (intro X; discriminate X). apply N.mod_small.
        change (2 ^ 64)%N with (2 ^ 63 + 2 ^ 63)%N. lia. }
      rewrite EQ. unfold signed64.
      rewrite (N.mod_small (acc + 2 ^ 63) (2 ^ 64)) by (change (2 ^ 64)%N with (2 ^ 63 + 2 ^ 63)%N; lia).
      rewrite (proj2 (N.ltb_ge (acc + 2 ^ 63) (2 ^ 63))) by lia.
      f_equal. f_equal. rewrite N2Z.inj_add. change (Z.of_N (2 ^ 63)) with (2 ^ 63).
      change (2 ^ 64) with (2 * 2 ^ 63). lia.
  - assert (J8 : (j <= 8)%nat) by lia. destruct (nowrap J8) as (H128 & NW & ZV).
    cbn [andb]. rewrite NW.
    assert (SL : (sh + 7 <? 64)%N = true) by (apply N.ltb_lt; lia). rewrite SL. cbn [andb].
    assert (PS : 2 ^ Z.of_N (sh + 7) = 128 * P)
      by (replace (Z.of_N (sh + 7)) with (7 * Z.of_nat (S j)) by lia; apply pow7).
    destruct (N.leb_spec 64 (Z.to_N (z mod 128))) as [SG|SG].
    + f_equal. f_equal. rewrite ZV, PS.
      assert (z < 0) by (destruct (Z.ltb_spec z 0); [assumption|exfalso; rewrite Z.mod_small in SG by lia; lia]).
      replace (z mod 128) with (z + 128) by (apply Z.mod_unique with (q := -1); lia). lia.
    + assert (0 <= z).
      { destruct (Z.leb_spec 0 z); [assumption|exfalso].
        assert (z mod 128 = z + 128) by (symmetry; apply Z.mod_unique with (q := -1); lia). lia. }
      unfold signed64. rewrite NW.
      assert (LT : (acc + Z.to_N (z mod 128) * 2 ^ sh < 2 ^ 63)%N)
        by (apply N2Z.inj_lt; rewrite ZV; change (Z.of_N (2 ^ 63)) with (2 ^ 63); rewrite Z.mod_small by lia; nia).
      rewrite (proj2 (N.ltb_lt _ _) LT). f_equal. f_equal. rewrite ZV, Z.mod_small by lia. reflexivity.
Qed.
End Byte.

Lemma sread_senc : forall k j z acc rest,
  (j + S k <= 10)%nat ->
  (acc < 2 ^ (7 * N.of_nat j))%N ->
  - 2 ^ (7 * Z.of_nat (S k) - 1) <= z < 2 ^ (7 * Z.of_nat (S k) - 1) ->
  - 2 ^ 63 <= Z.of_N acc + z * 2 ^ (7 * Z.of_nat j) < 2 ^ 63 ->
  sread (S k) (senc (S k) z ++ rest) (7 * N.of_nat j)%N acc = Some (Z.of_N acc + z * 2 ^ (7 * Z.of_nat j), rest).
Proof.
  induction k as [|k IH]; intros j z acc rest HJ HA HZ HV; rewrite senc_S;
    destruct ((-64 <=? z) && (z <? 64)) eqn:EZ.
  - apply andb_true_iff in EZ. destruct EZ as [E1 E2]. apply Z.leb_le in E1. apply Z.ltb_lt in E2.
    cbn [app]. apply last_byte; auto; lia.
  - exfalso. apply andb_false_iff in EZ. change (7 * Z.of_nat 1 - 1) with 6 in HZ. change (2 ^ 6) with 64 in HZ.
    destruct EZ as [E|E]; [apply Z.leb_gt in E|apply Z.ltb_ge in E]; lia.
  - apply andb_true_iff in EZ. destruct EZ as [E1 E2]. apply Z.leb_le in E1. apply Z.ltb_lt in E2.
    cbn [app]. apply last_byte; auto; lia.
  - assert (HZO : z < -64 \/ 64 <= z)
      by (apply andb_false_iff in EZ; destruct EZ as [E|E]; [apply Z.leb_gt in E|apply Z.ltb_ge in E]; lia).
    pose proof (HP j acc HA) as HP0. pose proof (HAz j acc HA) as HA0.
    destruct (low_facts j z acc HA) as [HM HD]. destruct (byte_facts _ HM) as (_ & B2 & _ & B4 & B5 & _).
    rewrite <- app_comm_cons, sread_S, B4, B5.
    assert (N63 : (7 * N.of_nat j)%N <> 63%N).
    { intros E63. assert (j = 9%nat) by lia. subst j. change (2 ^ (7 * Z.of_nat 9)) with (2 ^ 63) in *. nia. }
    rewrite (proj2 (N.eqb_neq _ _) N63). cbn [andb].
    assert (J8 : (j <= 8)%nat) by lia. destruct (nowrap j z acc HA HV J8) as (H128 & NW & ZV).
    rewrite NW. replace (7 * N.of_nat j + 7)%N with (7 * N.of_nat (S j))%N by lia.
    rewrite IH.
    + f_equal. f_equal. rewrite ZV, pow7. nia.
    + lia.
    + apply N2Z.inj_lt. rewrite ZV, N2Z.inj_pow.
      replace (Z.of_N (7 * N.of_nat (S j))) with (7 * Z.of_nat (S j)) by lia.
      change (Z.of_N 2) with 2. rewrite pow7. nia.
    + replace (7 * Z.of_nat (S (S k)) - 1) with (7 + (7 * Z.of_nat (S k) - 1)) in HZ by lia.
      rewrite Z.pow_add_r in HZ by lia. change (2 ^ 7) with 128 in HZ.
      assert (0 < 2 ^ (7 * Z.of_nat (S k) - 1)) by (apply Z.pow_pos_nonneg; lia).
      split; [apply Z.div_le_lower_bound; lia|apply Z.div_lt_upper_bound; lia].
    + rewrite ZV, pow7. nia.
Qed.

Theorem leb_s64_roundtrip_thm z rest : - 2 ^ 63 <= z < 2 ^ 63 -> decode_s64 (senc 10 z ++ rest) = Some (z, rest).
Proof.
  intros H. unfold decode_s64. change 0%N with (7 * N.of_nat 0)%N at 1.
  rewrite (sread_senc 9 0 z 0 rest); [f_equal; f_equal; cbn; lia|lia|reflexivity| |cbn; lia].
  assert (2 ^ 63 <= 2 ^ (7 * Z.of_nat 10 - 1)) by (apply Z.pow_le_mono_r; lia). lia.
Qed.
Theorem leb_s32_roundtrip_thm z rest : - 2 ^ 31 <= z < 2 ^ 31 -> decode_s32 (senc 5 z ++ rest) = Some (z, rest).
Proof.
  intros H. unfold decode_s32. change 0%N with (7 * N.of_nat 0)%N at 1.
  assert (2 ^ 31 <= 2 ^ 63) by (apply Z.pow_le_mono_r; lia).
  rewrite (sread_senc 4 0 z 0 rest).
  - replace (Z.of_N 0 + z * 2 ^ (7 * Z.of_nat 0)) with z by (cbn; lia).
    destruct H as [H1 H2]. rewrite (proj2 (Z.leb_le _ _) H1), (proj2 (Z.ltb_lt _ _) H2). reflexivity.
  - lia.
  - reflexivity.
  - assert (2 ^ 31 <= 2 ^ (7 * Z.of_nat 5 - 1)) by (apply Z.pow_le_mono_r; lia). lia.
  - cbn. lia.
Qed.
