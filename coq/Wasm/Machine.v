(** * Wasm/Machine — functional transcription of the register machine of
    smart-contracts/wasm-transform/src/machine.rs ([Artifact::run] / [run_config]).

    IMPLEMENTATION side.  The machine decodes the byte code produced by the compiler at
    [pc], keeps one register file for all frames ([locals_vec] with [locals_base]), and
    implements each opcode with the Rust integer operations ([Wasm/RustInt] below: signed
    [i32]/[i64] views of 64-bit [StackValue] unions).  Faithful where the Rust is wrong:
    [checked_rem] makes [rem_s(MIN,-1)] trap (finding F3).

    A register is the 64-bit pattern of the [StackValue] union as a [Z] in [0, 2^64):
    writing [.short] replaces the low 32 bits and keeps the high ones (little endian).
    Definitions only. *)
From Coq Require Import ZArith NArith List Bool FMapPositive.
From CB Require Import Common.IntN Wasm.Syntax Wasm.Opcodes Wasm.Sem Wasm.Compile.
Import ListNotations.
Local Open Scope Z_scope.

(** ** Rust integer views and operations *)
Definition two32 := 4294967296.
Definition two64 := 18446744073709551616.
Definition low32 (r : Z) : Z := r mod two32.
(** [x.short] as i32 / [x.long] as i64 (signed), as u32 / u64 (unsigned) *)
Definition as_i32 (r : Z) : Z := let u := low32 r in if u <? 2147483648 then u else u - two32.
Definition as_i64 (r : Z) : Z := let u := r mod two64 in if u <? 9223372036854775808 then u else u - two64.
Definition as_u32 (r : Z) : Z := low32 r.
Definition as_u64 (r : Z) : Z := r mod two64.
(** [target.short = v] (v any integer, stored as 32-bit pattern) and [target.long = v] *)
Definition set_short (old v : Z) : Z := (old mod two64 / two32) * two32 + v mod two32.
Definition set_long (old v : Z) : Z := v mod two64.
(** [StackValue::from(i32)]: a fresh union, only [.short] initialised (high half modelled as 0) *)
Definition from_i32 (v : Z) : Z := v mod two32.
Definition from_i64 (v : Z) : Z := v mod two64.

Inductive trap_reason :=
| TUnreachable | TMemory | TDivI32 | TDivI64 | TRemSOverflow | TCallUndefined | TCallType | THost | TBadCode.

(** i32 binary operators on signed views; [None] = the [?] error path.  [w] is 32 or 64. *)
Definition min_int (w : Z) : Z := - 2 ^ (w - 1).
Definition rs_leading_zeros (w u : Z) : Z := match u with Zpos _ => w - (Z.log2 u + 1) | _ => w end.
Fixpoint pos_tz (p : positive) : Z := match p with xO q => 1 + pos_tz q | _ => 0 end.
Definition rs_trailing_zeros (w u : Z) : Z := match u with Zpos p => pos_tz p | _ => w end.
Fixpoint pos_ones (p : positive) : Z := match p with xO q => pos_ones q | xI q => 1 + pos_ones q | xH => 1 end.
Definition rs_count_ones (u : Z) : Z := match u with Zpos p => pos_ones p | _ => 0 end.
Definition rs_rotl (w u k : Z) : Z := (Z.shiftl u k mod 2 ^ w) + Z.shiftr u (w - k).
Definition rs_rotr (w u k : Z) : Z := Z.shiftr u k + (Z.shiftl u (w - k) mod 2 ^ w).

(** result of a binary numeric opcode given the operands' signed ([x y]) and unsigned
    ([ux uy]) views; the caller stores it back with [set_short]/[set_long] *)
Definition rs_binop (w : Z) (op : binop) (x y ux uy : Z) : sum trap_reason Z :=
  let dv := if w =? 32 then TDivI32 else TDivI64 in
  match op with
  | Add => inr (x + y)                       (* wrapping_add *)
  | Sub => inr (x - y)
  | Mul => inr (x * y)
  | DivS => if y =? 0 then inl dv else if (x =? min_int w) && (y =? -1) then inl dv else inr (Z.quot x y)
  | DivU => if uy =? 0 then inl dv else inr (ux / uy)
  | RemS => if y =? 0 then inl dv else if (x =? min_int w) && (y =? -1) then inl TRemSOverflow
            else inr (Z.rem x y)             (* checked_rem: None on overflow as well *)
  | RemU => if uy =? 0 then inl dv else inr (ux mod uy)
  | And => inr (Z.land ux uy)
  | Or => inr (Z.lor ux uy)
  | Xor => inr (Z.lxor ux uy)
  | Shl => inr (Z.shiftl ux (uy mod w))      (* x << (y as u32 % 32) *)
  | ShrS => inr (Z.shiftr x (uy mod w))      (* arithmetic shift of the signed view *)
  | ShrU => inr (Z.shiftr ux (uy mod w))
  | Rotl => inr (rs_rotl w ux (uy mod w))
  | Rotr => inr (rs_rotr w ux (uy mod w))
  end.
Definition rs_relop (op : relop) (x y ux uy : Z) : Z :=
  let b := match op with
           | Eq => x =? y | Ne => negb (x =? y)
           | LtS => x <? y | LtU => ux <? uy | GtS => x >? y | GtU => ux >? uy
           | LeS => x <=? y | LeU => ux <=? uy | GeS => x >=? y | GeU => ux >=? uy
           end in
  if b then 1 else 0.

(** sign extension of a [k]-bit pattern to an integer ([x as i8 as i32] etc.) *)
Definition sext (k x : Z) : Z := let u := x mod 2 ^ k in if u <? 2 ^ (k - 1) then u else u - 2 ^ k.

(** unary numeric opcodes on a source register [s]; the result is stored with [set_short]
    (32-bit forms, and both eqz) or [set_long] (64-bit forms) *)
Definition rs_unop32 (op : unop) (s : Z) : Z :=
  match op with
  | Clz => rs_leading_zeros 32 (as_u32 s)
  | Ctz => rs_trailing_zeros 32 (as_u32 s)
  | Popcnt => rs_count_ones (as_u32 s)
  | Extend8S => sext 8 (as_i32 s)          (* x as i8 as i32 *)
  | Extend16S => sext 16 (as_i32 s)
  | Extend32S => as_i32 s                   (* no such opcode for i32 *)
  end.
Definition rs_unop64 (op : unop) (s : Z) : Z :=
  match op with
  | Clz => rs_leading_zeros 64 (as_u64 s)
  | Ctz => rs_trailing_zeros 64 (as_u64 s)
  | Popcnt => rs_count_ones (as_u64 s)
  | Extend8S => sext 8 (as_i64 s)
  | Extend16S => sext 16 (as_i64 s)
  | Extend32S => sext 32 (as_i64 s)
  end.
Definition rs_eqz32 (s : Z) : Z := if as_i32 s =? 0 then 1 else 0.
Definition rs_eqz64 (s : Z) : Z := if as_i64 s =? 0 then 1 else 0.
(** conversions: wrap stores [source.long as i32] into [.short]; the extensions store
    [source.short as i64] / [source.short as u32 as i64] into [.long] *)
Definition rs_cvt (op : cvtop) (s : Z) : Z :=
  match op with WrapI64 => as_i64 s | ExtendI32S => as_i32 s | ExtendI32U => as_u32 s end.

(** ** Artifact and machine state *)
Record artifact := {
  a_imports : list functype;                 (* f.ty() of each import *)
  a_types : list functype;
  a_table : list (option nat);
  a_memory : option (N * N * list (N * list Z));   (* init pages, max pages, data *)
  a_globals : list Z;                        (* initial registers of the globals *)
  a_code : list compiled_function
}.

Record fstate := {                            (* FunctionState *)
  fs_pc : Z; fs_idx : nat; fs_base : nat; fs_ret : option nat
}.
Record mstate := {
  ms_pc : Z;
  ms_idx : nat;                               (* instructions_idx *)
  ms_frames : list fstate;
  ms_ret : option nat;                        (* return_type: place in the caller *)
  ms_mem : option memory;
  ms_regs : list Z;                           (* locals_vec *)
  ms_base : nat;                              (* locals_base *)
  ms_globals : list Z;
  ms_energy : N                               (* sum of TickEnergy arguments seen by the host *)
}.

Inductive moutcome :=
| MDone (result : option val) (mem : option memory) (globals : list Z) (energy : N)
| MTrap (r : trap_reason)
| MOutOfFuel.

(** code access *)
Definition code_map := PositiveMap.t N.
Fixpoint build_code (bs : list N) (k : positive) (m : code_map) : code_map :=
  match bs with [] => m | b :: r => build_code r (Pos.succ k) (PositiveMap.add k b m) end.
Definition byte_at (c : code_map) (pc : Z) : Z :=
  match PositiveMap.find (Z.to_pos (pc + 1)) c with Some b => Z.of_N b | None => 0 end.
Definition get_u16 (c : code_map) (pc : Z) : Z := byte_at c pc + 256 * byte_at c (pc + 1).
Definition get_u32 (c : code_map) (pc : Z) : Z :=
  byte_at c pc + 256 * byte_at c (pc + 1) + 65536 * byte_at c (pc + 2) + 16777216 * byte_at c (pc + 3).
Definition get_i32 (c : code_map) (pc : Z) : Z :=
  let u := get_u32 c pc in if u <? 2147483648 then u else u - two32.

Fixpoint list_set (l : list Z) (i : nat) (x : Z) : list Z :=
  match l, i with
  | [], _ => []
  | _ :: r, O => x :: r
  | y :: r, S i' => y :: list_set r i' x
  end.

Section Run.
Variable art : artifact.
(** host.call for import [i]: arguments (first parameter first) -> result; [None] = error *)
Variable mhost : nat -> list Z -> option (option Z).
Variable codes : list (code_map * list Z).    (* decoded code and constants per function *)

Definition reg (st : mstate) (i : Z) : Z := nth (ms_base st + Z.to_nat i) (ms_regs st) 0.
(** get_local: non-negative = register, negative = constant number -(v+1) *)
Definition get_local (consts : list Z) (st : mstate) (v : Z) : Z :=
  if 0 <=? v then reg st v else from_i64 (nth (Z.to_nat (- (v + 1))) consts 0).
Definition set_reg (st : mstate) (i : Z) (x : Z) : mstate :=
  {| ms_pc := ms_pc st; ms_idx := ms_idx st; ms_frames := ms_frames st; ms_ret := ms_ret st;
     ms_mem := ms_mem st; ms_regs := list_set (ms_regs st) (ms_base st + Z.to_nat i) x;
     ms_base := ms_base st; ms_globals := ms_globals st; ms_energy := ms_energy st |}.
Definition set_pc (st : mstate) (pc : Z) : mstate :=
  {| ms_pc := pc; ms_idx := ms_idx st; ms_frames := ms_frames st; ms_ret := ms_ret st;
     ms_mem := ms_mem st; ms_regs := ms_regs st; ms_base := ms_base st; ms_globals := ms_globals st;
     ms_energy := ms_energy st |}.
Definition set_mmem (st : mstate) (mm : memory) : mstate :=
  {| ms_pc := ms_pc st; ms_idx := ms_idx st; ms_frames := ms_frames st; ms_ret := ms_ret st;
     ms_mem := Some mm; ms_regs := ms_regs st; ms_base := ms_base st; ms_globals := ms_globals st;
     ms_energy := ms_energy st |}.
Definition set_mglobals (st : mstate) (g : list Z) : mstate :=
  {| ms_pc := ms_pc st; ms_idx := ms_idx st; ms_frames := ms_frames st; ms_ret := ms_ret st;
     ms_mem := ms_mem st; ms_regs := ms_regs st; ms_base := ms_base st; ms_globals := g;
     ms_energy := ms_energy st |}.

Inductive step_res := SNext (st : mstate) | SDone (st : mstate) | STrap (r : trap_reason).

Definition mlen (st : mstate) : Z :=
  match ms_mem st with Some mm => Z.of_N (mem_len mm) | None => 0 end.

(** memory_load: offset, base register, result register; pos = base.short as u32 + offset *)
Definition do_load (c : code_map) (consts : list Z) (st : mstate) (pc : Z) (width : nat)
           (conv : Z -> Z) : step_res :=
  let offset := get_u32 c pc in
  let base := get_local consts st (get_i32 c (pc + 4)) in
  let result := get_i32 c (pc + 8) in
  let pos := as_u32 base + offset in
  match ms_mem st with
  | Some mm =>
      if pos + Z.of_nat width <=? mlen st then
        let raw := of_bytes (mem_read mm (Z.to_N pos) width) in
        SNext (set_pc (set_reg st result (conv raw)) (pc + 12))
      else STrap TMemory
  | None => STrap TMemory
  end.
(** memory_store: offset, value, base *)
Definition do_store (c : code_map) (consts : list Z) (st : mstate) (pc : Z) (width : nat) : step_res :=
  let offset := get_u32 c pc in
  let value := get_local consts st (get_i32 c (pc + 4)) in
  let base := get_local consts st (get_i32 c (pc + 8)) in
  let pos := as_u32 base + offset in
  match ms_mem st with
  | Some mm =>
      if pos + Z.of_nat width <=? mlen st then
        SNext (set_pc (set_mmem st (mem_write mm (Z.to_N pos) (bytes_of width value))) (pc + 12))
      else STrap TMemory
  | None => STrap TMemory
  end.

Definition unary (c : code_map) (consts : list Z) (st : mstate) (pc : Z) (f : Z -> Z -> Z) : step_res :=
  (* f source old_target = new target register *)
  let source := get_local consts st (get_i32 c pc) in
  let t := get_i32 c (pc + 4) in
  SNext (set_pc (set_reg st t (f source (reg st t))) (pc + 8)).

Definition binary (c : code_map) (consts : list Z) (st : mstate) (pc : Z)
           (f : Z -> Z -> Z -> sum trap_reason Z) : step_res :=
  (* operands are stored right first: right, left, target *)
  let right := get_local consts st (get_i32 c pc) in
  let left := get_local consts st (get_i32 c (pc + 4)) in
  let t := get_i32 c (pc + 8) in
  match f left right (reg st t) with
  | inr x => SNext (set_pc (set_reg st t x) (pc + 12))
  | inl r => STrap r
  end.

Fixpoint read_args (c : code_map) (consts : list Z) (st : mstate) (pc : Z) (n : nat) (acc : list Z)
  : list Z * Z :=
  (* locations are stored last argument first; returns arguments in declaration order *)
  match n with
  | O => (acc, pc)
  | S n' => read_args c consts st (pc + 4) n' (get_local consts st (get_i32 c pc) :: acc)
  end.

Definition enter_function (st : mstate) (pc_after : Z) (local_idx : nat) (f : compiled_function)
           (args : list Z) (new_ret : option nat) : mstate :=
  let current_size := length (ms_regs st) in
  let fresh := args ++ repeat 0 (Z.to_nat (cf_num_registers f) - length args) in
  {| ms_pc := 0; ms_idx := local_idx;
     ms_frames := {| fs_pc := pc_after; fs_idx := ms_idx st; fs_base := ms_base st; fs_ret := ms_ret st |}
                  :: ms_frames st;
     ms_ret := new_ret; ms_mem := ms_mem st; ms_regs := ms_regs st ++ fresh; ms_base := current_size;
     ms_globals := ms_globals st; ms_energy := ms_energy st |}.

Definition call_function (c : code_map) (consts : list Z) (st : mstate) (pc : Z) (fidx : nat)
           (check : functype -> nat -> bool) : step_res :=
  let ni := length (a_imports art) in
  if (fidx <? ni)%nat then
    match nth_error (a_imports art) fidx with
    | Some ft =>
        if check ft O then
          let '(args, pc1) := read_args c consts st pc (length (ft_params ft)) [] in
          match ft_result ft with
          | Some _ =>
              let loc := get_i32 c pc1 in
              match mhost fidx args with
              | Some (Some r) => SNext (set_pc (set_reg st loc r) (pc1 + 4))
              | _ => STrap THost
              end
          | None =>
              match mhost fidx args with
              | Some _ => SNext (set_pc st pc1)
              | None => STrap THost
              end
          end
        else STrap TCallType
    | None => STrap TBadCode
    end
  else
    let local_idx := (fidx - ni)%nat in
    match nth_error (a_code art) local_idx with
    | Some f =>
        if check {| ft_params := cf_params f; ft_result := cf_return f |} (S (cf_type_idx f)) then
          let '(args, pc1) := read_args c consts st pc (length (cf_params f)) [] in
          match cf_return f with
          | Some _ => SNext (enter_function st (pc1 + 4) local_idx f args (Some (Z.to_nat (get_i32 c pc1))))
          | None => SNext (enter_function st pc1 local_idx f args None)
          end
        else STrap TCallType
    | None => STrap TBadCode
    end.

(** one instruction: [op] is the opcode byte, [pc] the position just after it *)
Definition exec_op (c : code_map) (consts : list Z) (st : mstate) (pc : Z) (op : N) : step_res :=
      let gl := get_local consts st in
      let w32 (f : Z -> Z) := fun (src old : Z) => set_short old (f src) in
      let w64 (f : Z -> Z) := fun (src old : Z) => set_long old (f src) in
      let bin32 (o : binop) := binary c consts st pc (fun l r old =>
            match rs_binop 32 o (as_i32 l) (as_i32 r) (as_u32 l) (as_u32 r) with
            | inr x => inr (set_short old x) | inl e => inl e end) in
      let bin64 (o : binop) := binary c consts st pc (fun l r old =>
            match rs_binop 64 o (as_i64 l) (as_i64 r) (as_u64 l) (as_u64 r) with
            | inr x => inr (set_long old x) | inl e => inl e end) in
      let rel32 (o : relop) := binary c consts st pc (fun l r old =>
            inr (set_short old (rs_relop o (as_i32 l) (as_i32 r) (as_u32 l) (as_u32 r)))) in
      let rel64 (o : relop) := binary c consts st pc (fun l r old =>
            inr (set_short old (rs_relop o (as_i64 l) (as_i64 r) (as_u64 l) (as_u64 r)))) in
      if (op =? 0)%N then STrap TUnreachable
      else if (op =? 1)%N then                                   (* If: condition, else target *)
        let cond := gl (get_i32 c pc) in
        let tgt := get_u32 c (pc + 4) in
        SNext (set_pc st (if as_i32 cond =? 0 then tgt else pc + 8))
      else if (op =? 2)%N then SNext (set_pc st (get_u32 c pc))  (* Br *)
      else if (op =? 3)%N then                                   (* BrIf: target, condition *)
        let tgt := get_u32 c pc in
        let cond := gl (get_i32 c (pc + 4)) in
        SNext (set_pc st (if as_i32 cond =? 0 then pc + 8 else tgt))
      else if (op =? 4)%N then                                   (* BrTable *)
        let cond := gl (get_i32 c pc) in
        let n := get_u16 c (pc + 4) in
        let top := as_u32 cond in
        let p := pc + 6 + (if top <? n then (top + 1) * 4 else 0) in
        SNext (set_pc st (get_u32 c p))
      else if (op =? 5)%N then                                   (* BrTableCarry *)
        let cond := gl (get_i32 c pc) in
        let src := gl (get_i32 c (pc + 4)) in
        let n := get_u16 c (pc + 8) in
        let top := as_u32 cond in
        let p := pc + 10 + (if top <? n then (top + 1) * 8 else 0) in
        let tgt_reg := get_i32 c p in
        SNext (set_pc (set_reg st tgt_reg src) (get_u32 c (p + 4)))
      else if (op =? 100)%N then                                 (* Copy: source, target *)
        let src := gl (get_i32 c pc) in
        SNext (set_pc (set_reg st (get_i32 c (pc + 4)) src) (pc + 8))
      else if (op =? 6)%N then                                   (* Return *)
        match ms_frames st with
        | [] => SDone st
        | fr :: rest =>
            let regs1 := match ms_ret st with
                         | Some place => list_set (ms_regs st) (fs_base fr + place) (reg st 0)
                         | None => ms_regs st
                         end in
            SNext {| ms_pc := fs_pc fr; ms_idx := fs_idx fr; ms_frames := rest; ms_ret := fs_ret fr;
                     ms_mem := ms_mem st; ms_regs := firstn (ms_base st) regs1; ms_base := fs_base fr;
                     ms_globals := ms_globals st; ms_energy := ms_energy st |}
        end
      else if (op =? 8)%N then                                   (* TickEnergy *)
        SNext {| ms_pc := pc + 4; ms_idx := ms_idx st; ms_frames := ms_frames st; ms_ret := ms_ret st;
                 ms_mem := ms_mem st; ms_regs := ms_regs st; ms_base := ms_base st;
                 ms_globals := ms_globals st; ms_energy := (ms_energy st + Z.to_N (get_u32 c pc))%N |}
      else if (op =? 7)%N then                                   (* Call *)
        call_function c consts st (pc + 4) (Z.to_nat (get_u32 c pc)) (fun _ _ => true)
      else if (op =? 9)%N then                                   (* CallIndirect *)
        let ty_idx := Z.to_nat (get_u32 c pc) in
        match nth_error (a_types art) ty_idx with
        | None => STrap TBadCode
        | Some ty =>
            let idx := as_u32 (gl (get_i32 c (pc + 4))) in
            match (if idx <? Z.of_nat (length (a_table art)) then nth_error (a_table art) (Z.to_nat idx) else None) with
            | Some (Some fidx) =>
                (* imports: ty_actual == ty; defined: f.type_idx() == ty_idx || ty_actual == ty
                   (the second argument of [check] is 0 for imports, type_idx + 1 otherwise) *)
                call_function c consts st (pc + 8) fidx
                  (fun ft tag =>
                     match tag with
                     | O => functype_eqb ft ty
                     | S ti => (ti =? ty_idx)%nat
                               || match nth_error (a_types art) ti with
                                  | Some ta => functype_eqb ta ty | None => false end
                     end)
            | _ => STrap TCallUndefined
            end
        end
      else if (op =? 10)%N then                                  (* Select: top, t2, t1, target *)
        let top := gl (get_i32 c pc) in
        let t2 := gl (get_i32 c (pc + 4)) in
        let t1 := gl (get_i32 c (pc + 8)) in
        SNext (set_pc (set_reg st (get_i32 c (pc + 12)) (if as_i32 top =? 0 then t2 else t1)) (pc + 16))
      else if (op =? 11)%N then                                  (* GlobalGet: u16 idx, target *)
        let g := nth (Z.to_nat (get_u16 c pc)) (ms_globals st) 0 in
        SNext (set_pc (set_reg st (get_i32 c (pc + 2)) g) (pc + 6))
      else if (op =? 12)%N then                                  (* GlobalSet: u16 idx, source *)
        let v := gl (get_i32 c (pc + 2)) in
        SNext (set_pc (set_mglobals st (list_set (ms_globals st) (Z.to_nat (get_u16 c pc)) v)) (pc + 6))
      (* loads: StackValue::from(val as i32 / as i64) builds a fresh union *)
      else if (op =? 13)%N then do_load c consts st pc 4 (fun x => from_i32 x)
      else if (op =? 14)%N then do_load c consts st pc 8 (fun x => from_i64 x)
      else if (op =? 15)%N then do_load c consts st pc 1 (fun x => from_i32 (sext 8 x))
      else if (op =? 16)%N then do_load c consts st pc 1 (fun x => from_i32 x)
      else if (op =? 17)%N then do_load c consts st pc 2 (fun x => from_i32 (sext 16 x))
      else if (op =? 18)%N then do_load c consts st pc 2 (fun x => from_i32 x)
      else if (op =? 19)%N then do_load c consts st pc 1 (fun x => from_i64 (sext 8 x))
      else if (op =? 20)%N then do_load c consts st pc 1 (fun x => from_i64 x)
      else if (op =? 21)%N then do_load c consts st pc 2 (fun x => from_i64 (sext 16 x))
      else if (op =? 22)%N then do_load c consts st pc 2 (fun x => from_i64 x)
      else if (op =? 23)%N then do_load c consts st pc 4 (fun x => from_i64 (sext 32 x))
      else if (op =? 24)%N then do_load c consts st pc 4 (fun x => from_i64 x)
      else if (op =? 25)%N then do_store c consts st pc 4
      else if (op =? 26)%N then do_store c consts st pc 8
      else if (op =? 27)%N then do_store c consts st pc 1
      else if (op =? 28)%N then do_store c consts st pc 2
      else if (op =? 29)%N then do_store c consts st pc 1
      else if (op =? 30)%N then do_store c consts st pc 2
      else if (op =? 31)%N then do_store c consts st pc 4
      else if (op =? 32)%N then                                  (* MemorySize *)
        SNext (set_pc (set_reg st (get_i32 c pc) (from_i32 (mlen st / 65536))) (pc + 4))
      else if (op =? 33)%N then                                  (* MemoryGrow: value, target *)
        let v := gl (get_i32 c pc) in
        let t := get_i32 c (pc + 4) in
        let n := as_u32 v in
        let sz := mlen st / 65536 in
        let max_memory := match a_memory art with Some (_, mx, _) => Z.of_N mx | None => 0 end in
        if sz + n >? max_memory then SNext (set_pc (set_reg st t (set_short (reg st t) (-1))) (pc + 8))
        else
          let st1 := match ms_mem st with
                     | Some mm => if n =? 0 then st else
                                  set_mmem st {| mem_pages := Z.to_N (sz + n); mem_max := mem_max mm;
                                                 mem_data := mem_data mm |}
                     | None => st
                     end in
          SNext (set_pc (set_reg st1 t (set_short (reg st t) sz)) (pc + 8))
      else if (op =? 34)%N then unary c consts st pc (w32 rs_eqz32)
      else if ((35 <=? op) && (op <=? 44))%N then
        match nth_error relops (N.to_nat (op - 35)) with Some o => rel32 o | None => STrap TBadCode end
      else if (op =? 45)%N then unary c consts st pc (w32 rs_eqz64)
      else if ((46 <=? op) && (op <=? 55))%N then
        match nth_error relops (N.to_nat (op - 46)) with Some o => rel64 o | None => STrap TBadCode end
      else if (op =? 56)%N then unary c consts st pc (w32 (rs_unop32 Clz))
      else if (op =? 57)%N then unary c consts st pc (w32 (rs_unop32 Ctz))
      else if (op =? 58)%N then unary c consts st pc (w32 (rs_unop32 Popcnt))
      else if ((59 <=? op) && (op <=? 73))%N then
        match nth_error binops (N.to_nat (op - 59)) with Some o => bin32 o | None => STrap TBadCode end
      else if (op =? 74)%N then unary c consts st pc (w64 (rs_unop64 Clz))
      else if (op =? 75)%N then unary c consts st pc (w64 (rs_unop64 Ctz))
      else if (op =? 76)%N then unary c consts st pc (w64 (rs_unop64 Popcnt))
      else if ((77 <=? op) && (op <=? 91))%N then
        match nth_error binops (N.to_nat (op - 77)) with Some o => bin64 o | None => STrap TBadCode end
      else if (op =? 92)%N then unary c consts st pc (w32 (rs_cvt WrapI64))          (* source.long as i32 *)
      else if (op =? 93)%N then unary c consts st pc (w64 (rs_cvt ExtendI32S))          (* source.short as i64 *)
      else if (op =? 94)%N then unary c consts st pc (w64 (rs_cvt ExtendI32U))          (* as u32 as i64 *)
      else if (op =? 95)%N then unary c consts st pc (w32 (rs_unop32 Extend8S))
      else if (op =? 96)%N then unary c consts st pc (w32 (rs_unop32 Extend16S))
      else if (op =? 97)%N then unary c consts st pc (w64 (rs_unop64 Extend8S))
      else if (op =? 98)%N then unary c consts st pc (w64 (rs_unop64 Extend16S))
      else if (op =? 99)%N then unary c consts st pc (w64 (rs_unop64 Extend32S))
      else STrap TBadCode.

Definition step (st : mstate) : step_res :=
  match nth_error codes (ms_idx st) with
  | None => STrap TBadCode
  | Some (c, consts) => exec_op c consts st (ms_pc st + 1) (Z.to_N (byte_at c (ms_pc st)))
  end.

Fixpoint run_steps (fuel : nat) (st : mstate) : sum moutcome mstate :=
  match fuel with
  | O => inl MOutOfFuel
  | S f =>
      match step st with
      | SNext st' => run_steps f st'
      | SDone st' => inr st'
      | STrap r => inl (MTrap r)
      end
  end.
End Run.

Definition decode_codes (art : artifact) : list (code_map * list Z) :=
  map (fun f => (build_code (cf_code f) xH (PositiveMap.empty N), cf_constants f)) (a_code art).

(** [Artifact::run]: entry = index into [a_code]; arguments as register patterns *)
Definition mrun (art : artifact) (mhost : nat -> list Z -> option (option Z)) (fuel : nat)
           (entry : nat) (args : list val) : moutcome :=
  match nth_error (a_code art) entry with
  | None => MTrap TBadCode
  | Some f =>
      let argregs := map (fun v => match v with VI32 z => from_i32 z | VI64 z => from_i64 z end) args in
      let regs := argregs ++ repeat 0 (Z.to_nat (cf_num_registers f) - length argregs) in
      let mem0 :=
        match a_memory art with
        | Some (init, mx, data) =>
            Some (fold_left (fun mm d => mem_write mm (fst d) (snd d)) data
                            {| mem_pages := init; mem_max := Some mx; mem_data := PositiveMap.empty Z |})
        | None => None
        end in
      let st0 := {| ms_pc := 0; ms_idx := entry; ms_frames := [];
                    ms_ret := match cf_return f with Some _ => Some O | None => None end;
                    ms_mem := mem0; ms_regs := regs; ms_base := O; ms_globals := a_globals art;
                    ms_energy := 0%N |} in
      match run_steps art mhost (decode_codes art) fuel st0 with
      | inl o => o
      | inr st =>
          let r := match cf_return f, ms_ret st with
                   | Some T_i32, Some v => Some (VI32 (as_u32 (nth (ms_base st + v) (ms_regs st) 0)))
                   | Some T_i64, Some v => Some (VI64 (as_u64 (nth (ms_base st + v) (ms_regs st) 0)))
                   | _, _ => None
                   end in
          MDone r (ms_mem st) (ms_globals st) (ms_energy st)
      end
  end.

(** [Module::compile]: table, memory and globals of the artifact.  [elem_shift] is the number
    of imports the metering transformation added (it shifts the element segments). *)
Definition max_num_pages : N := 512.
Definition build_artifact (cm : cmodule) (m : module) (elem_shift : nat)
           (code : list compiled_function) : option artifact :=
  let tbl0 := match m_table m with Some n => repeat None (N.to_nat n) | None => [] end in
  match init_table tbl0 (map (fun e => (fst e, map (fun f => (f + elem_shift)%nat) (snd e))) (m_elems m)) with
  | Some tbl =>
      let imports := map (fun ti => nth ti (cm_types cm) {| ft_params := []; ft_result := None |}) (cm_imports cm) in
      Some {| a_imports := imports;
              a_types := cm_types cm;
              a_table := tbl;
              a_memory := match m_mem m with
                          | Some l => Some (l_min l,
                                            match l_max l with Some x => N.min x max_num_pages | None => max_num_pages end,
                                            m_data m)
                          | None => None
                          end;
              a_globals := map (fun g => match g_init g with VI32 z => from_i32 z | VI64 z => from_i64 z end) (m_globals m);
              a_code := code |}
  | None => None
  end.

(** The host of the C01 runs: the only import is the metering transformation's
    [account_memory : i32 -> i32], implemented as the identity. *)
Definition metering_host (i : nat) (args : list Z) : option (option Z) :=
  match i, args with O, [x] => Some (Some x) | _, _ => None end.
