(** * Wasm/ArtifactLeb — (C13; formerly Leb128Signed.v) round trip of the canonical signed LEB128 encoding [senc]
    (= [leb128::write::signed], crate leb128 0.2.5) through the reader [sread] of [Wasm/Leb128.v]. *)
From Coq Require Import ZArith NArith List Bool Lia.
From CB Require Import Wasm.Leb128 Wasm.Leb128Proofs.
Import ListNotations.

(** ** signed *)
Local Open Scope Z_scope.

Lemma signed64_congr (x : N) (t : Z) :
  - 2 ^ 63 <= t < 2 ^ 63 -> Z.of_N x mod 2 ^ 64 = t mod 2 ^ 64 -> signed64 x = t.
Proof.
  intros R E. unfold signed64.
  assert (Y : Z.of_N (x mod 2 ^ 64) = t mod 2 ^ 64).
  { rewrite N2Z.inj_mod. rewrite <- E. reflexivity. }
  assert (B : 0 <= Z.of_N (x mod 2 ^ 64) < 2 ^ 64).
  { rewrite Y. apply Z.mod_pos_bound. reflexivity. }
  change (2 ^ 64) with 18446744073709551616 in *.
  change (2 ^ 63) with 9223372036854775808 in *.
  change (2 ^ 64)%N with 18446744073709551616%N in *.
  change (2 ^ 63)%N with 9223372036854775808%N in *.
  destruct (Z.ltb_spec t 0) as [Neg|Pos].
  - assert (M : t mod 18446744073709551616 = t + 18446744073709551616).
    { rewrite <- (Z.mod_add t 1) by lia. apply Z.mod_small. lia. }
    destruct (N.ltb_spec (x mod 18446744073709551616) 9223372036854775808); lia.
  - assert (M : t mod 18446744073709551616 = t) by (apply Z.mod_small; lia).
    destruct (N.ltb_spec (x mod 18446744073709551616) 9223372036854775808); lia.
Qed.

Lemma senc_S f z : senc (S f) z =
  if (-64 <=? z) && (z <? 64) then [Z.to_N (z mod 128)]
  else (Z.to_N (z mod 128) + 128)%N :: senc f (z / 128).
Proof. reflexivity. Qed.
Lemma sread_S k b r shift acc : sread (S k) (b :: r) shift acc =
  if ((shift =? 63) && negb (b =? 0) && negb (b =? 127))%N then None
  else if (b <? 128)%N then
         if ((shift + 7 <? 64) && (64 <=? b mod 128))%N
         then Some (Z.of_N ((acc + (b mod 128) * 2 ^ shift) mod 2 ^ 64) - 2 ^ Z.of_N (shift + 7), r)
         else Some (signed64 ((acc + (b mod 128) * 2 ^ shift) mod 2 ^ 64), r)
       else sread k r (shift + 7) ((acc + (b mod 128) * 2 ^ shift) mod 2 ^ 64).
Proof. reflexivity. Qed.

Ltac leb_setup z shift :=
  pose proof (Z.div_mod z 128 ltac:(lia)) as DM;
  pose proof (Z.mod_pos_bound z 128 ltac:(lia)) as MB;
  set (q := z / 128) in *; set (b := z mod 128) in *;
  assert (HP : Z.of_N (2 ^ shift) = 2 ^ Z.of_N shift) by apply N2Z.inj_pow;
  assert (HP7 : 2 ^ Z.of_N (shift + 7) = 128 * 2 ^ Z.of_N shift)
    by (rewrite N2Z.inj_add, Z.pow_add_r by lia; change (2 ^ Z.of_N 7) with 128; ring);
  assert (HP7n : (2 ^ (shift + 7) = 128 * 2 ^ shift)%N)
    by (rewrite N.pow_add_r; change (2 ^ 7)%N with 128%N; ring);
  assert (Ppos : 0 < 2 ^ Z.of_N shift) by (apply Z.pow_pos_nonneg; lia);
  assert (Hb : Z.of_N (Z.to_N b) = b) by (apply Z2N.id; lia);
  assert (Hbm : (Z.to_N b mod 128 = Z.to_N b)%N) by (apply N.mod_small; lia);
  assert (P63 : shift = 63%N -> 2 ^ Z.of_N shift = 2 ^ 63) by (intros ->; reflexivity).

(** last byte: the remaining value fits in 7 bits signed *)
Lemma sread_last k z rest shift acc :
  -64 <= z < 64 -> (acc < 2 ^ shift)%N -> (shift <= 63)%N ->
  - 2 ^ 63 <= Z.of_N acc + z * 2 ^ Z.of_N shift < 2 ^ 63 ->
  sread (S k) (Z.to_N (z mod 128) :: rest) shift acc = Some (Z.of_N acc + z * 2 ^ Z.of_N shift, rest).
Proof.
  intros Hz Hacc Hsh Htot. leb_setup z shift.
  rewrite sread_S, Hbm.
  assert (G : ((shift =? 63) && negb (Z.to_N b =? 0) && negb (Z.to_N b =? 127))%N = false).
  { destruct (N.eqb_spec shift 63) as [E|]; [|reflexivity]. cbn [andb].
    specialize (P63 E). rewrite P63 in *. change (2 ^ 63) with 9223372036854775808 in *.
    assert (Hacc' : Z.of_N acc < 9223372036854775808) by (subst shift; change (2 ^ 63)%N with 9223372036854775808%N in Hacc; lia).
    assert (z = 0 \/ z = -1) as [Z0|Z1] by lia.
    - assert (b = 0) by (unfold b; rewrite Z0; reflexivity).
      destruct (N.eqb_spec (Z.to_N b) 0); [reflexivity|lia].
    - assert (b = 127) by (unfold b; rewrite Z1; reflexivity).
      destruct (N.eqb_spec (Z.to_N b) 0); [reflexivity|]. destruct (N.eqb_spec (Z.to_N b) 127); [reflexivity|lia]. }
  rewrite G. rewrite (proj2 (N.ltb_lt (Z.to_N b) 128)) by lia.
  assert (HX : Z.of_N (acc + Z.to_N b * 2 ^ shift) = Z.of_N acc + b * 2 ^ Z.of_N shift)
    by (rewrite N2Z.inj_add, N2Z.inj_mul, HP, Hb; reflexivity).
  destruct (N.ltb_spec (shift + 7) 64) as [S7|S7]; cbn [andb].
  - assert (Hsmall : (acc + Z.to_N b * 2 ^ shift < 2 ^ 64)%N).
    { assert (2 ^ (shift + 7) <= 2 ^ 63)%N by (apply N.pow_le_mono_r; lia).
      change (2 ^ 64)%N with (2 * 2 ^ 63)%N. nia. }
    rewrite (N.mod_small _ _ Hsmall).
    destruct (N.leb_spec 64 (Z.to_N b)) as [B64|B64].
    + f_equal. f_equal. rewrite HX, HP7. assert (b = z + 128) by lia. nia.
    + f_equal. f_equal. apply signed64_congr; [exact Htot|]. rewrite HX.
      assert (b = z) by lia. congruence.
  - f_equal. f_equal. apply signed64_congr; [exact Htot|].
    rewrite N2Z.inj_mod. change (Z.of_N (2 ^ 64)) with (2 ^ 64). rewrite Z.mod_mod by discriminate.
    rewrite HX.
    assert (C : exists c, 128 * 2 ^ Z.of_N shift = c * 2 ^ 64).
    { exists (2 ^ (Z.of_N shift + 7 - 64)). rewrite <- Z.pow_add_r by lia. rewrite <- HP7. f_equal; lia. }
    destruct C as [c Hc].
    replace (Z.of_N acc + z * 2 ^ Z.of_N shift) with (Z.of_N acc + b * 2 ^ Z.of_N shift + (q * c) * 2 ^ 64).
    + rewrite Z.mod_add by discriminate. reflexivity.
    + rewrite <- Z.mul_assoc, <- Hc. rewrite DM. ring.
Qed.

(** generic invariant: [acc] holds the bits already read (below [2^shift]), [z] is the value still to
    be written; the total [acc + z * 2^shift] fits in 64 bits signed. *)
Lemma sread_senc : forall k z rest shift acc,
  - 2 ^ (7 * Z.of_nat (S k) - 1) <= z < 2 ^ (7 * Z.of_nat (S k) - 1) ->
  (acc < 2 ^ shift)%N -> (shift <= 63)%N ->
  - 2 ^ 63 <= Z.of_N acc + z * 2 ^ Z.of_N shift < 2 ^ 63 ->
  sread (S k) (senc (S k) z ++ rest) shift acc = Some (Z.of_N acc + z * 2 ^ Z.of_N shift, rest).
Proof.
  induction k as [|k IH]; intros z rest shift acc Hz Hacc Hsh Htot; rewrite senc_S.
  - change (2 ^ (7 * Z.of_nat 1 - 1)) with 64 in Hz.
    rewrite (proj2 (Z.leb_le (-64) z)), (proj2 (Z.ltb_lt z 64)) by lia. cbn [andb app].
    apply sread_last; auto.
  - destruct ((-64 <=? z) && (z <? 64)) eqn:T.
    + apply andb_true_iff in T. destruct T as [T1 T2]. apply Z.leb_le in T1. apply Z.ltb_lt in T2.
      cbn [app]. apply sread_last; auto.
    + assert (Hout : z < -64 \/ 64 <= z).
      { apply andb_false_iff in T. destruct T as [T|T]; [apply Z.leb_gt in T|apply Z.ltb_ge in T]; lia. }
      leb_setup z shift. rewrite <- app_comm_cons, sread_S.
      assert (HaccZ : Z.of_N acc < 2 ^ Z.of_N shift) by (rewrite <- HP; lia).
      set (B := (Z.to_N b + 128)%N).
      assert (HBm : (B mod 128 = Z.to_N b)%N).
      { unfold B. replace (Z.to_N b + 128)%N with (Z.to_N b + 1 * 128)%N by lia.
        rewrite N.mod_add by lia. exact Hbm. }
      assert (HBl : (B <? 128)%N = false) by (apply N.ltb_ge; unfold B; lia).
      assert (Hsh' : (shift + 7 <= 63)%N).
      { destruct (N.le_gt_cases (shift + 7) 63); auto. exfalso.
        assert (2 ^ 57 <= 2 ^ Z.of_N shift) by (apply Z.pow_le_mono_r; lia).
        change (2 ^ 63) with (64 * 2 ^ 57) in Htot. nia. }
      assert (G : ((shift =? 63) && negb (B =? 0) && negb (B =? 127))%N = false)
        by (destruct (N.eqb_spec shift 63); [lia|reflexivity]).
      rewrite G, HBl, HBm.
      assert (HX : Z.of_N (acc + Z.to_N b * 2 ^ shift) = Z.of_N acc + b * 2 ^ Z.of_N shift)
        by (rewrite N2Z.inj_add, N2Z.inj_mul, HP, Hb; reflexivity).
      assert (Hsmall : (acc + Z.to_N b * 2 ^ shift < 2 ^ (shift + 7))%N) by (rewrite HP7n; nia).
      assert (Hsmall' : (acc + Z.to_N b * 2 ^ shift < 2 ^ 64)%N).
      { assert (2 ^ (shift + 7) <= 2 ^ 63)%N by (apply N.pow_le_mono_r; lia).
        change (2 ^ 64)%N with (2 * 2 ^ 63)%N. lia. }
      rewrite (N.mod_small _ _ Hsmall').
      assert (Etot : Z.of_N (acc + Z.to_N b * 2 ^ shift) + q * 2 ^ Z.of_N (shift + 7)
                     = Z.of_N acc + z * 2 ^ Z.of_N shift) by (rewrite HX, HP7, DM; ring).
      rewrite IH.
      * rewrite Etot. reflexivity.
      * replace (7 * Z.of_nat (S (S k)) - 1) with ((7 * Z.of_nat (S k) - 1) + 7) in Hz by lia.
        rewrite Z.pow_add_r in Hz by lia. change (2 ^ 7) with 128 in Hz.
        set (M := 2 ^ (7 * Z.of_nat (S k) - 1)) in *. lia.
      * exact Hsmall.
      * exact Hsh'.
      * rewrite Etot. exact Htot.
Qed.

Theorem leb_s32_roundtrip_thm z rest : - 2 ^ 31 <= z < 2 ^ 31 -> decode_s32 (senc 5 z ++ rest) = Some (z, rest).
Proof.
  intros [H1 H2].
  pose proof (proj2 (Z.leb_le _ _) H1) as B1. pose proof (proj2 (Z.ltb_lt _ _) H2) as B2.
  unfold decode_s32. change 5%nat with (S 4).
  rewrite sread_senc.
  - change (Z.of_N 0) with 0. rewrite Z.pow_0_r, Z.mul_1_r, Z.add_0_l. rewrite B1, B2. reflexivity.
  - change (2 ^ 31) with 2147483648 in *. change (2 ^ (7 * Z.of_nat 5 - 1)) with 17179869184. lia.
  - reflexivity.
  - discriminate.
  - change (Z.of_N 0) with 0. rewrite Z.pow_0_r, Z.mul_1_r, Z.add_0_l.
    change (2 ^ 31) with 2147483648 in *. change (2 ^ 63) with 9223372036854775808. lia.
Qed.

Theorem leb_s64_roundtrip_thm z rest : - 2 ^ 63 <= z < 2 ^ 63 -> decode_s64 (senc 10 z ++ rest) = Some (z, rest).
Proof.
  intros H. unfold decode_s64. change 10%nat with (S 9).
  rewrite sread_senc.
  - change (Z.of_N 0) with 0. rewrite Z.pow_0_r, Z.mul_1_r, Z.add_0_l. reflexivity.
  - change (2 ^ 63) with 9223372036854775808 in H.
    change (2 ^ (7 * Z.of_nat 10 - 1)) with 590295810358705651712. lia.
  - reflexivity.
  - discriminate.
  - change (Z.of_N 0) with 0. rewrite Z.pow_0_r, Z.mul_1_r, Z.add_0_l. exact H.
Qed.

(** ** the signed reader returns a 64-bit value *)
Lemma signed64_range x : - 2 ^ 63 <= signed64 x < 2 ^ 63.
Proof.
  unfold signed64. pose proof (N.mod_lt x (2 ^ 64) ltac:(discriminate)) as B.
  set (y := (x mod 2 ^ 64)%N) in *. clearbody y.
  change (2 ^ 64)%N with 18446744073709551616%N in *. change (2 ^ 63)%N with 9223372036854775808%N.
  change (2 ^ 64) with 18446744073709551616. change (2 ^ 63) with 9223372036854775808.
  destruct (N.ltb_spec y 9223372036854775808); cbv iota; lia.
Qed.
Lemma sread_range : forall maxb bs shift acc v r,
  (acc < 2 ^ shift)%N -> sread maxb bs shift acc = Some (v, r) -> - 2 ^ 63 <= v < 2 ^ 63.
Proof.
  induction maxb as [|k IH]; intros bs shift acc v r Hacc; [discriminate|].
  destruct bs as [|b t]; [discriminate|]. rewrite sread_S.
  destruct ((shift =? 63) && negb (b =? 0) && negb (b =? 127))%N; [discriminate|].
  set (X := (acc + (b mod 128) * 2 ^ shift)%N).
  assert (HX : (X < 2 ^ (shift + 7))%N).
  { rewrite N.pow_add_r. change (2 ^ 7)%N with 128%N.
    pose proof (N.mod_lt b 128 ltac:(discriminate)). unfold X. nia. }
  assert (HXm : (X mod 2 ^ 64 <= X)%N) by (apply N.mod_le; discriminate).
  destruct (b <? 128)%N.
  - destruct ((shift + 7 <? 64) && (64 <=? b mod 128))%N eqn:C; intros H; inversion H; subst; clear H.
    + apply andb_true_iff in C. destruct C as [C1 _]. apply N.ltb_lt in C1.
      assert (E : Z.of_N (2 ^ (shift + 7)) = 2 ^ Z.of_N (shift + 7)) by apply N2Z.inj_pow.
      assert (Z.of_N (X mod 2 ^ 64) < 2 ^ Z.of_N (shift + 7)) by (rewrite <- E; lia).
      assert (2 ^ Z.of_N (shift + 7) <= 2 ^ 63) by (apply Z.pow_le_mono_r; lia).
      assert (0 < 2 ^ Z.of_N (shift + 7)) by (apply Z.pow_pos_nonneg; lia).
      pose proof (N2Z.is_nonneg (X mod 2 ^ 64)).
      lia.
    + apply signed64_range.
  - apply IH. lia.
Qed.
Theorem decode_s64_range bs v r : decode_s64 bs = Some (v, r) -> - 2 ^ 63 <= v < 2 ^ 63.
Proof. unfold decode_s64. apply sread_range. reflexivity. Qed.
