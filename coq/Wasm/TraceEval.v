(** * Wasm/TraceEval — fuel-free ("for all sufficiently large fuel") evaluation judgements for the
    instrumented interpreter [SemTrace], with the composition rules of a big-step semantics.
    [ES is s l st T r]: there is a fuel bound from which on [texec_seq] returns exactly [(T, r)].
    The judgements are upward closed by definition, so composing them needs no monotonicity lemma. *)
From Coq Require Import ZArith NArith List Bool Lia.
From CB Require Import Common.IntN Wasm.Syntax Wasm.Sem Wasm.CostCtx Wasm.Meter Wasm.SemTrace Wasm.SemTraceProofs.
Import ListNotations.
Local Open Scope Z_scope.

Section Eval.
Variable host : nat -> list val -> option memory -> host_result.
Variable cap : N.
Variable m : module.
Variable afs : list afunc.

Notation tseq := (texec_seq host cap m afs).
Notation tinstr := (texec_instr host cap m afs).
Notation tinv := (tinvoke host cap m afs).

Definition ES (is : list ainstr) (s : store) (l st : list val) (T : list event) (r : res) : Prop :=
  exists f0, forall f, (f0 <= f)%nat -> tseq f s l st is = (T, r).
Definition EI (i : ainstr) (s : store) (l st : list val) (T : list event) (r : res) : Prop :=
  exists f0, forall f, (f0 <= f)%nat -> tinstr f s l st i = (T, r).
Definition EV (s : store) (fi : nat) (args : list val) (T : list event) (r : sum res (store * option val)) : Prop :=
  exists f0, forall f, (f0 <= f)%nat -> tinv f s fi args = (T, r).

Definition is_normal (r : res) : bool := match r with RNormal _ _ _ => true | _ => false end.

Ltac big f0 f Hf := destruct f as [|f]; [exfalso; lia|]; assert (f0 <= f)%nat by lia.

Lemma ES_nil s l st : ES [] s l st [] (RNormal s l st).
Proof. exists 1%nat. intros f Hf. destruct f; [lia|]. reflexivity. Qed.

Lemma ES_cons_normal i rest s l st T1 s1 l1 st1 T2 r :
  EI i s l st T1 (RNormal s1 l1 st1) -> ES rest s1 l1 st1 T2 r -> ES (i :: rest) s l st (T1 ++ T2) r.
Proof.
  intros [f1 H1] [f2 H2]. exists (S (Nat.max f1 f2)). intros f Hf. destruct f as [|f]; [lia|].
  rewrite tseq_S. cbn [seq_body]. rewrite H1 by lia. rewrite H2 by lia. reflexivity.
Qed.

Lemma ES_cons_stop i rest s l st T r :
  EI i s l st T r -> is_normal r = false -> ES (i :: rest) s l st T r.
Proof.
  intros [f1 H1] Hn. exists (S f1). intros f Hf. destruct f as [|f]; [lia|].
  rewrite tseq_S. cbn [seq_body]. rewrite H1 by lia. destruct r; try reflexivity. discriminate.
Qed.

(** result of a block / of a loop that is left *)
Definition blk_res (bt : blocktype) (stack : list val) (r : res) : res :=
  match r with
  | RNormal s' l' vs => RNormal s' l' (firstn (arity bt) vs ++ stack)
  | RBr O s' l' vs => RNormal s' l' (firstn (arity bt) vs ++ stack)
  | RBr (S k) s' l' vs => RBr k s' l' vs
  | r => r
  end.

Lemma EI_block o bt body s l st T r :
  ES body s l [] T r -> EI (ABlock o bt body) s l st (ev_work o ++ T) (blk_res bt st r).
Proof.
  intros [f1 H1]. exists (S f1). intros f Hf. destruct f as [|f]; [lia|].
  rewrite tinstr_S. cbn [instr_body]. rewrite H1 by lia. reflexivity.
Qed.

Definition is_br0 (r : res) : bool := match r with RBr O _ _ _ => true | _ => false end.

Lemma EI_loop_exit o bt body s l st T r :
  ES body s l [] T r -> is_br0 r = false -> EI (ALoop o bt body) s l st (ev_work o ++ T) (blk_res bt st r).
Proof.
  intros [f1 H1] Hn. exists (S f1). intros f Hf. destruct f as [|f]; [lia|].
  rewrite tinstr_S. cbn [instr_body]. rewrite H1 by lia.
  destruct r as [| [|k] | | | |]; try reflexivity. discriminate.
Qed.

Lemma EI_loop_again o bt body s l st T s' l' vs T2 r2 :
  ES body s l [] T (RBr O s' l' vs) -> EI (ALoop OInj bt body) s' l' st T2 r2 ->
  EI (ALoop o bt body) s l st (ev_work o ++ T ++ T2) r2.
Proof.
  intros [f1 H1] [f2 H2]. exists (S (Nat.max f1 f2)). intros f Hf. destruct f as [|f]; [lia|].
  rewrite tinstr_S. cbn [instr_body]. rewrite H1 by lia. rewrite H2 by lia. reflexivity.
Qed.

Lemma EI_if o bt thn els s l c st T r :
  EI (ABlock OInj bt (if c =? 0 then els else thn)) s l st T r ->
  EI (AIf o bt thn els) s l (VI32 c :: st) (ev_work o ++ T) r.
Proof.
  intros [f1 H1]. exists (S f1). intros f Hf. destruct f as [|f]; [lia|].
  rewrite tinstr_S. cbn [instr_body]. rewrite H1 by lia. reflexivity.
Qed.

(** calls: the result of [call_body] from the result of the invocation *)
Definition call_res (l st : list val) (r : sum res (store * option val)) : res :=
  match r with
  | inr (s', rv) => RNormal s' l (match rv with Some v => v :: st | None => st end)
  | inl r0 => r0
  end.

Lemma call_body_eval f o s l fi args st T r :
  tinv f s fi args = (T, r) ->
  call_body m (tinv f) o s l fi args st = (ev_work o ++ ev_call m fi ++ T, call_res l st r).
Proof. intro H. unfold call_body. rewrite H. destruct r as [r0|[s' rv]]; reflexivity. Qed.

Lemma EI_call o fi s l stack ft args st T r :
  afunc_type m afs fi = Some ft -> take_args (length (ft_params ft)) stack [] = Some (args, st) ->
  EV s fi args T r ->
  EI (ABasic o (BCall fi)) s l stack (ev_work o ++ ev_call m fi ++ T) (call_res l st r).
Proof.
  intros Hft Hta [f1 H1]. exists (S f1). intros f Hf. destruct f as [|f]; [lia|].
  rewrite tinstr_S. cbn [instr_body]. rewrite Hft, Hta. apply call_body_eval. apply H1; lia.
Qed.

Lemma EI_call_indirect o ti s l c st0 ft fi ft' args st T r :
  nth_opt (m_types m) ti = Some ft ->
  (if c <? Z.of_nat (length (s_table s)) then nth_opt (s_table s) (Z.to_nat c) else None) = Some (Some fi) ->
  afunc_type m afs fi = Some ft' -> functype_eqb ft ft' = true ->
  take_args (length (ft_params ft)) st0 [] = Some (args, st) ->
  EV s fi args T r ->
  EI (ABasic o (BCallIndirect ti)) s l (VI32 c :: st0) (ev_work o ++ ev_call m fi ++ T) (call_res l st r).
Proof.
  intros Hty Htab Hft Heq Hta [f1 H1]. exists (S f1). intros f Hf. destruct f as [|f]; [lia|].
  rewrite tinstr_S. cbn [instr_body]. rewrite Hty, Htab, Hft, Heq, Hta. apply call_body_eval. apply H1; lia.
Qed.

(** invocation *)
Definition inv_res (ft : functype) (r : res) : list event * sum res (store * option val) :=
  match r with
  | RNormal s' _ vs => fin_result ft s' vs
  | RBr O s' _ vs => fin_result ft s' vs
  | RReturn s' vs => fin_result ft s' vs
  | RBr (S _) _ _ _ => ([], inl RStuck)
  | r => ([], inl r)
  end.

Lemma EV_local s fi args fn ft T r :
  (fi <? length (m_imports m))%nat = false ->
  nth_opt afs (fi - length (m_imports m)) = Some fn -> nth_opt (m_types m) (af_type fn) = Some ft ->
  ES (af_body fn) s (args ++ map zero_of (af_locals fn)) [] T r ->
  EV s fi args (EvWork (af_entry fn) :: T ++ fst (inv_res ft r)) (snd (inv_res ft r)).
Proof.
  intros Hl Hfn Hft [f1 H1]. exists (S f1). intros f Hf. destruct f as [|f]; [lia|].
  rewrite tinv_S. unfold inv_body. rewrite Hl, Hfn, Hft. rewrite H1 by lia.
  unfold inv_res. destruct r as [| [|k] | | | |]; try reflexivity;
    match goal with |- context [fin_result ?a ?b ?c] => destruct (fin_result a b c) end; reflexivity.
Qed.

Lemma EV_host s fi args ft :
  (fi <? length (m_imports m))%nat = true -> afunc_type m afs fi = Some ft ->
  EV s fi args [EvHost fi args]
     (match host fi args (s_mem s) with HostOk mm r => inr (set_mem s mm, r) | HostTrap => inl RTrap end).
Proof.
  intros Hl Hft. exists 1%nat. intros f Hf. destruct f as [|f]; [lia|].
  rewrite tinv_S. unfold inv_body. rewrite Hl, Hft. reflexivity.
Qed.

(** ** evaluation of a short prefix [pre] followed by any continuation *)
Definition EP (pre : list ainstr) (s : store) (l st : list val) (T : list event) (r : res) : Prop :=
  match r with
  | RNormal s' l' st' =>
      forall tail T2 r2, ES tail s' l' st' T2 r2 -> ES (pre ++ tail) s l st (T ++ T2) r2
  | _ => forall tail, ES (pre ++ tail) s l st T r
  end.

Lemma EP1 i s l st T r : EI i s l st T r -> EP [i] s l st T r.
Proof.
  intro H. destruct r; cbn [EP app]; intros; first [eapply ES_cons_normal; eassumption | apply ES_cons_stop; auto].
Qed.

Lemma EP2n i1 i2 s l st T1 s1 l1 st1 T2 r :
  EI i1 s l st T1 (RNormal s1 l1 st1) -> EI i2 s1 l1 st1 T2 r -> EP [i1; i2] s l st (T1 ++ T2) r.
Proof.
  intros H1 H2. destruct r; cbn [EP app]; intros; rewrite <- ?app_assoc;
    (eapply ES_cons_normal; [exact H1|]);
    first [eapply ES_cons_normal; eassumption | apply ES_cons_stop; auto].
Qed.

Lemma EP2s i1 i2 s l st T r :
  EI i1 s l st T r -> is_normal r = false -> EP [i1; i2] s l st T r.
Proof.
  intros H Hn. destruct r; try discriminate; cbn [EP app]; intros; apply ES_cons_stop; auto.
Qed.

Lemma EP_stop pre s l st T r tail : EP pre s l st T r -> is_normal r = false -> ES (pre ++ tail) s l st T r.
Proof. destruct r; try discriminate; cbn [EP]; auto. Qed.

(** instructions that neither branch nor call *)
Definition simple_b (b : binstr) : bool :=
  match b with
  | BBr _ | BBrIf _ | BBrTable _ _ | BReturn | BCall _ | BCallIndirect _ => false
  | _ => true
  end.
Definition res_of_step (x : step_result) : res :=
  match x with inr (s', l', st') => RNormal s' l' st' | inl true => RTrap | inl false => RStuck end.
Definition simple_events (o : origin) (b : binstr) : list event :=
  match b with BTick n => EvTick n :: ev_work o | _ => ev_work o end.

Lemma instr_body_simple rs ri rv o b s l st :
  simple_b b = true ->
  instr_body cap m afs rs ri rv s l st (ABasic o b) =
  (simple_events o b, res_of_step (exec_simple cap b s l st)).
Proof. destruct b; try discriminate; reflexivity. Qed.

Lemma EI_simple o b s l st :
  simple_b b = true -> EI (ABasic o b) s l st (simple_events o b) (res_of_step (exec_simple cap b s l st)).
Proof.
  intro Hb. exists 1%nat. intros f Hf. destruct f as [|f]; [lia|]. rewrite tinstr_S. apply instr_body_simple; exact Hb.
Qed.

(** an invocation never returns a branch or a normal [res] on the left *)
Lemma tinv_inl_shape f s fi args T r0 :
  tinv f s fi args = (T, inl r0) -> r0 = RTrap \/ r0 = RStuck \/ r0 = RFuel.
Proof.
  destruct f as [|f]; [intro H; inversion H; auto|].
  rewrite tinv_S. unfold inv_body.
  destruct (fi <? length (m_imports m))%nat.
  - destruct (afunc_type m afs fi); [|intro H; inversion H; auto].
    destruct (host fi args (s_mem s)); intro H; inversion H; auto.
  - destruct (nth_opt afs _) as [fn|]; [|intro H; inversion H; auto].
    destruct (nth_opt (m_types m) _) as [ft|]; [|intro H; inversion H; auto].
    destruct (tseq f s _ [] (af_body fn)) as [t r].
    assert (F : forall s' vs t2 r2, fin_result ft s' vs = (t2, inl r2) -> r2 = RStuck).
    { intros s' vs t2 r2. unfold fin_result. destruct (ft_result ft); [destruct vs|]; intro H; inversion H; reflexivity. }
    destruct r as [s' l' vs|[|k] s' l' vs|s' vs| | |];
      try (destruct (fin_result ft s' vs) as [t2 [r2|x]] eqn:Ef; intro H; inversion H; subst; right; left; eapply F; eassumption);
      intro H; inversion H; auto.
Qed.

(** branches *)
Lemma EI_br o k s l st : EI (ABasic o (BBr k)) s l st (ev_work o) (RBr k s l st).
Proof. exists 1%nat. intros f Hf. destruct f as [|f]; [lia|]. reflexivity. Qed.
Lemma EI_return o s l st : EI (ABasic o BReturn) s l st (ev_work o) (RReturn s st).
Proof. exists 1%nat. intros f Hf. destruct f as [|f]; [lia|]. reflexivity. Qed.
Lemma EI_brif o k s l c st :
  EI (ABasic o (BBrIf k)) s l (VI32 c :: st)
     (if c =? 0 then ev_work o else ev_work o ++ ev_taken o)
     (if c =? 0 then RNormal s l st else RBr k s l st).
Proof.
  exists 1%nat. intros f Hf. destruct f as [|f]; [lia|]. rewrite tinstr_S. cbn [instr_body].
  destruct (c =? 0); reflexivity.
Qed.
Lemma EI_brtable o ls d s l c st :
  EI (ABasic o (BBrTable ls d)) s l (VI32 c :: st) (ev_work o)
     (RBr (if c <? Z.of_nat (length ls)
           then match nth_opt ls (Z.to_nat c) with Some k => k | None => d end
           else d) s l st).
Proof. exists 1%nat. intros f Hf. destruct f as [|f]; [lia|]. reflexivity. Qed.

Lemma EI_call_indirect_undef o ti s l c st0 ft :
  nth_opt (m_types m) ti = Some ft ->
  match (if c <? Z.of_nat (length (s_table s)) then nth_opt (s_table s) (Z.to_nat c) else None) with
  | Some (Some _) => False | _ => True end ->
  EI (ABasic o (BCallIndirect ti)) s l (VI32 c :: st0) (ev_work o) RTrap.
Proof.
  intros Hty Htab. exists 1%nat. intros f Hf. destruct f as [|f]; [lia|].
  rewrite tinstr_S. cbn [instr_body]. rewrite Hty.
  destruct (if c <? Z.of_nat (length (s_table s)) then nth_opt (s_table s) (Z.to_nat c) else None) as [[fi|]|];
    [contradiction|reflexivity|reflexivity].
Qed.
Lemma EI_call_indirect_mismatch o ti s l c st0 ft fi ft' :
  nth_opt (m_types m) ti = Some ft ->
  (if c <? Z.of_nat (length (s_table s)) then nth_opt (s_table s) (Z.to_nat c) else None) = Some (Some fi) ->
  afunc_type m afs fi = Some ft' -> functype_eqb ft ft' = false ->
  EI (ABasic o (BCallIndirect ti)) s l (VI32 c :: st0) (ev_work o ++ ev_call m fi) RTrap.
Proof.
  intros Hty Htab Hft Heq. exists 1%nat. intros f Hf. destruct f as [|f]; [lia|].
  rewrite tinstr_S. cbn [instr_body]. rewrite Hty, Htab, Hft, Heq. reflexivity.
Qed.

End Eval.
