(** * Wasm/ArtifactViewProofs — the stored-artifact record built for a compiled module
    ([s_artifact_of]) projects ([to_machine]) to exactly the machine artifact [build_artifact]
    builds from the same compiler output.  So the artifact whose bytes are stored and the artifact
    the C01 layers talk about are the same object. *)
From Coq Require Import ZArith NArith List Bool Lia.
From CB Require Import Common.IntN Wasm.Syntax Wasm.Sem Wasm.Compile Wasm.Machine Wasm.ArtifactCodec Wasm.ArtifactView.
Import ListNotations.
Local Open Scope Z_scope.

Lemma from_i32_signed32 z : from_i32 (signed32 z) = from_i32 z.
Proof.
  unfold from_i32, signed32, two32. cbv zeta.
  destruct (z mod 4294967296 <? 2147483648).
  - apply Z.mod_mod. lia.
  - rewrite <- (Z.mod_add (z mod 4294967296 - 4294967296) 1 4294967296) by lia.
    replace (z mod 4294967296 - 4294967296 + 1 * 4294967296) with (z mod 4294967296) by lia.
    apply Z.mod_mod. lia.
Qed.
Lemma from_i64_signed64 z : from_i64 (signed64 z) = from_i64 z.
Proof.
  unfold from_i64, signed64, two64. cbv zeta.
  destruct (z mod 18446744073709551616 <? 9223372036854775808).
  - apply Z.mod_mod. lia.
  - rewrite <- (Z.mod_add (z mod 18446744073709551616 - 18446744073709551616) 1 18446744073709551616) by lia.
    replace (z mod 18446744073709551616 - 18446744073709551616 + 1 * 18446744073709551616)
      with (z mod 18446744073709551616) by lia.
    apply Z.mod_mod. lia.
Qed.

Lemma map_id_ext {A} (f : A -> A) l : (forall x, In x l -> f x = x) -> map f l = l.
Proof.
  induction l as [|a l IH]; intros H; [reflexivity|]. cbn [map].
  rewrite H by (left; reflexivity). rewrite IH; [reflexivity|]. intros x Hx. apply H. right. exact Hx.
Qed.

Lemma map_combine_snd {A B} (l1 : list A) (l2 : list B) :
  length l1 = length l2 -> map snd (combine l1 l2) = l2.
Proof.
  revert l2. induction l1 as [|a l1 IH]; intros [|b l2] H; try discriminate; [reflexivity|].
  cbn [combine map snd]. rewrite IH by (inversion H; reflexivity). reflexivity.
Qed.

Lemma func_view_s_func_of locals f : 0 <= cf_num_registers f -> func_view (s_func_of locals f) = f.
Proof.
  intros H. destruct f as [ti ps nl rt nr cs code]. unfold func_view, s_func_of. cbn in *.
  rewrite !Nat2N.id, Z2N.id by exact H. reflexivity.
Qed.

Lemma signed32_small n : (n < 2147483648)%N -> Z.to_N (signed32 (Z.of_N n)) = n.
Proof.
  intros H. unfold signed32. cbv zeta.
  assert (E : Z.of_N n mod 4294967296 = Z.of_N n) by (apply Z.mod_small; lia).
  rewrite E. destruct (Z.ltb_spec (Z.of_N n) 2147483648); [apply N2Z.id | lia].
Qed.

Theorem to_machine_s_artifact_of_thm : forall cm m elem_shift names exports code sa,
  view_okb cm m names code = true ->
  s_artifact_of cm m elem_shift names exports code = Some sa ->
  build_artifact cm m elem_shift code = Some (to_machine sa).
Proof.
  intros cm m sh names exports code sa Hok Hs.
  unfold view_okb in Hok. rewrite !andb_true_iff in Hok. destruct Hok as [[[Hn Hc] Hr] Hd].
  apply Nat.eqb_eq in Hn. apply Nat.eqb_eq in Hc.
  rewrite forallb_forall in Hr. rewrite forallb_forall in Hd.
  unfold s_artifact_of in Hs.
  destruct (build_artifact cm m sh code) as [art|] eqn:Hb; [|discriminate].
  inversion Hs; subst sa; clear Hs. f_equal.
  unfold build_artifact in Hb.
  destruct (init_table _ _) as [tbl|]; [|discriminate]. inversion Hb; subst art; clear Hb.
  unfold to_machine. cbn [sa_imports sa_types sa_table sa_memory sa_globals sa_code
                          a_imports a_types a_table a_memory a_globals a_code].
  f_equal.
  - (* imports *)
    rewrite map_map. cbn [si_ty].
    change (fun x : list N * list N * functype => snd x) with (@snd (list N * list N) functype).
    symmetry. apply map_combine_snd. rewrite map_length. exact Hn.
  - (* table *)
    rewrite map_map. symmetry. apply map_id_ext. intros [i|] _; [rewrite Nat2N.id|]; reflexivity.
  - (* memory *)
    destruct (m_mem m) as [l|]; [|reflexivity]. cbn [sm_init sm_max sm_data]. f_equal. f_equal.
    rewrite map_map. symmetry. apply map_id_ext. intros [off bs] Hin. cbn [sd_offset sd_init fst snd].
    specialize (Hd _ Hin). cbn [fst snd] in Hd. apply andb_true_iff in Hd. destruct Hd as [Ho Hbs].
    apply N.ltb_lt in Ho. rewrite signed32_small by exact Ho. f_equal.
    rewrite map_map. apply map_id_ext. intros b Hb. rewrite forallb_forall in Hbs.
    specialize (Hbs _ Hb). apply Z.leb_le in Hbs. apply Z2N.id. exact Hbs.
  - (* globals *)
    rewrite map_map. apply map_ext. intros g. destruct (g_init g); cbn [ginit_reg];
      [symmetry; apply from_i32_signed32 | symmetry; apply from_i64_signed64].
  - (* code *)
    symmetry. rewrite map_map.
    transitivity (map snd (combine (map (fun fd : nat * list valtype * list opcode => snd (fst fd)) (cm_funcs cm)) code)).
    + apply map_ext_in. intros [ls f] Hin. cbn [fst snd]. apply func_view_s_func_of.
      apply Z.leb_le. apply Hr. eapply in_combine_r. exact Hin.
    + apply map_combine_snd. rewrite map_length. symmetry. exact Hc.
Qed.
