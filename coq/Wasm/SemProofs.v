(** Proofs about the reference interpreter [Wasm/Sem.v]: more fuel never changes an outcome
    that did not run out of fuel; memory store/load round trips and bounds. *)
From Coq Require Import ZArith NArith List Lia Bool FMapPositive.
From CB Require Import Common.IntN Common.IntNProofs Wasm.Syntax Wasm.Sem.
Import ListNotations.
Local Open Scope Z_scope.

Section Mono.
Variable host : nat -> list val -> option memory -> host_result.
Variable cap : N.
Variable m : module.

Notation eseq := (exec_seq host cap m).
Notation einstr := (exec_instr host cap m).
Notation inv := (invoke host cap m).

Definition mono_seq (f : nat) : Prop :=
  forall f' s l st is, (f <= f')%nat -> eseq f s l st is <> RFuel -> eseq f' s l st is = eseq f s l st is.
Definition mono_instr (f : nat) : Prop :=
  forall f' s l st i, (f <= f')%nat -> einstr f s l st i <> RFuel -> einstr f' s l st i = einstr f s l st i.
Definition mono_inv (f : nat) : Prop :=
  forall f' s fi args, (f <= f')%nat -> inv f s fi args <> inl RFuel -> inv f' s fi args = inv f s fi args.

Lemma eseq_S f s l st is :
  eseq (S f) s l st is =
  match is with
  | [] => RNormal s l st
  | i :: rest => match einstr f s l st i with
                 | RNormal s' l' st' => eseq f s' l' st' rest
                 | r => r
                 end
  end.
Proof. reflexivity. Qed.

Lemma einstr_S f s locals stack i :
  einstr (S f) s locals stack i =
      match i with
      | Block bt body =>
          (* label of arity |bt| whose continuation is the end of the block *)
          match eseq f s locals [] body with
          | RNormal s' l' vs => RNormal s' l' (firstn (arity bt) vs ++ stack)
          | RBr O s' l' vs => RNormal s' l' (firstn (arity bt) vs ++ stack)
          | RBr (S k) s' l' vs => RBr k s' l' vs
          | r => r
          end
      | Loop bt body =>
          (* label of arity 0 (no block parameters in 1.0) whose continuation is the loop *)
          match eseq f s locals [] body with
          | RNormal s' l' vs => RNormal s' l' (firstn (arity bt) vs ++ stack)
          | RBr O s' l' _ => einstr f s' l' stack (Loop bt body)
          | RBr (S k) s' l' vs => RBr k s' l' vs
          | r => r
          end
      | If bt thn els =>
          match stack with
          | VI32 c :: st => einstr f s locals st (Block bt (if c =? 0 then els else thn))
          | _ => RStuck
          end
      | Basic (BBr l) => RBr l s locals stack
      | Basic (BBrIf l) =>
          match stack with
          | VI32 c :: st => if c =? 0 then RNormal s locals st else RBr l s locals st
          | _ => RStuck
          end
      | Basic (BBrTable ls d) =>
          match stack with
          | VI32 c :: st =>
              (* if c < |ls| then br ls[c] else br d *)
              RBr (if c <? Z.of_nat (length ls)
                   then match nth_opt ls (Z.to_nat c) with Some l => l | None => d end
                   else d) s locals st
          | _ => RStuck
          end
      | Basic BReturn => RReturn s stack
      | Basic (BCall fi) =>
          match func_type m fi with
          | Some ft =>
              match take_args (length (ft_params ft)) stack [] with
              | Some (args, st) =>
                  match inv f s fi args with
                  | inr (s', r) => RNormal s' locals (match r with Some v => v :: st | None => st end)
                  | inl r => r
                  end
              | None => RStuck
              end
          | None => RStuck
          end
      | Basic (BCallIndirect ti) =>
          match stack, nth_opt (m_types m) ti with
          | VI32 c :: st0, Some ft =>
              match (if c <? Z.of_nat (length (s_table s)) then nth_opt (s_table s) (Z.to_nat c) else None) with
              | Some (Some fi) =>
                  match func_type m fi with
                  | Some ft' =>
                      if functype_eqb ft ft' then
                        match take_args (length (ft_params ft)) st0 [] with
                        | Some (args, st) =>
                            match inv f s fi args with
                            | inr (s', r) => RNormal s' locals (match r with Some v => v :: st | None => st end)
                            | inl r => r
                            end
                        | None => RStuck
                        end
                      else RTrap
                  | None => RStuck
                  end
              | _ => RTrap   (* index out of table bounds or uninitialised element *)
              end
          | _, _ => RStuck
          end
      | Basic b =>
          match exec_simple cap b s locals stack with
          | inr (s', l', st') => RNormal s' l' st'
          | inl true => RTrap
          | inl false => RStuck
          end
      end.
Proof. reflexivity. Qed.

Lemma inv_S f s fi args :
  inv (S f) s fi args =
      let ni := length (m_imports m) in
      if (fi <? ni)%nat then
        match func_type m fi with
        | Some ft =>
            match host fi args (s_mem s) with
            | HostOk mm r => inr (set_mem s mm, r)
            | HostTrap => inl RTrap
            end
        | None => inl RStuck
        end
      else
        match nth_opt (m_funcs m) (fi - ni) with
        | Some fn =>
            match nth_opt (m_types m) (f_type fn) with
            | Some ft =>
                let locals := args ++ map zero_of (f_locals fn) in
                let fin (s' : store) (vs : list val) : sum res (store * option val) :=
                  match ft_result ft with
                  | None => inr (s', None)
                  | Some _ => match vs with v :: _ => inr (s', Some v) | [] => inl RStuck end
                  end in
                match eseq f s locals [] (f_body fn) with
                | RNormal s' _ vs => fin s' vs
                | RBr O s' _ vs => fin s' vs
                | RReturn s' vs => fin s' vs
                | RBr (S _) _ _ _ => inl RStuck
                | r => inl r
                end
            | None => inl RStuck
            end
        | None => inl RStuck
        end.
Proof. reflexivity. Qed.

Lemma mono_seq_step f : mono_seq f -> mono_instr f -> mono_seq (S f).
Proof.
  intros IHs IHi f' s l st is Hle Hne. destruct f' as [|f']; [lia|]. assert (Hle' : (f <= f')%nat) by lia.
  rewrite !eseq_S in *. destruct is as [|i rest]; [reflexivity|].
  destruct (einstr f s l st i) eqn:E;
    (rewrite (IHi f' s l st i Hle') by (rewrite E; try discriminate; exact Hne)); rewrite E; try reflexivity.
  apply IHs; auto.
Qed.

Lemma call_result_mono f f' s fi args :
  mono_inv f -> (f <= f')%nat -> inv f s fi args <> inl RFuel -> inv f' s fi args = inv f s fi args.
Proof. intros H; apply H. Qed.

Lemma mono_instr_step f : mono_seq f -> mono_instr f -> mono_inv f -> mono_instr (S f).
Proof.
  intros IHs IHi IHv f' s l st i Hle Hne. destruct f' as [|f']; [lia|]. assert (Hle' : (f <= f')%nat) by lia.
  destruct i as [b|bt body|bt body|bt thn els].
  - (* Basic *)
    destruct b; try reflexivity.
    + (* call *)
      rewrite !einstr_S in *.
      destruct (func_type m f0) as [ft|]; [|reflexivity].
      destruct (take_args (length (ft_params ft)) st []) as [[args st']|]; [|reflexivity].
      destruct (inv f s f0 args) eqn:E;
        (rewrite (IHv f' s f0 args Hle') by (rewrite E; intro X; inversion X; subst; apply Hne; reflexivity));
        rewrite E; reflexivity.
    + (* call_indirect *)
      rewrite !einstr_S in *.
      destruct st as [|[c|c] st0]; try reflexivity.
      destruct (nth_opt (m_types m) ty) as [ft|]; [|reflexivity].
      destruct (if (c <? Z.of_nat (length (s_table s)))%Z then nth_opt (s_table s) (Z.to_nat c) else None) as [[fi|]|]; try reflexivity.
      destruct (func_type m fi) as [ft'|]; [|reflexivity].
      destruct (functype_eqb ft ft'); [|reflexivity].
      destruct (take_args (length (ft_params ft)) st0 []) as [[args st']|]; [|reflexivity].
      destruct (inv f s fi args) eqn:E;
        (rewrite (IHv f' s fi args Hle') by (rewrite E; intro X; inversion X; subst; apply Hne; reflexivity));
        rewrite E; reflexivity.
  - (* Block *)
    rewrite !einstr_S in *.
    destruct (eseq f s l [] body) eqn:E;
      (rewrite (IHs f' s l [] body Hle') by (rewrite E; try discriminate; exact Hne)); rewrite E; reflexivity.
  - (* Loop *)
    rewrite !einstr_S in *.
    destruct (eseq f s l [] body) eqn:E;
      (rewrite (IHs f' s l [] body Hle') by (rewrite E; try discriminate; exact Hne)); rewrite E; try reflexivity.
    destruct l0; [|reflexivity]. apply IHi; auto.
  - (* If *)
    rewrite !einstr_S in *. destruct st as [|[c|c] st0]; try reflexivity. apply IHi; auto.
Qed.

Lemma mono_inv_step f : mono_seq f -> mono_inv (S f).
Proof.
  intros IHs f' s fi args Hle Hne. destruct f' as [|f']; [lia|]. assert (Hle' : (f <= f')%nat) by lia.
  rewrite !inv_S in *; cbv zeta in *.
  destruct (fi <? length (m_imports m))%nat; [reflexivity|].
  destruct (nth_opt (m_funcs m) (fi - length (m_imports m))) as [fn|]; [|reflexivity].
  destruct (nth_opt (m_types m) (f_type fn)) as [ft|]; [|reflexivity].
  destruct (eseq f s (args ++ map zero_of (f_locals fn)) [] (f_body fn)) eqn:E;
    (rewrite (IHs f' s _ [] (f_body fn) Hle') by (rewrite E; try discriminate; intro X; apply Hne; reflexivity));
    rewrite E; reflexivity.
Qed.

Lemma mono_all f : mono_seq f /\ mono_instr f /\ mono_inv f.
Proof.
  induction f as [|f (IHs & IHi & IHv)].
  - repeat split; intros f' *; intros _ H; exfalso; apply H; reflexivity.
  - repeat split.
    + apply mono_seq_step; auto.
    + apply mono_instr_step; auto.
    + apply mono_inv_step; auto.
Qed.

Theorem run_fuel_monotone f f' fi args :
  (f <= f')%nat -> run host cap m f fi args <> OutOfFuel -> run host cap m f' fi args = run host cap m f fi args.
Proof.
  intros Hle Hne. unfold run in *. destruct (instantiate m) as [s|]; [|reflexivity].
  destruct (mono_all f) as (_ & _ & Hv).
  rewrite (Hv f' s fi args Hle); [reflexivity|].
  intro E. rewrite E in Hne. apply Hne. reflexivity.
Qed.
End Mono.

(** ** memory *)
Lemma mem_get_set_same mm a b : mem_get (mem_set mm a b) a = b.
Proof. unfold mem_get, mem_set; cbn. rewrite PositiveMap.gss. reflexivity. Qed.
Lemma mem_key_inj a b : mem_key a = mem_key b -> a = b.
Proof.
  unfold mem_key. intros H. apply N.succ_inj. rewrite <- !N.succ_pos_spec. rewrite H. reflexivity.
Qed.
Lemma mem_get_set_other mm a a' b : a <> a' -> mem_get (mem_set mm a b) a' = mem_get mm a'.
Proof.
  intros H. unfold mem_get, mem_set; cbn. rewrite PositiveMap.gso; [reflexivity|].
  intro E. apply H. symmetry. apply mem_key_inj. exact E.
Qed.
Lemma mem_set_pages mm a b : mem_pages (mem_set mm a b) = mem_pages mm. Proof. reflexivity. Qed.
Lemma mem_write_pages bs : forall mm a, mem_pages (mem_write mm a bs) = mem_pages mm.
Proof. induction bs; intros; cbn [mem_write]; auto. rewrite IHbs. reflexivity. Qed.
Lemma mem_write_len mm a bs : mem_len (mem_write mm a bs) = mem_len mm.
Proof. unfold mem_len. rewrite mem_write_pages. reflexivity. Qed.

Lemma mem_write_get_before bs : forall mm a a', (a' < a)%N -> mem_get (mem_write mm a bs) a' = mem_get mm a'.
Proof.
  induction bs as [|b r IH]; intros mm a a' H; cbn [mem_write]; [reflexivity|].
  rewrite IH by lia. apply mem_get_set_other. lia.
Qed.
Lemma mem_read_write bs : forall mm a, mem_read (mem_write mm a bs) a (length bs) = bs.
Proof.
  induction bs as [|b r IH]; intros mm a; cbn [mem_write mem_read length]; [reflexivity|].
  rewrite IH. f_equal. rewrite mem_write_get_before by lia. apply mem_get_set_same.
Qed.
Lemma mem_write_get_outside bs : forall mm a a', (a' < a \/ a + N.of_nat (length bs) <= a')%N ->
  mem_get (mem_write mm a bs) a' = mem_get mm a'.
Proof.
  induction bs as [|b r IH]; intros mm a a' H; cbn [mem_write]; [reflexivity|].
  cbn [length] in H. rewrite IH by lia. apply mem_get_set_other. lia.
Qed.

(** a store followed by a load of the same width at the same address returns the stored value
    truncated to the width; both trap exactly when the access exceeds the memory length *)
Theorem store_load_roundtrip mm ea k x mm' :
  (0 <= x)%Z -> mem_store mm ea k x = Some mm' ->
  mem_load mm' ea k = Some (x mod 256 ^ Z.of_nat k)%Z.
Proof.
  intros Hx. unfold mem_store, mem_load, in_bounds. destruct (N.leb_spec (ea + N.of_nat k) (mem_len mm)); [|discriminate].
  intros E; inversion E; subst; clear E. rewrite mem_write_len.
  destruct (N.leb_spec (ea + N.of_nat k) (mem_len mm)); [|lia].
  f_equal. pose proof (mem_read_write (bytes_of k x) mm ea) as R. rewrite bytes_of_length in R. rewrite R.
  apply of_bytes_bytes_of. exact Hx.
Qed.
Theorem load_store_bounds mm ea k x :
  (mem_load mm ea k = None <-> (mem_len mm < ea + N.of_nat k)%N) /\
  (mem_store mm ea k x = None <-> (mem_len mm < ea + N.of_nat k)%N).
Proof.
  unfold mem_load, mem_store, in_bounds.
  destruct (N.leb_spec (ea + N.of_nat k) (mem_len mm)); split; split; intros; try discriminate; try lia; reflexivity.
Qed.
Theorem store_frame mm ea k x mm' a :
  mem_store mm ea k x = Some mm' -> (a < ea \/ ea + N.of_nat k <= a)%N ->
  mem_get mm' a = mem_get mm a /\ mem_pages mm' = mem_pages mm.
Proof.
  unfold mem_store. destruct (in_bounds mm ea k); [|discriminate]. intros E H; inversion E; subst.
  split; [|apply mem_write_pages]. apply mem_write_get_outside. rewrite bytes_of_length. exact H.
Qed.

(** memory.grow: never shrinks, fails with -1 exactly when the limit would be exceeded *)
Theorem mem_grow_spec cap mm n :
  (0 <= n)%Z ->
  let '(mm', r) := mem_grow cap mm n in
  ((mem_pages mm + Z.to_N n <= grow_limit cap mm)%N ->
     mem_pages mm' = (mem_pages mm + Z.to_N n)%N /\ r = Z.of_N (mem_pages mm) /\ mem_data mm' = mem_data mm) /\
  ((grow_limit cap mm < mem_pages mm + Z.to_N n)%N -> mm' = mm /\ r = 4294967295%Z).
Proof.
  intros Hn. unfold mem_grow. destruct (N.leb_spec (mem_pages mm + Z.to_N n) (grow_limit cap mm)); cbn; split; intros; try lia; auto.
Qed.
