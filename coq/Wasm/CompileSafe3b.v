(** * Wasm/CompileSafe3b — the remaining control cases of [handle_opcode]: if, else, br_if,
    br_table, call, call_indirect. *)
From Coq Require Import ZArith NArith List Lia Bool.
From CB Require Import Wasm.Syntax Wasm.Compile Wasm.Machine Wasm.MachineLemmas Wasm.CompileLemmas
     Wasm.StraightProofs Wasm.BlockProofs Wasm.BlockInv Wasm.CompileSafe Wasm.CompileSafe2 Wasm.CompileSafe3.
Import ListNotations.
Local Open Scope Z_scope.
Local Arguments i32_bytes : simpl never.
Local Arguments u32_bytes : simpl never.
Local Arguments u16_bytes : simpl never.

Ltac napp H := rewrite <- ?app_assoc in H; cbn [app] in H.

Lemma consume_consts s p s' : consume s = Some (p, s') -> c_consts s' = c_consts s.
Proof.
  unfold consume. destruct (c_stack s) as [|q st]; [discriminate|].
  destruct (negb (existsb (provider_eqb q) st)); intros H; inversion H; subst; [destruct p|]; reflexivity.
Qed.
Lemma insert_jump_consts s l s' : insert_jump_location s l = Some s' -> c_consts s' = c_consts s.
Proof. unfold insert_jump_location. destruct (nth_error (c_bp s) l) as [[?|? ?]|]; intros H; inversion H; reflexivity. Qed.
Lemma copy_consts s p r : c_consts (copy_if_needed s p r) = c_consts s.
Proof. unfold copy_if_needed. destruct (provider_eqb p r); reflexivity. Qed.
Lemma provide_existing_consts s r : c_consts (provide_existing s r) = c_consts s.
Proof. destruct r; reflexivity. Qed.

Section Safe3b.
Variable nl : Z.
Variable cx : cctx.
Notation L := (L nl).
Notation Iv := (Iv nl).
Notation post := (post nl cx).

Lemma if_safe bs s fl (ty : blocktype) s' :
  Iv bs s fl -> c_last s = None ->
  match push_consume (push_op s IIf) with
  | Some (_, s1) =>
      let '(res, s2) :=
        match ty with
        | Some _ => let '(r, s2) := dyn_get s1 in (Some (PDyn r), s2)
        | None => (None, s1)
        end in
      let s3 := set_bp s2 (JUnknown [cur_off s2] res :: c_bp s2) in
      Some (emit s3 (u32_bytes 0))
  | None => None
  end = Some s' -> post bs fl s'.
Proof.
  intros H Hl E. destruct (push_consume (push_op s IIf)) as [[p s1]|] eqn:Ep; [|discriminate].
  pose proof (L_emit nl _ _ _ _ (FOp IIf) H Hl Logic.I ltac:(discriminate)) as H1.
  destruct (L_push_consume nl _ _ _ _ _ _ H1 Hl Ep) as (H2 & L2 & B2 & N2 & _). napp H2.
  set (flx := fl ++ [FOp IIf; FSrc (provider_idx p)]) in *.
  assert (C : exists res s2, (match ty with
        | Some _ => let '(r, s2) := dyn_get s1 in (Some (PDyn r), s2)
        | None => (None, s1) end) = (res, s2) /\ L bs (all_locs (c_bp s)) s2 flx /\ c_last s2 = None /\ c_bp s2 = c_bp s
        /\ (forall r, res = Some r -> res_ok nl (c_next s2) r)).
  { destruct ty as [t|].
    - destruct (dyn_get s1) as [r s2] eqn:Ed. destruct (L_dyn_get nl _ _ _ _ _ _ H2 Ed) as (H3 & Br & B3 & L3 & _).
      exists (Some (PDyn r)), s2. splits; auto; try (cbn [push_op emit set_out c_bp c_last] in *; congruence).
      intros r0 X. inversion X; subst. exact Br.
    - exists None, s1. splits; auto; try (cbn [push_op emit set_out c_bp c_last] in *; congruence). }
  destruct C as (res & s2 & Eq & H3 & L3 & B3 & R3). rewrite Eq in E. inversion E; subst; clear E.
  assert (H4 : L bs (all_locs (c_bp s)) (set_bp s2 (JUnknown [cur_off s2] res :: c_bp s2)) flx).
  { apply (L_set_bp nl); auto.
    - intros pos [X|X]; [discriminate|]. apply (l_known _ _ _ _ _ H3). exact X.
    - intros lo r [X|X]; [inversion X; subst; auto|]. apply (l_res _ _ _ _ _ H3 lo). exact X. }
  pose proof (L_app_pend nl bs _ _ (emit (set_bp s2 (JUnknown [cur_off s2] res :: c_bp s2)) (u32_bytes 0)) flx H4) as H5.
  apply (post_simple nl cx bs fl [FOp IIf; FSrc (provider_idx p); FTgt 0]).
  - unfold CompileSafe2.Iv. cbn [emit set_out set_bp c_bp all_locs flat_map locs_of app]. fold (all_locs (c_bp s2)).
    eapply (L_pl nl).
    + subst flx. rewrite <- app_assoc in H5. cbn [app] in H5. apply H5; auto; try reflexivity.
      * eapply cwf_same; [|apply (l_cwf _ _ _ _ _ H3)]. repeat split.
      * intros lo r X. exists lo. exact X.
    + intros q. rewrite B3. rewrite (cur_off_off nl _ _ _ _ H3). subst flx. rewrite <- ?app_assoc. cbn [app In]. intuition.
  - apply shaped_one. apply sh_if.
Qed.

Lemma br_jump_safe bs s fl (ir : bool) l s1 :
  Iv bs s fl -> c_last s = None -> push_br_jump s ir l = Some s1 ->
  exists ext, Iv bs s1 (fl ++ ext) /\ shaped cx ext /\ c_last s1 = None.
Proof.
  intros H Hl E. unfold push_br_jump in E. destruct (nth_error (c_bp s) l) as [tgt|] eqn:En; [|discriminate].
  match type of E with match ?X with _ => _ end = _ => destruct X as [s2|] eqn:E1; [|discriminate] end.
  assert (C : exists ext, L bs (all_locs (c_bp s)) s2 (fl ++ ext) /\ shaped cx ext /\ c_last s2 = None /\ c_bp s2 = c_bp s).
  { assert (D : s2 = s \/ exists res lo p s3, tgt = JUnknown lo (Some res) /\ consume s = Some (p, s3) /\ s2 = copy_if_needed s3 p res).
    { destruct ir; [|inversion E1; auto]. destruct tgt as [pos|lo [res|]]; try (inversion E1; auto; fail).
      destruct (consume s) as [[p s3]|] eqn:Ec; [|discriminate]. inversion E1; subst. right. exists res, lo, p, s3. auto. }
    destruct D as [->|(res & lo & p & s3 & -> & Ec & ->)].
    - exists []. rewrite app_nil_r. splits; auto using shaped_nil.
    - destruct (L_consume nl _ _ _ _ _ _ H Ec) as (H3 & F3 & L3 & B3 & N3 & _).
      assert (Hr : res_ok nl (c_next s3) res) by (rewrite N3; apply (l_res _ _ _ _ _ H lo); eapply nth_error_In; eauto).
      destruct (L_copy nl _ _ _ _ p res H3 ltac:(congruence) F3 Hr) as (H4 & L4 & B4 & N4 & _).
      exists (copy_fields p res). splits; auto using copy_shaped. congruence. }
  destruct C as (ext & H2 & S2 & L2 & B2).
  pose proof (L_emit nl _ _ _ _ (FOp IBr) H2 L2 Logic.I ltac:(discriminate)) as H3.
  assert (H3' : Iv bs (push_op s2 IBr) ((fl ++ ext) ++ [FOp IBr])) by (eapply (Iv_of_L nl bs s); [exact H3|exact B2]).
  destruct (I_insert_jump nl _ _ _ _ _ H3' L2 E) as (t & H4 & L4 & _).
  exists (ext ++ [FOp IBr; FTgt t]). splits; auto.
  - napp H4. exact H4.
  - apply shaped_app; auto. apply shaped_one. apply sh_br.
Qed.

Lemma else_safe bs s fl (ir : bool) s' :
  Iv bs s fl -> c_last s = None ->
  match push_br_jump s ir 0 with
  | Some s1 =>
      match c_bp s1 with
      | JUnknown (first :: rest) res :: bp' =>
          let pos := cur_off s1 in
          Some (back_patch (set_bp s1 (JUnknown rest res :: bp')) first pos)
      | _ => None
      end
  | None => None
  end = Some s' -> post bs fl s'.
Proof.
  intros H Hl E. destruct (push_br_jump s ir 0) as [s1|] eqn:E1; [|discriminate].
  destruct (br_jump_safe _ _ _ _ _ _ H Hl E1) as (ext & H1 & S1 & L1).
  destruct (c_bp s1) as [|[pos|[|first rest] res] bp'] eqn:Eb; try discriminate. inversion E; subst; clear E.
  unfold CompileSafe2.Iv in H1. rewrite Eb in H1. cbn [all_locs flat_map locs_of] in H1. fold (all_locs bp') in H1.
  assert (H2 : L bs ((first :: rest) ++ all_locs bp') (set_bp s1 (JUnknown rest res :: bp')) (fl ++ ext)).
  { apply (L_set_bp nl); auto.
    - intros p [X|X]; [discriminate|]. apply (l_known _ _ _ _ _ H1). rewrite Eb. right. exact X.
    - intros lo r [X|X].
      + injection X as _ Xr. apply (l_res _ _ _ _ _ H1 (first :: rest)). rewrite Eb, Xr. left. reflexivity.
      + apply (l_res _ _ _ _ _ H1 lo). rewrite Eb. right. exact X. }
  assert (H3 : L (cur_off s1 :: bs) ((first :: rest) ++ all_locs bp') (set_bp s1 (JUnknown rest res :: bp')) (fl ++ ext))
    by (eapply (L_bs nl); [exact H2|apply incl_tl, incl_refl]).
  destruct (l_pend _ _ _ _ _ H3 first (or_introl eq_refl)) as (pre & t & po & Ef & O).
  assert (H4 : L (cur_off s1 :: bs) (rest ++ all_locs bp')
                 (back_patch (set_bp s1 (JUnknown rest res :: bp')) (off pre) (cur_off s1)) (pre ++ FTgt (cur_off s1) :: po)).
  { apply (L_replace nl (cur_off s1 :: bs) ((first :: rest) ++ all_locs bp') (rest ++ all_locs bp') _ (fl ++ ext) pre (FTgt t)
             (FTgt (cur_off s1)) po (cur_off s1) H3 Ef); auto; try reflexivity.
    - intros t0 Et. inversion Et; subst. left. reflexivity.
    - intros q [<-|Hq]; [left; symmetry; exact O|right; exact Hq].
    - intros q Hq. right. exact Hq. }
  rewrite O in H4.
  apply (post_patched nl cx bs fl ext (pre ++ FTgt (cur_off s1) :: po) _ (cur_off s1)); auto.
  - rewrite Ef, !map_app. reflexivity.
  - unfold cur_off. rewrite (l_out _ _ _ _ _ H1). reflexivity.
Qed.

Lemma br_if_safe bs s fl l s' :
  Iv bs s fl -> c_last s = None ->
  match consume s with
  | Some (cond, s1) => match push_br_if_jump s1 l with Some s2 => Some (push_loc s2 cond) | None => None end
  | None => None
  end = Some s' -> post bs fl s'.
Proof.
  intros H Hl E. destruct (consume s) as [[cond s1]|] eqn:Ec; [|discriminate].
  destruct (push_br_if_jump s1 l) as [s2|] eqn:Ej; [|discriminate]. inversion E; subst; clear E.
  destruct (L_consume nl _ _ _ _ _ _ H Ec) as (H1 & F1 & L1 & B1 & N1 & _).
  pose proof (consume_consts _ _ _ Ec) as C1.
  assert (C : exists ext s3, L bs (all_locs (c_bp s)) s3 (fl ++ ext) /\ shaped cx ext /\ c_last s3 = None /\ c_bp s3 = c_bp s
              /\ c_next s3 = c_next s1 /\ c_consts s3 = c_consts s1 /\ insert_jump_location (push_op s3 IBrIf) l = Some s2).
  { unfold push_br_if_jump in Ej.
    assert (D : insert_jump_location (push_op s1 IBrIf) l = Some s2 \/
                exists lo res p s1', nth_error (c_bp s1) l = Some (JUnknown lo (Some res)) /\ consume s1 = Some (p, s1')
                  /\ insert_jump_location (push_op (provide_existing (copy_if_needed s1' p res) res) IBrIf) l = Some s2).
    { destruct (nth_error (c_bp s1) l) as [[pos|lo [res|]]|] eqn:En; try discriminate; auto.
      destruct (consume s1) as [[p s1']|] eqn:Ec2; [|discriminate]. right. exists lo, res, p, s1'. auto. }
    destruct D as [D|(lo & res & p & s1' & En & Ec2 & D)].
    - exists [], s1. rewrite app_nil_r. splits; auto using shaped_nil; congruence.
    - destruct (L_consume nl _ _ _ _ _ _ H1 Ec2) as (H3 & F3 & L3 & B3 & N3 & _).
      assert (Hr : res_ok nl (c_next s1') res).
      { rewrite N3. apply (l_res _ _ _ _ _ H1 lo). eapply nth_error_In; eauto. }
      destruct (L_copy nl _ _ _ _ p res H3 ltac:(congruence) F3 Hr) as (H4 & L4 & B4 & N4 & _).
      destruct (L_provide_existing nl _ _ _ _ res H4 ltac:(rewrite N4; exact Hr)) as (H5 & B5 & L5 & N5 & _).
      exists (copy_fields p res), (provide_existing (copy_if_needed s1' p res) res).
      splits; auto using copy_shaped; try congruence.
      rewrite provide_existing_consts, copy_consts. apply (consume_consts _ _ _ Ec2). }
  destruct C as (ext & s3 & H3 & S3 & L3 & B3 & N3 & C3 & Ej3).
  pose proof (L_emit nl _ _ _ _ (FOp IBrIf) H3 L3 Logic.I ltac:(discriminate)) as H4.
  assert (H4' : Iv bs (push_op s3 IBrIf) ((fl ++ ext) ++ [FOp IBrIf])) by (eapply (Iv_of_L nl bs s); [exact H4|exact B3]).
  destruct (I_insert_jump nl _ _ _ _ _ H4' L3 Ej3) as (t & H5 & L5 & N5 & _).
  pose proof (insert_jump_consts _ _ _ Ej3) as C5. cbn [push_op emit set_out c_consts c_next] in C5, N5.
  assert (Fc : fok (c_next s2) (ncon s2) (FSrc (provider_idx cond))).
  { unfold ncon in *. rewrite N5, N3, C5, C3. exact F1. }
  pose proof (L_emit nl _ _ _ _ (FSrc (provider_idx cond)) H5 L5 Fc ltac:(discriminate)) as H6. napp H6.
  apply (post_simple nl cx bs fl (ext ++ [FOp IBrIf; FTgt t; FSrc (provider_idx cond)])).
  - exact H6.
  - apply shaped_app; auto. apply shaped_one. apply sh_brif.
Qed.

Lemma provide_opt bs pl s fl (bt : blocktype) :
  L bs pl s fl -> c_last s = None ->
  exists d, L bs pl (match bt with Some _ => push_provide s | None => s end) (fl ++ d)
    /\ map kind_of d = dst_opt (res_flag bt)
    /\ c_bp (match bt with Some _ => push_provide s | None => s end) = c_bp s.
Proof.
  intros H Hl. destruct bt as [t|].
  - destruct (L_push_provide nl _ _ _ _ H Hl) as (r & H1 & B1 & _). exists [FDst r]. auto.
  - exists []. rewrite app_nil_r. auto.
Qed.

Lemma call_safe bs s fl f s' :
  Iv bs s fl -> c_last s = None ->
  match cx_func_type cx f with
  | Some ft =>
      match push_consume_n (length (ft_params ft)) (emit (push_op s ICall) (u32_bytes (Z.of_nat f))) with
      | Some s1 => Some (match ft_result ft with Some _ => push_provide s1 | None => s1 end)
      | None => None
      end
  | None => None
  end = Some s' -> post bs fl s'.
Proof.
  intros H Hl E. destruct (cx_func_type cx f) as [ft|] eqn:Ef; [|discriminate].
  destruct (push_consume_n _ _) as [s1|] eqn:Ep; [|discriminate]. inversion E; subst; clear E.
  pose proof (L_emit nl _ _ _ _ (FOp ICall) H Hl Logic.I ltac:(discriminate)) as H1.
  pose proof (L_emit nl _ _ _ _ (FImm (u32_bytes (Z.of_nat f))) H1 Hl Logic.I ltac:(discriminate)) as H2.
  destruct (L_push_consume_n nl _ _ _ _ _ _ H2 Hl Ep) as (ps & Lp & H3 & L3 & B3 & N3 & _).
  destruct (provide_opt _ _ _ _ (ft_result ft) H3 L3) as (d & H4 & Kd & B4).
  napp H4.
  apply (post_simple nl cx bs fl (FOp ICall :: FImm (u32_bytes (Z.of_nat f)) :: map FSrc ps ++ d)).
  - eapply (Iv_of_L nl bs s); [exact H4|]. rewrite B4, B3. reflexivity.
  - apply shaped_one. cbn [map kind_of]. rewrite map_app, map_kind_src, Lp, Kd. apply sh_call. exact Ef.
Qed.

Lemma calli_safe bs s fl ti s' :
  Iv bs s fl -> c_last s = None ->
  match push_consume (emit (push_op s ICallIndirect) (u32_bytes (Z.of_nat ti))) with
  | Some (_, s1) =>
      match cx_type cx ti with
      | Some ft =>
          match push_consume_n (length (ft_params ft)) s1 with
          | Some s2 => Some (match ft_result ft with Some _ => push_provide s2 | None => s2 end)
          | None => None
          end
      | None => None
      end
  | None => None
  end = Some s' -> post bs fl s'.
Proof.
  intros H Hl E. destruct (push_consume _) as [[p s1]|] eqn:Ep1; [|discriminate].
  destruct (cx_type cx ti) as [ft|] eqn:Ef; [|discriminate].
  destruct (push_consume_n _ _) as [s2|] eqn:Ep; [|discriminate]. inversion E; subst; clear E.
  pose proof (L_emit nl _ _ _ _ (FOp ICallIndirect) H Hl Logic.I ltac:(discriminate)) as H1.
  pose proof (L_emit nl _ _ _ _ (FImm (u32_bytes (Z.of_nat ti))) H1 Hl Logic.I ltac:(discriminate)) as H2.
  destruct (L_push_consume nl _ _ _ _ _ _ H2 Hl Ep1) as (H2' & L2 & B2 & N2 & _).
  destruct (L_push_consume_n nl _ _ _ _ _ _ H2' L2 Ep) as (ps & Lp & H3 & L3 & B3 & N3 & _).
  destruct (provide_opt _ _ _ _ (ft_result ft) H3 L3) as (d & H4 & Kd & B4).
  napp H4.
  apply (post_simple nl cx bs fl (FOp ICallIndirect :: FImm (u32_bytes (Z.of_nat ti)) :: FSrc (provider_idx p) :: map FSrc ps ++ d)).
  - eapply (Iv_of_L nl bs s); [exact H4|]. rewrite B4, B3, B2. reflexivity.
  - apply shaped_one. cbn [map kind_of]. rewrite map_app, map_kind_src, Lp, Kd. apply sh_calli. exact Ef.
Qed.

(** br_table *)
Definition dt (k : kind) : Prop := k = KDst \/ k = KTgt.
Lemma table_jump_safe bs s fl l s' :
  Iv bs s fl -> c_last s = None -> push_br_table_jump s l = Some s' ->
  exists ext, Iv bs s' (fl ++ ext) /\ Forall dt (map kind_of ext) /\ c_last s' = None.
Proof.
  intros H Hl E. unfold push_br_table_jump in E.
  assert (D : insert_jump_location s l = Some s' \/
              exists lo res, nth_error (c_bp s) l = Some (JUnknown lo (Some res)) /\ insert_jump_location (push_loc s res) l = Some s').
  { destruct (nth_error (c_bp s) l) as [[pos|lo [res|]]|] eqn:En; try discriminate; auto. right. eauto. }
  destruct D as [D|(lo & res & En & D)].
  - destruct (I_insert_jump nl _ _ _ _ _ H Hl D) as (t & H1 & L1 & _). exists [FTgt t]. splits; auto.
    constructor; [right; reflexivity|constructor].
  - assert (Hr : res_ok nl (c_next s) res) by (apply (l_res _ _ _ _ _ H lo); eapply nth_error_In; eauto).
    pose proof (L_emit nl _ _ _ _ (FDst (provider_idx res)) H Hl (res_ok_fok nl _ _ (l_cwf _ _ _ _ _ H) Hr) ltac:(discriminate)) as H1.
    assert (H1' : Iv bs (push_loc s res) (fl ++ [FDst (provider_idx res)])) by exact H1.
    destruct (I_insert_jump nl _ _ _ _ _ H1' Hl D) as (t & H2 & L2 & _). napp H2.
    exists [FDst (provider_idx res); FTgt t]. splits; auto.
    constructor; [left; reflexivity|constructor; [right; reflexivity|constructor]].
Qed.
Lemma table_jumps_safe bs : forall ls s fl s',
  Iv bs s fl -> c_last s = None -> push_br_table_jumps s ls = Some s' ->
  exists ext, Iv bs s' (fl ++ ext) /\ Forall dt (map kind_of ext) /\ c_last s' = None.
Proof.
  induction ls as [|l ls IH]; intros s fl s' H Hl E; cbn [push_br_table_jumps] in E.
  - inversion E; subst. exists []. rewrite app_nil_r. splits; auto. constructor.
  - destruct (push_br_table_jump s l) as [s1|] eqn:E1; [|discriminate].
    destruct (table_jump_safe _ _ _ _ _ H Hl E1) as (e1 & H1 & F1 & L1).
    destruct (IH _ _ _ H1 L1 E) as (e2 & H2 & F2 & L2). exists (e1 ++ e2). rewrite app_assoc. splits; auto.
    rewrite map_app. apply Forall_app. auto.
Qed.

Lemma br_table_safe bs s fl (v : vstate) ls d s' :
  Iv bs s fl -> c_last s = None ->
  match nth_error (v_ctrls v) d with
  | Some tf =>
      let s1 :=
        match vf_label tf with
        | None => match push_consume (push_op s IBrTable) with Some (_, x) => Some x | None => None end
        | Some _ => push_consume_n 2 (push_op s IBrTableCarry)
        end in
      match s1 with
      | Some s1 =>
          let s2 := emit s1 (u16_bytes (Z.of_nat (length ls))) in
          match push_br_table_jump s2 d with
          | Some s3 =>
              match push_br_table_jumps s3 ls with
              | Some s4 => truncate s4 (v_opds v)
              | None => None
              end
          | None => None
          end
      | None => None
      end
  | None => None
  end = Some s' -> post bs fl s'.
Proof.
  intros H Hl E. destruct (nth_error (v_ctrls v) d) as [tf|]; [|discriminate]. cbv zeta in E.
  match type of E with match ?X with _ => _ end = _ => destruct X as [s1|] eqn:E1; [|discriminate] end.
  destruct (push_br_table_jump _ d) as [s3|] eqn:E3; [|discriminate].
  destruct (push_br_table_jumps s3 ls) as [s4|] eqn:E4; [|discriminate].
  assert (C : exists o srcs, Iv bs s1 (fl ++ FOp o :: srcs) /\ c_last s1 = None /\
              forall imm tail, length imm = 2%nat -> Forall dt tail -> oshape cx o (map kind_of srcs ++ KImm imm :: tail)).
  { destruct (vf_label tf).
    - pose proof (L_emit nl _ _ _ _ (FOp IBrTableCarry) H Hl Logic.I ltac:(discriminate)) as H1.
      destruct (L_push_consume_n nl _ _ _ _ _ _ H1 Hl E1) as (ps & Lp & H2 & L2 & B2 & _). napp H2.
      exists IBrTableCarry, (map FSrc ps). splits; auto.
      + eapply (Iv_of_L nl bs s); [exact H2|exact B2].
      + intros imm tail Hi Ht. destruct ps as [|a [|b [|c ps]]]; try discriminate Lp. cbn. apply sh_brtablecarry; auto.
    - destruct (push_consume (push_op s IBrTable)) as [[p x]|] eqn:Ep; [|discriminate]. inversion E1; subst.
      pose proof (L_emit nl _ _ _ _ (FOp IBrTable) H Hl Logic.I ltac:(discriminate)) as H1.
      destruct (L_push_consume nl _ _ _ _ _ _ H1 Hl Ep) as (H2 & L2 & B2 & _). napp H2.
      exists IBrTable, [FSrc (provider_idx p)]. splits; auto.
      + eapply (Iv_of_L nl bs s); [exact H2|exact B2].
      + intros imm tail Hi Ht. cbn. apply sh_brtable; auto. }
  destruct C as (o & srcs & H1 & L1 & Sh).
  pose proof (L_emit nl _ _ _ _ (FImm (u16_bytes (Z.of_nat (length ls)))) H1 L1 Logic.I ltac:(discriminate)) as H2.
  assert (H2' : Iv bs (emit s1 (u16_bytes (Z.of_nat (length ls)))) ((fl ++ FOp o :: srcs) ++ [FImm (u16_bytes (Z.of_nat (length ls)))])) by exact H2.
  destruct (table_jump_safe _ _ _ _ _ H2' L1 E3) as (e1 & H3 & F3 & L3).
  destruct (table_jumps_safe _ _ _ _ _ H3 L3 E4) as (e2 & H4 & F4 & L4).
  destruct (L_truncate_n nl _ _ _ _ _ _ H4 E) as (H5 & L5 & B5 & N5).
  napp H5.
  apply (post_simple nl cx bs fl (FOp o :: srcs ++ FImm (u16_bytes (Z.of_nat (length ls))) :: e1 ++ e2)).
  - eapply (Iv_of_L nl bs s4); [exact H5|exact B5].
  - apply shaped_one. rewrite map_app. cbn [map kind_of]. apply Sh; [apply u16_bytes_length|].
    rewrite map_app. apply Forall_app. auto.
Qed.

End Safe3b.
