(** The machine's numeric operators ([Machine.rs_binop], transcribed from the Rust integer
    methods used in machine.rs) agree with the specification's ([IntN]) — PARTIAL: proved for
    add, sub, mul, div_u, rem_u, shl, shr_u and the unsigned/equality comparisons; the other
    operators are covered by the correspondence run only; rem_s is refuted at (MIN,-1). *)
From Coq Require Import ZArith Lia Bool List.
From CB Require Import Common.IntN Common.IntNProofs Wasm.Syntax Wasm.Sem Wasm.Machine.
Import ListNotations.
Local Open Scope Z_scope.

Lemma bits_pos t : 0 < bits t. Proof. destruct t; cbn; lia. Qed.

Lemma signed_cong n x : 0 <= n -> signed n x mod modulus n = x mod modulus n.
Proof.
  intros Hn. unfold signed. pose proof (modulus_pos n Hn). destruct (x <? half_modulus n); [reflexivity|].
  replace (x - modulus n) with (x + (-1) * modulus n) by lia. apply Z.mod_add. lia.
Qed.

Lemma as_i32_signed x : in_range 32 x -> as_i32 x = signed 32 x.
Proof.
  intros [H0 H1]. unfold as_i32, low32, two32, signed. change (modulus 32) with 4294967296 in *.
  change (half_modulus 32) with 2147483648. rewrite Z.mod_small by lia. reflexivity.
Qed.
Lemma as_i64_signed x : in_range 64 x -> as_i64 x = signed 64 x.
Proof.
  intros [H0 H1]. unfold as_i64, two64, signed. change (modulus 64) with 18446744073709551616 in *.
  change (half_modulus 64) with 9223372036854775808. rewrite Z.mod_small by lia. reflexivity.
Qed.

Definition proved_binops : list binop := [Add; Sub; Mul; DivU; RemU; Shl; ShrU].

Lemma rs_binop_agrees t op x y :
  In op proved_binops -> in_range (bits t) x -> in_range (bits t) y ->
  match rs_binop (bits t) op (signed (bits t) x) (signed (bits t) y) x y with
  | inr r => app_binop t op x y = Some (r mod 2 ^ bits t)
  | inl _ => app_binop t op x y = None
  end.
Proof.
  intros Hop Hx Hy. pose proof (bits_pos t) as Hn. set (n := bits t) in *.
  assert (Hn0 : 0 <= n) by lia. pose proof (modulus_pos n Hn0) as HM.
  pose proof (signed_cong n x Hn0) as Sx. pose proof (signed_cong n y Hn0) as Sy.
  unfold modulus in *.
  unfold proved_binops in Hop. cbn [In] in Hop.
  destruct Hop as [<-|[<-|[<-|[<-|[<-|[<-|[<-|[]]]]]]]]; cbn [rs_binop app_binop]; fold n.
  - (* add *) unfold iadd, wrap, modulus. f_equal. rewrite (Z.add_mod x y), (Z.add_mod (signed n x)) by lia.
    rewrite Sx, Sy. reflexivity.
  - (* sub *) rewrite isub_spec by lia. f_equal. rewrite (Zminus_mod x y), (Zminus_mod (signed n x)).
    rewrite Sx, Sy. reflexivity.
  - (* mul *) unfold imul, wrap, modulus. f_equal. rewrite (Z.mul_mod x y), (Z.mul_mod (signed n x)) by lia.
    rewrite Sx, Sy. reflexivity.
  - (* div_u *) unfold idiv_u. destruct (y =? 0) eqn:E; [reflexivity|]. f_equal. symmetry. apply Z.mod_small.
    apply (idiv_u_range n x y); auto. unfold idiv_u. rewrite E. reflexivity.
  - (* rem_u *) unfold irem_u. destruct (y =? 0) eqn:E; [reflexivity|]. f_equal. symmetry. apply Z.mod_small.
    apply (irem_u_range n x y); auto. unfold irem_u. rewrite E. reflexivity.
  - (* shl *) unfold ishl, wrap, modulus. f_equal. rewrite Z.shiftl_mul_pow2; [reflexivity|].
    apply Z.mod_pos_bound. lia.
  - (* shr_u *) unfold ishr_u. f_equal. rewrite Z.shiftr_div_pow2 by (apply Z.mod_pos_bound; lia).
    symmetry. apply Z.mod_small. apply (ishr_u_range n x y Hn Hx).
Qed.

(** comparisons: the machine compares the signed / unsigned views, the specification does the same *)
Lemma rs_relop_agrees t op x y :
  rs_relop op (signed (bits t) x) (signed (bits t) y) x y = app_relop t op x y
  \/ (op = Eq \/ op = Ne).
Proof.
  destruct op; try (left; reflexivity); right; auto.
Qed.
Lemma rs_relop_eq_agrees t x y : in_range (bits t) x -> in_range (bits t) y ->
  rs_relop Eq (signed (bits t) x) (signed (bits t) y) x y = app_relop t Eq x y
  /\ rs_relop Ne (signed (bits t) x) (signed (bits t) y) x y = app_relop t Ne x y.
Proof.
  intros Hx Hy. pose proof (bits_pos t) as Hn.
  assert (E : (signed (bits t) x =? signed (bits t) y) = (x =? y)).
  { destruct (Z.eqb_spec x y) as [->|Hne]; [apply Z.eqb_refl|].
    apply Z.eqb_neq. intro H. apply Hne.
    rewrite <- (unsigned_signed (bits t) x Hn Hx), <- (unsigned_signed (bits t) y Hn Hy), H. reflexivity. }
  unfold rs_relop, app_relop, ieq, ine, bool_to_Z. rewrite E. split; reflexivity.
Qed.

Lemma rs_relop_all t op x y : in_range (bits t) x -> in_range (bits t) y ->
  rs_relop op (signed (bits t) x) (signed (bits t) y) x y = app_relop t op x y.
Proof.
  intros Hx Hy. destruct (rs_relop_eq_agrees t x y Hx Hy) as [E1 E2].
  destruct op; try reflexivity; assumption.
Qed.
