(** The machine's numeric operators ([Machine.rs_binop], transcribed from the Rust integer
    methods used in machine.rs) agree with the specification's ([IntN]) — PARTIAL: proved for
    add, sub, mul, div_u, rem_u, shl, shr_u and the unsigned/equality comparisons; the other
    operators are covered by the correspondence run only; rem_s is refuted at (MIN,-1).
    Second part of the file: ALL operators ([rs_binop_agrees_all], [rs_unop32_agrees],
    [rs_unop64_agrees], [rs_eqz_agrees], [rs_cvt_agrees]). *)
From Coq Require Import ZArith Lia Bool List.
From CB Require Import Common.IntN Common.IntNProofs Wasm.Syntax Wasm.Sem Wasm.Machine.
Import ListNotations.
Local Open Scope Z_scope.

Lemma bits_pos t : 0 < bits t. Proof. destruct t; cbn; lia. Qed.

Lemma signed_cong n x : 0 <= n -> signed n x mod modulus n = x mod modulus n.
Proof.
  intros Hn. unfold signed. pose proof (modulus_pos n Hn). destruct (x <? half_modulus n); [reflexivity|].
  replace (x - modulus n) with (x + (-1) * modulus n) by lia. apply Z.mod_add. lia.
Qed.

Lemma as_i32_signed x : in_range 32 x -> as_i32 x = signed 32 x.
Proof.
  intros [H0 H1]. unfold as_i32, low32, two32, signed. change (modulus 32) with 4294967296 in *.
  change (half_modulus 32) with 2147483648. rewrite Z.mod_small by lia. reflexivity.
Qed.
Lemma as_i64_signed x : in_range 64 x -> as_i64 x = signed 64 x.
Proof.
  intros [H0 H1]. unfold as_i64, two64, signed. change (modulus 64) with 18446744073709551616 in *.
  change (half_modulus 64) with 9223372036854775808. rewrite Z.mod_small by lia. reflexivity.
Qed.

Definition proved_binops : list binop := [Add; Sub; Mul; DivU; RemU; Shl; ShrU].

Lemma rs_binop_agrees t op x y :
  In op proved_binops -> in_range (bits t) x -> in_range (bits t) y ->
  match rs_binop (bits t) op (signed (bits t) x) (signed (bits t) y) x y with
  | inr r => app_binop t op x y = Some (r mod 2 ^ bits t)
  | inl _ => app_binop t op x y = None
  end.
Proof.
  intros Hop Hx Hy. pose proof (bits_pos t) as Hn. set (n := bits t) in *.
  assert (Hn0 : 0 <= n) by lia. pose proof (modulus_pos n Hn0) as HM.
  pose proof (signed_cong n x Hn0) as Sx. pose proof (signed_cong n y Hn0) as Sy.
  unfold modulus in *.
  unfold proved_binops in Hop. cbn [In] in Hop.
  destruct Hop as [<-|[<-|[<-|[<-|[<-|[<-|[<-|[]]]]]]]]; cbn [rs_binop app_binop]; fold n.
  - (* add *) unfold iadd, wrap, modulus. f_equal. rewrite (Z.add_mod x y), (Z.add_mod (signed n x)) by lia.
    rewrite Sx, Sy. reflexivity.
  - (* sub *) rewrite isub_spec by lia. f_equal. rewrite (Zminus_mod x y), (Zminus_mod (signed n x)).
    rewrite Sx, Sy. reflexivity.
  - (* mul *) unfold imul, wrap, modulus. f_equal. rewrite (Z.mul_mod x y), (Z.mul_mod (signed n x)) by lia.
    rewrite Sx, Sy. reflexivity.
  - (* div_u *) unfold idiv_u. destruct (y =? 0) eqn:E; [reflexivity|]. f_equal. symmetry. apply Z.mod_small.
    apply (idiv_u_range n x y); auto. unfold idiv_u. rewrite E. reflexivity.
  - (* rem_u *) unfold irem_u. destruct (y =? 0) eqn:E; [reflexivity|]. f_equal. symmetry. apply Z.mod_small.
    apply (irem_u_range n x y); auto. unfold irem_u. rewrite E. reflexivity.
  - (* shl *) unfold ishl, wrap, modulus. f_equal. rewrite Z.shiftl_mul_pow2; [reflexivity|].
    apply Z.mod_pos_bound. lia.
  - (* shr_u *) unfold ishr_u. f_equal. rewrite Z.shiftr_div_pow2 by (apply Z.mod_pos_bound; lia).
    symmetry. apply Z.mod_small. apply (ishr_u_range n x y Hn Hx).
Qed.

(** comparisons: the machine compares the signed / unsigned views, the specification does the same *)
Lemma rs_relop_agrees t op x y :
  rs_relop op (signed (bits t) x) (signed (bits t) y) x y = app_relop t op x y
  \/ (op = Eq \/ op = Ne).
Proof.
  destruct op; try (left; reflexivity); right; auto.
Qed.
Lemma rs_relop_eq_agrees t x y : in_range (bits t) x -> in_range (bits t) y ->
  rs_relop Eq (signed (bits t) x) (signed (bits t) y) x y = app_relop t Eq x y
  /\ rs_relop Ne (signed (bits t) x) (signed (bits t) y) x y = app_relop t Ne x y.
Proof.
  intros Hx Hy. pose proof (bits_pos t) as Hn.
  assert (E : (signed (bits t) x =? signed (bits t) y) = (x =? y)).
  { destruct (Z.eqb_spec x y) as [->|Hne]; [apply Z.eqb_refl|].
    apply Z.eqb_neq. intro H. apply Hne.
    rewrite <- (unsigned_signed (bits t) x Hn Hx), <- (unsigned_signed (bits t) y Hn Hy), H. reflexivity. }
  unfold rs_relop, app_relop, ieq, ine, bool_to_Z. rewrite E. split; reflexivity.
Qed.

Lemma rs_relop_all t op x y : in_range (bits t) x -> in_range (bits t) y ->
  rs_relop op (signed (bits t) x) (signed (bits t) y) x y = app_relop t op x y.
Proof.
  intros Hx Hy. destruct (rs_relop_eq_agrees t x y Hx Hy) as [E1 E2].
  destruct op; try reflexivity; assumption.
Qed.


(** ** All binary operators *)
Lemma signed_eq0 n y : 0 < n -> in_range n y -> (signed n y = 0 <-> y = 0).
Proof.
  intros Hn [H0 H1]. unfold signed. pose proof (half_modulus_pos n Hn). destruct (Z.ltb_spec y (half_modulus n)); lia.
Qed.

Lemma quot_overflow_iff h sx sy : 1 <= h -> - h <= sx < h -> - h <= sy < h -> sy <> 0 ->
  (Z.quot sx sy = h <-> sx = - h /\ sy = -1).
Proof.
  intros Hh Hx Hy Hne. split.
  - intros Hq.
    pose proof (Z.quot_rem' sx sy) as E. rewrite Hq in E.
    pose proof (Z.rem_bound_abs sx sy Hne) as B.
    assert (Rn : 0 <= sx -> 0 <= Z.rem sx sy) by (intros; apply Z.rem_nonneg; lia).
    assert (Rp : sx <= 0 -> Z.rem sx sy <= 0) by (intros; apply Z.rem_nonpos; lia).
    set (r := Z.rem sx sy) in *.
    destruct (Z_le_gt_dec 1 sy) as [Hp|Hn].
    + (* sy >= 1 *) exfalso. destruct (Z_le_gt_dec 0 sx).
      * specialize (Rn ltac:(lia)). nia.
      * specialize (Rp ltac:(lia)). assert (- sy < r) by lia. nia.
    + assert (sy <= -1) by lia. destruct (Z.eq_dec sy (-1)) as [->|].
      * split; [|reflexivity]. assert (r = 0) by lia. lia.
      * exfalso. assert (sy <= -2) by lia. destruct (Z_le_gt_dec 0 sx).
        -- specialize (Rn ltac:(lia)). assert (r < - sy) by lia. nia.
        -- specialize (Rp ltac:(lia)). nia.
  - intros [-> ->]. change (-1) with (- (1)). rewrite Z.quot_opp_opp by lia. apply Z.quot_1_r.
Qed.

Lemma log2_bound n a : 0 <= n -> 0 <= a -> (a < 2 ^ n <-> (a = 0 \/ Z.log2 a < n)).
Proof.
  intros Hn Ha. split.
  - intros H. destruct (Z.eq_dec a 0); [left; auto|right]. apply Z.log2_lt_pow2; lia.
  - intros [->|H]; [apply Z.pow_pos_nonneg; lia|].
    destruct (Z.eq_dec a 0) as [->|]; [apply Z.pow_pos_nonneg; lia|]. apply Z.log2_lt_pow2; lia.
Qed.

Lemma land_range n a b : 0 <= n -> 0 <= a < 2 ^ n -> 0 <= b < 2 ^ n -> 0 <= Z.land a b < 2 ^ n.
Proof.
  intros Hn Ha Hb. assert (0 <= Z.land a b) by (apply Z.land_nonneg; lia). split; [auto|].
  apply log2_bound; auto. destruct (Z.eq_dec (Z.land a b) 0); [left; auto|right].
  pose proof (Z.log2_land a b ltac:(lia) ltac:(lia)).
  assert (a <> 0) by (intros ->; rewrite Z.land_0_l in *; lia).
  assert (Z.log2 a < n) by (apply Z.log2_lt_pow2; lia). lia.
Qed.
Lemma lor_range n a b : 0 <= n -> 0 <= a < 2 ^ n -> 0 <= b < 2 ^ n -> 0 <= Z.lor a b < 2 ^ n.
Proof.
  intros Hn Ha Hb. assert (0 <= Z.lor a b) by (apply Z.lor_nonneg; lia). split; [auto|].
  apply log2_bound; auto. destruct (Z.eq_dec (Z.lor a b) 0) as [|Hnz]; [left; auto|right].
  rewrite Z.log2_lor by lia.
  assert (La : a = 0 \/ Z.log2 a < n) by (apply log2_bound; lia).
  assert (Lb : b = 0 \/ Z.log2 b < n) by (apply log2_bound; lia).
  pose proof (Z.log2_nonneg a). pose proof (Z.log2_nonneg b).
  destruct La as [->|La], Lb as [->|Lb]; change (Z.log2 0) with 0 in *.
  - exfalso. apply Hnz. reflexivity.
  - lia.
  - lia.
  - lia.
Qed.
Lemma lxor_range n a b : 0 <= n -> 0 <= a < 2 ^ n -> 0 <= b < 2 ^ n -> 0 <= Z.lxor a b < 2 ^ n.
Proof.
  intros Hn Ha Hb. assert (0 <= Z.lxor a b) by (apply Z.lxor_nonneg; lia). split; [auto|].
  apply log2_bound; auto. destruct (Z.eq_dec (Z.lxor a b) 0); [left; auto|right].
  pose proof (Z.log2_lxor a b ltac:(lia) ltac:(lia)).
  assert (La : a = 0 \/ Z.log2 a < n) by (apply log2_bound; lia).
  assert (Lb : b = 0 \/ Z.log2 b < n) by (apply log2_bound; lia).
  destruct La as [->|La], Lb as [->|Lb]; cbn [Z.log2] in *.
  - rewrite Z.lxor_0_l in *. lia.
  - rewrite Z.lxor_0_l in *. lia.
  - rewrite Z.lxor_0_r in *. lia.
  - lia.
Qed.

Lemma irotr_range n x k : 0 < n -> in_range n x -> in_range n (irotr n x k).
Proof.
  intros Hn Hx. assert (Hk : 0 <= k mod n < n) by (apply Z.mod_pos_bound; lia).
  replace (irotr n x k) with (irotr n x (k mod n)) by (unfold irotr; rewrite Z.mod_mod by lia; reflexivity).
  rewrite irotr_formula by auto. set (j := k mod n) in *.
  destruct Hx as [H0 H1]. unfold in_range, modulus in *.
  assert (Pj : 0 < 2 ^ j) by (apply Z.pow_pos_nonneg; lia).
  assert (Pn : 0 < 2 ^ (n - j)) by (apply Z.pow_pos_nonneg; lia).
  assert (En : 2 ^ n = 2 ^ j * 2 ^ (n - j)) by (rewrite <- Z.pow_add_r by lia; f_equal; lia).
  pose proof (Z.mod_pos_bound x (2 ^ j) Pj). pose proof (Z.div_pos x (2 ^ j) H0 Pj).
  assert (x / 2 ^ j < 2 ^ (n - j)) by (apply Z.div_lt_upper_bound; lia).
  split; [nia|]. rewrite En. nia.
Qed.

Definition binop_eq_dec : forall a b : binop, {a = b} + {a <> b}.
Proof. decide equality. Defined.

Definition f3_operands (n x y : Z) : Prop := signed n x = - half_modulus n /\ signed n y = -1.

Lemma rs_binop_agrees_all t op x y :
  in_range (bits t) x -> in_range (bits t) y -> (op = RemS -> ~ f3_operands (bits t) x y) ->
  match rs_binop (bits t) op (signed (bits t) x) (signed (bits t) y) x y with
  | inr r => app_binop t op x y = Some (r mod 2 ^ bits t)
  | inl _ => app_binop t op x y = None
  end.
Proof.
  intros Hx Hy HF3.
  destruct (in_dec binop_eq_dec op proved_binops) as [Hin|Hnin].
  { apply rs_binop_agrees; auto. }
  pose proof (bits_pos t) as Hn. set (n := bits t) in *.
  assert (Hn0 : 0 <= n) by lia. pose proof (modulus_pos n Hn0) as HM.
  pose proof (signed_range n x Hn Hx) as Rx. pose proof (signed_range n y Hn Hy) as Ry.
  pose proof (half_modulus_pos n Hn) as Hh.
  assert (Hmin : min_int n = - half_modulus n) by reflexivity.
  assert (Hk : 0 <= y mod n < n) by (apply Z.mod_pos_bound; lia).
  destruct op; try (exfalso; apply Hnin; cbn; tauto); cbn [rs_binop app_binop]; fold n.
  - (* div_s *)
    unfold idiv_s. destruct (Z.eqb_spec y 0) as [->|Hy0].
    + assert (E : signed n 0 = 0) by (apply signed_eq0; auto; split; lia). rewrite E. reflexivity.
    + assert (Hs : signed n y <> 0) by (intro E; apply Hy0; apply (signed_eq0 n y Hn Hy); exact E).
      destruct (Z.eqb_spec (signed n y) 0); [contradiction|].
      pose proof (quot_overflow_iff (half_modulus n) (signed n x) (signed n y) ltac:(lia) Rx Ry Hs) as Q.
      rewrite Hmin.
      destruct (Z.eqb_spec (signed n x) (- half_modulus n)) as [Ex|Ex];
        destruct (Z.eqb_spec (signed n y) (-1)) as [Ey|Ey]; cbn [andb].
      * destruct (Z.eqb_spec (Z.quot (signed n x) (signed n y)) (half_modulus n)); [reflexivity|tauto].
      * destruct (Z.eqb_spec (Z.quot (signed n x) (signed n y)) (half_modulus n)); [tauto|reflexivity].
      * destruct (Z.eqb_spec (Z.quot (signed n x) (signed n y)) (half_modulus n)); [tauto|reflexivity].
      * destruct (Z.eqb_spec (Z.quot (signed n x) (signed n y)) (half_modulus n)); [tauto|reflexivity].
  - (* rem_s *)
    unfold irem_s. destruct (Z.eqb_spec y 0) as [->|Hy0].
    + assert (E : signed n 0 = 0) by (apply signed_eq0; auto; split; lia). rewrite E. reflexivity.
    + assert (Hs : signed n y <> 0) by (intro E; apply Hy0; apply (signed_eq0 n y Hn Hy); exact E).
      destruct (Z.eqb_spec (signed n y) 0); [contradiction|].
      rewrite Hmin.
      destruct (Z.eqb_spec (signed n x) (- half_modulus n)) as [Ex|Ex];
        destruct (Z.eqb_spec (signed n y) (-1)) as [Ey|Ey]; cbn [andb]; try reflexivity.
      exfalso. apply (HF3 eq_refl). split; assumption.
  - (* and *) unfold iand. f_equal. symmetry. apply Z.mod_small. apply land_range; auto.
  - (* or *) unfold ior. f_equal. symmetry. apply Z.mod_small. apply lor_range; auto.
  - (* xor *) unfold ixor. f_equal. symmetry. apply Z.mod_small. apply lxor_range; auto.
  - (* shr_s *) unfold ishr_s, unsigned, wrap, modulus. f_equal. rewrite Z.shiftr_div_pow2 by lia. reflexivity.
  - (* rotl *)
    pose proof (irotl_range n x y Hn Hx) as R. unfold irotl in *. unfold rs_rotl.
    rewrite Z.shiftl_mul_pow2, Z.shiftr_div_pow2 by lia. f_equal. unfold wrap, modulus in *.
    symmetry. apply Z.mod_small. exact R.
  - (* rotr *)
    pose proof (irotr_range n x y Hn Hx) as R. unfold irotr in *. unfold rs_rotr.
    rewrite Z.shiftl_mul_pow2, Z.shiftr_div_pow2 by lia. f_equal. unfold wrap, modulus in *.
    symmetry. apply Z.mod_small. exact R.
Qed.

(** ** Unary operators, tests, conversions *)
Lemma pos_tz_ctz p : pos_tz p = pos_ctz p. Proof. induction p; cbn; auto; try (rewrite IHp; reflexivity). Qed.
Lemma pos_ones_popcnt p : pos_ones p = pos_popcnt p.
Proof. induction p; cbn; auto; try (rewrite IHp; reflexivity). Qed.

Lemma as_u32_id x : in_range 32 x -> as_u32 x = x.
Proof. intros [H0 H1]. unfold as_u32, low32, two32. change (modulus 32) with 4294967296 in H1. apply Z.mod_small; lia. Qed.
Lemma as_u64_id x : in_range 64 x -> as_u64 x = x.
Proof. intros [H0 H1]. unfold as_u64, two64. change (modulus 64) with 18446744073709551616 in H1. apply Z.mod_small; lia. Qed.

Lemma sext_signed k v : sext k v = signed k (v mod 2 ^ k).
Proof. reflexivity. Qed.

Lemma signed_low_bits n k x : 0 <= k <= n -> signed n x mod 2 ^ k = x mod 2 ^ k.
Proof.
  intros Hk. unfold signed. destruct (x <? half_modulus n); [reflexivity|].
  unfold modulus. replace n with (k + (n - k)) at 1 by lia. rewrite Z.pow_add_r by lia.
  replace (x - 2 ^ k * 2 ^ (n - k)) with (x + (- 2 ^ (n - k)) * 2 ^ k) by ring.
  apply Z.mod_add. apply Z.pow_nonzero; lia.
Qed.

Lemma rs_unop32_agrees op x : in_range 32 x -> op <> Extend32S ->
  app_unop T_i32 op x = Some (rs_unop32 op x mod 2 ^ 32).
Proof.
  intros Hx Hop. pose proof (as_u32_id x Hx) as U. pose proof (as_i32_signed x Hx) as S.
  destruct op; try contradiction; cbn [app_unop rs_unop32 bits]; f_equal; try rewrite U; try rewrite S.
  - pose proof (iclz_range 32 x ltac:(lia) Hx). symmetry. rewrite Z.mod_small.
    + unfold iclz, bitlen, rs_leading_zeros. destruct x; lia.
    + unfold iclz, bitlen, rs_leading_zeros in *. destruct x; lia.
  - pose proof (ictz_range 32 x ltac:(lia) Hx). symmetry.
    assert (E : rs_trailing_zeros 32 x = ictz 32 x) by (unfold ictz, rs_trailing_zeros; destruct x; auto; apply pos_tz_ctz).
    rewrite E. apply Z.mod_small. lia.
  - pose proof (ipopcnt_range 32 x ltac:(lia) Hx). symmetry.
    assert (E : rs_count_ones x = ipopcnt 32 x) by (unfold ipopcnt, rs_count_ones; destruct x; auto; apply pos_ones_popcnt).
    rewrite E. apply Z.mod_small. lia.
  - unfold iextendM_s, iextend_s, unsigned, wrap, modulus. rewrite sext_signed.
    rewrite (signed_low_bits 32 8 x) by lia. reflexivity.
  - unfold iextendM_s, iextend_s, unsigned, wrap, modulus. rewrite sext_signed.
    rewrite (signed_low_bits 32 16 x) by lia. reflexivity.
Qed.

Lemma rs_unop64_agrees op x : in_range 64 x ->
  app_unop T_i64 op x = Some (rs_unop64 op x mod 2 ^ 64).
Proof.
  intros Hx. pose proof (as_u64_id x Hx) as U. pose proof (as_i64_signed x Hx) as S.
  destruct op; cbn [app_unop rs_unop64 bits]; f_equal; try rewrite U; try rewrite S.
  - pose proof (iclz_range 64 x ltac:(lia) Hx). symmetry. rewrite Z.mod_small.
    + unfold iclz, bitlen, rs_leading_zeros. destruct x; lia.
    + unfold iclz, bitlen, rs_leading_zeros in *. destruct x; lia.
  - pose proof (ictz_range 64 x ltac:(lia) Hx). symmetry.
    assert (E : rs_trailing_zeros 64 x = ictz 64 x) by (unfold ictz, rs_trailing_zeros; destruct x; auto; apply pos_tz_ctz).
    rewrite E. apply Z.mod_small. lia.
  - pose proof (ipopcnt_range 64 x ltac:(lia) Hx). symmetry.
    assert (E : rs_count_ones x = ipopcnt 64 x) by (unfold ipopcnt, rs_count_ones; destruct x; auto; apply pos_ones_popcnt).
    rewrite E. apply Z.mod_small. lia.
  - unfold iextendM_s, iextend_s, unsigned, wrap, modulus. rewrite sext_signed.
    rewrite (signed_low_bits 64 8 x) by lia. reflexivity.
  - unfold iextendM_s, iextend_s, unsigned, wrap, modulus. rewrite sext_signed.
    rewrite (signed_low_bits 64 16 x) by lia. reflexivity.
  - unfold iextendM_s, iextend_s, unsigned, wrap, modulus. rewrite sext_signed.
    rewrite (signed_low_bits 64 32 x) by lia. reflexivity.
Qed.

Lemma rs_eqz_agrees x :
  (in_range 32 x -> rs_eqz32 x = ieqz 32 x) /\ (in_range 64 x -> rs_eqz64 x = ieqz 64 x).
Proof.
  split; intros Hx; unfold rs_eqz32, rs_eqz64, ieqz, bool_to_Z.
  - rewrite (as_i32_signed x Hx). destruct (Z.eqb_spec x 0) as [->|Hne]; [reflexivity|].
    destruct (Z.eqb_spec (signed 32 x) 0) as [E|]; [|reflexivity].
    exfalso. apply Hne. apply (signed_eq0 32 x ltac:(lia) Hx). exact E.
  - rewrite (as_i64_signed x Hx). destruct (Z.eqb_spec x 0) as [->|Hne]; [reflexivity|].
    destruct (Z.eqb_spec (signed 64 x) 0) as [E|]; [|reflexivity].
    exfalso. apply Hne. apply (signed_eq0 64 x ltac:(lia) Hx). exact E.
Qed.

Lemma rs_cvt_agrees x :
  (in_range 64 x -> rs_cvt WrapI64 x mod 2 ^ 32 = iwrap 64 32 x)
  /\ (in_range 32 x -> rs_cvt ExtendI32S x mod 2 ^ 64 = iextend_s 32 64 x)
  /\ (in_range 32 x -> rs_cvt ExtendI32U x mod 2 ^ 64 = iextend_u 32 64 x).
Proof.
  repeat split; intros Hx; cbn [rs_cvt].
  - rewrite (as_i64_signed x Hx). unfold iwrap, wrap, modulus. apply (signed_low_bits 64 32 x). lia.
  - rewrite (as_i32_signed x Hx). reflexivity.
  - rewrite (as_u32_id x Hx). unfold iextend_u. destruct Hx as [H0 H1]. change (modulus 32) with 4294967296 in H1.
    apply Z.mod_small. lia.
Qed.
