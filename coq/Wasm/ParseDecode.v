(** * Wasm/ParseDecode — from the parsed module ([Wasm/Parse.v]) to the module of the reference
    semantics: [decode_module] structures every flat body and expands the locals; the result
    [corresponds] ([Wasm/Accepted.v]) to the module handed to the validator, so that
    [accepted_never_stuck] applies to byte strings. *)
From Coq Require Import ZArith NArith List Bool Arith Lia.
From CB Require Import Common.IntN Wasm.Syntax Wasm.Opcodes Gen.Limits Wasm.Validate Wasm.Leb128 Wasm.Parse
  Wasm.Typing Wasm.ValidateProofs Wasm.Sem Wasm.TypeSound Wasm.Accepted.
Import ListNotations.

Definition mkv (t : valtype) (z : Z) : val := match t with T_i32 => VI32 z | T_i64 => VI64 z end.

Definition decode_func (cap : N) (x : N * (list (N * valtype) * list (opcode * N))) : option func :=
  match structure_body (map fst (snd (snd x))) with
  | Some is => Some {| f_type := idx cap (fst x); f_locals := expand_locals (fst (snd x)); f_body := is |}
  | None => None
  end.
Fixpoint decode_funcs (cap : N) (l : list (N * (list (N * valtype) * list (opcode * N)))) : option (list func) :=
  match l with
  | [] => Some []
  | x :: r =>
      match decode_func cap x, decode_funcs cap r with
      | Some f, Some fs => Some (f :: fs)
      | _, _ => None
      end
  end.

Definition decode_module (cap : N) (p : pmodule) : option module :=
  match decode_funcs cap (combine (pm_functypes p) (pm_code p)) with
  | Some funcs =>
      Some {| m_types := pm_types p;
              m_imports := map (fun i => idx cap (pi_type i)) (pm_imports p);
              m_funcs := funcs;
              m_table := pm_table p;
              m_elems := map (fun e => (u32_of_i32 (fst e), map N.to_nat (snd e))) (pm_elems p);
              m_mem := match pm_mem p with Some (mn, mx) => Some {| l_min := mn; l_max := mx |} | None => None end;
              m_data := map (fun d => (Z.to_N (fst d), map Z.of_N (snd d))) (pm_data p);
              m_globals := map (fun g => {| g_mut := snd (fst g); g_init := mkv (fst (fst g)) (snd g) |}) (pm_globals p) |}
  | None => None
  end.

Lemma decode_funcs_rel cap : forall l fs, decode_funcs cap l = Some fs ->
  Forall2 (fun vf f => f_type f = mf_type vf /\ f_locals f = expand_locals (mf_locals vf) /\
                       structure_body (map fst (mf_body vf)) = Some (f_body f))
          (map (fun '(ti, (ls, ops)) => {| mf_type := idx cap ti; mf_locals := ls; mf_body := ops |}) l) fs.
Proof.
  induction l as [|[ti [ls ops]] r IH]; intros fs; cbn [decode_funcs map].
  - intros E; inversion E; constructor.
  - unfold decode_func. cbn [fst snd].
    destruct (structure_body (map fst ops)) as [is|] eqn:ES; [|discriminate].
    destruct (decode_funcs cap r) as [fs'|]; [|discriminate]. intros E; inversion E; subst.
    constructor; [|apply IH; reflexivity]. cbn. auto.
Qed.

Theorem decode_corresponds cap p vm m :
  to_vmodule cap p = Some vm -> decode_module cap p = Some m -> corresponds vm m.
Proof.
  unfold to_vmodule, decode_module.
  destruct (negb _); [discriminate|]. destruct (existsb _ _); [discriminate|].
  intros EV; inversion EV; subst; clear EV.
  destruct (decode_funcs cap _) as [funcs|] eqn:EF; [|discriminate]. intros EM; inversion EM; subst; clear EM.
  constructor; cbn.
  - reflexivity.
  - reflexivity.
  - apply decode_funcs_rel. exact EF.
  - rewrite map_map. apply map_ext. intros [[t mu] z]. cbn. destruct t; reflexivity.
  - reflexivity.
  - destruct (pm_mem p) as [[mn mx]|]; cbn; auto.
  - rewrite map_map. apply map_ext. intros [off fs]. cbn. f_equal.
    rewrite map_map. rewrite <- (map_id fs) at 2. apply map_ext. intros x. apply N2Nat.id.
  - rewrite map_map. apply map_ext. intros [off bs]. cbn. now rewrite map_length.
Qed.

(** [accepted_bytes_never_stuck]: for a byte string that the parser model parses and the
    validation model accepts (outside KF-C09-1), the decoded module never gets stuck. *)
Theorem accepted_bytes_never_stuck_thm cfg bs p r a vm m host page_cap fuel fi args ft :
  parse_module cfg bs = POk p r a ->
  to_vmodule (N.of_nat (length bs)) p = Some vm ->
  validate_module (cfg_signext cfg) vm = true -> no_trailing (cfg_signext cfg) vm ->
  decode_module (N.of_nat (length bs)) p = Some m ->
  host_ok host m ->
  nth_error (ftypes m) fi = Some ft -> map type_of_val args = ft_params ft ->
  run host page_cap m fuel fi args <> Stuck.
Proof.
  intros _ TV VAL NT DM HOK HF HA.
  eapply accepted_never_stuck_thm; eauto. eapply decode_corresponds; eauto.
Qed.

(** an accepted module always decodes (its bodies are well nested), outside KF-C09-1 *)
Theorem accepted_decodes cfg bs p r a vm :
  parse_module cfg bs = POk p r a ->
  to_vmodule (N.of_nat (length bs)) p = Some vm ->
  validate_module (cfg_signext cfg) vm = true -> no_trailing (cfg_signext cfg) vm ->
  exists m, decode_module (N.of_nat (length bs)) p = Some m.
Proof.
  intros _ TV VAL NT. unfold decode_module.
  assert (G : exists fs, decode_funcs (N.of_nat (length bs)) (combine (pm_functypes p) (pm_code p)) = Some fs).
  { unfold to_vmodule in TV. destruct (negb _); [discriminate|]. destruct (existsb _ _); [discriminate|].
    inversion TV; subst; clear TV.
    assert (H : forall vf, In vf (map (fun '(ti, (ls, ops)) => {| mf_type := idx (N.of_nat (length bs)) ti; mf_locals := ls; mf_body := ops |})
                                   (combine (pm_functypes p) (pm_code p))) ->
                exists is, structure_body (map fst (mf_body vf)) = Some is).
    { intros vf Hin. destruct (validate_module_sound_thm _ _ VAL vf Hin) as (ft & locals & h & T & ML & _ & _ & _ & HB).
      destruct (HB (NT _ _ _ Hin T ML)) as (is & SB & _). eauto. }
    revert H. generalize (combine (pm_functypes p) (pm_code p)). intros l.
    induction l as [|[ti [ls ops]] rest IH]; intros H; cbn [decode_funcs]; [eauto|].
    unfold decode_func. cbn [fst snd].
    destruct (H {| mf_type := idx (N.of_nat (length bs)) ti; mf_locals := ls; mf_body := ops |}) as [is ES]; [left; reflexivity|].
    cbn in ES. rewrite ES. destruct IH as [fs ->]; [intros vf Hin; apply H; right; exact Hin|]. eauto. }
  destruct G as [fs ->]. eauto.
Qed.
