(** * Wasm/Opcodes — the binary opcode numbers of the instructions without structure
    (WebAssembly 1.0 binary format 5.4, + sign-extension operators 0xC0-0xC4).
    Used by the line-format reader of the model runner and by the parser model.
    Definitions only. *)
From Coq Require Import ZArith NArith List.
From CB Require Import Common.IntN Wasm.Syntax.
Import ListNotations.
Local Open Scope N_scope.

Definition binops : list binop :=
  [Add; Sub; Mul; DivS; DivU; RemS; RemU; And; Or; Xor; Shl; ShrS; ShrU; Rotl; Rotr].
Definition relops : list relop := [Eq; Ne; LtS; LtU; GtS; GtU; LeS; LeU; GeS; GeU].
Definition cnt_unops : list unop := [Clz; Ctz; Popcnt].

Definition in_range (b lo hi : N) : bool := (lo <=? b) && (b <=? hi).
Definition nth_from {A} (l : list A) (b lo : N) : option A := nth_error l (N.to_nat (b - lo)).
Definition omap {A B} (f : A -> B) (o : option A) : option B :=
  match o with Some x => Some (f x) | None => None end.

(** instructions without immediates *)
Definition plain_of_byte (b : N) : option binstr :=
  if b =? 0x00 then Some BUnreachable
  else if b =? 0x01 then Some BNop
  else if b =? 0x0f then Some BReturn
  else if b =? 0x1a then Some BDrop
  else if b =? 0x1b then Some BSelect
  else if b =? 0x3f then Some BMemorySize
  else if b =? 0x40 then Some BMemoryGrow
  else if b =? 0x45 then Some (BEqz T_i32)
  else if in_range b 0x46 0x4f then omap (BRelop T_i32) (nth_from relops b 0x46)
  else if b =? 0x50 then Some (BEqz T_i64)
  else if in_range b 0x51 0x5a then omap (BRelop T_i64) (nth_from relops b 0x51)
  else if in_range b 0x67 0x69 then omap (BUnop T_i32) (nth_from cnt_unops b 0x67)
  else if in_range b 0x6a 0x78 then omap (BBinop T_i32) (nth_from binops b 0x6a)
  else if in_range b 0x79 0x7b then omap (BUnop T_i64) (nth_from cnt_unops b 0x79)
  else if in_range b 0x7c 0x8a then omap (BBinop T_i64) (nth_from binops b 0x7c)
  else if b =? 0xa7 then Some (BCvt WrapI64)
  else if b =? 0xac then Some (BCvt ExtendI32S)
  else if b =? 0xad then Some (BCvt ExtendI32U)
  else if b =? 0xc0 then Some (BUnop T_i32 Extend8S)
  else if b =? 0xc1 then Some (BUnop T_i32 Extend16S)
  else if b =? 0xc2 then Some (BUnop T_i64 Extend8S)
  else if b =? 0xc3 then Some (BUnop T_i64 Extend16S)
  else if b =? 0xc4 then Some (BUnop T_i64 Extend32S)
  else None.

(** memory instructions (the alignment immediate is dropped) *)
Definition mem_of_byte (b : N) (offset : N) : option binstr :=
  if b =? 0x28 then Some (BLoad T_i32 None offset)
  else if b =? 0x29 then Some (BLoad T_i64 None offset)
  else if b =? 0x2c then Some (BLoad T_i32 (Some (P8, SX_S)) offset)
  else if b =? 0x2d then Some (BLoad T_i32 (Some (P8, SX_U)) offset)
  else if b =? 0x2e then Some (BLoad T_i32 (Some (P16, SX_S)) offset)
  else if b =? 0x2f then Some (BLoad T_i32 (Some (P16, SX_U)) offset)
  else if b =? 0x30 then Some (BLoad T_i64 (Some (P8, SX_S)) offset)
  else if b =? 0x31 then Some (BLoad T_i64 (Some (P8, SX_U)) offset)
  else if b =? 0x32 then Some (BLoad T_i64 (Some (P16, SX_S)) offset)
  else if b =? 0x33 then Some (BLoad T_i64 (Some (P16, SX_U)) offset)
  else if b =? 0x34 then Some (BLoad T_i64 (Some (P32, SX_S)) offset)
  else if b =? 0x35 then Some (BLoad T_i64 (Some (P32, SX_U)) offset)
  else if b =? 0x36 then Some (BStore T_i32 None offset)
  else if b =? 0x37 then Some (BStore T_i64 None offset)
  else if b =? 0x3a then Some (BStore T_i32 (Some P8) offset)
  else if b =? 0x3b then Some (BStore T_i32 (Some P16) offset)
  else if b =? 0x3c then Some (BStore T_i64 (Some P8) offset)
  else if b =? 0x3d then Some (BStore T_i64 (Some P16) offset)
  else if b =? 0x3e then Some (BStore T_i64 (Some P32) offset)
  else None.

(** [t.const c] with [c] given as a signed or unsigned integer *)
Definition mk_const (t : valtype) (c : Z) : binstr := BConst t (wrap (bits t) c).
Definition mk_val (t : valtype) (c : Z) : val :=
  match t with T_i32 => VI32 (wrap 32 c) | T_i64 => VI64 (wrap 64 c) end.
