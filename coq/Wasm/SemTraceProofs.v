(** * Wasm/SemTraceProofs — the instrumented interpreter is the reference interpreter:
    forgetting the event trace and the annotations, [SemTrace.texec_*] computes exactly [Sem.exec_*]
    (same fuel, same result). *)
From Coq Require Import ZArith NArith List Bool Lia.
From CB Require Import Common.IntN Wasm.Syntax Wasm.Sem Wasm.CostCtx Wasm.Meter Wasm.SemTrace.
Import ListNotations.
Local Open Scope Z_scope.

Section Erase.
Variable host : nat -> list val -> option memory -> host_result.
Variable cap : N.
Variable m : module.
Variable afs : list afunc.
Hypothesis Hm : m_funcs m = map erase_func afs.

Notation tseq := (texec_seq host cap m afs).
Notation tinstr := (texec_instr host cap m afs).
Notation tinv := (tinvoke host cap m afs).
Notation eseq := (exec_seq host cap m).
Notation einstr := (exec_instr host cap m).
Notation einv := (invoke host cap m).

Lemma afunc_type_eq fi : afunc_type m afs fi = func_type m fi.
Proof.
  unfold afunc_type, func_type. destruct (fi <? length (m_imports m))%nat; [reflexivity|].
  rewrite Hm. unfold nth_opt. rewrite nth_error_map. destruct (nth_error afs _); reflexivity.
Qed.

Lemma eseq_S f s l st is :
  eseq (S f) s l st is =
  match is with
  | [] => RNormal s l st
  | i :: rest => match einstr f s l st i with
                 | RNormal s' l' st' => eseq f s' l' st' rest
                 | r => r
                 end
  end.
Proof. reflexivity. Qed.

Lemma einstr_S f s locals stack i :
  einstr (S f) s locals stack i =

      match i with
      | Block bt body =>
          (* label of arity |bt| whose continuation is the end of the block *)
          match eseq f s locals [] body with
          | RNormal s' l' vs => RNormal s' l' (firstn (arity bt) vs ++ stack)
          | RBr O s' l' vs => RNormal s' l' (firstn (arity bt) vs ++ stack)
          | RBr (S k) s' l' vs => RBr k s' l' vs
          | r => r
          end
      | Loop bt body =>
          (* label of arity 0 (no block parameters in 1.0) whose continuation is the loop *)
          match eseq f s locals [] body with
          | RNormal s' l' vs => RNormal s' l' (firstn (arity bt) vs ++ stack)
          | RBr O s' l' _ => einstr f s' l' stack (Loop bt body)
          | RBr (S k) s' l' vs => RBr k s' l' vs
          | r => r
          end
      | If bt thn els =>
          match stack with
          | VI32 c :: st => einstr f s locals st (Block bt (if c =? 0 then els else thn))
          | _ => RStuck
          end
      | Basic (BBr l) => RBr l s locals stack
      | Basic (BBrIf l) =>
          match stack with
          | VI32 c :: st => if c =? 0 then RNormal s locals st else RBr l s locals st
          | _ => RStuck
          end
      | Basic (BBrTable ls d) =>
          match stack with
          | VI32 c :: st =>
              (* if c < |ls| then br ls[c] else br d *)
              RBr (if c <? Z.of_nat (length ls)
                   then match nth_opt ls (Z.to_nat c) with Some l => l | None => d end
                   else d) s locals st
          | _ => RStuck
          end
      | Basic BReturn => RReturn s stack
      | Basic (BCall fi) =>
          match func_type m fi with
          | Some ft =>
              match take_args (length (ft_params ft)) stack [] with
              | Some (args, st) =>
                  match einv f s fi args with
                  | inr (s', r) => RNormal s' locals (match r with Some v => v :: st | None => st end)
                  | inl r => r
                  end
              | None => RStuck
              end
          | None => RStuck
          end
      | Basic (BCallIndirect ti) =>
          match stack, nth_opt (m_types m) ti with
          | VI32 c :: st0, Some ft =>
              match (if c <? Z.of_nat (length (s_table s)) then nth_opt (s_table s) (Z.to_nat c) else None) with
              | Some (Some fi) =>
                  match func_type m fi with
                  | Some ft' =>
                      if functype_eqb ft ft' then
                        match take_args (length (ft_params ft)) st0 [] with
                        | Some (args, st) =>
                            match einv f s fi args with
                            | inr (s', r) => RNormal s' locals (match r with Some v => v :: st | None => st end)
                            | inl r => r
                            end
                        | None => RStuck
                        end
                      else RTrap
                  | None => RStuck
                  end
              | _ => RTrap   (* index out of table bounds or uninitialised element *)
              end
          | _, _ => RStuck
          end
      | Basic b =>
          match exec_simple cap b s locals stack with
          | inr (s', l', st') => RNormal s' l' st'
          | inl true => RTrap
          | inl false => RStuck
          end
      end.
Proof. reflexivity. Qed.

Lemma einv_S f s fi args :
  einv (S f) s fi args =

      let ni := length (m_imports m) in
      if (fi <? ni)%nat then
        match func_type m fi with
        | Some ft =>
            match host fi args (s_mem s) with
            | HostOk mm r => inr (set_mem s mm, r)
            | HostTrap => inl RTrap
            end
        | None => inl RStuck
        end
      else
        match nth_opt (m_funcs m) (fi - ni) with
        | Some fn =>
            match nth_opt (m_types m) (f_type fn) with
            | Some ft =>
                let locals := args ++ map zero_of (f_locals fn) in
                let fin (s' : store) (vs : list val) : sum res (store * option val) :=
                  match ft_result ft with
                  | None => inr (s', None)
                  | Some _ => match vs with v :: _ => inr (s', Some v) | [] => inl RStuck end
                  end in
                match eseq f s locals [] (f_body fn) with
                | RNormal s' _ vs => fin s' vs
                | RBr O s' _ vs => fin s' vs
                | RReturn s' vs => fin s' vs
                | RBr (S _) _ _ _ => inl RStuck
                | r => inl r
                end
            | None => inl RStuck
            end
        | None => inl RStuck
        end.
Proof. reflexivity. Qed.

Lemma tseq_S f s l st is : tseq (S f) s l st is = seq_body (tseq f) (tinstr f) s l st is.
Proof. reflexivity. Qed.
Lemma tinstr_S f s l st i :
  tinstr (S f) s l st i = instr_body cap m afs (tseq f) (tinstr f) (tinv f) s l st i.
Proof. reflexivity. Qed.
Lemma tinv_S f s fi args : tinv (S f) s fi args = inv_body host m afs (tseq f) s fi args.
Proof. reflexivity. Qed.

Definition P_seq (f : nat) := forall s l st is, snd (tseq f s l st is) = eseq f s l st (erase_seq is).
Definition P_instr (f : nat) := forall s l st i, snd (tinstr f s l st i) = einstr f s l st (erase i).
Definition P_inv (f : nat) := forall s fi args, snd (tinv f s fi args) = einv f s fi args.

Lemma P_seq_step f : P_seq f -> P_instr f -> P_seq (S f).
Proof.
  intros IHs IHi s l st is. destruct is as [|i rest]; [reflexivity|].
  rewrite tseq_S, eseq_S. cbn [seq_body erase_seq map]. rewrite <- IHi.
  destruct (tinstr f s l st i) as [t1 r1]; cbn [snd].
  destruct r1; try reflexivity.
  specialize (IHs s0 locals stack rest). destruct (tseq f s0 locals stack rest) as [t2 r2]; cbn [snd] in *.
  exact IHs.
Qed.

Lemma P_inv_step f : P_seq f -> P_inv (S f).
Proof.
  intros IHs s fi args. rewrite tinv_S, einv_S. unfold inv_body. cbv zeta.
  destruct (fi <? length (m_imports m))%nat.
  - rewrite afunc_type_eq. destruct (func_type m fi); [|reflexivity]. cbn [snd]. reflexivity.
  - rewrite Hm. unfold nth_opt at 1 3. rewrite nth_error_map.
    destruct (nth_error afs (fi - length (m_imports m))) as [fn|]; [|reflexivity].
    cbn [option_map erase_func f_type f_locals f_body].
    destruct (nth_opt (m_types m) (af_type fn)) as [ft|]; [|reflexivity].
    specialize (IHs s (args ++ map zero_of (af_locals fn)) [] (af_body fn)).
    destruct (tseq f s (args ++ map zero_of (af_locals fn)) [] (af_body fn)) as [t r]; cbn [snd] in IHs.
    rewrite <- IHs.
    destruct r as [s' l' vs|k s' l' vs|s' vs| | |]; try reflexivity.
    + unfold fin_result. destruct (ft_result ft); [destruct vs|]; reflexivity.
    + destruct k; [|reflexivity]. unfold fin_result. destruct (ft_result ft); [destruct vs|]; reflexivity.
    + unfold fin_result. destruct (ft_result ft); [destruct vs|]; reflexivity.
Qed.

Lemma P_instr_step f : P_seq f -> P_instr f -> P_inv f -> P_instr (S f).
Proof.
  intros IHs IHi IHv s l st i. destruct i as [o b|o bt body|o bt body|o bt thn els].
  - (* Basic *)
    rewrite tinstr_S, einstr_S. destruct b; cbn [instr_body erase]; try reflexivity.
    + (* br_if *) destruct st as [|[c|c] st]; try reflexivity. destruct (c =? 0)%Z; reflexivity.
    + (* br_table *) destruct st as [|[c|c] st]; reflexivity.
    + (* call *)
      rewrite afunc_type_eq. destruct (func_type m f0) as [ft|]; [|reflexivity].
      destruct (take_args (length (ft_params ft)) st []) as [[args st']|]; [|reflexivity].
      unfold call_body. specialize (IHv s f0 args). destruct (tinv f s f0 args) as [t [r|[s' r]]]; cbn [snd] in *; rewrite <- IHv; reflexivity.
    + (* call_indirect *)
      destruct st as [|[c|c] st0]; try reflexivity.
      destruct (nth_opt (m_types m) ty) as [ft|]; [|reflexivity].
      destruct (if (c <? Z.of_nat (length (s_table s)))%Z then nth_opt (s_table s) (Z.to_nat c) else None) as [[fi|]|]; try reflexivity.
      rewrite afunc_type_eq. destruct (func_type m fi) as [ft'|]; [|reflexivity].
      destruct (functype_eqb ft ft'); [|reflexivity].
      destruct (take_args (length (ft_params ft)) st0 []) as [[args st']|]; [|reflexivity].
      unfold call_body. specialize (IHv s fi args). destruct (tinv f s fi args) as [t [r|[s' r]]]; cbn [snd] in *; rewrite <- IHv; reflexivity.
  - (* Block *)
    rewrite tinstr_S, einstr_S. cbn [instr_body erase]. fold (erase_seq body). rewrite <- IHs.
    destruct (tseq f s l [] body) as [t r]; destruct r as [? ? ?|[|?] ? ? ?|? ?| | |]; reflexivity.
  - (* Loop *)
    rewrite tinstr_S, einstr_S. cbn [instr_body erase]. fold (erase_seq body). rewrite <- IHs.
    destruct (tseq f s l [] body) as [t r]; cbn [snd].
    destruct r as [s' l' vs|k s' l' vs|s' vs| | |]; try reflexivity.
    destruct k; [|reflexivity].
    specialize (IHi s' l' st (ALoop OInj bt body)). cbn [erase] in IHi. fold (erase_seq body) in IHi.
    destruct (tinstr f s' l' st (ALoop OInj bt body)) as [t2 r2]; cbn [snd] in *. exact IHi.
  - (* If *)
    rewrite tinstr_S, einstr_S. cbn [instr_body erase]. destruct st as [|[c|c] st]; try reflexivity.
    specialize (IHi s l st (ABlock OInj bt (if (c =? 0)%Z then els else thn))). cbn [erase] in IHi.
    destruct (tinstr f s l st (ABlock OInj bt (if (c =? 0)%Z then els else thn))) as [t r]; cbn [snd] in *.
    rewrite IHi. destruct (c =? 0)%Z; reflexivity.
Qed.

Theorem texec_erase : forall f, P_seq f /\ P_instr f /\ P_inv f.
Proof.
  induction f as [|f [IHs [IHi IHv]]].
  - repeat split; intro; intros; reflexivity.
  - repeat split; [apply P_seq_step|apply P_instr_step|apply P_inv_step]; assumption.
Qed.

(** whole runs: same outcome *)
Theorem trun_erase fuel fi args :
  snd (trun host cap m afs fuel fi args) = run host cap m fuel fi args.
Proof.
  unfold trun, run. destruct (instantiate m) as [s|]; [|reflexivity].
  destruct (texec_erase fuel) as [_ [_ Hv]]. specialize (Hv s fi args).
  destruct (tinvoke host cap m afs fuel s fi args) as [t [r|[s' r]]]; cbn [snd] in *; rewrite <- Hv; [destruct r|]; reflexivity.
Qed.
End Erase.
