(** * Wasm/Imports — the host functions a module may import and the names / types it may export:
    transcription of [ConcordiumAllowedImports::validate_import_function / validate_export_function]
    of wasm-chain-integration v0/types.rs and v1/types.rs (the match on the item name with its
    [type_matches!] pattern is a lookup in a table with unique names). *)
From Coq Require Import String Ascii List NArith Bool.
From CB Require Import Wasm.Syntax.
Import ListNotations.
Local Open Scope string_scope.

Definition host_sig := (string * list valtype * option valtype)%type.
Notation I32 := T_i32.
Notation I64 := T_i64.

Definition v0_table : list host_sig :=
  [ ("accept", [], Some I32);
    ("simple_transfer", [I32; I64], Some I32);
    ("send", [I64; I64; I32; I32; I64; I32; I32], Some I32);
    ("combine_and", [I32; I32], Some I32);
    ("combine_or", [I32; I32], Some I32);
    ("get_parameter_size", [], Some I32);
    ("get_parameter_section", [I32; I32; I32], Some I32);
    ("get_policy_section", [I32; I32; I32], Some I32);
    ("log_event", [I32; I32], Some I32);
    ("load_state", [I32; I32; I32], Some I32);
    ("write_state", [I32; I32; I32], Some I32);
    ("resize_state", [I32], Some I32);
    ("state_size", [], Some I32);
    ("get_init_origin", [I32], None);
    ("get_receive_invoker", [I32], None);
    ("get_receive_self_address", [I32], None);
    ("get_receive_self_balance", [], Some I64);
    ("get_receive_sender", [I32], None);
    ("get_receive_owner", [I32], None);
    ("get_slot_time", [], Some I64) ].

Definition v1_base_table : list host_sig :=
  [ ("invoke", [I32; I32; I32], Some I64);
    ("write_output", [I32; I32; I32], Some I32);
    ("get_parameter_size", [I32], Some I32);
    ("get_parameter_section", [I32; I32; I32; I32], Some I32);
    ("get_policy_section", [I32; I32; I32], Some I32);
    ("log_event", [I32; I32], Some I32);
    ("get_init_origin", [I32], None);
    ("get_receive_invoker", [I32], None);
    ("get_receive_self_address", [I32], None);
    ("get_receive_self_balance", [], Some I64);
    ("get_receive_sender", [I32], None);
    ("get_receive_owner", [I32], None);
    ("get_receive_entrypoint_size", [], Some I32);
    ("get_receive_entrypoint", [I32], None);
    ("get_slot_time", [], Some I64);
    ("state_lookup_entry", [I32; I32], Some I64);
    ("state_create_entry", [I32; I32], Some I64);
    ("state_delete_entry", [I32; I32], Some I32);
    ("state_delete_prefix", [I32; I32], Some I32);
    ("state_iterate_prefix", [I32; I32], Some I64);
    ("state_iterator_next", [I64], Some I64);
    ("state_iterator_delete", [I64], Some I32);
    ("state_iterator_key_size", [I64], Some I32);
    ("state_iterator_key_read", [I64; I32; I32; I32], Some I32);
    ("state_entry_read", [I64; I32; I32; I32], Some I32);
    ("state_entry_write", [I64; I32; I32; I32], Some I32);
    ("state_entry_size", [I64], Some I32);
    ("state_entry_resize", [I64; I32], Some I32);
    ("verify_ed25519_signature", [I32; I32; I32; I32], Some I32);
    ("verify_ecdsa_secp256k1_signature", [I32; I32; I32], Some I32);
    ("hash_sha2_256", [I32; I32; I32], None);
    ("hash_sha3_256", [I32; I32; I32], None);
    ("hash_keccak_256", [I32; I32; I32], None) ].
Definition v1_table (support_upgrade enable_debug : bool) : list host_sig :=
  v1_base_table
  ++ (if support_upgrade then [("upgrade", [I32], Some I64)] else [])
  ++ (if enable_debug then [("debug_print", [I32; I32; I32; I32; I32; I32], None)] else []).

Definition sig_matches (name : string) (ft : functype) (e : host_sig) : bool :=
  let '(n, ps, r) := e in
  String.eqb name n && valtypes_eqb (ft_params ft) ps && blocktype_eqb (ft_result ft) r.

Definition import_ok (table : list host_sig) (duplicate : bool) (mod_name item_name : string) (ft : functype) : bool :=
  negb duplicate && String.eqb mod_name "concordium" && existsb (sig_matches item_name ft) table.

Definition import_ok_v0 := import_ok v0_table.
Definition import_ok_v1 (support_upgrade enable_debug : bool) := import_ok (v1_table support_upgrade enable_debug).

(** ** exports *)
Definition MAX_EXPORT_NAME_LEN : nat := 100.
(** [is_ascii_alphanumeric || is_ascii_punctuation]: the graphic ASCII characters 33..126 *)
Definition name_char_ok (c : ascii) : bool :=
  let n := N_of_ascii c in (33 <=? n)%N && (n <=? 126)%N.
Fixpoint all_chars (p : ascii -> bool) (s : string) : bool :=
  match s with EmptyString => true | String c r => p c && all_chars p r end.
Fixpoint contains_dot (s : string) : bool :=
  match s with EmptyString => false | String c r => Ascii.eqb c "."%char || contains_dot r end.
Definition starts_with_init (s : string) : bool := prefix "init_" s.
Definition valid_name (s : string) : bool :=
  Nat.leb (String.length s) MAX_EXPORT_NAME_LEN && all_chars name_char_ok s.
Definition entry_type (ft : functype) : bool :=
  valtypes_eqb (ft_params ft) [I64] && blocktype_eqb (ft_result ft) (Some I32).
Definition is_entry_name (s : string) : bool :=
  if starts_with_init s then negb (contains_dot s) else contains_dot s.

Definition export_ok_v0 (name : string) (ft : functype) : bool :=
  valid_name name && entry_type ft && is_entry_name name.
Definition export_ok_v1 (name : string) (ft : functype) : bool :=
  valid_name name && (if is_entry_name name then entry_type ft else true).

(** ** only the listed names with exactly the listed types are admitted *)
Lemma valtypes_eqb_eq a : forall b, valtypes_eqb a b = true -> a = b.
Proof.
  induction a as [|x a IH]; intros [|y b]; cbn; try discriminate; auto.
  intros H. apply andb_true_iff in H. destruct H as [H1 H2]. f_equal; auto. destruct x, y; cbn in H1; congruence.
Qed.
Lemma blocktype_eqb_eq a b : blocktype_eqb a b = true -> a = b.
Proof. destruct a as [[]|], b as [[]|]; cbn; congruence. Qed.

Theorem import_only_listed_thm table dup md name ft :
  import_ok table dup md name ft = true ->
  dup = false /\ md = "concordium" /\ In (name, ft_params ft, ft_result ft) table.
Proof.
  unfold import_ok. rewrite !andb_true_iff. intros [[H1 H2] H3].
  split; [destruct dup; [discriminate|reflexivity]|]. split; [now apply String.eqb_eq|].
  apply existsb_exists in H3. destruct H3 as ([[n ps] r] & Hin & HM). cbn in HM.
  rewrite !andb_true_iff in HM. destruct HM as [[M1 M2] M3].
  apply String.eqb_eq in M1. apply valtypes_eqb_eq in M2. apply blocktype_eqb_eq in M3. subst. exact Hin.
Qed.

Theorem export_v0_entry_thm name ft :
  export_ok_v0 name ft = true ->
  ft_params ft = [I64] /\ ft_result ft = Some I32 /\ (String.length name <= MAX_EXPORT_NAME_LEN)%nat /\
  is_entry_name name = true.
Proof.
  unfold export_ok_v0, valid_name, entry_type. rewrite !andb_true_iff. intros [[[V1 V2] [E1 E2]] N].
  apply valtypes_eqb_eq in E1. apply blocktype_eqb_eq in E2. apply PeanoNat.Nat.leb_le in V1. auto.
Qed.
Theorem export_v1_entry_thm name ft :
  export_ok_v1 name ft = true -> (String.length name <= MAX_EXPORT_NAME_LEN)%nat /\
  (is_entry_name name = true -> ft_params ft = [I64] /\ ft_result ft = Some I32).
Proof.
  unfold export_ok_v1, valid_name, entry_type. rewrite !andb_true_iff. intros [[V1 V2] E].
  apply PeanoNat.Nat.leb_le in V1. split; auto. intros N. rewrite N in E. apply andb_true_iff in E. destruct E as [E1 E2].
  apply valtypes_eqb_eq in E1. apply blocktype_eqb_eq in E2. auto.
Qed.
