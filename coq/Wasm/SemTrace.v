(** * Wasm/SemTrace — the reference interpreter of [Wasm/Sem.v] instrumented with an event trace.

    [texec_seq]/[texec_instr]/[tinvoke] mirror [Sem.exec_seq]/[exec_instr]/[invoke] clause by
    clause (same fuel discipline, same results) over ANNOTATED code ([Meter.ainstr]) and
    additionally return the list of events, in execution order:
    - [EvTick n]   the metering pseudo-instruction [BTick n] was executed  (Host::tick_energy)
    - [EvWork c]   a source instruction of cost [c] was executed ([OSrc c _] annotation), the extra
                   cost of a taken [br_if] ([OSrc _ tk] on a taken [BBrIf]), or a function with
                   [invoke_after] cost [c] was entered
    - [EvHost i args]  imported function [i] was called                    (Host::call)
    - [EvCall fi] / [EvRet]  a module function was entered through call/call_indirect / a module
                   function returned (Host::track_call / Host::track_return)
    [SemTraceProofs.texec_erase]: forgetting the trace and the annotations gives exactly [Sem].
    Definitions only. *)
From Coq Require Import ZArith NArith List Bool.
From CB Require Import Common.IntN Wasm.Syntax Wasm.Sem Wasm.CostCtx Wasm.Meter.
Import ListNotations.
Local Open Scope Z_scope.

Inductive event :=
| EvTick (n : N)
| EvWork (c : N)
| EvHost (i : nat) (args : list val)
| EvCall (fi : nat)
| EvRet.

Definition ev_work (o : origin) : list event := match o with OSrc c _ => [EvWork c] | OInj => [] end.
Definition ev_taken (o : origin) : list event := match o with OSrc _ t => [EvWork t] | OInj => [] end.

(** a function with annotated body; [af_entry] = [invoke_after] of its declared locals *)
Record afunc := { af_type : nat; af_locals : list valtype; af_entry : N; af_body : list ainstr }.
Definition erase_func (f : afunc) : func :=
  {| f_type := af_type f; f_locals := af_locals f; f_body := erase_seq (af_body f) |}.

Section WithHost.
Variable host : nat -> list val -> option memory -> host_result.
Variable page_cap : N.
(** [m] supplies types, imports, table/memory/globals; its functions are [afs] *)
Variable m : module.
Variable afs : list afunc.

Definition afunc_type (fidx : nat) : option functype :=
  let ni := length (m_imports m) in
  if (fidx <? ni)%nat then
    match nth_opt (m_imports m) fidx with Some ti => nth_opt (m_types m) ti | None => None end
  else
    match nth_opt afs (fidx - ni) with Some f => nth_opt (m_types m) (af_type f) | None => None end.

Definition tr (A : Type) : Type := (list event * A)%type.
Definition is_local (fi : nat) : bool := negb (fi <? length (m_imports m))%nat.
Definition ev_call (fi : nat) : list event := if is_local fi then [EvCall fi] else [].

(** The three clauses are written as NON-recursive bodies over the recursive callees
    ([rseq]/[rinstr]/[rinv] = the interpreter with one unit of fuel less); the fixpoint below ties
    the knot.  (This gives one-step unfolding lemmas by [reflexivity].) *)
Section Bodies.
Variable rseq : store -> list val -> list val -> list ainstr -> tr res.
Variable rinstr : store -> list val -> list val -> ainstr -> tr res.
Variable rinv : store -> nat -> list val -> tr (sum res (store * option val)).

Definition seq_body (s : store) (locals stack : list val) (is : list ainstr) : tr res :=
  match is with
  | [] => ([], RNormal s locals stack)
  | i :: rest =>
      match rinstr s locals stack i with
      | (t1, RNormal s' l' st') => let '(t2, r) := rseq s' l' st' rest in (t1 ++ t2, r)
      | (t1, r) => (t1, r)
      end
  end.

Definition call_body (o : origin) (s : store) (locals : list val) (fi : nat) (args st : list val) : tr res :=
  match rinv s fi args with
  | (t, inr (s', r)) =>
      (ev_work o ++ ev_call fi ++ t, RNormal s' locals (match r with Some v => v :: st | None => st end))
  | (t, inl r) => (ev_work o ++ ev_call fi ++ t, r)
  end.

Definition instr_body (s : store) (locals stack : list val) (i : ainstr) : tr res :=
  match i with
  | ABlock o bt body =>
      let '(t, r) := rseq s locals [] body in
      (ev_work o ++ t,
       match r with
       | RNormal s' l' vs => RNormal s' l' (firstn (arity bt) vs ++ stack)
       | RBr O s' l' vs => RNormal s' l' (firstn (arity bt) vs ++ stack)
       | RBr (S k) s' l' vs => RBr k s' l' vs
       | r => r
       end)
  | ALoop o bt body =>
      let '(t, r) := rseq s locals [] body in
      match r with
      | RNormal s' l' vs => (ev_work o ++ t, RNormal s' l' (firstn (arity bt) vs ++ stack))
      | RBr O s' l' _ =>
          (* the re-entered loop is not a new source instruction: no work event *)
          let '(t2, r2) := rinstr s' l' stack (ALoop OInj bt body) in (ev_work o ++ t ++ t2, r2)
      | RBr (S k) s' l' vs => (ev_work o ++ t, RBr k s' l' vs)
      | r => (ev_work o ++ t, r)
      end
  | AIf o bt thn els =>
      match stack with
      | VI32 c :: st =>
          let '(t, r) := rinstr s locals st (ABlock OInj bt (if c =? 0 then els else thn)) in
          (ev_work o ++ t, r)
      | _ => (ev_work o, RStuck)
      end
  | ABasic o (BBr l) => (ev_work o, RBr l s locals stack)
  | ABasic o (BBrIf l) =>
      match stack with
      | VI32 c :: st => if c =? 0 then (ev_work o, RNormal s locals st)
                        else (ev_work o ++ ev_taken o, RBr l s locals st)
      | _ => (ev_work o, RStuck)
      end
  | ABasic o (BBrTable ls d) =>
      match stack with
      | VI32 c :: st =>
          (ev_work o,
           RBr (if c <? Z.of_nat (length ls)
                then match nth_opt ls (Z.to_nat c) with Some l => l | None => d end
                else d) s locals st)
      | _ => (ev_work o, RStuck)
      end
  | ABasic o BReturn => (ev_work o, RReturn s stack)
  | ABasic o (BCall fi) =>
      match afunc_type fi with
      | Some ft =>
          match take_args (length (ft_params ft)) stack [] with
          | Some (args, st) => call_body o s locals fi args st
          | None => (ev_work o, RStuck)
          end
      | None => (ev_work o, RStuck)
      end
  | ABasic o (BCallIndirect ti) =>
      match stack, nth_opt (m_types m) ti with
      | VI32 c :: st0, Some ft =>
          match (if c <? Z.of_nat (length (s_table s)) then nth_opt (s_table s) (Z.to_nat c) else None) with
          | Some (Some fi) =>
              match afunc_type fi with
              | Some ft' =>
                  if functype_eqb ft ft' then
                    match take_args (length (ft_params ft)) st0 [] with
                    | Some (args, st) => call_body o s locals fi args st
                    | None => (ev_work o, RStuck)
                    end
                  else (ev_work o ++ ev_call fi, RTrap)   (* machine.rs: track_call precedes the type check *)
              | None => (ev_work o, RStuck)
              end
          | _ => (ev_work o, RTrap)
          end
      | _, _ => (ev_work o, RStuck)
      end
  | ABasic o b =>
      (* a tick is recorded BEFORE the work its annotation stands for (the entry tick of a
         metered function carries the function's [invoke_after] work) *)
      (match b with BTick n => EvTick n :: ev_work o | _ => ev_work o end,
       match exec_simple page_cap b s locals stack with
       | inr (s', l', st') => RNormal s' l' st'
       | inl true => RTrap
       | inl false => RStuck
       end)
  end.

Definition fin_result (ft : functype) (s' : store) (vs : list val) : tr (sum res (store * option val)) :=
  match ft_result ft with
  | None => ([EvRet], inr (s', None))
  | Some _ => match vs with v :: _ => ([EvRet], inr (s', Some v)) | [] => ([], inl RStuck) end
  end.

Definition inv_body (s : store) (fi : nat) (args : list val) : tr (sum res (store * option val)) :=
  let ni := length (m_imports m) in
  if (fi <? ni)%nat then
    match afunc_type fi with
    | Some ft =>
        ([EvHost fi args],
         match host fi args (s_mem s) with
         | HostOk mm r => inr (set_mem s mm, r)
         | HostTrap => inl RTrap
         end)
    | None => ([], inl RStuck)
    end
  else
    match nth_opt afs (fi - ni) with
    | Some fn =>
        match nth_opt (m_types m) (af_type fn) with
        | Some ft =>
            let locals := args ++ map zero_of (af_locals fn) in
            let '(t, r) := rseq s locals [] (af_body fn) in
            let '(t2, r2) :=
              match r with
              | RNormal s' _ vs => fin_result ft s' vs
              | RBr O s' _ vs => fin_result ft s' vs
              | RReturn s' vs => fin_result ft s' vs
              | RBr (S _) _ _ _ => ([], inl RStuck)
              | r => ([], inl r)
              end in
            (EvWork (af_entry fn) :: t ++ t2, r2)
        | None => ([], inl RStuck)
        end
    | None => ([], inl RStuck)
    end.
End Bodies.

Fixpoint texec_seq (fuel : nat) (s : store) (locals stack : list val) (is : list ainstr) {struct fuel} : tr res :=
  match fuel with
  | O => ([], RFuel)
  | S f => seq_body (texec_seq f) (texec_instr f) s locals stack is
  end
with texec_instr (fuel : nat) (s : store) (locals stack : list val) (i : ainstr) {struct fuel} : tr res :=
  match fuel with
  | O => ([], RFuel)
  | S f => instr_body (texec_seq f) (texec_instr f) (tinvoke f) s locals stack i
  end
with tinvoke (fuel : nat) (s : store) (fi : nat) (args : list val) {struct fuel}
  : tr (sum res (store * option val)) :=
  match fuel with
  | O => ([], inl RFuel)
  | S f => inv_body (texec_seq f) s fi args
  end.

(** instantiate ([Sem.instantiate], which reads only the non-code parts of [m]) and invoke *)
Definition trun (fuel : nat) (fi : nat) (args : list val) : tr outcome :=
  match instantiate m with
  | None => ([], Stuck)
  | Some s =>
      match tinvoke fuel s fi args with
      | (t, inr (s', r)) => (t, Done r (s_mem s') (s_globals s'))
      | (t, inl RTrap) => (t, Trap)
      | (t, inl RFuel) => (t, OutOfFuel)
      | (t, inl _) => (t, Stuck)
      end
  end.

End WithHost.

(** ** Source and metered programs as annotated function lists *)
Definition annot_func (cfg : cost_cfg) (m : module) (f : func) : option afunc :=
  match nth_error (m_types m) (f_type f) with
  | Some ft =>
      match annot_seq cfg (ctx_of_module m) [ft_result ft] (f_body f) with
      | Some b => Some {| af_type := f_type f; af_locals := f_locals f;
                          af_entry := c_invoke_after cfg (N.of_nat (length (f_locals f))); af_body := b |}
      | None => None
      end
  | None => None
  end.
Definition annot_funcs (cfg : cost_cfg) (m : module) : option (list afunc) :=
  omap_list (annot_func cfg m) (m_funcs m).

(** metered functions: [af_entry] = 0, the [invoke_after] work is attributed to the entry tick of
    the body (annotation [OSrc invoke_after 0] on that tick, see [Meter.ameter_body]).
    NOTE (by design of the schedule, "invoke_after"): in the implementation the callee's frame is
    allocated by the call instruction, i.e. before this tick executes. *)
Definition ameter_func (cfg : cost_cfg) (m : module) (f : func) : option afunc :=
  match nth_error (m_types m) (f_type f) with
  | Some ft =>
      match ameter_body cfg (ctx_of_module m) (N.of_nat (length (f_locals f))) (ft_result ft) (f_body f) with
      | Some b => Some {| af_type := f_type f; af_locals := f_locals f; af_entry := 0%N; af_body := b |}
      | None => None
      end
  | None => None
  end.
Definition ameter_funcs (cfg : cost_cfg) (m : module) : option (list afunc) :=
  omap_list (ameter_func cfg m) (m_funcs m).

(** the host of the metered module: import 0 is [account_memory] (returns its argument, memory
    untouched), import [S i] is import [i] of the source module *)
Definition mhost (h : nat -> list val -> option memory -> host_result)
  (i : nat) (args : list val) (mm : option memory) : host_result :=
  match i with
  | O => match args with [v] => HostOk mm (Some v) | _ => HostTrap end
  | S j => h j args mm
  end.

(** ** Sums over a trace *)
Fixpoint ticks (t : list event) : N :=
  match t with [] => 0%N | EvTick n :: r => (n + ticks r)%N | _ :: r => ticks r end.
(** the non-zero work amounts, in order (what source and metered runs are aligned on) *)
Fixpoint works (t : list event) : list N :=
  match t with
  | [] => []
  | EvWork c :: r => if (0 <? c)%N then c :: works r else works r
  | _ :: r => works r
  end.
Fixpoint work (t : list event) : N :=
  match t with [] => 0%N | EvWork c :: r => (c + work r)%N | _ :: r => work r end.
(** the balance "paid minus consumed" never goes negative: [bal b t = Some b'] *)
Fixpoint bal (b : N) (t : list event) : option N :=
  match t with
  | [] => Some b
  | EvTick n :: r => bal (b + n) r
  | EvWork c :: r => if (c <=? b)%N then bal (b - c) r else None
  | _ :: r => bal b r
  end.
