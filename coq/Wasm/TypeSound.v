(** * Wasm/TypeSound — type soundness of the reference semantics ([Wasm/Sem.v]) with respect
    to the declarative typing ([Wasm/Typing.v]): executing well-typed code from a well-typed
    state never yields [RStuck] (progress) and every result is typed (preservation).
    The interpreter is big-step with fuel, so both are proved together by induction on fuel. *)
From Coq Require Import ZArith NArith List Bool Arith Lia FMapPositive.
From CB Require Import Common.IntN Wasm.Syntax Wasm.Sem Wasm.SemProofs Wasm.Typing.
Import ListNotations.

Notation tys := (map type_of_val).

Lemma tys_app a b : tys (a ++ b) = tys a ++ tys b.
Proof. apply map_app. Qed.
Lemma tys_cons_inv vs t ts : tys vs = t :: ts -> exists v r, vs = v :: r /\ type_of_val v = t /\ tys r = ts.
Proof. destruct vs as [|v r]; cbn; [discriminate|]. intros E; inversion E; eauto. Qed.
Lemma tys_app_inv : forall ts1 vs ts2, tys vs = ts1 ++ ts2 ->
  exists v1 v2, vs = v1 ++ v2 /\ tys v1 = ts1 /\ tys v2 = ts2.
Proof.
  induction ts1 as [|t r IH]; intros vs ts2 E.
  - exists [], vs. auto.
  - cbn in E. apply tys_cons_inv in E. destruct E as (v & vr & -> & <- & E).
    destruct (IH _ _ E) as (v1 & v2 & -> & <- & <-). exists (v :: v1), v2. auto.
Qed.
Lemma i32_inv v : type_of_val v = T_i32 -> exists z, v = VI32 z.
Proof. destruct v; cbn; [eauto|discriminate]. Qed.
Lemma i64_inv v : type_of_val v = T_i64 -> exists z, v = VI64 z.
Proof. destruct v; cbn; [discriminate|eauto]. Qed.
Lemma payload_typed t v : type_of_val v = t -> exists z, payload t v = Some z.
Proof. destruct v, t; cbn; try discriminate; eauto. Qed.
Lemma mkval_type t z : type_of_val (mkval t z) = t.
Proof. destruct t; reflexivity. Qed.

Lemma nth_map2 {A B C} (f : A -> C) (g : B -> C) : forall (l : list A) (l' : list B) i y,
  map f l = map g l' -> nth_error l' i = Some y -> exists x, nth_error l i = Some x /\ f x = g y.
Proof.
  induction l as [|a l IH]; intros [|b l'] i y E; cbn in E; try discriminate.
  - destruct i; discriminate.
  - inversion E. destruct i; cbn.
    + intros H; inversion H; subst. eauto.
    + apply IH; auto.
Qed.
Lemma set_nth_typed {C} (f : val -> C) : forall (l : list val) i y x,
  nth_error l i = Some y -> f x = f y -> exists l', set_nth l i x = Some l' /\ map f l' = map f l.
Proof.
  induction l as [|a l IH]; intros [|i] y x H E; cbn in H; try discriminate.
  - inversion H; subst. cbn. eexists. split; [reflexivity|]. cbn. now rewrite E.
  - cbn. destruct (IH _ _ _ H E) as (l' & -> & M). eexists. split; [reflexivity|]. cbn. now rewrite M.
Qed.

(** ** Well-typed stores *)
Section TS.
Variable host : nat -> list val -> option memory -> host_result.
Variable page_cap : N.
Variable m : module.

Definition dummy_ft : functype := {| ft_params := []; ft_result := None |}.
Definition ftypes : list functype :=
  map (fun ti => nth ti (m_types m) dummy_ft) (m_imports m ++ map f_type (m_funcs m)).
Definition gtypes : list (valtype * bool) :=
  map (fun g => (type_of_val (g_init g), g_mut g)) (m_globals m).
Definition has_mem : bool := match m_mem m with Some _ => true | None => false end.
Definition has_table : bool := match m_table m with Some _ => true | None => false end.

(** [C] is a typing context of module [m] (any locals, labels and return type) *)
Definition ctx_for (C : tctx) : Prop :=
  tc_types C = m_types m /\ tc_funcs C = ftypes /\ tc_globals C = gtypes /\
  (tc_memory C = true -> has_mem = true).

Definition store_ok (s : store) : Prop :=
  (has_mem = true -> s_mem s <> None) /\
  tys (s_globals s) = map fst gtypes /\
  Forall (fun e => match e with Some fi => func_type m fi <> None | None => True end) (s_table s).

Lemma ctx_for_push C bt : ctx_for C -> ctx_for (push_label C bt).
Proof. intros H. exact H. Qed.

Definition simple (b : binstr) : bool :=
  match b with
  | BBr _ | BBrIf _ | BBrTable _ _ | BReturn | BCall _ | BCallIndirect _ => false
  | _ => true
  end.

Ltac fin := cbv beta iota delta [ok trap stuck with_mem set_mem set_globals s_mem s_globals s_table]; repeat split; auto;
  cbn [map type_of_val cvt_to]; rewrite ?mkval_type; try discriminate; try congruence.

(** straight-line instructions: progress and preservation *)
Lemma exec_simple_safe C b t1 t2 s locals stack :
  basic_ok C b t1 t2 -> simple b = true -> ctx_for C -> store_ok s ->
  tys locals = tc_locals C -> tys stack = t1 ->
  match exec_simple page_cap b s locals stack with
  | inl true => True
  | inl false => False
  | inr (s', l', st') => store_ok s' /\ tys l' = tc_locals C /\ tys st' = t2
  end.
Proof.
  intros HB HS (CT & CF & CG & CM) (SM & SG & ST) HL HK.
  destruct HB; cbn in HS; try discriminate; cbn [exec_simple].
  - (* unreachable *) destruct stack; exact I.
  - (* nop *) subst rest. destruct stack; repeat split; auto.
  - (* drop *) apply tys_cons_inv in HK. destruct HK as (v & r & -> & _ & HK). repeat split; auto.
  - (* select *)
    apply tys_cons_inv in HK. destruct HK as (vc & r & -> & Hc & HK).
    apply tys_cons_inv in HK. destruct HK as (v2 & r2 & -> & H2 & HK).
    apply tys_cons_inv in HK. destruct HK as (v1 & r3 & -> & H1 & HK).
    apply i32_inv in Hc. destruct Hc as [c ->]. rewrite H1, H2.
    replace (valtype_eqb t t) with true by (destruct t; reflexivity).
    cbn. repeat split; auto. cbn.  destruct (c =? 0)%Z; congruence.
  - (* local.get *) subst rest.
    destruct (nth_map2 type_of_val (fun x => x) locals (tc_locals C) i t) as (v & Hv & Ht);
      [now rewrite map_id|auto|].
    unfold nth_opt. destruct stack; rewrite Hv; cbn; repeat split; auto; cbn; congruence.
  - (* local.set *)
    apply tys_cons_inv in HK. destruct HK as (v & r & -> & Hv & HK).
    destruct (nth_map2 type_of_val (fun x => x) locals (tc_locals C) i t) as (v0 & Hv0 & Ht0);
      [now rewrite map_id|auto|].
    destruct (set_nth_typed type_of_val locals i v0 v Hv0) as (l' & -> & M); [congruence|].
    cbn. repeat split; auto. congruence.
  - (* local.tee *)
    apply tys_cons_inv in HK. destruct HK as (v & r & -> & Hv & HK).
    destruct (nth_map2 type_of_val (fun x => x) locals (tc_locals C) i t) as (v0 & Hv0 & Ht0);
      [now rewrite map_id|auto|].
    destruct (set_nth_typed type_of_val locals i v0 v Hv0) as (l' & -> & M); [congruence|].
    cbn. repeat split; auto. congruence. cbn. congruence.
  - (* global.get *) subst rest.
    rewrite CG in H.
    destruct (nth_map2 type_of_val fst (s_globals s) gtypes i (t, mu) SG H) as (v & Hv & Ht). cbn in Ht.
    unfold nth_opt. destruct stack; rewrite Hv; cbn; repeat split; auto; cbn; congruence.
  - (* global.set *)
    apply tys_cons_inv in HK. destruct HK as (v & r & -> & Hv & HK). rewrite CG in H.
    destruct (nth_map2 type_of_val fst (s_globals s) gtypes i (t, true) SG H) as (v0 & Hv0 & Ht0).
    destruct (set_nth_typed type_of_val (s_globals s) i v0 v Hv0) as (g' & -> & M); [cbn in Ht0; congruence|].
    cbn. repeat split; auto. cbn.  congruence.
  - (* load *)
    apply tys_cons_inv in HK. destruct HK as (v & r & -> & Hv & HK).
    apply i32_inv in Hv. destruct Hv as [a ->].
    destruct (s_mem s) as [mm|] eqn:EM; [|exfalso; apply (SM (CM H)); reflexivity].
    destruct pk as [[p sg]|].
    + destruct (mem_load mm _ (pack_bytes p)); [|exact I]. fin.
    + destruct (mem_load mm _ (type_bytes t)); [|exact I]. fin.
  - (* store *)
    apply tys_cons_inv in HK. destruct HK as (v & r & -> & Hv & HK).
    apply tys_cons_inv in HK. destruct HK as (va & r2 & -> & Ha & HK).
    apply i32_inv in Ha. destruct Ha as [a ->].
    destruct (s_mem s) as [mm|] eqn:EM; [|exfalso; apply (SM (CM H)); reflexivity].
    destruct (payload_typed _ _ Hv) as [x ->].
    destruct (mem_store mm _ _ x); [|exact I]. fin.
  - (* memory.size *) subst rest.
    destruct (s_mem s) as [mm|] eqn:EM; [|exfalso; apply (SM (CM H)); reflexivity].
    destruct stack; fin.
  - (* memory.grow *)
    apply tys_cons_inv in HK. destruct HK as (v & r & -> & Hv & HK).
    apply i32_inv in Hv. destruct Hv as [a ->].
    destruct (s_mem s) as [mm|] eqn:EM; [|exfalso; apply (SM (CM H)); reflexivity].
    destruct (mem_grow page_cap mm a) as [mm' rr]. fin.
  - (* const *) subst rest.
    destruct stack; fin.
  - (* unop *)
    apply tys_cons_inv in HK. destruct HK as (v & r & -> & Hv & HK).
    destruct (payload_typed _ _ Hv) as [x ->].
    destruct op; cbn [app_unop]; try fin.
    cbn in H. subst t. fin.
  - (* binop *)
    apply tys_cons_inv in HK. destruct HK as (v2 & r & -> & Hv2 & HK).
    apply tys_cons_inv in HK. destruct HK as (v1 & r2 & -> & Hv1 & HK).
    destruct (payload_typed _ _ Hv1) as [x ->]. destruct (payload_typed _ _ Hv2) as [y ->].
    destruct (app_binop t op x y); [|exact I]. fin.
  - (* eqz *)
    apply tys_cons_inv in HK. destruct HK as (v & r & -> & Hv & HK).
    destruct (payload_typed _ _ Hv) as [x ->]. fin.
  - (* relop *)
    apply tys_cons_inv in HK. destruct HK as (v2 & r & -> & Hv2 & HK).
    apply tys_cons_inv in HK. destruct HK as (v1 & r2 & -> & Hv1 & HK).
    destruct (payload_typed _ _ Hv1) as [x ->]. destruct (payload_typed _ _ Hv2) as [y ->]. fin.
  - (* cvt *)
    apply tys_cons_inv in HK. destruct HK as (v & r & -> & Hv & HK).
    destruct op; cbn in Hv.
    + apply i64_inv in Hv. destruct Hv as [z ->]. fin.
    + apply i32_inv in Hv. destruct Hv as [z ->]. fin.
    + apply i32_inv in Hv. destruct Hv as [z ->]. fin.
Qed.


(** ** Results *)
Definition res_ok (C : tctx) (t2 : list valtype) (r : res) : Prop :=
  match r with
  | RNormal s' l' st' => store_ok s' /\ tys l' = tc_locals C /\ tys st' = t2
  | RBr l s' l' st' =>
      store_ok s' /\ tys l' = tc_locals C /\
      exists bt vs rest, nth_error (tc_labels C) l = Some bt /\ st' = vs ++ rest /\ tys vs = bt_list bt
  | RReturn s' st' =>
      store_ok s' /\ exists vs rest, st' = vs ++ rest /\ tys vs = bt_list (tc_return C)
  | RTrap | RFuel => True
  | RStuck => False
  end.

Definition result_ok (ft : functype) (r : option val) : Prop :=
  match ft_result ft, r with
  | None, None => True
  | Some t, Some v => type_of_val v = t
  | _, _ => False
  end.
Definition inv_ok (ft : functype) (r : sum res (store * option val)) : Prop :=
  match r with
  | inr (s', v) => store_ok s' /\ result_ok ft v
  | inl RTrap | inl RFuel => True
  | inl _ => False
  end.

(** ** Well-typed modules and hosts *)
Definition fctx (ft : functype) (fn : func) : tctx :=
  {| tc_types := m_types m; tc_funcs := ftypes; tc_globals := gtypes;
     tc_locals := ft_params ft ++ f_locals fn; tc_memory := has_mem; tc_table := has_table;
     tc_labels := []; tc_return := ft_result ft |}.

Record module_ok : Prop := {
  mo_indices : Forall (fun ti => ti < length (m_types m))%nat (m_imports m ++ map f_type (m_funcs m));
  mo_bodies : forall fn ft, In fn (m_funcs m) -> nth_error (m_types m) (f_type fn) = Some ft ->
              body_ok (fctx ft fn) (f_body fn)
}.

(** imported functions return values of their declared result type and do not remove the memory *)
Definition host_ok : Prop :=
  forall fi args mem ft, nth_error ftypes fi = Some ft -> tys args = ft_params ft ->
    match host fi args mem with
    | HostOk mm r => (mem <> None -> mm <> None) /\ result_ok ft r
    | HostTrap => True
    end.

Hypothesis MOK : module_ok.
Hypothesis HOK : host_ok.

Lemma func_type_ftypes fi : func_type m fi = nth_error ftypes fi.
Proof.
  pose proof (mo_indices MOK) as IDX. unfold func_type, ftypes, nth_opt.
  rewrite nth_error_map.
  assert (G : forall ti, (ti < length (m_types m))%nat -> nth_error (m_types m) ti = Some (nth ti (m_types m) dummy_ft)).
  { intros ti H. apply nth_error_nth'. exact H. }
  rewrite Forall_forall in IDX.
  destruct (Nat.ltb_spec fi (length (m_imports m))) as [L|L].
  - rewrite nth_error_app1 by exact L. destruct (nth_error (m_imports m) fi) as [ti|] eqn:E; cbn; [|reflexivity].
    apply G, IDX. apply in_or_app. left. eapply nth_error_In; eauto.
  - rewrite nth_error_app2 by exact L. rewrite nth_error_map.
    destruct (nth_error (m_funcs m) (fi - length (m_imports m))) as [fn|] eqn:E; cbn; [|reflexivity].
    apply G, IDX. apply in_or_app. right. apply in_map. eapply nth_error_In; eauto.
Qed.

Lemma valtypes_eqb_eq a : forall b, valtypes_eqb a b = true -> a = b.
Proof.
  induction a as [|x a IH]; intros [|y b]; cbn; try discriminate; auto.
  intros H. apply andb_true_iff in H. destruct H as [H1 H2]. f_equal; auto. destruct x, y; cbn in H1; congruence.
Qed.
Lemma functype_eqb_eq a b : functype_eqb a b = true -> a = b.
Proof.
  destruct a as [pa ra], b as [pb rb]. unfold functype_eqb. cbn. intros H. apply andb_true_iff in H.
  destruct H as [H1 H2]. apply valtypes_eqb_eq in H1. subst. f_equal.
  destruct ra as [[]|], rb as [[]|]; cbn in H2; congruence.
Qed.

Lemma take_args_gen : forall ra st acc, take_args (length ra) (ra ++ st) acc = Some (rev ra ++ acc, st).
Proof.
  induction ra as [|v r IH]; intros st acc; cbn; [reflexivity|].
  rewrite IH. now rewrite <- app_assoc.
Qed.
Lemma take_args_spec ps stack rest : tys stack = rev ps ++ rest ->
  exists args st, take_args (length ps) stack [] = Some (args, st) /\ tys args = ps /\ tys st = rest.
Proof.
  intros H. apply tys_app_inv in H. destruct H as (ra & st & -> & H1 & H2).
  exists (rev ra), st. split.
  - replace (length ps) with (length ra).
    + rewrite take_args_gen. now rewrite app_nil_r.
    + rewrite <- (map_length type_of_val ra), H1. apply rev_length.
  - split; auto. rewrite map_rev, H1. apply rev_involutive.
Qed.

Lemma firstn_bt_all bt (vs : list val) : tys vs = bt_list bt -> firstn (arity bt) vs = vs.
Proof. destruct bt as [tt|]; destruct vs as [|v0 [|w r]]; cbn; try discriminate; auto. Qed.
Lemma firstn_bt_app bt (vs rest : list val) : tys vs = bt_list bt -> firstn (arity bt) (vs ++ rest) = vs.
Proof. destruct bt as [tt|]; destruct vs as [|v0 [|w r]]; cbn; try discriminate; auto. Qed.

Lemma res_ok_other C t t' r : (forall s l st, r <> RNormal s l st) -> res_ok C t r -> res_ok C t' r.
Proof. destruct r; cbn; auto. intros H. exfalso. eapply H; reflexivity. Qed.

Lemma exec_instr_simple f b s l st : simple b = true ->
  exec_instr host page_cap m (S f) s l st (Basic b) =
  match exec_simple page_cap b s l st with
  | inr (s', l', st') => RNormal s' l' st'
  | inl true => RTrap
  | inl false => RStuck
  end.
Proof. destruct b; cbn [simple]; try discriminate; reflexivity. Qed.

Definition P_seq (f : nat) : Prop := forall C is t1 t2 s l st,
  ctx_for C -> seq_ok C is t1 t2 -> store_ok s -> tys l = tc_locals C -> tys st = t1 ->
  res_ok C t2 (exec_seq host page_cap m f s l st is).
Definition P_instr (f : nat) : Prop := forall C i t1 t2 s l st,
  ctx_for C -> instr_ok C i t1 t2 -> store_ok s -> tys l = tc_locals C -> tys st = t1 ->
  res_ok C t2 (exec_instr host page_cap m f s l st i).
Definition P_inv (f : nat) : Prop := forall s fi args ft,
  store_ok s -> nth_error ftypes fi = Some ft -> tys args = ft_params ft ->
  inv_ok ft (invoke host page_cap m f s fi args).

Lemma P_seq_step f : P_seq f -> P_instr f -> P_seq (S f).
Proof.
  intros IS II C is t1 t2 s l st HC HT HS HL HK. rewrite eseq_S.
  inversion HT; subst.
  - cbn. auto.
  - pose proof (II _ _ _ _ _ _ _ HC H HS HL eq_refl) as R.
    destruct (exec_instr host page_cap m f s l st i) as [s' l' st'| | | | |] eqn:E; cbn in R |- *; auto.
    destruct R as (R1 & R2 & R3). eapply IS; eauto.
Qed.

Lemma call_result C ft rest s' r locals st :
  store_ok s' -> result_ok ft r -> tys locals = tc_locals C -> tys st = rest ->
  res_ok C (bt_list (ft_result ft) ++ rest)
    (RNormal s' locals (match r with Some v => v :: st | None => st end)).
Proof.
  intros HS HR HL HK. cbn. split; auto. split; auto. unfold result_ok in HR.
  destruct (ft_result ft), r; cbn; try contradiction; congruence.
Qed.

Ltac getK st :=
  match goal with
  | H : _ = map type_of_val st |- _ => symmetry in H; rename H into HK
  | H : map type_of_val st = _ |- _ => rename H into HK
  end.

Lemma P_instr_step f : P_seq f -> P_instr f -> P_inv f -> P_instr (S f).
Proof.
  intros IS II IV C i t1 t2 s l st HC HT HS HL HK. subst t1.
  inversion HT; subst.
  - (* basic *)
    destruct (simple b) eqn:SB.
    { rewrite exec_instr_simple by exact SB.
      pose proof (exec_simple_safe _ _ _ _ s l st H SB HC HS HL eq_refl) as R.
      destruct (exec_simple page_cap b s l st) as [[]|[[s' l'] st']]; cbn; auto. }
    destruct HC as (CT & CF & CG & CM).
    destruct b; cbn in SB; try discriminate; rewrite einstr_S; inversion H; subst; getK st.
    + (* br *)
      apply tys_app_inv in HK. destruct HK as (vs & rest & -> & V1 & V2).
      cbn. split; auto. split; auto. eauto 7.
    + (* br_if *)
      apply tys_cons_inv in HK. destruct HK as (vc & r & -> & Hc & HK).
      apply i32_inv in Hc. destruct Hc as [c ->].
      destruct (c =? 0)%Z; cbn; [auto|]. split; auto. split; auto.
      apply tys_app_inv in HK. destruct HK as (vs & rest' & -> & V1 & V2). eauto 7.
    + (* br_table *)
      apply tys_cons_inv in HK. destruct HK as (vc & r & -> & Hc & HK).
      apply i32_inv in Hc. destruct Hc as [c ->].
      cbn. split; auto. split; auto.
      apply tys_app_inv in HK. destruct HK as (vs & rest' & -> & V1 & V2).
      exists bt, vs, rest'. split; [|auto].
      match goal with X : Forall _ ls |- _ => rename X into HF end.
      destruct (c <? Z.of_nat (length ls))%Z; [|auto].
      unfold nth_opt. destruct (nth_error ls (Z.to_nat c)) as [l0|] eqn:E; [|auto].
      rewrite Forall_forall in HF. apply HF. eapply nth_error_In; eauto.
    + (* return *)
      apply tys_app_inv in HK. destruct HK as (vs & rest & -> & V1 & V2).
      cbn. split; auto. eauto.
    + (* call *)
      match goal with X : nth_error (tc_funcs C) _ = Some _ |- _ => rename X into HFT end.
      rewrite func_type_ftypes, <- CF, HFT.
      destruct (take_args_spec _ _ _ HK) as (args & st' & -> & A1 & A2).
      rewrite CF in HFT.
      pose proof (IV s f0 args ft HS HFT A1) as R.
      destruct (invoke host page_cap m f s f0 args) as [r|[s' r]]; cbn in R.
      * destruct r; cbn; auto; contradiction.
      * destruct R as [R1 R2]. apply call_result; auto.
    + (* call_indirect *)
      match goal with X : nth_error (tc_types C) _ = Some _ |- _ => rename X into HTY end.
      apply tys_cons_inv in HK. destruct HK as (vc & r & -> & Hc & HK).
      apply i32_inv in Hc. destruct Hc as [c ->].
      unfold nth_opt. rewrite <- CT, HTY.
      destruct HS as (SM & SG & ST).
      destruct (if (c <? Z.of_nat (length (s_table s)))%Z then nth_error (s_table s) (Z.to_nat c) else None) as [[fi|]|] eqn:ET; cbn; auto.
      assert (TI : func_type m fi <> None).
      { destruct (c <? Z.of_nat (length (s_table s)))%Z; [|discriminate].
        rewrite Forall_forall in ST. apply (ST (Some fi)). eapply nth_error_In; eauto. }
      destruct (func_type m fi) as [ft'|] eqn:EF; [|congruence].
      destruct (functype_eqb ft ft') eqn:EQ; cbn; auto.
      apply functype_eqb_eq in EQ. subst ft'.
      destruct (take_args_spec _ _ _ HK) as (args & st' & -> & A1 & A2).
      rewrite func_type_ftypes in EF.
      pose proof (IV s fi args ft (conj SM (conj SG ST)) EF A1) as R.
      destruct (invoke host page_cap m f s fi args) as [r0|[s' r0]]; cbn in R.
      * destruct r0; cbn; auto; contradiction.
      * destruct R as [R1 R2]. apply call_result; auto.
  - (* block *)
    rewrite einstr_S.
    match goal with X : seq_ok _ body _ _ |- _ => rename X into HB end.
    pose proof (IS _ _ _ _ s l [] (ctx_for_push _ bt HC) HB HS HL eq_refl) as R.
    destruct (exec_seq host page_cap m f s l [] body) as [s' l' vs|k s' l' vs| | | |] eqn:E; cbn in R; auto.
    + destruct R as (R1 & R2 & R3). rewrite (firstn_bt_all _ _ R3). cbn. split; [exact R1|]. split; [exact R2|].
      now rewrite map_app, R3.
    + destruct R as (R1 & R2 & bt' & vs0 & rest' & RL & -> & RV).
      destruct k as [|k]; cbn in RL.
      * inversion RL; subst bt'. rewrite (firstn_bt_app _ _ _ RV). cbn. split; [exact R1|]. split; [exact R2|]. now rewrite map_app, RV.
      * cbn. split; [exact R1|]. split; [exact R2|]. eauto 7.
  - (* loop *)
    rewrite einstr_S.
    match goal with X : seq_ok _ body _ _ |- _ => rename X into HB end.
    pose proof (IS _ _ _ _ s l [] (ctx_for_push _ None HC) HB HS HL eq_refl) as R.
    destruct (exec_seq host page_cap m f s l [] body) as [s' l' vs|k s' l' vs| | | |] eqn:E; cbn in R; auto.
    + destruct R as (R1 & R2 & R3). rewrite (firstn_bt_all _ _ R3). cbn. split; [exact R1|]. split; [exact R2|].
      now rewrite map_app, R3.
    + destruct R as (R1 & R2 & bt' & vs0 & rest' & RL & -> & RV).
      destruct k as [|k]; cbn in RL.
      * apply (II C (Loop bt body) (tys st) (bt_list bt ++ tys st)); auto.
      * cbn. split; [exact R1|]. split; [exact R2|]. eauto 7.
  - (* if *)
    rewrite einstr_S. getK st.
    apply tys_cons_inv in HK. destruct HK as (vc & r & -> & Hc & HK).
    apply i32_inv in Hc. destruct Hc as [c ->]. subst rest.
    apply (II C (Block bt (if (c =? 0)%Z then els else thn)) (tys r) (bt_list bt ++ tys r)); auto.
    constructor. destruct (c =? 0)%Z; auto.
Qed.

Lemma P_inv_step f : P_seq f -> P_inv (S f).
Proof.
  intros IS s fi args ft HS HF HA. rewrite inv_S. cbv zeta.
  destruct (Nat.ltb_spec fi (length (m_imports m))) as [L|L].
  - rewrite func_type_ftypes, HF.
    pose proof (HOK fi args (s_mem s) ft HF HA) as R.
    destruct (host fi args (s_mem s)) as [mm r|]; cbn; auto.
    destruct R as [R1 R2]. split; auto. destruct HS as (SM & SG & ST). repeat split; auto.
  - pose proof HF as HF'. rewrite <- func_type_ftypes in HF'. unfold func_type in HF'.
    rewrite (proj2 (Nat.ltb_ge _ _) L) in HF'. unfold nth_opt in *.
    destruct (nth_error (m_funcs m) (fi - length (m_imports m))) as [fn|] eqn:EFN; [|discriminate].
    rewrite HF'.
    pose proof (mo_bodies MOK fn ft (nth_error_In _ _ EFN) HF') as HB. unfold body_ok in HB.
    assert (HC : ctx_for (push_label (fctx ft fn) (tc_return (fctx ft fn)))) by (repeat split; auto).
    assert (HLc : tys (args ++ map zero_of (f_locals fn)) = tc_locals (push_label (fctx ft fn) (tc_return (fctx ft fn)))).
    { cbn. rewrite map_app, HA. f_equal. rewrite map_map. rewrite <- (map_id (f_locals fn)) at 2.
      apply map_ext. intros []; reflexivity. }
    pose proof (IS _ _ _ _ s _ [] HC HB HS HLc eq_refl) as R.
    destruct (exec_seq host page_cap m f s (args ++ map zero_of (f_locals fn)) [] (f_body fn))
      as [s' l' vs|k s' l' vs|s' vs| | |] eqn:E; cbn in R; try contradiction; try exact I.
    + destruct R as (R1 & R2 & R3). cbn in R3.
      destruct (ft_result ft) as [tr|] eqn:ER; destruct vs as [|v0 [|w0 r0]]; cbn in R3; try discriminate;
        (split; [exact R1|]); unfold result_ok; rewrite ER; [congruence|exact I].
    + destruct R as (R1 & R2 & bt' & vs0 & rest' & RL & -> & RV).
      destruct k as [|k]; cbn in RL; [|destruct k; discriminate].
      inversion RL; subst bt'.
      destruct (ft_result ft) as [tr|] eqn:ER; destruct vs0 as [|v0 [|w0 r0]]; cbn in RV; try discriminate;
        cbn; (split; [exact R1|]); unfold result_ok; rewrite ER; [congruence|exact I].
    + destruct R as (R1 & vs0 & rest' & -> & RV). cbn in RV.
      destruct (ft_result ft) as [tr|] eqn:ER; destruct vs0 as [|v0 [|w0 r0]]; cbn in RV; try discriminate;
        cbn; (split; [exact R1|]); unfold result_ok; rewrite ER; [congruence|exact I].
Qed.

Lemma type_sound_all f : P_seq f /\ P_instr f /\ P_inv f.
Proof.
  induction f as [|f (IS & II & IV)].
  - repeat split; intros; cbn; exact I.
  - split; [apply P_seq_step; auto|]. split; [apply P_instr_step; auto|apply P_inv_step; auto].
Qed.

End TS.

(** ** Instantiation and [run] *)
Section Run.
Variable host : nat -> list val -> option memory -> host_result.
Variable page_cap : N.
Variable m : module.

(** element and data segments fit (what validation guarantees; the specification fails
    instantiation otherwise) and element entries are existing functions *)
Definition segments_ok : Prop :=
  (forall off fs, In (off, fs) (m_elems m) ->
     exists n, m_table m = Some n /\ (N.to_nat off + length fs <= N.to_nat n)%nat /\
               Forall (fun fi => func_type m fi <> None) fs) /\
  match m_mem m with
  | Some l => forall off bs, In (off, bs) (m_data m) -> (off + N.of_nat (length bs) <= l_min l * page_size)%N
  | None => m_data m = []
  end.

Definition entry_ok (e : option nat) : Prop :=
  match e with Some fi => func_type m fi <> None | None => True end.

Lemma set_nth_len {A} (P : A -> Prop) : forall (l : list A) i x, (i < length l)%nat ->
  exists l', set_nth l i x = Some l' /\ length l' = length l /\ (Forall P l -> P x -> Forall P l').
Proof.
  induction l as [|a l IH]; intros i x H; cbn in H; [lia|].
  destruct i as [|i]; cbn.
  - eexists. split; [reflexivity|]. split; [reflexivity|]. intros F Px. inversion F; subst. constructor; auto.
  - destruct (IH i x ltac:(lia)) as (l' & -> & L & F). eexists. split; [reflexivity|]. split; [cbn; lia|].
    intros Fa Px. inversion Fa; subst. constructor; auto.
Qed.

Lemma write_elems_ok : forall fs t off, (off + length fs <= length t)%nat ->
  Forall entry_ok t -> Forall (fun fi => func_type m fi <> None) fs ->
  exists t', write_elems t off fs = Some t' /\ length t' = length t /\ Forall entry_ok t'.
Proof.
  induction fs as [|fi r IH]; intros t off HL HT HF; cbn [write_elems].
  - eauto.
  - cbn in HL. inversion HF; subst.
    destruct (set_nth_len entry_ok t off (Some fi) ltac:(lia)) as (t1 & -> & L1 & F1).
    destruct (IH t1 (S off)) as (t' & E & L & F); [lia|auto|auto|].
    exists t'. split; auto. split; [lia|auto].
Qed.

Lemma init_table_ok n : forall es t, length t = n ->
  (forall off fs, In (off, fs) es -> (N.to_nat off + length fs <= n)%nat /\ Forall (fun fi => func_type m fi <> None) fs) ->
  Forall entry_ok t -> exists t', init_table t es = Some t' /\ Forall entry_ok t'.
Proof.
  induction es as [|[off fs] r IH]; intros t HL HE HT; cbn [init_table]; [eauto|].
  destruct (HE off fs (or_introl eq_refl)) as [B V].
  destruct (write_elems_ok fs t (N.to_nat off)) as (t1 & -> & L1 & F1); [lia|auto|auto|].
  apply IH; auto; [lia|]. intros o f Hin. apply HE. now right.
Qed.

Lemma init_data_ok : forall ds mm, (forall off bs, In (off, bs) ds -> (off + N.of_nat (length bs) <= mem_len mm)%N) ->
  exists mm', init_data mm ds = Some mm'.
Proof.
  induction ds as [|[off bs] r IH]; intros mm H; cbn [init_data]; [eauto|].
  unfold in_bounds. rewrite (proj2 (N.leb_le _ _) (H off bs (or_introl eq_refl))).
  apply IH. intros o b Hin. rewrite mem_write_len. apply H. now right.
Qed.

Lemma instantiate_ok : segments_ok -> exists s, instantiate m = Some s /\ store_ok m s.
Proof.
  intros [HE HD]. unfold instantiate.
  set (t0 := match m_table m with Some n => repeat (@None nat) (N.to_nat n) | None => @nil (option nat) end).
  assert (T0 : (match m_table m with Some n => Some (repeat None (N.to_nat n)) | None => Some [] end) = Some t0)
    by (unfold t0; destruct (m_table m); reflexivity).
  rewrite T0.
  destruct (init_table_ok (length t0) (m_elems m) t0 eq_refl) as (t & -> & FT).
  { intros off fs Hin. destruct (HE _ _ Hin) as (n & En & B & V). split; auto.
    unfold t0. rewrite En, repeat_length. exact B. }
  { unfold t0. destruct (m_table m); [|constructor]. apply Forall_forall. intros e He. apply repeat_spec in He. subst. exact I. }
  unfold store_ok, has_mem, gtypes.
  destruct (m_mem m) as [l|] eqn:EM.
  - destruct (init_data_ok (m_data m) {| mem_pages := l_min l; mem_max := l_max l; mem_data := PositiveMap.empty Z |}) as (mm & ->).
    { intros off bs Hin. unfold mem_len. cbn. apply HD. exact Hin. }
    eexists. split; [reflexivity|]. cbn. split; [discriminate|]. split; [|exact FT].
    rewrite !map_map. reflexivity.
  - rewrite HD. eexists. split; [reflexivity|]. cbn. split; [discriminate|]. split; [|exact FT].
    rewrite !map_map. reflexivity.
Qed.

Theorem invoke_safe fuel s fi args ft :
  module_ok m -> host_ok host m -> store_ok m s ->
  nth_error (ftypes m) fi = Some ft -> tys args = ft_params ft ->
  inv_ok m ft (invoke host page_cap m fuel s fi args).
Proof.
  intros MOK HOK HS HF HA. destruct (type_sound_all host page_cap m MOK HOK fuel) as (_ & _ & IV). apply IV; auto.
Qed.

Theorem run_never_stuck_thm fuel fi args ft :
  module_ok m -> segments_ok -> host_ok host m ->
  nth_error (ftypes m) fi = Some ft -> tys args = ft_params ft ->
  run host page_cap m fuel fi args <> Stuck.
Proof.
  intros MOK SEG HOK HF HA. unfold run. destruct (instantiate_ok SEG) as (s & -> & HS).
  pose proof (invoke_safe fuel s fi args ft MOK HOK HS HF HA) as R.
  destruct (invoke host page_cap m fuel s fi args) as [r|[s' r]]; [|discriminate].
  destruct r; cbn in R; try contradiction; discriminate.
Qed.
End Run.
