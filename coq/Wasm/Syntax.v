(** * Wasm/Syntax — abstract syntax of the WebAssembly 1.0 integer subset
    (+ sign-extension operators) used by all Wasm models.

    Two presentations of code:
    - [instr]: structured instructions (block/loop/if carry their bodies) — what the
      specification's reduction rules are defined on ([Wasm/Sem.v]);
    - [opcode]: the flat sequence with [OBlock/OLoop/OIf/OElse/OEnd] delimiters — what
      the binary format contains and what the implementation's parser produces
      (types.rs [OpCode]); the compiler model ([Wasm/Compile.v]) consumes this form.
    [structure] rebuilds the nesting, [flatten] is its inverse.

    Definitions only (lemmas in [Wasm/SyntaxProofs.v]). *)
From Coq Require Import ZArith NArith List.
Import ListNotations.

Inductive valtype := T_i32 | T_i64.
(** MVP block types: no value or one value. *)
Definition blocktype := option valtype.
Record functype := { ft_params : list valtype; ft_result : option valtype }.

Definition valtype_eqb (a b : valtype) : bool :=
  match a, b with T_i32, T_i32 | T_i64, T_i64 => true | _, _ => false end.
Fixpoint valtypes_eqb (a b : list valtype) : bool :=
  match a, b with
  | [], [] => true
  | x :: a', y :: b' => valtype_eqb x y && valtypes_eqb a' b'
  | _, _ => false
  end.
Definition blocktype_eqb (a b : blocktype) : bool :=
  match a, b with
  | None, None => true
  | Some x, Some y => valtype_eqb x y
  | _, _ => false
  end.
Definition functype_eqb (a b : functype) : bool :=
  valtypes_eqb (ft_params a) (ft_params b) && blocktype_eqb (ft_result a) (ft_result b).

(** Values: an N-bit integer is a [Z] in [0, 2^N) (see [Common/IntN.v]). *)
Inductive val := VI32 (z : Z) | VI64 (z : Z).
Definition type_of_val (v : val) : valtype := match v with VI32 _ => T_i32 | VI64 _ => T_i64 end.
Definition bits (t : valtype) : Z := match t with T_i32 => 32%Z | T_i64 => 64%Z end.
Definition zero_of (t : valtype) : val := match t with T_i32 => VI32 0 | T_i64 => VI64 0 end.

Inductive unop := Clz | Ctz | Popcnt | Extend8S | Extend16S | Extend32S.
Inductive binop := Add | Sub | Mul | DivS | DivU | RemS | RemU | And | Or | Xor
                 | Shl | ShrS | ShrU | Rotl | Rotr.
Inductive relop := Eq | Ne | LtS | LtU | GtS | GtU | LeS | LeU | GeS | GeU.
(** i32.wrap_i64, i64.extend_i32_s, i64.extend_i32_u *)
Inductive cvtop := WrapI64 | ExtendI32S | ExtendI32U.
Inductive sx := SX_S | SX_U.
(** storage width of a packed memory access, in bytes: 1, 2 or 4 *)
Inductive packsize := P8 | P16 | P32.
Definition pack_bytes (p : packsize) : nat := match p with P8 => 1 | P16 => 2 | P32 => 4 end.
Definition type_bytes (t : valtype) : nat := match t with T_i32 => 4 | T_i64 => 8 end.

(** Basic (non-nesting) instructions.  The alignment hint of memory instructions has no
    semantics and is not represented.  [BTick] is the metering pseudo-instruction the
    implementation injects (types.rs [OpCode::TickEnergy]); it is not WebAssembly and
    no parsed module contains it. *)
Inductive binstr :=
| BUnreachable | BNop
| BBr (l : nat) | BBrIf (l : nat) | BBrTable (ls : list nat) (d : nat) | BReturn
| BCall (f : nat) | BCallIndirect (ty : nat)
| BDrop | BSelect
| BLocalGet (i : nat) | BLocalSet (i : nat) | BLocalTee (i : nat)
| BGlobalGet (i : nat) | BGlobalSet (i : nat)
| BLoad (t : valtype) (pk : option (packsize * sx)) (offset : N)
| BStore (t : valtype) (pk : option packsize) (offset : N)
| BMemorySize | BMemoryGrow
| BConst (t : valtype) (z : Z)          (* z is the unsigned representation *)
| BUnop (t : valtype) (op : unop)
| BBinop (t : valtype) (op : binop)
| BEqz (t : valtype)
| BRelop (t : valtype) (op : relop)
| BCvt (op : cvtop)
| BTick (n : N).

(** Structured instructions. *)
Inductive instr :=
| Basic (b : binstr)
| Block (bt : blocktype) (body : list instr)
| Loop (bt : blocktype) (body : list instr)
| If (bt : blocktype) (thn els : list instr).

(** Flat opcodes, as in the binary format. *)
Inductive opcode :=
| OEnd | OElse
| OBlock (bt : blocktype) | OLoop (bt : blocktype) | OIf (bt : blocktype)
| OBasic (b : binstr).

(** ** flatten *)
Fixpoint flatten_instr (i : instr) : list opcode :=
  match i with
  | Basic b => [OBasic b]
  | Block bt body => OBlock bt :: (flat_map flatten_instr body) ++ [OEnd]
  | Loop bt body => OLoop bt :: (flat_map flatten_instr body) ++ [OEnd]
  | If bt thn els =>
      OIf bt :: (flat_map flatten_instr thn)
             ++ match els with
                | [] => [OEnd]
                | _ => OElse :: (flat_map flatten_instr els) ++ [OEnd]
                end
  end.
Definition flatten (is : list instr) : list opcode := flat_map flatten_instr is.
(** A function body / constant expression is terminated by a final [end]. *)
Definition flatten_body (is : list instr) : list opcode := flatten is ++ [OEnd].

(** ** structure
    [parse_seq fuel ops] parses instructions up to (and consuming) the first unmatched
    delimiter and returns the instructions, that delimiter ([true] = else, [false] = end)
    and the remaining opcodes.  [fuel] bounds the recursion ([length ops + 1] suffices). *)
Fixpoint parse_seq (fuel : nat) (ops : list opcode) : option (list instr * bool * list opcode) :=
  match fuel with
  | O => None
  | S f =>
      match ops with
      | [] => None
      | OEnd :: rest => Some ([], false, rest)
      | OElse :: rest => Some ([], true, rest)
      | OBasic b :: rest =>
          match parse_seq f rest with
          | Some (is, d, r) => Some (Basic b :: is, d, r)
          | None => None
          end
      | OBlock bt :: rest =>
          match parse_seq f rest with
          | Some (body, false, r) =>
              match parse_seq f r with
              | Some (is, d, r') => Some (Block bt body :: is, d, r')
              | None => None
              end
          | _ => None
          end
      | OLoop bt :: rest =>
          match parse_seq f rest with
          | Some (body, false, r) =>
              match parse_seq f r with
              | Some (is, d, r') => Some (Loop bt body :: is, d, r')
              | None => None
              end
          | _ => None
          end
      | OIf bt :: rest =>
          match parse_seq f rest with
          | Some (thn, false, r) =>
              match parse_seq f r with
              | Some (is, d, r') => Some (If bt thn [] :: is, d, r')
              | None => None
              end
          | Some (thn, true, r) =>
              match parse_seq f r with
              | Some (els, false, r2) =>
                  match parse_seq f r2 with
                  | Some (is, d, r') => Some (If bt thn els :: is, d, r')
                  | None => None
                  end
              | _ => None
              end
          | None => None
          end
      end
  end.

(** [structure_body ops]: the instructions of a body terminated by its final [OEnd]. *)
Definition structure_body (ops : list opcode) : option (list instr) :=
  match parse_seq (S (length ops)) ops with
  | Some (is, false, []) => Some is
  | _ => None
  end.

(** ** Modules (after decoding; index spaces as in the specification: function indices
    count imports first). *)
Record func := {
  f_type : nat;                 (* index into m_types *)
  f_locals : list valtype;      (* declared locals, parameters excluded *)
  f_body : list instr
}.
Record global := { g_mut : bool; g_init : val }.
Record limits := { l_min : N; l_max : option N }.
Record module := {
  m_types : list functype;
  m_imports : list nat;                      (* type index of each imported function *)
  m_funcs : list func;
  m_table : option N;                        (* table size (funcref, not growable) *)
  m_elems : list (N * list nat);             (* offset, function indices *)
  m_mem : option limits;                     (* in pages of 64 KiB *)
  m_data : list (N * list Z);                (* offset, bytes *)
  m_globals : list global
}.

Definition page_size : N := 65536.
