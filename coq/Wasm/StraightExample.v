(** A concrete straight-line sequence satisfying the hypotheses of
    [compile_straightline_correct]: it exercises the preservation copy of [local.set] (local 0 is
    on the provider stack twice when it is overwritten), re-use of the freed reserve register,
    constant pooling (the constant 5 is used twice and stored once) and the short-circuited
    [local.set] (the multiplication writes directly into local 1). *)
From Coq Require Import ZArith NArith List.
From CB Require Import Wasm.Syntax Wasm.Compile Wasm.CompileLemmas Wasm.StraightProofs.
Import ListNotations.
Local Open Scope Z_scope.

Definition ex_cx : cctx := {| cx_func_type := fun _ => None; cx_type := fun _ => None; cx_return := Some T_i32 |}.
Definition ex_bs : list binstr :=
  [BLocalGet 0; BLocalGet 0; BConst T_i32 5; BLocalSet 0; BBinop T_i32 Add; BConst T_i32 5; BBinop T_i32 Mul;
   BLocalSet 1; BLocalGet 1; BConst T_i32 7; BBinop T_i32 Sub].

Lemma ex_straight :
  forallb straight_ok ex_bs = true
  /\ exists v' sf, compile_ops ex_cx (map OBasic ex_bs) (init_vstate (Some T_i32)) (init_cstate 2) = Some (v', sf)
       /\ c_stack sf = [PDyn 2] /\ c_next sf = 3            (* one temporary serves four purposes *)
       /\ map fst (c_consts sf) = [5; 7]                    (* 5 pooled *)
       /\ firstn 9 (c_out sf) = [ICopy; 0; 0; 0; 0; 2; 0; 0; 0]%N   (* preservation copy local 0 -> register 2 *)
       /\ nth 31 (c_out sf) 0%N = 61%N /\ nth 40 (c_out sf) 0%N = 1%N  (* i32.mul writes local 1 directly *)
       /\ c_next sf < 2147483648 /\ Z.of_nat (length (c_consts sf)) < 2147483648.
Proof.
  split; [reflexivity|]. eexists _, _. split; [vm_compute; reflexivity|]. vm_compute. repeat split; congruence.
Qed.

(** with memory instructions: a store, a sign-extending packed load, memory.grow *)
Definition ex_bs_mem : list binstr :=
  [BConst T_i32 16; BLocalGet 0; BStore T_i32 None 4; BConst T_i32 16; BLoad T_i32 (Some (P8, SX_S)) 4;
   BConst T_i32 1; BMemoryGrow; BBinop T_i32 Add; BLocalTee 1; BUnop T_i32 Extend8S].
Lemma ex_straight_mem :
  forallb straight_ok ex_bs_mem = true
  /\ exists v' sf, compile_ops ex_cx (map OBasic ex_bs_mem) (init_vstate (Some T_i32)) (init_cstate 2) = Some (v', sf)
       /\ length (c_stack sf) = 1%nat /\ map fst (c_consts sf) = [16; 1]
       /\ c_next sf < 2147483648 /\ Z.of_nat (length (c_consts sf)) < 2147483648.
Proof.
  split; [reflexivity|]. eexists _, _. split; [vm_compute; reflexivity|]. vm_compute. repeat split; congruence.
Qed.
